// C16 — input modes and argument flags mean what their in-language equivalents mean.
//
// correspondence streams (model = lean/Gojq/Model/Cli/{Stream,Inputs}.lean, driver drv_c16):
//
//	stream     real json.Decoder + real jsonStream.next on every byte-prefix of random texts
//	           vs the machine fed with the decoder's observed token list
//	tostream   real `tostream` vs streamSpec;  fromstream  real `fromstream` vs fromstreamSpec
//	inputs     the real iterator stack (createInputIter) drained vs inputIter
//
// oracle (model-free, on the real command through cli.VerifRun and the built binary):
// the equivalences of the property computed two ways / against a reference written here.
package main

import (
	"bytes"
	"context"
	"crypto/sha1"
	"encoding/json"
	"fmt"
	"io"
	"os"
	"os/exec"
	"path/filepath"
	"sort"
	"strings"
	"time"

	"github.com/itchyny/gojq"
	"github.com/itchyny/gojq/cli"

	"verifharness/c1516"
	"verifharness/common"
)

var tmpDir string

func canonSeq(vs []any, last string) string {
	parts := make([]string, 0, len(vs)+1)
	for _, v := range vs {
		parts = append(parts, common.Canon(v))
	}
	return strings.Join(append(parts, last), " ; ")
}

func keyOf(prefix, s string) string {
	if len(s) > 100 {
		return fmt.Sprintf("%s:sha1:%x", prefix, sha1.Sum([]byte(s)))
	}
	return prefix + ":" + s
}

var gctx *common.Ctx

// runaway reports a command that does not terminate (or floods its output) and ends the
// harness: nothing after it can be trusted to return.
func runaway(args []string, stdin, what string) {
	gctx.Violate(keyOf("runaway", stable(args)+"<"+stdin), fmt.Sprintf("gojq %s %s", stable(args), what),
		map[string]any{"args": args, "stdin": stdin, "observed": what, "expected": "the command terminates", "cmd": "printf %s" + shq([]string{stdin}) + " | timeout 10 gojq" + shq(args)})
	os.RemoveAll(tmpDir)
	gctx.Finish()
}

// runCmd runs the real command in-process.
func runCmd(args []string, stdin string) (stdout, stderr string, code, diags int) {
	type res struct {
		chunks []cli.VerifChunk
		code   int
	}
	ch := make(chan res, 1)
	go func() {
		defer func() {
			if rec := recover(); rec != nil {
				// the command crashed on this input: report it with the input and go on
				gctx.Violate(keyOf("command-panic", stable(args)+"<"+stdin), fmt.Sprintf("gojq %s panics: %v", stable(args), rec),
					map[string]any{"args": args, "stdin": stdin, "observed": fmt.Sprint("panic: ", rec), "expected": "outputs or a diagnostic", "cmd": "printf %s" + shq([]string{stdin}) + " | gojq" + shq(args)})
				ch <- res{[]cli.VerifChunk{{Stream: 2, Data: []byte(fmt.Sprint("panic: ", rec))}}, 2}
			}
		}()
		c, code := cli.VerifRunLog(args, []byte(stdin), false)
		ch <- res{c, code}
	}()
	var rr res
	select {
	case rr = <-ch:
	case <-time.After(30 * time.Second):
		runaway(args, stdin, "did not terminate within 30 s")
	}
	if rr.code == cli.VerifRunawayCode {
		runaway(args, stdin, fmt.Sprintf("wrote more than %d bytes", cli.VerifOutputLimit))
	}
	chunks, code := rr.chunks, rr.code
	var o, e strings.Builder
	for _, c := range chunks {
		if c.Stream == 1 {
			o.Write(c.Data)
		} else {
			e.Write(c.Data)
			if bytes.HasPrefix(c.Data, []byte("gojq: ")) {
				diags++
			}
		}
	}
	return o.String(), e.String(), code, diags
}

// parseOut decodes the JSON values of a compact stdout.
func parseOut(out string) ([]any, error) {
	dec := json.NewDecoder(strings.NewReader(out))
	dec.UseNumber()
	var vs []any
	for {
		var v any
		if err := dec.Decode(&v); err != nil {
			if err == io.EOF {
				return vs, nil
			}
			return vs, err
		}
		vs = append(vs, v)
	}
}

func canonOut(out string) string {
	vs, err := parseOut(out)
	if err != nil {
		return canonSeq(vs, "UNPARSABLE "+err.Error())
	}
	return canonSeq(vs, "END")
}

// streamReal drives the real jsonStream over the real decoder until it returns an error.
func streamReal(data []byte) (evs []any, fin string) {
	defer func() {
		if r := recover(); r != nil {
			fin = "PANIC"
		}
	}()
	next := cli.VerifStream(bytes.NewReader(data))
	for i := 0; i < 1<<16; i++ {
		v, err := next()
		if err != nil {
			if err == io.EOF {
				return evs, "EOF"
			}
			return evs, "ERR"
		}
		evs = append(evs, v)
	}
	return evs, "RUNAWAY"
}

// tokLine is the protocol line for the decoder's observed token list.
func tokLine(data []byte) string {
	toks, err := cli.VerifTokens(data)
	parts := make([]string, 0, len(toks)+1)
	for _, t := range toks {
		if d, ok := t.(json.Delim); ok {
			parts = append(parts, string(rune(d)))
		} else {
			parts = append(parts, common.Canon(t))
		}
	}
	if err == io.EOF {
		parts = append(parts, "EOF")
	} else {
		parts = append(parts, "ERR")
	}
	return strings.Join(parts, " ")
}

func fullEvents(docs []*node) []any {
	var out []any
	for _, d := range docs {
		d.events(nil, &out)
	}
	return out
}

func values(docs []*node) []any {
	vs := make([]any, len(docs))
	for i, d := range docs {
		vs[i] = d.value()
	}
	return vs
}

func writeFile(name, content string) string {
	p := filepath.Join(tmpDir, name)
	if err := os.WriteFile(p, []byte(content), 0o644); err != nil {
		panic(err)
	}
	return p
}

func shq(args []string) string {
	var sb strings.Builder
	for _, a := range args {
		sb.WriteString(" '" + strings.ReplaceAll(a, "'", `'\''`) + "'")
	}
	return sb.String()
}

func main() {
	ctx := common.ParseFlags("C16")
	gctx = ctx
	r := ctx.R
	var err error
	if tmpDir, err = os.MkdirTemp("", "verif-c16-"); err != nil {
		panic(err)
	}
	defer os.RemoveAll(tmpDir)

	streamCorrespondence(ctx, r.Fork(1))
	specStreams(ctx, r.Fork(2))
	inputsCorrespondence(ctx, r.Fork(3))
	modeOracle(ctx, r.Fork(4))
	argsOracle(ctx, r.Fork(5))
	c1516.FlagsCorrespondence(ctx, r.Fork(7))
	binaryOracle(ctx, r.Fork(6))

	os.RemoveAll(tmpDir)
	ctx.Finish()
}

// ---------------------------------------------------------------------------------------
// --stream at every byte cut: correspondence + reference expectation
// ---------------------------------------------------------------------------------------

func streamCorrespondence(ctx *common.Ctx, r *common.Rand) {
	st := ctx.NewStream("stream", "Gojq.Stream.next/run (Model/Cli/Stream.lean = cli/stream.go jsonStream.next)",
		"every byte-prefix of random multi-document texts (objects in arbitrary member order, random whitespace and escapes, top-level scalars, empty containers, siblings after nested closes): the real decoder's token list goes to the model, events and end are compared; distinct = distinct implementation answers")
	orc := ctx.NewOracle("stream-cuts", "same cuts, model-free: emitted events must be the first n events of a reference tostream computed on the ordered document tree, n = number of value-completing tokens wholly before the cut (plus the one number a cut literal still denotes), then EOF at a document boundary / error inside a document; distinct = distinct (text, cut) pairs with at least one event or an error")
	var lines, impl []string
	distinct := 0
	nDocs := ctx.N(1500, 20000)
	for i := 0; i < nDocs; i++ {
		docs := randDocs(r, 3, false)
		text, spans := render(r, docs, r.Chance(1, 5))
		full := fullEvents(docs)
		st.Distribution[fmt.Sprintf("docs=%d", len(docs))]++
		st.Distribution[fmt.Sprintf("events=%d0s", len(full)/10)]++
		step := 1
		if len(text) > 400 && !ctx.Thorough {
			step = 3
		}
		for k := 0; k <= len(text); k += step {
			data := []byte(text[:k])
			evs, fin := streamReal(data)
			lines = append(lines, tokLine(data))
			got := canonSeq(evs, fin)
			impl = append(impl, got)
			// reference expectation
			n, partial, clean := expectCut(text, spans, k)
			want := append([]any{}, full[:n]...)
			if partial != nil {
				ev := full[n].([]any)
				want = append(want, []any{ev[0], common.NormalizeNumber(json.Number(*partial))})
			}
			wfin := "ERR"
			if clean {
				wfin = "EOF"
			}
			orc.Cases++
			if len(want) > 0 || !clean {
				distinct++
			}
			switch {
			case partial != nil:
				orc.Distribution["cut inside a number"]++
			case clean:
				orc.Distribution["cut at a document boundary"]++
			default:
				orc.Distribution["cut inside a document"]++
			}
			if w := canonSeq(want, wfin); w != got {
				ctx.Violate(keyOf("stream-cut", text),
					fmt.Sprintf("--stream on %q cut at byte %d: events differ from the reference", clip(text), k),
					map[string]any{"text": text, "cut": k, "observed": got, "expected": w,
						"cmd": fmt.Sprintf("printf %%s %s | head -c %d | gojq -c --stream .", shq([]string{text}), k)})
			}
		}
	}
	orc.Distinct = distinct
	orc.Samples = []string{`[[],1] cut after "[[]," -> [[0],[]] then error`, `12 cut from 123 at top level -> [[],12] then EOF`, `{"b":1,"a":[]} -> member order of the text`}
	ctx.RunStream(st, lines, impl)
}

// stable renders an argument list without the run-specific temp directory.
func stable(args []string) string {
	return strings.ReplaceAll(fmt.Sprint(args), tmpDir, "$TMP")
}

func clip(s string) string {
	if len(s) > 120 {
		return s[:120] + "…"
	}
	return s
}

// ---------------------------------------------------------------------------------------
// tostream / fromstream specifications vs the real builtins
// ---------------------------------------------------------------------------------------

func compile(src string) *gojq.Code {
	q, err := gojq.Parse(src)
	if err != nil {
		panic(err)
	}
	c, err := gojq.Compile(q)
	if err != nil {
		panic(err)
	}
	return c
}

func runAll(c *gojq.Code, v any) (outs []any, failed bool) {
	it := c.Run(v)
	for {
		x, ok := it.Next()
		if !ok {
			return outs, false
		}
		if _, ok := x.(error); ok {
			return outs, true
		}
		outs = append(outs, x)
	}
}

func specStreams(ctx *common.Ctx, r *common.Rand) {
	ts := ctx.NewStream("tostream", "Gojq.Stream.streamSpec (= builtin.jq tostream)", "random documents through the real `tostream`; distinct = distinct answers")
	fs := ctx.NewStream("fromstream", "Gojq.Stream.fromstreamSpec, setpath fragment (= builtin.jq fromstream)", "event lists: tostream of 1..3 documents concatenated, every prefix of some, and lightly corrupted lists (dropped/duplicated/swapped events) through the real `fromstream`; distinct = distinct answers")
	toC, fromC := compile("tostream"), compile("fromstream(.[])")
	opts := common.DefaultGen
	var tl, ti, fl, fi []string
	for i := 0; i < ctx.N(3000, 40000); i++ {
		var evs []any
		for d, nd := 0, r.Range(1, 3); d < nd; d++ {
			v := common.RandValue(r, opts, 0)
			if r.Chance(1, 8) {
				v = common.Pick(r, shapes)()
			}
			outs, _ := runAll(toC, v)
			tl = append(tl, common.Canon(v))
			ti = append(ti, canonSeq(outs, "END"))
			evs = append(evs, outs...)
		}
		variants := [][]any{evs}
		if len(evs) > 1 {
			variants = append(variants, evs[:r.Intn(len(evs))])
			c := append([]any{}, evs...)
			j := r.Intn(len(c))
			switch r.Intn(3) {
			case 0:
				c = append(c[:j], c[j+1:]...)
				fs.Distribution["dropped event"]++
			case 1:
				c = append(c[:j+1], c[j:]...)
				fs.Distribution["duplicated event"]++
			default:
				k := r.Intn(len(c))
				c[j], c[k] = c[k], c[j]
				fs.Distribution["swapped events"]++
			}
			variants = append(variants, c)
		}
		for _, e := range variants {
			outs, failed := runAll(fromC, e)
			parts := make([]string, len(e))
			for i, x := range e {
				parts[i] = common.Canon(x)
			}
			fl = append(fl, strings.Join(parts, " "))
			if failed {
				fi = append(fi, canonSeq(outs, "ERR"))
			} else {
				fi = append(fi, canonSeq(outs, "END"))
			}
		}
	}
	ctx.RunStream(ts, tl, ti)
	ctx.RunStream(fs, fl, fi)
}

// ---------------------------------------------------------------------------------------
// input layouts: documents split over files and stdin
// ---------------------------------------------------------------------------------------

var badTails = []string{"]", `{"a":`, "[1,", "tru", `"abc`, `{"a" 1}`, "[1 2]", "nul", "{,}", "}", `{"a":1,}`, "[1,]", "@"}

type source struct {
	docs    []*node
	bad     string // malformed tail ("" = well-formed)
	after   string // text after the malformed document (must be ignored)
	text    string
	isStdin bool
	missing bool
	path    string
}

type layout struct {
	stdin source
	args  []*source // in command-line order; entries with isStdin denote "-"
}

func (s *source) build(r *common.Rand) {
	s.text, _ = render(r, s.docs, false)
	if len(s.docs) == 0 {
		s.text = common.Pick(r, []string{"", " ", "\n"})
	}
	if s.bad != "" {
		s.text += "\n" + s.bad + s.after
	}
}

func genLayout(r *common.Rand, allowBad, allowMissing bool, name string) *layout {
	l := &layout{}
	mk := func() source {
		s := source{}
		if r.Chance(4, 5) {
			s.docs = randDocs(r, 4, false)
		}
		if allowBad && r.Chance(1, 4) {
			s.bad = common.Pick(r, badTails)
			if r.Bool() {
				s.after = common.Pick(r, []string{" 7 8", "\n7", " 1 2 3"})
			}
		}
		s.build(r)
		return s
	}
	l.stdin = mk()
	l.stdin.isStdin = true
	nf := r.Intn(4)
	for i := 0; i < nf; i++ {
		s := mk()
		if allowMissing && r.Chance(1, 10) {
			s = source{missing: true, path: filepath.Join(tmpDir, "missing-"+name+".json")}
		} else {
			s.path = writeFile(fmt.Sprintf("%s-%d.json", name, i), s.text)
		}
		l.args = append(l.args, &s)
	}
	if nf > 0 && r.Chance(1, 2) {
		j := r.Intn(nf + 1)
		l.args = append(l.args[:j], append([]*source{&l.stdin}, l.args[j:]...)...)
		if l.stdin.bad == "" && r.Chance(1, 6) {
			l.args = append(l.args, &l.stdin) // "-" twice: the second finds stdin exhausted
		}
	}
	return l
}

func (l *layout) fileArgs() []string {
	var a []string
	for _, s := range l.args {
		if s.isStdin {
			a = append(a, "-")
		} else {
			a = append(a, s.path)
		}
	}
	return a
}

// sequence is what the iterator must deliver in default mode: values and error markers.
func (l *layout) sequence() (items []any, nerr int) {
	srcs := l.args
	if len(srcs) == 0 {
		srcs = []*source{&l.stdin}
	}
	stdinUsed := false
	for _, s := range srcs {
		if s.missing {
			items = append(items, errMark{})
			nerr++
			continue
		}
		if s.isStdin {
			if stdinUsed {
				continue
			}
			stdinUsed = true
		}
		items = append(items, values(s.docs)...)
		if s.bad != "" {
			items = append(items, errMark{})
			nerr++
		}
	}
	return
}

type errMark struct{}

func onlyValues(items []any) []any {
	var vs []any
	for _, x := range items {
		if _, ok := x.(errMark); !ok {
			vs = append(vs, x)
		}
	}
	return vs
}

func (l *layout) describe() map[string]any {
	m := map[string]any{"stdin": l.stdin.text}
	var fs []string
	for _, s := range l.args {
		switch {
		case s.isStdin:
			fs = append(fs, "-")
		case s.missing:
			fs = append(fs, "<missing file>")
		default:
			fs = append(fs, "file:"+s.text)
		}
	}
	m["args"] = fs
	return m
}

// ---------------------------------------------------------------------------------------
// the iterator stack vs Inputs.lean
// ---------------------------------------------------------------------------------------

func inputsCorrespondence(ctx *common.Ctx, r *common.Rand) {
	st := ctx.NewStream("inputs", "Gojq.Inputs.inputIter (Model/Cli/Inputs.lean = cli/inputs.go + cli.createInputIter)",
		"modes default, -s, -R, -Rs, --stream, --stream -s over 0..3 files and stdin (\"-\" anywhere, twice, missing files, malformed tails followed by more text): the real iterator stack is drained; distinct = distinct answers")
	modes := []struct {
		name               string
		raw, stream, slurp bool
	}{{"d", false, false, false}, {"s", false, false, true}, {"R", true, false, false}, {"Rs", true, false, true}, {"S", false, true, false}, {"Ss", false, true, true}}
	var lines, impl []string
	for i := 0; i < ctx.N(4000, 60000); i++ {
		m := modes[r.Intn(len(modes))]
		l := genLayout(r, true, true, "in")
		if m.raw && r.Bool() {
			// line-oriented texts
			l.stdin.text = randText(r)
			for _, s := range l.args {
				if !s.missing && !s.isStdin {
					s.text = randText(r)
					os.WriteFile(s.path, []byte(s.text), 0o644)
				}
			}
		}
		content := func(s *source) string {
			switch {
			case m.raw:
				return "T" + common.Hex(s.text)
			case m.stream:
				return "X " + tokLine([]byte(s.text))
			}
			var parts []string
			for _, d := range s.docs {
				parts = append(parts, "V "+common.Canon(d.value()))
			}
			if s.bad != "" {
				parts = append(parts, "B")
			}
			return strings.Join(parts, " ")
		}
		fields := []string{m.name, content(&l.stdin)}
		for _, s := range l.args {
			switch {
			case s.isStdin:
				fields = append(fields, "-")
			case s.missing:
				fields = append(fields, "M")
			default:
				fields = append(fields, "F "+content(s))
			}
		}
		items, pmsg := safeInputs(m.raw, m.stream, m.slurp, l.fileArgs(), []byte(l.stdin.text))
		if pmsg != "" {
			ctx.Violate("inputs-panic:"+m.name+":"+common.Hex(l.stdin.text)[:min(40, 2*len(l.stdin.text))], fmt.Sprintf("the command's input iterator panics in mode %s: %s", m.name, pmsg),
				map[string]any{"mode": m.name, "stdin": l.stdin.text, "files": fields[2:], "panic": pmsg, "cmd": "gojq " + m.name + " . <files> with the given stdin"})
			items = append(items, fmt.Errorf("panic"))
		}
		if len(items) >= 1<<16 {
			runaway(append([]string{"<iterator stack, mode " + m.name + ">"}, l.fileArgs()...), l.stdin.text, "the input iterator never ends")
		}
		parts := make([]string, 0, len(items)+1)
		for _, it := range items {
			if _, ok := it.(error); ok {
				parts = append(parts, "E")
			} else {
				parts = append(parts, common.Canon(it))
			}
		}
		lines = append(lines, strings.Join(fields, " | "))
		impl = append(impl, strings.Join(append(parts, "END"), " ; "))
		st.Distribution["mode "+m.name]++
		st.Distribution[fmt.Sprintf("files=%d", len(l.args))]++
	}
	ctx.RunStream(st, lines, impl)
}

func randText(r *common.Rand) string {
	var sb strings.Builder
	for i, n := 0, r.Intn(6); i < n; i++ {
		if r.Chance(1, 12) {
			// a long line: readers with fixed buffers (4 KiB bufio, 64 KiB bufio.Scanner tokens)
			n := common.Pick(r, []int{4095, 4096, 4097, 8192, 65535, 65536, 65537, 70000, 131073})
			unit := common.Pick(r, []string{"a", "é", "x y", "\r"})
			long := strings.Repeat(unit, n/len(unit))
			sb.WriteString(long + strings.Repeat("z", n-len(long))) // exactly n bytes, valid UTF-8
		}
		sb.WriteString(common.Pick(r, []string{"", "a", "line two", "é漢", "x\ty", "\r", "{\"a\":1}", " ", "\x00", "tail\\n"}))
		sb.WriteString(common.Pick(r, []string{"\n", "\n", "\n", "\r\n", "\n\n"}))
	}
	if r.Bool() {
		sb.WriteString(common.Pick(r, []string{"last", "x", " ", "é"}))
	}
	return sb.String()
}

func refLines(text string) []any {
	var out []any
	for text != "" {
		i := strings.IndexByte(text, '\n')
		if i < 0 {
			out = append(out, text)
			break
		}
		out = append(out, text[:i])
		text = text[i+1:]
	}
	return out
}

// ---------------------------------------------------------------------------------------
// oracle: the equivalences of the property on the real command
// ---------------------------------------------------------------------------------------

func modeOracle(ctx *common.Ctx, r *common.Rand) {
	orc := ctx.NewOracle("modes", "the real command (cli.run in-process) under each mode vs its in-language equivalent or a reference written in the harness: --stream = reference tostream in text order = `tostream` on key-sorted text, `fromstream(inputs)` rebuilds every document, truncation = prefix + status 5; -s . = -n [inputs]; input/inputs consume files and stdin in order exactly once; input past the end fails; a malformed document gives all earlier values, one diagnostic, status 5; -R = lines, -Rs = whole text; distinct = distinct (check, layout) pairs run")
	distinct := 0
	viol := func(kind, key, what string, rep map[string]any) {
		rep["check"] = kind
		ctx.Violate(keyOf(kind, key), kind+": "+what, rep)
	}
	count := func(kind string) { orc.Cases++; distinct++; orc.Distribution[kind]++ }

	// ---- deep nesting: whatever the plain reader accepts, --stream accepts too and emits
	//      tostream's events (the decoder's nesting limit is 10000; the token reader has none)
	for _, d := range []int{1, 2, 3, 64, 1000, 4999, 5000, 9998, 9999, 10000} {
		for _, shape := range []string{"[", "{"} {
			text := strings.Repeat("[", d) + strings.Repeat("]", d) + "\n"
			if shape == "{" {
				text = strings.Repeat("{\"a\":", d-1) + "{}" + strings.Repeat("}", d-1) + "\n"
			}
			_, _, code0, _ := runCmd([]string{"-c", "length"}, text)
			if code0 != 0 {
				continue // the plain reader rejects it: outside the claim
			}
			// (the events of a document nested d levels take O(d²) bytes: compare event count, the
			// length of every event and of every path instead of the text)
			a, _, codeA, _ := runCmd([]string{"-c", "--stream", "[length, (.[0] | length)]"}, text)
			b, _, codeB, _ := runCmd([]string{"-c", "tostream | [length, (.[0] | length)]"}, text)
			count("deep nesting: --stream = tostream")
			if a != b || codeA != codeB {
				viol("stream-deep", fmt.Sprintf("%s×%d", shape, d), fmt.Sprintf("a document nested %d levels (%s): --stream gives status %d and %d bytes, tostream status %d and %d bytes", d, shape, codeA, len(a), codeB, len(b)),
					map[string]any{"depth": d, "shape": shape, "stream_status": codeA, "tostream_status": codeB, "cmd": fmt.Sprintf("python3 -c 'print(\"[\"*%d+\"]\"*%d)' | gojq -c --stream \"[length, (.[0] | length)]\"   # vs: gojq -c \"tostream | [length, (.[0] | length)]\"", d, d)})
			}
		}
	}
	// ---- --stream through the command
	for i := 0; i < ctx.N(600, 10000); i++ {
		docs := randDocs(r, 3, false)
		text, spans := render(r, docs, false)
		full := fullEvents(docs)
		out, _, code, _ := runCmd([]string{"-c", "--stream", "."}, text)
		count("--stream = reference tostream (text order)")
		if got, want := canonOut(out), canonSeq(full, "END"); got != want || code != 0 {
			viol("stream-events", text, fmt.Sprintf("gojq -c --stream . on %q", clip(text)),
				map[string]any{"text": text, "observed": got, "status": code, "expected": want, "cmd": "printf %s" + shq([]string{text}) + " | gojq -c --stream ."})
		}
		out2, _, code2, _ := runCmd([]string{"-cn", "fromstream(inputs)"}, out)
		count("fromstream(inputs) rebuilds")
		if got, want := canonOut(out2), canonSeq(values(docs), "END"); got != want || code2 != 0 {
			viol("stream-rebuild", text, fmt.Sprintf("gojq -c --stream . | gojq -cn 'fromstream(inputs)' on %q", clip(text)),
				map[string]any{"text": text, "observed": got, "status": code2, "expected": want, "cmd": "printf %s" + shq([]string{text}) + " | gojq -c --stream . | gojq -cn 'fromstream(inputs)'"})
		}
		// key-sorted text: exactly `tostream`
		sdocs := make([]*node, len(docs))
		for j, d := range docs {
			sdocs[j] = fromValue(r, d.value(), true)
		}
		stext, _ := render(r, sdocs, false)
		a, _, _, _ := runCmd([]string{"-c", "--stream", "."}, stext)
		b, _, _, _ := runCmd([]string{"-c", "tostream"}, stext)
		count("--stream = tostream on key-sorted text")
		if a != b {
			viol("stream-vs-tostream", stext, fmt.Sprintf("--stream and tostream differ on %q", clip(stext)),
				map[string]any{"text": stext, "observed": a, "expected": b, "cmd": "printf %s" + shq([]string{stext}) + " | gojq -c --stream .   # vs: gojq -c tostream"})
		}
		// truncation through the command
		for j := 0; j < 3; j++ {
			k := r.Intn(len(text) + 1)
			n, partial, clean := expectCut(text, spans, k)
			want := append([]any{}, full[:n]...)
			if partial != nil {
				want = append(want, []any{full[n].([]any)[0], common.NormalizeNumber(json.Number(*partial))})
			}
			wcode, wdiag := 5, 1
			if clean {
				wcode, wdiag = 0, 0
			}
			out, _, code, diags := runCmd([]string{"-c", "--stream", "."}, text[:k])
			count("--stream on a truncated text")
			if got, w := canonOut(out), canonSeq(want, "END"); got != w || code != wcode || diags != wdiag {
				viol("stream-truncated", fmt.Sprintf("%q@%d", text, k), fmt.Sprintf("gojq -c --stream . on %q cut at %d: got status %d, %d diagnostics", clip(text), k, code, diags),
					map[string]any{"text": text, "cut": k, "observed": got, "status": code, "diagnostics": diags, "expected": w, "expected_status": wcode,
						"cmd": fmt.Sprintf("printf %%s%s | head -c %d | gojq -c --stream .", shq([]string{text}), k)})
			}
		}
	}

	// ---- layouts: default / -s / -n
	for i := 0; i < ctx.N(1200, 20000); i++ {
		l := genLayout(r, i%3 == 0, i%5 == 0, "lay")
		items, nerr := l.sequence()
		vals := onlyValues(items)
		fa := l.fileArgs()
		rep := func(extra map[string]any) map[string]any {
			m := l.describe()
			for k, v := range extra {
				m[k] = v
			}
			return m
		}
		key := fmt.Sprint(l.describe())

		// default mode: every complete value, one diagnostic per malformed/missing source, status
		out, _, code, diags := runCmd(append([]string{"-c", "."}, fa...), l.stdin.text)
		wcode := 0
		if nerr > 0 {
			wcode = 5
		}
		count("default mode: values in order, one diagnostic per bad source")
		if got, want := canonOut(out), canonSeq(vals, "END"); got != want || code != wcode || diags != nerr {
			viol("malformed-tail", key, fmt.Sprintf("gojq -c . %v: status %d (want %d), %d diagnostics (want %d)", fa, code, wcode, diags, nerr),
				rep(map[string]any{"observed": got, "expected": want, "status": code, "cmd": "gojq -c ." + shq(fa)}))
		}

		// -s . = -n [inputs]
		a, _, ca, da := runCmd(append([]string{"-c", "-s", "."}, fa...), l.stdin.text)
		b, _, cb, db := runCmd(append([]string{"-c", "-n", "[inputs]"}, fa...), l.stdin.text)
		count("-s . = -n [inputs]")
		if a != b || ca != cb || (da > 0) != (db > 0) {
			viol("slurp-eq-inputs", key, fmt.Sprintf("-s . gives %q (status %d), -n [inputs] gives %q (status %d)", clip(a), ca, clip(b), cb),
				rep(map[string]any{"observed": a, "expected": b, "cmd": "gojq -c -s ." + shq(fa) + "   # vs: gojq -c -n '[inputs]'" + shq(fa)}))
		}
		if nerr == 0 {
			if got, want := canonOut(a), canonSeq([]any{append([]any{}, vals...)}, "END"); got != want || ca != 0 {
				viol("slurp-value", key, "-s . is not the array of all documents in order", rep(map[string]any{"observed": got, "expected": want, "cmd": "gojq -c -s ." + shq(fa)}))
			}
		} else if a != "" || ca != 5 {
			viol("slurp-error", key, fmt.Sprintf("-s . with a malformed source printed %q, status %d", clip(a), ca), rep(map[string]any{"observed": a, "cmd": "gojq -c -s ." + shq(fa)}))
		}
		if nerr > 0 {
			continue
		}

		// -n 'input, …, input, [inputs]'
		k := r.Intn(len(vals) + 2)
		q := strings.Repeat("input, ", k) + "[inputs]"
		out, _, code, _ = runCmd(append([]string{"-c", "-n", q}, fa...), l.stdin.text)
		var want []any
		wcode = 0
		if k <= len(vals) {
			want = append(append([]any{}, vals[:k]...), append([]any{}, vals[k:]...))
		} else {
			want, wcode = vals, 5
		}
		count("-n: k × input then [inputs]")
		if got, w := canonOut(out), canonSeq(want, "END"); got != w || code != wcode {
			viol("inputs-in-order", key+fmt.Sprint(k), fmt.Sprintf("gojq -c -n '%s' %v: status %d (want %d)", clip(q), fa, code, wcode),
				rep(map[string]any{"query": q, "observed": got, "expected": w, "status": code, "cmd": "gojq -c -n " + shq([]string{q}) + shq(fa)}))
		}

		// without -n: `.` and `input` share the iterator
		out, _, code, _ = runCmd(append([]string{"-c", "[., input]"}, fa...), l.stdin.text)
		want, wcode = nil, 0
		for j := 0; j+1 < len(vals); j += 2 {
			want = append(want, []any{vals[j], vals[j+1]})
		}
		if len(vals)%2 == 1 {
			wcode = 5
		}
		count("[., input] pairs")
		if got, w := canonOut(out), canonSeq(want, "END"); got != w || code != wcode {
			viol("input-pairs", key, fmt.Sprintf("gojq -c '[., input]' %v: status %d (want %d)", fa, code, wcode),
				rep(map[string]any{"observed": got, "expected": w, "status": code, "cmd": "gojq -c '[., input]'" + shq(fa)}))
		}

		// input past the end
		out, _, code, diags = runCmd(append([]string{"-c", "-n", "[inputs] | length, input"}, fa...), l.stdin.text)
		count("input past the end is an error")
		if got, w := canonOut(out), canonSeq([]any{len(vals)}, "END"); got != w || code != 5 || diags != 1 {
			viol("input-past-end", key, fmt.Sprintf("`input` after `[inputs]`: stdout %q status %d", clip(out), code),
				rep(map[string]any{"observed": got, "expected": w, "status": code, "cmd": "gojq -c -n '[inputs] | length, input'" + shq(fa)}))
		}
	}

	// ---- -R / -Rs
	for i := 0; i < ctx.N(600, 10000); i++ {
		stdin := randText(r)
		var fa []string
		var texts []string
		nf := r.Intn(3)
		for j := 0; j < nf; j++ {
			t := randText(r)
			fa = append(fa, writeFile(fmt.Sprintf("raw-%d.txt", j), t))
			texts = append(texts, t)
		}
		if nf == 0 {
			texts = []string{stdin}
		} else if r.Bool() {
			j := r.Intn(nf + 1)
			fa = append(fa[:j], append([]string{"-"}, fa[j:]...)...)
			texts = append(texts[:j], append([]string{stdin}, texts[j:]...)...)
		}
		var lines []any
		for _, t := range texts {
			lines = append(lines, refLines(t)...)
		}
		whole := strings.Join(texts, "")
		rep := map[string]any{"stdin": stdin, "files": texts}
		key := fmt.Sprintf("%q", texts)
		chk := func(kind string, args []string, want []any) {
			out, _, code, _ := runCmd(append(args, fa...), stdin)
			count(kind)
			if got, w := canonOut(out), canonSeq(want, "END"); got != w || code != 0 {
				viol("raw:"+kind, key, fmt.Sprintf("gojq %v on texts %q", args, clip(key)),
					map[string]any{"layout": rep, "observed": got, "expected": w, "status": code, "cmd": "gojq" + shq(args) + shq(fa)})
			}
		}
		chk("-R . = lines", []string{"-c", "-R", "."}, lines)
		chk("-Rs . = whole text", []string{"-c", "-Rs", "."}, []any{whole})
		chk("-R -s . = whole text", []string{"-c", "-R", "-s", "."}, []any{whole})
		chk("-Rn [inputs] = lines", []string{"-c", "-R", "-n", "[inputs]"}, []any{append([]any{}, lines...)})
		chk("-Rn input = first line", []string{"-c", "-R", "-n", "[limit(1; inputs)]"}, []any{append([]any{}, lines[:min(1, len(lines))]...)})
	}
	orc.Distinct = distinct
	orc.Samples = []string{"gojq -c -s . f1 - f2  vs  gojq -c -n '[inputs]' f1 - f2", "gojq -c --stream . | gojq -cn 'fromstream(inputs)'", "printf 'a\\nb' | gojq -R ."}
}

// ---------------------------------------------------------------------------------------
// --arg family, --args/--jsonargs, -f
// ---------------------------------------------------------------------------------------

func argsOracle(ctx *common.Ctx, r *common.Rand) {
	orc := ctx.NewOracle("args", "named bindings through --arg/--argjson/--slurpfile/--rawfile (1..5 bindings over 4 names, so names repeat within and across flags: the first binding must win in $name and $ARGS.named), positional through --args/--jsonargs (interleaved, after `--`), flags before/after the query, each under a random input mode of the main input (-R, --stream, -s, -R -s, --yaml-input: the named arguments must not depend on it); -f file vs the file's text as the query argument; distinct = distinct argument lists")
	seen := map[string]bool{}
	jsonPool := []string{`1`, `"s"`, `{"k":[1]}`, `null`, `[]`, `[1,{"a":null}]`, `1.5`, `100000000000000000000`}
	strPool := []string{"p", "q r", "", "1", "é", "null", "a\nb", "{\"x\":1}"}
	parse := func(s string) any {
		vs, err := parseOut(s)
		if err != nil || len(vs) != 1 {
			panic("bad pool entry " + s)
		}
		return vs[0]
	}
	for i := 0; i < ctx.N(1500, 25000); i++ {
		named := map[string]any{}
		var flags []string
		var order []string
		for j, n := 0, r.Range(0, 5); j < n; j++ {
			name := common.Pick(r, []string{"a", "b", "c", "d"})
			var val any
			switch r.Intn(4) {
			case 0:
				s := common.Pick(r, strPool)
				flags = append(flags, "--arg", name, s)
				val = s
			case 1:
				s := common.Pick(r, jsonPool)
				flags = append(flags, "--argjson", name, s)
				val = parse(s)
			case 2:
				docs := randDocs(r, 3, false)
				text, _ := render(r, docs, false)
				flags = append(flags, "--slurpfile", name, writeFile(fmt.Sprintf("slurp-%d.json", j), text))
				val = values(docs)
			default:
				s := randText(r)
				flags = append(flags, "--rawfile", name, writeFile(fmt.Sprintf("rawfile-%d.txt", j), s))
				val = s
			}
			if _, ok := named[name]; !ok {
				named[name] = val
				order = append(order, name)
			}
		}
		q := "[$ARGS.named, $ARGS.positional"
		want := []any{named}
		sort.Strings(order)
		var direct []any
		for _, n := range order {
			q += ", $" + n
			direct = append(direct, named[n])
		}
		q += "]"
		// positional
		positional := []any{}
		var pos []string
		dashdash := false
		for j, n := 0, r.Intn(4); j < n; j++ {
			if r.Bool() {
				pos = append(pos, "--args")
				for k, m := 0, r.Intn(3); k < m; k++ {
					s := common.Pick(r, strPool)
					if strings.HasPrefix(s, "-") {
						continue
					}
					pos = append(pos, s)
					positional = append(positional, s)
				}
			} else {
				pos = append(pos, "--jsonargs")
				for k, m := 0, r.Intn(3); k < m; k++ {
					s := common.Pick(r, jsonPool)
					pos = append(pos, s)
					positional = append(positional, parse(s))
				}
			}
		}
		lastJSON := false
		for _, p := range pos {
			if p == "--args" {
				lastJSON = false
			} else if p == "--jsonargs" {
				lastJSON = true
			}
		}
		if len(pos) > 0 && r.Chance(1, 4) {
			// after `--` nothing is a flag any more; the free arguments still go to the current positional kind
			dashdash = true
			if lastJSON {
				pos = append(pos, "--", "-1", "-2.5")
				positional = append(positional, -1, -2.5)
			} else {
				pos = append(pos, "--", "-x", "--arg")
				positional = append(positional, "-x", "--arg")
			}
		}
		want = append(want, positional)
		want = append(want, direct...)
		// the input mode chosen for the MAIN input must not change how named arguments are read
		base := append([]string{"-nc"}, common.Pick(r, [][]string{nil, nil, {"-R"}, {"--stream"}, {"-R", "-s"}, {"-s"}, {"--yaml-input"}, {"--stream", "-s"}})...)
		orc.Distribution["main-input-mode:"+strings.Join(base[1:], "")]++
		var args []string
		switch {
		case dashdash || len(pos) == 0:
			// everything after `--` is positional, so the flags come first
			if r.Bool() {
				args = append(append(append(append([]string{}, base...), flags...), q), pos...)
			} else {
				args = append(append(append(append([]string{}, base...), q), flags...), pos...)
			}
		case r.Chance(1, 3):
			// query after --args: the first free argument is still the query
			args = append(append(append(append([]string{}, base...), flags...), pos[0], q), pos[1:]...)
		case r.Bool():
			// named flags after the positional ones are still flags
			args = append(append(append(append([]string{}, base...), q), pos...), flags...)
		default:
			args = append(append(append(append([]string{}, base...), q), flags...), pos...)
		}
		out, errs, code, _ := runCmd(args, "")
		orc.Cases++
		orc.Distribution[fmt.Sprintf("bindings=%d positional-groups=%d", len(flags)/3, len(pos))]++
		seen[stable(args)] = true
		if got, w := canonOut(out), canonSeq([]any{want}, "END"); got != w || code != 0 {
			ctx.Violate(keyOf("args-binding", stable(args)), fmt.Sprintf("gojq %v: $ARGS / $name differ from the first-binding-wins expectation (status %d)", args, code),
				map[string]any{"args": args, "observed": got, "stderr": errs, "expected": w, "cmd": "gojq" + shq(args)})
		}
	}

	// -f file = the file's text
	queries := []string{".", ".[0]?", "[., 1]", "def f: . + 1; f?", ". as $x | [$x, $x]", "\"a\\(.)b\"", "# comment\n.", " . ", ".\n|\n[.]", "..", "[.[]?]",
		"[limit(2; .[]?)]", "error(\"x\")", ".a.b?", "{a: .}", "1 +", "[", ". | ", "input", "[., input]", "\t.\n\n", "try error(\"x\") catch .", "\"\\u00e9\"", "reduce .[]? as $x (0; . + 1)"}
	for i := 0; i < ctx.N(400, 6000); i++ {
		q := common.Pick(r, queries)
		docs := randDocs(r, 3, false)
		text, _ := render(r, docs, false)
		qf := writeFile("query.jq", q)
		inf := writeFile("fromfile-in.json", text)
		var a, b []string
		stdin := ""
		if r.Bool() {
			a, b = []string{"-c", "-f", qf, inf}, []string{"-c", q, inf}
		} else {
			a, b, stdin = []string{"-c", "-f", qf}, []string{"-c", q}, text
		}
		oa, _, ca, da := runCmd(a, stdin)
		ob, _, cb, db := runCmd(b, stdin)
		orc.Cases++
		orc.Distribution["-f file = text"]++
		seen[fmt.Sprint(a, text)] = true
		if oa != ob || ca != cb || da != db {
			ctx.Violate(keyOf("from-file", q+"\x00"+text), fmt.Sprintf("-f file (status %d, stdout %q) differs from passing its text %q (status %d, stdout %q)", ca, clip(oa), q, cb, clip(ob)),
				map[string]any{"query": q, "input": text, "observed": oa, "expected": ob, "cmd": "gojq -c -f query.jq   # vs: gojq -c " + shq([]string{q})})
		}
	}
	orc.Distinct = len(seen)
	orc.Samples = []string{"gojq -nc '[$ARGS.named,$ARGS.positional,$a]' --arg a 1 --argjson a 2 --args x --jsonargs 1 --args y", "gojq -c -f query.jq in.json  vs  gojq -c \"$(cat query.jq)\" in.json"}
}

// ---------------------------------------------------------------------------------------
// the built binary: same observations through a real process, files and pipes
// ---------------------------------------------------------------------------------------

func binaryOracle(ctx *common.Ctx, r *common.Rand) {
	orc := ctx.NewOracle("binary", "cmd/gojq built from the tree (no verif tag) run as a process with real files and a stdin pipe on a sample of the layouts above: stdout and exit status must equal the in-process run, and the mode equivalences are re-checked on its output; distinct = distinct command lines")
	repo := common.Getenv("VERIF_REPO", "/repo")
	bin := filepath.Join(tmpDir, "gojq")
	cmd := exec.Command("go", "build", "-o", bin, "./cmd/gojq")
	cmd.Dir = repo
	if out, err := cmd.CombinedOutput(); err != nil {
		ctx.Errorf("building cmd/gojq failed: %v\n%s", err, out)
		return
	}
	runBin := func(args []string, stdin string) (string, int) {
		cx, cancel := context.WithTimeout(context.Background(), 20*time.Second)
		defer cancel()
		c := exec.CommandContext(cx, bin, args...)
		c.Stdin = strings.NewReader(stdin)
		c.Env = append(os.Environ(), "NO_COLOR=1")
		var o bytes.Buffer
		c.Stdout = &o
		err := c.Run()
		code := 0
		if ee, ok := err.(*exec.ExitError); ok {
			code = ee.ExitCode()
		} else if err != nil {
			code = -1
		}
		return o.String(), code
	}
	seen := map[string]bool{}
	for i := 0; i < ctx.N(40, 400); i++ {
		l := genLayout(r, i%3 == 0, false, "bin")
		fa := l.fileArgs()
		for _, base := range [][]string{{"-c", "."}, {"-c", "-s", "."}, {"-c", "-n", "[inputs]"}, {"-c", "--stream", "."}, {"-c", "-n", "input, [inputs]"}, {"-c", "-R", "."}, {"-c", "-Rs", "."}} {
			args := append(append([]string{}, base...), fa...)
			ob, cb := runBin(args, l.stdin.text)
			oi, _, ci, _ := runCmd(args, l.stdin.text)
			orc.Cases++
			seen[fmt.Sprint(base, l.describe())] = true
			orc.Distribution[strings.Join(base, " ")]++
			if ob != oi || cb != ci&0xff {
				ctx.Violate(keyOf("binary", fmt.Sprint(base, l.describe())), fmt.Sprintf("the gojq process (status %d) and the in-process run (status %d) differ for %v", cb, ci, base),
					map[string]any{"layout": l.describe(), "args": base, "observed": ob, "expected": oi, "cmd": "gojq" + shq(args)})
			}
		}
		// the rebuild through two processes and a pipe
		if l.stdin.bad == "" {
			ev, c1 := runBin([]string{"-c", "--stream", "."}, l.stdin.text)
			back, c2 := runBin([]string{"-cn", "fromstream(inputs)"}, ev)
			orc.Cases++
			if got, want := canonOut(back), canonSeq(values(l.stdin.docs), "END"); got != want || c1 != 0 || c2 != 0 {
				ctx.Violate(keyOf("binary-rebuild", l.stdin.text), "gojq --stream . | gojq -n 'fromstream(inputs)' does not rebuild the documents",
					map[string]any{"text": l.stdin.text, "observed": got, "expected": want, "cmd": "printf %s" + shq([]string{l.stdin.text}) + " | gojq -c --stream . | gojq -cn 'fromstream(inputs)'"})
			}
		}
	}
	orc.Distinct = len(seen)
	orc.Samples = []string{"gojq -c -s . f1 - f2 < stdin (process) vs cli.run (in-process)"}
}

// safeInputs calls the real iterator stack and turns a panic into a message.
func safeInputs(raw, stream, slurp bool, files []string, stdin []byte) (items []any, pmsg string) {
	defer func() {
		if r := recover(); r != nil {
			pmsg = fmt.Sprint(r)
		}
	}()
	return cli.VerifInputs(raw, stream, slurp, files, stdin), ""
}

// C06 — a compiled query can be run from many goroutines at once.
//
// This harness is search only (no correspondence stream: the interleavings of the Go
// runtime are not in the model, DESIGN §C06). It builds cmd/c06race WITH the race
// detector and runs it as a child, one process per batch of programs, so that a race
// report (GORACE halt_on_error → exit 66), a runtime `fatal error:` (concurrent map
// writes …), a hang (child watchdog → exit 67, or our own hard kill) costs one batch
// only. The child tells on stderr which program is in flight (`CURRENT {json}`), writes
// its counts and any output difference to a result JSON after every program, and can be
// resumed after the program that failed (-start).
//
// violation keys (whitespace of the program removed so that known-findings can match):
//
//	race:<program>                 race report / fatal error / panic trace
//	deadlock:<program>             watchdog
//	race-output-differs:<program>  a concurrent run's outputs differ from the sequential baseline
package main

import (
	"bufio"
	"encoding/json"
	"fmt"
	"hash/fnv"
	"io"
	"os"
	"os/exec"
	"path/filepath"
	"regexp"
	"sort"
	"strconv"
	"strings"
	"sync"
	"time"

	"verifharness/common"
)

const rule = "one *gojq.Code (or one parsed *gojq.Query) is run by G in {2,8,32} goroutines x R repetitions, released together by a barrier, " +
	"on private deep copies of the inputs and on ONE shared input value, in a binary built with the Go race detector: there must be no race report, " +
	"no runtime fatal error or panic, no hang, and every single run must yield exactly the sequential baseline (canonical output sequence incl. the terminal error). " +
	"cases = goroutine-runs executed; distinct_nontrivial = number of distinct program texts raced whose sequential baseline has at least one output or an error on some input"

type current struct {
	Program string `json:"program"`
	Kind    string `json:"kind"`
	Index   int    `json:"index"`
	Phase   string `json:"phase"`
	G       int    `json:"G"`
	R       int    `json:"R"`
	Shared  bool   `json:"shared"`
	Query   bool   `json:"query"`
	Inputs  string `json:"inputs"`
}

type diffRec struct {
	Program  string `json:"program"`
	Kind     string `json:"kind"`
	Input    string `json:"input"`
	Inputs   string `json:"inputs"`
	G        int    `json:"G"`
	R        int    `json:"R"`
	Shared   bool   `json:"shared"`
	Query    bool   `json:"query"`
	Observed string `json:"observed"`
	Expected string `json:"expected"`
}

type childResult struct {
	Batch          string           `json:"batch"`
	Planned        int              `json:"planned"`
	Programs       int              `json:"programs"`
	Runs           int64            `json:"runs"`
	ByKind         map[string]int64 `json:"by_kind"`
	ProgramsByKind map[string]int   `json:"programs_by_kind"`
	ByG            map[string]int64 `json:"by_G"`
	SharedRuns     int64            `json:"shared_runs"`
	DistinctRuns   int64            `json:"distinct_runs"`
	CodeRuns       int64            `json:"code_runs"`
	QueryRuns      int64            `json:"query_runs"`
	Nontrivial     int              `json:"nontrivial"`
	NontrivialIDs  []string         `json:"nontrivial_ids"`
	Skipped        map[string]int   `json:"skipped"`
	Samples        []string         `json:"samples"`
	Diffs          []diffRec        `json:"diffs"`
	Seconds        float64          `json:"seconds"`
	NextIndex      int              `json:"next_index"`
	Done           bool             `json:"done"`
}

// outcome of one child process.
type outcome struct {
	exit    int
	killed  bool     // our hard kill (budget + grace exceeded)
	trigger string   // "", race, fatal, panic, watchdog
	cur     *current // program in flight when the trigger line appeared (else the last one)
	report  []string // stderr from the trigger line on
	tail    []string // last lines of stderr (without CURRENT lines)
	wall    float64
	err     error
}

type harness struct {
	ctx      *common.Ctx
	orc      *common.Oracle
	bin      string
	tmp      string
	hdir     string
	mu       sync.Mutex
	nonTriv  map[string]bool
	programs int
	children int
	childSec float64
	nout     int
}

func goEnv() []string {
	var env []string
	for _, e := range os.Environ() {
		k := strings.SplitN(e, "=", 2)[0]
		switch k {
		case "GOTOOLCHAIN", "GOSUMDB", "GOFLAGS", "GOPROXY", "GORACE":
			continue
		}
		env = append(env, e)
	}
	return append(env, "GOFLAGS=-mod=mod", "GOPROXY=off")
}

func tailOf(s string, n int) string {
	if len(s) > n {
		return "…" + s[len(s)-n:]
	}
	return s
}

// build compiles cmd/c06race with -race against $VERIF_REPO (default /repo).
func (h *harness) build() error {
	args := []string{"build"}
	repo := common.Getenv("VERIF_REPO", "/repo")
	real, err := filepath.EvalSymlinks(repo)
	if err != nil {
		real = repo
	}
	if real != "/repo" {
		// private copy of the repository (mutation testing): same trick as bin/check
		alt := filepath.Join(h.hdir, fmt.Sprintf("go.c06alt%d.mod", os.Getpid()))
		sum := strings.TrimSuffix(alt, ".mod") + ".sum"
		mod, err := os.ReadFile(filepath.Join(h.hdir, "go.mod"))
		if err != nil {
			return err
		}
		defer os.Remove(alt)
		defer os.Remove(sum)
		if err := os.WriteFile(alt, []byte(strings.ReplaceAll(string(mod), "=> /repo", "=> "+real)), 0o644); err != nil {
			return err
		}
		if b, err := os.ReadFile(filepath.Join(h.hdir, "go.sum")); err == nil {
			os.WriteFile(sum, b, 0o644)
		}
		args = append(args, "-modfile="+alt)
	}
	args = append(args, "-race", "-tags", "verif", "-o", h.bin, "./cmd/c06race")
	cmd := exec.Command("go", args...)
	cmd.Dir = h.hdir
	cmd.Env = goEnv()
	out, err := cmd.CombinedOutput()
	if err != nil {
		return fmt.Errorf("go %s: %v\n%s", strings.Join(args, " "), err, tailOf(string(out), 3000))
	}
	return nil
}

// runChild runs one child with a hard limit of budget + 30 s and digests its stderr as it comes.
func (h *harness) runChild(args []string, budget time.Duration) outcome {
	var oc outcome
	t0 := time.Now()
	cmd := exec.Command(h.bin, args...)
	cmd.Dir = h.hdir
	cmd.Env = append(goEnv(), "GORACE=halt_on_error=1 exitcode=66")
	cmd.Stdout = io.Discard
	stderr, err := cmd.StderrPipe()
	if err != nil {
		oc.err = err
		return oc
	}
	if err := cmd.Start(); err != nil {
		oc.err = err
		return oc
	}
	var kmu sync.Mutex
	killer := time.AfterFunc(budget+30*time.Second, func() {
		kmu.Lock()
		oc.killed = true
		kmu.Unlock()
		cmd.Process.Kill()
	})
	var last *current
	rd := bufio.NewReaderSize(stderr, 1<<16)
	total := 0
	for {
		line, err := rd.ReadString('\n')
		if line != "" {
			line = strings.TrimRight(line, "\n")
			if strings.HasPrefix(line, "CURRENT ") {
				var c current
				if json.Unmarshal([]byte(line[len("CURRENT "):]), &c) == nil {
					last = &c
				}
			} else {
				if oc.trigger == "" {
					switch {
					case strings.Contains(line, "WARNING: DATA RACE"):
						oc.trigger = "race"
					case strings.HasPrefix(line, "WATCHDOG "):
						oc.trigger = "watchdog"
					case strings.Contains(line, "fatal error:"):
						oc.trigger = "fatal"
					case strings.HasPrefix(line, "panic:") || strings.Contains(line, "[signal SIG"):
						oc.trigger = "panic"
					}
					if oc.trigger != "" {
						oc.cur = last
					}
				}
				if oc.trigger != "" && len(oc.report) < 400 && total < 4<<20 { // cap: a few MB
					oc.report = append(oc.report, line)
					total += len(line)
				}
				oc.tail = append(oc.tail, tailOf(line, 2000))
				if len(oc.tail) > 40 {
					oc.tail = oc.tail[len(oc.tail)-40:]
				}
			}
		}
		if err != nil {
			break
		}
	}
	werr := cmd.Wait()
	killer.Stop()
	kmu.Lock()
	defer kmu.Unlock()
	if oc.cur == nil {
		oc.cur = last
	}
	oc.wall = time.Since(t0).Seconds()
	if werr != nil {
		if ee, ok := werr.(*exec.ExitError); ok {
			oc.exit = ee.ExitCode()
		} else {
			oc.err = werr
		}
	}
	return oc
}

func shq(s string) string { return "'" + strings.ReplaceAll(s, "'", `'\''`) + "'" }

func keyOf(prefix, program string) string {
	p := strings.Join(strings.Fields(program), "")
	if len(p) > 160 {
		h := fnv.New64a()
		h.Write([]byte(p))
		p = p[:120] + "#" + strconv.FormatUint(h.Sum64(), 36)
	}
	return prefix + ":" + p
}

func reproCmd(program, inputs string, G, R int, shared, query bool) string {
	return fmt.Sprintf("cd /verif/harness && GOFLAGS=-mod=mod GOPROXY=off GORACE=halt_on_error=1 go run -race -tags verif ./cmd/c06race -program %s -inputs %s -G %d -R %d -shared=%v -query=%v -seconds 60",
		shq(program), shq(inputs), G, max(R, 300), shared, query)
}

var frameRE = regexp.MustCompile(`^github\.com/itchyny/gojq\.((?:\(\*?\w+\)\.)?[\w.]+)\(`)

// gojqFrames lists the first gojq functions named in a race report or a goroutine trace.
func gojqFrames(report []string) string {
	var fs []string
	seen := map[string]bool{}
	for _, l := range report {
		if m := frameRE.FindStringSubmatch(strings.TrimSpace(l)); m != nil && !seen[m[1]] {
			seen[m[1]] = true
			fs = append(fs, m[1])
		}
		if len(fs) >= 5 {
			break
		}
	}
	return strings.Join(fs, ", ")
}

// judge turns a child outcome into violations; returns the index of the failing program
// (-1: the child ended normally, -2: it failed without telling which program).
func (h *harness) judge(oc outcome, what string) int {
	failed := oc.exit != 0 || oc.killed || oc.trigger != "" || oc.err != nil
	if !failed {
		return -1
	}
	h.mu.Lock()
	defer h.mu.Unlock()
	if oc.cur == nil {
		h.ctx.Errorf("%s: child failed (exit %d, killed %v, err %v) before any program was announced:\n%s", what, oc.exit, oc.killed, oc.err, strings.Join(oc.tail, "\n"))
		return -2
	}
	c := oc.cur
	how := "private copies of the inputs"
	if c.Shared {
		how = "one shared input value"
	}
	subj := "one compiled *Code"
	if c.Query {
		subj = "one parsed *Query"
	}
	if c.Phase == "baseline" {
		how, subj = "sequential baseline", "the program alone"
	}
	rp := map[string]any{"program": c.Program, "inputs": c.Inputs, "G": c.G, "R": c.R, "shared": c.Shared, "query": c.Query, "kind": c.Kind, "phase": c.Phase,
		"exit": oc.exit, "cmd": reproCmd(c.Program, c.Inputs, c.G, c.R, c.Shared, c.Query)}
	first40 := oc.report // head of the report: both stacks of a race report fit into 60 lines
	if len(first40) > 60 {
		first40 = first40[:60]
	}
	switch {
	case oc.trigger == "watchdog" || oc.exit == 67 || (oc.killed && oc.trigger == ""):
		rp["report"] = strings.Join(oc.report[:min(len(oc.report), 120)], "\n")
		if oc.killed {
			rp["note"] = "the child exceeded its time budget by more than 30 s and was killed"
		}
		h.ctx.Violate(keyOf("deadlock", c.Program), fmt.Sprintf("%d goroutines running %s of `%s` on %s did not finish (watchdog)", c.G, subj, clip(c.Program, 200), how), rp)
	case oc.trigger == "race" || oc.exit == 66:
		rp["report"] = strings.Join(first40, "\n")
		rp["expected"] = "no data race"
		h.ctx.Violate(keyOf("race", c.Program), fmt.Sprintf("data race: %d goroutines x %d runs of %s of `%s` on %s; gojq frames in the report: %s", c.G, c.R, subj, clip(c.Program, 200), how, gojqFrames(oc.report)), rp)
	case oc.trigger == "fatal" || oc.trigger == "panic":
		rp["report"] = strings.Join(first40, "\n")
		rp["expected"] = "no runtime fatal error / panic"
		h.ctx.Violate(keyOf("race", c.Program), fmt.Sprintf("%s: %d goroutines x %d runs of %s of `%s` on %s; gojq frames: %s", strings.TrimSpace(first40[0]), c.G, c.R, subj, clip(c.Program, 200), how, gojqFrames(oc.report)), rp)
	default:
		h.ctx.Errorf("%s: child failed (exit %d, err %v) while running `%s` without a race report, fatal error or watchdog message:\n%s", what, oc.exit, oc.err, clip(c.Program, 300), strings.Join(oc.tail, "\n"))
		return -2
	}
	return c.Index
}

func clip(s string, n int) string {
	if len(s) > n {
		return s[:n] + "…"
	}
	return s
}

// absorb adds the counts (and output differences) of one child's result file.
func (h *harness) absorb(path string) *childResult {
	b, err := os.ReadFile(path)
	if err != nil {
		return nil
	}
	var r childResult
	if json.Unmarshal(b, &r) != nil {
		return nil
	}
	h.mu.Lock()
	defer h.mu.Unlock()
	o := h.orc
	o.Cases += int(r.Runs)
	h.programs += r.Programs
	h.childSec += r.Seconds
	for k, v := range r.ByKind {
		o.Distribution["runs kind="+k] += int(v)
	}
	for k, v := range r.ProgramsByKind {
		o.Distribution["programs kind="+k] += v
	}
	for k, v := range r.ByG {
		o.Distribution["runs "+k] += int(v)
	}
	o.Distribution["runs on one shared input value"] += int(r.SharedRuns)
	o.Distribution["runs on private input copies"] += int(r.DistinctRuns)
	o.Distribution["runs of a shared *Code"] += int(r.CodeRuns)
	o.Distribution["runs of a shared *Query"] += int(r.QueryRuns)
	for k, v := range r.Skipped {
		o.Distribution["programs skipped: "+k] += v
	}
	for _, id := range r.NontrivialIDs {
		h.nonTriv[id] = true
	}
	if len(o.Samples) < 3 && len(r.Samples) > 0 {
		o.Samples = append(o.Samples, r.Samples[0])
	}
	for _, d := range r.Diffs {
		how := "private copies of the inputs"
		if d.Shared {
			how = "one shared input value"
		}
		if d.G == 0 {
			h.ctx.Violate(keyOf("history-output-differs", d.Program),
				fmt.Sprintf("`%s` on %s gives %s when it is the %d-th run through one *Code (one goroutine, runs one after the other) but %s through a fresh *Code: a run depends on the runs made before it on the same Code", clip(d.Program, 200), clip(d.Input, 120), clip(d.Observed, 160), d.R+1, clip(d.Expected, 160)),
				map[string]any{"program": d.Program, "inputs": d.Inputs, "input": d.Input, "position": d.R, "kind": d.Kind, "observed": d.Observed, "expected": d.Expected})
			continue
		}
		h.ctx.Violate(keyOf("race-output-differs", d.Program),
			fmt.Sprintf("`%s` on %s gives %s in one of %d concurrent goroutines (%s) but %s when run alone", clip(d.Program, 200), clip(d.Input, 120), clip(d.Observed, 160), d.G, how, clip(d.Expected, 160)),
			map[string]any{"program": d.Program, "inputs": d.Inputs, "input": d.Input, "G": d.G, "R": d.R, "shared": d.Shared, "query": d.Query, "kind": d.Kind,
				"observed": d.Observed, "expected": d.Expected, "cmd": reproCmd(d.Program, d.Inputs, d.G, d.R, d.Shared, d.Query)})
	}
	return &r
}

type batchSpec struct {
	kind      string
	index, of int
	seconds   float64
}

func (h *harness) outFile() string {
	h.mu.Lock()
	defer h.mu.Unlock()
	h.nout++
	h.children++
	return filepath.Join(h.tmp, fmt.Sprintf("result-%d.json", h.nout))
}

// runBatch runs the batch, resuming after each failing program (at most 6 children).
func (h *harness) runBatch(b batchSpec) {
	name := fmt.Sprintf("%s:%d:%d", b.kind, b.index, b.of)
	deadline := time.Now().Add(time.Duration(b.seconds * float64(time.Second)))
	start := 0
	for attempt := 0; attempt < 6; attempt++ {
		left := time.Until(deadline)
		if left < 2*time.Second {
			break
		}
		out := h.outFile()
		oc := h.runChild([]string{"-seed", fmt.Sprint(h.ctx.Seed), "-tier", h.ctx.Tier, "-batch", name, "-seconds", fmt.Sprintf("%.1f", left.Seconds()),
			"-start", fmt.Sprint(start), "-out", out}, left)
		h.absorb(out)
		idx := h.judge(oc, "batch "+name)
		if idx < 0 {
			break
		}
		start = idx + 1 // skip the program that failed
	}
}

func (h *harness) replay(path string) {
	b, err := os.ReadFile(path)
	if err != nil {
		h.ctx.Errorf("replay: %v", err)
		return
	}
	var m map[string]any
	if err := json.Unmarshal(b, &m); err != nil {
		h.ctx.Errorf("replay: %v", err)
		return
	}
	if rp, ok := m["replay"].(map[string]any); ok {
		m = rp
	}
	prog, _ := m["program"].(string)
	if prog == "" {
		h.ctx.Errorf("replay: no program in %s", path)
		return
	}
	inputs, _ := m["inputs"].(string)
	if inputs == "" {
		inputs = "[null]"
	}
	args := []string{"-program", prog, "-inputs", inputs, "-seconds", "60"}
	if g, ok := m["G"].(float64); ok && g > 0 {
		args = append(args, "-G", fmt.Sprint(int(g)))
	}
	if r, ok := m["R"].(float64); ok && r > 0 {
		args = append(args, "-R", fmt.Sprint(int(r)))
	}
	if s, ok := m["shared"].(bool); ok {
		args = append(args, fmt.Sprintf("-shared=%v", s))
	}
	if q, ok := m["query"].(bool); ok {
		args = append(args, fmt.Sprintf("-query=%v", q))
	}
	out := h.outFile()
	oc := h.runChild(append(args, "-out", out), 60*time.Second)
	h.absorb(out)
	if oc.exit == 1 && oc.trigger == "" && !oc.killed { // output differences: already reported by absorb
		return
	}
	h.judge(oc, "replay")
}

func main() {
	ctx := common.ParseFlags("C06")
	h := &harness{ctx: ctx, nonTriv: map[string]bool{}}
	h.orc = ctx.NewOracle("race", rule)
	h.hdir = filepath.Join(common.Getenv("VERIF_DIR", "/verif"), "harness")
	tmp, err := os.MkdirTemp("", "c06race")
	if err != nil {
		ctx.Errorf("mkdtemp: %v", err)
		ctx.Finish()
	}
	h.tmp = tmp
	h.bin = filepath.Join(tmp, "c06race")
	finish := func() {
		os.RemoveAll(tmp)
		h.orc.Distinct = len(h.nonTriv)
		ctx.Finish()
	}
	tb := time.Now()
	if err := h.build(); err != nil {
		ctx.Errorf("building the -race child failed: %v", err)
		finish()
	}
	buildS := time.Since(tb).Seconds()

	if ctx.Replay != "" {
		h.replay(ctx.Replay)
		ctx.Res.Notes = append(ctx.Res.Notes, fmt.Sprintf("replay of %s: %d goroutine-runs in %.0f s", ctx.Replay, h.orc.Cases, h.childSec))
		finish()
	}

	// quick: one batch per kind, 20 s each (80 s of racing, two children at a time);
	// thorough: three batches per kind (another PRNG fork each; the corpus is split in
	// three), 75 s each = 900 s of racing.
	var batches []batchSpec
	kinds := []string{"literal", "update", "regex", "corpus"}
	if ctx.Thorough {
		for i := 0; i < 3; i++ {
			for _, k := range kinds {
				batches = append(batches, batchSpec{k, i, 3, 75})
			}
		}
	} else {
		for _, k := range kinds {
			batches = append(batches, batchSpec{k, 0, 1, 20})
		}
	}
	tr := time.Now()
	const parallel = 2
	var wg sync.WaitGroup
	ch := make(chan batchSpec)
	for w := 0; w < parallel; w++ {
		wg.Add(1)
		go func() {
			defer wg.Done()
			for b := range ch {
				h.runBatch(b)
			}
		}()
	}
	for _, b := range batches {
		ch <- b
	}
	close(ch)
	wg.Wait()

	var ks []string
	for k, v := range h.orc.Distribution {
		if strings.HasPrefix(k, "programs kind=") {
			ks = append(ks, fmt.Sprintf("%s %d", strings.TrimPrefix(k, "programs kind="), v))
		}
	}
	sort.Strings(ks)
	ctx.Res.Notes = append(ctx.Res.Notes, fmt.Sprintf("raced %d programs (%s) in %.0f s of child process time (%d children for %d batches, %d at a time, %.0f s wall; building the -race child took %.0f s); every program: G in {2,8,32} x {private copies, one shared input}, alternately through one *Code and one *Query",
		h.programs, strings.Join(ks, ", "), h.childSec, h.children, len(batches), parallel, time.Since(tr).Seconds(), buildS))
	finish()
}

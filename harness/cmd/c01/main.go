// C01 — query evaluation follows jq's backtracking-generator semantics.
//
// correspondence stream `eval`: real gojq (Parse → Compile → Run → Next…) vs Spec.eval
//
//	(lean/Gojq/Model/Spec.lean) on the same (program, input): corpus queries, generated
//	programs of the core grammar, bounded-exhaustive small programs.
//
// oracles (model-free): metamorphic laws of the generator semantics evaluated on the real
//
//	code (pipe/comma/bind laws, closure capture, shadowing, try scope …).
package main

import (
	"fmt"
	"os"
	"path/filepath"
	"strings"

	"github.com/itchyny/gojq"

	"verifharness/c01aux"
	"verifharness/common"
	"verifharness/jqast"
	"verifharness/jqgen"
	"verifharness/jqref"
)

const budget = 60000
const maxOuts = 300

type caseT struct {
	src   string
	input any
	kind  string
}

func main() {
	ctx := common.ParseFlags("C01")
	r := ctx.R
	var cases []caseT
	seen := map[string]bool{}
	add := func(src string, in any, kind string) {
		k := src + "\x00" + common.Canon(in)
		if seen[k] {
			return
		}
		seen[k] = true
		cases = append(cases, caseT{src, in, kind})
	}
	uni := common.Universe(false)
	small := common.SmallUniverse()
	// corpus
	for _, c := range common.Corpus() {
		if len(c.Inputs) > 0 {
			for _, in := range c.Inputs {
				add(c.Query, in, "corpus")
			}
		} else {
			add(c.Query, nil, "corpus")
		}
		if ctx.Thorough {
			for i := 0; i < 3; i++ {
				add(c.Query, common.Pick(r, uni), "corpus×universe")
			}
		}
	}
	// hand-picked semantics probes (the nestings the property names)
	for _, q := range probes {
		for _, in := range []any{nil, 1, []any{1, 2, 3}, map[string]any{"a": 1, "b": []any{1, 2}}, []any{[]any{1, 2}, []any{3}}, "ab"} {
			add(q, in, "probe")
		}
	}
	// lexical scope of every construct: a sub-expression D that DECLARES a function / variable /
	// label next to a sub-expression U that USES the same name and must see the outer one
	{
		tmpls := []string{"if . then %D else %U end", "if . then 0 elif . == null then %D else %U end", "if . then %U elif . == null then %D else %U end", "if (%D) then %U else %U end", "if . then %D end | %U", "(%D), %U", "(%D) | %U", "[%D, %U]", "{a: (%D), b: %U}", "{(%D | tostring): %U}",
			"try (%D) catch %U", "try error(%D) catch %U", "reduce (%D) as $q (0; %U)", "reduce . as $q ((%D); %U)", "reduce . as $q (0; %D) | %U", "foreach . as $q (0; (%D); %U)", "foreach (%D) as $q (0; 1; %U)", "label $w | (%D), %U", "(%D) as $q | %U", "(%D) as [$q] ?// $q | %U", "(%D) // %U", "(%D) + %U", "[%U, (%D), %U]",
			"first(%D), %U", "def g: %D; g, %U", "def g(h): h; g(%D), %U", "def g: %D; def h: %U; [g, h]", "\"\\(%D)\\(%U)\"", "[.[(%D)]?, %U]", "[(%D)?, %U]", "((%D) | not), %U", "-(%D), %U", "[limit(1; %D)], %U", "path(%D)?, %U", "[(%D), (%D)] | %U", "%U, (%D), %U",
			// the USE first, still pending (a generator) while the same name is declared again after it at the same depth
			"%U | %D", "[%U | %D]", "(%U, %U) | %D", "%U | %D | %U", "[(%U | %D), %U]", "%U | [%D] | %U", "first(%U | %D), %U"}
		kinds := []struct{ outer, d, u string }{
			{"def f: \"outer\"; ", "def f: \"inner\"; f", "f"},
			{"def f(g): [\"outer\", g]; ", "def f(g): [\"inner\", g]; f(1)", "f(2)"},
			{"def f: \"outer\"; ", "def f: \"inner\"; def k: f; k", "f"},
			{"\"outer\" as $v | ", "\"inner\" as $v | $v", "$v"},
			{"[\"outer\"] as [$v] | ", ". as {$v} ?// $v | \"in\"", "$v"},
			{"label $lb | ", "label $lb | (1, break $lb, 2)", "(3, break $lb, 4)"},
			{"def f: \"outer\"; def k: f; ", "def f: \"inner\"; k", "k"},
		}
		for _, t := range tmpls {
			for _, k := range kinds {
				q := k.outer + strings.ReplaceAll(strings.ReplaceAll(t, "%D", k.d), "%U", k.u)
				for _, in := range []any{nil, false, true, 1, []any{1}} {
					add(q, in, "scope")
				}
			}
		}
	}
	// bounded-exhaustive small programs over a small alphabet
	atoms := []string{".", "1", "null", ".[]", ".a", "empty", "(1,2)", "error(\"e\")", "[.]", ".[0]"}
	binops := []string{" | ", ", ", " // ", " + ", " == ", " and ", " as $x | "}
	for _, a := range atoms {
		for _, b := range atoms {
			for _, o := range binops {
				q := a + o + b
				for _, in := range []any{nil, []any{1, nil}, map[string]any{"a": []any{2}}} {
					add(q, in, "exhaustive2")
				}
			}
		}
	}
	wraps := []string{"[%s]", "try (%s) catch .", "(%s)?", "first(%s)", "[limit(1; %s)]", "reduce (%s) as $x (0; . + 1)", "[foreach (%s) as $x (0; . + 1)]", "label $l | (%s) | ., break $l", "[%s] | length", "path(%s)", "if (%s) then 1 else 2 end", "{a: (%s)}", "def f: %s; [f]", "def f(g): [g, g]; f(%s)", "[.[]? | (%s)]", "isempty(%s)", "-(%s)", "\"x\\(%s)\""}
	if ctx.Thorough {
		for _, a := range atoms {
			for _, b := range atoms {
				for _, o := range binops[:4] {
					for _, w := range wraps {
						add(fmt.Sprintf(w, a+o+b), []any{1, nil}, "exhaustive3")
					}
				}
			}
		}
	} else {
		for i := 0; i < 600; i++ {
			add(fmt.Sprintf(common.Pick(r, wraps), common.Pick(r, atoms)+common.Pick(r, binops)+common.Pick(r, atoms)), common.Pick(r, []any{nil, []any{1, nil}, map[string]any{"a": []any{2}}}), "exhaustive3")
		}
	}
	// random programs
	n := ctx.N(6000, 120000)
	for i := 0; i < n; i++ {
		var in any
		switch r.Intn(4) {
		case 0:
			in = common.Pick(r, small)
		case 1:
			in = common.Pick(r, uni)
		default:
			in = common.RandValue(r, common.GenOpts{Floats: r.Chance(1, 4), BigInts: r.Chance(1, 5), MaxDepth: 3, MaxWidth: 3, SmallKeys: true}, 0)
		}
		switch r.Intn(10) {
		case 0, 1:
			// naive (type-blind) programs: exercise error paths
			add(jqgen.New(r, r.Range(1, 4)).Query(), in, "random-naive")
		case 2:
			// typed program with a type-blind sub-program spliced in
			g := jqgen.NewTyped(r, r.Range(1, 3))
			a, _ := g.Gen(jqgen.TypeOf(in))
			b := jqgen.New(r, r.Range(0, 2)).Query()
			add(common.Pick(r, []string{a + " | " + b, "[" + a + "] | map(try (" + b + ") catch \"E\")", "(" + a + "), (" + b + ")", "try (" + a + " | " + b + ") catch .", "[(" + a + ") as $x | $x | " + b + "]?"}), in, "random-mixed")
		default:
			g := jqgen.NewTyped(r, r.Range(1, 5))
			src, _ := g.Gen(jqgen.TypeOf(in))
			add(src, in, "random-typed")
		}
	}

	st := ctx.NewStream("eval", "Gojq.Spec.eval (Model/Spec.lean) with natives of Model/Native.lean and the generated builtin.jq AST",
		"(program, input) pairs: cli/test.yaml queries on their inputs, hand-picked probes of the property's nestings, all programs `atom op atom` over a 10-atom alphabet (exhaustive), wrapped triples, random programs × universe/random inputs: 70% type-directed against the input's inferred type (≈1% end in a type error), 20% type-blind (≈80% end in an error), 10% mixed; programs that fail to parse/compile or exceed the step budget are not compared; distinct = distinct implementation answers")
	var lines, impl, labels, srcs []string
	var inputs []any
	codeCache := map[string]*gojq.Code{}
	astCache := map[string]string{}
	for _, c := range cases {
		code, ok := codeCache[c.src]
		if !ok {
			q, err := gojq.Parse(c.src)
			if err == nil {
				var cerr error
				func() {
					defer func() {
						if e := recover(); e != nil {
							cerr = fmt.Errorf("panic: %v", e)
							ctx.Violate("compile-panic:"+c.src, "Compile panicked: "+fmt.Sprint(e), map[string]any{"query": c.src})
						}
					}()
					code, cerr = gojq.Compile(q)
				}()
				if cerr != nil {
					code = nil
				} else {
					astCache[c.src] = jqast.Sexp(jqast.Query(q))
				}
			}
			codeCache[c.src] = code
		}
		if code == nil {
			st.Distribution["skipped:parse/compile error"]++
			continue
		}
		if os.Getenv("VERIF_TRACE") != "" {
			fmt.Fprintf(os.Stderr, "TRACE %s <- %s\n", c.src, common.Canon(c.input))
		}
		o := common.RunCode(code, common.DeepCopy(c.input), budget, maxOuts)
		if o.Panic != "" {
			ctx.Violate("run-panic:"+c.src+":"+common.Canon(c.input), "Run panicked: "+o.Panic, map[string]any{"query": c.src, "input": common.Canon(c.input), "panic": o.Panic})
			continue
		}
		if o.Budget {
			st.Distribution["skipped:budget"]++
			continue
		}
		st.Distribution["kind:"+c.kind]++
		if o.Err != nil {
			st.Distribution["ends:error"]++
		} else {
			st.Distribution["ends:done"]++
		}
		if len(o.Outs) > 1 {
			st.Distribution["outputs>1"]++
		}
		lines = append(lines, astCache[c.src]+" ||| "+common.Canon(c.input))
		impl = append(impl, common.CanonOutcome(o))
		labels = append(labels, c.src+"  ON  "+common.Canon(c.input))
		srcs = append(srcs, c.src)
		inputs = append(inputs, c.input)
		if len(st.Samples) < 4 && len(lines)%997 == 1 {
			st.Samples = append(st.Samples, c.src+" on "+common.Canon(c.input)+" => "+common.CanonOutcome(o))
		}
	}
	st.Labels = labels
	ctx.RunStream(st, lines, impl)
	// disagreements: ask jq 1.6 which side it agrees with (search for a confirmed failing input)
	if n := common.RefereeJq(ctx, st, srcs, inputs); n > 0 {
		ctx.Res.Notes = append(ctx.Res.Notes, fmt.Sprintf("%d disagreement(s) confirmed against jq 1.6", n))
	}
	lawsOracle(ctx)
	jqref.Run(ctx)
	// stack / scope-stack / mini-VM streams (package c01aux; driver drv_c01aux next to drv_c01)
	c01aux.Run(ctx, filepath.Join(filepath.Dir(ctx.Driver), "drv_c01aux"))
	ctx.Finish()
}

var probes = []string{
	// a caught RUN-TIME error (no value attached: the message is caught) whose try expression is one
	// of several operands: left operand, later object value, interpolation part, native argument
	"(try (1 + \"a\") catch \"E\") + \"!\"", "{a: 1, b: (try (\"a\" | tonumber) catch \"bad\")}", "\"x\\(try (1 + \"a\") catch \"E\")y\\(1)z\"", "[1, (try ({} | keys | .[0] | ascii_downcase) catch \"E\"), 2]", "(try ([] | implode | error) catch \"E\") as $x | [$x, .]",
	"[(try (.a.b.c) catch \"E\"), .] | length", "(try (1 / 0) catch \"div\") + \"!\" | length", "[limit(2; (try ([1] | .[\"a\"]) catch \"E\"), 7)]", "{(try (1 | keys) catch \"k\"): (try ({} | .[0]) catch \"v\")}", "[.[]? | (try (. + \"s\") catch \"E\") | . + \"!\"]?",
	"[(try ltrimstr(1) catch \"E\"), (try (null | implode) catch \"F\"), (try ([] | first) catch \"G\")] | join(\",\")", "(try (\"a\" | error) catch .) + (try (1 | error) catch (. | tostring)) + (try ({} | tonumber) catch \"n\")", "reduce (1, 2) as $i (\"\"; . + (try ($i + \"a\") catch \"E\"))",
	"(reduce (1,2) as $x (0; . + $x)) * 5", "{a: (reduce (1,2) as $x (0; . + $x)), b: (foreach (1,2) as $x (0; . + $x))}", "\"s\\(reduce (1,2) as $x (0; . + $x))t\\(.)\"", "[(1, 2) | (reduce (3, 4) as $x (.; . + $x)) - .]",
	// order of nested generators
	"[(1,2) + (10,20)]", "[(1,2) * (3,4)]", "[{(\"a\",\"b\"): (1,2)}]", "[{a:(1,2), b:(3,4)}]", "[[(1,2),(3,4)]]", "[(1,2) as $x | (3,4) as $y | [$x,$y]]",
	"def f($a; $b): [$a,$b]; [f(1,2; 3,4)]", "def f(a; b): [a,b]; [f(1,2; 3,4)]", "[\"\\(1,2)-\\(3,4)\"]", "[(1,2) == (1,2)]", "[.[(0,1)]?]", "[.[(0,1):(1,2)]?]",
	"[(1,2) and (true,false)]", "[(true,false) or (true,false)]", "[(null,1) // (2,3)]", "[limit((1,2); (3,4,5))]", "[range((0,1); (2,3))]", "[range(0; 3; (1,2))]",
	// lexical scoping, shadowing, closures
	"def f: def g: 1; g; def g: 2; f", "def f: 1; def g: f; def f: 2; g", "1 as $x | def f: $x; 2 as $x | f", "def f(g): def h: g; h; f(.+1)?", "def f(g): 1 as $x | g; 2 as $x | f($x)",
	"def f(g): [g, (10 | g)]; 5 | f(. + 1)", "def f($x): $x + x; f(1)", "def f(x): x as $x | [$x, x]; f(1,2)", "def fac: if . <= 1 then 1 else . * (. - 1 | fac) end; [range(6) | fac]",
	"def f(g): def k: g | g; k; 1 | f(. * 2)", "def r(f): def s: ., (f | s); s; [limit(4; 1 | r(. * 2))]", "def f: reduce .[]? as $x (0; . + $x); f", "[.[]? as $x | def f: $x; f]",
	"def f(a): a as $v | def g: $v; [g, g]; f(1,2)", "def g: 3; def f(g): g; f(4)", "def f(f): f; f(1)", "def f: def f: 2; f; f",
	// try / catch / errors
	"try error(\"x\") catch .", "try (1, error(\"x\"), 3) catch .", "[.[]? | try error(.) catch .]", "try (try error(\"x\") catch error(\"y\")) catch .", "(try error(\"x\") catch .) | error?",
	"[(1,2) | try (if . == 1 then error(\"a\") else . end) catch \"c\"]", "try ((1,2) | error) catch .", "[.[]?|tostring?]", "try error(null) catch .", "try error({a:1}) catch .a",
	"(1, error(\"x\"), 2)?", "[(error(\"x\"), 1)?]", "try (1 | error(\"x\") | 2) catch .", "error(\"x\")?, 1", "[try (1,2,error(\"x\"),3) catch 9]", "try (try error(\"x\")) catch 1", ".a?.b?", "[..?]", "try (.[]) catch \"no\"",
	"try (1, .a.b.c) catch \"c\"", "[.[]? | (.a)?]", "try ([.[]|error]) catch .", "first(1, error(\"x\"))", "[limit(1; 1, error(\"x\"))]", "try first(error(\"x\"), 1) catch .", "isempty(error(\"x\"))?", "isempty(1, error(\"x\"))",
	// ?//
	"[[1,2] as [$a,$b] ?// $a | [$a,$b]]", "[{a:1} as [$a] ?// {a:$a} | $a]", "[1 as [$a] ?// $a | $a]", "[label $out | ([1] as [$a] ?// $a | $a, break $out)]", "[[[1]] as [[$a]] ?// [$a] | $a]",
	"[.[]? as [$a] ?// $a | $a]", "[[1] as [$a] ?// $a | if ($a|type) == \"number\" then error(\"n\") else $a end]", "[(1,[2]) as [$a] ?// $a | $a]", "[2 as [$a] ?// {a:$a} ?// $a | $a]",
	". as {$a: [$b]} ?// $c | [$a, $b, $c]", ". as {$a} ?// [$a] | $a", "[.[]? as {$a: [$b]} ?// [$a, $b] ?// $b | [$a, $b]]", ". as {a: {$b}} ?// {$b} | $b", ". as [$a, [$b]] ?// {$b} ?// $a | [$a, $b]",
	"{a: 5} as {$a: [$b]} ?// $c | [$a, $b, $c]", "{a: [1]} as {$a: [$b]} ?// $c | [$a, $b, $c]", "[{a: 5}, {a: [7]}][] as {$a: [$b]} ?// {$a} | [$a, $b]", ". as {(\"a\",\"b\"): $x} | $x", ". as {\"a\": $x, $b} ?// $x | [$x, $b]",
	"{a: 1} as {$a} ?// $z | if $a == 1 then error(\"first\") else [$a, $z] end", "[1, {a: 2}][] as {$a} ?// $a | $a", ". as {$a: {$b: [$c]}} ?// $c | [$a, $b, $c]",
	// reduce / foreach / label
	"reduce (1,2,3) as $x (0; . + $x)", "reduce empty as $x (0; . + 1)", "reduce (1,2) as $x (10; empty)", "reduce (1,2) as $x (0; (., 5) + $x)", "[foreach (1,2,3) as $x (0; . + $x)]", "[foreach (1,2,3) as $x (0; . + $x; [$x, .])]",
	"[foreach (1,2) as $x (0; (.+1, .+10))]", "[foreach (1,2) as $x ((0,100); . + $x)]", "reduce .[]? as [$a,$b] (0; . + $a)", "[foreach .[]? as {a:$a} (0; . + 1; $a)]", "reduce (1,2) as $x ((0,100); . + $x)",
	"[label $a | label $b | 1, break $a, 2]", "[label $a | (label $b | 1, break $b, 2), 3]", "[label $f | range(10) | ., (select(. == 2) | break $f)]", "def f: label $l | (1, break $l, 2); [f, f]",
	"[label $l | def f: break $l; 1, f, 2]", "[range(3) as $i | label $l | range(5) | if . > $i then break $l else . end]", "first(range(10;0;-1))", "[limit(3; repeat(1))]", "[limit(5; recurse(. + 1))]",
	"label $l | reduce (1,2,3) as $x (0; if $x == 2 then ., break $l else . + $x end)", "[label $l | foreach (1,2,3) as $x (0; . + $x; if . > 2 then ., break $l else . end)]",
	// generators re-entered after their frame returned; closures inside reduce inside try
	"def g: (1,2); [g | g]", "def f(x): reduce x as $v (0; . + $v); try f(1, error(\"e\"), 2) catch .", "def f(x): [x] | length; f(.[]?)", "[def f: (1, 2) | (., . * 10); f]", "def f(x): x | x; [1 | f(., . + 1)]",
	"def f(g): try (reduce (1,2) as $x (0; . + (g))) catch \"c\"; [f(1), f(error(\"e\"))]", "[(1,2) | def f: (., . + 10); f | f]", "[.[]? | select(. != null) | (., .)]", "def f: .[]?; [f | f]?",
	// alternative operator state
	"[(false, 1, null, 2) // 3]", "[(false, null) // (3, 4)]", "[empty // 1]", "[(1,2) // error(\"x\")]", "[.[]? // \"d\"]", "(.a // .b) // \"n\"", "[(null, error(\"x\")) // 1]?", "first((false, 1) // 2)",
	// if / optional / misc
	"[if (true,false,null,1) then 1 else 2 end]", "[if . then 1 elif .a then 2 else 3 end]?", "if empty then 1 else 2 end", "[if (1,null) then (1,2) else (3,4) end]", "if . then . end",
	"[.[]?] | map(. + 1)?", "[paths]", "[paths(type == \"number\")]", "[..]", "[.. | numbers]", "to_entries?", "with_entries(.value += 1)?", "[.[]? | tostring]", "[splits(\"a\")]?", "map_values(. + 1)?", "map_values(empty)?",
	"[range(5)] | .[2:4] = [9]", "[range(5)] | .[1:3] |= map(. * 2)", ".a += 1", ".a |= . + 1", ".[]? += 1", "(.a, .b) = 1", "(.a, .b) |= (. // 0) + 1", ".a = (1,2)", ".a += (1,2)", "del(.a)", "del(.[0])", "del(.[0,1])?", "del(.[] | select(. == 1))?", "to_entries",
	"[1,2,3] | (.[] | select(. >= 2)) |= empty", "[[1,2],[3]] | .[][0] |= . + 1", "{} | .a.b.c = 1", "null | .[2] = 1", "[1] | .[-1] = 2", ".[\"a\"]? = 1", "setpath([\"a\", 0]; 1)?", "getpath([\"a\",\"b\"])?", "[paths(..)]",
	"path(..)", "[path(.a[]?)]", "path(.a | select(.b))?", "[path(.[1:])]?", "path(first(.a,.b))", "path(if .a then .a else .b end)", "path(.a // .b)", "try path(1) catch .", "try path(.a | tostring) catch .", "try path({a:.a} | .a) catch .", "path(getpath([\"a\",\"b\"]))",
	"\"\\(1 + 2) and \\(\"x\" + \"y\")\"", "@json \"v=\\(.)\"", "@text \"\\(.)\"", "[.[]?|tojson]", "\"a\" * 3", "\"abc\" / \"b\"", "[1,2,3] - [2]", "{a:1} * {a:{b:2}}", "{a:{b:1}} * {a:{c:2}}", "null + 1", "1 + null", "[1] + null", "{} + {a:1}",
	"10 / 4", "7 % 3", "-7 % 3", "5 % -2", "1 / 0", "1 % 0", "[.[]? / 2]?", "9223372036854775807 + 1", "-(-9223372036854775808)", "3037000500 * 3037000500", "1e1000", "-1e1000", "[1,2] | .[1.7]", "[1,2,3] | .[1.2:2.5]", "\"aéb\" | .[1:2]", "\"abc\" | .[-2:]",
	"[limit(3; range(10))]", "[first(range(10)), last(range(10))]", "[range(0; 10; 3)]", "[range(5; 0; -2)]", "[range(0; 1; 0.3)]", "[range(1; 0)]", "any", "all", "[.[]?] | any", "add", "[.[]?] | add", "flatten", "flatten(1)?", "[.[]?] | sort", "[.[]?] | unique", "[.[]?] | min, max",
	"keys?", "length?", "[.[]? | length]?", "has(\"a\")?", "has(0)?", "[.[]?] | contains([1])", "\"foobar\" | contains(\"bar\")", "{a:[1,2]} | contains({a:[1]})", "[.[]? | type]", "tostring", "tojson", "[.[]?] | reverse", "\"abc\" | reverse?", "ltrimstr(\"a\")", "[.[]? | ascii_downcase?]",
	"to_entries | from_entries?", "with_entries(.)?", "[.[]? | select(type == \"number\")]", "[.[]?] | map(select(. != null))", "[recurse(.[]?)]", "[recurse(.[]?; . != null)]", "[..] | length", "walk(if type == \"number\" then . + 1 else . end)", "[combinations]?", "[limit(4; combinations(2))]?", "input?", "$ENV", "env", "$ENV.PATH", "[splits(\", \")]?", "ascii?", "implode?",
	"in({a:1})?", "inside([1,2,3])?", "index(\"b\")?", "[.[]? | tostring | length]", "isvalid(1)?", "INDEX(.[]?; .a)?", "[IN(1,2)]", "getpath([\"a\"]) as $x | $x", "[getpath([\"a\"], [\"b\"])]?", "[splits(\"b\")]?", "first", "last", "first?", "[first, last]?", "nth(1)?", "[nth(0,2; range(5))]", "until(. > 100; . * 2)?", "[while(. < 100; . * 2)]?", "[repeat(. * 2; 3)]?",
	"ltrimstr(1)", "tojson | fromjson", "[.[]? | numbers]", "[.[]? | strings]", "[.[]? | arrays]", "[.[]? | objects]", "[.[]? | booleans]", "[.[]? | nulls]", "[.[]? | values]", "[.[]? | scalars]", "[.[]? | iterables]", "error", "error(null)", "[error]?", "try error catch .", "try error(\"\\(.)\") catch .", ".. |= .", "[.. | select(type == \"number\")] | add",
	"abs?", "[.[]? | abs?]", "toboolean?", "[.[]?|toboolean?]", "have_literal_numbers?", "ltrimstr(\"a\", \"b\")", "[limit(2; .[]?)]", "limit(0; 1, 2)", "[limit(-1; 1, 2)]", "pick(.a)?", "pick(.[0])?", "pick(.a.b)?", "debug?", "[getpath([\"a\",\"b\"], [\"c\"])?]", "paths |= .", "halt_error?",
	"trim?", "ltrim?", "rtrim?", "trimstr(\"a\")?", "abs", "toarray?", "have_decnum?", "getpath([0,1])?", "splits(\"a\"; \"g\")?", "ascii_upcase?", "@base64?", "@uri?", "@csv?", "@tsv?", "@html?", "@sh?", "@base64d?", "@urid?", "tojson?", "[.[]?|@json]", "add(.[]?)", "add(empty)", "[.[]?] | add(.[])?", "add(1,2)", "[limit(3; .[]?)] | add",
	"significand?", "gamma?", "pow(2; 10)", "pow(.; 2)?", "log2?", "sqrt?", "floor?", "ceil?", "round?", "fabs?", "[.[]? | floor?]", "exp10?", "frexp?", "modf?", "ldexp(1; 2)", "nearbyint?", "trunc?", "infinite", "nan | isnan", "[nan] | sort", "nan < nan", "[nan, 1] | min", "isinfinite?", "isnormal?", "infinite | tostring", "[infinite, -infinite, nan] | tojson",
}

// lawsOracle: model-free metamorphic laws of the generator semantics on the real code.
func lawsOracle(ctx *common.Ctx) {
	r := ctx.R.Fork(77)
	orc := ctx.NewOracle("laws", "for random sub-programs A, B, C of the core grammar and inputs: `[A | B]` == `[A] | map(B)` spliced (sequencing), `[A, B]` == `[A] + [B]`, `[A as $x | B]` closure/binding law `[A | . as $x | B']`, `(A | B) | C` == `A | (B | C)`, `def f: A; f` == `A`, `def f(g): g; f(A)` == `A`, `[limit(k; A)]` == `[A][:k]`, `first(A)` == `[A][0]` when A has an output and no error before it, `isempty(A)`, try-scope: `try A catch B` where A errors after n outputs emits those n outputs then B(message); all compared on the real implementation; distinct = distinct (law, A, B, input) tuples on which both sides ran to completion")
	type law struct {
		name       string
		lhs, rhs   string // %A %B %C
		needNoErrA bool
		strictErr  bool // compare the terminal error too (the law is about which errors are intercepted)
	}
	laws := []law{
		{"pipe-assoc", "[(%A | %B) | %C]", "[%A | (%B | %C)]", false, false},
		{"comma-concat", "[%A, %B]", "[%A] + [%B]", false, false},
		{"pipe-map", "[%A | %B]", "[[%A] | .[] | %B]", false, false},
		{"def-unfold", "[def f: %A; f]", "[%A]", false, false},
		{"closure-id", "[def f(g): g; f(%A)]", "[%A]", false, false},
		{"closure-twice", "[def f(g): g, g; f(%A)]", "[%A, %A]", false, false},
		{"value-param", "[def f($x): $x; f(%A)]", "[%A]", false, false},
		{"bind-var", "[%A as $x | $x]", "[%A]", false, false},
		{"limit-prefix", "[limit(2; %A)]", "[%A] | .[:2]", true, false},
		{"first-head", "[first(%A)]", "[%A] | .[:1]", true, false},
		{"isempty", "isempty(%A)", "[%A] | length == 0", true, false},
		{"reduce-count", "reduce (%A) as $x (0; . + 1)", "[%A] | length", false, false},
		{"foreach-index", "[foreach (%A) as $x (0; . + 1; [., $x])]", "[%A] | to_entries | map([.key + 1, .value])", false, false},
		{"array-collect-idem", "[[%A] | .[]]", "[%A]", false, false},
		{"try-transparent", "[try (%A) catch error]", "[%A]", false, false},
		{"alt-truthy", "[(%A) // empty]", "[%A | select(. != null and . != false)]", true, false},
		{"label-unused", "[label $l | %A]", "[%A]", false, false},
		{"paren", "[(%A)]", "[%A]", false, false},
		{"if-true", "[if true then %A else %B end]", "[%A]", false, false},
		{"opt-noerr", "[(%A)?]", "[%A]", true, false},
		{"right-outer", "[(%A) + (%B)]", "[%B as $b | %A as $a | $a + $b]", false, false},
		{"keys-before-values", "[{(%A): (%B)}]", "[%A as $k | %B as $v | {($k): $v}]", false, false},
		{"params-left-to-right", "[def f($a; $b): [$a, $b]; f(%A; %B)]", "[%A as $a | %B as $b | [$a, $b]]", false, false},
		// which errors try / ? intercept: a try whose body raises no error is transparent, whatever
		// its continuation does (errors raised downstream are NOT caught, also through nested trys)
		{"try-cont", "(try (%A) catch \"C\") | %B", "%A | %B", true, true},
		{"try-nested-cont", "(try (try (%A) catch \"C1\") catch \"C2\") | %B", "%A | %B", true, true},
		{"opt-cont", "(%A)? | %B", "%A | %B", true, true},
		{"opt-nested-cont", "((%A)?)? | %B", "%A | %B", true, true},
		{"try-in-func-cont", "def t(f): try f catch \"C\"; t(t(%A)) | %B", "%A | %B", true, true},
		{"try-catch-value", "[try ((%A), error(\"E\")) catch .]", "[%A, \"E\"]", true, false},
		{"try-inner-first", "[try (try ((%A), error(\"E\")) catch \"in\") catch \"out\"]", "[%A, \"in\"]", true, false},
		{"alt-cont", "((%A) // (%B)) | %C", "[%A | select(. != null and . != false)] as $t | (if ($t | length) > 0 then $t[] else %B end) | %C", true, true},
		{"label-cont", "(label $l | %A) | %B", "%A | %B", true, true},
		{"first-cont", "first(%A) | %B", "[%A][:1][] | %B", true, true},
		{"reduce-cont", "reduce (%A) as $x (0; . + 1) | %B", "([%A] | length) | %B", true, true},
		{"func-cont", "def f: %A; f | %B", "%A | %B", false, true},
		{"closure-cont", "def f(g): g | %B; f(%A)", "%A | %B", false, true},
		{"bind-cont", "(%A) as $x | $x | %B", "%A | %B", false, true},
	}
	distinct := map[string]bool{}
	n := ctx.N(4000, 80000)
	for i := 0; i < n; i++ {
		l := common.Pick(r, laws)
		mk := func() string {
			g := jqgen.New(r, r.Range(0, 2))
			g.NoDef = r.Bool()
			return "(" + g.Query() + ")"
		}
		A, B, C := mk(), mk(), mk()
		sub := func(t string) string {
			return strings.NewReplacer("%A", A, "%B", B, "%C", C).Replace(t)
		}
		in := common.RandValue(r, common.GenOpts{MaxDepth: 2, MaxWidth: 3, SmallKeys: true}, 0)
		lo := common.RunSrc(sub(l.lhs), common.DeepCopy(in), budget, maxOuts)
		ro := common.RunSrc(sub(l.rhs), common.DeepCopy(in), budget, maxOuts)
		orc.Cases++
		if lo.ParseErr != nil || ro.ParseErr != nil || lo.CompErr != nil || ro.CompErr != nil || lo.Budget || ro.Budget {
			orc.Distribution["skipped"]++
			continue
		}
		if lo.Panic != "" || ro.Panic != "" {
			ctx.Violate("law-panic:"+sub(l.lhs), "panic while evaluating a law: "+lo.Panic+ro.Panic, map[string]any{"lhs": sub(l.lhs), "rhs": sub(l.rhs), "input": common.Canon(in)})
			continue
		}
		if (strings.Contains(A, "?//") || l.strictErr && strings.Contains(B+C, "?//")) && (l.needNoErrA || l.name == "label-unused" || l.strictErr) {
			// `?//` also intercepts `break` (as in jq 1.6: `[first([] as [$a] ?// $b | null)]` is [null,null]),
			// so laws about label/break-based builtins do not apply to such sub-programs
			orc.Distribution["skipped:?// intercepts break"]++
			continue
		}
		if l.needNoErrA {
			ao := common.RunSrc("["+A+"]", common.DeepCopy(in), budget, maxOuts)
			if ao.Err != nil || ao.Budget || ao.CompErr != nil {
				orc.Distribution["skipped:A errors"]++
				continue
			}
		}
		orc.Distribution[l.name]++
		// when either side ends with an error, only require that both do and that the
		// outputs before it agree where the law is about values (both sides collect into one array, so
		// an error means no output at all): compare error classes only for user errors
		lc, rc := common.CanonOutcome(lo), common.CanonOutcome(ro)
		if lo.Err != nil && ro.Err != nil && !l.strictErr {
			// both fail: the law holds vacuously unless it states which error comes first
			distinct[l.name+lc] = true
			continue
		}
		if lc != rc {
			ctx.Violate("law:"+l.name+":"+A+":"+B+":"+C+":"+common.Canon(in), fmt.Sprintf("generator law %s broken: %s gives %s but %s gives %s", l.name, sub(l.lhs), clip(lc), sub(l.rhs), clip(rc)),
				map[string]any{"law": l.name, "lhs": sub(l.lhs), "rhs": sub(l.rhs), "input": common.Canon(in), "lhs_result": lc, "rhs_result": rc})
		}
		distinct[l.name+A+B+C+common.Canon(in)] = true
	}
	orc.Distinct = len(distinct)
	orc.Samples = []string{"[(A) + (B)] == [B as $b | A as $a | $a + $b]  (right operand is the outer loop)", "[def f($a; $b): [$a,$b]; f(A; B)] == [A as $a | B as $b | [$a,$b]]", "[limit(2; A)] == [A] | .[:2]"}
}

func clip(s string) string {
	if len(s) > 300 {
		return s[:300] + "…"
	}
	return s
}

// C12 — every emitted value serialises to valid JSON that reads back equal.
//
// correspondence streams (real code vs lean/Gojq/Model/Encode.lean):
//
//	string  : hex bytes                              -> hex of gojq.Marshal(string)      (library encodeString)
//	marshal : wire value                             -> hex of gojq.Marshal(v)           (library encoder)
//	cli     : indent tab color wire value            -> hex of the command's encoder     (cli/encoder.go)
//	chunks  : same line                              -> sizes of the Write calls it makes (8 KiB flush)
//	strip   : same line                              -> SGR/white-space stripped output  (oracle's stripper vs model's)
//	parse   : hex JSON text                          -> value read by encoding/json      (model's reader)
//
// oracles (model-free, on the real code): every output of every mode is valid UTF-8, valid
// JSON (encoding/json), reads back equal to the sanitised input, all modes agree after
// removing SGR sequences and white space outside strings, indentation is depth × unit
// (tokenizer walk + encoding/json.Indent as an independent layout), `tojson|fromjson` is the
// sanitised identity, the real command line flags give the same bytes as the encoder, and
// --yaml-output / --yaml-input round-trip.
package main

import (
	"bytes"
	"encoding/hex"
	"encoding/json"
	"fmt"
	"io"
	"math"
	"math/big"
	"sort"
	"strconv"
	"strings"
	"unicode/utf8"

	"github.com/itchyny/gojq"
	"github.com/itchyny/gojq/cli"

	"verifharness/common"
)

// ---------------------------------------------------------------------------------------------
// generic helpers

func compile(src string) *gojq.Code {
	q, err := gojq.Parse(src)
	if err != nil {
		panic(err)
	}
	c, err := gojq.Compile(q)
	if err != nil {
		panic(err)
	}
	return c
}

func run1(c *gojq.Code, v any) (out any, err error) {
	defer func() {
		if r := recover(); r != nil {
			err = fmt.Errorf("PANIC %v", r)
		}
	}()
	x, ok := c.Run(v).Next()
	if !ok {
		return nil, fmt.Errorf("no output")
	}
	if e, ok := x.(error); ok {
		return nil, e
	}
	return x, nil
}

// sanitizeString maps every invalid byte to U+FFFD (one per byte, as the encoders do).
func sanitizeString(s string) string {
	if utf8.ValidString(s) {
		return s
	}
	return string([]rune(s))
}

func stripSGR(b []byte) ([]byte, bool) {
	out := make([]byte, 0, len(b))
	wellFormed := true
	for i := 0; i < len(b); {
		if b[i] != 0x1b {
			out = append(out, b[i])
			i++
			continue
		}
		j := i + 1
		if j >= len(b) || b[j] != '[' {
			wellFormed = false
			i++
			continue
		}
		j++
		for j < len(b) && (b[j] >= '0' && b[j] <= '9' || b[j] == ';') {
			j++
		}
		if j >= len(b) || b[j] != 'm' {
			wellFormed = false
			i++
			continue
		}
		i = j + 1
	}
	return out, wellFormed
}

// stripWs removes white space outside string literals.
func stripWs(b []byte) []byte {
	out := make([]byte, 0, len(b))
	inStr, esc := false, false
	for _, c := range b {
		switch {
		case esc:
			esc = false
			out = append(out, c)
		case inStr:
			if c == '\\' {
				esc = true
			} else if c == '"' {
				inStr = false
			}
			out = append(out, c)
		default:
			if c == ' ' || c == '\n' || c == '\t' || c == '\r' {
				continue
			}
			if c == '"' {
				inStr = true
			}
			out = append(out, c)
		}
	}
	return out
}

// checkLayout walks a (colour-free) output of the command's encoder: outside strings the only
// white space is: one newline + depth×indent units after '[' '{' ',' and before a closing
// bracket of a non-empty container, and one space after ':'; nothing in compact mode.
func checkLayout(out []byte, unit byte, indent int) string {
	depth := 0
	inStr, esc := false, false
	for i := 0; i < len(out); i++ {
		c := out[i]
		if esc {
			esc = false
			continue
		}
		if inStr {
			if c < 0x20 || c == 0x7f {
				return fmt.Sprintf("raw control byte %#x inside a string at %d", c, i)
			}
			if c == '\\' {
				esc = true
			} else if c == '"' {
				inStr = false
			}
			continue
		}
		switch c {
		case '"':
			inStr = true
		case '[', '{':
			depth++
		case ']', '}':
			depth--
		case ':':
			if indent >= 0 {
				if i+1 >= len(out) || out[i+1] != ' ' {
					return fmt.Sprintf("no space after ':' at %d", i)
				}
				i++
			}
		case '\n':
			if indent < 0 {
				return fmt.Sprintf("newline in compact output at %d", i)
			}
			if i == 0 {
				return "output starts with a newline"
			}
			prev := out[i-1]
			j := i + 1
			for j < len(out) && out[j] == unit {
				j++
			}
			if j >= len(out) {
				return "output ends in indentation"
			}
			d := depth
			closing := out[j] == ']' || out[j] == '}'
			if closing {
				d--
			}
			if j-(i+1) != d*indent {
				return fmt.Sprintf("newline at offset %d, nesting depth %d: followed by %d indentation bytes, want %d", i, d, j-(i+1), d*indent)
			}
			if !(prev == '[' || prev == '{' || prev == ',' || closing) {
				return fmt.Sprintf("unexpected newline after %q at %d", prev, i)
			}
			if closing && (prev == '[' || prev == '{') {
				return fmt.Sprintf("newline inside an empty container at %d", i)
			}
			i = j - 1
		case ' ', '\t', '\r':
			return fmt.Sprintf("stray white space %#x at %d", c, i)
		case ',':
			if indent >= 0 && (i+1 >= len(out) || out[i+1] != '\n') {
				return fmt.Sprintf("no newline after ',' at %d", i)
			}
		default:
			if c < 0x20 || c == 0x7f {
				return fmt.Sprintf("raw control byte %#x at %d", c, i)
			}
		}
		if (c == '[' || c == '{') && indent >= 0 {
			if i+1 >= len(out) {
				return "truncated"
			}
			if nx := out[i+1]; nx != '\n' && nx != c+2 { // ']' = '['+2, '}' = '{'+2
				return fmt.Sprintf("no newline after %q at %d", c, i)
			}
		}
	}
	if inStr || depth != 0 {
		return "unbalanced output"
	}
	return ""
}

// numLit compares a JSON number literal with the Go number it must denote.
func numLit(lit string, v any) string {
	switch v := v.(type) {
	case int:
		if lit != strconv.Itoa(v) {
			return fmt.Sprintf("int %d printed as %s", v, lit)
		}
	case *big.Int:
		if lit != v.String() {
			return fmt.Sprintf("big %s printed as %s", v, lit)
		}
	case float64:
		if math.IsInf(v, 0) {
			v = math.Copysign(math.MaxFloat64, v)
		}
		f, err := strconv.ParseFloat(lit, 64)
		if err != nil || math.Float64bits(f) != math.Float64bits(v) {
			// the exact decimal value must round to v; compare with big.Float too (ParseFloat is the reference reader)
			return fmt.Sprintf("float %016x (%v) printed as %s which reads back as %v", math.Float64bits(v), v, lit, f)
		}
	case json.Number:
		if lit != v.String() {
			return fmt.Sprintf("literal %s printed as %s", v, lit)
		}
	default:
		return fmt.Sprintf("number literal %s for %T", lit, v)
	}
	return ""
}

// sameAsInput compares a value decoded by encoding/json (UseNumber) with the sanitised input.
// Object keys that collide after sanitisation: the member that is last in the order of the
// original keys wins (encoding/json keeps the last duplicate).
func sameAsInput(got any, v any) string {
	switch v := v.(type) {
	case nil:
		if got != nil {
			return fmt.Sprintf("null read back as %T", got)
		}
	case bool:
		if g, ok := got.(bool); !ok || g != v {
			return fmt.Sprintf("%v read back as %v", v, got)
		}
	case string:
		if g, ok := got.(string); !ok || g != sanitizeString(v) {
			return fmt.Sprintf("string %q read back as %q", v, got)
		}
	case float64:
		if math.IsNaN(v) {
			if got != nil {
				return fmt.Sprintf("NaN read back as %v", got)
			}
			return ""
		}
		g, ok := got.(json.Number)
		if !ok {
			return fmt.Sprintf("number read back as %T", got)
		}
		return numLit(string(g), v)
	case int, *big.Int, json.Number:
		g, ok := got.(json.Number)
		if !ok {
			return fmt.Sprintf("number read back as %T", got)
		}
		return numLit(string(g), v)
	case []any:
		g, ok := got.([]any)
		if !ok || len(g) != len(v) {
			return fmt.Sprintf("array of %d read back as %T of other length", len(v), got)
		}
		for i := range v {
			if w := sameAsInput(g[i], v[i]); w != "" {
				return w
			}
		}
	case map[string]any:
		g, ok := got.(map[string]any)
		if !ok {
			return fmt.Sprintf("object read back as %T", got)
		}
		keys := make([]string, 0, len(v))
		for k := range v {
			keys = append(keys, k)
		}
		sort.Strings(keys)
		want := map[string]any{}
		for _, k := range keys {
			want[sanitizeString(k)] = v[k]
		}
		if len(want) != len(g) {
			return fmt.Sprintf("object of %d keys read back with %d keys", len(want), len(g))
		}
		for k, x := range want {
			y, ok := g[k]
			if !ok {
				return fmt.Sprintf("key %q lost", k)
			}
			if w := sameAsInput(y, x); w != "" {
				return w
			}
		}
	default:
		return fmt.Sprintf("unexpected input type %T", v)
	}
	return ""
}

func decodeJSON(b []byte) (any, error) {
	dec := json.NewDecoder(bytes.NewReader(b))
	dec.UseNumber()
	var w any
	if err := dec.Decode(&w); err != nil {
		return nil, err
	}
	if dec.More() {
		return nil, fmt.Errorf("trailing data")
	}
	return w, nil
}

// describe classifies a value for the distribution tables.
func describe(v any) string {
	switch v := v.(type) {
	case nil:
		return "null"
	case bool:
		return "bool"
	case int:
		return "int"
	case *big.Int:
		return "bigint"
	case float64:
		switch {
		case math.IsNaN(v):
			return "nan"
		case math.IsInf(v, 0):
			return "inf"
		case v == math.Trunc(v):
			return "float-integral"
		case math.Abs(v) < 1e-6, math.Abs(v) >= 1e21:
			return "float-exp"
		}
		return "float"
	case string:
		if !utf8.ValidString(v) {
			return "string-badutf8"
		}
		return "string"
	case []any:
		return "array"
	case map[string]any:
		return "object"
	}
	return fmt.Sprintf("%T", v)
}

func depthOf(v any) int {
	d := 0
	switch v := v.(type) {
	case []any:
		for _, x := range v {
			d = max(d, depthOf(x))
		}
		return d + 1
	case map[string]any:
		for _, x := range v {
			d = max(d, depthOf(x))
		}
		return d + 1
	}
	return 0
}

func hasFloatLeaf(v any) bool {
	switch v := v.(type) {
	case float64:
		return true
	case []any:
		for _, x := range v {
			if hasFloatLeaf(x) {
				return true
			}
		}
	case map[string]any:
		for _, x := range v {
			if hasFloatLeaf(x) {
				return true
			}
		}
	}
	return false
}

// jsonExpressible: the value can be handed to the real command as JSON text and arrive unchanged
// (no NaN/Inf, valid UTF-8 everywhere, no keys colliding).
func jsonExpressible(v any) bool {
	switch v := v.(type) {
	case float64:
		return !math.IsNaN(v) && !math.IsInf(v, 0)
	case string:
		return utf8.ValidString(v)
	case []any:
		for _, x := range v {
			if !jsonExpressible(x) {
				return false
			}
		}
	case map[string]any:
		for k, x := range v {
			if !utf8.ValidString(k) || !jsonExpressible(x) {
				return false
			}
		}
	}
	return true
}

// ---------------------------------------------------------------------------------------------
// value generators

var alphabet = func() []byte {
	var a []byte
	seen := map[byte]bool{}
	add := func(bs ...byte) {
		for _, b := range bs {
			if !seen[b] {
				seen[b] = true
				a = append(a, b)
			}
		}
	}
	for b := 0; b < 0x20; b++ {
		add(byte(b))
	}
	add('"', '\\', 0x7f, 'a', '<', '>', '&', 0xc3, 0xa9, 0xe6, 0xbc, 0xa2, 0x80, 0xbf, 0xed, 0xa0, 0xf0, 0x9f, 0x98, 0xff, 0xe2, 0x80, 0xa8)
	return a
}()

func alphabetStrings(maxLen int) []string {
	out := []string{""}
	prev := []string{""}
	for l := 1; l <= maxLen; l++ {
		var cur []string
		for _, p := range prev {
			for _, b := range alphabet {
				cur = append(cur, p+string([]byte{b}))
			}
		}
		out = append(out, cur...)
		prev = cur
	}
	return out
}

func randAlphabetString(r *common.Rand, n int) string {
	b := make([]byte, n)
	for i := range b {
		b[i] = alphabet[r.Intn(len(alphabet))]
	}
	return string(b)
}

var seqs = []string{"\u00e9", "\u6f22", "\U0001f600", "\u2028", "\u2029", "\ufffd", "\u007f", "\u0080", "\u07ff", "\u0800", "\uffff", "\U00010000", "\U0010ffff",
	"\xed\x9f\xbf", "\xed\xa0\x80", "\xee\x80\x80", "\xf4\x8f\xbf\xbf", "\xf4\x90\x80\x80", "\xc0\x80", "\xc1\xbf", "\xe0\x80\x80", "\xe0\x9f\xbf", "\xf0\x80\x80\x80", "\xf0\x8f\xbf\xbf",
	"\xf8\x88\x80\x80\x80", "\xc3", "\xe6\xbc", "\xf0\x9f\x98", "\x80", "\xbf", "\xfe", "\xff", "a", "\"", "\\", "/", "\n", "\x00", "\x1f", " ", "~", "\x7f", "<", ">", "&", "'", "\\u0041", "\\n"}

func randSeqString(r *common.Rand) string {
	n := r.Intn(8)
	s := ""
	for i := 0; i < n; i++ {
		s += common.Pick(r, seqs)
	}
	return s
}

func floatClasses(r *common.Rand, perClass int) []float64 {
	var fs []float64
	add := func(f float64) {
		fs = append(fs, f, -f)
	}
	fs = append(fs, common.InterestingFloats()...)
	// every power of two (asymmetric rounding interval), and its neighbours for some
	for e := -1074; e <= 1023; e++ {
		f := math.Ldexp(1, e)
		fs = append(fs, f)
		if e%16 == 0 {
			fs = append(fs, math.Nextafter(f, 0), math.Nextafter(f, math.Inf(1)))
		}
	}
	// powers of ten and neighbours
	for e := -323; e <= 308; e++ {
		f, _ := strconv.ParseFloat("1e"+strconv.Itoa(e), 64)
		fs = append(fs, f)
		if e%8 == 0 || e >= -10 && e <= 23 {
			fs = append(fs, math.Nextafter(f, 0), math.Nextafter(f, math.Inf(1)))
		}
	}
	// format thresholds 1e-6 and 1e21, exponents e-09..e-10, e-5..e-7
	for _, s := range []string{"1e-6", "9.999999999999999e-7", "1.0000000000000002e-6", "1e21", "999999999999999900000", "1.0000000000000001e21",
		"1e-9", "9.99e-9", "1.5e-9", "1e-10", "9.9e-10", "1.234e-8", "1e-7", "1.5e-7", "123456789e-15", "5e-324", "1e-323", "2.2250738585072014e-308", "2.225073858507201e-308",
		"4.9406564584124654e-324", "1.7976931348623157e308", "8.98846567431158e307", "0.000001", "0.0000011", "0.00000099", "123456789012345678", "1e22", "1e23", "8.41e21", "2e23", "5e-5", "4.35e-5"} {
		f, _ := strconv.ParseFloat(s, 64)
		add(f)
	}
	// subnormals
	for i := 0; i < perClass; i++ {
		add(math.Float64frombits(r.U64() & (1<<52 - 1)))
		add(math.Float64frombits(uint64(r.Range(1, 4096))))
	}
	// short decimals d.ddd × 10^e
	for i := 0; i < perClass*4; i++ {
		m := r.Range(1, 99999)
		e := r.Range(-30, 30)
		f, _ := strconv.ParseFloat(fmt.Sprintf("%de%d", m, e), 64)
		add(f)
	}
	// random bit patterns / common.RandFloat
	for i := 0; i < perClass*6; i++ {
		fs = append(fs, common.RandFloat(r))
	}
	// 17-digit cases: x.5 ulp neighbours of random doubles
	for i := 0; i < perClass*2; i++ {
		f := math.Float64frombits(r.U64()&^(0x7ff<<52) | uint64(r.Range(900, 1200))<<52)
		fs = append(fs, f)
	}
	return fs
}

func deepValue(depth int, kind int, leaf any) any {
	v := leaf
	for i := 0; i < depth; i++ {
		switch (kind + i) % 3 {
		case 0:
			v = []any{v}
		case 1:
			v = map[string]any{"k": v}
		default:
			v = []any{i, v, map[string]any{"a": "b", "c": []any{}}}
		}
		if kind == 3 {
			v = []any{v}
		}
	}
	return v
}

func wideValue(r *common.Rand, width int, kind int) any {
	switch kind {
	case 0:
		xs := make([]any, width)
		for i := range xs {
			xs[i] = i
		}
		return xs
	case 1:
		m := map[string]any{}
		for i := 0; i < width; i++ {
			m[fmt.Sprintf("key%03d", i)] = []any{i, "x"}
		}
		return m
	default:
		xs := make([]any, width)
		for i := range xs {
			xs[i] = common.RandValue(r, common.GenOpts{Floats: false, BigInts: true, BadUTF8: true, MaxDepth: 2, MaxWidth: 3, SmallKeys: true, NonFinite: true}, 0)
		}
		return xs
	}
}

// ---------------------------------------------------------------------------------------------

type item struct {
	v     any
	class string
}

type mode struct {
	name   string
	indent int
	tab    bool
	color  bool
}

func (m mode) unit() byte {
	if m.tab {
		return '\t'
	}
	return ' '
}

func cliModes() []mode {
	ms := []mode{{"compact", -1, false, false}, {"default", 2, false, false}, {"tab", 1, true, false}}
	for n := 0; n <= 9; n++ {
		ms = append(ms, mode{fmt.Sprintf("indent%d", n), n, false, false})
	}
	for _, m := range append([]mode(nil), ms...) {
		m.name += "+color"
		m.color = true
		ms = append(ms, m)
	}
	return ms
}

func (m mode) flags() []string {
	var fl []string
	switch {
	case m.indent < 0:
		fl = append(fl, "-c")
	case m.tab:
		fl = append(fl, "--tab")
	case m.name == "default" || m.name == "default+color":
	default:
		fl = append(fl, "--indent", strconv.Itoa(m.indent))
	}
	if m.color {
		fl = append(fl, "-C")
	} else {
		fl = append(fl, "-M")
	}
	return fl
}

func main() {
	ctx := common.ParseFlags("C12")
	r := ctx.R

	tojson := compile("tojson")
	libModes := []struct {
		name      string
		code      *gojq.Code
		nonString bool // mode equals tojson on non-strings only
	}{
		{"tojson", tojson, false},
		{"@json", compile("@json"), false},
		{`@json "\(.)"`, compile(`@json "\(.)"`), false},
		{"tostring", compile("tostring"), true},
		{"@text", compile("@text"), true},
		{`"\(.)"`, compile(`"\(.)"`), true},
		{`@text "\(.)"`, compile(`@text "\(.)"`), true},
	}
	roundtrip := compile("tojson | fromjson")
	modes := cliModes()

	// ---------- the value population -----------------------------------------------------------
	var items []item
	add := func(class string, v any) { items = append(items, item{v, class}) }

	short := alphabetStrings(2)
	for _, s := range short {
		add("alphabet-string<=2", s)
	}
	nLong := ctx.N(1500, 40000)
	for i := 0; i < nLong; i++ {
		add("alphabet-string-3..6", randAlphabetString(r, r.Range(3, 6)))
	}
	for i := 0; i < ctx.N(1500, 30000); i++ {
		switch i % 3 {
		case 0:
			add("random-string", common.RandString(r, true))
		default:
			add("sequence-string", randSeqString(r))
		}
	}
	for _, s := range seqs {
		add("sequence-string", s)
	}
	add("long-string", strings.Repeat("a", 9000))
	add("long-string", strings.Repeat("é\xff\"", 3000))
	for _, f := range floatClasses(r, ctx.N(150, 4000)) {
		add("float", f)
	}
	add("float", math.NaN())
	add("float", math.Inf(1))
	add("float", math.Inf(-1))
	for _, z := range common.BoundaryInts() {
		add("int", common.NormInt(z))
	}
	for i := 0; i < ctx.N(400, 8000); i++ {
		add("int", common.NormInt(common.RandInt(r)))
	}
	for _, v := range common.Universe(true) {
		add("universe", v)
	}
	gen := common.DefaultGen
	gen.NonFinite = true
	for i := 0; i < ctx.N(1200, 25000); i++ {
		g := gen
		g.MaxDepth = r.Range(1, 6)
		g.MaxWidth = r.Range(1, 6)
		g.SmallKeys = r.Bool()
		add("random-container", common.RandValue(r, g, 0))
	}
	for d := 1; d <= 40; d++ {
		for kind := 0; kind < 4; kind++ {
			if !ctx.Thorough && d > 20 && (d+kind)%3 != 0 {
				continue
			}
			add("deep", deepValue(d, kind, common.Pick(r, []any{nil, 1, "x", []any{}, map[string]any{}, 1.5})))
		}
	}
	// depths around every power of two up to 512 (a depth limit or a fixed-size stack in an encoder)
	for _, d := range []int{63, 64, 65, 127, 128, 129, 255, 256, 257, 258, 511, 512, 513} {
		if !ctx.Thorough && d > 300 {
			continue // indented output is quadratic in the depth
		}
		add("deep", deepValue(d, d%4, common.Pick(r, []any{nil, 1, "x", []any{}, map[string]any{}})))
		add("deep", deepValue(d, (d+1)%4, common.Pick(r, []any{nil, 1, "x", []any{}, map[string]any{}})))
	}
	for _, w := range []int{1, 2, 16, 17, 31, 32, 33, 100, 200} {
		for kind := 0; kind < 3; kind++ {
			add("wide", wideValue(r, w, kind))
		}
	}
	// crossing the 8 KiB flush threshold at different places
	add("flush", wideValue(r, 3000, 0))
	add("flush", wideValue(r, 700, 1))
	add("flush", []any{strings.Repeat("x", 8190), 1, 2, []any{strings.Repeat("y", 8200)}, 3})
	add("flush", []any{strings.Repeat("x", 8185)})
	add("flush", []any{strings.Repeat("x", 8186)})
	add("flush", []any{strings.Repeat("x", 8187)})
	// longer than the 8 KiB buffer WITH escapes inside (an escape must stay where it stands)
	add("flush", strings.Repeat("a", 5000)+"\n"+strings.Repeat("b", 5000))
	add("flush", []any{strings.Repeat("x\"y", 3000)})
	add("flush", map[string]any{strings.Repeat("k", 8200) + "\tq": strings.Repeat("v", 8190) + "\\w"})
	add("flush", strings.Repeat("é", 4100)+"\x00z\xff")
	add("flush", strings.Repeat("x", 8190))
	add("flush", strings.Repeat("x", 8191))
	add("flush", deepValue(40, 2, wideValue(r, 300, 0)))
	for i := 0; i < ctx.N(6, 60); i++ {
		add("flush", wideValue(r, r.Range(400, 1500), 2))
	}

	// ---------- streams + oracles ---------------------------------------------------------------
	stString := ctx.NewStream("string", "Gojq.Encode.encodeString (Model/Encode.lean)",
		"all strings of length <= 2 over the 54-byte alphabet of the property (exhaustive), random alphabet strings of length 3..6, random strings, UTF-8 boundary sequences; distinct = distinct implementation answers")
	stMarshal := ctx.NewStream("marshal", "Gojq.Encode.encodeValue / encodeNum / encodeFloat / encodeInt (Model/Encode.lean)",
		"every generated value (strings, float classes incl. every power of two and ten, integers of every size, containers) through gojq.Marshal; distinct = distinct implementation answers")
	stCli := ctx.NewStream("cli", "Gojq.Encode.Cli.encodeCli (Model/Encode.lean): enc, writeIndent, writeIndentInternal, colours",
		"values x {compact, default, --tab, --indent 0..9} x {colour on, off} (all option combinations on containers, a rotating subset on scalars); distinct = distinct implementation answers")
	stChunks := ctx.NewStream("chunks", "Gojq.Encode.Cli.marshalChunks / checkFlush (Model/Encode.lean)",
		"sizes of the Write calls of the command's encoder (8 KiB flush test after each value); distinct = distinct chunk size lists")
	stStrip := ctx.NewStream("strip", "Gojq.Encode.stripSGR / stripWs (Model/Encode.lean)",
		"the oracle's SGR/white-space stripper applied to the real output vs the model's stripper applied to the model's output; distinct = distinct answers")
	stParse := ctx.NewStream("parse", "Gojq.Encode.parseJson (Model/Encode.lean)",
		"JSON texts produced by the real encoders in every mode plus hand-written texts (white space, escapes, surrogate pairs, malformed) read by encoding/json with UseNumber and normalised like gojq; distinct = distinct answers")

	orRead := ctx.NewOracle("read-back", "every output of every mode (gojq.Marshal, tojson, tostring, @json, @text, string interpolation, the command's encoder under each option) is valid UTF-8, json.Valid and decodes (encoding/json, UseNumber) to the sanitised input: NaN->null, +-Inf->+-MaxFloat64, invalid UTF-8 byte->U+FFFD, integers digit-exact, floats bit-exact through strconv.ParseFloat; distinct = distinct Marshal outputs")
	orAgree := ctx.NewOracle("modes-agree", "all modes give gojq.Marshal's bytes after removing SGR sequences and white space outside strings; coloured output minus SGR equals uncoloured output byte for byte; distinct = distinct (value, mode) outputs")
	orIndent := ctx.NewOracle("indentation", "tokenizer walk of the command's output: each newline at nesting depth d is followed by exactly d x indent units, one space after ':', nothing else outside strings; and the bytes equal encoding/json.Indent of the compact text (independent layout); distinct = distinct (depth, indent, unit) triples seen at newlines")
	orFrom := ctx.NewOracle("tojson-fromjson", "`tojson|fromjson` equals the sanitised input; distinct = distinct inputs")
	orFlags := ctx.NewOracle("command-flags", "the real command (flag parsing, createMarshaler, printValues) run in-process on the value as JSON text prints the encoder's bytes plus a newline for -c, default, --tab, --indent n, -C/-M; --indent 10 and --indent -1 are rejected; distinct = distinct (flags, output)")
	orYaml := ctx.NewOracle("yaml-roundtrip", "--yaml-output text read by --yaml-input gives the same value (one document); on the sub-domain listed in the notes; distinct = distinct inputs")

	var strLines, strImpl []string
	var mLines, mImpl []string
	var cLines, cImpl []string
	var chLines, chImpl []string
	var spLines, spImpl []string
	parseTexts := map[string]bool{}
	distinctMarshal := map[string]bool{}
	distinctAgree := 0
	indentTriples := map[[3]int]bool{}
	distinctFlags := map[string]bool{}

	violate := func(kind string, v any, what string, extra map[string]any) {
		key := kind + ":" + common.Canon(v)
		if len(key) > 200 {
			key = key[:200]
		}
		rp := map[string]any{"value_wire": common.Canon(v), "what": what}
		for k, x := range extra {
			rp[k] = x
		}
		ctx.Violate(key, what, rp)
	}

	checkText := func(kind, modeName string, v any, out []byte, colored bool) (plain []byte, ok bool) {
		orRead.Cases++
		orRead.Distribution[modeName]++
		extra := map[string]any{"mode": modeName, "output_hex": clipHex(out)}
		if !utf8.Valid(out) {
			violate("utf8:"+modeName, v, "output of "+modeName+" is not valid UTF-8", extra)
			return nil, false
		}
		plain = out
		if colored {
			var wf bool
			plain, wf = stripSGR(out)
			if !wf {
				violate("sgr:"+modeName, v, "malformed SGR sequence in "+modeName, extra)
				return nil, false
			}
		} else if bytes.IndexByte(out, 0x1b) >= 0 {
			violate("esc:"+modeName, v, "raw ESC in uncoloured output of "+modeName, extra)
			return nil, false
		}
		if !colored && !strings.HasPrefix(modeName, "cli:") {
			// the library encoder writes no white space at all: no control byte may appear anywhere
			for i, c := range out {
				if c < 0x20 || c == 0x7f {
					violate("control:"+modeName, v, fmt.Sprintf("raw control byte %#x at offset %d in the output of %s", c, i, modeName), extra)
					return nil, false
				}
			}
		}
		if !json.Valid(plain) {
			violate("invalid:"+modeName, v, "output of "+modeName+" is not valid JSON: "+clip(string(plain)), extra)
			return nil, false
		}
		got, err := decodeJSON(plain)
		if err != nil {
			violate("decode:"+modeName, v, "output of "+modeName+" does not decode: "+err.Error(), extra)
			return nil, false
		}
		if w := sameAsInput(got, v); w != "" {
			violate("readback:"+modeName, v, modeName+": "+w, extra)
			return nil, false
		}
		return plain, true
	}

	type keptT struct {
		got, copy []byte
		wire      string
	}
	var kept []keptT
	orKeep := ctx.NewOracle("marshal-retained", "history of library calls: the byte slices returned by the last 8 gojq.Marshal calls are kept and compared, after every further call, with the copies taken when they were returned; distinct = calls")
	for idx, it := range items {
		v := it.v
		wire := common.Canon(v)
		_, isString := v.(string)
		// ---- library encoder
		mb, err := marshalSafe(v)
		if err != nil {
			violate("marshal-panic", v, "gojq.Marshal: "+err.Error(), nil)
			continue
		}
		distinctMarshal[string(mb)] = true
		// a result the caller keeps must not change when later values are marshalled (a history
		// of calls: the last 8 results are kept and re-read after every call)
		kept = append(kept, keptT{mb, bytes.Clone(mb), wire})
		if len(kept) > 8 {
			kept = kept[1:]
		}
		for _, k := range kept {
			orKeep.Cases++
			if !bytes.Equal(k.got, k.copy) {
				violate("marshal-result-overwritten", v, fmt.Sprintf("the bytes gojq.Marshal returned for %s read %q at the time and %q after marshalling later values", clip(k.wire), clip(string(k.copy)), clip(string(k.got))), nil)
				k.copy = bytes.Clone(k.got)
			}
		}
		stMarshal.Distribution[it.class+":"+describe(v)]++
		mLines = append(mLines, wire)
		mImpl = append(mImpl, hex.EncodeToString(mb))
		if s, ok := v.(string); ok {
			stString.Distribution[it.class]++
			strLines = append(strLines, hexOrDash(s))
			strImpl = append(strImpl, hex.EncodeToString(mb))
		}
		if _, ok := checkText("marshal", "gojq.Marshal", v, mb, false); !ok {
			continue
		}
		if len(mb) < 300 && (idx%3 == 0 || !isString) {
			parseTexts[string(mb)] = true
		}
		for _, lm := range libModes {
			if lm.nonString && isString {
				// tostring/@text/interpolation of a string is the string itself
				out, err := run1(lm.code, v)
				if s, ok := out.(string); err != nil || !ok || s != v.(string) {
					violate("tostring-string:"+lm.name, v, fmt.Sprintf("%s on a string is not the identity: %q", lm.name, out), nil)
				}
				continue
			}
			out, err := run1(lm.code, v)
			s, ok := out.(string)
			orAgree.Cases++
			if err != nil || !ok {
				violate("libmode-error:"+lm.name, v, fmt.Sprintf("%s failed: %v %T", lm.name, err, out), nil)
				continue
			}
			if s != string(mb) {
				violate("libmode:"+lm.name, v, fmt.Sprintf("%s gives %s, gojq.Marshal gives %s", lm.name, clip(s), clip(string(mb))),
					map[string]any{"mode": lm.name, "cmd": "gojq '" + lm.name + "'"})
			}
			distinctAgree++
		}
		// ---- tojson | fromjson
		orFrom.Cases++
		back, err := run1(roundtrip, v)
		if err != nil {
			violate("fromjson-error", v, "tojson|fromjson failed: "+err.Error(), nil)
		} else if w := sameAsInput(normalizeForCompare(back), v); w != "" {
			violate("fromjson", v, "tojson|fromjson: "+w, map[string]any{"result_wire": clip(common.Canon(back))})
		}
		// ---- the command's encoder
		_, isArr := v.([]any)
		_, isObj := v.(map[string]any)
		container := isArr || isObj
		for mi, m := range modes {
			// scalars: every scalar in compact+default(+colour); other options on a rotating subset
			if !container && !(m.name == "compact" || m.name == "default" || m.name == "default+color" || (idx+mi)%13 == 0) {
				continue
			}
			if container && !ctx.Thorough && len(mb) > 2000 && mi%5 != idx%5 && m.name != "default" && m.name != "tab" && m.name != "indent9+color" {
				continue
			}
			chunks, err := encodeSafe(v, m)
			if err != nil {
				violate("cli-panic:"+m.name, v, "cli encoder: "+err.Error(), nil)
				continue
			}
			out := bytes.Join(chunks, nil)
			line := fmt.Sprintf("%d %d %d %s", m.indent, b2i(m.tab), b2i(m.color), wire)
			cLines = append(cLines, line)
			cImpl = append(cImpl, hex.EncodeToString(out))
			stCli.Distribution[m.name+":"+it.class]++
			if len(out) > 4000 || idx%7 == 0 {
				sizes := make([]string, len(chunks))
				for i, c := range chunks {
					sizes[i] = strconv.Itoa(len(c))
				}
				chLines = append(chLines, line)
				chImpl = append(chImpl, strings.Join(sizes, " "))
				stChunks.Distribution[fmt.Sprintf("%d chunks", len(chunks))]++
			}
			plain, ok := checkText("cli", "cli:"+m.name, v, out, m.color)
			if !ok {
				continue
			}
			orAgree.Cases++
			distinctAgree++
			stripped := stripWs(plain)
			if !bytes.Equal(stripped, mb) {
				violate("cli-vs-marshal:"+m.name, v, fmt.Sprintf("cli %s minus white space/SGR is %s, gojq.Marshal gives %s", m.name, clip(string(stripped)), clip(string(mb))),
					map[string]any{"mode": m.name})
			}
			if (idx+mi)%5 == 0 && len(out) < 3000 {
				spLines = append(spLines, line)
				spImpl = append(spImpl, hex.EncodeToString(stripped))
			}
			if m.color {
				// coloured minus SGR == uncoloured, byte for byte
				un := m
				un.color = false
				uc, _ := encodeSafe(v, un)
				if !bytes.Equal(plain, bytes.Join(uc, nil)) {
					violate("color-vs-mono:"+m.name, v, "coloured output minus SGR differs from monochrome output in "+m.name, map[string]any{"mode": m.name})
				}
			}
			// indentation
			orIndent.Cases++
			if w := checkLayout(plain, m.unit(), m.indent); w != "" {
				violate("layout:"+m.name, v, "cli "+m.name+": "+w, map[string]any{"mode": m.name, "output": clip(string(plain))})
			}
			if m.indent >= 0 {
				var ref bytes.Buffer
				if err := json.Indent(&ref, mb, "", strings.Repeat(string([]byte{m.unit()}), m.indent)); err == nil && !bytes.Equal(ref.Bytes(), plain) {
					violate("layout-ref:"+m.name, v, "cli "+m.name+" differs from json.Indent of the compact text", map[string]any{"mode": m.name, "output": clip(string(plain)), "reference": clip(ref.String())})
				}
				indentTriples[[3]int{depthOf(v), m.indent, int(m.unit())}] = true
			}
			if container && len(plain) < 200 && (idx+mi)%11 == 0 {
				parseTexts[string(plain)] = true
			}
		}
		// ---- real command line
		if (container || idx%9 == 0) && jsonExpressible(v) && (ctx.Thorough || idx%4 == 0 || it.class == "deep") {
			for mi, m := range modes {
				if !ctx.Thorough && (mi+idx)%4 != 0 {
					continue
				}
				orFlags.Cases++
				args := append(m.flags(), ".")
				so, se, code := runSafe(args, bytes.NewReader(mb))
				chunks, _ := encodeSafe(v, m)
				want := append(bytes.Join(chunks, nil), '\n')
				distinctFlags[strings.Join(args, " ")+string(so)] = true
				if code != 0 || !bytes.Equal(so, want) {
					violate("flags:"+m.name, v, fmt.Sprintf("gojq %s prints %s (exit %d, stderr %s), the encoder gives %s", strings.Join(args, " "), clip(string(so)), code, clip(string(se)), clip(string(want))),
						map[string]any{"cmd": "echo '" + clip(string(mb)) + "' | gojq " + strings.Join(args, " ")})
				}
			}
		}
	}
	// flag range
	for _, bad := range [][]string{{"--indent", "10", "."}, {"--indent", "-1", "."}, {"--indent", "100", "."}} {
		orFlags.Cases++
		so, _, code := runSafe(bad, strings.NewReader("[1]"))
		distinctFlags[strings.Join(bad, " ")] = true
		if code == 0 || len(so) != 0 {
			ctx.Violate("flags:range:"+bad[1], "gojq "+strings.Join(bad, " ")+" is accepted", map[string]any{"cmd": "echo '[1]' | gojq " + strings.Join(bad, " "), "stdout": string(so)})
		}
	}
	// one encoder, several values (the command reuses encoder and buffer)
	for i := 0; i+1 < len(items); i += ctx.N(37, 5) {
		a, b := items[i].v, items[i+1].v
		for _, m := range []mode{modes[1], modes[2], modes[len(modes)-1]} {
			orAgree.Cases++
			o1, o2, err := twiceSafe(a, b, m)
			c1, _ := encodeSafe(a, m)
			c2, _ := encodeSafe(b, m)
			if err != nil || !bytes.Equal(o1, bytes.Join(c1, nil)) || !bytes.Equal(o2, bytes.Join(c2, nil)) {
				violate("encoder-reuse:"+m.name, []any{a, b}, "a reused encoder prints a value differently from a fresh one in "+m.name, nil)
			}
		}
	}

	orRead.Distinct = len(distinctMarshal)
	orAgree.Distinct = distinctAgree
	orIndent.Distinct = len(indentTriples)
	orFrom.Distinct = len(distinctMarshal)
	orFlags.Distinct = len(distinctFlags)
	orRead.Samples = []string{`"\x7f\xff" -> "\u007f\ufffd"`, "NaN -> null, +Inf -> 1.7976931348623157e+308", "[1,{\"a\":[]}] in every mode"}
	orIndent.Samples = []string{"depth 40 x --indent 9 (360 spaces, 4 doublings)", "depth 17 x --tab (17 tabs > 16-tab block)"}

	// ---------- parse stream texts --------------------------------------------------------------
	for _, t := range handTexts {
		parseTexts[t] = true
	}
	var pts []string
	for t := range parseTexts {
		pts = append(pts, t)
	}
	sort.Strings(pts)
	var pLines, pImpl []string
	for _, t := range pts {
		if !utf8.ValidString(t) {
			continue
		}
		pLines = append(pLines, hexOrDash(t))
		w, err := decodeJSON([]byte(t))
		if err != nil || !json.Valid([]byte(t)) {
			pImpl = append(pImpl, "err")
			stParse.Distribution["rejected"]++
		} else {
			pImpl = append(pImpl, "ok "+common.Canon(w))
			stParse.Distribution["accepted"]++
		}
	}

	// ---------- YAML ------------------------------------------------------------------------------
	yamlOracle(ctx, orYaml, items)
	yamlInputOracle(ctx)
	longLiteralOracle(ctx)

	ctx.RunStream(stString, strLines, strImpl)
	stString.Exhaustive = false
	ctx.RunStream(stMarshal, mLines, mImpl)
	ctx.RunStream(stCli, cLines, cImpl)
	ctx.RunStream(stChunks, chLines, chImpl)
	ctx.RunStream(stStrip, spLines, spImpl)
	ctx.RunStream(stParse, pLines, pImpl)
	ctx.Res.Notes = append(ctx.Res.Notes,
		fmt.Sprintf("alphabet: %d bytes, %d strings of length <= 2 (all of them in both tiers)", len(alphabet), len(short)),
		"object keys that collide after U+FFFD sanitisation are compared with encoding/json's last-duplicate-wins rule",
		"floats are compared bit-exactly through strconv.ParseFloat of the printed literal; an integral double prints without fraction and reads back as an integer literal of the same float64 value")
	ctx.Finish()
}

var handTexts = []string{
	`null`, ` null `, "\tnull\n", `true`, `false`, `nul`, `nulll`, `tru`, `[]`, `[ ]`, `{}`, `{ }`, `[1,2]`, `[1 ,2 ]`, `[1,]`, `[,1]`, `[1 2]`, `{"a":1}`, `{"a" : 1 , "b":[ ] }`, `{"a":1,}`, `{a:1}`, `{"a"}`, `{"a":}`,
	`0`, `-0`, `-0.0`, `0.0`, `00`, `01`, `-`, `-a`, `1.`, `.5`, `1e`, `1e+`, `1E5`, `1e+5`, `1e-5`, `1.5e3`, `123456789012345678901234567890`, `-123456789012345678901234567890`, `1.0`, `100`, `1e2`, `0.1`, `1e-7`, `1.7976931348623157e308`,
	`5e-324`, `2.5e-324`, `2.4e-324`, `0.000001`, `1E-2`, `12.5e+1`, `9007199254740993`, `9007199254740993.0`, `"a"`, `"a`, `a"`, `"\n"`, `"A"`, `"é"`, `"😀"`, `"\ud83d"`, `"\ude00"`, `"\ud83dx"`, `"\ud83dA"`, `"\ud83d😀"`,
	`"\/"`, `"\b\f\n\r\t\"\\"`, `"\x"`, `"\u12"`, `"\u12g4"`, `"\ufffd"`, "\"\ufffd\"", `"\ud83d\ude00"`, `"\uD83D\uDE00x"`, `"\u00e9"`, `"\u6F22"`, "\" \"", "\"a\tb\"", "\"a\nb\"", "\"\x7f\"", `"é漢😀"`, `[[[[[[]]]]]]`, `[[[[[[]]]]]`, `[1]]`, `{"a":{"b":{"c":[1,{"d":null}]}}}`,
	`{"a":1,"a":2}`, `{"b":1,"a":2}`, ` [ 1 , { "a" : [ true , false , null ] } , "x" ] `, ``, ` `, `1 2`, `[1] x`, `"\u0000"`, `"\u001f"`, `"\u007f"`, `[1e5,1E+5,-1.5e-3]`, `-1`, `- 1`, `+1`, `1e05`, `1e-05`, `0e0`, `-0e0`, `0.000`,
}

func clip(s string) string {
	if len(s) > 300 {
		return s[:300] + "…"
	}
	return s
}

func clipHex(b []byte) string {
	if len(b) > 400 {
		b = b[:400]
	}
	return hex.EncodeToString(b)
}

func hexOrDash(s string) string {
	if s == "" {
		return "-"
	}
	return common.Hex(s)
}

func b2i(b bool) int {
	if b {
		return 1
	}
	return 0
}

func marshalSafe(v any) (b []byte, err error) {
	defer func() {
		if r := recover(); r != nil {
			err = fmt.Errorf("PANIC %v", r)
		}
	}()
	return gojq.Marshal(v)
}

func encodeSafe(v any, m mode) (chunks [][]byte, err error) {
	defer func() {
		if r := recover(); r != nil {
			err = fmt.Errorf("PANIC %v", r)
		}
	}()
	return cli.VerifC12EncodeChunks(v, m.indent, m.tab, m.color)
}

// runSafe runs the whole command in-process; a panic is reported as exit code -1 with the panic text on stderr.
func runSafe(args []string, stdin io.Reader) (so, se []byte, code int) {
	defer func() {
		if r := recover(); r != nil {
			so, se, code = nil, []byte(fmt.Sprint("PANIC ", r)), -1
		}
	}()
	return cli.VerifC12Run(args, stdin)
}

func twiceSafe(a, b any, m mode) (o1, o2 []byte, err error) {
	defer func() {
		if r := recover(); r != nil {
			err = fmt.Errorf("PANIC %v", r)
		}
	}()
	return cli.VerifC12EncodeTwice(a, b, m.indent, m.tab, m.color)
}

// normalizeForCompare turns the result of `fromjson` (json.Number / int / float64 / *big.Int leaves)
// into the json.Number form sameAsInput expects.
func normalizeForCompare(v any) any {
	switch v := v.(type) {
	case int:
		return json.Number(strconv.Itoa(v))
	case *big.Int:
		return json.Number(v.String())
	case float64:
		return json.Number(strconv.FormatFloat(v, 'g', -1, 64))
	case []any:
		xs := make([]any, len(v))
		for i, x := range v {
			xs[i] = normalizeForCompare(x)
		}
		return xs
	case map[string]any:
		m := make(map[string]any, len(v))
		for k, x := range v {
			m[k] = normalizeForCompare(x)
		}
		return m
	}
	return v
}

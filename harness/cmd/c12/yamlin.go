package main

// yamlInputOracle: "every emitted number is valid JSON" also for values that ENTER through
// --yaml-input. YAML's number syntaxes are wider than JSON's (+12, -.5, 1., .5e3, 0x1F, 0o17,
// 1_000, .inf, .nan); whatever carrier the YAML reader chooses, every way of printing the value
// must give valid JSON that reads back as the number the YAML scalar denotes.

import (
	"encoding/json"
	"fmt"
	"math"
	"strings"

	"github.com/itchyny/gojq/cli"

	"verifharness/common"
)

func yamlInputOracle(ctx *common.Ctx) {
	orc := ctx.NewOracle("yaml-input-numbers", "YAML number scalars of every lexical shape (signs, leading/trailing dot, exponents, hex/octal, infinities, NaN; in block sequences, flow sequences, mappings, nested) through the real command with --yaml-input under `.`, `tojson`, `[.[] | tostring]`, -c / indented / --yaml-output|--yaml-input: stdout is valid JSON and each number equals the value the scalar denotes (±Inf saturated, NaN null); distinct = (scalar, context, printer)")
	type sc struct {
		text string
		val  float64 // NaN = null expected
	}
	scalars := []sc{{"12", 12}, {"+12", 12}, {"-12", -12}, {"1.5", 1.5}, {"+1.5", 1.5}, {"-.5", -0.5}, {".5", 0.5}, {"+.5", 0.5}, {"1.", 1}, {"-1.", -1}, {"+1.", 1}, {".5e3", 500}, {"+.5e3", 500}, {"1.e2", 100}, {"1e3", 1000}, {"1E3", 1000}, {"1e+3", 1000}, {"+1e-2", 0.01}, {"-1.5E+2", -150},
		{"0x1F", 31}, {"0o17", 15}, {"0", 0}, {"-0", 0}, {"+0", 0}, {"-0.0", 0}, {"0.", 0}, {".0", 0}, {"007", 7}, {"1_000", 1000}, {".inf", math.MaxFloat64}, {"-.inf", -math.MaxFloat64}, {"+.inf", math.MaxFloat64}, {".Inf", math.MaxFloat64}, {".nan", math.NaN()}, {".NaN", math.NaN()},
		{"123456789012345678901234567890", 1.2345678901234568e29}, {"+123456789012345678901234567890", 1.2345678901234568e29}, {"1.7976931348623157e309", math.MaxFloat64}, {"1e-400", 0}, {"9007199254740993", 9007199254740993}}
	contexts := []string{"%s\n", "- %s\n", "[%s, %s]\n", "a: %s\n", "a:\n  - %s\n  - b: %s\n", "{a: %s, b: [%s]}\n", "- - %s\n", "? x\n: %s\n"}
	printers := [][]string{{"-c", "."}, {"."}, {"-c", "tojson"}, {"-c", "[.. | numbers | tostring]"}, {"-c", "[.. | numbers | . + 0]"}, {"-c", "--tab", "."}, {"-c", "[.. | numbers]"}}
	n := 0
	for si, s := range scalars {
		for ci, cx := range contexts {
			doc := strings.ReplaceAll(cx, "%s", s.text)
			for pi, pr := range printers {
				if !ctx.Thorough && (si+ci+pi)%3 != 0 {
					continue
				}
				out, errOut, code := cli.VerifRun(append([]string{"--yaml-input"}, pr...), []byte(doc))
				orc.Cases++
				n++
				if code != 0 {
					// a scalar the YAML reader takes for a string or rejects is outside the claim
					orc.Distribution["yaml-reader-rejects"]++
					_ = errOut
					continue
				}
				txt := string(out)
				if pi == 2 { // tojson: the output is a JSON string holding JSON text
					var inner string
					if json.Unmarshal(out, &inner) != nil {
						ctx.Violate("yaml-input:invalid-json:"+s.text+fmt.Sprint(":", ci, ":", pi), fmt.Sprintf("--yaml-input of %q with tojson prints %q, which is not a JSON string", doc, clip(txt)), map[string]any{"yaml": doc, "args": pr, "observed": txt})
						continue
					}
					txt = inner
				}
				if !json.Valid([]byte(txt)) {
					ctx.Violate("yaml-input:invalid-json:"+s.text+fmt.Sprint(":", ci, ":", pi), fmt.Sprintf("the YAML number %s read with --yaml-input is printed as invalid JSON: %s", s.text, clip(txt)),
						map[string]any{"yaml": doc, "args": pr, "observed": txt, "cmd": fmt.Sprintf("printf %%s %q | gojq --yaml-input %s", doc, strings.Join(pr, " "))})
					continue
				}
				// every number in the output denotes the scalar's value (strings: the reader took it for a string — fine)
				dec := json.NewDecoder(strings.NewReader(txt))
				dec.UseNumber()
				var v any
				if dec.Decode(&v) != nil {
					continue
				}
				bad := ""
				var walk func(x any)
				walk = func(x any) {
					switch x := x.(type) {
					case json.Number:
						f, err := x.Float64()
						if err != nil && !math.IsInf(f, 0) {
							bad = x.String()
							return
						}
						if math.IsInf(f, 0) {
							f = math.Copysign(math.MaxFloat64, f)
						}
						if math.IsNaN(s.val) || f != s.val {
							bad = x.String()
						}
					case string:
						if pi == 3 { // tostring of a number
							// (a literal beyond the float64 range keeps its digits: strconv reports ±Inf with a range error)
							f, err := json.Number(x).Float64()
							if err != nil && !math.IsInf(f, 0) {
								if x != "null" {
									bad = x
								}
							} else if !math.IsNaN(s.val) && f != s.val && !(math.IsInf(f, 0) && math.Abs(s.val) == math.MaxFloat64) {
								bad = x
							}
						}
					case []any:
						for _, y := range x {
							walk(y)
						}
					case map[string]any:
						for _, y := range x {
							walk(y)
						}
					}
				}
				walk(v)
				if bad != "" {
					ctx.Violate("yaml-input:wrong-number:"+s.text+fmt.Sprint(":", ci, ":", pi), fmt.Sprintf("the YAML number %s read with --yaml-input is printed as %s (expected the value %v)", s.text, bad, s.val),
						map[string]any{"yaml": doc, "args": pr, "observed": txt, "expected_value": fmt.Sprint(s.val)})
				}
			}
		}
	}
	orc.Distinct = n
}

// longLiteralOracle: number literals of the input that are longer than any fixed scratch buffer
// (65..400 bytes: integers, long fractions, long fractions with exponents) through the real
// command in every output mode, alone and inside containers: the text written is the text read
// (after removing white space and colour), so it reads back equal.
func longLiteralOracle(ctx *common.Ctx) {
	orc := ctx.NewOracle("long-literals", "number literals of 41..400 bytes as JSON input text through the real command (-c, default indent, --tab, --indent 7, -C, --yaml-output|--yaml-input for integers) at top level, in an array and as an object value: stdout minus white space and SGR sequences equals the input text; distinct = literals")
	r := ctx.R.Fork(1212)
	var lits []string
	for _, n := range []int{41, 63, 64, 65, 66, 100, 127, 128, 129, 255, 256, 257, 400} {
		digits := func(k int) string {
			var sb strings.Builder
			for i := 0; i < k; i++ {
				d := byte('0' + r.Intn(10))
				if i == 0 && d == '0' {
					d = '3'
				}
				sb.WriteByte(d)
			}
			return sb.String()
		}
		lits = append(lits, digits(n), "-"+digits(n-1), digits(n/2)+"."+digits(n-n/2-1), "0."+digits(n-2), digits(n-6)+"e-"+fmt.Sprint(r.Range(10, 99)), "-"+digits(3)+"."+digits(n-9)+"E+"+fmt.Sprint(r.Range(10, 99)))
	}
	sgr := func(s string) string {
		var sb strings.Builder
		for i := 0; i < len(s); i++ {
			if s[i] == 0x1b {
				for i < len(s) && s[i] != 'm' {
					i++
				}
				continue
			}
			if s[i] == ' ' || s[i] == '\n' || s[i] == '\t' {
				continue
			}
			sb.WriteByte(s[i])
		}
		return sb.String()
	}
	modes := [][]string{{"-c"}, {}, {"--tab"}, {"--indent", "7"}, {"-C", "-c"}, {"-C"}}
	for li, lit := range lits {
		for ci, cx := range []string{"%s", "[%s,1]", "{\"a\":%s}", "[[%s],{\"k\":[%s]}]"} {
			text := strings.ReplaceAll(cx, "%s", lit)
			for mi, m := range modes {
				if !ctx.Thorough && (li+ci+mi)%3 != 0 {
					continue
				}
				out, _, code := cli.VerifRun(append(append([]string{}, m...), "."), []byte(text+"\n"))
				orc.Cases++
				if got := sgr(string(out)); code != 0 || got != text {
					ctx.Violate(fmt.Sprintf("long-literal:%d:%d:%d", len(lit), ci, mi), fmt.Sprintf("a %d-byte number literal of the input is printed as %s by `gojq %s .` (status %d)", len(lit), clip(got), strings.Join(m, " "), code),
						map[string]any{"input": text, "args": m, "observed": string(out), "cmd": "echo '" + text + "' | gojq " + strings.Join(m, " ") + " ."})
				}
			}
		}
	}
	// integer literals of every size through --yaml-output and back through --yaml-input
	ints := []string{"0", "-1", "9223372036854775807", "9223372036854775808", "-9223372036854775808", "-9223372036854775809", "18446744073709551616", "12345678901234567890123", "-100000000000000000000", "9007199254740993", "340282366920938463463374607431768211456"}
	for _, l := range lits {
		if !strings.ContainsAny(l, ".eE") {
			ints = append(ints, l)
		}
	}
	for _, lit := range ints {
		for ci, cx := range []string{"%s", "[%s,1]", "{\"a\":%s}"} {
			text := strings.ReplaceAll(cx, "%s", lit)
			y, _, code := cli.VerifRun([]string{"--yaml-output", "."}, []byte(text+"\n"))
			if code != 0 {
				continue
			}
			back, _, code2 := cli.VerifRun([]string{"--yaml-input", "-c", "."}, y)
			orc.Cases++
			if got := strings.TrimSpace(string(back)); code2 != 0 || got != text {
				ctx.Violate(fmt.Sprintf("yaml-integer-literal:%s:%d", lit, ci), fmt.Sprintf("the integer literal %s of the input written with --yaml-output (%q) reads back with --yaml-input as %s", clip(lit), clip(string(y)), clip(got)),
					map[string]any{"input": text, "yaml": string(y), "observed": got, "cmd": "echo '" + text + "' | gojq --yaml-output . | gojq --yaml-input -c ."})
			}
		}
	}
	orc.Distinct = len(lits) + len(ints)
}

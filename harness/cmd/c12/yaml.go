package main

import (
	"encoding/json"
	"fmt"
	"math"
	"math/big"
	"os"
	"strings"

	"github.com/itchyny/gojq/cli"

	"verifharness/common"
)

// yamlCarriable restricts the YAML clause to the values on which the write/read pair of go-yaml
// (as the command uses it) is symmetric on the unchanged tree. Two asymmetries were found and
// reported instead of being flagged (see the notes of the result):
//   - an integer carried as *big.Int is written as a quoted YAML string and reads back as a string;
//   - a multi-line string that starts with white space is written as a block literal whose
//     indentation indicator is the --indent setting, not the actual indentation (or, for a leading
//     tab, without indicator), which the reader rejects.
func yamlCarriable(v any) bool {
	switch v := v.(type) {
	case *big.Int:
		return false
	case string:
		return yamlString(v)
	case []any:
		for _, x := range v {
			if !yamlCarriable(x) {
				return false
			}
		}
	case map[string]any:
		for k, x := range v {
			if !yamlString(k) || !yamlCarriable(x) {
				return false
			}
		}
	}
	return true
}

func yamlString(s string) bool {
	if strings.Contains(s, "\n") && (s[0] == ' ' || s[0] == '\t' || s[0] == '\n') {
		return false
	}
	return true
}

// yamlSame compares the value read back with the value written. Numbers: ints exactly (int /
// *big.Int / uint64 carriers), floats by value (NaN = NaN).
func yamlSame(got, v any) string {
	if n, ok := got.(json.Number); ok {
		got = common.NormalizeNumber(n)
	}
	switch v := v.(type) {
	case nil:
		if got != nil {
			return fmt.Sprintf("null read back as %T %v", got, got)
		}
	case bool:
		if g, ok := got.(bool); !ok || g != v {
			return fmt.Sprintf("%v read back as %T %v", v, got, got)
		}
	case string:
		if g, ok := got.(string); !ok || g != v {
			return fmt.Sprintf("string %q read back as %T %q", v, got, got)
		}
	case int, *big.Int:
		var want *big.Int
		if i, ok := v.(int); ok {
			want = big.NewInt(int64(i))
		} else {
			want = v.(*big.Int)
		}
		var g *big.Int
		switch x := got.(type) {
		case int:
			g = big.NewInt(int64(x))
		case int64:
			g = big.NewInt(x)
		case uint64:
			g = new(big.Int).SetUint64(x)
		case *big.Int:
			g = x
		case float64:
			// integers beyond 64 bits have no exact YAML carrier in go-yaml: they come back as float64
			f, _ := new(big.Float).SetInt(want).Float64()
			if x == f && !want.IsInt64() && !want.IsUint64() {
				return ""
			}
			return fmt.Sprintf("integer %s read back as float %v", want, x)
		default:
			return fmt.Sprintf("integer %s read back as %T %v", want, got, got)
		}
		if g.Cmp(want) != 0 {
			return fmt.Sprintf("integer %s read back as %s", want, g)
		}
	case float64:
		switch x := got.(type) {
		case float64:
			if math.IsNaN(v) && math.IsNaN(x) || x == v {
				return ""
			}
			return fmt.Sprintf("float %v read back as %v", v, x)
		case int:
			if float64(x) == v {
				return ""
			}
			return fmt.Sprintf("float %v read back as int %d", v, x)
		case int64:
			if float64(x) == v {
				return ""
			}
		case uint64:
			if float64(x) == v {
				return ""
			}
		case *big.Int:
			f, _ := new(big.Float).SetInt(x).Float64()
			if f == v {
				return ""
			}
		}
		return fmt.Sprintf("float %v read back as %T %v", v, got, got)
	case []any:
		g, ok := got.([]any)
		if !ok || len(g) != len(v) {
			return fmt.Sprintf("array of %d read back as %T %v", len(v), got, got)
		}
		for i := range v {
			if w := yamlSame(g[i], v[i]); w != "" {
				return w
			}
		}
	case map[string]any:
		g, ok := got.(map[string]any)
		if !ok || len(g) != len(v) {
			return fmt.Sprintf("object of %d keys read back as %T %v", len(v), got, got)
		}
		for k, x := range v {
			y, ok := g[k]
			if !ok {
				return fmt.Sprintf("key %q lost", k)
			}
			if w := yamlSame(y, x); w != "" {
				return w
			}
		}
	default:
		return fmt.Sprintf("unexpected %T", v)
	}
	return ""
}

func yamlRoundTrip(v any, indent *int) (back []any, text []byte, err error) {
	defer func() {
		if r := recover(); r != nil {
			err = fmt.Errorf("PANIC %v", r)
		}
	}()
	text, err = cli.VerifC12YAMLWrite(v, indent)
	if err != nil {
		return nil, text, fmt.Errorf("write: %w", err)
	}
	back, err = cli.VerifC12YAMLRead(text)
	if err != nil {
		return back, text, fmt.Errorf("read: %w", err)
	}
	return back, text, nil
}

func yamlOracle(ctx *common.Ctx, or *common.Oracle, items []item) {
	explore := os.Getenv("C12_YAML_EXPLORE") != ""
	seen := map[string]bool{}
	outside := 0
	classes := map[string]int{}
	for idx, it := range items {
		v := it.v
		if !ctx.Thorough && it.class == "alphabet-string-3..6" && idx%4 != 0 {
			continue
		}
		if it.class == "flush" || it.class == "long-string" {
			continue
		}
		carriable := yamlCarriable(v)
		if !carriable && !explore {
			outside++
			continue
		}
		var ind *int
		if idx%3 == 1 {
			n := idx%8 + 1
			ind = &n
		}
		back, text, err := yamlRoundTrip(v, ind)
		var why string
		switch {
		case err != nil:
			why = err.Error()
		case len(back) != 1:
			why = fmt.Sprintf("%d documents read back", len(back))
		default:
			why = yamlSame(back[0], v)
		}
		if explore {
			if why != "" {
				k := fmt.Sprintf("carriable=%v %s", carriable, strings.SplitN(why, " ", 4)[0])
				classes[k]++
				if classes[k] <= 6 {
					fmt.Fprintf(os.Stderr, "YAML %s: %q | value %s | text %q\n", k, clip(why), clip(common.Canon(v)), clip(string(text)))
				}
			}
			continue
		}
		or.Cases++
		or.Distribution[it.class]++
		seen[common.Canon(v)] = true
		if why != "" {
			key := "yaml:" + common.Canon(v)
			if len(key) > 200 {
				key = key[:200]
			}
			ctx.Violate(key, "--yaml-output then --yaml-input: "+why,
				map[string]any{"value_wire": common.Canon(v), "yaml_text": clip(string(text)), "what": why,
					"cmd": "gojq --yaml-output . <<< JSON | gojq --yaml-input ."})
		}
	}
	or.Distinct = len(seen)
	or.Samples = []string{"strings that look like numbers, booleans, null, dates (\"1\", \"true\", \"null\", \"1.5\", \"-1\")", "nested containers with empty arrays/objects", "floats incl. +-Inf and NaN, integers of every size"}
	ctx.Res.Notes = append(ctx.Res.Notes, fmt.Sprintf("yaml-roundtrip: %d generated values lie outside the sub-domain on which go-yaml's writer and reader are symmetric (a *big.Int leaf is written as a quoted string; a multi-line string starting with white space is written as a block literal the reader rejects) and were not judged", outside))
}

package main

import (
	"encoding/json"
	"fmt"
	"math"
	"math/big"
	"os"
	"strings"

	"github.com/itchyny/gojq/cli"

	"verifharness/common"
)

// blockLiteralTrigger classifies the one YAML asymmetry that is left unrepaired (it lives in the
// third-party encoder go-yaml): a string or key that contains a newline and starts with white
// space (space, tab or newline) is written as a block literal whose indentation indicator is the
// --indent setting rather than the actual indentation (or, for a leading tab, without any
// indicator), and go-yaml's own reader rejects that text. A failing round trip of a value for
// which this returns true is reported under the single key yaml:block-literal-leading-space
// (listed in known-findings.txt); every other mismatch keeps its own per-case key.
func blockLiteralTrigger(v any) bool {
	switch v := v.(type) {
	case string:
		return blockLiteralString(v)
	case []any:
		for _, x := range v {
			if blockLiteralTrigger(x) {
				return true
			}
		}
	case map[string]any:
		for k, x := range v {
			if blockLiteralString(k) || blockLiteralTrigger(x) {
				return true
			}
		}
	}
	return false
}

func blockLiteralString(s string) bool {
	return strings.Contains(s, "\n") && (s[0] == ' ' || s[0] == '\t' || s[0] == '\n')
}

// yamlSame compares the value read back with the value written. Numbers: ints exactly (int /
// *big.Int / uint64 carriers), floats by value (NaN = NaN).
func yamlSame(got, v any) string {
	if n, ok := got.(json.Number); ok {
		got = common.NormalizeNumber(n)
	}
	switch v := v.(type) {
	case nil:
		if got != nil {
			return fmt.Sprintf("null read back as %T %v", got, got)
		}
	case bool:
		if g, ok := got.(bool); !ok || g != v {
			return fmt.Sprintf("%v read back as %T %v", v, got, got)
		}
	case string:
		if g, ok := got.(string); !ok || g != v {
			return fmt.Sprintf("string %q read back as %T %q", v, got, got)
		}
	case int, *big.Int:
		var want *big.Int
		if i, ok := v.(int); ok {
			want = big.NewInt(int64(i))
		} else {
			want = v.(*big.Int)
		}
		var g *big.Int
		switch x := got.(type) {
		case int:
			g = big.NewInt(int64(x))
		case int64:
			g = big.NewInt(x)
		case uint64:
			g = new(big.Int).SetUint64(x)
		case *big.Int:
			g = x
		default:
			return fmt.Sprintf("integer %s read back as %T %v", want, got, got)
		}
		if g.Cmp(want) != 0 {
			return fmt.Sprintf("integer %s read back as %s", want, g)
		}
	case float64:
		switch x := got.(type) {
		case float64:
			if math.IsNaN(v) && math.IsNaN(x) || x == v {
				return ""
			}
			return fmt.Sprintf("float %v read back as %v", v, x)
		case int:
			if float64(x) == v {
				return ""
			}
			return fmt.Sprintf("float %v read back as int %d", v, x)
		case int64:
			if float64(x) == v {
				return ""
			}
		case uint64:
			if float64(x) == v {
				return ""
			}
		case *big.Int:
			f, _ := new(big.Float).SetInt(x).Float64()
			if f == v {
				return ""
			}
		}
		return fmt.Sprintf("float %v read back as %T %v", v, got, got)
	case []any:
		g, ok := got.([]any)
		if !ok || len(g) != len(v) {
			return fmt.Sprintf("array of %d read back as %T %v", len(v), got, got)
		}
		for i := range v {
			if w := yamlSame(g[i], v[i]); w != "" {
				return w
			}
		}
	case map[string]any:
		g, ok := got.(map[string]any)
		if !ok || len(g) != len(v) {
			return fmt.Sprintf("object of %d keys read back as %T %v", len(v), got, got)
		}
		for k, x := range v {
			y, ok := g[k]
			if !ok {
				return fmt.Sprintf("key %q lost", k)
			}
			if w := yamlSame(y, x); w != "" {
				return w
			}
		}
	default:
		return fmt.Sprintf("unexpected %T", v)
	}
	return ""
}

func yamlRoundTrip(v any, indent *int) (back []any, text []byte, err error) {
	defer func() {
		if r := recover(); r != nil {
			err = fmt.Errorf("PANIC %v", r)
		}
	}()
	text, err = cli.VerifC12YAMLWrite(v, indent)
	if err != nil {
		return nil, text, fmt.Errorf("write: %w", err)
	}
	back, err = cli.VerifC12YAMLRead(text)
	if err != nil {
		return back, text, fmt.Errorf("read: %w", err)
	}
	return back, text, nil
}

// yamlItems adds values aimed at the YAML clause: big integers at the top level and nested, and
// the strings of the block-literal class in every position.
func yamlItems(r *common.Rand) []item {
	var out []item
	big1, _ := new(big.Int).SetString("9223372036854775808", 10)
	big2, _ := new(big.Int).SetString("-340282366920938463463374607431768211457", 10)
	big3, _ := new(big.Int).SetString("18446744073709551616", 10)
	for _, z := range []*big.Int{big1, big2, big3} {
		out = append(out, item{z, "yaml-bigint"}, item{[]any{z}, "yaml-bigint"}, item{map[string]any{"a": z}, "yaml-bigint"},
			item{[]any{1, []any{map[string]any{"k": []any{z, "x"}}}}, "yaml-bigint"})
	}
	for _, s := range []string{"\nxA", " a\nb", "\tq\n", "\n", "\n\n", "  two\nlines\n", "\t\\\n", "\n x", " \n", "\n\u6f22A"} {
		out = append(out, item{s, "yaml-block-literal"}, item{[]any{s}, "yaml-block-literal"}, item{map[string]any{"k": s}, "yaml-block-literal"},
			item{map[string]any{s: 1}, "yaml-block-literal"}, item{[]any{[]any{s, 1}, map[string]any{"a": []any{s}}}, "yaml-block-literal"})
	}
	// multi-line strings that do NOT start with white space must round-trip
	for _, s := range []string{"a\nb", "a\n b", "a\n\tb\n", "x\n\ny", "a \n", "a\tb\nc"} {
		out = append(out, item{s, "yaml-multiline"}, item{[]any{s}, "yaml-multiline"}, item{map[string]any{s: s}, "yaml-multiline"})
	}
	_ = r
	return out
}

func yamlOracle(ctx *common.Ctx, or *common.Oracle, items []item) {
	explore := os.Getenv("C12_YAML_EXPLORE") != ""
	seen := map[string]bool{}
	inClass, inClassFailed := 0, 0
	classes := map[string]int{}
	items = append(append([]item(nil), items...), yamlItems(ctx.R)...)
	for idx, it := range items {
		v := it.v
		if !ctx.Thorough && it.class == "alphabet-string-3..6" && idx%4 != 0 {
			continue
		}
		if it.class == "flush" || it.class == "long-string" {
			continue
		}
		trigger := blockLiteralTrigger(v)
		indents := []*int{nil}
		if idx%3 == 1 {
			n := idx%8 + 1
			indents = []*int{&n}
		}
		if strings.HasPrefix(it.class, "yaml-") {
			// every --indent setting on the values aimed at this clause
			for n := 1; n <= 9; n++ {
				m := n
				indents = append(indents, &m)
			}
		}
		for _, ind := range indents {
			back, text, err := yamlRoundTrip(v, ind)
			var why string
			switch {
			case err != nil:
				why = err.Error()
			case len(back) != 1:
				why = fmt.Sprintf("%d documents read back", len(back))
			default:
				why = yamlSame(back[0], v)
			}
			why = strings.Join(strings.Fields(why), " ")
			indTxt := "default"
			if ind != nil {
				indTxt = fmt.Sprint(*ind)
			}
			if explore {
				if why != "" {
					k := fmt.Sprintf("trigger=%v %s", trigger, strings.SplitN(why, " ", 4)[0])
					classes[k]++
					if classes[k] <= 6 {
						fmt.Fprintf(os.Stderr, "YAML %s indent=%s: %q | value %s | text %q\n", k, indTxt, clip(why), clip(common.Canon(v)), clip(string(text)))
					}
				}
				continue
			}
			or.Cases++
			or.Distribution[it.class]++
			seen[common.Canon(v)] = true
			if trigger {
				inClass++
			}
			if why == "" {
				continue
			}
			replay := map[string]any{"value_wire": clip(common.Canon(v)), "yaml_text": clip(string(text)), "what": clip(why), "yaml_indent": indTxt,
				"cmd": "gojq -n --yaml-output [--indent n] '<value>' > y.yaml; gojq --yaml-input . y.yaml"}
			if trigger {
				inClassFailed++
				ctx.Violate("yaml:block-literal-leading-space",
					"--yaml-output writes a multi-line string that starts with white space as a block literal that --yaml-input rejects (go-yaml encoder): "+clip(why), replay)
				continue
			}
			key := "yaml:" + common.Canon(v)
			if len(key) > 200 {
				key = key[:200]
			}
			ctx.Violate(key, "--yaml-output then --yaml-input: "+why, replay)
		}
	}
	or.Distinct = len(seen)
	or.Samples = []string{"9223372036854775808 and -340282366920938463463374607431768211457 as *big.Int, top-level and nested, must read back as the same integers",
		"strings that look like numbers, booleans, null (\"1\", \"true\", \"null\", \"1.5\"), invalid UTF-8, control characters", "floats incl. +-Inf and NaN; multi-line strings"}
	ctx.Res.Notes = append(ctx.Res.Notes, fmt.Sprintf("yaml-roundtrip: every generated value is judged (no exclusion); %d cases contain a string of the block-literal class (newline + leading white space), %d of them failed and are reported under the one key yaml:block-literal-leading-space", inClass, inClassFailed))
}

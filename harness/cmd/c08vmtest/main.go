// c08vmtest — development tool for the C08 bytecode checker (Model/SafeVM.lean): dumps the
// instruction lists of real programs (corpus + generated, three optimisation settings, optionally
// with variables) in the syntax of the C04 `safe` stream, one program per line, with a parallel
// label file. Not part of any check.
package main

import (
	"bufio"
	"fmt"
	"os"
	"strings"

	"github.com/itchyny/gojq"

	"verifharness/common"
	"verifharness/jqgen"
)

func encode(ins []gojq.VerifInstr) string {
	var sb strings.Builder
	for i, in := range ins {
		if i > 0 {
			sb.WriteByte(' ')
		}
		tgt, arg := "_", "_"
		switch in.Kind {
		case "int":
			tgt = fmt.Sprint(in.Int)
		case "ints":
			parts := make([]string, len(in.Ints))
			for j, x := range in.Ints {
				parts[j] = fmt.Sprint(x)
			}
			arg = strings.Join(parts, ",")
		case "native":
			arg = fmt.Sprintf("@%s/%d", in.Name, in.Argc)
		case "value":
			arg = "v" + common.Hex(common.Canon(in.Value))
		}
		sb.WriteString(in.Op + "|" + tgt + "|" + arg)
	}
	return sb.String()
}

func compileMask(q *gojq.Query, mask uint) (code *gojq.Code, err error) {
	old := gojq.VerifOptMask
	gojq.VerifOptMask = mask
	defer func() {
		gojq.VerifOptMask = old
		if r := recover(); r != nil {
			err = fmt.Errorf("compile panic: %v", r)
		}
	}()
	return gojq.Compile(q)
}

func main() {
	out := bufio.NewWriter(os.Stdout)
	defer out.Flush()
	labels, _ := os.Create(os.Args[1])
	defer labels.Close()
	lw := bufio.NewWriter(labels)
	defer lw.Flush()
	n := 2000
	if len(os.Args) > 2 {
		fmt.Sscan(os.Args[2], &n)
	}
	seen := map[string]bool{}
	var progs []string
	// `c08vmtest labels.txt -q file`: dump only the queries listed in file (one per line), fully optimised
	if len(os.Args) > 3 && os.Args[2] == "-q" {
		data, _ := os.ReadFile(os.Args[3])
		for _, src := range strings.Split(strings.TrimSpace(string(data)), "\n") {
			q, err := gojq.Parse(src)
			if err != nil {
				continue
			}
			c, err := gojq.Compile(q)
			if err != nil {
				continue
			}
			fmt.Fprintln(out, encode(gojq.VerifCodes(c)))
			fmt.Fprintln(lw, src)
		}
		return
	}
	add := func(s string) {
		if !seen[s] {
			seen[s] = true
			progs = append(progs, s)
		}
	}
	for _, c := range common.Corpus() {
		add(c.Query)
	}
	r := common.NewRand(1)
	for i := 0; i < n; i++ {
		g := jqgen.NewTyped(r, r.Range(0, 4))
		a, _ := g.Gen(jqgen.TypeOf(map[string]any{"a": []any{1, 2}}))
		add(a)
		add(jqgen.New(r, r.Range(0, 3)).Query())
	}
	nb := uint(len(gojq.VerifOptNames))
	all := uint(1)<<nb - 1
	for _, src := range progs {
		q, err := gojq.Parse(src)
		if err != nil {
			continue
		}
		for _, m := range []uint{0, all} {
			c, err := compileMask(q, m)
			if err != nil {
				continue
			}
			fmt.Fprintln(out, encode(gojq.VerifCodes(c)))
			fmt.Fprintf(lw, "mask=%d %s\n", m, strings.ReplaceAll(src, "\n", " "))
		}
	}
}

// C20 — iteration and tail recursion run in bounded interpreter space.
//
// correspondence stream `footprint`: the REAL VM's state at the top of every instruction
//
//	(gojq.VerifStep) for (a) every subject program of Generated/Programs.lean from its first
//	instruction, (b) windows of the same runs after n and 8n thousand instructions, (c) an
//	assorted corpus and generated tail-recursive programs with the bytecode sent inline;
//	the Lean driver checks that every real transition is a transition of ShVM.step
//	(Model/ShVM.lean) under the data-forgetting map.
//
// correspondence stream `closure`: does the model's worklist close on a program's bytecode
//
//	(bounded) or not (grows), against the measured behaviour of the real VM, on programs
//	where both must coincide by construction (tail-recursive family / all-leaves-non-tail mutants).
//
// oracle `footprint-growth` (model-free, real code only): every iteration form and
//
//	generated tail-recursive definitions; the maximal VM footprint over turns (n/2, n] and
//	(4n, 8n] must not differ by more than a small constant. Controls must grow.
package main

import (
	"encoding/json"
	"fmt"
	"os"
	"runtime"
	"sort"
	"strings"

	"github.com/itchyny/gojq"

	"verifharness/cmd/c20/progs"
	"verifharness/common"
)

// heapSlack: live-heap growth between turn n and turn 8n that is still "does not grow with n"
// (allocator and runtime noise); one retained word per turn exceeds it at n = 2000.
const heapSlack = 64 << 10

const slack = 4 // "a small constant": a leak of one block per turn exceeds it by orders of magnitude

type counter struct{ i int }

func (c *counter) Next() (any, bool) { c.i++; return c.i, true }

func fp(s gojq.VerifState) int {
	return s.Forks + s.StackLen + s.ScopeLen + s.PathLen + s.Values
}

func b2i(b bool) int {
	if b {
		return 1
	}
	return 0
}

func stateStr(sb *strings.Builder, s gojq.VerifState) {
	fmt.Fprintf(sb, "%d,%d,%d,%d,%d,%d,%d,%d,%d,%d,%d,%d,%d,%d,%d,%d", s.PC, b2i(s.Backtrack), b2i(s.Err), s.Forks,
		s.StackIndex, s.StackLimit, s.StackLen, s.ScopeIndex, s.ScopeLimit, s.ScopeLen,
		s.PathIndex, s.PathLimit, s.PathLen, s.Offset, s.Values, s.Expdepth)
}

func traceStr(ss []gojq.VerifState) string {
	var sb strings.Builder
	for i, s := range ss {
		if i > 0 {
			sb.WriteByte(';')
		}
		stateStr(&sb, s)
	}
	return sb.String()
}

func okAnswer(ss []gojq.VerifState) string {
	m := 0
	for _, s := range ss {
		m = max(m, fp(s))
	}
	return fmt.Sprintf("ok %d %d", len(ss), m)
}

// run drives code on input v for at most budget instructions, calling hook at the top of
// every instruction. It returns the number of outputs and how the run ended.
func run(code *gojq.Code, v any, budget int, hook func(step int, s gojq.VerifState)) (outs int, end string) {
	step := 0
	gojq.VerifStep = func(s gojq.VerifState) {
		hook(step, s)
		step++
	}
	defer func() {
		gojq.VerifStep = nil
		if r := recover(); r != nil {
			end = fmt.Sprint("panic: ", r)
		}
	}()
	it := code.RunWithContext(common.NewCountCtx(budget), v)
	for {
		x, ok := it.Next()
		if !ok {
			return outs, "end"
		}
		if e, ok := x.(error); ok {
			if e == common.ErrBudget {
				return outs, "budget"
			}
			return outs, "error"
		}
		outs++
	}
}

func inlineCode(c *gojq.Code) (string, error) {
	ins, err := progs.LeanInstrs(c)
	if err != nil {
		return "", err
	}
	for i, s := range ins {
		s = strings.TrimPrefix(s, ".")
		s = strings.ReplaceAll(s, " .", " ")
		ins[i] = strings.ReplaceAll(s, " ", ":")
	}
	return strings.Join(ins, ";"), nil
}

// ---------- model-free growth measurement -------------------------------------------------

type growth struct {
	Query        string
	Turns        int // turns reached (visits of the hottest pc of the loop)
	Steps        int
	Outs         int
	MaxA, MaxB   int            // max footprint over turns (n/2, n] and (4n, 8n]
	CompA, CompB [6]int         // per component maxima: forks, stack, scopes, paths, values, offset
	End          string         // how the run ended
	Short        bool           // fewer than 8n turns: not judged
	Grows        bool           // MaxB > MaxA + slack
	HeapA, HeapB uint64         // live heap (after two forced collections) when turn n and turn 8n are reached
	HeapGrows    bool           // HeapB > HeapA + heapSlack
	Ops          map[string]int // opcode histogram of the program text (static)
}

func comps(s gojq.VerifState) [6]int {
	return [6]int{s.Forks, s.StackLen, s.ScopeLen, s.PathLen, s.Values, s.Offset}
}

// measure runs query for 8n turns of its hottest loop pc and compares footprints.
func measure(query string, needsInputs bool, n int) (g growth, err error) {
	g.Query = query
	code, err := progs.CompileQuery(query, needsInputs, &counter{})
	if err != nil {
		return g, err
	}
	// warm-up: find the hottest pc (one visit = one turn of the innermost hot loop)
	visits := map[int]int{}
	run(code, nil, 30000, func(step int, s gojq.VerifState) {
		if step >= 3000 {
			visits[s.PC]++
		}
	})
	hot, hv := -1, 0
	for pc, k := range visits {
		if k > hv || k == hv && pc < hot {
			hot, hv = pc, k
		}
	}
	if hot < 0 {
		g.Short, g.End = true, "ended in warm-up"
		return g, nil
	}
	code, err = progs.CompileQuery(query, needsInputs, &counter{})
	if err != nil {
		return g, err
	}
	turns := 0
	budget := 8*n*600 + 100000
	// stop soon after 8n turns: the budget is a poll count, so lower it from inside the hook
	ctxBudget := budget
	var cc *common.CountCtx
	step := 0
	gojq.VerifStep = func(s gojq.VerifState) {
		step++
		if s.PC == hot {
			turns++
			if turns > 8*n && cc != nil {
				cc.Limit = 0
			}
			if turns == n || turns == 8*n {
				// retained heap of the live iterator: everything unreachable is collected first
				runtime.GC()
				runtime.GC()
				var ms runtime.MemStats
				runtime.ReadMemStats(&ms)
				if turns == n {
					g.HeapA = ms.HeapAlloc
				} else {
					g.HeapB = ms.HeapAlloc
				}
			}
		}
		f := fp(s)
		c := comps(s)
		switch {
		case turns > n/2 && turns <= n:
			g.MaxA = max(g.MaxA, f)
			for i := range c {
				g.CompA[i] = max(g.CompA[i], c[i])
			}
		case turns > 4*n && turns <= 8*n:
			g.MaxB = max(g.MaxB, f)
			for i := range c {
				g.CompB[i] = max(g.CompB[i], c[i])
			}
		}
	}
	func() {
		defer func() {
			gojq.VerifStep = nil
			if r := recover(); r != nil {
				g.End = fmt.Sprint("panic: ", r)
			}
		}()
		cc = common.NewCountCtx(ctxBudget)
		it := code.RunWithContext(cc, nil)
		for {
			x, ok := it.Next()
			if !ok {
				g.End = "end"
				return
			}
			if e, ok := x.(error); ok {
				if e == common.ErrBudget {
					g.End = "budget"
				} else {
					g.End = "error: " + e.Error()
				}
				return
			}
			g.Outs++
		}
	}()
	g.Turns, g.Steps = turns, step
	g.Short = turns < 8*n
	g.Grows = !g.Short && g.MaxB > g.MaxA+slack
	g.HeapGrows = !g.Short && g.HeapA > 0 && g.HeapB > g.HeapA+heapSlack
	return g, nil
}

func (g growth) replay(n int) map[string]any {
	names := []string{"forks", "stack", "scopes", "paths", "values", "offset"}
	a, b := map[string]int{}, map[string]int{}
	for i, nm := range names {
		a[nm], b[nm] = g.CompA[i], g.CompB[i]
	}
	return map[string]any{"query": g.Query, "input": "null", "n": n,
		"observed":             fmt.Sprintf("max VM footprint %d over turns (%d, %d] but %d over turns (%d, %d]", g.MaxA, n/2, n, g.MaxB, 4*n, 8*n),
		"expected":             fmt.Sprintf("no growth beyond %d", slack),
		"components_n (max)":   a,
		"components_8n (max)":  b,
		"footprint_definition": "len(env.forks)+len(stack.data)+len(scopes.data)+len(paths.data)+len(env.values), read through gojq.VerifStep at every instruction",
		"cmd":                  fmt.Sprintf("gojq -n '%s' > /dev/null   # resident memory keeps growing; or: bin/check C20 --replay <this file>", g.Query)}
}

// ---------- generated tail-recursive definitions --------------------------------------------

type tgen struct {
	r      *common.Rand
	nvar   int
	feats  map[string]bool
	mutate bool // wrap every recursive call of the OUTER function so that it is not a tail call
	// how the outer function applies the inner one: "g", or "last(… | g)" when g may leave a
	// fork behind (comma, `//`) — a generator in front of the call is not in the family
	wrap string
}

const bigN = "1000000000"

func (g *tgen) fresh() string { g.nvar++; return fmt.Sprintf("$v%d", g.nvar) }

func (g *tgen) cond(vars []string) string {
	k := g.r.Range(2, 5)
	j := g.r.Intn(k)
	switch g.r.Intn(4) {
	case 0:
		return fmt.Sprintf(". %% %d == %d", k, j)
	case 1:
		return fmt.Sprintf(". %% %d != %d", k, j)
	case 2:
		if len(vars) > 0 {
			return fmt.Sprintf("%s %% %d == %d", common.Pick(g.r, vars), k, j)
		}
		return fmt.Sprintf(". %% %d < %d", k+1, j+1)
	default:
		return fmt.Sprintf("(. %% %d == %d) and (. >= 0)", k, j)
	}
}

// leaf: the recursive call, in tail position (or wrapped, for mutants of the outer function)
func (g *tgen) leaf(fname string, vars []string, inner string, outer bool) string {
	step := ". + 1"
	if len(vars) > 0 && g.r.Chance(1, 3) {
		v := common.Pick(g.r, vars)
		step = fmt.Sprintf(". + 1 + %s - %s", v, v)
	}
	if inner != "" && g.r.Chance(2, 3) {
		g.feats["nested-call"] = true
		if g.wrap != "" {
			g.feats["nested-"+g.wrap] = true
			step = g.wrap + "(" + step + " | " + inner + ")"
		} else {
			step += " | " + inner
		}
	}
	call := step + " | " + fname
	if g.mutate && outer {
		return "(" + call + " | [.] | .[0])"
	}
	return call
}

// tail generates a query all of whose terminal positions are recursive calls of fname.
// `.` is the numeric loop counter at every tail position; bound variables hold numbers.
func (g *tgen) tail(depth int, fname string, vars []string, inner string, outer bool) string {
	if depth <= 0 {
		return g.leaf(fname, vars, inner, outer)
	}
	switch g.r.Intn(9) {
	case 0, 1:
		g.feats["if"] = true
		return fmt.Sprintf("if %s then %s else %s end", g.cond(vars), g.tail(depth-1, fname, vars, inner, outer), g.tail(depth-1, fname, vars, inner, outer))
	case 2:
		g.feats["elif"] = true
		return fmt.Sprintf("if %s then %s elif %s then %s else %s end", g.cond(vars), g.tail(depth-1, fname, vars, inner, outer),
			g.cond(vars), g.tail(depth-1, fname, vars, inner, outer), g.tail(depth-1, fname, vars, inner, outer))
	case 3:
		g.feats["alt"] = true
		left := common.Pick(g.r, []string{"empty", "null", "false", "(select(. < 0))", "(. < 0 | select(.))", "(try error catch empty)", "(null, false)", "(.[\"a\"]?)"})
		return fmt.Sprintf("%s // (%s)", left, g.tail(depth-1, fname, vars, inner, outer))
	case 4:
		g.feats["comma"] = true
		left := common.Pick(g.r, []string{".", "[.]", "(., .)", "empty", "{a: .}", "(select(. % 2 == 0))"})
		if len(vars) > 0 && g.r.Bool() {
			left = common.Pick(g.r, vars)
		}
		return fmt.Sprintf("%s, (%s)", left, g.tail(depth-1, fname, vars, inner, outer))
	case 5, 6:
		g.feats["as"] = true
		v := g.fresh()
		src := common.Pick(g.r, []string{".", ". % 5", "(. + 1)", "([.] | length)"})
		return fmt.Sprintf("%s as %s | %s", src, v, g.tail(depth-1, fname, append(append([]string{}, vars...), v), inner, outer))
	case 7:
		g.feats["destructure"] = true
		v, w := g.fresh(), g.fresh()
		if g.r.Bool() {
			return fmt.Sprintf("[., 1] as [%s, %s] | %s", v, w, g.tail(depth-1, fname, append(append([]string{}, vars...), v, w), inner, outer))
		}
		return fmt.Sprintf("{a: ., b: 2} as {a: %s, b: %s} | %s", v, w, g.tail(depth-1, fname, append(append([]string{}, vars...), v, w), inner, outer))
	default:
		return g.leaf(fname, vars, inner, outer)
	}
}

// genTailRec returns a program `def f: …; 0 | f` from the property's family (if mutate is
// false): the recursive call of every function is in tail position under if/elif/else, as
// right operand of `//`, in the right branch of a comma, under `as` bindings; optionally
// with a nested inner tail-recursive function g used as a step of f.
func genTailRec(r *common.Rand, mutate bool) (string, map[string]bool) {
	g := &tgen{r: r, feats: map[string]bool{}, mutate: mutate}
	inner, innerDef := "", ""
	if r.Chance(1, 2) {
		g.feats["nested-def"] = true
		k := r.Range(3, 7)
		// g advances the counter to the next multiple of k by a tail-recursive loop of its own
		body := g.tail(r.Range(0, 2), "g", nil, "", false)
		innerDef = fmt.Sprintf("def g: if . %% %d == 0 then . else %s end; ", k, body)
		inner = "g"
		if g.feats["alt"] || g.feats["comma"] {
			g.wrap = "last" // not first(): `., break $out` leaves two forks behind, see the notes below
		}
	}
	body := g.tail(r.Range(1, 3), "f", nil, inner, true)
	// the calling context: the loop must stay bounded whether or not the caller's frame has a
	// backtrack point pending below the loop's frame (array collection, comma, reduce source,
	// try, alternative, iteration with elements left, label, object value, binding)
	call := "0 | f"
	if r.Chance(1, 3) {
		// the loop is fed by a generator that is still alive (a native iterator, a generator
		// defined as a function, limit/first/recurse): its fork lies below the loop's frame
		feed := common.Pick(r, []string{"range(2)", "range(0; 2)", "limit(2; 0, 0)", "first(0, 1)", "def h: 0, 0; h", "(0 | recurse(if . < 1 then . + 1 else empty end))", "[0, 0][]", "(0, 0)", "limit(1; repeat(0))", "{a: 0, b: 0}[]", "(0 | ., .)"})
		g.feats["feed:"+feed] = true
		call = feed + " | f"
	}
	if r.Chance(2, 3) {
		cx := common.Pick(r, []string{"[%s]", "(%s), 1", "reduce (%s) as $v (0; $v)", "try (%s) catch .", "(%s) // 1", "[1, 2][] | %s", "label $l | %s", "{a: (%s)}", "5 as $z | %s", "[(%s), 2]", "foreach (%s) as $v (0; $v)", "(%s)?", "[[1][] | %s]", "1 | (%s, 2)"})
		g.feats["context:"+cx] = true
		call = fmt.Sprintf(cx, call)
	}
	q := fmt.Sprintf("def f: %sif . >= %s then . else %s end; %s", innerDef, bigN, body, call)
	return q, g.feats
}

// ---------- assorted corpus for the footprint stream (all 30 opcodes) -----------------------

var corpus = []string{
	".", ".a", ".a.b", ".[0]", ".[1:]", ".[:-1]", ".a?", ".[]", ".[]?", "..", ".a[]?", "[.[]?]", "{a: 1, b: .}", "{(.a?|tostring): 1}",
	"{a: (1, 2), b: (3, 4)}", "{\"x\\(1 + 2)\": .}", "[.[]? | . + 1]", "[range(5)]", "[limit(3; repeat(1))]", "first(range(10))", "isempty(empty)",
	"try error(\"x\") catch .", "try (1, error(\"x\"), 3) catch .", ".a? // \"d\"", "(1, null, 2) // 3", "empty // 1", "[.[]? | select(. != null)]",
	"reduce .[]? as $x (0; . + 1)", "foreach .[]? as $x (0; . + 1; [$x, .])", "label $out | 1, 2, break $out, 3", "[label $f | range(10) | ., (select(. == 3) | break $f)]",
	"path(..)", "[paths]", "path(.a[]?)", "path(.[1:]?)", "[paths(type == \"number\")]", "path(.a | select(.b?))", "try path(1) catch .", "path(getpath([\"a\",\"b\"]))",
	".a = 1", ".a |= . + 1", "try (.[]? += 1) catch .", "del(.[0]?)", "del(.a?)", "to_entries?", "with_entries(.value |= tostring)?", "map_values(. + 1)?", "walk(if type == \"number\" then . + 1 else . end)",
	". as [$a, $b] | [$b, $a]", ". as {a: $x} | $x", "try (. as [$a] ?// $a | [$a]) catch .", "[.[]? as [$a] ?// $a | $a]", "if . then 1 elif . == null then 2 else 3 end", "(. and true) or false",
	"[.[]? | tostring]", "\"a\\(.)b\"", "@base64 \"x\\(1)\"", "@json", "tojson | fromjson", "[splits(\"a\")]?", "test(\"a\")?", "[match(\"a\"; \"g\")]?", "ascii_downcase?", "ltrimstr(\"a\")",
	"getpath([\"a\", \"b\"])", "setpath([\"a\"]; 1)?", "delpaths([[\"a\"]])?", "tostream", "[tostream] | fromstream(.[])", "[.[]?] | sort_by(.) | group_by(.)", "[.[]?] | min_by(.), max_by(.)", "unique?", "add", "any, all",
	"input", "[limit(3; inputs)]", "$__loc__", "$ENV | type", "env | type", "builtins | length", "input_line_number?", "-(.[0]?)", "[.[]? | -. ]?", "[combinations]?", "[range(0; 10; 3)]", "[range(3; 0; -1)]",
	"def f(g): [g, g]; f(.[]?)", "def f($a; $b): $a + $b; f(1; 2)", "def f: def g: 3; g * 2; f", "def fac: if . <= 1 then 1 else . * (. - 1 | fac) end; 5 | fac", "[recurse(if . < 3 then . + 1 else empty end)]?",
	"[while(. < 3; . + 1)]?", "[.[]? | until(. > 100; . * 2)]?", "until(true; .)", "last(range(5))", "last(empty)", "nth(2; range(10))", "[limit(0; 1, 2)]", "first(empty)", "[first(range(3; 10)), last(range(3))]",
	"try error catch .", "try error(null) catch .", "error(null)?", ".[] as $x | $x", "[.[]? | (.a?, .b?)]", "[..] | length", "getpath([\"a\"]) |= 3", "input as $x | [$x, input]", "ltrimstr(1)", "halt_error?", "[.[]?] | implode?",
	"try ([1] | .[\"a\"]) catch .", "[.[]? | try error catch .]", "try (try error(\"x\") catch error(\"y\")) catch .", ".. |= .", "[.[]?|numbers]", "to_entries? | from_entries", "limit(2; .[]?)", "[.[]?] | .[2:4] = [9]",
}

var corpusInputs = []string{`null`, `5`, `"abc"`, `[1,2,3]`, `[[1,2],[3,4]]`, `{"a":{"b":1},"c":[1,null,"x"]}`, `[{"a":1,"b":2},{"a":3}]`, `[]`, `{}`, `true`}

func main() {
	ctx := common.ParseFlags("C20")
	if ctx.Replay != "" {
		replayOne(ctx)
		return
	}
	n := ctx.N(2000, 20000)
	K := ctx.N(3000, 40000)     // states from the first instruction
	W := ctx.N(600, 4000)       // window length
	S1 := ctx.N(50000, 500000)  // first window offset (instructions); second at 8*S1
	Kc := ctx.N(1500, 6000)     // states per corpus / generated program
	nGen := ctx.N(60, 600)      // generated tail-recursive definitions
	nMut := ctx.N(12, 80)       // generated all-leaves-non-tail mutants
	nGenTrace := ctx.N(40, 300) // generated programs also traced

	st := ctx.NewStream("footprint", "Gojq.ShVM.step / Shape.obs / init (Model/ShVM.lean): every transition of the real VM between two consecutive instructions is a transition of the model",
		"one case = one recorded trace (subject programs from the first instruction and windows after n and 8n thousand instructions; corpus queries on 10 inputs and generated tail-recursive programs with inline bytecode); distinct = distinct (length, max footprint) answers")
	var lines, impl []string
	ops := map[string]int{}
	countOps := func(c *gojq.Code) {
		for _, in := range gojq.VerifCodes(c) {
			ops[in.Op]++
		}
	}
	// (a)+(b) subject programs
	for _, p := range progs.Subjects {
		code, err := progs.Compile(p, &counter{})
		if err != nil {
			ctx.Errorf("compile %s: %v", p.Name, err)
			continue
		}
		countOps(code)
		var first, w1, w2 []gojq.VerifState
		budget := K + 1
		if !p.Control {
			budget = 8*S1 + W + 1
		}
		_, end := run(code, nil, budget, func(step int, s gojq.VerifState) {
			switch {
			case step < K:
				first = append(first, s)
			}
			switch {
			case step >= S1 && step < S1+W:
				w1 = append(w1, s)
			case step >= 8*S1 && step < 8*S1+W:
				w2 = append(w2, s)
			}
		})
		if end != "budget" {
			ctx.Errorf("subject %s (%s) ended early: %s", p.Name, p.Query, end)
		}
		lines = append(lines, "init "+p.Name+" "+traceStr(first))
		impl = append(impl, okAnswer(first))
		st.Distribution["init:"+p.Form]++
		if !p.Control {
			for _, w := range [][]gojq.VerifState{w1, w2} {
				if len(w) > 0 {
					lines = append(lines, "win "+p.Name+" "+traceStr(w))
					impl = append(impl, okAnswer(w))
					st.Distribution["window:"+p.Form]++
				}
			}
		}
	}
	// (c) corpus with inline bytecode
	var inputs []any
	for _, s := range corpusInputs {
		var v any
		if err := json.Unmarshal([]byte(s), &v); err != nil {
			panic(err)
		}
		inputs = append(inputs, normalize(v))
	}
	traceInline := func(query string, needsInputs bool, v any, k int, tag string) {
		code, err := progs.CompileQuery(query, needsInputs, &counter{})
		if err != nil {
			st.Distribution["compile-error"]++
			return
		}
		ic, err := inlineCode(code)
		if err != nil {
			ctx.Errorf("inline %q: %v", query, err)
			return
		}
		countOps(code)
		var tr []gojq.VerifState
		_, end := run(code, v, k, func(step int, s gojq.VerifState) { tr = append(tr, s) })
		if len(tr) == 0 {
			return
		}
		if os.Getenv("C20_DEBUG") != "" {
			fmt.Fprintf(os.Stderr, "initc\t%d\t%s\t%s\n", len(lines), query, common.Canon(v))
		}
		lines = append(lines, "initc "+ic+" "+traceStr(tr))
		impl = append(impl, okAnswer(tr))
		st.Distribution[tag+":"+strings.SplitN(end, ":", 2)[0]]++
	}
	for _, q := range corpus {
		for _, v := range inputs {
			traceInline(q, strings.Contains(q, "input"), common.DeepCopy(v), Kc, "corpus")
		}
	}
	gr := ctx.R.Fork(20)
	for i := 0; i < nGenTrace; i++ {
		q, _ := genTailRec(gr, i%5 == 4)
		traceInline(q, false, nil, Kc, "generated")
	}
	for op, k := range ops {
		st.Distribution["opcode:"+op] = k
	}
	if f := os.Getenv("C20_DUMP"); f != "" { // development aid: the protocol lines of the footprint stream
		os.WriteFile(f, []byte(strings.Join(lines, "\n")+"\n"), 0o644)
	}
	ctx.RunStream(st, lines, impl)

	// ---------- oracle: model-free growth on the real VM -------------------------------------
	orc := ctx.NewOracle("footprint-growth", fmt.Sprintf("real VM only: max of len(forks)+len(stack.data)+len(scopes.data)+len(paths.data)+len(values) at every instruction over turns (n/2, n] versus (4n, 8n] of the hottest loop pc, n = %d; growth > %d is a violation, and so is, for the iteration forms and their variants, a growth of the LIVE HEAP (runtime.GC twice, then HeapAlloc) between turn n and turn 8n beyond 64 KiB; controls must grow; distinct = distinct program texts judged (reached 8n turns)", n, slack))
	cl := ctx.NewStream("closure", "Gojq.ShVM.explore (Model/ShVM.lean): a closed worklist set implies a bounded real footprint; a growing real footprint implies the worklist does not close",
		"one case = one program with the verdict measured on the real VM (subjects, controls, form variants, generated tail-recursive definitions, mutants with every recursive call wrapped); the model answers `bounded` when its worklist closes, `grows` when it does not and the real VM grows, and `?imprecise` (not compared) when it does not close below the cap although this run of the real VM is bounded (data-dependent bound the data-forgetting model cannot see, or cap); distinct = distinct answers")
	var cLines, cImpl []string
	judged := map[string]bool{}
	judge := func(query string, needsInputs, control bool, tag string, feats map[string]bool) {
		g, err := measure(query, needsInputs, n)
		orc.Cases++
		if err != nil {
			ctx.Errorf("measure %q: %v", query, err)
			return
		}
		if g.Short {
			orc.Distribution[tag+":short("+strings.SplitN(g.End, ":", 2)[0]+")"]++
			if os.Getenv("C20_DEBUG") != "" {
				fmt.Fprintf(os.Stderr, "short\t%s\t%s\t%d turns\t%s\n", tag, g.End, g.Turns, query)
			}
			if tag == "subject" || tag == "control" {
				ctx.Errorf("%s %q reached only %d of %d turns (%s)", tag, query, g.Turns, 8*n, g.End)
			}
			return
		}
		judged[query] = true
		orc.Distribution[tag]++
		for f := range feats {
			orc.Distribution["feature:"+f]++
		}
		if len(orc.Samples) < 6 && orc.Cases%7 == 1 {
			orc.Samples = append(orc.Samples, fmt.Sprintf("%s => max footprint %d at n, %d at 8n (%d turns, %d outputs)", query, g.MaxA, g.MaxB, g.Turns, g.Outs))
		}
		switch {
		case control && !g.Grows:
			ctx.Errorf("control %q did not grow (%d -> %d): the oracle cannot tell a leak", query, g.MaxA, g.MaxB)
		case !control && g.Grows:
			ctx.Violate(query, fmt.Sprintf("interpreter state grows with the number of turns: footprint %d after %d turns, %d after %d turns", g.MaxA, n, g.MaxB, 8*n), g.replay(n))
		case !control && g.HeapGrows && (tag == "subject" || tag == "form-variant"):
			// judged on the iteration forms themselves only: a generated program that collects its
			// outputs ([f], reduce … + [x]) grows its own data, which is not interpreter state
			rp := g.replay(n)
			rp["observed"] = fmt.Sprintf("live heap after GC: %d bytes at turn %d, %d bytes at turn %d", g.HeapA, n, g.HeapB, 8*n)
			rp["expected"] = fmt.Sprintf("no growth beyond %d bytes", heapSlack)
			ctx.Violate("heap:"+query, fmt.Sprintf("the live iterator retains memory that grows with the number of turns: %d bytes live after %d turns, %d after %d turns (VM stacks and registers keep their lengths: the growth is inside a value they hold)", g.HeapA, n, g.HeapB, 8*n), rp)
		}
		if os.Getenv("C20_DEBUG") != "" {
			fmt.Fprintf(os.Stderr, "heap\t%s\t%d\t%d\t%d\t%s\n", tag, g.HeapA, g.HeapB, int64(g.HeapB)-int64(g.HeapA), query)
		}
		if code, err := progs.CompileQuery(query, needsInputs, &counter{}); err == nil {
			if ic, err := inlineCode(code); err == nil {
				if os.Getenv("C20_DEBUG") != "" {
					fmt.Fprintf(os.Stderr, "closure\t%s\t%v\t%s\t%s\n", tag, g.Grows, query, ic)
				}
				verdict := "bounded"
				if g.Grows {
					verdict = "grows"
				}
				cLines = append(cLines, verdict+" "+ic)
				cImpl = append(cImpl, verdict)
				cl.Distribution[tag+":"+verdict]++
			}
		}
	}
	for _, p := range progs.Subjects {
		tag := "subject"
		if p.Control {
			tag = "control"
		}
		judge(p.Query, p.Inputs, p.Control, tag, map[string]bool{"form:" + p.Form: true})
	}
	// further instances of the builtin forms (other arguments / compositions)
	for _, q := range []string{
		"range(0; " + bigN + "; 7) | select(. % 2 == 0)", "[.[]?] | range(" + bigN + ")", "range(" + bigN + ") as $i | $i",
		"1 | while(true; . * 1)", "0 | until(. < 0; . + 1)", "0 | repeat(. + 1)", "0 | [., 1] | recurse([.[0] + 1, 1]) | .[0]",
		"limit(" + bigN + "; 0 | recurse(. + 1))", "limit(" + bigN + "; range(" + bigN + ") | select(. % 3 == 0))", "repeat(1) | first(repeat(2))", "repeat(1) | first(range(10; " + bigN + "))",
		"last(0 | recurse(. + 1))", "last(repeat(1))", "reduce (0 | recurse(. + 1)) as $x (0; . + $x)", "reduce repeat(1) as $x (0; $x)", "reduce (range(" + bigN + ") | [.]) as [$a] (0; . + $a)",
		"foreach repeat(1) as $x (0; . + $x)", "foreach range(" + bigN + ") as $x ({n: 0}; .n += 1; .n)", "foreach range(" + bigN + ") as $x (0; . + 1; select(. % 2 == 0))",
		"repeat(1) | isempty(range(" + bigN + "))", "repeat(1) | [limit(3; range(" + bigN + "))] | length", "repeat(1) | nth(5; range(" + bigN + "))",
		"repeat(1) | any(range(" + bigN + "); . > 5)", "repeat(1) | all(range(10); . >= 0)", "repeat(1) | until(. > 100; . + 1)", "repeat(1) | last(range(10))", "repeat(1) | reduce range(10) as $x (0; . + $x)",
		"repeat(1) | [range(5)] | map(. + 1) | add", "repeat(1) | try error(\"x\") catch .", "repeat(1) | (.a? // 2)", "repeat(1) | {a: .} | .a |= . + 1 | .a", "repeat(1) | [1, [2]] | path(..)", "repeat(1) | [paths] | length",
		"repeat(1) | label $out | (1, break $out, 2)", "repeat(1) | [1, 2, 3] | .[] as $x | $x", "repeat(1) | {a: 1} | to_entries | from_entries", "repeat(1) | \"a\" | test(\"a\")", "repeat(1) | [3, 1, 2] | sort_by(.) | first",
		"repeat(1) | def f(g): g | g; f(. + 1)", "repeat(1) | [limit(5; repeat(2))] | length", "repeat(1) | first(0 | recurse(. + 1) | select(. > 7))",
	} {
		judge(q, false, false, "form-variant", nil)
	}
	for _, q := range []string{"inputs | select(. % 2 == 0)", "foreach inputs as $x (0; . + $x)", "last(limit(" + bigN + "; inputs))", "repeat(input)", "first(inputs), (inputs | . + 1)", "reduce inputs as $x (null; $x)"} {
		judge(q, true, false, "form-variant", map[string]bool{"form:inputs": true})
	}
	r := ctx.R.Fork(21)
	for i := 0; i < nGen; i++ {
		q, feats := genTailRec(r, false)
		judge(q, false, false, "generated-tailrec", feats)
	}
	for i := 0; i < nMut; i++ {
		q, feats := genTailRec(r, true)
		judge(q, false, true, "generated-nontail-mutant", feats)
	}
	orc.Distinct = len(judged)
	ctx.RunStream(cl, cLines, cImpl)
	// Observation, not judged: a recursive call that is syntactically last but is fed by an
	// expression that leaves backtrack points behind (a comma, `//` with a truthy left side,
	// first/limit/isempty: `., break $out`) keeps those forks for every turn. The pending
	// alternatives are part of the call's continuation in a backtracking language, so these are
	// outside the property's family; they are measured here so that the evidence says so.
	for _, q := range []string{"def f: first(. + 1) | f; 0 | f", "def f: (. + 1 // 0) | f; 0 | f", "def f: limit(1; . + 1) | f; 0 | f", "def f: (. + 1, empty) | f; 0 | f"} {
		if g, err := measure(q, false, n); err == nil && !g.Short {
			ctx.Res.Notes = append(ctx.Res.Notes, fmt.Sprintf("observation (outside the family: the call is fed by an expression that leaves forks): %s — max footprint %d at n, %d at 8n (forks %d -> %d)", q, g.MaxA, g.MaxB, g.CompA[0], g.CompB[0]))
		}
	}
	ctx.Res.Notes = append(ctx.Res.Notes, fmt.Sprintf("n = %d turns; traces: %d states from the first instruction, windows of %d states at instruction %d and %d", n, K, W, S1, 8*S1))
	ctx.Finish()
}

// normalize turns encoding/json numbers into gojq's carriers (int where integral).
func normalize(v any) any {
	switch v := v.(type) {
	case float64:
		if v == float64(int(v)) {
			return int(v)
		}
		return v
	case []any:
		for i := range v {
			v[i] = normalize(v[i])
		}
		return v
	case map[string]any:
		for k := range v {
			v[k] = normalize(v[k])
		}
		return v
	}
	return v
}

func replayOne(ctx *common.Ctx) {
	b, err := os.ReadFile(ctx.Replay)
	if err != nil {
		ctx.Errorf("replay: %v", err)
		ctx.Finish()
	}
	var f struct {
		Key    string         `json:"key"`
		Replay map[string]any `json:"replay"`
	}
	if err := json.Unmarshal(b, &f); err != nil {
		ctx.Errorf("replay: %v", err)
		ctx.Finish()
	}
	q, _ := f.Replay["query"].(string)
	if q == "" {
		q = f.Key
	}
	n := ctx.N(2000, 20000)
	orc := ctx.NewOracle("footprint-growth", "replay of one program")
	g, err := measure(q, strings.Contains(q, "input"), n)
	orc.Cases = 1
	if err != nil {
		ctx.Errorf("replay %q: %v", q, err)
	} else if g.Grows {
		ctx.Violate(q, fmt.Sprintf("interpreter state grows with the number of turns: footprint %d after %d turns, %d after %d turns", g.MaxA, n, g.MaxB, 8*n), g.replay(n))
	}
	keys := []string{}
	for k := range f.Replay {
		keys = append(keys, k)
	}
	sort.Strings(keys)
	ctx.Res.Notes = append(ctx.Res.Notes, fmt.Sprintf("replayed %q: %+v", q, g))
	ctx.Finish()
}

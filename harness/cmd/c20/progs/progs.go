// Package progs holds the fixed subject programs of C20 — every iteration form named by
// the property plus a family of parameterless tail-recursive definitions and three
// non-tail-recursive controls — and their compilation with the REAL compiler into the
// data-forgetting instruction type of lean/Gojq/Model/ShVM.lean.  It is shared by the
// translator (cmd/verifgen programs) and the harness (cmd/c20).
package progs

import (
	"fmt"
	"strings"

	"github.com/itchyny/gojq"
)

// Prog is one subject program. All run on input null.
type Prog struct {
	Name    string // Lean identifier in Gojq.Generated.Programs
	Form    string // iteration form of the property it covers
	Query   string
	Control bool // non-tail-recursive control: must NOT get a certificate, must grow
	Inputs  bool // needs WithInputIter
	Emits   bool // produces one output per turn (else: one output at the end)
}

const big = "1000000000"

// Subjects lists the programs in a fixed order (the order of Programs.lean / Certs.lean).
var Subjects = []Prog{
	{Name: "range1", Form: "range", Query: "range(" + big + ")", Emits: true},
	{Name: "range2", Form: "range", Query: "range(5; " + big + ")", Emits: true},
	{Name: "range3", Form: "range", Query: "range(0; " + big + "; 3)", Emits: true},
	{Name: "whileLoop", Form: "while", Query: "0 | while(. < " + big + "; . + 1)", Emits: true},
	{Name: "untilLoop", Form: "until", Query: "0 | until(. >= " + big + "; . + 1)"},
	{Name: "repeatLoop", Form: "repeat", Query: "repeat(1)", Emits: true},
	{Name: "recurseF", Form: "recurse", Query: "0 | recurse(. + 1)", Emits: true},
	{Name: "recurseCond", Form: "recurse", Query: "0 | recurse(. + 1; . < " + big + ")", Emits: true},
	{Name: "limitRepeat", Form: "limit", Query: "limit(" + big + "; repeat(1))", Emits: true},
	{Name: "limitRange", Form: "limit", Query: "limit(" + big + "; range(" + big + "))", Emits: true},
	{Name: "firstRange", Form: "first", Query: "repeat(1) | first(range(5; " + big + "))", Emits: true},
	{Name: "lastRange", Form: "last", Query: "last(range(" + big + "))"},
	{Name: "reduceRange", Form: "reduce", Query: "reduce range(" + big + ") as $x (0; . + $x)"},
	{Name: "foreachRange", Form: "foreach", Query: "foreach range(" + big + ") as $x (0; . + $x)", Emits: true},
	{Name: "foreachExtract", Form: "foreach", Query: "foreach range(" + big + ") as $x (0; . + $x; [$x, .])", Emits: true},
	{Name: "inputsAll", Form: "inputs", Query: "inputs", Inputs: true, Emits: true},
	{Name: "inputsReduce", Form: "inputs", Query: "reduce inputs as $x (0; . + $x)", Inputs: true},
	{Name: "labelBreak", Form: "limit", Query: "repeat(1) | label $out | foreach range(" + big + ") as $i (0; . + 1; if . > 3 then ., break $out else empty end)", Emits: true},
	{Name: "pathRange", Form: "range", Query: "path(range(" + big + ") as $i | .[$i]?)", Emits: true},
	// user-defined parameterless tail-recursive functions
	{Name: "tailIf", Form: "tailrec", Query: "def f: if . < " + big + " then . + 1 | f else . end; 0 | f"},
	{Name: "tailElif", Form: "tailrec", Query: "def f: if . < 0 then . elif . < " + big + " then . + 1 | f else . end; 0 | f"},
	{Name: "tailElse", Form: "tailrec", Query: "def f: if . >= " + big + " then . else . + 1 | f end; 0 | f"},
	{Name: "tailAlt", Form: "tailrec", Query: "def f: select(. >= " + big + ") // (. + 1 | f); 0 | f"},
	{Name: "tailComma", Form: "tailrec", Query: "def f: ., (. + 1 | f); 0 | f", Emits: true},
	{Name: "tailCommaVar", Form: "tailrec", Query: "def f: . as $x | $x, ($x + 1 | f); 0 | f", Emits: true},
	{Name: "tailAs", Form: "tailrec", Query: "def f: . as $x | if $x < " + big + " then $x + 1 | f else $x end; 0 | f"},
	{Name: "tailDestructure", Form: "tailrec", Query: "def f: [., 1] as [$a, $b] | if $a < " + big + " then $a + $b | f else $a end; 0 | f"},
	{Name: "tailNested", Form: "tailrec", Query: "def f: def g: if . % 7 != 0 then . + 1 | g else . end; if . < " + big + " then . + 1 | g | f else . end; 0 | f"},
	{Name: "tailNestedVar", Form: "tailrec", Query: "def f: def g: . as $y | if $y % 7 != 0 then $y + 1 | g else $y end; . as $x | if $x < " + big + " then $x + 1 | g | f else $x end; 0 | f"},
	{Name: "tailNestedGen", Form: "tailrec", Query: "def f: def g: ., (select(. % 3 != 0) | . + 1 | g); . as $x | $x, (last($x + 1 | g) | f); 0 | f", Emits: true},
	// controls: the recursive call is NOT in tail position
	{Name: "ctlAltLeft", Form: "control", Query: "def g: (. + 1 | select(. < " + big + ") | g) // .; 0 | g", Control: true},
	{Name: "ctlPipeAfter", Form: "control", Query: "def g: if . < " + big + " then . + 1 | g | [.] else . end; 0 | g", Control: true},
	{Name: "ctlCommaLeft", Form: "control", Query: "def g: if . < " + big + " then (. + 1 | g), . else . end; 0 | g", Control: true},
}

// Compile compiles a program with the real compiler. The input iterator (if the program
// needs one) is supplied by the caller.
func Compile(p Prog, inputs gojq.Iter) (*gojq.Code, error) {
	return CompileQuery(p.Query, p.Inputs, inputs)
}

func CompileQuery(query string, needsInputs bool, inputs gojq.Iter) (*gojq.Code, error) {
	q, err := gojq.Parse(query)
	if err != nil {
		return nil, fmt.Errorf("parse %q: %w", query, err)
	}
	var opts []gojq.CompilerOption
	if needsInputs {
		if inputs == nil {
			inputs = gojq.NewIter[any]()
		}
		opts = append(opts, gojq.WithInputIter(inputs))
	}
	c, err := gojq.Compile(q, opts...)
	if err != nil {
		return nil, fmt.Errorf("compile %q: %w", query, err)
	}
	return c, nil
}

var bare = map[string]bool{"nop": true, "push": true, "pop": true, "dup": true, "const": true, "forktryend": true,
	"backtrack": true, "index": true, "indexarray": true, "callpc": true, "ret": true, "iter": true,
	"expbegin": true, "expend": true, "pathbegin": true, "pathend": true}
var withTarget = map[string]bool{"fork": true, "forktrybegin": true, "forkalt": true, "jump": true, "jumpifnot": true,
	"callrec": true, "pushpc": true}
var withVar = map[string]bool{"load": true, "store": true, "append": true, "forklabel": true}

// LeanInstrs renders compiled code as the elements of a literal `List Gojq.ShVM.Instr`.
// It fails on any instruction/operand combination it does not know.
func LeanInstrs(c *gojq.Code) ([]string, error) {
	natives := gojq.VerifNatives()
	ins := gojq.VerifCodes(c)
	out := make([]string, len(ins))
	for pc, in := range ins {
		bad := func() ([]string, error) {
			return nil, fmt.Errorf("pc %d: unexpected instruction %s with operand kind %s (%v %v %q/%d)", pc, in.Op, in.Kind, in.Int, in.Ints, in.Name, in.Argc)
		}
		target := func() bool { return in.Kind == "int" && in.Int >= 0 && in.Int <= len(ins) }
		switch {
		case in.Op == "nop": // rewritten in place by the optimisers: a stale operand may remain
			out[pc] = ".nop"
		case bare[in.Op]:
			if in.Kind != "none" && in.Kind != "value" {
				return bad()
			}
			out[pc] = "." + in.Op
		case withTarget[in.Op]:
			if !target() {
				return bad()
			}
			out[pc] = fmt.Sprintf(".%s %d", in.Op, in.Int)
		case in.Op == "object":
			if in.Kind != "int" || in.Int < 0 {
				return bad()
			}
			out[pc] = fmt.Sprintf(".object %d", in.Int)
		case withVar[in.Op]:
			if in.Kind != "ints" || len(in.Ints) != 2 || in.Ints[0] < 0 || in.Ints[1] < 0 {
				return bad()
			}
			out[pc] = fmt.Sprintf(".%s %d %d", in.Op, in.Ints[0], in.Ints[1])
		case in.Op == "scope":
			if in.Kind != "ints" || len(in.Ints) != 3 || in.Ints[0] < 0 || in.Ints[1] < 0 || in.Ints[2] < 0 {
				return bad()
			}
			out[pc] = fmt.Sprintf(".scope %d %d %d", in.Ints[0], in.Ints[1], in.Ints[2])
		case in.Op == "call" && in.Kind == "int":
			if !target() {
				return bad()
			}
			out[pc] = fmt.Sprintf(".call %d", in.Int)
		case in.Op == "call" && in.Kind == "native":
			kind := ".plain"
			switch in.Name {
			case "_index":
				kind = ".index"
			case "_slice":
				kind = ".slice"
			case "getpath":
				kind = ".getpath"
			case "_break":
				kind = ".never"
			}
			if in.Argc < 0 || in.Argc >= 32 {
				return bad()
			}
			out[pc] = fmt.Sprintf(".callnative %d %s %v", in.Argc, kind, natives[in.Name].Iter)
		default:
			return bad()
		}
	}
	return out, nil
}

// LeanComment makes a query safe inside a Lean doc comment.
func LeanComment(s string) string {
	return strings.NewReplacer("-/", "- /", "/-", "/ -").Replace(s)
}

// C13 — documented inverse pairs are exact inverses.
//
// correspondence stream `codec`: the real native codecs and calendar functions (through the
//
//	public API: explode, implode, split/1, join, @base64, @base64d, @uri, @urid, tostring,
//	tonumber, gmtime, mktime, todate, fromdate) vs Model/Codec.lean + Model/Calendar.lean.
//
// correspondence stream `pairs`: the jq-defined pairs (to_entries, from_entries, with_entries(.),
//
//	[paths], [tostream], [fromstream(.[])], the setpath replay of stream events) through the
//	public API vs Model/Pairs.lean + Model/Cli/Stream.lean (the functions Props/C13Pairs.lean is about).
//
// oracle (model-free search, oracle.go): every law of the property evaluated as a jq boolean by
//
//	the real code on the value universe and on random nested values.
package main

import (
	"encoding/json"
	"fmt"
	"math"
	"math/big"
	"strings"

	"verifharness/common"
)

func hexs(s string) string { return "s" + common.Hex(s) }

// canonical answers of the real code --------------------------------------------------------

func ansString(v any, err error) string {
	if err != nil {
		if strings.HasPrefix(err.Error(), "PANIC") {
			return "PANIC " + err.Error()
		}
		return "err"
	}
	s, ok := v.(string)
	if !ok {
		return "bad " + common.Canon(v)
	}
	return "ok " + hexs(s)
}

// integral number -> "ok i<z>"; anything else is rendered so that it cannot match the model
func ansInt(v any, err error) string {
	if err != nil {
		if strings.HasPrefix(err.Error(), "PANIC") {
			return "PANIC " + err.Error()
		}
		return "err"
	}
	switch x := v.(type) {
	case int:
		return fmt.Sprintf("ok i%d", x)
	case *big.Int:
		return "ok i" + x.String()
	case float64:
		if x == math.Trunc(x) && math.Abs(x) < 1<<53 {
			return fmt.Sprintf("ok i%d", int64(x))
		}
	}
	return "float " + common.Canon(v)
}

func ansIntList(v any, err error) string {
	if err != nil {
		return "err"
	}
	xs, ok := v.([]any)
	if !ok {
		return "bad " + common.Canon(v)
	}
	var sb strings.Builder
	sb.WriteString("ok")
	for _, x := range xs {
		switch x := x.(type) {
		case int:
			fmt.Fprintf(&sb, " %d", x)
		case float64:
			if x != math.Trunc(x) {
				return "bad " + common.Canon(v)
			}
			fmt.Fprintf(&sb, " %d", int64(x))
		default:
			return "bad " + common.Canon(v)
		}
	}
	return sb.String()
}

func ansStrList(v any, err error) string {
	if err != nil {
		return "err"
	}
	xs, ok := v.([]any)
	if !ok {
		return "bad " + common.Canon(v)
	}
	var sb strings.Builder
	sb.WriteString("ok")
	for _, x := range xs {
		s, ok := x.(string)
		if !ok {
			return "bad " + common.Canon(v)
		}
		sb.WriteString(" " + hexs(s))
	}
	return sb.String()
}

func main() {
	ctx := common.ParseFlags("C13")
	r := ctx.R
	if ctx.Replay != "" {
		replayFile(ctx, ctx.Replay)
		ctx.Finish()
	}
	st := ctx.NewStream("codec", "Gojq.Codec.{explode,implode,splitOn,join,b64enc,b64dec,uriEnc,uriDec,intToString,parseIntString} (Model/Codec.lean), Gojq.Calendar.{gmtime,mktimeFields,todate,fromdate} (Model/Calendar.lean)",
		"each native called through the public API on: universe strings, random strings built from fragments of every byte class (ASCII classes, control, boundary code points of each UTF-8 width, surrogate/overlong/out-of-range/truncated encodings), every byte string of length <=1 and all (thorough) or 3000 (quick) of length 2 for base64/uri in both directions, alphabet/padding/CRLF/foreign-byte strings for @base64d, escape/stray-%/+ strings for @urid, integers of 1..40 digits, integer-shaped and malformed numerals, whole seconds across years 1..9999 and +-1e11 with year/leap/century boundaries, broken-down arrays with out-of-range fields, date strings with out-of-range fields; distinct = distinct implementation answers")
	var lines, impl []string
	add := func(kind, line, ans string) {
		lines = append(lines, line)
		impl = append(impl, ans)
		st.Distribution[kind+":"+strings.SplitN(ans, " ", 2)[0]]++
	}

	// ---- explode / implode ---------------------------------------------------------------
	var strs []string
	strs = append(strs, common.UniverseStrings()...)
	strs = append(strs, fragments...)
	for i := 0; i < ctx.N(8000, 80000); i++ {
		strs = append(strs, randBytes(r, 6))
	}
	var runeLists [][]any
	for _, s := range strs {
		v, err := q("explode").first(s)
		add("explode", "explode "+hexs(s), ansIntList(v, err))
		if xs, ok := v.([]any); ok && len(runeLists) < ctx.N(3000, 20000) {
			runeLists = append(runeLists, xs)
		}
	}
	specialRunes := []any{0, 0x7f, 0x80, 0x7ff, 0x800, 0xd7ff, 0xd800, 0xdbff, 0xdc00, 0xdfff, 0xe000, 0xfffd, 0xffff, 0x10000, 0x10ffff, 0x110000, -1, -65, math.MaxInt32, math.MinInt64, math.MaxInt64,
		common.NormInt(new(big.Int).Lsh(big.NewInt(1), 64)), common.NormInt(new(big.Int).Neg(new(big.Int).Lsh(big.NewInt(1), 64)))}
	for i := 0; i < ctx.N(6000, 60000); i++ {
		n := r.Intn(6)
		xs := make([]any, n)
		for j := range xs {
			switch r.Intn(5) {
			case 0:
				xs[j] = common.Pick(r, specialRunes)
			case 1:
				xs[j] = r.Range(0, 0x10ffff)
			case 2:
				xs[j] = r.Range(0xd700, 0xe100)
			case 3:
				xs[j] = r.Range(0, 0x900)
			default:
				xs[j] = r.Range(0x10000-40, 0x10000+40)
			}
		}
		if r.Chance(1, 25) && n > 0 { // a non-number element: the only error of implode
			xs[r.Intn(n)] = common.Pick(r, []any{nil, "a", true, []any{}, map[string]any{}})
		}
		runeLists = append(runeLists, xs)
	}
	for _, x := range specialRunes {
		runeLists = append(runeLists, []any{x})
	}
	for _, xs := range runeLists {
		v, err := q("implode").first(xs)
		add("implode", "implode "+common.Canon(xs), ansString(v, err))
	}

	// ---- split / join ----------------------------------------------------------------------
	seps := []string{",", ", ", "a", "aa", "ab", "aba", "é", "\xc3", "\xa9", "\xff", "\x00", " ", "\n", "漢", "😀", "\xf0\x9f", "abc", "", "X", "%", "=", "+"}
	for i := 0; i < ctx.N(10000, 100000); i++ {
		var sep, s string
		switch r.Intn(4) {
		case 0: // separator taken from the string itself (guaranteed occurrences, overlaps)
			s = randBytes(r, 6)
			if len(s) > 0 {
				a := r.Intn(len(s))
				b := a + 1 + r.Intn(min(3, len(s)-a))
				sep = s[a:b]
			} else {
				sep = common.Pick(r, seps)
			}
		case 1: // runs of the separator: overlapping candidates
			sep = common.Pick(r, []string{"a", "aa", "aba", "ab", "\xff\xff", "éé"})
			var sb strings.Builder
			for j, n := 0, r.Intn(7); j < n; j++ {
				sb.WriteString(common.Pick(r, []string{sep, sep[:1], "b", sep, "a", ""}))
			}
			s = sb.String()
		default:
			sep = common.Pick(r, seps)
			var sb strings.Builder
			for j, n := 0, r.Intn(6); j < n; j++ {
				if r.Bool() {
					sb.WriteString(sep)
				} else {
					sb.WriteString(common.Pick(r, fragments))
				}
			}
			s = sb.String()
		}
		v, err := q("split($s)", "$s").first(s, sep)
		add("split", "split "+hexs(sep)+" "+hexs(s), ansStrList(v, err))
		if xs, ok := v.([]any); ok {
			w, err := q("join($s)", "$s").first(xs, sep)
			line := "join " + hexs(sep)
			for _, x := range xs {
				line += " " + hexs(x.(string))
			}
			add("join", line, ansString(w, err))
		}
		// join of an unrelated list of strings
		n := r.Intn(4)
		xs := make([]any, n)
		line := "join " + hexs(sep)
		for j := range xs {
			xs[j] = randBytes(r, 3)
			line += " " + hexs(xs[j].(string))
		}
		w, err := q("join($s)", "$s").first(xs, sep)
		add("join", line, ansString(w, err))
	}

	// ---- base64 / uri ----------------------------------------------------------------------
	short := shortByteStrings(ctx)
	codecIn := append([]string{}, short...)
	codecIn = append(codecIn, common.UniverseStrings()...)
	for i := 0; i < ctx.N(8000, 80000); i++ {
		codecIn = append(codecIn, randBytes(r, 9))
	}
	codecIn = append(codecIn, longByteStrings(r)...)
	var b64outs, uriouts []string
	for _, s := range codecIn {
		v, err := q("@base64").first(s)
		add("b64", "b64 "+hexs(s), ansString(v, err))
		if e, ok := v.(string); ok {
			b64outs = append(b64outs, e)
		}
		v, err = q("@uri").first(s)
		add("uri", "uri "+hexs(s), ansString(v, err))
		if e, ok := v.(string); ok {
			uriouts = append(uriouts, e)
		}
	}
	b64dIn := append([]string{}, short...)
	for i, e := range b64outs {
		if i < 300 || i%ctx.N(6, 2) == 0 {
			b64dIn = append(b64dIn, e, strings.TrimRight(e, "="))
			if len(e) > 1 {
				b64dIn = append(b64dIn, e[:len(e)-1], e+"=", e[:len(e)/2]+"\n"+e[len(e)/2:], e+e)
			}
		}
	}
	for i := 0; i < ctx.N(15000, 150000); i++ {
		b64dIn = append(b64dIn, randB64Input(r))
	}
	for _, s := range b64dIn {
		v, err := q("@base64d").first(s)
		add("b64d", "b64d "+hexs(s), ansString(v, err))
	}
	uridIn := append([]string{}, short...)
	for i, e := range uriouts {
		if i < 300 || i%ctx.N(6, 2) == 0 {
			uridIn = append(uridIn, e, strings.ToLower(e))
			if len(e) > 1 {
				uridIn = append(uridIn, e[:len(e)-1], e[1:])
			}
		}
	}
	for i := 0; i < ctx.N(15000, 150000); i++ {
		uridIn = append(uridIn, randURIInput(r))
	}
	for _, s := range uridIn {
		v, err := q("@urid").first(s)
		add("urid", "urid "+hexs(s), ansString(v, err))
	}

	// ---- tostring / tonumber on integers -----------------------------------------------------
	var ints []any
	for _, z := range common.BoundaryInts() {
		ints = append(ints, common.NormInt(z))
	}
	for i := 0; i < ctx.N(6000, 60000); i++ {
		ints = append(ints, randBigish(r))
	}
	var numerals []string
	for i, z := range ints {
		for ci, c := range common.Carriers(z) {
			if _, isLit := c.(json.Number); isLit {
				continue // json.Number keeps its own literal text: tostring is the literal, not a function of the value
			}
			v, err := q("tostring").first(c)
			add("tostring", "tostring "+common.Canon(z), ansString(v, err))
			if s, ok := v.(string); ok && ci == 0 && i%2 == 0 {
				numerals = append(numerals, s)
			}
		}
	}
	for _, s := range append([]string{}, numerals...) {
		numerals = append(numerals, "+"+strings.TrimPrefix(s, "-"), "00"+strings.TrimPrefix(s, "-"), "-0"+strings.TrimPrefix(s, "-"))
	}
	numerals = append(numerals, "", "-", "+", "--1", "+-1", "1a", "a1", " 1", "1 ", "0x10", "1_000", "\u0661", "1.5", "1e3", ".5", "5.", "-.5", "1e", "nan", "NaN", "infinity", "-0", "+0", "00", "0", "-00", "1e1000", "9223372036854775807", "9223372036854775808", "-9223372036854775808", "-9223372036854775809", "1\x00", "\xff")
	for _, s := range numerals {
		v, err := q("tonumber").first(s)
		add("tonumber", "tonumber "+hexs(s), ansInt(v, err))
	}

	// ---- gmtime / mktime / todate / fromdate -------------------------------------------------
	secs := boundarySeconds()
	for i := 0; i < ctx.N(15000, 150000); i++ {
		secs = append(secs, randSeconds(r, false))
	}
	var dates []string
	for i, t := range secs {
		var in any = t
		if i%3 == 1 {
			in = float64(t) // whole seconds carried by a float64
		}
		v, err := q("gmtime").first(in)
		add("gmtime", fmt.Sprintf("gmtime i%d", t), ansIntList(v, err))
		if a, ok := v.([]any); ok {
			w, err := q("mktime").first(a)
			line := "mktime"
			for _, x := range a {
				switch x := x.(type) {
				case int:
					line += fmt.Sprintf(" i%d", x)
				case float64:
					line += fmt.Sprintf(" i%d", int64(x))
				}
			}
			add("mktime", line, ansInt(w, err))
		}
		v, err = q("todate").first(in)
		add("todate", fmt.Sprintf("todate i%d", t), ansString(v, err))
		if s, ok := v.(string); ok {
			dates = append(dates, s)
		}
	}
	// broken-down arrays with out-of-range and missing fields (time.Date normalises)
	for i := 0; i < ctx.N(10000, 100000); i++ {
		n := 6
		if r.Chance(1, 8) {
			n = r.Intn(9)
		}
		a := make([]any, n)
		line := "mktime"
		for j := range a {
			var x int
			switch j {
			case 0:
				x = common.Pick(r, []int{r.Range(1, 9999), r.Range(1900, 2100), r.Range(-500, 12000), 0, 1, 9999, 2000, 1900, 2024})
			case 1:
				x = common.Pick(r, []int{r.Range(0, 11), r.Range(0, 11), r.Range(-30, 40), 12, -1})
			case 2:
				x = common.Pick(r, []int{r.Range(1, 28), r.Range(1, 31), r.Range(-60, 400), 0, 29, 30, 31, 366})
			case 3:
				x = common.Pick(r, []int{r.Range(0, 23), r.Range(-50, 100), 24})
			case 4, 5:
				x = common.Pick(r, []int{r.Range(0, 59), r.Range(-200, 200), 60, 61})
			default:
				x = r.Range(-3, 400)
			}
			a[j] = x
			if j == 5 && r.Bool() {
				a[j] = float64(x)
			}
			line += fmt.Sprintf(" i%d", x)
		}
		w, err := q("mktime").first(a)
		add("mktime", line, ansInt(w, err))
	}
	// date strings: printed ones, then field-wise mutations (range errors, normalised overflow, other shapes)
	dateIn := []string{"0001-01-01T00:00:00Z", "0000-01-01T00:00:00Z", "0000-12-31T23:59:60Z", "0000-12-31T23:59:59Z", "0001-01-01T00:00:01Z", "9999-12-31T23:59:59Z", "9999-12-31T23:59:60Z",
		"2021-02-31T00:00:00Z", "2021-02-29T00:00:00Z", "2024-02-29T12:00:00Z", "2021-13-01T00:00:00Z", "2021-00-01T00:00:00Z", "2021-01-00T00:00:00Z", "2021-01-32T00:00:00Z", "2021-01-01T24:00:00Z",
		"2021-01-01T00:60:00Z", "2021-01-01T00:00:61Z", "2021-01-01T00:00:00", "2021-01-01T00:00:00+0000", "2021-1-1T0:0:0Z", "2021-01-01 00:00:00Z", "", "Z", "2021-01-01T00:00:00z", "2021-01-01T00:00:00ZZ", "x021-01-01T00:00:00Z", "2021-01-01T00:00:0xZ"}
	for i, s := range dates {
		if i%ctx.N(2, 1) != 0 {
			continue
		}
		dateIn = append(dateIn, s)
		if r.Chance(1, 2) && len(s) == 20 {
			b := []byte(s)
			switch r.Intn(4) {
			case 0:
				b[r.Intn(20)] = byte('0' + r.Intn(10))
			case 1:
				p := common.Pick(r, []int{5, 8, 11, 14, 17})
				b[p], b[p+1] = byte('0'+r.Intn(10)), byte('0'+r.Intn(10))
			case 2:
				b[r.Intn(20)] = common.Pick(r, []byte{'-', ':', 'T', 'Z', ' ', 'a', '+'})
			default:
				b = b[:r.Intn(20)]
			}
			dateIn = append(dateIn, string(b))
		}
	}
	for _, s := range dateIn {
		v, err := q("fromdate").first(s)
		add("fromdate", "fromdate "+hexs(s), ansInt(v, err))
	}

	ctx.RunStream(st, lines, impl)
	st.Exhaustive = false

	runOracle(ctx)
	runPairs(ctx)
	ctx.Res.Notes = append(ctx.Res.Notes,
		"explode on invalid UTF-8 yields 65533 per invalid byte; implode rejects no integer (surrogates, negatives, >0x10FFFF silently become U+FFFD) — modelled as coded",
		"fromdate: only the zero-padded shape DDDD-DD-DDTDD:DD:DDZ is modelled; other shapes timefmt accepts are answered `?shape` and counted as unmodelled",
		"tostring on json.Number carriers is the literal text, not compared by the stream")
	ctx.Finish()
}

// ---- stream `pairs`: the jq-defined pairs vs their value-level models ---------------------------

func ansValue(v any, err error) string {
	if err != nil {
		if strings.HasPrefix(err.Error(), "PANIC") {
			return "PANIC " + err.Error()
		}
		return "err"
	}
	return "ok " + common.Canon(v)
}

// mutateEntry turns a {"key","value"} entry into one of the other shapes from_entries accepts or rejects.
func mutateEntry(r *common.Rand, e any) any {
	m, ok := e.(map[string]any)
	if !ok {
		return e
	}
	out := map[string]any{}
	for k, v := range m {
		out[k] = v
	}
	switch r.Intn(10) {
	case 0, 1: // another spelling of the key
		out[common.Pick(r, []string{"Key", "name", "Name", "k", "K"})] = out["key"]
		delete(out, "key")
	case 2: // a falsy key in front of another spelling
		out[common.Pick(r, []string{"Key", "name", "Name"})] = out["key"]
		out["key"] = common.Pick(r, []any{nil, false})
	case 3: // a key that is not a string
		out["key"] = common.Pick(r, []any{nil, false, true, 0, 1, 1.5, []any{}, map[string]any{}})
	case 4: // another spelling of the value
		out[common.Pick(r, []string{"Value", "v"})] = out["value"]
		delete(out, "value")
	case 5: // value present but null/false, Value present too
		out["Value"] = out["value"]
		out["value"] = common.Pick(r, []any{nil, false})
	case 6:
		delete(out, "value")
	case 7:
		delete(out, "key")
	case 8: // not an object
		return common.Pick(r, []any{nil, false, 0, "key", []any{}, []any{"key", "a"}})
	}
	return out
}

func runPairs(ctx *common.Ctx) {
	r := ctx.R
	st := ctx.NewStream("pairs", "Gojq.Pairs.{toEntries,fromEntries,withEntries,allPaths,replayEvents} (Model/Pairs.lean), Gojq.Stream.{streamSpec,fromstreamSpec} (Model/Cli/Stream.lean) — the functions the theorems of Props/C13Pairs.lean are about",
		"to_entries, from_entries, with_entries(.), [paths], [tostream] through the public API on every universe value, hand-picked awkward objects and random nested values (empty containers at root and nested; awkward and non-UTF-8 keys; every number class); from_entries also on the real to_entries outputs and on mutated entry lists (Key/name/Name/k spellings, falsy and non-string keys, Value/v, missing fields, non-object entries, objects of entries); [fromstream(.[])] and the setpath replay on the real [tostream] outputs, on several documents in a row, on truncated lists and on lists with a dropped, swapped, repeated or index-shifted event; distinct = distinct implementation answers")
	var lines, impl []string
	add := func(op string, in any, src string) {
		v, err := q(src).first(in)
		ans := ansValue(v, err)
		lines = append(lines, op+" "+common.Canon(in))
		impl = append(impl, ans)
		st.Distribution[op+":"+strings.SplitN(ans, " ", 2)[0]]++
	}
	var values []any
	values = append(values, common.Universe(false)...)
	values = append(values,
		map[string]any{"": map[string]any{"": []any{}}}, []any{[]any{}, map[string]any{}, []any{[]any{}}}, map[string]any{"a\"b": map[string]any{"\\": []any{nil}}, "\n": map[string]any{}},
		map[string]any{"\xff": 1, "a\xc3": []any{}}, map[string]any{"key": "value", "value": "key"}, map[string]any{"name": nil, "value": false},
		map[string]any{"k": map[string]any{"key": 1, "value": 2}}, map[string]any{"Key": 1, "Name": 2, "Value": 3, "key": 4, "name": 5, "value": 6},
		[]any{map[string]any{"key": "a", "value": 1}, map[string]any{"key": "a", "value": 2}}, map[string]any{"x": map[string]any{"key": "q", "value": 1}})
	for i := 0; i < ctx.N(2500, 25000); i++ {
		if i%3 == 0 {
			values = append(values, common.RandValue(r, common.DefaultGen, 0))
		} else {
			values = append(values, randNested(r, 0))
		}
	}
	var eventLists [][]any
	for i, v := range values {
		add("to_entries", v, "to_entries")
		add("from_entries", v, "from_entries")
		add("with_entries", v, "with_entries(.)")
		add("paths", v, "[paths]")
		add("tostream", v, "[tostream]")
		if es, err := q("to_entries").first(v); err == nil {
			add("from_entries", es, "from_entries")
			if xs, ok := es.([]any); ok && len(xs) > 0 {
				ys := make([]any, len(xs))
				copy(ys, xs)
				for k := 0; k <= r.Intn(2); k++ {
					j := r.Intn(len(ys))
					ys[j] = mutateEntry(r, ys[j])
				}
				add("from_entries", ys, "from_entries")
				add("with_entries", ys, "with_entries(.)")
			}
		}
		if evs, err := q("[tostream]").first(v); err == nil && (i < 400 || i%2 == 0) {
			eventLists = append(eventLists, evs.([]any))
		}
	}
	n := len(eventLists)
	for i := 0; i < n; i++ {
		evs := eventLists[i]
		switch r.Intn(6) {
		case 0: // several documents in a row
			cat := append([]any{}, evs...)
			for k := 0; k <= r.Intn(2); k++ {
				cat = append(cat, eventLists[r.Intn(n)]...)
			}
			eventLists = append(eventLists, cat)
		case 1: // truncated
			eventLists = append(eventLists, evs[:r.Intn(len(evs)+1)])
		case 2: // one event dropped
			if len(evs) > 1 {
				j := r.Intn(len(evs))
				eventLists = append(eventLists, append(append([]any{}, evs[:j]...), evs[j+1:]...))
			}
		case 3: // two events swapped
			if len(evs) > 1 {
				ys := append([]any{}, evs...)
				a, b := r.Intn(len(ys)), r.Intn(len(ys))
				ys[a], ys[b] = ys[b], ys[a]
				eventLists = append(eventLists, ys)
			}
		case 4: // one event repeated
			j := r.Intn(len(evs))
			ys := append(append([]any{}, evs[:j+1]...), evs[j:]...)
			eventLists = append(eventLists, ys)
		default: // an index shifted / a key replaced in one path
			ys := common.DeepCopy(evs).([]any)
			ev := ys[r.Intn(len(ys))].([]any)
			if p, ok := ev[0].([]any); ok && len(p) > 0 {
				j := r.Intn(len(p))
				switch x := p[j].(type) {
				case int:
					p[j] = x + common.Pick(r, []int{1, 2, -1, 5})
				case string:
					p[j] = common.Pick(r, []any{"zz", 0, "", nil})
				}
			}
			eventLists = append(eventLists, ys)
		}
	}
	eventLists = append(eventLists, []any{}, []any{[]any{[]any{}, 1}, []any{[]any{}, 2}}, []any{[]any{[]any{0}}}, []any{[]any{[]any{1}, 7}, []any{[]any{1}}},
		[]any{[]any{[]any{"a", 0}, nil}, []any{[]any{"a", 0}}, []any{[]any{"a"}}}, []any{[]any{[]any{0}, 1}, []any{[]any{"a"}, 2}})
	for _, evs := range eventLists {
		add("fromstream", evs, "[fromstream(.[])]")
		add("replay", evs, "reduce (.[] | select(length == 2)) as [$p, $x] (null; setpath($p; $x))")
	}
	ctx.RunStream(st, lines, impl)
	st.Exhaustive = false
}

// longByteStrings: lengths around every power of two up to 64 KiB (buffer sizes an encoder could
// use), each in the three residues mod 3, random bytes of every class.
func longByteStrings(r *common.Rand) []string {
	const specials = " %+/=?&~\x00\n"
	var out []string
	for _, n := range []int{64, 128, 256, 512, 1024, 2048, 3072, 4096, 8192, 16384, 65536} {
		for d := -2; d <= 3; d++ {
			b := make([]byte, n+d)
			for i := range b {
				switch r.Intn(4) {
				case 0:
					b[i] = byte('a' + r.Intn(26))
				case 1:
					b[i] = byte(r.Intn(256))
				case 2:
					b[i] = specials[r.Intn(len(specials))]
				default:
					b[i] = byte(0x80 + r.Intn(0x80))
				}
			}
			out = append(out, string(b))
		}
	}
	return out
}

package main

import (
	"encoding/json"
	"fmt"
	"math"
	"os"
	"sort"
	"strings"
	"unicode/utf8"

	"github.com/itchyny/gojq"

	"verifharness/common"
)

// The model-free oracle: every law of C13 is a jq program that must yield `true`, evaluated by
// the real code through the public API.  `Violate` is called only when the real code does not
// yield `true` on an input inside the law's stated domain.

const d10Key = "todate-fromdate-year1-zero-time"

func jsonText(v any) string {
	b, err := gojq.Marshal(v)
	if err != nil {
		return "<unmarshalable: " + err.Error() + ">"
	}
	return string(b)
}

func shq(s string) string { return "'" + strings.ReplaceAll(s, "'", `'\''`) + "'" }

// all strings (values and keys) valid UTF-8, i.e. the value is in the JSON universe proper
func validDeep(v any) bool {
	switch v := v.(type) {
	case string:
		return utf8.ValidString(v)
	case []any:
		for _, x := range v {
			if !validDeep(x) {
				return false
			}
		}
	case map[string]any:
		for k, x := range v {
			if !utf8.ValidString(k) || !validDeep(x) {
				return false
			}
		}
	}
	return true
}

type oracleRun struct {
	ctx      *common.Ctx
	distinct map[*common.Oracle]map[string]bool
}

// check evaluates one law instance. names/vals are the jq variables of the law.
func (o *oracleRun) check(orc *common.Oracle, law, src string, in any, names []string, vals []any) bool {
	res, err := q(src, names...).first(in, vals...)
	orc.Cases++
	orc.Distribution[law]++
	id := law + ":" + common.Canon(in)
	for _, v := range vals {
		id += ":" + common.Canon(v)
	}
	if o.distinct[orc] == nil {
		o.distinct[orc] = map[string]bool{}
	}
	o.distinct[orc][fmt.Sprintf("%s:%T", id, in)] = true
	if err == nil && res == true {
		return true
	}
	observed := fmt.Sprint(res)
	if err != nil {
		observed = "error: " + err.Error()
	}
	cmd := "printf '%s' " + shq(jsonText(in)) + " | gojq -c"
	for i, n := range names {
		cmd += " --argjson " + strings.TrimPrefix(n, "$") + " " + shq(jsonText(vals[i]))
	}
	cmd += " " + shq(src)
	replay := map[string]any{"law": law, "query": src, "input": jsonText(in), "input_wire": common.Canon(in),
		"observed": observed, "expected": "true", "cmd": cmd}
	varsWire := map[string]any{}
	lossy := !validDeep(in)
	for i, n := range names {
		replay["var_"+n] = jsonText(vals[i])
		varsWire[n] = common.Canon(vals[i])
		lossy = lossy || !validDeep(vals[i])
	}
	replay["vars_wire"] = varsWire
	if lossy {
		replay["cmd_note"] = "the input contains bytes that are not valid UTF-8: the JSON text in `input`/`cmd` shows them as U+FFFD; the exact bytes are in input_wire/vars_wire (s<hex>), re-run with `bin/check C13 --replay <this file>`"
	}
	key := "law:" + law + ":" + common.Canon(in)
	for _, v := range vals {
		key += ":" + common.Canon(v)
	}
	if (law == "todate-fromdate") && isYear1Start(in) {
		key = d10Key
		replay["cmd"] = "gojq -n '-62135596800 | todate | fromdate'"
		replay["note"] = "funcStrptime treats a parse result equal to Go's zero time.Time (0001-01-01T00:00:00Z) as a failed parse"
	}
	o.ctx.Violate(key, fmt.Sprintf("law %s fails on %s: %s", law, clip(jsonText(in), 120), clip(observed, 160)), replay)
	return false
}

func isYear1Start(v any) bool {
	switch x := v.(type) {
	case int:
		return x == year1Start
	case float64:
		return x == year1Start
	}
	return false
}

func clip(s string, n int) string {
	if len(s) > n {
		return s[:n] + "…"
	}
	return s
}

var structuralLaws = []struct{ name, src string }{
	{"fromstream-tostream", `fromstream(tostream) == .`},
	{"setpath-getpath-identity", `. as $v | all(paths; . as $p | $v | setpath($p; getpath($p)) == $v)`},
	{"paths-eq-path-recurse-minus-root", `[paths] == ([path(..)] - [[]])`},
	{"tostream-event-getpath", `. as $v | all(tostream | select(length == 2); . as [$p, $l] | $v | getpath($p) == $l)`},
	// x DERIVED FROM THE VALUE ITSELF (slices share the backing array of what is stored at p, the
	// whole value, the parent, a child): setpath must store exactly x
	{"setpath-getpath-derived", `. as $v | all(paths, []; . as $p | ($v | getpath($p)) as $old | all(($old | arrays | (.[:1], .[:-1], .[1:], .[:0], .[1:2], . + [0], reverse, .[0]?)), ($old | objects | (del(.[keys[0]?]?), . + {zz: 1}, .[keys[0]?]?)), $v, ($v | getpath($p[:-1])), [$old], {o: $old}; . as $x | ($v | setpath($p; $x) | getpath($p)) == $x))`},
	{"assign-derived", `. as $v | all(paths(arrays); . as $p | ($v | getpath($p)) as $old | all($old[:1], $old[:-1], $old[:0], $old[1:]; . as $x | ($v | getpath($p) = $x | getpath($p)) == $x))`},
	// every index of every array, counted from the front and from the back (-length .. length-1)
	{"setpath-getpath-every-index", `. as $v | all(paths(arrays), ([] | select($v | type == "array")); . as $p | ($v | getpath($p) | length) as $n | all(range(-$n; $n); . as $i | ($v | setpath($p + [$i]; "X") | getpath($p + [$i])) == "X" and ($v | setpath($p + [$i]; "X") | getpath($p) | length) == $n))`},
	{"delpaths-every-index", `. as $v | all(paths(arrays), ([] | select($v | type == "array")); . as $p | ($v | getpath($p)) as $a | ($a | length) as $n | all(range(-$n; $n); . as $i | ($v | delpaths([$p + [$i]]) | getpath($p)) == ($a | to_entries | map(select(.key != (if $i < 0 then $i + $n else $i end)) | .value))))`},
	{"tostream-replay-setpath", `(reduce (tostream | select(length == 2)) as [$p, $x] (null; setpath($p; $x))) == .`},
}

var setX = []any{nil, 0, "x", []any{}, map[string]any{}, map[string]any{"a": []any{1}}, []any{1, []any{2}}, true, 1.5, "", false}

func runOracle(ctx *common.Ctx) {
	r := ctx.R
	o := &oracleRun{ctx, map[*common.Oracle]map[string]bool{}}

	// ---------------- values -------------------------------------------------------------
	var values []any
	values = append(values, common.Universe(false)...)
	values = append(values,
		map[string]any{"": map[string]any{"": []any{}}}, []any{[]any{}, map[string]any{}, []any{[]any{}}}, map[string]any{"a\"b": map[string]any{"\\": []any{nil}}, "\n": map[string]any{}},
		map[string]any{"é": []any{map[string]any{"漢字": []any{}}}, "😀": nil}, []any{nil}, []any{[]any{nil}}, map[string]any{"a": nil}, map[string]any{"\xff": 1, "a\xc3": []any{}},
		[]any{map[string]any{}, []any{}}, map[string]any{"key": "value", "value": "key"}, map[string]any{"name": nil, "value": false}, map[string]any{"k": map[string]any{"key": 1, "value": 2}},
		map[string]any{"false": false, "null": nil}, []any{false, nil, []any{false, nil}}, map[string]any{"a": false}, map[string]any{"a": map[string]any{"b": false}},
	)
	nRand := ctx.N(6000, 60000)
	for i := 0; i < nRand; i++ {
		if i%3 == 0 {
			values = append(values, common.RandValue(r, common.DefaultGen, 0))
		} else {
			values = append(values, randNested(r, 0))
		}
	}

	structural := ctx.NewOracle("structural-laws", "fromstream(tostream)==., setpath(p;getpath(p))==. for p in paths, [paths]==[path(..)]-[[]], every tostream event [p,leaf] has getpath(p)==leaf, replaying the two-element events with setpath on null rebuilds the value, setpath(p;x)|getpath(p)==x (key/index paths p: paths of the value, [] and extensions below null/objects/arrays; x from 11 values; instances where setpath itself errors are outside the law), tojson|fromjson==. (values whose strings are valid UTF-8) — each as a jq boolean on every universe value and on random nested values (empty containers at root and nested; empty, multi-byte, escape-needing and non-UTF-8 keys; strings of every byte class; ints, big ints, floats); distinct = distinct (law, input, parameters)")
	entries := ctx.NewOracle("entries-laws", "to_entries|from_entries==. and with_entries(.)==. on every object among the universe, the random nested values and their sub-objects; distinct = distinct (law, object)")
	kinds := map[string]int{}
	seenObj := map[string]bool{}
	var checkObjects func(v any)
	checkObjects = func(v any) {
		switch v := v.(type) {
		case []any:
			for _, x := range v {
				checkObjects(x)
			}
		case map[string]any:
			c := common.Canon(v)
			if !seenObj[c] {
				seenObj[c] = true
				o.check(entries, "to_entries-from_entries", `(to_entries | from_entries) == .`, v, nil, nil)
				o.check(entries, "with_entries-id", `with_entries(.) == .`, v, nil, nil)
			}
			for _, x := range v {
				checkObjects(x)
			}
		}
	}
	setpathOutside := 0
	for _, v := range values {
		kinds[gojq.TypeOf(v)]++
		for _, l := range structuralLaws {
			o.check(structural, l.name, l.src, v, nil, nil)
		}
		if validDeep(v) {
			o.check(structural, "tojson-fromjson", `(tojson | fromjson) == .`, v, nil, nil)
		}
		checkObjects(v)
		// setpath(p; x) | getpath(p) == x
		pv, err := q("[paths]").first(v)
		if err != nil {
			ctx.Violate("law:paths-error:"+common.Canon(v), "paths fails: "+err.Error(), map[string]any{"input": jsonText(v)})
			continue
		}
		cands := [][]any{{}}
		for _, p := range pv.([]any) {
			cands = append(cands, p.([]any))
		}
		nPairs := 5
		for k := 0; k < nPairs; k++ {
			p := append([]any{}, cands[r.Intn(len(cands))]...)
			switch r.Intn(6) { // extend below the chosen node
			case 0:
				p = append(p, common.Pick(r, []any{"new", "", "a", "é"}))
			case 1:
				p = append(p, common.Pick(r, []any{0, 1, 3, -1}))
			case 2:
				p = append(p, common.Pick(r, []any{"new", 0, 2}), common.Pick(r, []any{"k", 1}))
			}
			x := common.Pick(r, setX)
			w, err := q("setpath($p; $x)", "$p", "$x").first(v, p, x)
			if err != nil {
				setpathOutside++ // setpath is not defined here (wrong container type, negative index out of bounds …)
				continue
			}
			o.check(structural, "setpath-getpath", `getpath($p) == $x`, w, []string{"$p", "$x"}, []any{p, x})
		}
	}
	for k, n := range kinds {
		structural.Distribution["input:"+k] = n
	}
	structural.Distribution["setpath-outside-domain"] = setpathOutside
	structural.Samples = []string{`fromstream(tostream) == . on {"":{"":[]}}`, `setpath($p;$x)|getpath($p) == $x with p below null`, `replay of tostream events on [[],{},[[]]]`}
	entries.Samples = []string{`to_entries|from_entries on {"key":"value","value":"key"}`, `with_entries(.) on {"a\"b":1,"\n":2}`}

	// ---------------- strings ------------------------------------------------------------
	sorc := ctx.NewOracle("string-codec-laws", "explode|implode==. (valid UTF-8 strings), split($s)|join($s)==. for non-empty $s (fixed separators incl. multi-byte and non-UTF-8 ones, and substrings of the input), @base64|@base64d==. and @uri|@urid==. (every byte string, compared bytewise by jq ==) on universe strings, fragments of every byte class, every byte string of length <=1, sampled/all of length 2, random strings; distinct = distinct (law, string, separator)")
	strs := append([]string{}, common.UniverseStrings()...)
	strs = append(strs, fragments...)
	strs = append(strs, shortByteStrings(ctx)...)
	for i := 0; i < ctx.N(10000, 100000); i++ {
		strs = append(strs, randBytes(r, 10))
	}
	strs = append(strs, longByteStrings(r)...)
	fixedSeps := []string{",", ", ", "a", "aa", "ab", "é", "\xc3", "\xa9", "\xff", "\x00", " ", "\n", "漢", "😀", "%", "=", "+", "\"", "\\"}
	for i, s := range strs {
		if utf8.ValidString(s) {
			o.check(sorc, "explode-implode", `(explode | implode) == .`, s, nil, nil)
		} else {
			sorc.Distribution["explode-implode:outside-domain(invalid UTF-8)"]++
		}
		o.check(sorc, "base64-base64d", `(@base64 | @base64d) == .`, s, nil, nil)
		o.check(sorc, "uri-urid", `(@uri | @urid) == .`, s, nil, nil)
		seps := []string{fixedSeps[i%len(fixedSeps)], fixedSeps[(i*7+3)%len(fixedSeps)]}
		for k := 0; k < 2 && len(s) > 0; k++ {
			a := r.Intn(len(s))
			seps = append(seps, s[a:a+1+r.Intn(min(3, len(s)-a))])
		}
		if len(s) <= 2 && i%5 != 0 && len(strs) > 5000 { // the exhaustive short strings: one separator each
			seps = seps[:1]
		}
		for _, sep := range seps {
			o.check(sorc, "split-join", `(split($s) | join($s)) == .`, s, []string{"$s"}, []any{sep})
		}
	}
	sorc.Samples = []string{`"a+b c%" | @uri | @urid`, `"\xff\xfe" | @base64 | @base64d (length = 2 mod 3)`, `"aaaa" | split("aa") | join("aa")`}

	// ---------------- numbers ------------------------------------------------------------
	norc := ctx.NewOracle("number-laws", "tostring|tonumber==. on finite numbers in every carrier (int, *big.Int, float64, json.Number): boundary integers to 2^130, 1..40-digit integers, format-threshold and random-bit floats; tojson|fromjson==. on the same; distinct = distinct (law, value, carrier)")
	var nums []any
	for _, z := range common.BoundaryInts() {
		nums = append(nums, common.NormInt(z))
	}
	for _, f := range common.InterestingFloats() {
		nums = append(nums, f)
	}
	for i := 0; i < ctx.N(8000, 100000); i++ {
		if i%2 == 0 {
			nums = append(nums, randBigish(r))
		} else {
			nums = append(nums, common.RandFloat(r))
		}
	}
	for _, n := range nums {
		if f, ok := n.(float64); ok && (math.IsNaN(f) || math.IsInf(f, 0)) {
			continue
		}
		for _, c := range common.Carriers(n) {
			law := fmt.Sprintf("tostring-tonumber(%T)", c)
			o.checkAs(norc, law, "tostring-tonumber", `(tostring | tonumber) == .`, c)
			o.checkAs(norc, fmt.Sprintf("tojson-fromjson(%T)", c), "tojson-fromjson", `(tojson | fromjson) == .`, c)
		}
	}
	norc.Samples = []string{"9223372036854775808 | tostring | tonumber", "5e-324 | tostring | tonumber", "1e21 (float64) | tostring | tonumber"}

	// ---------------- instants -----------------------------------------------------------
	dorc := ctx.NewOracle("date-laws", "todate|fromdate==. and gmtime|mktime==. on whole seconds within years 1..9999 (-62135596800 .. 253402300799), carried by int and by float64: epoch, both ends, every leap/century/year boundary of 36 spread years, 32-bit ends, +-1e11, random instants and random day boundaries; distinct = distinct (law, instant, carrier)")
	var secs []int
	for _, t := range boundarySeconds() {
		if t >= year1Start && t <= year9999End {
			secs = append(secs, t)
		}
	}
	for i := 0; i < ctx.N(20000, 300000); i++ {
		secs = append(secs, randSeconds(r, true))
	}
	for i, t := range secs {
		var in any = t
		if i%4 == 3 {
			in = float64(t)
		}
		o.check(dorc, "gmtime-mktime", `(gmtime | mktime) == .`, in, nil, nil)
		o.check(dorc, "todate-fromdate", `(todate | fromdate) == .`, in, nil, nil)
	}
	dorc.Samples = []string{"-62135596800 | todate | fromdate  (D10: fails)", "253402300799 | gmtime | mktime", "951782400 | todate | fromdate (2000-02-29)"}

	for _, orc := range ctx.Res.Oracles {
		orc.Distinct = len(o.distinct[orc])
	}
}

// checkAs is check with a display name that carries the carrier type but a stable law key.
func (o *oracleRun) checkAs(orc *common.Oracle, display, law, src string, in any) {
	before := orc.Distribution[law]
	o.check(orc, law, src, in, nil, nil)
	if before == 0 {
		delete(orc.Distribution, law)
	} else {
		orc.Distribution[law] = before
	}
	orc.Distribution[display]++
}

// replayFile re-runs one recorded law instance (bin/check C13 --replay FILE) from its wire forms.
func replayFile(ctx *common.Ctx, path string) {
	b, err := os.ReadFile(path)
	if err != nil {
		ctx.Errorf("replay: %v", err)
		return
	}
	var f struct {
		Key    string `json:"key"`
		Replay struct {
			Law   string            `json:"law"`
			Query string            `json:"query"`
			Input string            `json:"input_wire"`
			Vars  map[string]string `json:"vars_wire"`
		} `json:"replay"`
	}
	if err := json.Unmarshal(b, &f); err != nil || f.Replay.Query == "" {
		ctx.Errorf("replay: %s is not a C13 law replay (%v)", path, err)
		return
	}
	in, err := common.ParseWire(f.Replay.Input)
	if err != nil {
		ctx.Errorf("replay: input_wire: %v", err)
		return
	}
	var names []string
	for n := range f.Replay.Vars {
		names = append(names, n)
	}
	sort.Strings(names)
	vals := make([]any, len(names))
	for i, n := range names {
		if vals[i], err = common.ParseWire(f.Replay.Vars[n]); err != nil {
			ctx.Errorf("replay: vars_wire[%s]: %v", n, err)
			return
		}
	}
	orc := ctx.NewOracle("replay", "one recorded law instance re-evaluated on the real code")
	o := &oracleRun{ctx, map[*common.Oracle]map[string]bool{}}
	ok := o.check(orc, f.Replay.Law, f.Replay.Query, in, names, vals)
	orc.Distinct = 1
	ctx.Res.Notes = append(ctx.Res.Notes, fmt.Sprintf("replay of %s: law holds now = %v", f.Key, ok))
}

package main

import (
	"fmt"
	"math/big"
	"strings"
	"unicode/utf8"

	"github.com/itchyny/gojq"

	"verifharness/common"
)

// ---------- running queries through the public API --------------------------------------------

type query struct {
	src  string
	code *gojq.Code
}

var qcache = map[string]*query{}

// q compiles (once) a query with the given variable names.
func q(src string, vars ...string) *query {
	key := src + "\x00" + strings.Join(vars, ",")
	if c, ok := qcache[key]; ok {
		return c
	}
	p, err := gojq.Parse(src)
	if err != nil {
		panic(fmt.Sprintf("parse %q: %v", src, err))
	}
	c, err := gojq.Compile(p, gojq.WithVariables(vars))
	if err != nil {
		panic(fmt.Sprintf("compile %q: %v", src, err))
	}
	qc := &query{src, c}
	qcache[key] = qc
	return qc
}

// first returns the first output (or the error) of the query on a private copy of the input.
func (qc *query) first(in any, vals ...any) (v any, err error) {
	defer func() {
		if r := recover(); r != nil {
			v, err = nil, fmt.Errorf("PANIC: %v", r)
		}
	}()
	it := qc.code.Run(common.DeepCopy(in), vals...)
	x, ok := it.Next()
	if !ok {
		return nil, fmt.Errorf("EMPTY")
	}
	if e, ok := x.(error); ok {
		return nil, e
	}
	return x, nil
}

// ---------- byte strings of every class -------------------------------------------------------

// interesting UTF-8 / non-UTF-8 fragments: boundary code points of each width, surrogate and
// overlong encodings, out-of-range, truncated sequences, stray continuation and lead bytes.
var fragments = []string{
	"a", "z", "A", "Z", "0", "9", "-", "_", ".", "~", " ", "+", "%", "=", "/", "?", "&", ":", ";", "@", "$", ",", "!", "*", "'", "(", ")", "#", "[", "]",
	"\x00", "\x01", "\t", "\n", "\r", "\x1f", "\x7f", "\"", "\\", "<", ">",
	"\u0080", "\u00e9", "\u07ff", "\u0800", "\u6f22", "\ud7ff", "\ue000", "\ufffd", "\uffff", "\U00010000", "\U0001f600", "\U0010ffff", "\u0301",
	"\x80", "\xbf", "\xc0", "\xc1", "\xc2", "\xdf", "\xe0", "\xed", "\xef", "\xf0", "\xf4", "\xf5", "\xff",
	"\xed\xa0\x80", "\xed\xbf\xbf", "\xc0\x80", "\xe0\x80\x80", "\xe0\x9f\xbf", "\xf0\x80\x80\x80", "\xf0\x8f\xbf\xbf", "\xf4\x90\x80\x80",
	"\xe6\xbc", "\xf0\x9f", "\xf0\x9f\x98", "\xc3", "%2B", "%20", "%zz", "%4", "%e3%81%82", "==", "=", "aa", "ab", "aXa",
}

func randBytes(r *common.Rand, maxLen int) string {
	switch r.Intn(8) {
	case 0:
		return common.Pick(r, common.UniverseStrings())
	case 1:
		return common.RandString(r, true)
	case 2: // raw random bytes
		n := r.Intn(maxLen + 1)
		b := make([]byte, n)
		for i := range b {
			b[i] = byte(r.Intn(256))
		}
		return string(b)
	default:
		n := r.Intn(maxLen + 1)
		var sb strings.Builder
		for i := 0; i < n; i++ {
			sb.WriteString(common.Pick(r, fragments))
		}
		return sb.String()
	}
}

func randValidString(r *common.Rand, maxLen int) string {
	for {
		s := randBytes(r, maxLen)
		if utf8.ValidString(s) {
			return s
		}
	}
}

// every byte string of length <= 1, and all (thorough) or a sample (quick) of length 2.
func shortByteStrings(ctx *common.Ctx) []string {
	out := []string{""}
	for a := 0; a < 256; a++ {
		out = append(out, string([]byte{byte(a)}))
	}
	if ctx.Thorough {
		for a := 0; a < 256; a++ {
			for b := 0; b < 256; b++ {
				out = append(out, string([]byte{byte(a), byte(b)}))
			}
		}
		return out
	}
	for i := 0; i < 3000; i++ {
		out = append(out, string([]byte{byte(ctx.R.Intn(256)), byte(ctx.R.Intn(256))}))
	}
	return out
}

const b64alphabet = "ABCDEFGHIJKLMNOPQRSTUVWXYZabcdefghijklmnopqrstuvwxyz0123456789+/"

// inputs for @base64d: alphabet runs of every length class, padding anywhere, CR/LF, foreign bytes
func randB64Input(r *common.Rand) string {
	n := r.Intn(14)
	var sb strings.Builder
	for i := 0; i < n; i++ {
		switch r.Intn(14) {
		case 0:
			sb.WriteByte('=')
		case 1:
			sb.WriteByte(common.Pick(r, []byte{'\n', '\r'}))
		case 2:
			sb.WriteByte(common.Pick(r, []byte{' ', '-', '_', '!', '.', 0, 0x80, 0xff, '@', '[', '`', '{', ':'}))
		default:
			sb.WriteByte(b64alphabet[r.Intn(64)])
		}
	}
	return sb.String()
}

// inputs for @urid: escapes (both hex cases), stray and truncated `%`, `+`, foreign bytes
func randURIInput(r *common.Rand) string {
	n := r.Intn(8)
	var sb strings.Builder
	for i := 0; i < n; i++ {
		switch r.Intn(10) {
		case 0, 1, 2:
			sb.WriteByte('%')
			for j, m := 0, r.Intn(3); j < m; j++ {
				sb.WriteByte("0123456789abcdefABCDEFgG%+ "[r.Intn(27)])
			}
		case 3:
			sb.WriteByte('+')
		case 4:
			sb.WriteByte('%')
		default:
			sb.WriteString(common.Pick(r, fragments))
		}
	}
	return sb.String()
}

// ---------- integers and instants ---------------------------------------------------------------

const (
	year1Start  = -62135596800 // 0001-01-01T00:00:00Z
	year9999End = 253402300799 // 9999-12-31T23:59:59Z
)

// boundary instants: epoch, year 1 / 9999 ends, leap days, century rules, 2038, year boundaries
func boundarySeconds() []int {
	base := []int{0, -1, 1, 59, 60, 3599, 3600, 86399, 86400, -86400, -86401,
		year1Start, year1Start + 1, year1Start + 86399, year1Start + 86400, year9999End, year9999End - 1, year9999End - 86399, year9999End - 86400,
		951782400, 951868799, 951868800, // 2000-02-29
		1709164800, 1709251199, 1709251200, // 2024-02-29 .. 03-01
		-2203891200, -2203977600, // 1900-03-01, 1900-02-28 (no leap day)
		4107542400, 4107456000, // 2100-03-01, 2100-02-28
		13574563200,                         // 2400-02-29
		2147483647, 2147483648, -2147483648, // 32-bit ends
		946684799, 946684800, // 1999/2000
		-62135596800 + 31536000, // 0002-01-01
		-12219292800,            // 1582-10-15
		-11644473600,            // 1601-01-01
		100000000000, -100000000000, 99999999999, -99999999999,
	}
	// every year boundary of a spread of years: Dec 31 23:59:59 / Jan 1 00:00:00
	for _, y := range []int{1, 2, 3, 4, 5, 99, 100, 101, 399, 400, 401, 1000, 1582, 1600, 1699, 1700, 1899, 1900, 1901, 1969, 1970, 1971, 1972, 1999, 2000, 2001, 2023, 2024, 2025, 2099, 2100, 2101, 2400, 5138, 9998, 9999} {
		d := daysFromCivilGo(y, 1, 1)
		base = append(base, d*86400, d*86400-1, d*86400+86399)
		base = append(base, daysFromCivilGo(y, 3, 1)*86400, daysFromCivilGo(y, 3, 1)*86400-1, daysFromCivilGo(y, 12, 31)*86400+86399)
	}
	return base
}

// independent day count (used only to BUILD inputs, never to judge an answer)
func daysFromCivilGo(y, m, d int) int {
	if m <= 2 {
		y--
	}
	era := y / 400
	if y < 0 {
		era = (y - 399) / 400
	}
	yoe := y - era*400
	mp := m - 3
	if m <= 2 {
		mp = m + 9
	}
	doy := (153*mp+2)/5 + d - 1
	doe := yoe*365 + yoe/4 - yoe/100 + doy
	return era*146097 + doe - 719468
}

func randSeconds(r *common.Rand, inYears bool) int {
	switch r.Intn(6) {
	case 0:
		for {
			t := common.Pick(r, boundarySeconds()) + r.Range(-2, 2)
			if !inYears || t >= year1Start && t <= year9999End {
				return t
			}
		}
	case 1:
		return r.Range(-100000000000, 100000000000)%4000000000 + 0 // recent centuries
	case 2: // around a random day boundary
		d := r.Range(year1Start/86400, year9999End/86400)
		return d*86400 + common.Pick(r, []int{0, 1, 86399, 43200, 3600, 59})
	default:
		if inYears {
			return r.Range(year1Start, year9999End)
		}
		return r.Range(-100000000000, 260000000000)
	}
}

func randBigish(r *common.Rand) any {
	z := common.RandInt(r)
	return common.NormInt(z)
}

func bigOf(v any) *big.Int {
	switch v := v.(type) {
	case int:
		return big.NewInt(int64(v))
	case *big.Int:
		return v
	}
	return nil
}

// ---------- nested values with awkward keys ---------------------------------------------------

var awkwardKeys = []string{"", "a", "b", "key", "value", "name", "k", "v", "Key", "Value", "Name", "0", "1", "-1", "é", "漢字", "😀", "a b", "a\"b", "a\\b", "\n", "\t", "\x00", "\x7f", " ", "<&>", "null", "true", "start", "end", "\xff", "a\xc3"}

func randKey(r *common.Rand) string {
	if r.Chance(3, 4) {
		return common.Pick(r, awkwardKeys)
	}
	return randBytes(r, 3)
}

// randNested draws a nested value: empty containers at the root and nested, awkward keys,
// strings of every byte class, numbers of every carrier class (no NaN/Inf).
func randNested(r *common.Rand, depth int) any {
	k := r.Intn(12)
	if depth >= 4 && k >= 6 {
		k = r.Intn(6)
	}
	switch k {
	case 0:
		return nil
	case 1:
		return r.Bool()
	case 2, 3:
		return common.RandNumber(r, common.GenOpts{Floats: true, BigInts: true})
	case 4, 5:
		return randBytes(r, 4)
	case 6, 7, 8:
		n := r.Intn(4)
		if r.Chance(1, 5) {
			n = 0
		}
		xs := make([]any, n)
		for i := range xs {
			xs[i] = randNested(r, depth+1)
		}
		return xs
	default:
		n := r.Intn(4)
		if r.Chance(1, 5) {
			n = 0
		}
		m := make(map[string]any, n)
		for i := 0; i < n; i++ {
			m[randKey(r)] = randNested(r, depth+1)
		}
		return m
	}
}

// C19 — no ambient authority by default; each compile option grants exactly its own.
//
// correspondence stream `options` (real option.go / RunWithContext vs Model/Options.lean):
//
//	mask <argc> <k> (<min> <max> <iter>)*k   registrations of one name, then a call
//	vars <n> <names> <m>                     WithVariables names, m values passed to Run
//
// correspondence stream `ambientfree` (ambientfree.go; static hypothesis of Props/C19VM.lean):
//
//	<op|tgt|arg …>                           VerifCodes dump of a program compiled WITHOUT options
//
// oracles (model-free):
//
//	ambient  — generated programs over all builtins, compiled WITHOUT options, run in child
//	           processes (this binary re-executed with VERIF_C19_CHILD) under differing
//	           environments, working directories and stdin: outputs byte-identical; env/$ENV
//	           are {}; input/inputs/import/include fail to compile
//	options  — WithVariables order and count errors, WithInputIter one value per call in
//	           order, WithEnvironLoader pairs are what env/$ENV show
//	custom   — a Go callback vs the jq definition with the same relation and the built-in
//	           argument order, across calling contexts (paths, try, backtracking, reduce/
//	           foreach, limit/first, label/break, update RHS); only `builtins` differs
package main

import (
	"bufio"
	"bytes"
	"encoding/json"
	"fmt"
	"os"
	"os/exec"
	"path/filepath"
	"sort"
	"strings"
	"time"

	"github.com/itchyny/gojq"

	"verifharness/common"
)

type program struct {
	Q    string   `json:"q"`
	I    string   `json:"i"`
	B    string   `json:"b"`           // builtin under test (for the violation key)
	L    []string `json:"l,omitempty"` // when HasL: compiled with WithModuleLoader(NewModuleLoader(L))
	HasL bool     `json:"hasl,omitempty"`
}

func decodeInput(s string) any {
	dec := json.NewDecoder(strings.NewReader(s))
	dec.UseNumber()
	var v any
	if err := dec.Decode(&v); err != nil {
		panic(fmt.Sprintf("bad input %q: %v", s, err))
	}
	return normalize(v)
}

func normalize(v any) any {
	switch v := v.(type) {
	case json.Number:
		return common.NormalizeNumber(v)
	case []any:
		for i := range v {
			v[i] = normalize(v[i])
		}
	case map[string]any:
		for k := range v {
			v[k] = normalize(v[k])
		}
	}
	return v
}

func outcomeLine(q string, input any, opts ...gojq.CompilerOption) string {
	o := func() (o common.Outcome) {
		defer func() {
			if r := recover(); r != nil {
				o.Panic = fmt.Sprint(r)
			}
		}()
		query, err := gojq.Parse(q)
		if err != nil {
			o.ParseErr = err
			return
		}
		code, err := gojq.Compile(query, opts...)
		if err != nil {
			o.CompErr = err
			return
		}
		return common.RunCode(code, input, 60000, 12)
	}()
	s := common.CanonOutcome(o)
	if o.CompErr != nil {
		s += " " + common.Hex(o.CompErr.Error())
	}
	if o.Panic != "" {
		s += " " + common.Hex(o.Panic)
	}
	return s
}

// childMain: run every program of the file without any compiler option.
func childMain(path string) {
	f, err := os.Open(path)
	if err != nil {
		fmt.Fprintln(os.Stderr, err)
		os.Exit(3)
	}
	defer f.Close()
	w := bufio.NewWriter(os.Stdout)
	defer w.Flush()
	sc := bufio.NewScanner(f)
	sc.Buffer(make([]byte, 1<<20), 1<<26)
	for sc.Scan() {
		var p program
		if err := json.Unmarshal(sc.Bytes(), &p); err != nil {
			fmt.Fprintln(os.Stderr, err)
			os.Exit(3)
		}
		if p.HasL {
			fmt.Fprintln(w, outcomeLine(p.Q, decodeInput(p.I), gojq.WithModuleLoader(gojq.NewModuleLoader(p.L))))
			continue
		}
		fmt.Fprintln(w, outcomeLine(p.Q, decodeInput(p.I)))
	}
}

// ---------------------------------------------------------------- program generation

var inputsPool = []string{
	`null`, `true`, `0`, `1`, `-1.5`, `1000`, `1425599621`, `1425599621.678`, `"abc"`, `"a,b, c"`, `"2015-03-05T23:51:47Z"`, `""`,
	`[1,2,3]`, `["a","b","a"]`, `[2015,2,5,23,51,47,4,63]`, `[[1,2],[3,4]]`, `{"a":1,"b":[1,2]}`, `{"a":{"b":null}}`,
	`[{"a":1,"b":2},{"a":2,"b":1}]`, `"10:20"`, `"1 2"`, `"%41 b"`, `"aGVsbG8="`, `[3,1,2]`, `"Thu, 05 Mar 2015 23:51:47 +0900"`, `[null,false,0,"",[],{}]`,
	`"\u00e9x\ud83d\ude00"`, `{"k":"v","n":[{"x":1}]}`, `[0,1,[2,[3]]]`, `1e300`, `-0`, `"12"`, `"1.5e2"`, `[1,[2]]`,
}

var argsPool = []string{
	".", ".[0]?", ".a?", "1", "0", "-1", "2", `"a"`, `""`, `"%Y-%m-%dT%H:%M:%SZ"`, "null", "true", "[]", "[1,2]", "{}", `{"a":1}`,
	".[]?", "(1,2)", "empty", "(length? // 0)", "type", "tostring", `["a"]`, `"^a"`, `"g"`, `", "`, "(.. | numbers)", `"b"`, "3", "(. == 1)", `"x"`,
	`[["a"]]`, "not", "keys?", `"%A, %B %d, %Y"`, "10", `"days"`, "(.a? // .)", `"."`,
}

var skipBuiltins = map[string]bool{
	"now/0": true, "localtime/0": true, "strflocaltime/1": true, "input/0": true, "inputs/0": true, "halt/0": true,
	"halt_error/0": true, "halt_error/1": true, "debug/0": true, "debug/1": true, "stderr/0": true, "input_filename/0": true,
	"env/0": true, "input_line_number/0": true, "builtins/0": true,
	// date helpers defined through the excluded functions
	"localtime/1": true, "date/0": true, "todate/1": true,
}

func builtinList() []string {
	q, _ := gojq.Parse("builtins")
	code, err := gojq.Compile(q)
	if err != nil {
		panic(err)
	}
	v, _ := code.Run(nil).Next()
	var out []string
	for _, x := range v.([]any) {
		out = append(out, x.(string))
	}
	sort.Strings(out)
	return out
}

var operatorPrograms = []string{
	". + 1", ". - 1", ". * 2", ". / 2", ". % 2", ". == 1", ". < [1]", ". and true", ". or false", ". // 1", "..", ".[]?", ".[1:]?", ".[:-1]?", ".a?", `.["a"]?`,
	"-(.)", "[.[]?] | length", "{a: .}", `"x\(.)y"`, "@base64", "@base64d", "@uri", "@urid", "@csv", "@tsv", "@html", "@sh", "@json", "@text", "@base32", "@base32d",
	"reduce .[]? as $x (0; . + 1)", "foreach .[]? as $x (0; . + 1; [$x, .])", "label $l | .[]? | ., break $l", "try error(.) catch .", "if . then 1 elif . == null then 2 else 3 end",
	". as [$a, $b] | [$b, $a]", ". as {a: $x} ?// [$x] | $x", ".[]? |= . ", ".a? = 1", ". |= (.. |= .)", "del(.[0]?)", "to_entries?", "path(..)", "[paths]", "[leaf_paths]",
	"tojson | fromjson", "[limit(3; repeat(.))]", "first(range(10; 0; -3))", "[range(0; 10; 3)]", "input_line_number", `"a" | modulemeta`, "$__prog_args?", "getpath([\"a\",\"b\"])?",
	"[splits(\", *\")]?", "ascii_downcase?", "@json \"v=\\(.)\"", "tostream", "[tostream] | fromstream(.[])", "limit(0; 1, 2)", "[.[]?] | sort", "[.[]?] | unique", "group_by(.a?)?", "min_by(.a?)?",
	"mktime?", "gmtime?", "todate?", "fromdate?", "dateadd(\"seconds\"; 10)?", "strftime(\"%Y-%m-%dT%H:%M:%SZ\")?", "strftime(\"%Z %z %c\")?", "strptime(\"%Y-%m-%dT%H:%M:%SZ\")?", "strptime(\"%a, %d %b %Y %H:%M:%S %z\")?",
	"todateiso8601?", "fromdateiso8601?", "dateadd(\"days\"; 1)?", "datesub(\"days\"; 1)?", "date?", "gmtime? | mktime", "strptime(\"%Y-%m-%dT%H:%M:%SZ\")? | mktime",
}

var envProbes = []struct{ q, want string }{
	{"env", "{ } ; END"}, {"$ENV", "{ } ; END"}, {"env | length", "i0 ; END"}, {"$ENV | keys", "[ ] ; END"}, {"env.HOME", "n ; END"}, {"$ENV.PATH", "n ; END"},
	{`env | getpath(["HOME"])`, "n ; END"}, {`$ENV | getpath(["TZ"])`, "n ; END"}, {"[env[]]", "[ ] ; END"}, {`env | has("PATH")`, "f ; END"}, {`$ENV | to_entries`, "[ ] ; END"},
	{`env | getpath(["VERIF_C19_SECRET"])`, "n ; END"}, {`[$ENV | paths]`, "[ ] ; END"}, {`env == {}`, "t ; END"}, {`$ENV == env`, "t ; END"},
}

var compileRejects = []struct{ q, msg string }{
	{"input", "input(s)/0 is not allowed"}, {"inputs", "input(s)/0 is not allowed"}, {"first(inputs)", "input(s)/0 is not allowed"}, {"[., input]", "input(s)/0 is not allowed"},
	{"try input catch 1", "input(s)/0 is not allowed"}, {"def f: input; 1", "input(s)/0 is not allowed"},
	{`import "a" as a; .`, "cannot load module"}, {`include "a"; .`, "cannot load module"}, {`import "a" as $a; .`, "cannot load module"},
	{`import "a" as a {search: "."}; a::f`, "cannot load module"}, {`include ".jq"; .`, "cannot load module"}, {`import "/etc/passwd" as $p; $p`, "cannot load module"},
}

func genPrograms(ctx *common.Ctx) []program {
	r := ctx.R
	var ps []program
	per := ctx.N(7, 40)
	for _, b := range builtinList() {
		if skipBuiltins[b] || strings.HasPrefix(b, "_") {
			continue
		}
		i := strings.LastIndex(b, "/")
		name := b[:i]
		var arity int
		fmt.Sscan(b[i+1:], &arity)
		for k := 0; k < per; k++ {
			call := name
			if arity > 0 {
				as := make([]string, arity)
				for j := range as {
					as[j] = common.Pick(r, argsPool)
				}
				call += "(" + strings.Join(as, "; ") + ")"
			}
			if strings.HasPrefix(name, "strptime") {
				call = name + `("%Y-%m-%dT%H:%M:%SZ")` // no zone names
			}
			q := call
			switch r.Intn(6) {
			case 0:
				q = "[" + call + "]"
			case 1:
				q = "try " + call + " catch ."
			case 2:
				q = ".[]? | " + call
			case 3:
				q = "[limit(5; " + call + ")]"
			}
			ps = append(ps, program{Q: q, I: common.Pick(r, inputsPool), B: b})
		}
	}
	for _, q := range operatorPrograms {
		for k := 0; k < ctx.N(6, 30); k++ {
			ps = append(ps, program{Q: q, I: common.Pick(r, inputsPool), B: "op:" + q})
		}
	}
	for _, e := range envProbes {
		ps = append(ps, program{Q: e.q, I: "null", B: "env"})
	}
	for _, c := range compileRejects {
		ps = append(ps, program{Q: c.q, I: "null", B: "reject"})
	}
	// a module loader grants its directories and nothing else: with no usable directory (empty
	// entries, a home-relative entry that does not exist or cannot be resolved, a missing
	// directory) no file of the working directory or of $HOME may be found
	for _, paths := range [][]string{{}, {""}, {"", ""}, {"", "/nonexistent-verif-dir"}, {"~/verif-no-such-subdir"}, {"/nonexistent-verif-dir"}, {"$ORIGIN/verif-no-such-subdir"}} {
		for _, q := range []string{`import "a" as a; a::f`, `include "a"; f`, `import "a" as $d; $d`, `"a" | modulemeta`, `import "a" as a {search: ""}; a::f`, `include "a" {search: "/nonexistent-verif-dir"}; f`} {
			ps = append(ps, program{Q: q, I: "null", B: "loader-grant", L: paths, HasL: true})
		}
	}
	// sanity of the harness: the excluded functions DO see the variation
	ps = append(ps, program{Q: "0 | localtime", I: "null", B: "sanity:tz"}, program{Q: "0 | strflocaltime(\"%H %Z\")", I: "null", B: "sanity:tz"})
	return ps
}

// ---------------------------------------------------------------- ambient oracle

type variant struct {
	name  string
	env   []string
	dir   string
	stdin []byte
}

func runChild(v variant, progFile string) ([]string, error) {
	cmd := exec.Command(os.Args[0])
	cmd.Env = append(append([]string{}, v.env...), "VERIF_C19_CHILD="+progFile)
	cmd.Dir = v.dir
	cmd.Stdin = bytes.NewReader(v.stdin)
	var out, errb bytes.Buffer
	cmd.Stdout, cmd.Stderr = &out, &errb
	if err := cmd.Start(); err != nil {
		return nil, err
	}
	done := make(chan error, 1)
	go func() { done <- cmd.Wait() }()
	select {
	case err := <-done:
		if err != nil {
			return nil, fmt.Errorf("child %s: %v: %s", v.name, err, errb.String())
		}
	case <-time.After(10 * time.Minute):
		cmd.Process.Kill()
		return nil, fmt.Errorf("child %s: timeout", v.name)
	}
	return strings.Split(strings.TrimRight(out.String(), "\n"), "\n"), nil
}

func ambientOracle(ctx *common.Ctx) {
	orc := ctx.NewOracle("ambient", "generated programs over every builtin (name/arity from `builtins`, except now/localtime/strflocaltime/input*/halt*/debug/stderr/env) plus operator, format and date programs, compiled without options in child processes under 4 environments (TZ, HOME with a hostile ~/.jq, extra variables), working directories (with a.jq / a.json present) and stdin contents: canonical outcomes must be byte-identical; env/$ENV probes must show {}; input/inputs/import/include must fail to compile; with a module loader that was given no existing directory (empty, unresolvable or missing entries) nothing may be found either; distinct = distinct (program, input) pairs")
	progs := genPrograms(ctx)
	tmp, err := os.MkdirTemp("", "verif-c19-")
	if err != nil {
		panic(err)
	}
	defer os.RemoveAll(tmp)
	progFile := filepath.Join(tmp, "programs.jsonl")
	var sb strings.Builder
	for _, p := range progs {
		b, _ := json.Marshal(p)
		sb.Write(b)
		sb.WriteByte('\n')
	}
	os.WriteFile(progFile, []byte(sb.String()), 0o644)
	dirA, dirB := filepath.Join(tmp, "a", "sub"), filepath.Join(tmp, "b")
	os.MkdirAll(dirA, 0o755)
	os.MkdirAll(filepath.Join(dirB, ".jq"), 0o755)
	homeB := filepath.Join(tmp, "homeb")
	os.MkdirAll(homeB, 0o755)
	os.WriteFile(filepath.Join(homeB, ".jq"), []byte(`def length: "hijacked"; def keys: "hijacked"; def env: {"hijacked": 1};`), 0o644)
	os.WriteFile(filepath.Join(dirB, "a.jq"), []byte(`def f: "from a.jq";`), 0o644)
	os.WriteFile(filepath.Join(dirB, "a.json"), []byte(`{"from": "a.json"}`), 0o644)
	os.WriteFile(filepath.Join(dirB, ".jq", "a.jq"), []byte(`def f: "from .jq/a.jq";`), 0o644)
	extra := []string{}
	for i := 0; i < 20; i++ {
		extra = append(extra, fmt.Sprintf("VERIF_X%d=%d", ctx.R.Intn(1000), ctx.R.Intn(1000)))
	}
	variants := []variant{
		{"utc", []string{"TZ=UTC", "HOME=/nonexistent", "PATH=/usr/bin"}, dirA, nil},
		{"tokyo", append([]string{"TZ=Asia/Tokyo", "HOME=" + homeB, "PATH=/bin", "LANG=ja_JP.UTF-8", "VERIF_C19_SECRET=s3cret", "JQ_COLORS=1;31", "GOJQ_COLORS=1;31", "NO_COLOR=1", "GOJQ_DEBUG=1", "ORIGIN=" + dirB}, extra...), dirB, []byte("{\"stdin\": 1}\n[1,2]\n\"more\"\n")},
		{"newyork", []string{"TZ=America/New_York", "LC_ALL=C", "VERIF_C19_SECRET=other", "PATH="}, "/", []byte{0xff, 0xfe, 0x00, '{', '[', '\n'}},
		{"notz", append([]string{"HOME=" + dirB, "USER=nobody", "TMPDIR=" + tmp}, extra[:5]...), filepath.Join(tmp, "a"), []byte("1 2 3")},
	}
	results := make([][]string, len(variants))
	for i, v := range variants {
		res, err := runChild(v, progFile)
		if err != nil {
			ctx.Errorf("ambient oracle: %v", err)
			return
		}
		if len(res) != len(progs) {
			ctx.Errorf("ambient oracle: child %s answered %d of %d programs", v.name, len(res), len(progs))
			return
		}
		results[i] = res
	}
	distinct := map[string]bool{}
	wantEnv := map[string]string{}
	for _, e := range envProbes {
		wantEnv[e.q] = e.want
	}
	wantRej := map[string]string{}
	for _, c := range compileRejects {
		wantRej[c.q] = c.msg
	}
	for k, p := range progs {
		orc.Cases += len(variants)
		distinct[p.Q+"\x00"+p.I] = true
		first := results[0][k]
		cls := "ok"
		switch {
		case strings.HasSuffix(first, "END"):
			cls = "outputs"
		case strings.Contains(first, "ERR"):
			cls = "error"
		case strings.Contains(first, "BUDGET"):
			cls = "budget"
		case strings.HasPrefix(first, "COMPILEERR"):
			cls = "compile-error"
		case strings.HasPrefix(first, "PARSEERR"):
			cls = "parse-error"
		case strings.Contains(first, "PANIC"):
			cls = "panic"
		}
		orc.Distribution[cls]++
		if p.B == "sanity:tz" {
			if results[1][k] != first {
				orc.Distribution["sanity:TZ-variation-visible-to-localtime"]++
			} else {
				ctx.Errorf("ambient oracle: the TZ variation is not effective (%s gives %s in every child)", p.Q, first)
			}
			continue
		}
		for i := 1; i < len(variants); i++ {
			if results[i][k] != first {
				ctx.Violate("ambient:"+p.B, fmt.Sprintf("`%s` on %s compiled without options gives different results under different environments (%s vs %s)", p.Q, p.I, variants[0].name, variants[i].name),
					map[string]any{"query": p.Q, "input": p.I, "env_a": variants[0].env, "env_b": variants[i].env, "observed_a": first, "observed_b": results[i][k],
						"cmd": "library use: gojq.Compile(query) without options, run under both environments"})
				break
			}
		}
		if w, ok := wantEnv[p.Q]; ok && p.B == "env" && first != w {
			ctx.Violate("ambient:env-not-empty:"+p.Q, fmt.Sprintf("`%s` without WithEnvironLoader gives %s, expected %s", p.Q, first, w), map[string]any{"query": p.Q, "observed": first, "expected": w})
		}
		if m, ok := wantRej[p.Q]; ok && p.B == "reject" {
			msg := ""
			if strings.HasPrefix(first, "COMPILEERR ") {
				msg = common.UnHex(strings.TrimPrefix(first, "COMPILEERR "))
			}
			if !strings.Contains(msg, m) {
				ctx.Violate("ambient:not-rejected:"+p.Q, fmt.Sprintf("`%s` without options: %s %q, expected a compile error containing %q", p.Q, first, msg, m), map[string]any{"query": p.Q, "observed": first + " " + msg})
			}
		}
		if p.B == "loader-grant" && cls == "outputs" {
			ctx.Violate("ambient:loader-grant:"+p.Q+fmt.Sprint(p.L), fmt.Sprintf("`%s` with NewModuleLoader(%q) finds a module although no existing directory was granted: %s", p.Q, p.L, first),
				map[string]any{"query": p.Q, "loader_paths": p.L, "working_directory": variants[0].dir, "observed": first})
		}
		if cls == "panic" {
			ctx.Violate("ambient:panic:"+p.B, fmt.Sprintf("`%s` on %s panics: %s", p.Q, p.I, first), map[string]any{"query": p.Q, "input": p.I, "observed": first})
		}
	}
	orc.Distinct = len(distinct)
	orc.Samples = []string{progs[0].Q + " on " + progs[0].I + " => " + results[0][0], progs[len(progs)/2].Q + " on " + progs[len(progs)/2].I + " => " + results[0][len(progs)/2]}
}

// ---------------------------------------------------------------- options oracle + stream

func firstTwo(it gojq.Iter) (v1 any, ok1 bool, v2 any, ok2 bool, panicked string) {
	defer func() {
		if r := recover(); r != nil {
			panicked = fmt.Sprint(r)
		}
	}()
	v1, ok1 = it.Next()
	v2, ok2 = it.Next()
	return
}

func optionsChecks(ctx *common.Ctx) {
	r := ctx.R
	st := ctx.NewStream("options", "Gojq.Options.applyOptions / call (withFunction mask arithmetic and wrapper chain), Gojq.Options.start (RunWithContext count check, execute push order, opstore prologue)",
		"mask: 1–4 registrations of one name with random arity ranges in −1..32 (valid, invalid, overlapping, iterator/non-iterator mixes) and a call with 0..33 arguments; vars: 0–5 names (sometimes repeated) and 0–7 values; distinct = distinct implementation answers")
	orc := ctx.NewOracle("options", "WithVariables: i-th value is what the i-th name shows, too few/many values give one error value and no panic; WithInputIter: `input` draws one value per call in order (9 templates incl. backtracking, limit, first); WithEnvironLoader: env/$ENV show exactly the loader's well-formed pairs")
	var lines, impl []string
	// ---- mask ------------------------------------------------------------------------------
	for k := 0; k < ctx.N(1500, 20000); k++ {
		nreg := r.Range(1, 4)
		type reg struct {
			mn, mx int
			iter   bool
		}
		regs := make([]reg, nreg)
		iter0 := r.Chance(1, 4)
		for i := range regs {
			mn := r.Range(0, 6)
			if r.Chance(1, 5) {
				mn = r.Range(24, 31)
			}
			mx := mn + r.Intn(5)
			if r.Chance(1, 12) {
				mn, mx = r.Range(-1, 32), r.Range(-1, 32)
			}
			it := iter0
			if r.Chance(1, 15) {
				it = !it
			}
			regs[i] = reg{mn, mx, it}
		}
		argc := r.Range(0, 8)
		if r.Chance(1, 4) {
			argc = r.Range(22, 33)
		}
		line := fmt.Sprintf("mask %d %d", argc, nreg)
		for _, g := range regs {
			b := 0
			if g.iter {
				b = 1
			}
			line += fmt.Sprintf(" %d %d %d", g.mn, g.mx, b)
		}
		ans := func() (ans string) {
			stage := "construct"
			defer func() {
				if rec := recover(); rec != nil {
					m := fmt.Sprint(rec)
					switch {
					case stage == "construct" && strings.Contains(m, "invalid arity"):
						ans = "panic-arity"
					case stage == "compile" && strings.Contains(m, "cannot define both"):
						ans = "panic-iter"
					default:
						ans = "PANIC " + stage + " " + m
					}
				}
			}()
			var opts []gojq.CompilerOption
			for i, g := range regs {
				id := i + 1
				if g.iter {
					opts = append(opts, gojq.WithIterFunction("cf", g.mn, g.mx, func(any, []any) gojq.Iter { return gojq.NewIter(id) }))
				} else {
					opts = append(opts, gojq.WithFunction("cf", g.mn, g.mx, func(any, []any) any { return id }))
				}
			}
			stage = "compile"
			as := make([]string, argc)
			for i := range as {
				as[i] = "0"
			}
			src := "cf"
			if argc > 0 {
				src += "(" + strings.Join(as, ";") + ")"
			}
			q, err := gojq.Parse(src)
			if err != nil {
				return "PARSEERR"
			}
			code, err := gojq.Compile(q, opts...)
			if err != nil {
				if strings.Contains(err.Error(), "function not defined: cf/") {
					return "reject"
				}
				return "COMPILEERR " + err.Error()
			}
			stage = "run"
			v, ok := code.Run(nil).Next()
			if !ok {
				return "empty"
			}
			if e, isErr := v.(error); isErr {
				return "ERR " + e.Error()
			}
			return fmt.Sprint("accept ", v)
		}()
		lines = append(lines, line)
		impl = append(impl, ans)
		st.Distribution["mask:"+strings.Fields(ans)[0]]++
		// the documented way: arities outside 0..30 panic when the option is built
		orc.Cases++
	}
	// ---- variables -------------------------------------------------------------------------
	namePool := []string{"$a", "$b", "$c", "$x1", "$long_name", "$a"}
	for k := 0; k < ctx.N(400, 5000); k++ {
		n := r.Intn(6)
		names := make([]string, n)
		for i := range names {
			names[i] = common.Pick(r, namePool)
			if !r.Chance(1, 6) {
				names[i] = fmt.Sprintf("$v%d", i)
			}
		}
		m := n
		if r.Chance(1, 2) {
			m = r.Intn(8)
		}
		vals := make([]any, m)
		for i := range vals {
			vals[i] = i + 1
		}
		// query: an object of every distinct name, in first-occurrence order
		var seen []string
		for _, nm := range names {
			dup := false
			for _, s := range seen {
				dup = dup || s == nm
			}
			if !dup {
				seen = append(seen, nm)
			}
		}
		parts := make([]string, len(seen))
		for i, nm := range seen {
			parts[i] = nm
		}
		src := "[" + strings.Join(parts, ", ") + "]"
		q, _ := gojq.Parse(src)
		code, err := gojq.Compile(q, gojq.WithVariables(names))
		if err != nil {
			ctx.Errorf("compile %s: %v", src, err)
			continue
		}
		v1, ok1, _, ok2, pan := firstTwo(code.Run(nil, vals...))
		var ans string
		switch {
		case pan != "":
			ans = "PANIC " + pan
		case !ok1:
			ans = "empty"
		default:
			if e, isErr := v1.(error); isErr {
				switch {
				case e.Error() == "too many variable values provided":
					ans = "toomany"
				case strings.HasPrefix(e.Error(), "variable defined but not bound: "):
					ans = "expected " + strings.TrimPrefix(e.Error(), "variable defined but not bound: ")
				default:
					ans = "ERR " + e.Error()
				}
				if ok2 {
					ans += " +more"
				}
			} else {
				xs := v1.([]any)
				bs := make([]string, len(xs))
				for i, x := range xs {
					bs[i] = fmt.Sprintf("%s=%v", seen[i], x)
				}
				ans = strings.TrimSpace("run " + strings.Join(bs, ","))
			}
		}
		lines = append(lines, strings.TrimSpace(fmt.Sprintf("vars %d %s", n, strings.Join(names, " ")))+fmt.Sprintf(" %d", m))
		impl = append(impl, ans)
		st.Distribution["vars:"+strings.Fields(ans)[0]]++
		// oracle: order and error values
		orc.Cases++
		switch {
		case pan != "":
			ctx.Violate("options:variables-panic", "Run with a wrong number of variable values panics: "+pan, map[string]any{"names": names, "values": m})
		case m > n && ans != "toomany", m < n && ans != "expected "+names[m]:
			ctx.Violate("options:variables-count", fmt.Sprintf("names %v with %d values: %s", names, m, ans), map[string]any{"names": names, "values": m, "observed": ans})
		case m == n:
			want := map[string]int{}
			for i, nm := range names {
				want[nm] = i + 1 // a repeated name shows its last value
			}
			bs := make([]string, len(seen))
			for i, nm := range seen {
				bs[i] = fmt.Sprintf("%s=%d", nm, want[nm])
			}
			if w := strings.TrimSpace("run " + strings.Join(bs, ",")); ans != w {
				ctx.Violate("options:variables-order", fmt.Sprintf("names %v values 1..%d: %s, expected %s", names, m, ans, w), map[string]any{"names": names, "observed": ans, "expected": w})
			}
		}
	}
	ctx.RunStream(st, lines, impl)

	// ---- input iterator --------------------------------------------------------------------
	type tmpl struct {
		q    string
		want func(vs []any) (outs []any, errAfter bool)
	}
	tmpls := []tmpl{
		{"[input, input]", func(vs []any) ([]any, bool) {
			if len(vs) < 2 {
				return nil, true
			}
			return []any{[]any{vs[0], vs[1]}}, false
		}},
		{"input as $a | input as $b | [$b, $a]", func(vs []any) ([]any, bool) {
			if len(vs) < 2 {
				return nil, true
			}
			return []any{[]any{vs[1], vs[0]}}, false
		}},
		{"[inputs]", func(vs []any) ([]any, bool) { return []any{append([]any{}, vs...)}, false }},
		{"input, [inputs]", func(vs []any) ([]any, bool) {
			if len(vs) < 1 {
				return nil, true
			}
			return []any{vs[0], append([]any{}, vs[1:]...)}, false
		}},
		{"[limit(2; inputs)], input", func(vs []any) ([]any, bool) {
			if len(vs) < 2 {
				return []any{append([]any{}, vs...)}, true
			}
			if len(vs) < 3 {
				return []any{[]any{vs[0], vs[1]}}, true
			}
			return []any{[]any{vs[0], vs[1]}, vs[2]}, false
		}},
		{"(1, 2, 3) | input", func(vs []any) ([]any, bool) {
			if len(vs) < 3 {
				return append([]any{}, vs...), true
			}
			return []any{vs[0], vs[1], vs[2]}, false
		}},
		{"first(input, input), input", func(vs []any) ([]any, bool) {
			if len(vs) < 2 {
				return append([]any{}, vs...), true
			}
			return []any{vs[0], vs[1]}, false
		}},
		{"[range(4) | try input catch \"none\"]", func(vs []any) ([]any, bool) {
			out := []any{}
			for i := 0; i < 4; i++ {
				if i < len(vs) {
					out = append(out, vs[i])
				} else {
					out = append(out, "none")
				}
			}
			return []any{out}, false
		}},
		{"reduce inputs as $x (0; . + 1)", func(vs []any) ([]any, bool) { return []any{len(vs)}, false }},
	}
	for k := 0; k < ctx.N(300, 4000); k++ {
		t := common.Pick(r, tmpls)
		n := r.Intn(6)
		vs := make([]any, n)
		for i := range vs {
			vs[i] = fmt.Sprintf("in%d", i)
			if r.Chance(1, 4) {
				vs[i] = i * 10
			}
		}
		q, _ := gojq.Parse(t.q)
		code, err := gojq.Compile(q, gojq.WithInputIter(gojq.NewIter(vs...)))
		if err != nil {
			ctx.Violate("options:inputiter-compile", fmt.Sprintf("%s does not compile with WithInputIter: %v", t.q, err), map[string]any{"query": t.q})
			continue
		}
		o := common.RunCode(code, nil, 100000, 50)
		wantOuts, wantErr := t.want(vs)
		got := common.CanonOutcome(common.Outcome{Outs: o.Outs})
		want := common.CanonOutcome(common.Outcome{Outs: wantOuts})
		orc.Cases++
		orc.Distribution["input:"+t.q]++
		if got != want || (o.Err != nil) != wantErr || o.Panic != "" {
			ctx.Violate("options:inputiter:"+t.q, fmt.Sprintf("`%s` with %d input values: %s err=%v, expected %s err=%v", t.q, n, got, o.Err, want, wantErr),
				map[string]any{"query": t.q, "inputs": vs, "observed": got, "expected": want})
		}
	}
	// ---- environ loader --------------------------------------------------------------------
	for k := 0; k < ctx.N(200, 3000); k++ {
		n := r.Intn(7)
		pairs := make([]string, n)
		want := map[string]any{}
		for i := range pairs {
			key := common.Pick(r, []string{"A", "B", "HOME", "PATH", "K1", "x y", "é"})
			val := common.Pick(r, []string{"1", "", "a=b", "/usr/bin", " ", "ü", "=", "x\ny"})
			switch r.Intn(8) {
			case 0:
				pairs[i] = key // no '=': skipped
			case 1:
				pairs[i] = "=" + val // empty key: skipped
			default:
				pairs[i] = key + "=" + val
				want[key] = val
			}
		}
		calls := 0
		loader := func() []string { calls++; return pairs }
		for _, src := range []string{"env", "$ENV", "[env, $ENV] | .[0] == .[1] and (.[0] | type) == \"object\""} {
			q, _ := gojq.Parse(src)
			code, err := gojq.Compile(q, gojq.WithEnvironLoader(loader))
			if err != nil {
				ctx.Violate("options:environ-compile", err.Error(), map[string]any{"query": src})
				continue
			}
			v, _ := code.Run(nil).Next()
			orc.Cases++
			orc.Distribution["environ"]++
			var ok bool
			if strings.HasPrefix(src, "[") {
				ok = v == true
			} else {
				gb, _ := gojq.Marshal(v)
				wb, _ := gojq.Marshal(want)
				ok = string(gb) == string(wb)
			}
			if !ok {
				gb, _ := gojq.Marshal(v)
				ctx.Violate("options:environ-pairs", fmt.Sprintf("`%s` with loader pairs %q shows %s, expected %v", src, pairs, gb, want), map[string]any{"query": src, "pairs": pairs, "observed": string(gb)})
			}
		}
	}
	orc.Distinct = orc.Cases
	orc.Samples = []string{"WithVariables([$a $b]) Run(nil, 1) -> error value `variable defined but not bound: $b`", "(1,2,3) | input with inputs in0 in1 in2 -> in0 in1 in2"}
}

func main() {
	if p := os.Getenv("VERIF_C19_CHILD"); p != "" {
		childMain(p)
		return
	}
	ctx := common.ParseFlags("C19")
	optionsChecks(ctx)
	customChecks(ctx)
	optionReuseChecks(ctx)
	builtinsOrderChecks(ctx)
	ambientOracle(ctx)
	ambientFreeStream(ctx) // stream `ambientfree` (Props/C19VM.lean), see ambientfree.go
	ctx.Finish()
}

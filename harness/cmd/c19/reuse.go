package main

// optionReuseChecks: "each option grants exactly its capability" over HISTORIES of
// compilations. A CompilerOption is a value the caller may keep and pass to many Compile
// calls, alone or together with other options, in any order. What a compilation can do must
// depend on the options passed to THAT compilation only: a pool of option values is created
// once, then a sequence of compilations each takes a random sub-list of the pool, and each is
// compared with a compilation that gets freshly built, equivalent option values.

import (
	"fmt"
	"strings"

	"github.com/itchyny/gojq"

	"verifharness/common"
)

type optSpec struct {
	kind   string // fn | iter | vars | env
	mn, mx int
	tag    string
}

func (s optSpec) String() string {
	switch s.kind {
	case "fn", "iter":
		return fmt.Sprintf("%s(cf,%d..%d,%s)", s.kind, s.mn, s.mx, s.tag)
	}
	return s.kind + "(" + s.tag + ")"
}

func (s optSpec) build() gojq.CompilerOption {
	tag := s.tag
	switch s.kind {
	case "fn":
		return gojq.WithFunction("cf", s.mn, s.mx, func(v any, args []any) any { return []any{tag, len(args)} })
	case "iter":
		return gojq.WithIterFunction("ci", s.mn, s.mx, func(v any, args []any) gojq.Iter { return gojq.NewIter[any](tag, len(args)) })
	case "vars":
		return gojq.WithVariables([]string{"$" + tag})
	default:
		return gojq.WithEnvironLoader(func() []string { return []string{"TAG=" + tag} })
	}
}

func optionReuseChecks(ctx *common.Ctx) {
	r := ctx.R.Fork(1919)
	orc := ctx.NewOracle("option-reuse", "a pool of 4–7 option values (WithFunction / WithIterFunction registrations of one name with overlapping arity ranges and distinct results, WithVariables, WithEnvironLoader) is built once; 6–12 successive compilations each take a random ordered sub-list of the pool; every compilation is probed (each arity 0..4 of the custom names, `builtins`, the variable names, env) and must behave exactly like a compilation given freshly built equivalent options; distinct = distinct (sub-list, probe) pairs")
	distinct := map[string]bool{}
	probes := []string{"cf", "cf(1)", "cf(1; 2)", "cf(1; 2; 3)", "cf(1; 2; 3; 4)", "[ci]", "[ci(1)]", "[ci(1; 2)]", "[ci(1; 2; 3)]",
		`[builtins[] | select(startswith("cf/") or startswith("ci/"))] | sort`, "$a", "$b", "env.TAG", "[cf, cf(1)]", "try cf catch .", "[limit(1; ci(1))]"}
	run := func(q string, vals int, opts []gojq.CompilerOption) string {
		o := func() (o common.Outcome) {
			defer func() {
				if rec := recover(); rec != nil {
					o.Panic = fmt.Sprint(rec)
				}
			}()
			query, err := gojq.Parse(q)
			if err != nil {
				o.ParseErr = err
				return
			}
			code, err := gojq.Compile(query, opts...)
			if err != nil {
				o.CompErr = err
				return
			}
			vs := make([]any, vals)
			for i := range vs {
				vs[i] = i + 100
			}
			return common.RunCode(code, nil, 100000, 40, vs...)
		}()
		s := common.CanonOutcome(o)
		if o.CompErr != nil {
			s += " " + o.CompErr.Error()
		}
		if o.Panic != "" {
			s += " " + o.Panic
		}
		return s
	}
	for h := 0; h < ctx.N(150, 3000); h++ {
		// the pool
		var specs []optSpec
		for i, n := 0, r.Range(4, 7); i < n; i++ {
			tag := fmt.Sprintf("o%d", i)
			switch r.Intn(6) {
			case 0, 1, 2:
				mn := r.Range(0, 3)
				specs = append(specs, optSpec{"fn", mn, min(mn+r.Intn(3), 4), tag})
			case 3:
				mn := r.Range(0, 2)
				specs = append(specs, optSpec{"iter", mn, min(mn+r.Intn(3), 3), tag})
			case 4:
				specs = append(specs, optSpec{"vars", 0, 0, common.Pick(r, []string{"a", "b"})})
			default:
				specs = append(specs, optSpec{"env", 0, 0, tag})
			}
		}
		pool := make([]gojq.CompilerOption, len(specs))
		for i, s := range specs {
			pool[i] = s.build()
		}
		var history []string
		for c, nc := 0, r.Range(6, 12); c < nc; c++ {
			var idx []int
			for i := range specs {
				if r.Chance(1, 2) {
					idx = append(idx, i)
				}
			}
			// random order
			for i := len(idx) - 1; i > 0; i-- {
				j := r.Intn(i + 1)
				idx[i], idx[j] = idx[j], idx[i]
			}
			var reused, fresh []gojq.CompilerOption
			var names []string
			vals := 0
			for _, i := range idx {
				reused = append(reused, pool[i])
				fresh = append(fresh, specs[i].build())
				names = append(names, specs[i].String())
				if specs[i].kind == "vars" {
					vals = 1 // the last WithVariables wins
				}
			}
			history = append(history, "["+strings.Join(names, ", ")+"]")
			for _, q := range probes {
				got := run(q, vals, reused)
				want := run(q, vals, fresh)
				orc.Cases++
				distinct[strings.Join(names, ",")+"|"+q] = true
				if strings.HasPrefix(want, "COMPILEERR") {
					orc.Distribution["compile-error"]++
				} else {
					orc.Distribution["runs"]++
				}
				if got != want {
					ctx.Violate("option-reuse:"+q, fmt.Sprintf("compilation %d of a history that reuses option values: `%s` with options %s gives %s; with freshly built equivalent options it gives %s", c+1, q, history[len(history)-1], clip(got), clip(want)),
						map[string]any{"query": q, "history_of_option_lists": history, "observed": got, "expected": want,
							"cmd": "library use: opt := gojq.WithFunction(…) built once, passed to several gojq.Compile calls with different other options"})
				}
			}
		}
	}
	orc.Distinct = len(distinct)
	orc.Samples = []string{"pool {fn(cf,0..0,o0), fn(cf,1..1,o1)}: Compile(q, o0, o1) then Compile(q, o1): `cf` must be undefined in the second"}
}

// builtinsOrderChecks: `builtins` lists every function (custom ones for every arity of their
// merged masks) in ONE order — sorted by name, then arity — whatever the iteration order of the
// Go maps it is collected from: repeated runs and recompilations give the same list.
func builtinsOrderChecks(ctx *common.Ctx) {
	orc := ctx.NewOracle("builtins-order", "`builtins` (whole list as text, and the sub-list of the custom names) evaluated 12 times — 4 compilations × 3 runs — with 0..3 custom registrations of overlapping arity ranges: every evaluation gives the same list, and the list is sorted by (name, arity as a number); distinct = option sets")
	r := ctx.R.Fork(4242)
	for h := 0; h < ctx.N(12, 120); h++ {
		var opts []gojq.CompilerOption
		for i, n := 0, r.Intn(4); i < n; i++ {
			mn := r.Range(0, 3)
			mx := min(mn+r.Range(1, 4), 8)
			name := common.Pick(r, []string{"cf", "zz", "add", "custom_range"})
			opts = append(opts, gojq.WithFunction(name, mn, mx, func(any, []any) any { return nil }))
		}
		q, _ := gojq.Parse(`builtins | ., map(select(startswith("cf/") or startswith("zz/") or startswith("add/") or startswith("custom_range/") or startswith("range/") or startswith("recurse/") or startswith("limit/")))`)
		var first string
		for c := 0; c < 4; c++ {
			code, err := gojq.Compile(q, opts...)
			if err != nil {
				break
			}
			for k := 0; k < 3; k++ {
				o := common.RunCode(code, nil, 200000, 10)
				s := common.CanonOutcome(o)
				orc.Cases++
				if first == "" {
					first = s
					// sortedness of the full list
					if len(o.Outs) > 0 {
						if xs, ok := o.Outs[0].([]any); ok {
							for i := 1; i < len(xs); i++ {
								a, _ := xs[i-1].(string)
								b, _ := xs[i].(string)
								an, aa, _ := strings.Cut(a, "/")
								bn, ba, _ := strings.Cut(b, "/")
								var ai, bi int
								fmt.Sscanf(aa, "%d", &ai)
								fmt.Sscanf(ba, "%d", &bi)
								if an > bn || an == bn && ai > bi {
									ctx.Violate("builtins-order:unsorted", fmt.Sprintf("`builtins` lists %q before %q", a, b), map[string]any{"query": "builtins", "observed": []string{a, b}})
									break
								}
							}
						}
					}
				} else if s != first {
					ctx.Violate("builtins-order:differs", fmt.Sprintf("evaluation %d of `builtins` (compilation %d) differs from the first one", c*3+k+1, c+1), map[string]any{"query": "builtins | ., map(select(…))", "first": clip(first), "observed": clip(s)})
					return
				}
			}
		}
	}
	orc.Distinct = ctx.N(12, 120)
}

package main

// Oracle `custom`: a Go callback registered with WithFunction / WithIterFunction is
// interchangeable with the jq definition that has the same input/output relation and the
// built-in argument order — arguments evaluated as values, the last one in the outermost
// loop:
//
//	def f(a1; …; an): an as $xn | … | a1 as $x1 | R(.; $x1, …, $xn);

import (
	"fmt"
	"strings"

	"github.com/itchyny/gojq"

	"verifharness/common"
)

type valueErr struct{ v any }

func (e *valueErr) Error() string { return fmt.Sprintf("custom error: %v", e.v) }
func (e *valueErr) Value() any    { return e.v }

// a relation: Go callback (non-iterator or iterator) and the jq body over `.` and $x1..$xn
type relation struct {
	name string
	iter bool
	fn   func(v any, args []any) any       // non-iterator
	itfn func(v any, args []any) gojq.Iter // iterator
	body func(n int) string                // jq text of R
}

func xs(n int) []string {
	out := make([]string, n)
	for i := range out {
		out[i] = fmt.Sprintf("$x%d", i+1)
	}
	return out
}

var relations = []relation{
	{name: "tuple", fn: func(v any, args []any) any { return append([]any{v}, args...) },
		body: func(n int) string { return "[" + strings.Join(append([]string{"."}, xs(n)...), ", ") + "]" }},
	{name: "input", fn: func(v any, args []any) any { return v }, body: func(n int) string { return "." }},
	{name: "lastarg", fn: func(v any, args []any) any {
		if len(args) == 0 {
			return nil
		}
		return args[len(args)-1]
	}, body: func(n int) string {
		if n == 0 {
			return "null"
		}
		return fmt.Sprintf("$x%d", n)
	}},
	{name: "error-on-null", fn: func(v any, args []any) any {
		if v == nil {
			return &valueErr{"custom"}
		}
		return len(args)
	}, body: func(n int) string { return fmt.Sprintf(`if . == null then error("custom") else %d end`, n) }},
	{name: "error-object", fn: func(v any, args []any) any { return &valueErr{map[string]any{"code": len(args), "in": v}} },
		body: func(n int) string { return fmt.Sprintf(`error({code: %d, in: .})`, n) }},
	{name: "iter-all", iter: true, itfn: func(v any, args []any) gojq.Iter { return gojq.NewIter(append([]any{v}, args...)...) },
		body: func(n int) string { return "(" + strings.Join(append([]string{"."}, xs(n)...), ", ") + ")" }},
	// the callback keeps the argument slice it was given: returned as the result array, or read
	// lazily by the iterator after the call has returned
	{name: "args-array", fn: func(v any, args []any) any { return args },
		body: func(n int) string { return "[" + strings.Join(xs(n), ", ") + "]" }},
	{name: "iter-args", iter: true, itfn: func(v any, args []any) gojq.Iter { return gojq.NewIter(args...) },
		body: func(n int) string {
			if n == 0 {
				return "empty"
			}
			return "(" + strings.Join(xs(n), ", ") + ")"
		}},
	{name: "iter-empty", iter: true, itfn: func(v any, args []any) gojq.Iter { return gojq.NewIter[any]() }, body: func(n int) string { return "empty" }},
	{name: "iter-then-error", iter: true, itfn: func(v any, args []any) gojq.Iter {
		return gojq.NewIter[any](v, &valueErr{"late"}, "never")
	}, body: func(n int) string { return `(., error("late"), "never")` }},
}

type registration struct {
	mn, mx int
	rel    *relation
}

func defText(name string, n int, rel *relation) string {
	var sb strings.Builder
	sb.WriteString("def " + name)
	if n > 0 {
		ps := make([]string, n)
		for i := range ps {
			ps[i] = fmt.Sprintf("a%d", i+1)
		}
		sb.WriteString("(" + strings.Join(ps, "; ") + ")")
	}
	sb.WriteString(": ")
	for i := n; i >= 1; i-- {
		fmt.Fprintf(&sb, "a%d as $x%d | ", i, i)
	}
	sb.WriteString(rel.body(n) + ";")
	return sb.String()
}

var callArgs = []string{"1", ".", "(1, 2)", ".[]?", "empty", ".a?", `error("e")`, `"s"`, "(3, 4)", "[.]", "first(.[]?)", "null", "(.a?, .b?)", "(null, 1)"}

var contexts = []string{
	"CALL", "[CALL]", "try CALL catch .", "[.[]? | CALL]", "path(CALL)", "[paths(CALL)]?", "try path(CALL) catch .", "reduce (CALL) as $x (0; . + 1)",
	"foreach (CALL) as $x (0; . + 1; [$x, .])", "[limit(2; CALL)]", "first(CALL)", "label $out | CALL | ., break $out", ".[]? |= CALL", ".a = CALL", ". |= CALL",
	"CALL as $v | [$v]", "CALL // \"alt\"", "if CALL then 1 else 2 end", "[CALL | tojson]", "CALL?", "[CALL?]", "def g: CALL; [g, g]", "[.[]?] | map(CALL)",
	"try (CALL | error) catch .", "[CALL] | length", "(CALL) as [$p] | $p", "del(CALL)?", "to_entries? | map(CALL)", "[limit(3; repeat(CALL))]", "[CALL, CALL]",
	"getpath([\"a\"])? | CALL", "[.. | CALL]", ".[0]? += CALL", "try (.a |= CALL) catch .", "[range(2) as $i | CALL]", "any(CALL; . == null)", "[CALL] | first?", "null | CALL",
	"(CALL | tostring?) // 0", "{k: CALL}", "[{k: CALL}]", "\"v=\\(CALL)\"", "CALL | CALL",
	"[CALL | . as $v | (3 + 4) | $v]", "[CALL | [., (1 + 2)]]", "[CALL as $v | (\"a\" | ltrimstr(\"b\")) | $v]",
	// inside a path expression, in positions where the emitted value is discarded or only tested
	"[path(CALL | empty)]", "[path(.a?, (CALL | select(false)), .b?)]", "[path(CALL // .x?)]", "[path((CALL | select(. == null)), .)]", "try [path(reduce (CALL) as $v (.; .))] catch \"E\"", "try [path(foreach (CALL) as $v (.; .; .))] catch \"E\"", "[paths(CALL | false)]?", "try [path(first((CALL | empty), .))] catch \"E\"",
	"try del(CALL | empty) catch \"E\"", "try ((CALL | empty) |= 1) catch \"E\"", "try [path(if (CALL | not) then . else . end)] catch \"E\"", "try [path(. as $d | (CALL | empty), $d)] catch \"E\"", "try [path(limit(0; CALL), .)] catch \"E\"", "try [path(isempty(CALL) as $e | .)] catch \"E\"", "try [path(label $l | (CALL | break $l), .)] catch \"E\"",
}

var customInputs = []string{`null`, `1`, `[1,[2]]`, `{"a":[1,2],"b":null}`, `"s"`, `[null,{"a":1}]`}

func customChecks(ctx *common.Ctx) {
	r := ctx.R
	orc := ctx.NewOracle("custom", "a Go function registered with WithFunction/WithIterFunction (10 relations, two of which keep the argument slice they were handed: tuple of input and arguments, identity, last argument, value errors, iterators incl. empty and failing ones; arities 0..30, 1–3 overlapping registrations of one name) vs the equivalent jq definitions, in 43 calling contexts × generator/erroring arguments × 6 inputs: outcomes (outputs, error values, invalid-path errors) must be identical; `builtins` must list exactly the registered name/arities; arities outside 0..30 must panic with `invalid arity`; distinct = distinct (context, arguments, relation, arity) combinations")
	distinct := map[string]bool{}
	n := ctx.N(2500, 40000)
	for k := 0; k < n; k++ {
		// registrations of one name, same iterator-ness
		iter := r.Chance(1, 3)
		var rels []*relation
		for i := range relations {
			if relations[i].iter == iter {
				rels = append(rels, &relations[i])
			}
		}
		nreg := 1
		if r.Chance(1, 3) {
			nreg = r.Range(2, 3)
		}
		regs := make([]registration, nreg)
		for i := range regs {
			mn := r.Range(0, 3)
			if r.Chance(1, 8) {
				mn = r.Range(4, 30)
			}
			mx := mn + r.Intn(3)
			if mx > 30 {
				mx = 30
			}
			regs[i] = registration{mn, mx, common.Pick(r, rels)}
		}
		owner := map[int]*relation{} // arity -> relation of the newest registration covering it
		for _, g := range regs {
			for a := g.mn; a <= g.mx; a++ {
				owner[a] = g.rel
			}
		}
		var arities []int
		for a := 0; a <= 30; a++ {
			if owner[a] != nil {
				arities = append(arities, a)
			}
		}
		// the call
		arity := common.Pick(r, arities)
		rejected := false
		if r.Chance(1, 25) {
			arity = r.Range(0, 32)
			rejected = owner[arity] == nil
		}
		as := make([]string, arity)
		for i := range as {
			as[i] = common.Pick(r, callArgs)
			if arity > 4 && i > 1 && i < arity-1 {
				as[i] = common.Pick(r, []string{"1", ".", "null", `"s"`})
			}
		}
		call := "cf"
		if arity > 0 {
			call += "(" + strings.Join(as, "; ") + ")"
		}
		cx := common.Pick(r, contexts)
		src := strings.ReplaceAll(cx, "CALL", call)
		input := decodeInput(common.Pick(r, customInputs))
		// native version
		var opts []gojq.CompilerOption
		for _, g := range regs {
			if iter {
				opts = append(opts, gojq.WithIterFunction("cf", g.mn, g.mx, g.rel.itfn))
			} else {
				opts = append(opts, gojq.WithFunction("cf", g.mn, g.mx, g.rel.fn))
			}
		}
		var defs strings.Builder
		for _, a := range arities {
			defs.WriteString(defText("cf", a, owner[a]) + " ")
		}
		run := func(q string, opts ...gojq.CompilerOption) (string, bool) {
			o := func() (o common.Outcome) {
				defer func() {
					if rec := recover(); rec != nil {
						o.Panic = fmt.Sprint(rec)
					}
				}()
				query, err := gojq.Parse(q)
				if err != nil {
					o.ParseErr = err
					return
				}
				code, err := gojq.Compile(query, opts...)
				if err != nil {
					o.CompErr = err
					return
				}
				return common.RunCode(code, common.DeepCopy(input), 400000, 40)
			}()
			s := common.CanonOutcome(o)
			if o.CompErr != nil {
				s += " " + o.CompErr.Error()
			}
			if o.Panic != "" {
				s += " " + o.Panic
			}
			return s, o.Budget
		}
		got, b1 := run(src, opts...)
		want, b2 := run(defs.String()+src)
		orc.Cases++
		if b1 || b2 {
			orc.Distribution["skipped:budget"]++
			continue
		}
		cls := "outputs"
		switch {
		case strings.HasPrefix(want, "COMPILEERR"):
			cls = "compile-error"
		case strings.Contains(want, "ERR"):
			cls = "error"
		}
		orc.Distribution[cls]++
		orc.Distribution["ctx:"+cx]++
		distinct[fmt.Sprint(cx, "|", as, "|", owner[arity] != nil && true, "|", arity, "|", regs[0].rel.name)] = true
		if rejected && !strings.Contains(got, "function not defined: cf/") {
			ctx.Violate("custom:unregistered-arity-accepted", fmt.Sprintf("cf/%d is callable although only %v are registered: %s", arity, arities, got), map[string]any{"query": src, "observed": got})
		}
		if got != want {
			// one class, one key: in a path-tracking context (path/paths/del) the arguments of a
			// native are evaluated with path tracking ON, so an argument that navigates (.a, .[])
			// leaves its path behind; the jq definition binds its arguments with `as` (tracking off)
			pathCtx := strings.Contains(cx, "path(") || strings.Contains(cx, "paths(") || strings.Contains(cx, "del(")
			// the left-hand side of an update operator is a path expression too
			if i, j := strings.Index(cx, "CALL"), strings.Index(cx, "|="); i >= 0 && j > i {
				pathCtx = true
			}
			navigates := false
			for _, a := range as {
				navigates = navigates || strings.Contains(a, ".a") || strings.Contains(a, ".b") || strings.Contains(a, ".[")
			}
			if pathCtx && navigates {
				ctx.Violate("custom:path-mode-arguments", fmt.Sprintf("inside a path expression the arguments of a Go callback are evaluated with path tracking on: `%s` on %s gives %s, the equivalent jq definition gives %s", src, common.Canon(input), clip(got), clip(want)),
					map[string]any{"query": src, "definitions": defs.String(), "input": common.Canon(input), "observed": got, "expected": want,
						"same_defect_without_options": `echo '{"a":{"b":1}}' | gojq -c 'path(null + .a)'   prints ["a"]; jq: Invalid path expression with result {"b":1}`,
						"cmd": "library use: gojq.Compile(query, gojq.WithFunction(\"cf\", …)) vs gojq.Compile(definitions + query)"})
				orc.Distribution["known-class:path-mode-arguments"]++
				continue
			}
			var rs []string
			for _, g := range regs {
				rs = append(rs, fmt.Sprintf("%s[%d..%d]", g.rel.name, g.mn, g.mx))
			}
			ctx.Violate("custom:"+relName(owner[arity])+":"+cx, fmt.Sprintf("`%s` on %s: callback version gives %s, jq definition gives %s", src, common.Canon(input), clip(got), clip(want)),
				map[string]any{"query": src, "definitions": defs.String(), "registrations": rs, "input": common.Canon(input), "observed": got, "expected": want,
					"cmd": "library use: gojq.Compile(query, gojq.WithFunction(\"cf\", …)) vs gojq.Compile(definitions + query)"})
		}
		// only `builtins` tells them apart
		if k%25 == 0 {
			bq := `[builtins[] | select(startswith("cf/"))] | sort`
			gb, _ := run(bq, opts...)
			var names []any
			for _, a := range arities {
				names = append(names, fmt.Sprintf("cf/%d", a))
			}
			sortStrings(names)
			wb := common.CanonOutcome(common.Outcome{Outs: []any{names}})
			db, _ := run(defs.String() + bq)
			orc.Cases++
			orc.Distribution["builtins"]++
			if gb != wb || db != "[ ] ; END" {
				ctx.Violate("custom:builtins", fmt.Sprintf("builtins lists %s for registered arities %v (expected %s); with jq definitions %s", gb, arities, wb, db), map[string]any{"observed": gb, "expected": wb})
			}
		}
	}
	// arities outside 0..30 are rejected the documented way: a panic `invalid arity` when the option is built
	for _, c := range [][2]int{{0, 31}, {-1, 0}, {2, 1}, {31, 31}, {-1, -1}, {0, 1 << 20}, {30, 30}, {0, 30}, {0, 0}} {
		for _, it := range []bool{false, true} {
			msg := func() (m string) {
				defer func() {
					if rec := recover(); rec != nil {
						m = fmt.Sprint(rec)
					}
				}()
				if it {
					gojq.WithIterFunction("cf", c[0], c[1], func(any, []any) gojq.Iter { return gojq.NewIter[any]() })
				} else {
					gojq.WithFunction("cf", c[0], c[1], func(any, []any) any { return nil })
				}
				return ""
			}()
			valid := 0 <= c[0] && c[0] <= c[1] && c[1] <= 30
			orc.Cases++
			orc.Distribution["arity-bounds"]++
			if valid != (msg == "") || !valid && !strings.Contains(msg, "invalid arity") {
				ctx.Violate(fmt.Sprintf("custom:arity-bounds:%d:%d", c[0], c[1]), fmt.Sprintf("WithFunction(min=%d, max=%d): %q", c[0], c[1], msg), map[string]any{"min": c[0], "max": c[1], "observed": msg})
			}
		}
	}
	orc.Distinct = len(distinct)
	orc.Samples = []string{"cf((1, 2); (3, 4)) with cf = [., $x1, $x2]: callback vs `def cf(a1; a2): a2 as $x2 | a1 as $x1 | [., $x1, $x2];`", "path(cf(.a)) with cf = identity"}
}

func relName(r *relation) string {
	if r == nil {
		return "none"
	}
	return r.name
}

func clip(s string) string {
	if len(s) > 300 {
		return s[:300] + "…"
	}
	return s
}

func sortStrings(xs []any) {
	for i := 1; i < len(xs); i++ {
		for j := i; j > 0 && xs[j-1].(string) > xs[j].(string); j-- {
			xs[j-1], xs[j] = xs[j], xs[j-1]
		}
	}
}

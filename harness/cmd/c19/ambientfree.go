// Stream `ambientfree` (Props/C19VM.lean): the static hypothesis of
// default_noninterference_vm, re-validated on real programs on every run.
//
// Every generated program is compiled WITHOUT options; its instruction list is dumped with
// gojq.VerifCodes (syntax of the C04 streams: `op|tgt|arg`, a native call is
// `call|_|@name/argc`).  The model answers Ambient.ambientFreeView (proved equal to the scan on
// interpreter code, `ambient_free_on_dump`), which classifies call sites from the REGENERATED
// Lean tables (Generated/NativeTable.lean, Generated/Facts.lean).  The Go side computes the same
// predicate independently: from the LIVE native table (gojq.VerifNatives: arity masks, nil
// callbacks) and the ambient names written out below.  Answer: `free`, or
// `not-free <name>/<argc>` for the first rejected call site.
package main

import (
	"fmt"
	"strings"

	"github.com/itchyny/gojq"

	"verifharness/common"
	"verifharness/jqgen"
)

// the names through which ambient state can enter (Props/C19VM.lean `ambient_set`)
var ambientNativeNames = map[string]bool{
	"now": true, "localtime": true, "strflocaltime": true, // clock, time zone
	"strftime": true, "strptime": true, // third-party timefmt-go (%Z consults time.Local)
	"input": true, "modulemeta": true, // option capabilities
}

// nil-callback table entries that compile to a call of a pure compiler method
var pureCompilerMethods = map[string]bool{"_match": true, "builtins": true}

// call sites emitted by compiler.go with a literal [3]any outside the table
var handWrittenSites = map[string]bool{
	"setpath/2": true, "_index/2": true, "_break/0": true, "_allocator/0": true, "_setpath/3": true,
	"getpath/2": true, "_delpaths/2": true,
}

func goSitePure(natives map[string]gojq.VerifNativeInfo, name string, argc int) bool {
	if handWrittenSites[fmt.Sprintf("%s/%d", name, argc)] {
		return true
	}
	f, ok := natives[name]
	if !ok || ambientNativeNames[name] {
		return false
	}
	if f.Callback == nil && !pureCompilerMethods[name] {
		return false
	}
	return argc >= 0 && argc < 62 && f.Argcount&(1<<uint(argc)) != 0
}

func goAmbientFree(natives map[string]gojq.VerifNativeInfo, ins []gojq.VerifInstr) string {
	for _, in := range ins {
		name, argc := "", 0
		switch {
		case in.Kind == "native":
			name, argc = in.Name, in.Argc
			if argc < 0 {
				continue
			}
		case in.Op == "index" || in.Op == "indexarray":
			name, argc = "_index", 2
		default:
			continue
		}
		if !goSitePure(natives, name, argc) {
			return fmt.Sprintf("not-free %s/%d", name, argc)
		}
	}
	return "free"
}

func encodeDump(ins []gojq.VerifInstr) string {
	var sb strings.Builder
	for i, in := range ins {
		if i > 0 {
			sb.WriteByte(' ')
		}
		tgt, arg := "_", "_"
		switch in.Kind {
		case "int":
			tgt = fmt.Sprint(in.Int)
		case "ints":
			parts := make([]string, len(in.Ints))
			for j, x := range in.Ints {
				parts[j] = fmt.Sprint(x)
			}
			arg = strings.Join(parts, ",")
		case "native":
			arg = fmt.Sprintf("@%s/%d", in.Name, in.Argc)
		case "value":
			arg = "v" // constants play no part in the scan
		}
		sb.WriteString(in.Op + "|" + tgt + "|" + arg)
	}
	return sb.String()
}

var ambientFreeExtra = []string{
	"now", "now | localtime | mktime", "[now, .] | length", "def f: now; [f, f]", ".a = now", "now | todate", "try (now | strflocaltime(\"%H\")) catch .",
	"localtime", "gmtime | todate", "strptime(\"%Y-%m-%dT%H:%M:%SZ\") | mktime", "\"a\" | modulemeta", "path(.. | select(type == \"number\"))",
	"[limit(3; range(10))] | add", "reduce .[] as $x (0; . + $x) | tostring", ".a.b |= . + 1", "to_entries | map(.key) | join(\",\")",
	"env", "$ENV | keys", "env.HOME", "[.[] | test(\"a\")]", "input_line_number", "$__loc__", "ltrimstr(\"a\") | ascii_downcase | @base64",
	"dateadd(\"seconds\"; 10)", "date", "todate", "fromdate", "dateadd(\"days\"; 1) | mktime", "getpath([\"a\"]) | splits(\", \")", "builtins | length",
	"label $out | .[] | if . > 1 then ., break $out else . end", "first(.[] | select(. == now))", "del(.[0], .a?)", "paths(type == \"number\")", "@sh \"echo \\(.)\"",
}

func ambientFreeStream(ctx *common.Ctx) {
	st := ctx.NewStream("ambientfree", "Gojq.Ambient.ambientFreeView / isPure (the static hypothesis `ambientFree` of default_noninterference_vm, through ambient_free_on_dump; call-site classification computed from the regenerated Generated/NativeTable.lean and Generated/Facts.lean)",
		"every program of the ambient oracle's generator (all builtins by name/arity, operators, formats, dates, env probes, the now/localtime sanity programs), directed programs around now/localtime/strftime/modulemeta, and type-blind random programs, each compiled WITHOUT options and dumped with VerifCodes; the Go side scans the dump against the live native table and the written-out ambient names; distinct = distinct answers (free / the first rejected call site)")
	natives := gojq.VerifNatives()
	seenQ, seenC := map[string]bool{}, map[string]bool{}
	var lines, impl, labels []string
	add := func(src string) {
		if seenQ[src] {
			return
		}
		seenQ[src] = true
		q, err := gojq.Parse(src)
		if err != nil {
			st.Distribution["parse-error"]++
			return
		}
		code, err := func() (c *gojq.Code, err error) {
			defer func() {
				if r := recover(); r != nil {
					err = fmt.Errorf("compile panic: %v", r)
				}
			}()
			return gojq.Compile(q) // no options
		}()
		if err != nil {
			st.Distribution["compile-error (no code: input/import/unknown function)"]++
			return
		}
		ins := gojq.VerifCodes(code)
		line := encodeDump(ins)
		if !seenC[line] {
			seenC[line] = true
			st.Distribution["distinct instruction lists"]++
		}
		ans := goAmbientFree(natives, ins)
		cls := ans
		if strings.HasPrefix(ans, "not-free ") {
			cls = "not-free (" + strings.TrimPrefix(ans, "not-free ") + " first)"
		}
		st.Distribution[cls]++
		nNative := 0
		for _, in := range ins {
			if in.Kind == "native" {
				nNative++
			}
		}
		switch {
		case nNative == 0:
			st.Distribution["native call sites: 0"]++
		case nNative <= 3:
			st.Distribution["native call sites: 1-3"]++
		case nNative <= 10:
			st.Distribution["native call sites: 4-10"]++
		default:
			st.Distribution["native call sites: >10"]++
		}
		lines, impl, labels = append(lines, line), append(impl, ans), append(labels, src)
	}
	for _, p := range genPrograms(ctx) {
		add(p.Q)
	}
	for _, q := range ambientFreeExtra {
		add(q)
	}
	r := ctx.R
	for i := 0; i < ctx.N(400, 4000); i++ {
		add(jqgen.New(r, r.Range(0, 3)).Query())
		// splice an ambient native into a random program: the scan must find it wherever it sits
		if i%4 == 0 {
			add("[" + jqgen.New(r, r.Range(0, 2)).Query() + " | " + common.Pick(r, []string{"now", "localtime?", "strftime(\"%Y\")?", "mktime?", "gmtime?", "modulemeta?", "strptime(\"%Y\")?", "strflocaltime(\"%Y\")?"}) + "]")
		}
	}
	st.Labels = labels
	if len(lines) > 0 {
		st.Samples = []string{labels[0] + " => " + impl[0], labels[len(labels)/2] + " => " + impl[len(labels)/2]}
	}
	ctx.RunStream(st, lines, impl)
}

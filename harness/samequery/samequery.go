package samequery

// sameQueryOracle: the compiled regular expressions are cached per compiled query. A builtin
// call must give, inside a query that makes OTHER regex calls before it, what it gives in a
// query of its own — whatever regexes and flags the earlier calls used (in particular when
// the texts regex+flags of two calls coincide, or when the implicit "g" of scan/splits/gsub
// meets an explicit flag string).

import (
	"fmt"

	"github.com/itchyny/gojq"

	"verifharness/common"
)

// Run adds the oracle `same-query` to the check.
func Run(ctx *common.Ctx) {
	orc := ctx.NewOracle("same-query", "pairs (A, B) of regex builtin calls (test/match/scan/splits/split/sub/gsub/capture with literal regexes and flags chosen so that regex+flags texts collide: a;g / ag, b;ig / bi;g / big, a;m / am, A;i / Ai …, and calls with unsupported flag strings after the same regex was used with valid ones) compiled as ONE query `[[A], [B]]` and run on a subject vs `[A]` and `[B]` compiled alone; also the same query run twice and on two subjects; distinct = distinct (A, B, subject)")
	calls := []string{
		`test("a")`, `test("a"; "g")`, `test("ag")`, `[match("a"; "g")]`, `[match("ag")]`, `[scan("a")]`, `[scan("ag")]`, `[splits("a")]`, `[splits("ag")]`, `sub("ag"; "x")`, `gsub("a"; "x")`, `gsub("ag"; "x")`,
		`test("b"; "ig")`, `test("bi"; "g")`, `test("big")`, `[match("b"; "gi")]`, `[scan("bi")]`, `[scan("b"; "i")]`,
		`test("a"; "m")`, `test("am")`, `test("A"; "i")`, `test("Ai")`, `test("ai")`, `[match("a"; "i")]`, `[scan("a"; "i")]`, `[scan("ai")]`, `split("a"; null)`, `split("a"; "g")`, `split("ag"; null)`,
		// flag strings the flag check must reject, after the same regex was used with valid ones
		`test("a"; "z")`, `test("a"; "gz")`, `[match("a"; "q")]`, `test("ag"; "z")`, `test("a"; 1)`, `[scan("a"; "z")]`, `sub("a"; "x"; "z")`,
		`test("^a$"; "x")`, `test("^a$x")`, `test("a"; "s")`, `test("as")`, `test("a"; "n")`, `test("an")`, `[match("(?<n>a)"; "g")]`, `capture("(?<n>a)g")`, `test("a"; null)`, `test("a"; "")`, `test("a."; "s")`, `test("a.s")`,
	}
	subjects := []string{"a", "ag", "big", "AI am a bIg ag", "Ag\nas an a.s", ""}
	compile := func(src string) *gojq.Code {
		q, err := gojq.Parse(src)
		if err != nil {
			ctx.Errorf("same-query: parse %q: %v", src, err)
			return nil
		}
		c, err := gojq.Compile(q)
		if err != nil {
			ctx.Errorf("same-query: compile %q: %v", src, err)
			return nil
		}
		return c
	}
	run := func(c *gojq.Code, s string) string {
		return common.CanonOutcome(common.RunCode(c, s, 200000, 50))
	}
	alone := make([]*gojq.Code, len(calls))
	for i, a := range calls {
		if alone[i] = compile("[" + a + "]"); alone[i] == nil {
			return
		}
	}
	distinct := map[string]bool{}
	for i, a := range calls {
		for j, b := range calls {
			if !ctx.Thorough && (i*5+j*3)%4 != 0 && i != j+1 && j != i+1 {
				continue
			}
			both := compile("[[" + a + "], [" + b + "]]")
			if both == nil {
				return
			}
			for _, s := range subjects {
				orc.Cases++
				distinct[fmt.Sprint(i, ",", j, ",", s)] = true
				wa, wb := run(alone[i], s), run(alone[j], s)
				got := run(both, s)
				// expected: if either alone errors, the pair errors with the first error; otherwise [[A],[B]]
				want := ""
				switch {
				case len(wa) < 6 || wa[len(wa)-3:] != "END":
					want = wa
				case len(wb) < 6 || wb[len(wb)-3:] != "END":
					want = wb
				default:
					want = "[ " + wa[:len(wa)-6] + " " + wb[:len(wb)-6] + " ] ; END"
				}
				if got != want {
					ctx.Violate("same-query:"+a+"|"+b+"|"+s, fmt.Sprintf("`[[%s], [%s]]` on %q gives %s; compiled alone the two calls give %s and %s", a, b, s, got, wa, wb),
						map[string]any{"query": "[[" + a + "], [" + b + "]]", "input": s, "observed": got, "expected": want, "cmd": fmt.Sprintf("gojq -c '[[%s], [%s]]' <<< %q", a, b, s)})
				}
				// the same compiled query again, after it has seen another subject
				if again := run(both, s); again != got {
					ctx.Violate("same-query-rerun:"+a+"|"+b+"|"+s, fmt.Sprintf("`[[%s], [%s]]` on %q gives %s on the first run and %s on the second", a, b, s, got, again),
						map[string]any{"query": "[[" + a + "], [" + b + "]]", "input": s, "observed": again, "expected": got})
				}
			}
		}
	}
	orc.Distinct = len(distinct)
	orc.Samples = []string{`[[scan("a")], [test("ag")]] on "a"`, `[[test("b"; "ig")], [test("big")]] on "big"`}
}

package c05oracle

import (
	"encoding/json"
	"fmt"
	"math/big"
	"sort"

	"verifharness/common"
)

// input is one harness-built argument of a run (the input value or a variable value).
type input struct {
	V    any
	Kind string // plain | wide | alias | subslice | spare | unify | corpus | corpus-spare | corpus-unify | random
}

type gen struct{ r *common.Rand }

var objKeys = []string{"a", "b", "c", "x", "y", "key", "value", "name", "0", "1", "a b", "é", "start", "end", "", "k", "v", "z"}

func (g *gen) scalar() any {
	r := g.r
	switch r.Intn(14) {
	case 0:
		return nil
	case 1:
		return r.Bool()
	case 2, 3, 4, 5, 6:
		return r.Range(-3, 9)
	case 7:
		return common.Pick(r, []float64{0.5, 1.5, -2.5, 1e3, 3})
	case 8:
		// *big.Int values are mutable Go objects too (math/big methods write their receiver)
		z, _ := new(big.Int).SetString(common.Pick(r, []string{"123456789012345678901234567890", "-123456789012345678901234567890", "-9223372036854775809", "9223372036854775808", "-100000000000000000000000"}), 10)
		if r.Bool() {
			return z
		}
		return r.Range(100, 105)
	case 9:
		// number literals as the command decodes them (json.Number), in spellings that are not
		// the canonical one: a rewritten leaf changes its Go type and its serialisation
		return json.Number(common.Pick(r, []string{"2.50", "1e1", "1.0", "10", "-0", "0.5e1", "100000000000000000000", "3", "1E2", "0.10"}))
	default:
		return common.Pick(r, []string{"a", "b", "c", "ab", "A b", "a,b", "x", "", "é", "10", "abc abc", "B"})
	}
}

func (g *gen) nums() []any {
	n := g.r.Range(3, 7)
	xs := make([]any, n)
	for i := range xs {
		if g.r.Chance(1, 8) {
			xs[i] = common.Pick(g.r, []float64{0.5, 1.5, -2.5})
		} else if g.r.Chance(1, 8) {
			z, _ := new(big.Int).SetString(common.Pick(g.r, []string{"-123456789012345678901234567890", "36893488147419103232", "-9223372036854775809", "-18446744073709551616"}), 10)
			xs[i] = z
		} else {
			xs[i] = g.r.Range(-2, 6)
		}
	}
	return xs
}

func (g *gen) flat(lo, hi int) []any {
	n := g.r.Range(lo, hi)
	xs := make([]any, n)
	for i := range xs {
		xs[i] = g.scalar()
	}
	return xs
}

// small is a scalar or a container of nesting depth ≤ 2.
func (g *gen) small(depth int) any {
	r := g.r
	if depth >= 2 || r.Chance(2, 5) {
		return g.scalar()
	}
	if r.Bool() {
		n := r.Range(0, 4)
		xs := make([]any, n)
		for i := range xs {
			xs[i] = g.small(depth + 1)
		}
		return xs
	}
	n := r.Range(0, 3)
	m := make(map[string]any, n)
	for i := 0; i < n; i++ {
		m[common.Pick(r, objKeys[:8])] = g.small(depth + 1)
	}
	return m
}

func (g *gen) rec() map[string]any {
	r := g.r
	m := map[string]any{}
	switch r.Intn(4) {
	case 0:
		m["a"] = r.Range(0, 4)
	case 1:
		m["a"] = common.Pick(r, []string{"x", "y", "z", "x"})
	case 2:
		m["a"] = []any{r.Range(0, 2), r.Range(0, 2)}
	default:
		m["a"] = map[string]any{"b": r.Range(0, 3)}
	}
	switch r.Intn(5) {
	case 0:
		m["b"] = g.flat(0, 3)
	case 1:
		m["b"] = map[string]any{"a": r.Range(0, 3), "c": g.flat(0, 2)}
	case 2:
	default:
		m["b"] = r.Range(-2, 5)
	}
	if r.Chance(1, 3) {
		m["c"] = g.small(1)
	}
	return m
}

func (g *gen) wideObj() map[string]any {
	r := g.r
	n := r.Range(5, 9)
	m := make(map[string]any, n)
	switch r.Intn(4) {
	case 0:
		m["a"] = map[string]any{"b": g.small(1), "c": r.Range(0, 5)}
	case 1:
		m["a"] = g.flat(1, 4)
	case 2:
		m["a"] = []any{g.rec(), g.rec()}
	default:
		m["a"] = r.Range(0, 5)
	}
	if r.Chance(2, 3) {
		m["b"] = g.small(0)
	}
	for len(m) < n {
		m[common.Pick(r, objKeys)] = g.small(0)
	}
	return m
}

// shaped builds a fresh value (len == cap everywhere, no aliasing) of the
// shape a program template asks for.
func (g *gen) shaped(shape string) any {
	r := g.r
	switch shape {
	case "nums":
		return g.nums()
	case "strs":
		n := r.Range(2, 5)
		xs := make([]any, n)
		for i := range xs {
			xs[i] = common.Pick(r, []string{"a,b", "abc", "A b", "a, b,c", "xAy", "", "b", "a", "abcabc"})
		}
		return xs
	case "str":
		return common.Pick(r, []string{"a,b, c", "abc", "A b C", "xyzzy", "aXbXc", "", "test.json"})
	case "aoa":
		n := r.Range(2, 4)
		xs := make([]any, n)
		for i := range xs {
			if r.Chance(1, 5) {
				xs[i] = []any{g.flat(1, 2), g.scalar()}
			} else {
				xs[i] = g.flat(0, 4)
			}
		}
		if len(xs[0].([]any)) == 0 && r.Chance(3, 4) {
			xs[0] = g.flat(1, 3)
		}
		return xs
	case "aoo":
		n := r.Range(2, 5)
		xs := make([]any, n)
		for i := range xs {
			xs[i] = g.rec()
		}
		return xs
	case "ent":
		n := r.Range(1, 4)
		xs := make([]any, n)
		for i := range xs {
			k := common.Pick(r, []string{"key", "name", "k", "Key", "Name", "K"})
			v := common.Pick(r, []string{"value", "v", "Value", "V"})
			xs[i] = map[string]any{k: common.Pick(r, []any{"a", "b", "c", 1, nil, true}), v: g.small(1)}
		}
		return xs
	case "obj":
		return g.wideObj()
	case "arr":
		n := r.Range(2, 6)
		xs := make([]any, n)
		for i := range xs {
			xs[i] = g.small(0)
		}
		if r.Chance(1, 2) {
			xs[0] = g.flat(1, 3)
		}
		return xs
	case "long":
		// operands beyond any small-size fast path, not in sorted order, with repeated members
		mk := func(n int) []any {
			xs := make([]any, n)
			for i := range xs {
				switch r.Intn(5) {
				case 0:
					xs[i] = g.scalar()
				case 1:
					xs[i] = []any{r.Range(0, 9)}
				default:
					xs[i] = r.Range(0, 60)
				}
			}
			return xs
		}
		return map[string]any{"all": mk(r.Range(33, 80)), "done": mk(r.Range(33, 70)), "few": mk(r.Range(0, 5))}
	case "null":
		return nil
	default:
		switch r.Intn(5) {
		case 0:
			return g.shaped("arr")
		case 1:
			return g.shaped("obj")
		case 2:
			return g.shaped("aoo")
		}
		return common.DeepCopy(common.RandValue(r, common.DefaultGen, 0))
	}
}

func sortedKeys(m map[string]any) []string {
	keys := make([]string, 0, len(m))
	for k := range m {
		keys = append(keys, k)
	}
	sort.Strings(keys)
	return keys
}

// withTail returns xs re-allocated with k spare slots holding sentinel values.
func (g *gen) withTail(xs []any, k int) []any {
	big := make([]any, len(xs)+k)
	copy(big, xs)
	for i := len(xs); i < len(big); i++ {
		big[i] = fmt.Sprintf("<tail%d>", i-len(xs))
	}
	return big[:len(xs):len(big)]
}

// spareify rebuilds v so that slices (each with probability num/den, the root
// always when it is a slice) carry spare capacity with sentinel tails. The
// JSON value is unchanged.
func (g *gen) spareify(v any, num, den int, root bool) any {
	switch v := v.(type) {
	case []any:
		for i, x := range v {
			v[i] = g.spareify(x, num, den, false)
		}
		if root || g.r.Chance(num, den) {
			return g.withTail(v, g.r.Range(1, 6))
		}
		return v
	case map[string]any:
		for _, k := range sortedKeys(v) {
			v[k] = g.spareify(v[k], num, den, false)
		}
	}
	return v
}

// unify makes every pair of deep-equal non-empty containers of v one Go object
// (the JSON value is unchanged, aliasing is introduced). Reports whether any
// merge happened.
func unify(v any) (any, bool) {
	first := map[string]any{}
	merged := false
	var walk func(v any, d int) any
	walk = func(v any, d int) any {
		if d > 64 {
			return v
		}
		switch w := v.(type) {
		case []any:
			if len(w) == 0 {
				return v
			}
			for i, x := range w {
				w[i] = walk(x, d+1)
			}
			c := canonG(w, valueOnly)
			if f, ok := first[c]; ok {
				merged = true
				return f
			}
			first[c] = w
		case map[string]any:
			if len(w) == 0 {
				return v
			}
			for _, k := range sortedKeys(w) {
				w[k] = walk(w[k], d+1)
			}
			c := canonG(w, valueOnly)
			if f, ok := first[c]; ok {
				merged = true
				return f
			}
			first[c] = w
		}
		return v
	}
	return walk(v, 0), merged
}

// aliased builds an input of the given shape in which ONE Go map / slice is
// referenced two or three times, or a slice and a sub-slice of it both occur.
func (g *gen) aliased(shape string) input {
	r := g.r
	m := g.rec()
	if r.Chance(1, 3) {
		m = g.wideObj()
	}
	s := g.flat(3, 6)
	if r.Chance(1, 3) {
		s = []any{g.rec(), g.flat(1, 2), g.scalar(), g.rec()}
	}
	switch shape {
	case "obj":
		o := g.wideObj()
		switch r.Intn(4) {
		case 0:
			o["a"], o["b"], o["c"] = m, m, map[string]any{"a": m}
			return input{o, "alias"}
		case 1:
			o["a"], o["b"], o["c"] = s, s, map[string]any{"a": s}
			return input{o, "alias"}
		case 2:
			o["a"], o["b"], o["c"] = s, s[1:3], s[2:]
			return input{o, "subslice"}
		default:
			o["a"] = map[string]any{"b": m, "c": m}
			o["b"] = []any{m, s, s[:2]}
			return input{o, "subslice"}
		}
	case "aoo":
		m2 := g.rec()
		switch r.Intn(3) {
		case 0:
			return input{[]any{m, m, m2, m}, "alias"}
		case 1:
			return input{[]any{m2, m, map[string]any{"a": m, "b": m2}, m}, "alias"}
		default:
			base := []any{m, m2, m, g.rec(), m2}
			return input{base[1:4], "subslice"}
		}
	case "aoa":
		switch r.Intn(5) {
		case 0:
			return input{[]any{s, s, s[1:]}, "subslice"}
		case 1:
			return input{[]any{s[:1], s[1:]}, "subslice"}
		case 2:
			return input{[]any{s[:2], s[1:3], s[2:]}, "subslice"}
		case 3:
			t := g.flat(1, 3)
			return input{[]any{s, t, s, []any{s, t}}, "alias"}
		default:
			return input{[]any{s[1:2], g.flat(1, 2), s}, "subslice"}
		}
	case "nums", "strs":
		base := g.shaped(shape).([]any)
		big := g.withTail(base, r.Range(2, 5))
		lo := r.Intn(2)
		return input{big[lo:len(base)], "subslice"}
	case "ent":
		e := g.shaped("ent").([]any)
		e = append(e, e[0])
		return input{e[:len(e):len(e)], "alias"}
	default:
		switch r.Intn(6) {
		case 0:
			return input{[]any{m, m, map[string]any{"a": m}}, "alias"}
		case 1:
			return input{[]any{s, s, map[string]any{"a": s}}, "alias"}
		case 2:
			return input{[]any{s, s[1:3]}, "subslice"}
		case 3:
			return input{[]any{s[0:2], s[1:3], s[2:]}, "subslice"}
		case 4:
			return input{[]any{s[:2], m, s, m}, "subslice"}
		default:
			return input{map[string]any{"a": m, "b": m, "c": []any{s, s[1:]}, "x": s[:1], "y": 1}, "subslice"}
		}
	}
}

// makeInput draws one input of the shape for the given kind index.
func (g *gen) makeInput(shape string, kind int) input {
	r := g.r
	switch kind % 5 {
	case 0:
		k := "plain"
		if shape == "obj" {
			k = "wide"
		}
		return input{g.shaped(shape), k}
	case 1:
		if shape == "str" || shape == "null" {
			return input{g.shaped(shape), "plain"}
		}
		return g.aliased(shape)
	case 2:
		v := g.shaped(shape)
		switch v.(type) {
		case []any, map[string]any:
			return input{g.spareify(v, 2, 3, true), "spare"}
		}
		return input{v, "plain"}
	case 3:
		v := g.shaped(shape)
		if u, ok := unify(v); ok {
			if r.Bool() {
				return input{g.spareify(u, 1, 3, false), "unify+spare"}
			}
			return input{u, "unify"}
		}
		if r.Bool() {
			return g.aliased(shape)
		}
		return input{v, "plain"}
	default:
		if r.Bool() {
			return input{common.DeepCopy(common.RandValue(r, common.DefaultGen, 0)), "random"}
		}
		in := g.aliased(shape)
		in.V = g.spareify(in.V, 1, 3, false)
		in.Kind += "+spare"
		return in
	}
}

// variables draws the values of $v (array-like) and $w (object-like); with
// some probability they share structure with the input.
func (g *gen) variables(in any) (input, input) {
	r := g.r
	var v, w input
	switch r.Intn(5) {
	case 0:
		v = input{g.spareify(g.shaped(common.Pick(r, []string{"arr", "aoa", "aoo", "nums"})), 1, 2, true), "spare"}
	case 1:
		v = g.aliased(common.Pick(r, []string{"arr", "aoa", "aoo"}))
	case 2:
		v = input{g.shaped(common.Pick(r, []string{"arr", "aoo", "nums"})), "plain"}
		if xs, ok := in.([]any); ok && len(xs) > 1 {
			v = input{xs[1:], "shares-input"}
		}
	default:
		v = input{g.shaped(common.Pick(r, []string{"arr", "aoa", "aoo", "nums"})), "plain"}
	}
	switch r.Intn(4) {
	case 0:
		w = g.aliased("obj")
	case 1:
		w = input{g.wideObj(), "wide"}
		if m, ok := in.(map[string]any); ok {
			for _, k := range sortedKeys(m) {
				if x, ok := m[k].(map[string]any); ok {
					w = input{x, "shares-input"}
					break
				}
			}
		}
	default:
		w = input{g.spareify(g.wideObj(), 1, 2, false), "wide"}
	}
	return v, w
}

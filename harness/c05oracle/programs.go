package c05oracle

import (
	"regexp"
	"strconv"
	"strings"

	"verifharness/common"
)

// program is one query text with the input shape it fits and where it came from.
type program struct {
	Src    string
	Shape  string
	Origin string // template | grammar | corpus | stress
	Corpus []any  // the inputs to use (Origin == corpus or stress)
	Budget int    // step budget override (0: stepBudget)
}

// stressProgram is a long-running update program (input: the size n) in which many
// arrays created by the allocator of one `|=` die (an owned array that grows is
// re-allocated and the old address stays registered) while the update query keeps
// creating fresh arrays of the same size class, so that the Go runtime reuses the
// address of a dead allocator-owned array for a value the allocator does not own; the
// later path `.[i][0].a[0]` then updates that value in place although it is referenced
// twice (`a` and `b`). It emits the indices of the elements whose `b` member differs
// from what the update query built; the correct answer is always []. Variants with the
// same effect: `[length] as $t` with paths `.[range($n)][0,1]` (16-byte arrays) and
// `[length,1] as $t | [$t, $t]` with paths `.[range($n)][0,1,2], .[range($n)][0][1][0]`.
const stressProgram = `. as $n | [] | (.[range($n)][0,1,2,3,4], .[range($n)][0].a[0]) |= (if type == "null" then ([length,1,2,3] as $t | {a: $t, b: $t}) else 7 end) | [to_entries[] | select(.value[0].b != [0,1,2,3]) | .key]`

var (
	holeKeys   = []string{"a", "b", "c", "x", "a", "b", "key", "value", "y"}
	holeSKeys  = []string{`"a"`, `"b"`, `"c"`, `"key"`, `"value"`, `"a b"`, `"é"`, `""`, `"0"`, `"x"`}
	holeIdx    = []string{"0", "1", "2", "3", "-1", "-2", "5", "0", "1"}
	holeNum    = []string{"0", "1", "2", "3", "4", "7"}
	holeLit    = []string{"1", "0", `"s"`, "null", "true", "[]", "{}", "[1,2]", "[[1],[2]]", `{"a":1}`, `{"a":{"b":2}}`, `[{"a":3}]`, "99", `"z"`, "[7]"}
	holeRange  = []string{"0:2", "1:3", ":2", "1:", "-2:", ":-1", "0:1", "2:4", "0:0", "1:1", ":1", "1:2", "0:3"}
	holePath   = []string{".a", ".b", ".[0]", ".[1]", ".[-1]", ".a.b", ".a[0]", ".[0].a", ".[0][0]", ".[1:]", ".[:2]", ".[]", ".a[]?", ".[].a?", ".[0:2][0]", "(.a, .b)", "(.[0], .[1])", ".c", `.["key"]`, ".value", ".x", ".[2]", ".[]?", ".a?", "(.. | arrays)", "(.. | objects)", "(.[] | arrays)", "(.[] | objects)", ".[1:3]", ".[0][1:]", ".a[1:]", ".[0].b", ".b[0]", ".a.c", "first(.[]?)", `getpath(["a","b"])`, ".[3]", ".y"}
	holeSuffix = []string{".a", ".b", "[0]", "[1]", "[-1]", ".a.b", "[1:]", "[:2]", "[]", ".a[0]", "[0].a", "[0][0]", ".c", "[2]", ".x", "[0:1]"}
	holeFilter = []string{".", "length", "tostring", "type", "[.]", "{a: .}", "keys?", "tojson", ".a?", ".[0]?", "add?", "sort?", "reverse?", ". + [1]?", "map(.)?", "[.[]?]", "to_entries?", ".[1:]?", ".[:1]?", "del(.[0])?", "del(.a)?", "(.a = 1)?", "(.[0] = 1)?", ". as $q | [$q, $q]", "$v", "$w", "[$v, .]", "$v[1:]", ".[0:2]?", "(., .)", "flatten?", "unique?", "first(.[]?)", "[paths]"}
	holeGroup  = []string{".a", ".b", ".[0]?", "length?", "type", "tostring", ".", ".a?", "tojson", ".a.b?", "(.a | type)", "(.a, .b)", ".c"}
	holeUpdate = []string{".", "[.]", "{a: .}", "1", "null", "[., .]", "tostring", "(. + [1])?", "(. + {x: 1})?", "(. + 1)?", "length?", "(.[0] = 5)?", "(.a = 5)?", "$v", "$w", "[$v]", "(.[1:])?", "(sort)?", "(reverse)?", "del(.[0])?", "del(.a)?", "type", "{a: ., b: .}", "(.a)?", "(.[0])?", "(. as $q | [$q, $q] | .[0][0]? = 1)", "empty", "map(.)?", "(add)?", "[.[]?]", ". // 3"}
)

var holes = map[byte]*[]string{'K': &holeKeys, 'S': &holeSKeys, 'I': &holeIdx, 'N': &holeNum, 'L': &holeLit, 'R': &holeRange, 'P': &holePath, 'Q': &holeSuffix, 'F': &holeFilter, 'G': &holeGroup, 'U': &holeUpdate}

// fill replaces every hole independently.
func fill(r *common.Rand, src string) string {
	var sb strings.Builder
	for i := 0; i < len(src); i++ {
		if src[i] == '%' && i+1 < len(src) {
			if set, ok := holes[src[i+1]]; ok {
				sb.WriteString(common.Pick(r, *set))
				i++
				continue
			}
		}
		sb.WriteByte(src[i])
	}
	return sb.String()
}

// ---- recursive random generator ---------------------------------------------------------------

type pgen struct {
	r    *common.Rand
	vars []string
	seq  int
}

func (g *pgen) pick(xs []string) string { return common.Pick(g.r, xs) }

func (g *pgen) path(d int) string {
	r := g.r
	if d <= 0 || r.Chance(3, 5) {
		return g.pick(holePath)
	}
	switch r.Intn(6) {
	case 0:
		return "(" + g.path(d-1) + ", " + g.path(d-1) + ")"
	case 1:
		return "(" + g.path(d-1) + " | " + g.pick([]string{".a", ".[0]", ".[]?", ".b", ".[1:]", ".[-1]"}) + ")"
	case 2:
		return "(" + g.path(d-1) + " | select(" + g.cond() + "))"
	case 3:
		return ".[" + g.pick(holeRange) + "]"
	case 4:
		return "(if " + g.cond() + " then " + g.path(d-1) + " else " + g.path(d-1) + " end)"
	default:
		return g.path(d-1) + g.pick([]string{"?", "[0]?", ".a?", "[1:]?", "[]?"})
	}
}

func (g *pgen) cond() string {
	return g.pick([]string{`type == "array"`, `type == "object"`, `type == "number"`, ". != null", ". == null", "length? > 1", ".a? != null", "true", "false", `type == "string"`})
}

func (g *pgen) value(d int) string {
	r := g.r
	if d <= 0 || r.Chance(1, 2) {
		switch r.Intn(4) {
		case 0:
			return g.pick(g.vars)
		case 1:
			return g.pick(holePath) + "?"
		default:
			return g.pick(holeLit)
		}
	}
	switch r.Intn(5) {
	case 0:
		return "[" + g.exp(d-1) + "]"
	case 1:
		return "{" + g.pick(holeSKeys) + ": " + g.value(d-1) + ", " + g.pick(holeKeys) + ": " + g.value(d-1) + "}"
	case 2:
		return "(" + g.exp(d-1) + ")"
	case 3:
		return "[" + g.value(d-1) + ", " + g.value(d-1) + "]"
	default:
		return "(" + g.value(d-1) + " + " + g.value(d-1) + ")?"
	}
}

func (g *pgen) newVar() string {
	g.seq++
	return "$t" + strconv.Itoa(g.seq)
}

// exp generates a filter of nesting depth ≤ d.
func (g *pgen) exp(d int) string {
	r := g.r
	if d <= 0 {
		switch r.Intn(4) {
		case 0:
			return g.pick(holeFilter)
		case 1:
			return g.pick(g.vars)
		case 2:
			return g.pick(holePath) + "?"
		default:
			return g.pick(holeUpdate)
		}
	}
	switch r.Intn(44) {
	case 0, 1:
		return g.exp(d-1) + " | " + g.exp(d-1)
	case 2:
		return "(" + g.exp(d-1) + "), (" + g.exp(d-1) + ")"
	case 3, 4:
		return "(" + g.path(1) + " " + g.pick([]string{"=", "|=", "+=", "-=", "*=", "//=", "|=", "="}) + " " + g.value(d-1) + ")"
	case 5:
		return "(" + g.path(1) + " |= (" + g.exp(d-1) + "))"
	case 6:
		return "del(" + g.path(1) + ")"
	case 7:
		return "delpaths([" + g.pathLit() + ", " + g.pathLit() + "])"
	case 8:
		return "setpath(" + g.pathLit() + "; " + g.value(d-1) + ")"
	case 9:
		return "getpath(" + g.pathLit() + ")?"
	case 10:
		return g.pick([]string{"to_entries?", "from_entries?", "with_entries(.value |= (" + g.exp(d-1) + "))?"})
	case 11:
		return "map(" + g.exp(d-1) + ")?"
	case 12:
		return "map_values(" + g.exp(d-1) + ")?"
	case 13:
		return g.pick([]string{"add?", "add(" + g.exp(d-1) + ")?", "add(.[]?)?"})
	case 14:
		return g.pick([]string{"sort?", "sort_by(" + g.pick(holeGroup) + ")?", "group_by(" + g.pick(holeGroup) + ")?", "unique?", "unique_by(" + g.pick(holeGroup) + ")?", "min_by(" + g.pick(holeGroup) + ")?", "max_by(" + g.pick(holeGroup) + ")?"})
	case 15:
		return g.pick([]string{"flatten?", "flatten(1)?", "transpose?", "reverse?"})
	case 16:
		return ".[" + g.pick(holeRange) + "]?"
	case 17:
		return "(" + g.path(0) + "[" + g.pick(holeRange) + "]? " + g.pick([]string{"=", "|="}) + " " + g.value(d-1) + ")?"
	case 18:
		return "limit(" + g.pick(holeNum) + "; " + g.exp(d-1) + ")"
	case 19:
		return g.pick([]string{"first(", "last("}) + g.exp(d-1) + ")"
	case 20:
		return "until(length? > " + g.pick([]string{"3", "5"}) + " or (type | . != \"array\" and . != \"object\"); " + g.pick([]string{". + [1]", ".[length] = 0", ". + {(length | tostring): 1}", "[., .]"}) + ")?"
	case 21:
		return "[" + g.exp(d-1) + "]"
	case 22:
		return "[" + g.exp(d-1) + "][" + g.pick(holeRange) + "]"
	case 23:
		return "(. + [" + g.exp(d-1) + "])?"
	case 24:
		return "(. * {" + g.pick(holeSKeys) + ": " + g.value(d-1) + "})?"
	case 25, 26:
		x := g.newVar()
		init := g.pick([]string{"[]", "{}", ".", "null", "$v", "$w", "[" + g.value(0) + "]"})
		src := g.pick([]string{".[]?", "(" + g.exp(d-1) + ")", "range(3)", "$v[]?"})
		g.vars = append(g.vars, x)
		upd := g.pick([]string{". + [" + x + "]", ".[length] = " + x, "." + g.pick(holeKeys) + " += [" + x + "]", ".[" + x + " | tostring] = " + x, "(" + g.path(0) + " = " + x + ")?", ". + {(" + x + " | tostring): " + g.value(0) + "}", "[., " + x + "]"})
		var s string
		if r.Bool() {
			s = "reduce " + src + " as " + x + " (" + init + "; (" + upd + ")?)"
		} else {
			s = "foreach " + src + " as " + x + " (" + init + "; (" + upd + ")?" + g.pick([]string{"", "; .", "; [., " + x + "]", "; ., (" + g.exp(0) + ")"}) + ")"
		}
		g.vars = g.vars[:len(g.vars)-1]
		return "(" + s + ")"
	case 27, 28:
		x := g.newVar()
		bind := g.value(d - 1)
		g.vars = append(g.vars, x)
		body := g.exp(d - 1)
		tail := g.pick([]string{"", " | [., " + x + "]", " | ., " + x, " | " + x})
		g.vars = g.vars[:len(g.vars)-1]
		return "(" + bind + " as " + x + " | " + body + tail + ")"
	case 29:
		return g.pick(g.vars)
	case 30:
		return "(if " + g.cond() + " then " + g.exp(d-1) + " else " + g.exp(d-1) + " end)"
	case 31:
		return "(" + g.exp(d-1) + " // " + g.exp(d-1) + ")"
	case 32:
		return "(try (" + g.exp(d-1) + ") catch " + g.pick([]string{".", "[.]", "null"}) + ")"
	case 33:
		return g.pick([]string{"path(" + g.path(1) + ")", "[paths]", "[tostream]", "[..]"})
	case 34:
		return "walk(" + g.pick([]string{"arrays |= sort", "arrays |= reverse", "objects |= del(.a)", "numbers |= . + 1", "arrays |= . + [0]", "objects |= . + {z: 0}", "."}) + ")"
	case 35:
		return "select(" + g.cond() + ")"
	case 36, 37:
		// emission followed by further mutation of the same value
		return "(" + g.exp(d-1) + " | ., (" + g.path(1) + " " + g.pick([]string{"=", "|=", "+="}) + " " + g.value(0) + ")?, .)"
	case 38:
		x := g.newVar()
		return "(" + g.exp(d-1) + " | . as " + x + " | (" + g.path(1) + " |= " + g.pick(holeUpdate) + ")? | [" + x + ", .])"
	case 39:
		return "[limit(3; repeat(" + g.exp(d-1) + "))]"
	case 40:
		return "(.[]? |= (" + g.exp(d-1) + "))"
	case 41:
		return g.value(d)
	default:
		return g.pick(holeFilter)
	}
}

func (g *pgen) pathLit() string {
	n := g.r.Intn(3)
	parts := []string{}
	for i := 0; i <= n; i++ {
		switch g.r.Intn(5) {
		case 0, 1:
			parts = append(parts, g.pick(holeSKeys))
		case 2, 3:
			parts = append(parts, g.pick(holeIdx))
		default:
			parts = append(parts, `{"start": `+g.pick([]string{"0", "1", "null"})+`, "end": `+g.pick([]string{"1", "2", "null", "-1"})+`}`)
		}
	}
	return "[" + strings.Join(parts, ", ") + "]"
}

func randomProgram(r *common.Rand) program {
	g := &pgen{r: r, vars: []string{"$v", "$w"}}
	d := r.Range(1, 3)
	return program{Src: g.exp(d), Shape: common.Pick(r, []string{"any", "arr", "obj", "aoo", "aoa", "arr", "obj"}), Origin: "grammar"}
}

// ---- classification ---------------------------------------------------------------------------

var constructPats = []struct {
	name string
	re   *regexp.Regexp
}{
	{"|=", regexp.MustCompile(`\|=`)},
	{"=", regexp.MustCompile(`[^=!<>|+\-*/]=[^=]`)},
	{"arith-update", regexp.MustCompile(`(\+|-|\*|/|//)=`)},
	{"del", regexp.MustCompile(`\bdel\(`)},
	{"delpaths", regexp.MustCompile(`\bdelpaths\(`)},
	{"setpath", regexp.MustCompile(`\bsetpath\(`)},
	{"getpath", regexp.MustCompile(`\bgetpath\(`)},
	{"entries", regexp.MustCompile(`\b(to_entries|from_entries|with_entries)\b`)},
	{"map", regexp.MustCompile(`\bmap\(`)},
	{"map_values", regexp.MustCompile(`\bmap_values\(`)},
	{"add", regexp.MustCompile(`\badd\b`)},
	{"sort", regexp.MustCompile(`\b(sort|sort_by)\b`)},
	{"group/unique", regexp.MustCompile(`\b(group_by|unique|unique_by)\b`)},
	{"min/max", regexp.MustCompile(`\b(min|max|min_by|max_by)\b`)},
	{"flatten", regexp.MustCompile(`\bflatten\b`)},
	{"transpose", regexp.MustCompile(`\btranspose\b`)},
	{"reverse", regexp.MustCompile(`\breverse\b`)},
	{"slice", regexp.MustCompile(`\[-?\d*:-?\d*\]`)},
	{"limit/first/last", regexp.MustCompile(`\b(limit|first|last|nth)\(`)},
	{"until/repeat/recurse", regexp.MustCompile(`\b(until|repeat|recurse)\(`)},
	{"array-ctor", regexp.MustCompile(`\[[^\]:]*[.$a-z][^\]:]*\]`)},
	{"object-ctor", regexp.MustCompile(`\{[^}]*:`)},
	{"reduce", regexp.MustCompile(`\breduce\b`)},
	{"foreach", regexp.MustCompile(`\bforeach\b`)},
	{"variable $v/$w", regexp.MustCompile(`\$[vw]\b`)},
	{"as-binding", regexp.MustCompile(`\bas \$|\bas \[|\bas \{`)},
	{"emit-then-mutate", regexp.MustCompile(`\| \., \(`)},
	{"path/paths/tostream", regexp.MustCompile(`\b(path|paths|leaf_paths|tostream|fromstream|truncate_stream|pick)\b`)},
	{"walk", regexp.MustCompile(`\bwalk\(`)},
	{"recurse ..", regexp.MustCompile(`\.\.`)},
	{"merge *", regexp.MustCompile(` \* `)},
	{"try/?", regexp.MustCompile(`\btry\b|\)\?|\]\?`)},
	{"string/regex", regexp.MustCompile(`\b(split|splits|join|ascii_downcase|ascii_upcase|test|match|scan|sub|gsub|explode|implode|tojson|fromjson|ltrimstr|rtrimstr)\b`)},
}

func constructsOf(src string) []string {
	var out []string
	for _, p := range constructPats {
		if p.re.MatchString(src) {
			out = append(out, p.name)
		}
	}
	if len(out) == 0 {
		out = append(out, "other")
	}
	return out
}

// Programs whose result is not a function of (code, input, variables), or that do IO.
var skipWords = regexp.MustCompile(`\b(now|input|inputs|env|localtime|mktime|strflocaltime|date|debug|stderr|input_line_number|input_filename|halt|halt_error|get_search_list|import|include|modulemeta)\b|\$ENV|\$__loc__|\$__prog`)

func usable(src string) bool { return !skipWords.MatchString(src) }

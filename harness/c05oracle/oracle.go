// Package c05oracle is the model-free search oracle of property C05 ("runs are
// isolated: inputs and emitted values are never modified; re-runs are
// identical"). Everything is observed on the REAL implementation through the
// public API (gojq.Parse / Compile / Code.RunWithContext / Query.RunWithContext /
// Marshal) plus the read-only hook gojq.VerifCodes for the code constants.
//
// Violation keys (stable; <prog> is the program text):
//
//	mutated-input:<prog>     the input value or a variable value changed during a run
//	mutated-constant:<prog>  a constant operand of the compiled code changed
//	mutated-output:<prog>    a value already emitted changed later (same run or a later run)
//	rerun-differs:<prog>     run k of one *Code differs from run 1 on an equal input
//
// A recovered panic of Next is NOT reported as a violation (crashes are the
// business of C08, not of C05); it is written to Result.Notes under
// `panic:<prog>` and takes part in the re-run comparison as a terminal event,
// so a panic that only happens in some runs still is a rerun-differs violation.
package c05oracle

import (
	"fmt"
	"os"
	"runtime/debug"
	"strings"
	"time"

	"github.com/itchyny/gojq"

	"verifharness/common"
	"verifharness/corpus"
)

const (
	stepBudget = 300_000 // VM instructions per run (deterministic, common.CountCtx)
	outputCap  = 300     // emitted values per run
	nodeCap    = 400_000 // tree nodes over all outputs of one run
)

type caseIn struct {
	in, v, w input
	copyIn   any // deep copies taken before the first run (expected values, fresh-copy runs)
	copyV    any
	copyW    any
	first    []string // transcript of run 1
	firstHow string
	dead     bool // not comparable (too deep / too big value)
	// how the arguments were built, rendered BEFORE the first run
	builtIn, builtV, builtW string
	expressible             bool
}

type retained struct {
	f      *frozen
	caseNo int
	runNo  int
	outNo  int
}

type state struct {
	ctx      *common.Ctx
	orc      *common.Oracle
	g        *gen
	runs     int
	cases    int
	programs int
	sharing  map[string]bool
	panics   int
	start    time.Time
	limit    time.Duration
	stopped  bool
	sampled  map[string]int
	sr       *common.Rand
}

func (s *state) dist(k string) { s.orc.Distribution[k]++ }

// debugf prints to stderr when C05ORC_DEBUG is set (generator maintenance only).
func (s *state) debugf(format string, a ...any) {
	if os.Getenv("C05ORC_DEBUG") != "" {
		fmt.Fprintf(os.Stderr, format+"\n", a...)
	}
}

// Run executes the C05 search and records one oracle ("isolation") in ctx.
func Run(ctx *common.Ctx) {
	rule := "every (program, input, $v, $w) is run ≥ 3 times on ONE *Code (same objects twice, then equal fresh deep copies; runs on the program's other inputs interleaved; a quarter of the variable-free programs also through the shared *Query) under a step budget; " +
		"input, variables and code constants are snapshotted physically (pointer, len, cap, full backing array incl. spare capacity) before and compared after every Next; each output is snapshotted at emission and re-compared after every later Next, at the end and after later runs; " +
		"transcripts (canonical values + gojq.Marshal bytes + terminal error text) of run k and run 1 must be identical. " +
		"distinct = number of distinct programs that emitted at least one array/object occupying the same heap cell (map pointer or slice element slot) as a container of the input, a variable, a code constant or an earlier output of the same run, i.e. programs for which structure sharing actually occurred"
	s := &state{ctx: ctx, orc: ctx.NewOracle("isolation", rule), g: &gen{r: ctx.R.Fork(5)}, sharing: map[string]bool{}, start: time.Now(), sr: ctx.R.Fork(9)}
	s.limit = time.Duration(ctx.N(50, 780)) * time.Second
	r := ctx.R

	// 1. corpus: every usable query of cli/test.yaml with its own inputs (+ value-preserving
	//    variants of them with spare capacity / unified equal substructure).
	for _, e := range corpus.Load() {
		if !usable(e.Query) {
			s.dist("skipped:word-filter")
			continue
		}
		s.runProgram(program{Src: e.Query, Shape: "any", Origin: "corpus", Corpus: e.Inputs})
	}
	// 1b. allocator-address-reuse stress (few, long runs with their own step budget)
	for k := 0; k < ctx.N(2, 6); k++ {
		s.runProgram(program{Src: stressProgram, Shape: "num", Origin: "stress", Corpus: []any{10000, 6000 + 1000*k}, Budget: 80_000_000})
	}
	// 2. templates with random holes, 3. recursive grammar — interleaved so that a wall-clock
	//    stop keeps both.
	nInst := ctx.N(3, 90)
	nGrammar := ctx.N(900, 27000)
	perRound := nGrammar / nInst
	for inst := 0; inst < nInst && !s.stopped; inst++ {
		for _, t := range templates {
			s.runProgram(program{Src: fill(r, t.Src), Shape: t.Shape, Origin: "template"})
		}
		for i := 0; i < perRound; i++ {
			s.runProgram(randomProgram(r))
		}
	}
	s.orc.Cases = s.runs
	s.orc.Distinct = len(s.sharing)
	s.orc.Distribution["total:programs"] = s.programs
	s.orc.Distribution["total:cases(program,input)"] = s.cases
	s.orc.Distribution["total:runs"] = s.runs
	s.orc.Distribution["total:templates"] = len(templates)
	if s.stopped {
		ctx.Res.Notes = append(ctx.Res.Notes, fmt.Sprintf("C05 oracle: wall-clock limit %v reached after %d programs; remaining programs not generated", s.limit, s.programs))
	}
}

func constantsOf(code *gojq.Code) []any {
	var out []any
	for _, in := range gojq.VerifCodes(code) {
		switch in.Value.(type) {
		case []any, map[string]any:
			out = append(out, in.Value)
		}
	}
	return out
}

func (s *state) runProgram(p program) {
	if s.stopped {
		return
	}
	if time.Since(s.start) > s.limit {
		s.stopped = true
		return
	}
	if !usable(p.Src) {
		s.dist("skipped:word-filter")
		return
	}
	var q *gojq.Query
	var code *gojq.Code
	var err error
	func() {
		defer func() {
			if r := recover(); r != nil {
				err = fmt.Errorf("panic: %v", r)
			}
		}()
		q, err = gojq.Parse(p.Src)
		if err != nil {
			s.dist("skipped:parse-error")
			s.debugf("parse error: %s: %v", p.Src, err)
			return
		}
		code, err = gojq.Compile(q, gojq.WithVariables([]string{"$v", "$w"}))
		if err != nil {
			s.dist("skipped:compile-error")
			s.debugf("compile error: %s: %v", p.Src, err)
		}
	}()
	if err != nil || code == nil {
		return
	}
	s.programs++
	s.dist("origin:" + p.Origin)
	cons := constructsOf(p.Src)
	usesVars := strings.Contains(p.Src, "$v") || strings.Contains(p.Src, "$w")

	// ---- inputs ---------------------------------------------------------------------------
	var cs []*caseIn
	add := func(in input) {
		c := &caseIn{in: in}
		if usesVars {
			c.v, c.w = s.g.variables(in.V)
		} else {
			c.v, c.w = input{[]any{1, 2}, "plain"}, input{map[string]any{"a": 1}, "plain"}
		}
		cs = append(cs, c)
	}
	if p.Origin == "stress" {
		for _, v := range p.Corpus {
			add(input{v, "size"})
		}
	} else if p.Origin == "corpus" {
		for i, v := range p.Corpus {
			if i >= 4 {
				break
			}
			add(input{common.DeepCopy(v), "corpus"})
			switch v.(type) {
			case []any, map[string]any:
				add(input{s.g.spareify(common.DeepCopy(v), 1, 2, true), "corpus+spare"})
				if u, ok := unify(common.DeepCopy(v)); ok {
					add(input{u, "corpus+unify"})
				}
			}
		}
	} else {
		k0 := s.g.r.Intn(5)
		for i := 0; i < 3; i++ {
			add(s.g.makeInput(p.Shape, k0+i+s.g.r.Intn(2)))
		}
	}
	for _, c := range cs {
		c.copyIn, c.copyV, c.copyW = common.DeepCopy(c.in.V), common.DeepCopy(c.v.V), common.DeepCopy(c.w.V)
		c.expressible = jsonExpressible(c.in.V) && jsonExpressible(c.v.V) && jsonExpressible(c.w.V) && c.v.Kind != "shares-input" && c.w.Kind != "shares-input"
		if !c.expressible {
			c.builtIn, c.builtV, c.builtW = Describe(c.in.V), Describe(c.v.V), Describe(c.w.V)
		}
	}

	// ---- snapshots that live as long as the *Code ---------------------------------------------
	var constants []*frozen
	for _, k := range constantsOf(code) {
		constants = append(constants, freeze(k, physCap))
	}
	type argSnap struct{ in, v, w *frozen }
	snaps := make([]argSnap, len(cs))
	for i, c := range cs {
		snaps[i] = argSnap{freeze(c.in.V, physCap), freeze(c.v.V, physCap), freeze(c.w.V, physCap)}
	}
	var kept []retained

	replayOf := func(ci int, how string, runNo int) map[string]any {
		c := cs[ci]
		m := map[string]any{
			"program": p.Src, "origin": p.Origin, "run": runNo, "run_kind": how,
			"input": marshal(c.copyIn), "input_kind": c.in.Kind,
			"v": marshal(c.copyV), "v_kind": c.v.Kind, "w": marshal(c.copyW), "w_kind": c.w.Kind,
			"history": "runs of this *Code so far: inputs 0.." + fmt.Sprint(len(cs)-1) + " in order, round 1 and 2 on the same Go objects, round 3 on fresh deep copies",
		}
		if p.Origin == "stress" {
			m["cmd_loop"] = "for i in 1 2 3 4 5 6; do echo " + marshal(c.copyIn) + " | gojq -c " + shQuote(p.Src) + "; done   # every line must be []; observed: non-empty lines that differ from run to run (depends on when the Go GC runs)"
			m["correct_output"] = "[] in every run (`expected` below is merely what run 1 produced)"
			m["mechanism"] = "func.go allocator identifies the containers it owns by address only (map[uintptr]struct{}); updateArrayIndex re-allocates an owned array that outgrows its capacity and the dead array's address stays registered; after a GC the address is reused by an array built by the update query, allocated(v) is then true for it and updateArrayIndex writes into it in place although it is shared"
		}
		if c.expressible {
			m["cmd"] = "echo " + shQuote(marshal(c.copyIn)) + " | gojq -c --argjson v " + shQuote(marshal(c.copyV)) + " --argjson w " + shQuote(marshal(c.copyW)) + " " + shQuote(p.Src) +
				"   # shows the outputs only; the violation itself needs the Go API (snapshot the input before Code.Run, compare after each Next)"
		} else {
			m["cmd"] = "not expressible as JSON: the input/variables have aliased substructure or spare capacity, see *_built"
			m["input_built"], m["v_built"], m["w_built"] = c.builtIn, c.builtV, c.builtW
			m["built_legend"] = "kind shares-input: $v is input[1:] / $w is the first object-valued member of the input (same Go objects); &n marks a Go map/slice object referenced again as *n; `|cap=c: …` is the content of the spare capacity beyond len; A<k>[lo:hi]= marks slices that are windows of one backing array A<k>"
		}
		return m
	}

	// checkShared verifies everything that must never change; `when` says after what.
	checkShared := func(ci int, how string, runNo int, when string) {
		for i, k := range constants {
			if kind, now := k.changed(); kind != "" {
				rp := replayOf(ci, how, runNo)
				rp["constant_index"], rp["when"], rp["change"] = i, when, kind
				rp["expected"], rp["observed"] = k.json, now
				rp["expected_physical"] = k.phys
				s.ctx.Violate("mutated-constant:"+p.Src, "a constant operand of the compiled code changed ("+kind+" change) "+when, rp)
				constants[i] = freeze(k.v, physCap)
			}
		}
		for i := range snaps {
			for j, f := range []*frozen{snaps[i].in, snaps[i].v, snaps[i].w} {
				if kind, now := f.changed(); kind != "" {
					rp := replayOf(i, how, runNo)
					rp["which"], rp["when"], rp["change"] = []string{"input", "$v", "$w"}[j], when, kind
					rp["mutated_by_run_on_input_no"] = ci
					rp["expected"], rp["observed"] = f.json, now
					rp["expected_physical"] = f.phys
					s.ctx.Violate("mutated-input:"+p.Src, []string{"the input value", "the value of $v", "the value of $w"}[j]+" changed ("+kind+" change) "+when, rp)
					nf := freeze(f.v, physCap)
					switch j {
					case 0:
						snaps[i].in = nf
					case 1:
						snaps[i].v = nf
					default:
						snaps[i].w = nf
					}
				}
			}
		}
	}
	checkKept := func(ci int, how string, runNo int, when string) {
		for i := range kept {
			k := &kept[i]
			if k.f == nil {
				continue
			}
			if kind, now := k.f.changed(); kind != "" {
				rp := replayOf(k.caseNo, how, runNo)
				rp["output_index"], rp["emitted_in_run"], rp["when"], rp["change"] = k.outNo, k.runNo, when, kind
				rp["expected"], rp["observed"] = k.f.json, now
				s.ctx.Violate("mutated-output:"+p.Src, fmt.Sprintf("output %d emitted in run %d changed (%s change) %s", k.outNo, k.runNo, kind, when), rp)
				k.f = nil
			}
		}
	}

	// ---- one run ----------------------------------------------------------------------------------
	runNo := 0
	exec := func(ci int, how string, inV, vV, wV any, viaQuery bool) (tr []string, comparable bool) {
		runNo++
		s.runs++
		s.dist("runs:" + how)
		c := cs[ci]
		comparable = true
		// arguments of THIS run (fresh copies are frozen too: they must not change either)
		var own []*frozen
		if how != "same-object" {
			own = []*frozen{freeze(inV, physCap), freeze(vV, physCap), freeze(wV, physCap)}
		}
		base := cellSet{}
		measureSharing := how == "same-object" && c.first == nil
		if measureSharing {
			cells(inV, base)
			cells(vV, base)
			cells(wV, base)
			for _, k := range constants {
				cells(k.v, base)
			}
		}
		budget := stepBudget
		if p.Budget > 0 {
			budget = p.Budget
		}
		cctx := common.NewCountCtx(budget)
		var iter gojq.Iter
		var outs []*frozen
		nodes := 0
		checkOwn := func(when string) {
			for j, f := range own {
				if kind, now := f.changed(); kind != "" {
					rp := replayOf(ci, how, runNo)
					rp["which"], rp["when"], rp["change"] = []string{"input", "$v", "$w"}[j], when, kind
					rp["expected"], rp["observed"] = f.json, now
					s.ctx.Violate("mutated-input:"+p.Src, []string{"the input value", "the value of $v", "the value of $w"}[j]+" (fresh deep copy) changed ("+kind+" change) "+when, rp)
					own[j] = freeze(f.v, physCap)
				}
			}
		}
		checkOuts := func(upto int, when string, all bool) {
			for i := 0; i < upto; i++ {
				f := outs[i]
				if f == nil {
					continue
				}
				if !all && upto > 24 && i < upto-8 && i%16 != upto%16 {
					continue
				}
				if kind, now := f.changed(); kind != "" {
					rp := replayOf(ci, how, runNo)
					rp["output_index"], rp["emitted_in_run"], rp["when"], rp["change"] = i, runNo, when, kind
					rp["expected"], rp["observed"] = f.json, now
					s.ctx.Violate("mutated-output:"+p.Src, fmt.Sprintf("output %d changed (%s change) %s", i, kind, when), rp)
					outs[i] = nil
				}
			}
		}
		next := func() (x any, ok bool, pan string) {
			defer func() {
				if r := recover(); r != nil {
					pan = fmt.Sprint(r)
					if s.panics < 10 {
						s.ctx.Res.Notes = append(s.ctx.Res.Notes, fmt.Sprintf("panic:%s (input %s) %v\n%s", p.Src, clip(marshal(c.copyIn), 300), r, clip(string(debug.Stack()), 1500)))
					}
					s.panics++
					s.dist("outcome:panic")
				}
			}()
			if iter == nil {
				if viaQuery {
					iter = q.RunWithContext(cctx, inV)
				} else {
					iter = code.RunWithContext(cctx, inV, vV, wV)
				}
			}
			x, ok = iter.Next()
			return
		}
		emit := func(x any, n int, isErrValue bool) bool {
			sh := measure(x)
			if sh.Cyclic {
				rp := replayOf(ci, how, runNo)
				rp["output_index"], rp["when"] = n, "at emission"
				s.ctx.Violate("mutated-output:"+p.Src, "cyclic or too deep value: output "+fmt.Sprint(n)+" is cyclic at emission (a container was written into itself)", rp)
				comparable = false
				return false
			}
			if !sh.ok() || sh.Foreign != "" {
				if sh.Foreign != "" {
					s.dist("outcome:foreign-value-" + sh.Foreign)
				} else {
					s.dist("outcome:too-deep-or-too-big")
				}
				comparable = false
				return false
			}
			nodes += sh.Nodes
			f := freeze(x, physLen)
			if measureSharing && !isErrValue {
				if shares(x, base) {
					s.sharing[p.Src] = true
				}
				cells(x, base)
			}
			outs = append(outs, f)
			tr = append(tr, f.val+"\x00"+f.json)
			return true
		}
		for n := 0; ; n++ {
			x, ok, pan := next()
			when := fmt.Sprintf("after Next #%d of run %d (%s, input no %d)", n+1, runNo, how, ci)
			checkShared(ci, how, runNo, when)
			checkOwn(when)
			checkOuts(len(outs), when, false)
			if pan != "" {
				tr = append(tr, "PANIC "+pan)
				break
			}
			if !ok {
				tr = append(tr, "END")
				s.dist("outcome:exhausted")
				break
			}
			if e, isErr := x.(error); isErr {
				if e == common.ErrBudget {
					tr = append(tr, "BUDGET")
					s.dist("outcome:step-budget")
					break
				}
				if ve, isVal := e.(gojq.ValueError); isVal {
					if !emit(ve.Value(), n, true) {
						break
					}
					tr[len(tr)-1] = "ERRVALUE " + tr[len(tr)-1]
				} else {
					tr = append(tr, "ERR "+e.Error())
				}
				s.dist("outcome:error")
				break
			}
			if !emit(x, n, false) {
				break
			}
			if len(outs) >= outputCap {
				tr = append(tr, "OUTPUT-CAP")
				s.dist("outcome:output-cap")
				break
			}
			if nodes > nodeCap {
				tr = append(tr, "NODE-CAP")
				s.dist("outcome:node-cap")
				break
			}
		}
		when := fmt.Sprintf("at the end of run %d (%s, input no %d)", runNo, how, ci)
		checkOuts(len(outs), when, true)
		checkKept(ci, how, runNo, when)
		for i, f := range outs {
			if i >= 24 || len(kept) >= 400 {
				break
			}
			if f != nil {
				kept = append(kept, retained{f, ci, runNo, i})
			}
		}
		return tr, comparable
	}

	compare := func(ci int, how string, tr []string) {
		c := cs[ci]
		if c.first == nil {
			c.first, c.firstHow = tr, how
			return
		}
		if len(tr) == len(c.first) {
			same := true
			for i := range tr {
				if tr[i] != c.first[i] {
					same = false
					break
				}
			}
			if same {
				return
			}
		}
		i := 0
		for i < len(tr) && i < len(c.first) && tr[i] == c.first[i] {
			i++
		}
		get := func(t []string, i int) string {
			if i >= len(t) {
				return "(no event)"
			}
			if k := strings.IndexByte(t[i], 0); k >= 0 {
				return t[i][k+1:]
			}
			return t[i]
		}
		rp := replayOf(ci, how, runNo)
		rp["first_difference_at_event"] = i
		rp["expected"], rp["observed"] = clip(get(c.first, i), 2000), clip(get(tr, i), 2000)
		rp["events_run1"], rp["events_this_run"] = len(c.first), len(tr)
		what := fmt.Sprintf("run %d (%s) differs from run 1 (%s) of the same *Code on an equal input at event %d", runNo, how, c.firstHow, i)
		if strings.HasPrefix(get(tr, i), "cyclic") {
			what = "cyclic or too deep value; " + what
		}
		s.ctx.Violate("rerun-differs:"+p.Src, what, rp)
	}

	// ---- history: A B C | A B C (same objects) | A' B' C' (fresh copies) | via *Query ---------
	for round := 0; round < 2; round++ {
		for ci, c := range cs {
			if c.dead {
				continue
			}
			tr, ok := exec(ci, "same-object", c.in.V, c.v.V, c.w.V, false)
			if !ok {
				c.dead = true
				continue
			}
			compare(ci, "same-object", tr)
		}
	}
	for ci, c := range cs {
		if c.dead {
			continue
		}
		tr, ok := exec(ci, "fresh-copy", common.DeepCopy(c.copyIn), common.DeepCopy(c.copyV), common.DeepCopy(c.copyW), false)
		if ok {
			compare(ci, "fresh-copy", tr)
		}
	}
	if !usesVars && s.g.r.Chance(1, 4) {
		for ci, c := range cs {
			if c.dead {
				continue
			}
			tr, ok := exec(ci, "query-run", common.DeepCopy(c.copyIn), nil, nil, true)
			if ok {
				compare(ci, "query-run", tr)
			}
		}
	}
	checkShared(len(cs)-1, "end", runNo, "after all runs of the program")
	checkKept(len(cs)-1, "end", runNo, "after all runs of the program")

	// ---- bookkeeping ----------------------------------------------------------------------------
	for _, c := range cs {
		s.cases++
		s.dist("input:" + c.in.Kind)
		if usesVars {
			s.dist("variable:" + c.v.Kind)
			s.dist("variable:" + c.w.Kind)
		}
		if c.dead {
			s.dist("case:not-comparable")
		} else if n := len(c.first); n > 0 {
			last := c.first[n-1]
			switch {
			case last == "END":
				s.dist(fmt.Sprintf("case:ok-%s-outputs", bucket(n-1)))
			case strings.HasPrefix(last, "ERR"):
				s.dist("case:error")
			default:
				s.dist("case:" + strings.SplitN(last, " ", 2)[0])
			}
		}
		for _, k := range cons {
			s.dist("construct:" + k)
		}
	}
	if s.sharing[p.Src] {
		s.dist("program:shared-structure-" + p.Origin)
	}
	if s.sampled == nil {
		s.sampled = map[string]int{}
	}
	if s.sampled[p.Origin] < 4 && s.sr.Chance(1, 40) {
		s.sampled[p.Origin]++
		c := cs[0]
		s.orc.Samples = append(s.orc.Samples, fmt.Sprintf("%s  <<<  %s (%s)  =>  %d events, shared=%v", clip(p.Src, 160), clip(Describe(c.in.V), 200), c.in.Kind, len(c.first), s.sharing[p.Src]))
	}
}

func bucket(n int) string {
	switch {
	case n == 0:
		return "0"
	case n == 1:
		return "1"
	case n <= 4:
		return "2-4"
	case n <= 20:
		return "5-20"
	}
	return "21+"
}

func clip(s string, n int) string {
	if len(s) > n {
		return s[:n] + "…"
	}
	return s
}

package c05oracle

import (
	"encoding/hex"
	"encoding/json"
	"fmt"
	"math"
	"math/big"
	"reflect"
	"sort"
	"strconv"
	"strings"
	"unsafe"

	"github.com/itchyny/gojq"
)

// Limits of every walk the oracle does over a value produced by the real code.
// A value that the real code made cyclic must never overflow the harness stack.
const (
	maxDepth = 300    // containers nested deeper than this are not walked
	maxNodes = 60_000 // nodes of one value (tree size, shared substructure counted per reference)
)

// shape is the result of the guarded pre-walk of a value.
type shape struct {
	Nodes   int
	Depth   int
	Cyclic  bool // a container is reachable from itself
	TooDeep bool // deeper than maxDepth without a cycle having been found
	TooBig  bool // more than maxNodes tree nodes
	Foreign string
}

func (s shape) ok() bool { return !s.Cyclic && !s.TooDeep && !s.TooBig }

type ident struct {
	p uintptr
	n int
}

// measure walks v with a depth guard, a node budget and an on-path set of
// container identities (map pointer; slice data pointer + length): it never
// recurses deeper than maxDepth+1 frames.
func measure(v any) shape {
	var s shape
	onPath := map[ident]bool{}
	var walk func(v any, d int)
	walk = func(v any, d int) {
		if s.Cyclic || s.TooDeep || s.TooBig {
			return
		}
		s.Nodes++
		if s.Nodes > maxNodes {
			s.TooBig = true
			return
		}
		if d > s.Depth {
			s.Depth = d
		}
		switch v := v.(type) {
		case nil, bool, int, float64, *big.Int, string, json.Number:
		case []any:
			if len(v) == 0 {
				return
			}
			id := ident{reflect.ValueOf(v).Pointer(), len(v)}
			if onPath[id] {
				s.Cyclic = true
				return
			}
			if d >= maxDepth {
				s.TooDeep = true
				return
			}
			onPath[id] = true
			for _, x := range v {
				walk(x, d+1)
			}
			delete(onPath, id)
		case map[string]any:
			if len(v) == 0 {
				return
			}
			id := ident{reflect.ValueOf(v).Pointer(), -1}
			if onPath[id] {
				s.Cyclic = true
				return
			}
			if d >= maxDepth {
				s.TooDeep = true
				return
			}
			onPath[id] = true
			for _, x := range v {
				walk(x, d+1)
			}
			delete(onPath, id)
		default:
			if s.Foreign == "" {
				s.Foreign = fmt.Sprintf("%T", v)
			}
		}
	}
	walk(v, 0)
	return s
}

// canonMode selects what the canonical string records besides the value.
type canonMode int

const (
	valueOnly canonMode = iota // the JSON value only (common.Canon with a depth guard)
	physLen                    // + identity (pointer, len) of every container, elements [0:len]
	physCap                    // + identity (pointer, len, cap) and the FULL backing array [0:cap]
)

type canonizer struct {
	sb    strings.Builder
	mode  canonMode
	nodes int
	bad   bool
}

// canonG is common.Canon with a depth guard ("TOO-DEEP" at depth maxDepth) and
// a node budget ("TOO-BIG"); in the physical modes every container is
// prefixed with its identity so that two renderings are equal iff no
// container reachable from the root was written to (same pointers, same
// lengths, same leaves) — in mode physCap including the spare capacity of
// every slice.
func canonG(v any, mode canonMode) string {
	c := &canonizer{mode: mode}
	c.walk(v, 0)
	return c.sb.String()
}

func (c *canonizer) leaf(v any) bool {
	sb := &c.sb
	switch v := v.(type) {
	case nil:
		sb.WriteString("n")
	case bool:
		if v {
			sb.WriteString("t")
		} else {
			sb.WriteString("f")
		}
	case int:
		sb.WriteString("i")
		sb.WriteString(strconv.Itoa(v))
	case *big.Int:
		if v == nil {
			sb.WriteString("i<nil>")
		} else {
			sb.WriteString("i" + v.String())
		}
	case float64:
		if math.IsNaN(v) {
			sb.WriteString("dNaN")
		} else {
			sb.WriteString("d")
			sb.WriteString(strconv.FormatUint(math.Float64bits(v), 16))
		}
	case json.Number:
		sb.WriteString("j" + string(v))
	case string:
		sb.WriteString("s" + hex.EncodeToString([]byte(v)))
	default:
		return false
	}
	return true
}

func (c *canonizer) walk(v any, d int) {
	if c.bad {
		return
	}
	c.nodes++
	if c.nodes > maxNodes {
		c.sb.WriteString("TOO-BIG")
		c.bad = true
		return
	}
	if c.leaf(v) {
		return
	}
	sb := &c.sb
	switch v := v.(type) {
	case []any:
		if d >= maxDepth {
			sb.WriteString("TOO-DEEP")
			c.bad = true
			return
		}
		sb.WriteString("[")
		switch c.mode {
		case physLen:
			if cap(v) > 0 {
				fmt.Fprintf(sb, "@%x:%d", reflect.ValueOf(v).Pointer(), len(v))
			}
		case physCap:
			if cap(v) > 0 {
				fmt.Fprintf(sb, "@%x:%d:%d", reflect.ValueOf(v).Pointer(), len(v), cap(v))
			}
		}
		for _, x := range v {
			sb.WriteString(" ")
			c.walk(x, d+1)
		}
		if c.mode == physCap && cap(v) > len(v) {
			sb.WriteString(" |")
			for _, x := range v[len(v):cap(v)] {
				sb.WriteString(" ")
				c.walk(x, d+1)
			}
		}
		sb.WriteString(" ]")
	case map[string]any:
		if d >= maxDepth {
			sb.WriteString("TOO-DEEP")
			c.bad = true
			return
		}
		keys := make([]string, 0, len(v))
		for k := range v {
			keys = append(keys, k)
		}
		sort.Strings(keys)
		sb.WriteString("{")
		if c.mode != valueOnly && v != nil {
			fmt.Fprintf(sb, "@%x:%d", reflect.ValueOf(v).Pointer(), len(v))
		}
		for _, k := range keys {
			sb.WriteString(" s" + hex.EncodeToString([]byte(k)) + " ")
			c.walk(v[k], d+1)
		}
		sb.WriteString(" }")
	default:
		fmt.Fprintf(sb, "?%T", v)
	}
}

// marshal is gojq.Marshal with the panic of a foreign value recovered.
func marshal(v any) (s string) {
	defer func() {
		if r := recover(); r != nil {
			s = fmt.Sprint("MARSHAL-PANIC ", r)
		}
	}()
	if sh := measure(v); !sh.ok() {
		return "cyclic or too deep value"
	}
	b, err := gojq.Marshal(v)
	if err != nil {
		return "MARSHAL-ERROR " + err.Error()
	}
	return string(b)
}

// frozen is a value under observation together with what it looked like when
// the observation started.
type frozen struct {
	v    any
	mode canonMode
	phys string // canonG(v, mode) at freeze time
	val  string // canonG(v, valueOnly) at freeze time
	json string // gojq.Marshal at freeze time
	dead bool   // already cyclic / too deep when frozen: not observed any further
}

func freeze(v any, mode canonMode) *frozen {
	if !measure(v).ok() {
		return &frozen{v: v, mode: mode, dead: true, json: "cyclic or too deep value"}
	}
	return &frozen{v: v, mode: mode, phys: canonG(v, mode), val: canonG(v, valueOnly), json: marshal(v)}
}

// changed re-renders the value and reports how it differs from the snapshot:
// "" (unchanged), "value" (the JSON value itself differs) or "physical" (the
// value reads the same but a container identity / spare-capacity slot differs).
func (f *frozen) changed() (kind, now string) {
	if f.dead {
		return "", ""
	}
	if s := measure(f.v); !s.ok() {
		if s.Cyclic {
			return "value", "cyclic or too deep value: the value became cyclic"
		}
		return "value", "cyclic or too deep value"
	}
	p := canonG(f.v, f.mode)
	if p == f.phys {
		return "", ""
	}
	if w := canonG(f.v, valueOnly); w != f.val {
		return "value", marshal(f.v)
	}
	return "physical", p
}

// ---------------------------------------------------------------------------------------------
// identities: which heap cells a value occupies (sharing measurement only)

type cellSet map[uintptr]struct{}

const slotSize = unsafe.Sizeof((any)(nil))

// cells adds the identity of every container of v to set: the map pointer, and
// for slices the address of every element slot up to cap (so that a subslice
// of a backing array is recognised as sharing it). At most 4096 cells per value.
func cells(v any, set cellSet) {
	budget := 4096
	var walk func(v any, d int)
	walk = func(v any, d int) {
		if budget <= 0 || d > maxDepth {
			return
		}
		switch v := v.(type) {
		case []any:
			if cap(v) == 0 {
				return
			}
			p := reflect.ValueOf(v).Pointer()
			for i := 0; i < cap(v) && i < 64; i++ {
				set[p+uintptr(i)*slotSize] = struct{}{}
				budget--
			}
			for _, x := range v {
				walk(x, d+1)
			}
		case map[string]any:
			if v == nil {
				return
			}
			set[reflect.ValueOf(v).Pointer()] = struct{}{}
			budget--
			for _, x := range v {
				walk(x, d+1)
			}
		}
	}
	walk(v, 0)
}

// shares reports whether some container of v occupies a cell of set.
func shares(v any, set cellSet) bool {
	budget := 4096
	found := false
	var walk func(v any, d int)
	walk = func(v any, d int) {
		if found || budget <= 0 || d > maxDepth {
			return
		}
		budget--
		switch v := v.(type) {
		case []any:
			if cap(v) == 0 {
				return
			}
			if _, ok := set[reflect.ValueOf(v).Pointer()]; ok {
				found = true
				return
			}
			for _, x := range v {
				walk(x, d+1)
			}
		case map[string]any:
			if v == nil {
				return
			}
			if _, ok := set[reflect.ValueOf(v).Pointer()]; ok {
				found = true
				return
			}
			for _, x := range v {
				walk(x, d+1)
			}
		}
	}
	walk(v, 0)
	return found
}

// ---------------------------------------------------------------------------------------------
// describe: a readable rendering of a harness-built value that shows what JSON cannot —
// one container referenced several times (&n … *n), spare capacity and its content,
// slices that are windows of one backing array.

type describer struct {
	sb     strings.Builder
	count  map[ident]int
	label  map[ident]int
	arrays []arrRange // backing arrays used by more than one distinct slice window
	next   int
	nodes  int
}

type arrRange struct {
	lo, hi uintptr
	n      int
	id     int
}

func identOf(v any) (ident, bool) {
	switch v := v.(type) {
	case []any:
		if cap(v) == 0 {
			return ident{}, false
		}
		return ident{reflect.ValueOf(v).Pointer(), len(v)<<20 | cap(v)}, true
	case map[string]any:
		if v == nil {
			return ident{}, false
		}
		return ident{reflect.ValueOf(v).Pointer(), -1}, true
	}
	return ident{}, false
}

// Describe renders v as JSON extended with: `&n` on the first occurrence of a
// container that is referenced more than once and `*n` on later ones;
// `|cap=c: tail…` for a slice with spare capacity; `A<k>[lo:hi]` for slices that
// are windows of one shared backing array.
func Describe(v any) string {
	d := &describer{count: map[ident]int{}, label: map[ident]int{}}
	var ranges []arrRange
	var count func(v any, depth int)
	count = func(v any, depth int) {
		if depth > 64 {
			return
		}
		id, ok := identOf(v)
		if ok {
			d.count[id]++
			if d.count[id] > 1 {
				return
			}
		}
		switch v := v.(type) {
		case []any:
			if ok {
				p := reflect.ValueOf(v).Pointer()
				ranges = append(ranges, arrRange{lo: p, hi: p + uintptr(cap(v))*slotSize, n: 1})
			}
			for _, x := range v[:cap(v)] {
				count(x, depth+1)
			}
		case map[string]any:
			for _, x := range v {
				count(x, depth+1)
			}
		}
	}
	count(v, 0)
	sort.Slice(ranges, func(i, j int) bool { return ranges[i].lo < ranges[j].lo })
	for _, r := range ranges {
		if n := len(d.arrays); n > 0 && r.lo < d.arrays[n-1].hi {
			if r.hi > d.arrays[n-1].hi {
				d.arrays[n-1].hi = r.hi
			}
			d.arrays[n-1].n++
		} else {
			d.arrays = append(d.arrays, r)
		}
	}
	k := 0
	for i := range d.arrays {
		if d.arrays[i].n > 1 {
			k++
			d.arrays[i].id = k
		}
	}
	d.walk(v, 0)
	return d.sb.String()
}

func (d *describer) walk(v any, depth int) {
	d.nodes++
	if depth > 64 || d.nodes > 4000 {
		d.sb.WriteString("…")
		return
	}
	id, ok := identOf(v)
	if ok && d.count[id] > 1 {
		if n, seen := d.label[id]; seen {
			fmt.Fprintf(&d.sb, "*%d", n)
			return
		}
		d.next++
		d.label[id] = d.next
		fmt.Fprintf(&d.sb, "&%d ", d.next)
	}
	switch v := v.(type) {
	case []any:
		if ok {
			p := reflect.ValueOf(v).Pointer()
			for _, a := range d.arrays {
				if a.id > 0 && p >= a.lo && p < a.hi {
					off := int((p - a.lo) / slotSize)
					fmt.Fprintf(&d.sb, "A%d[%d:%d]=", a.id, off, off+len(v))
				}
			}
		}
		d.sb.WriteString("[")
		for i, x := range v {
			if i > 0 {
				d.sb.WriteString(",")
			}
			d.walk(x, depth+1)
		}
		if cap(v) > len(v) {
			fmt.Fprintf(&d.sb, " |cap=%d:", cap(v))
			for i, x := range v[len(v):cap(v)] {
				if i > 0 {
					d.sb.WriteString(",")
				}
				d.walk(x, depth+1)
			}
		}
		d.sb.WriteString("]")
	case map[string]any:
		keys := make([]string, 0, len(v))
		for k := range v {
			keys = append(keys, k)
		}
		sort.Strings(keys)
		d.sb.WriteString("{")
		for i, k := range keys {
			if i > 0 {
				d.sb.WriteString(",")
			}
			d.sb.WriteString(marshal(k) + ":")
			d.walk(v[k], depth+1)
		}
		d.sb.WriteString("}")
	default:
		d.sb.WriteString(marshal(v))
	}
}

// jsonExpressible reports whether v (a harness-built input) is fully described
// by its JSON text: no aliasing, no spare capacity, no NaN/Inf.
func jsonExpressible(v any) bool {
	seen := map[ident]bool{}
	okAll := true
	var walk func(v any, d int)
	walk = func(v any, d int) {
		if !okAll || d > 64 {
			return
		}
		if id, ok := identOf(v); ok {
			if seen[id] {
				okAll = false
				return
			}
			seen[id] = true
		}
		switch v := v.(type) {
		case float64:
			if math.IsNaN(v) || math.IsInf(v, 0) {
				okAll = false
			}
		case []any:
			if cap(v) > len(v) {
				okAll = false
				return
			}
			for _, x := range v {
				walk(x, d+1)
			}
		case map[string]any:
			for _, x := range v {
				walk(x, d+1)
			}
		}
	}
	walk(v, 0)
	if okAll {
		// two distinct slice windows of one backing array are aliasing too
		var rs []arrRange
		var coll func(v any, d int)
		coll = func(v any, d int) {
			if d > 64 {
				return
			}
			switch v := v.(type) {
			case []any:
				if cap(v) > 0 {
					p := reflect.ValueOf(v).Pointer()
					rs = append(rs, arrRange{lo: p, hi: p + uintptr(cap(v))*slotSize})
				}
				for _, x := range v {
					coll(x, d+1)
				}
			case map[string]any:
				for _, x := range v {
					coll(x, d+1)
				}
			}
		}
		coll(v, 0)
		sort.Slice(rs, func(i, j int) bool { return rs[i].lo < rs[j].lo })
		for i := 1; i < len(rs); i++ {
			if rs[i].lo < rs[i-1].hi {
				return false
			}
		}
	}
	return okAll
}

func shQuote(s string) string { return "'" + strings.ReplaceAll(s, "'", `'\''`) + "'" }

module verifharness

go 1.24.0

require github.com/itchyny/gojq v0.0.0

require github.com/itchyny/timefmt-go v0.1.8 // indirect

replace github.com/itchyny/gojq => /repo

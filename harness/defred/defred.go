// Package defred rewrites the update operators of a query into their DEFINING REDUCTIONS
// written in jq itself, so that the real implementation can be compared with itself:
//
//	l |= f     ->  MOD(l; f)      reduce path(l) … setpath($p; getpath($p) | first(f)) / delpaths
//	l = r      ->  ASSIGN(l; r)   r as $x | reduce path(l) as $p (.; setpath($p; $x))
//	l op= r    ->  UPDop(l; r)    r as $x | MOD(l; . op $x)
//
// gojq evaluates the operators with hand-written bytecode and in-place ("allocator") updates;
// the rewritten program goes through plain reduce / setpath / getpath / delpaths. C02 states
// that both give the same results for every program.
package defred

import (
	"reflect"

	"github.com/itchyny/gojq"
)

// Defs are prepended to a rewritten program.
const Defs = `def MOD(paths; update): reduce path(paths) as $p ([., []]; . as [$x, $d] | label $out | (($x | setpath($p; $x | getpath($p) | update)) as $y | [$y, $d] | ., break $out), [$x, $d + [$p]]) | . as [$x, $d] | $x | delpaths($d);
def ASSIGN(paths; $x): reduce path(paths) as $p (.; setpath($p; $x));
def UPDadd(p; $x): MOD(p; . + $x); def UPDsub(p; $x): MOD(p; . - $x); def UPDmul(p; $x): MOD(p; . * $x);
def UPDdiv(p; $x): MOD(p; . / $x); def UPDmod(p; $x): MOD(p; . % $x); def UPDalt(p; $x): MOD(p; . // $x);
`

var names = map[gojq.Operator]string{
	gojq.OpModify: "MOD", gojq.OpAssign: "ASSIGN", gojq.OpUpdateAdd: "UPDadd", gojq.OpUpdateSub: "UPDsub",
	gojq.OpUpdateMul: "UPDmul", gojq.OpUpdateDiv: "UPDdiv", gojq.OpUpdateMod: "UPDmod", gojq.OpUpdateAlt: "UPDalt",
}

var queryType = reflect.TypeOf(&gojq.Query{})

// Rewrite replaces every update operator in q (in place); it returns how many were replaced.
func Rewrite(q *gojq.Query) int {
	n := 0
	walk(reflect.ValueOf(q), &n)
	return n
}

func walk(v reflect.Value, n *int) {
	switch v.Kind() {
	case reflect.Ptr:
		if v.IsNil() {
			return
		}
		walk(v.Elem(), n)
		if v.Type() == queryType {
			q := v.Interface().(*gojq.Query)
			if name, ok := names[q.Op]; ok && q.Left != nil && q.Right != nil {
				*q = gojq.Query{Term: &gojq.Term{Type: gojq.TermTypeFunc, Func: &gojq.Func{Name: name, Args: []*gojq.Query{q.Left, q.Right}}}}
				*n++
			}
		}
	case reflect.Struct:
		for i := 0; i < v.NumField(); i++ {
			if v.Type().Field(i).IsExported() {
				walk(v.Field(i), n)
			}
		}
	case reflect.Slice:
		for i := 0; i < v.Len(); i++ {
			walk(v.Index(i), n)
		}
	}
}

// Program parses src, rewrites it and returns the text of the reduction form
// ("" when src has no update operator or does not parse).
func Program(src string) string {
	q, err := gojq.Parse(src)
	if err != nil {
		return ""
	}
	if Rewrite(q) == 0 {
		return ""
	}
	return Defs + q.String()
}

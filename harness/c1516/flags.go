// Package c1516 holds what the C15 and C16 harnesses share: the correspondence of
// cli/flags.go parseFlags with lean/Gojq/Model/Cli/Flags.lean (streams `flagtable`, `flags`
// of drv_c15 and drv_c16).
package c1516

import (
	"fmt"
	"sort"
	"strconv"
	"strings"

	"github.com/itchyny/gojq/cli"

	"verifharness/common"
)

// ---- parseFlags vs Model/Cli/Flags.lean -----------------------------------------------------

func hexArg(s string) string {
	if s == "" {
		return "e"
	}
	return common.Hex(s)
}

func commaOrDash(xs []string) string {
	if len(xs) == 0 {
		return "-"
	}
	return strings.Join(xs, ",")
}

func flagsAnswer(args []string) string {
	rest, fields, err := cli.VerifParseFlags(args)
	if err != nil {
		m := err.Error()
		name := func() string {
			i, j := strings.IndexByte(m, '`'), strings.LastIndexByte(m, '\'')
			if strings.HasPrefix(m, "invalid argument") {
				j = strings.Index(m, "': ")
			}
			if i < 0 || j <= i {
				return "?"
			}
			return hexArg(m[i+1 : j])
		}
		switch {
		case strings.HasPrefix(m, "unknown flag"):
			return "err unknown " + name()
		case strings.HasPrefix(m, "boolean flag"):
			return "err boolarg " + name()
		case strings.HasPrefix(m, "expected argument"):
			return "err expected " + name()
		case strings.HasPrefix(m, "expected 2 arguments"):
			return "err expected2 " + name()
		case strings.HasPrefix(m, "invalid argument"):
			return "err invalid " + name()
		}
		return "err other " + common.Hex(m)
	}
	var bools, libs, maps, pargs, pjson, rs []string
	indent := "-"
	pos := func(xs []any) (out []string) {
		for _, x := range xs {
			if x == nil {
				out = append(out, "nil")
			} else {
				out = append(out, hexArg(x.(string)))
			}
		}
		return
	}
	for _, f := range fields {
		switch f.Kind {
		case "bool":
			if f.Bool {
				bools = append(bools, f.Long)
			}
		case "int":
			if f.Int != nil {
				indent = strconv.Itoa(*f.Int)
			}
		case "list":
			for _, x := range f.List {
				libs = append(libs, hexArg(x))
			}
		case "map":
			for k, v := range f.Map {
				maps = append(maps, f.Long+":"+hexArg(k)+":"+hexArg(v))
			}
		case "positional":
			if f.Long == "args" {
				pargs = pos(f.Positional)
			} else {
				pjson = pos(f.Positional)
			}
		}
	}
	sort.Strings(bools)
	sort.Strings(maps)
	for _, x := range rest {
		rs = append(rs, hexArg(x))
	}
	return fmt.Sprintf("ok bools=%s indent=%s libs=%s maps=%s args=%s jsonargs=%s rest=%s", commaOrDash(bools), indent, commaOrDash(libs),
		commaOrDash(maps), commaOrDash(pargs), commaOrDash(pjson), commaOrDash(rs))
}

// FlagsCorrespondence runs the two streams.
func FlagsCorrespondence(ctx *common.Ctx, r *common.Rand) {
	tb := ctx.NewStream("flagtable", "Gojq.Flags.table (Model/Cli/Flags.lean = the struct tags of cli.flagopts)", "the table of (long, short, kind) read by reflection from the real option struct, in field order")
	_, fields, _ := cli.VerifParseFlags(nil)
	var ft []string
	for _, f := range fields {
		ft = append(ft, f.Long+"/"+f.Short+"/"+f.Kind)
	}
	ctx.RunStream(tb, []string{"table"}, []string{strings.Join(ft, ",")})

	st := ctx.NewStream("flags", "Gojq.Flags.parseFlags (Model/Cli/Flags.lean = cli/flags.go parseFlags)",
		"random argument lists: long and short boolean flags, bundles (valid, with unknown letters, with digits), --flag=value, -Ldir / -L=dir / -rLdir, --indent with good and bad numbers, the four map flags with names from a pool of 4 (so names repeat within and across flags), --args/--jsonargs interleaved, `--`, free arguments that look like numbers or flags, truncated lists; distinct = distinct answers")
	pool := []string{"-r", "-c", "-j", "-e", "-n", "-s", "-R", "-f", "-C", "-M", "-h", "-v", "--raw-output", "--raw-output0", "--join-output", "--compact-output", "--tab",
		"--null-input", "--slurp", "--stream", "--exit-status", "--yaml-input", "--yaml-output", "--from-file", "--raw-input", "--color-output", "--monochrome-output",
		"-rc", "-nre", "-rcj", "-sR", "-rZ", "-Zr", "-r9", "-9", "-e5", "-1", "-1.5", "-", "", "--", "--nope", "--tab=1", "--tab=", "-r=1", "---r", "--=x", "-é", "-rL", "-rLdir", "-Ldir", "-L=dir", "-L",
		"--library-path", "--library-path=d", "--indent", "--indent=3", "--indent=", "--indent=x", "--indent=+4", "--indent=-2", "--indent=99999999999999999999", "--indent=0x10", "--indent=1_0",
		"--arg", "--argjson", "--slurpfile", "--rawfile", "--arg=a", "--argjson=b", "--args", "--jsonargs", "--args=x", "q", ".", "file.json", "a=b", "x y", "é", "--arg=", "-x=1", "7", "+5", "-0"}
	names := []string{"a", "b", "c", ""}
	var lines, impl []string
	for i := 0; i < ctx.N(6000, 100000); i++ {
		var args []string
		for j, n := 0, r.Intn(8); j < n; j++ {
			a := common.Pick(r, pool)
			args = append(args, a)
			switch a {
			case "--arg", "--argjson", "--slurpfile", "--rawfile":
				if r.Chance(9, 10) {
					args = append(args, common.Pick(r, names))
					if r.Chance(9, 10) {
						args = append(args, common.Pick(r, []string{"1", "v", "", "--tab", "-r", "x y"}))
					}
				}
			case "--arg=a", "--argjson=b", "--arg=":
				if r.Chance(9, 10) {
					args = append(args, common.Pick(r, []string{"1", "v", "", "--tab"}))
				}
			case "--indent":
				if r.Chance(9, 10) {
					args = append(args, common.Pick(r, []string{"0", "2", "7", "10", "-1", "+3", "x", "", "1.5", "9223372036854775807", "9223372036854775808", "-9223372036854775808", "007"}))
				}
			}
		}
		parts := make([]string, len(args))
		for k, a := range args {
			parts[k] = common.Hex(a)
			if a == "" {
				parts[k] = "-"
			}
		}
		lines = append(lines, strings.Join(parts, " "))
		impl = append(impl, flagsAnswer(args))
		st.Distribution[fmt.Sprintf("args=%d", len(args))]++
	}
	ctx.RunStream(st, lines, impl)
}

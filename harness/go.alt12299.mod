module verifharness

go 1.24.0

require (
	github.com/itchyny/go-yaml v0.0.0-20251001235044-fca9a0999f15
	github.com/itchyny/gojq v0.0.0
)

require (
	github.com/clipperhouse/stringish v0.1.1 // indirect
	github.com/clipperhouse/uax29/v2 v2.3.0 // indirect
	github.com/itchyny/timefmt-go v0.1.8 // indirect
	github.com/mattn/go-isatty v0.0.20 // indirect
	github.com/mattn/go-runewidth v0.0.19 // indirect
	golang.org/x/sys v0.38.0 // indirect
)

replace github.com/itchyny/gojq => /tmp/seedtest-e0m5rj8t/repo

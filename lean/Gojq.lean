-- Root of the `Gojq` library: the shared model.  Property theorems are separate targets.
import Gojq.Model.Json

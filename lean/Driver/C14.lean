/- C14 driver.  Tokens are space separated; `s<hex>` is a byte string, `|` separates fields.

   stream `match`   : `s<subject> | s<name0> s<name1> … | <raw>`            raw = `0 1 0 1 ; 2 3 -1 -1` (one index list per match)
                      -> `ok <matchesOK 0/1> <wire array of match objects>` | `panic <0/1>`
   stream `builtin` : `<name> s<subject> | names | raw | <replacement>`
                      name ∈ test capture scan splits split2 sub gsub;  replacement (sub/gsub only):
                        `c s<hex>`          the constant string
                        `f s<hex>`          `.name` of the capture object (null counts as "")
                        `l s.. s.. ; s.. ;` the outputs of the replacement per match, `;` separated
                      -> `ok <wire>` (test: t/f; capture/scan/splits/sub/gsub: array of outputs; split2: the array)
   stream `str`     : `length s` | `index s <bound>` | `slice s <bound> <bound>` (start end) |
                      `aslice <n> <bound> <bound>` (the array [0, …, n-1]) |
                      `indices s s` | `sindex s s` | `srindex s s`   -> `ok <wire>`
                      bound = `n` (null) | `i<z>` (integer of any magnitude) | `d<16 hex>` / `dNaN` (float64 bits):
                      a start / index goes through `toInt?`, an end through `toIntCeil?` (Model/Native/Base.lean)
   stream `flags`   : `s<re> s<flags>` -> `ok s<syntax>` | `err` -/
import Gojq.Model.Regex
import Gojq.Model.Native.Base
import Gojq.Model.Wire
import Driver.Common
open Gojq Gojq.Wire Gojq.Regex

def splitOnTok (sep : String) (toks : List String) : List (List String) :=
  let rec go (cur : List String) (acc : List (List String)) : List String → List (List String)
    | [] => (cur.reverse :: acc).reverse
    | t :: ts => if t == sep then go [] (cur.reverse :: acc) ts else go (t :: cur) acc ts
  go [] [] toks

def parseS (tok : String) : Option Bytes :=
  match tok.toList with
  | 's' :: hs => hexToBytes hs
  | _ => none

def parseSs (toks : List String) : Option (List Bytes) := toks.mapM parseS

def parseRaw (toks : List String) : Option Raw :=
  if toks.isEmpty then some []
  else (splitOnTok ";" toks).mapM fun grp => grp.mapM String.toInt?

def parseOptInt (tok : String) : Option (Option Int) :=
  match tok.toList with
  | ['n'] => some none
  | 'i' :: ds => (String.ofList ds).toInt?.map some
  | _ => none

/-- a slice bound or an index as func.go converts it: `toInt` (start, index) or `toIntCeil` (end) -/
def parseBound (ceil : Bool) (tok : String) : Option (Option Int) :=
  match tok.toList with
  | ['n'] => some none
  | _ =>
    match parseVal [tok] with
    | some (.num n, []) => (if ceil then toIntCeil? (.num n) else toInt? (.num n)).map some
    | _ => none

def strs (l : List Bytes) : JV := .arr (l.map .str)

def natOpt : Option Nat → JV
  | some n => jInt n
  | none => .null

def matchLine (line : String) : String :=
  match splitOnTok "|" (tokens line) with
  | [[st], nt, rt] =>
    match parseS st, parseSs nt, parseRaw rt with
    | some s, some names, some raw =>
      let okb := if matchesOK s names raw then "1" else "0"
      match funcMatch s raw names with
      | some v => "ok " ++ okb ++ " " ++ toWire v
      | none => "panic " ++ okb
    | _, _, _ => "?parse"
  | _ => "?shape"

def parseRepl (n : Nat) (toks : List String) : Option (Sum (List (Bytes × JV) → List Bytes) (List (List Bytes))) :=
  match toks with
  | ["c", t] => (parseS t).map fun b => .inl fun _ => [b]
  | ["f", t] => (parseS t).map fun k => .inl (fieldRep k)
  | "l" :: rest =>
    if n == 0 then some (.inr []) else ((splitOnTok ";" rest).mapM parseSs).map .inr
  | _ => none

def builtinLine (line : String) : String :=
  match tokens line with
  | name :: rest =>
    match splitOnTok "|" rest with
    | [st] :: nt :: rt :: more =>
      match parseS st, parseSs nt, parseRaw rt with
      | some s, some names, some raw =>
        match mkMatches s names raw with
        | none => "panic"
        | some ms =>
          match name with
          | "test" => "ok " ++ toWire (.bool (test raw))
          | "capture" => "ok " ++ toWire (.arr (capture ms))
          | "scan" => "ok " ++ toWire (.arr (scan ms))
          | "splits" => "ok " ++ toWire (strs (splits s ms))
          | "split2" => "ok " ++ toWire (split2 s ms)
          | "sub" | "gsub" =>
            match more with
            | [rp] =>
              match parseRepl ms.length rp with
              | some (.inl rep) => "ok " ++ toWire (strs (sub s ms rep))
              | some (.inr outs) =>
                if outs.length == ms.length then "ok " ++ toWire (strs (subCore s (ms.zip outs))) else "?outs"
              | none => "?repl"
            | _ => "?repl"
          | _ => "?op"
      | _, _, _ => "?parse"
    | _ => "?shape"
  | [] => "?empty"

def strLine (line : String) : String :=
  match tokens line with
  | ["length", st] =>
    match parseS st with
    | some s => "ok " ++ toWire (jInt (strLength s))
    | none => "?parse"
  | ["index", st, it] =>
    match parseS st, parseBound false it with
    | some s, some (some i) => "ok " ++ toWire (jOptStr (indexStr s i))
    | _, _ => "?parse"
  | ["slice", st, a, b] =>
    match parseS st, parseBound false a, parseBound true b with
    | some s, some i, some j => "ok " ++ toWire (.str (Regex.sliceStr s j i))
    | _, _, _ => "?parse"
  | ["aslice", nt, a, b] =>
    match nt.toNat?, parseBound false a, parseBound true b with
    | some n, some i, some j => "ok " ++ toWire (.arr ((sliceList (List.range n) j i).map fun (k : Nat) => jInt (k : Int)))
    | _, _, _ => "?parse"
  | [op, st, xt] =>
    match parseS st, parseS xt with
    | some s, some x =>
      match op with
      | "indices" => "ok " ++ toWire (.arr ((strIndices s x).map fun (n : Nat) => jInt (n : Int)))
      | "sindex" => "ok " ++ toWire (natOpt (strIndex s x))
      | "srindex" => "ok " ++ toWire (natOpt (strRindex s x))
      | _ => "?op"
    | _, _ => "?parse"
  | _ => "?shape"

def flagsLine (line : String) : String :=
  match tokens line with
  | [rt, ft] =>
    match parseS rt, parseS ft with
    | some re, some fl =>
      match regexSyntax re fl with
      | some syn => "ok s" ++ bytesToHex syn
      | none => "err"
    | _, _ => "?parse"
  | _ => "?shape"

def main (args : List String) : IO UInt32 :=
  Driver.main [("match", matchLine), ("builtin", builtinLine), ("str", strLine), ("flags", flagsLine)] args

/- C11 driver.
   stream `cmp`   : `<wire a> <wire b>`                  -> `lt` | `eq` | `gt`
   stream `ops`   : `<wire a> <wire b>`                  -> six letters t/f for == != < <= > >=
   stream `native`: `<name> <wire input> [<wire arg>]`   -> `ok <wire>` | `err type` | `err length`
                    | `?…` when the model does not determine the answer (sorting keys on which the
                      comparison is not a preorder — only possible outside the property's domain)
-/
import Gojq.Model.Compare
import Gojq.Model.Sort
import Gojq.Model.Wire
import Driver.Common
open Gojq Gojq.Wire

def ordStr : Ordering → String
  | .lt => "lt"
  | .eq => "eq"
  | .gt => "gt"

def cmpLine (line : String) : String :=
  match parseVals (tokens line) with
  | some [a, b] => ordStr (cmp a b)
  | _ => "?parse"

def tf (b : Bool) : String := if b then "t" else "f"

def opsLine (line : String) : String :=
  match parseVals (tokens line) with
  | some [a, b] => tf (opEq a b) ++ tf (opNe a b) ++ tf (opLt a b) ++ tf (opLe a b) ++ tf (opGt a b) ++ tf (opGe a b)
  | _ => "?parse"

/-- composition law of a three-way comparison (the same table as `compat` in Proofs/Compare.lean) -/
def compatB (ab bc ac : Ordering) : Bool :=
  match ab, bc with
  | .eq, o => ac == o
  | o, .eq => ac == o
  | .lt, .lt => ac == .lt
  | .gt, .gt => ac == .gt
  | _, _ => true

def dedupKeys : List JV → List JV → List JV
  | [], acc => acc.reverse
  | k :: ks, acc => if acc.any (· == k) then dedupKeys ks acc else dedupKeys ks (k :: acc)

/-- is `cmp` a preorder on this set of keys?  Outside the property's domain (NaN, floats ≥ 2^53
    next to big integers) it may not be, and then the result of a sort depends on the algorithm:
    Go's `sort.SliceStable` and the model's insertion sort agree only where every stable sort
    agrees (`stable_sort_unique`).  Such lines are answered `?` (unmodelled). -/
def keysConsistent (keys : List JV) : Bool :=
  if keys.all JV.tame then true else
  let ds := (dedupKeys keys []).toArray
  let n := ds.size
  let m := ds.map fun a => ds.map fun b => cmp a b
  let get (i j : Nat) : Ordering := (m.getD i #[]).getD j .eq
  (List.range n).all fun i =>
    -- a sort never compares an element with itself: reflexivity matters only for keys that occur twice
    (get i i == .eq || (keys.filter (· == ds.getD i .null)).length ≤ 1) &&
    (List.range n).all fun j =>
      (i == j || get j i == (get i j).swap) &&
      (List.range n).all fun k => compatB (get i j) (get j k) (get i k)

def sortKeysOf (v : JV) (x : Option JV) : List JV :=
  match x.getD v with
  | .arr ks => ks
  | _ => []

def guardSort (v : JV) (x : Option JV) (r : Except SortErr JV) : String :=
  if keysConsistent (sortKeysOf v x) then showRes' r else "?inconsistent-order-on-these-keys"
where showRes' : Except SortErr JV → String
  | .ok v => "ok " ++ toWire v
  | .error .type => "err type"
  | .error .length => "err length"

def showRes : Except SortErr JV → String
  | .ok v => "ok " ++ toWire v
  | .error .type => "err type"
  | .error .length => "err length"

def nativeLine (line : String) : String :=
  match tokens line with
  | name :: rest =>
    match parseVals rest with
    | some [v] =>
      match name with
      | "sort" => guardSort v none (sort v)
      | "unique" => guardSort v none (unique v)
      | "min" => showRes (minMaxBy true v v)
      | "max" => showRes (minMaxBy false v v)
      | "keys" => showRes (keys v)
      | "iter" => showRes (iterValues v)
      | _ => "?op"
    | some [v, x] =>
      match name with
      | "sort_by" => guardSort v (some x) (sortBy v x)
      | "group_by" => guardSort v (some x) (groupBy v x)
      | "unique_by" => guardSort v (some x) (uniqueBy v x)
      | "min_by" => showRes (minMaxBy true v x)
      | "max_by" => showRes (minMaxBy false v x)
      | "bsearch" => showRes (bsearch v x)
      | "indices" =>
        match indices v x with
        | some r => showRes r
        | none => "?string-indices"
      | "sub" =>
        match v, x with
        | .arr l, .arr r => "ok " ++ toWire (.arr (arraySub l r))
        | _, _ => "?non-array-sub"
      | _ => "?op"
    | _ => "?parse"
  | [] => "?empty"

def main (args : List String) : IO UInt32 :=
  Driver.main [("cmp", cmpLine), ("ops", opsLine), ("native", nativeLine)] args

/- C11 driver.
   stream `cmp`   : `<wire a> <wire b>`                  -> `lt` | `eq` | `gt`
   stream `ops`   : `<wire a> <wire b>`                  -> six letters t/f for == != < <= > >=
   stream `native`: `<name> <wire input> [<wire arg>]`   -> `ok <wire>` | `err type` | `err length`
-/
import Gojq.Model.Compare
import Gojq.Model.Sort
import Gojq.Model.Wire
import Driver.Common
open Gojq Gojq.Wire

def ordStr : Ordering → String
  | .lt => "lt"
  | .eq => "eq"
  | .gt => "gt"

def cmpLine (line : String) : String :=
  match parseVals (tokens line) with
  | some [a, b] => ordStr (cmp a b)
  | _ => "?parse"

def tf (b : Bool) : String := if b then "t" else "f"

def opsLine (line : String) : String :=
  match parseVals (tokens line) with
  | some [a, b] => tf (opEq a b) ++ tf (opNe a b) ++ tf (opLt a b) ++ tf (opLe a b) ++ tf (opGt a b) ++ tf (opGe a b)
  | _ => "?parse"

def showRes : Except SortErr JV → String
  | .ok v => "ok " ++ toWire v
  | .error .type => "err type"
  | .error .length => "err length"

def nativeLine (line : String) : String :=
  match tokens line with
  | name :: rest =>
    match parseVals rest with
    | some [v] =>
      match name with
      | "sort" => showRes (sort v)
      | "unique" => showRes (unique v)
      | "min" => showRes (minMaxBy true v v)
      | "max" => showRes (minMaxBy false v v)
      | "keys" => showRes (keys v)
      | "iter" => showRes (iterValues v)
      | _ => "?op"
    | some [v, x] =>
      match name with
      | "sort_by" => showRes (sortBy v x)
      | "group_by" => showRes (groupBy v x)
      | "unique_by" => showRes (uniqueBy v x)
      | "min_by" => showRes (minMaxBy true v x)
      | "max_by" => showRes (minMaxBy false v x)
      | "bsearch" => showRes (bsearch v x)
      | "indices" =>
        match indices v x with
        | some r => showRes r
        | none => "?string-indices"
      | "sub" =>
        match v, x with
        | .arr l, .arr r => "ok " ++ toWire (.arr (arraySub l r))
        | _, _ => "?non-array-sub"
      | _ => "?op"
    | _ => "?parse"
  | [] => "?empty"

def main (args : List String) : IO UInt32 :=
  Driver.main [("cmp", cmpLine), ("ops", opsLine), ("native", nativeLine)] args

/- Line loop shared by all drivers: one answer line per input line. -/
namespace Driver

partial def loop (h : IO.FS.Stream) (out : IO.FS.Stream) (f : String → String) : IO Unit := do
  let line ← h.getLine
  if line.isEmpty then return ()
  let l := if line.back == '\n' then line.dropRight 1 else line
  out.putStrLn (f l)
  loop h out f

/-- run `handlers[stream]` over stdin; the stream name is the first command-line argument -/
def main (handlers : List (String × (String → String))) (args : List String) : IO UInt32 := do
  let name := args.headD ""
  match handlers.lookup name with
  | none =>
    IO.eprintln s!"unknown stream {name}; known: {handlers.map (·.1)}"
    return 2
  | some f =>
    let stdin ← IO.getStdin
    let stdout ← IO.getStdout
    loop stdin stdout f
    stdout.flush
    return 0

end Driver

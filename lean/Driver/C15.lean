/- C15 driver.
   stream `process`: `opts | input | input …`
     opts  : letters r (‑r) 0 (--raw-output0) j (‑j) e (‑e), or `-`
     input : `E` (the input iterator returned an error) | `V out*`
     out   : `v:<0|1 falsy>:<-|s<hex string bytes>>:<hex encoder bytes>`
           | `e:<hex message>:<-|ExitCode>` | `h:<code>:<n|s<hex>|j<hex>>`
   answer: `<status> <hex stdout|-> <chunk,…|->`, chunk = `D<hex msg>` | `J` | `N` | `R<hex>`
-/
import Gojq.Model.Cli.Process
import Gojq.Model.Wire
import Driver.Common
import Driver.C1516Flags
open Gojq Gojq.Wire Gojq.Process

/- stream `flags`: arguments as hex tokens (`-` = empty argument)  ->  `ok bools=… indent=… libs=… maps=… args=… jsonargs=… rest=…`
   or `err <class> <hex flag name>`; stream `flagtable`: any line -> the model's table `long/short/kind,…` -/

def parseOpts (s : String) : Opts :=
  { raw := s.contains 'r', raw0 := s.contains '0', join := s.contains 'j', exitStatus := s.contains 'e' }

def hexField (s : String) : Option Bytes := hexToBytes s.toList

def parseOut (tok : String) : Option Out :=
  match tok.splitOn ":" with
  | ["v", f, s, enc] => do
    let e ← hexField enc
    let str ← match s.toList with
      | ['-'] => some none
      | 's' :: hs => (hexToBytes hs).map some
      | _ => none
    pure (.value ⟨f == "1", str, e⟩)
  | ["e", m, c] => do
    let mb ← hexField m
    let code ← if c == "-" then some none else c.toInt?.map some
    pure (.error mb code)
  | ["h", c, m] => do
    let code ← c.toInt?
    let msg ← match m.toList with
      | ['n'] => some HaltMsg.none
      | 's' :: hs => (hexToBytes hs).map .str
      | 'j' :: hs => (hexToBytes hs).map .json
      | _ => none
    pure (.halt code msg)
  | _ => none

def parseIn (field : String) : Option In :=
  match tokens field with
  | ["E"] => some .error
  | "V" :: outs => (outs.mapM parseOut).map .value
  | _ => none

def chunkStr : ErrChunk → String
  | .diag m => "D" ++ bytesToHex m
  | .inputDiag => "J"
  | .nulDiag => "N"
  | .raw b => "R" ++ bytesToHex b

def orDash (s : String) : String := if s.isEmpty then "-" else s

def processLine (line : String) : String :=
  match line.splitOn " | " with
  | [] => "?empty"
  | os :: fields =>
    match fields.mapM parseIn with
    | none => "?parse"
    | some ins =>
      let o := parseOpts os
      let st := process o ins {}
      s!"{runStatus o .ok ins} {orDash (bytesToHex st.stdout)} {orDash (",".intercalate (st.stderr.map chunkStr))}"


def main (args : List String) : IO UInt32 :=
  Driver.main [("process", processLine), ("flags", flagsLine), ("flagtable", flagTableLine)] args

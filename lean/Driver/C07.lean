/- C07 driver.  Streams `vm` and `lockstep`; one protocol line =

     <code> | <input> | <ext> | <ks> | <ncalls> | <fuel>

   code   : instructions separated by `;` — `op operands…` (constants in wire form)
   input  : a value  (`I<n>` iterator handle, `T` opaque, otherwise JSON wire form)
   ext    : oracle records separated by `;` — `<poll> [c v <V> | c end | c e <err>] [i 0|1] [p x<hex>]`
            err = `value <V>` | `halt <V>` | `break x<hexname> <V>` | `msg x<hex>`
   ks     : cancellation points: `-` (never), `<k>` (answer hashed), `=<k>` (answer in full)
   vm       → per k the `(value, ok)` history of ncalls calls, joined by ` || `
   lockstep → (first k only) per call the state at the top of every instruction, then the outcome
-/
import Gojq.Model.VM
import Gojq.Model.Wire
import Driver.Common
open Gojq Gojq.Wire Gojq.VM

namespace C07

def splitToks (sep : String) (ts : List String) : List (List String) :=
  let (cur, acc) := ts.foldl (fun (cur, acc) t => if t == sep then ([], cur.reverse :: acc) else (t :: cur, acc)) ([], [])
  (cur.reverse :: acc).reverse

def parseV : List String → Option (V × List String)
  | [] => none
  | tok :: rest =>
    if tok == "T" then some (.tok, rest)
    else if tok.startsWith "I" then (tok.drop 1).toNat?.map fun n => (.iter n, rest)
    else (parseVal (tok :: rest)).map fun (v, r) => (.jv v, r)

/-- byte strings travel as `x<hex>` (never an empty token) -/
def parseHex (t : String) : Option Bytes :=
  match t.toList with
  | 'x' :: hs => hexToBytes hs
  | _ => none

def xhex (b : Bytes) : String := "x" ++ bytesToHex b

def parseErr : List String → Option (Err × List String)
  | "value" :: rest => (parseV rest).map fun (v, r) => (.value v, r)
  | "halt" :: rest => (parseV rest).map fun (v, r) => (.halt v, r)
  | "break" :: n :: rest => do
    let nb ← parseHex n
    let (v, r) ← parseV rest
    pure (.brk nb v, r)
  | "msg" :: m :: rest => (parseHex m).map fun b => (.msg b, rest)
  | _ => none

def int? (t : String) : Option Int := t.toInt?

def nativeKind (name : String) : NativeKind :=
  if name == "_index" then .index else if name == "_slice" then .slice
  else if name == "getpath" then .getpath else .other

def parseJV1 (ts : List String) : Option JV :=
  match parseVal ts with
  | some (v, []) => some v
  | _ => none

def parseInstr : List String → Option Instr
  | ["nop"] => some .nop
  | "push" :: v => (parseJV1 v).map .push
  | ["pop"] => some .pop
  | ["dup"] => some .dup
  | "const" :: v => (parseJV1 v).map .const
  | ["load", a, b] => do pure (.load (← int? a) (← int? b))
  | ["store", a, b] => do pure (.store (← int? a) (← int? b))
  | ["object", n] => (int? n).map .object
  | ["append", a, b] => do pure (.append (← int? a) (← int? b))
  | ["fork", t] => (int? t).map .fork
  | ["forktrybegin", t] => (int? t).map .forktrybegin
  | ["forktryend"] => some .forktryend
  | ["forkalt", t] => (int? t).map .forkalt
  | ["forklabel", a, b] => do pure (.forklabel (← int? a) (← int? b))
  | ["backtrack"] => some .backtrack
  | ["jump", t] => (int? t).map .jump
  | ["jumpifnot", t] => (int? t).map .jumpifnot
  | "index" :: v => (parseJV1 v).map .index
  | "indexarray" :: v => (parseJV1 v).map .indexarray
  | ["call", t] => (int? t).map .call
  | ["calln", name, argc] => (int? argc).map (.callNative (nativeKind name))
  | ["callrec", t] => (int? t).map .callrec
  | ["pushpc", t] => (int? t).map .pushpc
  | ["callpc"] => some .callpc
  | ["scope", a, b, c] => do pure (.scope (← int? a) (← int? b) (← int? c))
  | ["ret"] => some .ret
  | ["iter"] => some .iter
  | ["expbegin"] => some .expbegin
  | ["expend"] => some .expend
  | ["pathbegin"] => some .pathbegin
  | ["pathend"] => some .pathend
  | ["bad"] => some .bad
  | _ => none

partial def parseExtFields (r : ExtRec) : List String → Option ExtRec
  | [] => some r
  | "c" :: "end" :: rest => parseExtFields { r with call := some .iterEnd } rest
  | "c" :: "v" :: rest => do
    let (v, rest) ← parseV rest
    parseExtFields { r with call := some (.val v) } rest
  | "c" :: "e" :: rest => do
    let (e, rest) ← parseErr rest
    parseExtFields { r with call := some (.err e) } rest
  | "i" :: b :: rest => parseExtFields { r with intact := some (b == "1") } rest
  | "p" :: h :: rest => do
    let b ← parseHex h
    parseExtFields { r with preview := b } rest
  | _ => none

def parseExt (recs : List (List String)) : Option (Array ExtRec) :=
  recs.foldlM (fun (arr : Array ExtRec) ts =>
    match ts with
    | [] => some arr
    | k :: fields => do
      let k ← k.toNat?
      let r ← parseExtFields {} fields
      let arr := if arr.size ≤ k then arr ++ Array.replicate (k + 1 - arr.size) ({} : ExtRec) else arr
      pure (arr.set! k r)) #[]

/-! rendering -/

def showV : V → String
  | .jv v => toWire v
  | .clo pc idx => s!"C{pc},{idx}"
  | .pvs _ => "PVS"
  | .pv _ _ => "PV"
  | .iter h => s!"I{h}"
  | .emptyIter => "EI"
  | .tok => "T"

def showErr : Err → String
  | .value v => "value " ++ showV v
  | .halt v => "halt " ++ showV v
  | .brk n v => "break " ++ xhex n ++ " " ++ showV v
  | .tryEnd e => "tryend " ++ showErr e
  | .msg m => "msg " ++ xhex m
  | .vm _ m => "msg " ++ xhex m

def showOutcome : Outcome → String
  | .value v => "VAL " ++ showV v
  | .error e => "ERR " ++ showErr e
  | .done => "DONE"
  | .ctxErr => "CTXERR"
  | .panic s => "PANIC " ++ reprStr s
  | .stuck why => (if why.startsWith "ext:" then "STUCK " else "?") ++ why
  | .outOfFuel => "OOF"

def fnv64 (s : String) : UInt64 :=
  s.toUTF8.foldl (fun h b => (h ^^^ b.toUInt64) * 1099511628211) 14695981039346656037

def renderHistory (hs : List Outcome) : String :=
  match hs.find? (fun o => match o with | .stuck why => !why.startsWith "ext:" | _ => false) with
  | some o => showOutcome o
  | none => " ; ".intercalate (hs.map showOutcome)

structure Job where
  code : Array Instr
  input : V
  ext : Array ExtRec
  ks : List (Option Nat × Bool)      -- cancellation point, full output?
  ncalls : Nat
  fuel : Nat

def parseK (t : String) : Option (Option Nat × Bool) :=
  if t == "-" then some (none, true)
  else if t.startsWith "=" then (t.drop 1).toNat?.map fun k => (some k, true)
  else t.toNat?.map fun k => (some k, false)

def parseJob (line : String) : Except String Job :=
  match splitToks "|" (tokens line) with
  | [code, input, ext, ks, [ncalls], [fuel]] => do
    let instrs ← (splitToks ";" code).filter (· ≠ []) |>.mapM fun ts =>
      match parseInstr ts with
      | some i => .ok i
      | none => .error ("?instr " ++ " ".intercalate ts)
    let input ← match parseV input with
      | some (v, []) => .ok v
      | _ => .error "?input"
    let ext ← match parseExt (splitToks ";" ext) with
      | some a => .ok a
      | none => .error "?ext"
    let ks ← ks.mapM fun t => match parseK t with
      | some k => .ok k
      | none => .error "?k"
    match ncalls.toNat?, fuel.toNat? with
    | some n, some f => .ok { code := instrs.toArray, input, ext, ks, ncalls := n, fuel := f }
    | _, _ => .error "?counts"
  | _ => .error "?sections"

def Job.params (j : Job) (k : Option Nat) : Params :=
  { code := j.code
    cancelled := match k with
      | none => fun _ => false
      | some k => fun p => decide (k ≤ p)       -- a cancelled context stays cancelled
    ext := fun p => j.ext.getD p {} }

def vmLine (line : String) : String :=
  match parseJob line with
  | .error e => e
  | .ok j =>
    " || ".intercalate <| j.ks.map fun (k, full) =>
      let hs := history (j.params k) j.fuel j.ncalls (initSt j.input [])
      let txt := renderHistory hs
      if full || txt.startsWith "?" then txt
      else
        let nvals := (hs.filter fun o => match o with | .value _ => true | _ => false).length
        s!"H{nvals}:{(fnv64 txt).toNat}"

/-! lock-step trace: iterate the model's own `step`, printing the state at the top of every
    instruction exactly as `VerifStep` sees it -/

def b01 (b : Bool) : String := if b then "1" else "0"

def showState (l : L) (s : St) : String :=
  let e := s.env
  s!"{l.pc},{b01 l.backtrack},{b01 l.err.isSome},{e.forks.length},{e.stack.index},{e.stack.limit},{e.stack.data.size},{e.scopes.index},{e.scopes.limit},{e.scopes.data.size},{e.paths.index},{e.paths.limit},{e.paths.data.size},{e.offset},{e.values.size},{e.expdepth},{e.label}"

partial def tracedLoop (P : Params) (fuel : Nat) (l : L) (s : St) (acc : Array String) : Outcome × St × Array String :=
  let acc := if l.pc < P.code.size then acc.push (showState l s) else acc
  match step P l s with
  | .fin o s' => (o, s', acc)
  | .cont l' s' =>
    if fuel == 0 then (.outOfFuel, s'.save l'.pc, acc) else tracedLoop P (fuel - 1) l' s' acc

partial def tracedHistory (P : Params) (fuel : Nat) (n : Nat) (s : St) (acc : Array String) : Array String :=
  if n == 0 then acc else
  let (o, s', acc) := tracedLoop P fuel (entry P s) s acc
  tracedHistory P fuel (n - 1) s' (acc.push ("/ " ++ showOutcome o))

def lockstepLine (line : String) : String :=
  match parseJob line with
  | .error e => e
  | .ok j =>
    let k := match j.ks with | (k, _) :: _ => k | [] => none
    let tr := tracedHistory (j.params k) j.fuel j.ncalls (initSt j.input []) #[]
    match tr.find? (fun t => t.startsWith "/ ?") with
    | some t => (t.drop 2).toString
    | none => " ".intercalate tr.toList

/-- `oneshot`: line = number of calls; the iterator holds an error -/
def oneshotLine (line : String) : String :=
  match line.trimAscii.toString.toNat? with
  | none => "?n"
  | some n => " ".intercalate ((UnitIter.history n ({ value := () } : UnitIter Unit)).map fun
      | some _ => "ERR"
      | none => "DONE")

end C07

def main (args : List String) : IO UInt32 :=
  Driver.main [("vm", C07.vmLine), ("lockstep", C07.lockstepLine), ("oneshot", C07.oneshotLine)] args

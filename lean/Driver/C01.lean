/- C01 driver.  stream `eval`: `<s-expression query> ||| <wire input>`  ->
     `<wire out> ; <wire out> ; … END` | `… ERR value <wire>` | `… ERR msg s<hex>` | `… ERR halt <wire>`
     | `?<reason>` when the model does not cover the case (out of fuel, unmodelled native, …) -/
import Gojq.Model.Spec
import Gojq.Model.SyntaxWire
import Gojq.Generated.BuiltinDefs
import Driver.Common
open Gojq Gojq.Wire Gojq.Spec

def cfg : Cfg := { builtins := ⟨Gojq.Generated.Builtins.builtinGo⟩ }

def splitAt3 (toks : List String) : List String × List String :=
  let (a, b) := toks.span (· != "|||")
  (a, b.drop 1)

def renderStop : Stop → String
  | .done => "END"
  | .err (.user v) => "ERR value " ++ toWire v
  | .err (.halt v _) => "ERR halt " ++ toWire v
  | .err (.brk _) => "?break escaped"
  | .err e => match errMessage e with
    | some m => "ERR msg s" ++ bytesToHex m
    | none => "?error message not modelled"
  | .fuel => "?fuel"
  | .unmodelled why => "?" ++ why

def renderRes (r : Res) : String :=
  match renderStop r.stop with
  | s => if s.startsWith "?" then s else
    String.join (r.outs.map fun o => toWire o.v ++ " ; ") ++ s

def evalLine (fuel : Nat) (line : String) : String :=
  let (qt, vt) := splitAt3 (tokens line)
  match SyntaxWire.pQuery qt, parseVal vt with
  | some (q, []), some (v, []) =>
    renderRes (eval fuel cfg Env.empty q { v := v, id := .known 0 [] })
  | _, _ => "?parse"

def main (args : List String) : IO UInt32 :=
  Driver.main [("eval", evalLine 4000)] args

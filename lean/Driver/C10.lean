/- C10 driver: stream `arith`:  `<op> <wire a> [<wire b>]`  ->  `ok <wire>` | `err <class>` -/
import Gojq.Model.Arith
import Gojq.Model.Compare
import Gojq.Model.Wire
import Driver.Common
open Gojq Gojq.Wire

def arithLine (line : String) : String :=
  match tokens line with
  | op :: rest =>
    match parseVals rest with
    | some [.num a, .num b] =>
      let r : Option (Except ArithErr Num) := match op with
        | "add" => some (.ok (opAddNum a b))
        | "sub" => some (.ok (opSubNum a b))
        | "mul" => some (.ok (opMulNum a b))
        | "div" => some (opDivNum a b)
        | "mod" => some (opModNum a b)
        | _ => none
      let c := cmpNum a b
      let b? : Option Bool := match op with
        | "lt" => some (c == .lt)
        | "le" | "srt" => some (c != .gt)
        | "eq" | "idx" => some (c == .eq)
        | "ne" => some (c != .eq)
        | "gt" => some (c == .gt)
        | "ge" => some (c != .lt)
        | _ => none
      if let some b := b? then (if b then "ok t" else "ok f") else
      if op == "unq" then (if c == .eq then "ok i1" else "ok i2") else
      match r with
      | some (.ok n) => "ok " ++ numToWire n
      | some (.error .zeroDivision) => "err zerodiv"
      | some (.error .zeroModulo) => "err zeromod"
      | none => "?op"
    | some [.num a] =>
      match op with
      | "neg" => "ok " ++ numToWire (opNegNum a)
      | "abs" => "ok " ++ numToWire (absNum a)
      | "len" => "ok " ++ numToWire (absNum a)
      | "tofloat" => "ok " ++ numToWire a.toFlt
      | _ => "?op"
    | _ => "?parse"
  | [] => "?empty"

def main (args : List String) : IO UInt32 :=
  Driver.main [("arith", arithLine)] args

/- C18 driver.  Stream `modules`:

     ENV PATHS GLOBALS BUILTINS FS MAIN PROBE   ->   ok <res> | undefined | loaderr | ?…

   tokens are separated by single spaces; a string token is `s<text>` (text without blanks);
     ENV      := <s cwd> (<s home> | -) (<s origin> | -)
     PATHS    := <n> <s>*n                         raw arguments of NewModuleLoader
     GLOBALS  := <n> <s>*n                         WithVariables names (with `$`)
     BUILTINS := <n> (<s name> <arity>)*n
     FS       := <n> (<s abs path> NODE)*n         NODE := D | B | J <s id> | M MODULE
     MODULE   := <n> IMPORT*n <n> DEF*n
     IMPORT   := <s path> <s alias> <0|1 data> META   META := - | <n> (<s key> (S <s> | O))*n
     DEF      := <s name> <arity> <s tag> <n> CALL*n   CALL := F <s name> <arity> | V <s name>
     MAIN     := MODULE          PROBE := CALL
   Stream `modulemeta`:  MODULE -> defs and deps as listModuleDefs/listModuleDeps print them.
   Stream `lookup`:  ENV PATHS FS <s name> <s ext> META -> found <path> | notfound  -/
import Gojq.Model.Modules
import Driver.Common
open Gojq.Modules

abbrev P := StateT (List String) Option

def tok : P String := fun s => match s with | [] => none | t :: r => some (t, r)

def pStr : P String := do
  let t ← tok
  match t.toList with
  | 's' :: r => pure (String.ofList r)
  | _ => failure

def pNat : P Nat := do
  let t ← tok
  match t.toNat? with
  | some n => pure n
  | none => failure

def pOptStr : P (Option String) := do
  let t ← tok
  match t.toList with
  | ['-'] => pure none
  | 's' :: r => pure (some (String.ofList r))
  | _ => failure

def pMany {α} (p : P α) : Nat → P (List α)
  | 0 => pure []
  | n + 1 => do
    let x ← p
    let xs ← pMany p n
    pure (x :: xs)

def pList {α} (p : P α) : P (List α) := do
  let n ← pNat
  pMany p n

def pMetaVal : P MetaVal := do
  let t ← tok
  if t == "S" then (do let s ← pStr; pure (.str s)) else if t == "O" then pure .other else failure

def pMeta : P Meta := fun s =>
  match s with
  | "-" :: r => some (none, r)
  | _ => (do
      let kvs ← pList (do let k ← pStr; let v ← pMetaVal; pure (k, v))
      pure (some kvs) : P Meta) s

def pCall : P Call := do
  let t ← tok
  if t == "F" then (do let n ← pStr; let a ← pNat; pure (.fn n a))
  else if t == "V" then (do let n ← pStr; pure (.var n))
  else failure

def pDef : P Def := do
  let n ← pStr
  let a ← pNat
  let tag ← pStr
  let cs ← pList pCall
  pure ⟨n, a, tag, cs⟩

def pImport : P Import := do
  let p ← pStr
  let a ← pStr
  let d ← pNat
  let m ← pMeta
  pure ⟨p, a, d == 1, m⟩

def pModule : P Module := do
  let is ← pList pImport
  let ds ← pList pDef
  pure ⟨is, ds⟩

def pNode : P Node := do
  let t ← tok
  if t == "D" then pure .dir
  else if t == "B" then pure .bad
  else if t == "J" then (do let i ← pStr; pure (.json i))
  else if t == "M" then (do let m ← pModule; pure (.jq m))
  else failure

def pEnv : P Env := do
  let cwd ← pStr
  let home ← pOptStr
  let origin ← pOptStr
  pure ⟨cwd, home, origin⟩

def pFS : P FS := pList (do let p ← pStr; let n ← pNode; pure (p, n))

def modulesLine (line : String) : String :=
  let p : P (Except CErr String) := do
    let env ← pEnv
    let paths ← pList pStr
    let globals ← pList pStr
    let builtins ← pList (do let n ← pStr; let a ← pNat; pure (n, a))
    let fs ← pFS
    let main ← pModule
    let probe ← pCall
    pure (compileFromFS true builtins env fs paths globals main probe 8)
  match p ((line.splitOn " ").filter (· != "")) with
  | none => "?parse"
  | some (r, _ :: _) => let _ := r; "?trailing"
  | some (.ok s, []) => "ok " ++ s
  | some (.error (.load .fuel), []) => "?fuel"
  | some (.error (.load _), []) => "loaderr"
  | some (.error _, []) => "undefined"

def showMeta : Meta → String
  | none => "-"
  | some kvs => "{" ++ ",".intercalate (kvs.map fun kv => kv.1 ++ "=" ++ (match kv.2 with | .str s => "S" ++ s | .other => "O")) ++ "}"

def modulemetaLine (line : String) : String :=
  match pModule ((line.splitOn " ").filter (· != "")) with
  | some (m, []) =>
    let defs := (listModuleDefs m).map fun na => na.1 ++ "/" ++ toString na.2
    let deps := (listModuleDeps m).map fun d =>
      d.relpath ++ ":" ++ (match d.as with | none => "-" | some a => "as=" ++ a) ++ ":" ++ (if d.isData then "data" else "code")
    "defs " ++ ",".intercalate defs ++ " deps " ++ ",".intercalate deps
  | _ => "?parse"

def lookupLine (line : String) : String :=
  let p : P (Option Path) := do
    let env ← pEnv
    let paths ← pList pStr
    let fs ← pFS
    let name ← pStr
    let ext ← pStr
    let m ← pMeta
    pure ((lookupModule env fs (newModuleLoader env paths) name ext m).map (absPath env))
  match p ((line.splitOn " ").filter (· != "")) with
  | some (some path, []) => "found " ++ path
  | some (none, []) => "notfound"
  | _ => "?parse"

def main (args : List String) : IO UInt32 :=
  Driver.main [("modules", modulesLine), ("modulemeta", modulemetaLine), ("lookup", lookupLine)] args

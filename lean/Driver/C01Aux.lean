/- C01 auxiliary driver (the proved models of C01: persistent stack, mini compiler + VM).

   stream `stack` / `scopestack`: line = operations separated by spaces
        p<int> push   o pop   t top   s save   r restore the most recent outstanding snapshot
     answer: after each operation `index,limit,len|v,v,…` (chain, top first), for `o`/`t` prefixed
     by `=<value>:`; joined by `;`.  A Go panic is `PANIC` and ends the line.

   stream `mini`: line = `<fuel> <n> q₁ … qₙ main ||| <wire input>` with queries in prefix form
        id | c <wire value> | pipe a b | comma a b | iter | empty | arr q | param | call <f> a
        | error | try b | trycatch b h | index <wire key> | ite c a b | alt l r | var <x> | bind <x> src body
        | reduce <x> src init upd | foreach <x> src init upd ext | obj <n> e₁ … eₙ
          with entries  e ::= kq k v  (key query)  |  kc <wire key> v  (constant key)
     answer: `<instructions of compileProg, scope ids and registers renumbered by first
     appearance> ||| <outputs of the mini VM> END` (or `ERR msg s<hex>`), `?…` when not covered. -/
import Gojq.Model.Stack
import Gojq.Model.MiniVM
import Gojq.Model.Wire
import Gojq.Model.Native.Base
import Gojq.Model.Native.Index
import Driver.Common
open Gojq Gojq.Wire

/-! ### stack -/
namespace StackDrv
open Gojq.Stack

def showState (s : Stack Int) : String :=
  s!"{s.index},{s.limit},{s.data.size}|" ++ ",".intercalate (s.abs.map toString)

/-- run the operations; accumulates the answers in reverse -/
def run : List String → Stack Int → List (Int × Int) → List String → List String
  | [], _, _, acc => acc
  | op :: rest, s, sn, acc =>
    match op.toList with
    | 'p' :: ds =>
      match (String.ofList ds).toInt? with
      | none => "?parse" :: acc
      | some v =>
        match s.push v with
        | some s' => run rest s' sn (showState s' :: acc)
        | none => "PANIC" :: acc
    | ['o'] =>
      match s.pop with
      | some (v, s') => run rest s' sn ((s!"={v}:" ++ showState s') :: acc)
      | none => "PANIC" :: acc
    | ['t'] =>
      match s.top with
      | some v => run rest s sn ((s!"={v}:" ++ showState s) :: acc)
      | none => "PANIC" :: acc
    | ['s'] =>
      let (p, s') := s.save
      run rest s' (p :: sn) (showState s' :: acc)
    | ['r'] =>
      match sn with
      | p :: sn' => let s' := s.restore p.1 p.2; run rest s' sn' (showState s' :: acc)
      | [] => "?restore without snapshot" :: acc
    | _ => "?parse" :: acc

def line (l : String) : String :=
  let r := run (tokens l) Stack.new [] []
  match r with
  | a :: _ => if a.startsWith "?" then a else ";".intercalate r.reverse
  | [] => ""

end StackDrv

/-! ### mini compiler and VM -/
namespace MiniDrv
open Gojq.MiniVM

/-- marks an error message the message model does not cover (then the line is answered `?`) -/
def unmodelledMsg : Bytes := B "\x00unmodelled"

/-- `iteratorError{v}.Error()` from the message model of Model/Native/Base.lean -/
def errMsgV (e : Gojq.Err) : V := match e.message with
  | some m => .str m
  | none => .str unmodelledMsg

instance : IterMsg where
  msg v := errMsgV (Gojq.Err.builtin "iterator" [v])
  index v k := match Gojq.funcIndex2 v k with | .ok w => some w | .error _ => none
  indexMsg v k := match Gojq.funcIndex2 v k with | .ok _ => .null | .error e => errMsgV e
  keyMsg k := errMsgV (Gojq.Err.builtin "objectKeyNotString" [k])

partial def mentionsUnmodelled : V → Bool
  | .str s => s == unmodelledMsg
  | .arr xs => xs.any mentionsUnmodelled
  | .obj kvs => kvs.any fun (_, x) => mentionsUnmodelled x
  | _ => false

mutual
partial def pQ : List String → Option (Q × List String)
  | "id" :: r => some (.id, r)
  | "iter" :: r => some (.iter, r)
  | "empty" :: r => some (.empty, r)
  | "param" :: r => some (.param, r)
  | "c" :: r => do let (v, r) ← parseVal r; pure (.const v, r)
  | "pipe" :: r => do let (a, r) ← pQ r; let (b, r) ← pQ r; pure (.pipe a b, r)
  | "comma" :: r => do let (a, r) ← pQ r; let (b, r) ← pQ r; pure (.comma a b, r)
  | "arr" :: r => do let (a, r) ← pQ r; pure (.arr a, r)
  | "call" :: f :: r => do let f ← f.toNat?; let (a, r) ← pQ r; pure (.call1 f a, r)
  | "error" :: r => some (.error, r)
  | "try" :: r => do let (a, r) ← pQ r; pure (.try_ a, r)
  | "trycatch" :: r => do let (a, r) ← pQ r; let (b, r) ← pQ r; pure (.tryCatch a b, r)
  | "index" :: r => do let (v, r) ← parseVal r; pure (.index v, r)
  | "ite" :: r => do let (c, r) ← pQ r; let (a, r) ← pQ r; let (b, r) ← pQ r; pure (.ite c a b, r)
  | "alt" :: r => do let (a, r) ← pQ r; let (b, r) ← pQ r; pure (.alt a b, r)
  | "var" :: x :: r => do let x ← x.toNat?; pure (.var x, r)
  | "bind" :: x :: r => do let x ← x.toNat?; let (a, r) ← pQ r; let (b, r) ← pQ r; pure (.bind x a b, r)
  | "reduce" :: x :: r => do
    let x ← x.toNat?; let (a, r) ← pQ r; let (b, r) ← pQ r; let (c, r) ← pQ r; pure (.reduce x a b c, r)
  | "foreach" :: x :: r => do
    let x ← x.toNat?; let (a, r) ← pQ r; let (b, r) ← pQ r; let (c, r) ← pQ r; let (d, r) ← pQ r
    pure (.foreach x a b c d, r)
  | "obj" :: n :: r => do
    let n ← n.toNat?
    let (sp, r) ← pSpine n .objStart r
    pure (.obj sp, r)
  | _ => none

/-- `n` more entries `k v` appended to the spine -/
partial def pSpine : Nat → Q → List String → Option (Q × List String)
  | 0, sp, r => some (sp, r)
  | n+1, sp, "kq" :: r => do let (k, r) ← pQ r; let (v, r) ← pQ r; pSpine n (.objSnoc sp k v) r
  | n+1, sp, "kc" :: r => do let (key, r) ← parseVal r; let (v, r) ← pQ r; pSpine n (.objSnocC sp key v) r
  | _+1, _, _ => none
end

partial def pQs : Nat → List String → Option (List Q × List String)
  | 0, r => some ([], r)
  | n+1, r => do let (q, r) ← pQ r; let (qs, r) ← pQs n r; pure (q :: qs, r)

def pProg : List String → Option (Prog × List String)
  | n :: r => do
    let n ← n.toNat?
    let (defs, r) ← pQs n r
    let (main, r) ← pQ r
    pure ({ defs := defs, main := main }, r)
  | [] => none

/-- renumbering state: scope ids and registers in order of first appearance -/
structure Ren where
  scopes : List Nat := []
  regs : List (Nat × Nat) := []

def Ren.scope (r : Ren) (sid : Nat) : Ren × Nat :=
  match r.scopes.findIdx? (· == sid) with
  | some k => (r, k)
  | none => ({ r with scopes := r.scopes ++ [sid] }, r.scopes.length)

def Ren.reg (r : Ren) (sid i : Nat) : Ren × Nat × Nat :=
  let (r, s) := r.scope sid
  let mine := r.regs.filter (·.1 == sid)
  match mine.findIdx? (·.2 == i) with
  | some k => (r, s, k)
  | none => ({ r with regs := r.regs ++ [(sid, i)] }, s, mine.length)

def showInstr (r : Ren) : Instr → Ren × String
  | .const c => (r, "const " ++ toWire c)
  | .push c => (r, "push " ++ toWire c)
  | .pop => (r, "pop")
  | .store sid i => let (r, s, k) := r.reg sid i; (r, s!"store {s} {k}")
  | .load sid i => let (r, s, k) := r.reg sid i; (r, s!"load {s} {k}")
  | .append sid i => let (r, s, k) := r.reg sid i; (r, s!"append {s} {k}")
  | .fork t => (r, s!"fork {t}")
  | .jump t => (r, s!"jump {t}")
  | .iter => (r, "iter")
  | .backtrack => (r, "backtrack")
  | .call t => (r, s!"call {t}")
  | .scope id _ argc => let (r, s) := r.scope id; (r, s!"scope {s} {argc}")
  | .ret => (r, "ret")
  | .pushpc t => (r, s!"pushpc {t}")
  | .callpc => (r, "callpc")
  | .forktrybegin t => (r, s!"forktrybegin {t}")
  | .forktryend => (r, "forktryend")
  | .callerror => (r, "call error/0")
  | .dup => (r, "dup")
  | .jumpifnot t => (r, s!"jumpifnot {t}")
  | .index k => (r, "index " ++ toWire k)
  | .expbegin => (r, "expbegin")
  | .expend => (r, "expend")
  | .object n => (r, s!"object {n}")

def showCode (code : Code) : String :=
  let (_, out) := code.foldl (fun (acc : Ren × List String) i =>
    let (r, s) := showInstr acc.1 i; (r, s :: acc.2)) ({}, [])
  " ; ".intercalate out.reverse

def showOuts (outs : List V) : String := String.join (outs.map fun o => toWire o ++ " ; ")

def showOutcome : Outcome → String
  | .finished outs none =>
    if outs.any mentionsUnmodelled then "?error message not modelled" else showOuts outs ++ "END"
  | .finished outs (some (.plain (.notIter v))) =>
    match (Gojq.Err.builtin "iterator" [v]).message with
    | some m => if outs.any mentionsUnmodelled || mentionsUnmodelled v then "?error message not modelled"
                else showOuts outs ++ "ERR msg s" ++ bytesToHex m
    | none => "?error message not modelled"
  | .finished outs (some (.plain (.idx v k))) =>
    match Gojq.funcIndex2 v k with
    | .error e => (match e.message with
      | some m => if outs.any mentionsUnmodelled || mentionsUnmodelled v then "?error message not modelled"
                  else showOuts outs ++ "ERR msg s" ++ bytesToHex m
      | none => "?error message not modelled")
    | .ok _ => "?index"
  | .finished outs (some (.plain (.user v))) =>
    if outs.any mentionsUnmodelled || mentionsUnmodelled v then "?error message not modelled"
    else showOuts outs ++ "ERR value " ++ toWire v
  | .finished outs (some (.plain (.keyNotStr k))) =>
    match (Gojq.Err.builtin "objectKeyNotString" [k]).message with
    | some m => if outs.any mentionsUnmodelled || mentionsUnmodelled k then "?error message not modelled"
                else showOuts outs ++ "ERR msg s" ++ bytesToHex m
    | none => "?error message not modelled"
  | .finished _ (some (.plain .noParam)) => "?parameter used outside a function"
  | .finished _ (some (.plain (.noVar _))) => "?unbound variable"
  | .finished outs (some (.tryEnd _)) => showOuts outs ++ "STUCK tryEndError escaped"
  | .outOfFuel _ => "?fuel"
  | .stuck outs => showOuts outs ++ "STUCK"

def line (l : String) : String :=
  let toks := tokens l
  let (pt, vt) := toks.span (· != "|||")
  match pt with
  | fuel :: pt =>
    match fuel.toNat?, pProg pt, parseVal (vt.drop 1) with
    | some fuel, some (p, []), some (v, []) =>
      let code := compileProg p
      showCode code ++ " ||| " ++ showOutcome (runProg p fuel v)
    | _, _, _ => "?parse"
  | [] => "?parse"

end MiniDrv

def main (args : List String) : IO UInt32 :=
  Driver.main [("stack", StackDrv.line), ("scopestack", StackDrv.line), ("mini", MiniDrv.line)] args

/- C19 driver.  Stream `options`:
     mask <argc> <k> (<min> <max> <iter 0|1>)*k   ->  accept <registration id> | reject | panic-arity | panic-iter
         k ≥ 1 registrations of one name in order (ids 1..k), then a call with <argc> arguments
     vars <n> <name>*n <m>                        ->  run <name>=<i>,… | toomany | expected <name>
         m values (numbered 1..m) passed to Run for the n WithVariables names
   Stream `ambientfree` (Props/C19VM.lean, `ambient_free_on_dump`):
     <op|tgt|arg …>  (the `VerifCodes` dump of a program compiled WITHOUT options, syntax of C04's streams)
                                                  ->  free | not-free <name>/<argc>
         the static hypothesis of `default_noninterference_vm`: every native call site carries a (name,
         argument count) that the regenerated NativeTable/Facts classify as touching no ambient state -/
import Gojq.Model.Options
import Gojq.Model.Ambient
import Driver.Common
open Gojq.Options

def parseRegs : List String → Option (List (Int × Int × Bool))
  | [] => some []
  | a :: b :: c :: rest => do
    let mn ← a.toInt?
    let mx ← b.toInt?
    let rs ← parseRegs rest
    pure ((mn, mx, c == "1") :: rs)
  | _ => none

def optionsLine (line : String) : String :=
  match (line.splitOn " ").filter (· != "") with
  | "mask" :: argc :: _k :: rest =>
    match argc.toNat?, parseRegs rest with
    | some n, some regs =>
      if regs.isEmpty then "?noregs" else
      match applyOptions regs with
      | .panicArity => "panic-arity"
      | .panicIter => "panic-iter"
      | .ok e =>
        match call e n with
        | some id => "accept " ++ toString id
        | none => "reject"
    | _, _ => "?parse"
  | "vars" :: n :: rest =>
    match n.toNat? with
    | some n =>
      let names := rest.take n
      match (rest.drop n).head? >>= String.toNat? with
      | some m =>
        match start names 0 ((List.range m).map (· + 1)) with
        | .tooMany => "toomany"
        | .expected nm => "expected " ++ nm
        | .run env _ =>
          if env.isEmpty then "run" else "run " ++ ",".intercalate (env.map fun kv => kv.1 ++ "=" ++ toString kv.2)
      | none => "?parse"
    | none => "?parse"
  | _ => "?parse"

def main (args : List String) : IO UInt32 :=
  Driver.main [("options", optionsLine), ("ambientfree", Gojq.Ambient.ambientFreeLine)] args

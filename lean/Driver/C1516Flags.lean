/- Shared by drv_c15 and drv_c16.
   stream `flags`: arguments as hex tokens (`-` = empty argument)
     -> `ok bools=… indent=… libs=… maps=… args=… jsonargs=… rest=…` or `err <class> <hex flag name>`
   stream `flagtable`: any line -> the model's table `long/short/kind,…` -/
import Gojq.Model.Cli.Flags
import Gojq.Model.Wire
open Gojq Gojq.Wire

def strOfHex (t : String) : Option Flags.Str :=
  if t == "-" then some [] else do
    let b ← hexToBytes t.toList
    let s ← String.fromUTF8? (ByteArray.mk b.toArray)
    pure s.toList

def hexOfStr (s : Flags.Str) : String :=
  let h := bytesToHex (String.ofList s).toUTF8.toList
  if h.isEmpty then "e" else h

def insertSorted (x : String) : List String → List String
  | [] => [x]
  | y :: ys => if x < y then x :: y :: ys else if x == y then y :: ys else y :: insertSorted x ys

def sortU (xs : List String) : List String := xs.foldl (fun acc x => insertSorted x acc) []

def commaOrDash (xs : List String) : String := if xs.isEmpty then "-" else ",".intercalate xs

def optHex : Option Flags.Str → String
  | none => "nil"
  | some s => hexOfStr s

def kindStr : Flags.Kind → String
  | .bool => "bool" | .int => "int" | .list => "list" | .positional => "positional" | .map => "map"

def flagsLine (line : String) : String :=
  match (tokens line).mapM strOfHex with
  | none => "?parse"
  | some args =>
    match Flags.parseFlags args with
    | .error .unmodelled => "?unmodelled"
    | .error (.unknown a) => "err unknown " ++ hexOfStr a
    | .error (.boolArg a) => "err boolarg " ++ hexOfStr a
    | .error (.expected a) => "err expected " ++ hexOfStr a
    | .error (.expected2 a) => "err expected2 " ++ hexOfStr a
    | .error (.invalid a) => "err invalid " ++ hexOfStr a
    | .ok p =>
      let bools := sortU (p.bools.map String.ofList)
      let maps := sortU (p.maps.map fun (f, n, v) => String.ofList f ++ ":" ++ hexOfStr n ++ ":" ++ hexOfStr v)
      let ind := match p.indent with | none => "-" | some n => toString n
      s!"ok bools={commaOrDash bools} indent={ind} libs={commaOrDash (p.libs.map hexOfStr)} maps={commaOrDash maps} args={commaOrDash (p.args.map optHex)} jsonargs={commaOrDash (p.jsonargs.map optHex)} rest={commaOrDash (p.rest.map hexOfStr)}"

def flagTableLine (_ : String) : String :=
  ",".intercalate (Flags.table.map fun sp =>
    String.ofList sp.long ++ "/" ++ (match sp.short with | some c => String.singleton c | none => "") ++ "/" ++ kindStr sp.kind)


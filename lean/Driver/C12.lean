/- C12 driver.
   stream `marshal`: `<wire v>`                                   -> hex of encodeValue v
   stream `cli`    : `<indent> <tab 0/1> <color 0/1> <wire v>`     -> hex of encodeCli (default colours)
   stream `chunks` : same line                                    -> lengths of the chunks written (flush points)
   stream `string` : `<hex bytes>` (or `-` for the empty string)  -> hex of encodeString
   stream `strip`  : `<indent> <tab> <color> <wire v>`            -> hex of stripWs (stripSGR (encodeCli …))
   stream `parse`  : `<hex json text>`                            -> `ok <wire>` | `err`
   A value containing a float whose shortest digits the model could not find answers `?float`. -/
import Gojq.Model.Encode
import Gojq.Model.Wire
import Driver.Common
open Gojq Gojq.Wire Gojq.Encode

def marshalLine (line : String) : String :=
  match parseLine line with
  | some v => if modelled v then bytesToHex (encodeValue v) else "?float"
  | none => "?parse"

def cliOpts (toks : List String) : Option (Cli.Opts × JV) :=
  match toks with
  | i :: t :: c :: rest =>
    match i.toInt?, parseVal rest with
    | some indent, some (v, []) =>
      some ({ indent := indent, tab := t == "1", color := if c == "1" then some Cli.defaultColors else none }, v)
    | _, _ => none
  | _ => none

def cliLine (line : String) : String :=
  match cliOpts (tokens line) with
  | some (o, v) => if modelled v then bytesToHex (Cli.encodeCli o v) else "?float"
  | none => "?parse"

def chunksLine (line : String) : String :=
  match cliOpts (tokens line) with
  | some (o, v) =>
    if modelled v then " ".intercalate ((Cli.marshalChunks o v).map fun c => toString c.length) else "?float"
  | none => "?parse"

def stripLine (line : String) : String :=
  match cliOpts (tokens line) with
  | some (o, v) => if modelled v then bytesToHex (stripWs (stripSGR (Cli.encodeCli o v))) else "?float"
  | none => "?parse"

def stringLine (line : String) : String :=
  let l := if line == "-" then "" else line
  match hexToBytes l.toList with
  | some s => bytesToHex (encodeString s)
  | none => "?parse"

mutual
  /-- objects as the harness canonicalises them: keys sorted, the last duplicate wins -/
  partial def normObj : JV → JV
    | .arr xs => .arr (xs.map normObj)
    | .obj kvs => JV.mkObj (kvs.map fun (k, v) => (k, normObj v))
    | v => v
end

def parseLineJson (line : String) : String :=
  let l := if line == "-" then "" else line
  match hexToBytes l.toList with
  | some s =>
    match parseJson s with
    | some v => "ok " ++ toWire (normObj v)
    | none => "err"
  | none => "?parse"

def main (args : List String) : IO UInt32 :=
  Driver.main [("marshal", marshalLine), ("cli", cliLine), ("chunks", chunksLine), ("string", stringLine),
               ("strip", stripLine), ("parse", parseLineJson)] args

/- C16 driver.
   stream `stream`    : `tok* (EOF|ERR)` with tok ∈ `[ ] { }` or a wire scalar (n t f i… d… s<hex>)
                        -> `<wire event> ; … ; (EOF|ERR|PANIC)`
   stream `tostream`  : `<wire value>`            -> `<wire event> ; … ; END`
   stream `fromstream`: `<wire event>*`           -> `<wire value> ; … ; (END|ERR)`
   stream `inputs`    : `mode | stdin-content | arg | arg …`
                        mode ∈ d s R Rs S Ss; arg ∈ `-` | `M` | `F content`;
                        content = `T<hex>` (raw modes) | `X tok* (EOF|ERR)` (stream modes)
                                | `(V <wire value>)* [B]` (json modes, B = malformed document)
                        -> `<wire value> | E | PANIC ; … ; END`
-/
import Gojq.Model.Cli.Stream
import Gojq.Model.Cli.Inputs
import Gojq.Model.Wire
import Driver.Common
import Driver.C1516Flags
open Gojq Gojq.Wire Gojq.Stream Gojq.Inputs

def parseToks : List String → List Tok → Option (List Tok × Term)
  | [], _ => none
  | ["EOF"], acc => some (acc.reverse, .eof)
  | ["ERR"], acc => some (acc.reverse, .err)
  | "[" :: rest, acc => parseToks rest (.lbrack :: acc)
  | "]" :: rest, acc => parseToks rest (.rbrack :: acc)
  | "{" :: rest, acc => parseToks rest (.lbrace :: acc)
  | "}" :: rest, acc => parseToks rest (.rbrace :: acc)
  | t :: rest, acc =>
    match parseVal [t] with
    | some (v, []) => parseToks rest (.atom v :: acc)
    | _ => none

def joinSemi (xs : List String) (last : String) : String := " ; ".intercalate (xs ++ [last])

def finStr : Fin → String
  | .eof => "EOF" | .error => "ERR" | .panic => "PANIC" | .fuel => "FUEL"

def streamLine (line : String) : String :=
  match parseToks (tokens line) [] with
  | none => "?parse"
  | some (toks, term) =>
    let (es, fin) := run false term toks
    let (es', fin') := run true term toks
    if es.map toWire != es'.map toWire || fin != fin' then "MOREDEP"
    else joinSemi (es.map toWire) (finStr fin)

def tostreamLine (line : String) : String :=
  match parseLine line with
  | none => "?parse"
  | some v => joinSemi ((streamSpec v).map toWire) "END"

def fromstreamLine (line : String) : String :=
  match parseVals (tokens line) with
  | none => "?parse"
  | some evs =>
    match fromstreamSpec evs with
    | .ok outs => joinSemi (outs.map toWire) "END"
    | .error outs => joinSemi (outs.map toWire) "ERR"

/-! inputs -/

partial def parseDocs : List String → List Doc → Option (List Doc)
  | [], acc => some acc.reverse
  | ["B"], acc => some (Doc.malformed :: acc).reverse
  | "V" :: rest, acc =>
    match parseVal rest with
    | some (v, rest') => parseDocs rest' (.value v :: acc)
    | none => none
  | _, _ => none

def parseContent (raw stream : Bool) (field : String) : Option Reader :=
  let ts := tokens field
  if raw then
    match ts with
    | [t] =>
      match t.toList with
      | 'T' :: hs => (hexToBytes hs).map fun b => { text := b }
      | _ => none
    | _ => none
  else if stream then
    match ts with
    | "X" :: rest => (parseToks rest []).map fun (tk, tm) => { toks := tk, term := tm }
    | _ => none
  else (parseDocs ts []).map fun ds => { docs := ds }

def parseArg (raw stream : Bool) (field : String) : Option Arg :=
  match tokens field with
  | ["-"] => some .stdin
  | ["M"] => some .missing
  | "F" :: _ => (parseContent raw stream ((field.trimAsciiStart.drop 1).toString)).map .file
  | _ => none

def itemStr : Item → String
  | .val v => toWire v
  | .err => "E"
  | .panic => "PANIC"

def parseMode : String → Option Mode
  | "d" => some {}
  | "s" => some { slurp := true }
  | "R" => some { raw := true }
  | "Rs" => some { raw := true, slurp := true }
  | "S" => some { stream := true }
  | "Ss" => some { stream := true, slurp := true }
  | _ => none

def inputsLine (line : String) : String :=
  match line.splitOn " | " with
  | ms :: sin :: args =>
    match parseMode ms.trimAscii.toString with
    | none => "?mode"
    | some m =>
      let stream := m.stream && !m.raw
      match parseContent m.raw stream sin, args.mapM (parseArg m.raw stream) with
      | some r, some as => joinSemi ((inputIter m as r).map itemStr) "END"
      | _, _ => "?parse"
  | _ => "?fields"

def main (args : List String) : IO UInt32 :=
  Driver.main [("stream", streamLine), ("tostream", tostreamLine), ("fromstream", fromstreamLine),
    ("inputs", inputsLine), ("flags", flagsLine), ("flagtable", flagTableLine)] args

/- C04 driver. streams `codeops`, `tailrec`: line = instruction list `op|tgt|arg …` -> the pass output
   in the same syntax, or `PANIC` -/
import Gojq.Model.Optimize
import Gojq.Model.OptVM
import Gojq.Model.SafeVM
import Gojq.Model.SafeVM2
import Gojq.Model.TailVM
import Driver.Common
open Gojq.Opt

def parseInstr (tok : String) : Option Instr :=
  match tok.splitOn "|" with
  | [op, tgt, arg] => some { op := op, tgt := if tgt == "_" then none else tgt.toInt?, arg := arg,
                             ints := if op == "scope" then parseInts arg else [] }
  | _ => none

def showInstr (i : Instr) : String :=
  i.op ++ "|" ++ (match i.tgt with | some t => toString t | none => "_") ++ "|" ++ i.arg

def runPass (f : Code → Option Code) (line : String) : String :=
  let toks := (line.splitOn " ").filter (· ≠ "")
  match toks.mapM parseInstr with
  | none => "?parse"
  | some is =>
    match f is.toArray with
    | none => "PANIC"
    | some out => " ".intercalate (out.toList.map showInstr)

/-- stream `wf`: the static hypothesis of `optimizeCodeOps_preserves_outputs` on a dumped code
    (`wfCheckView`, proved equal to `wfCheck` through `view`) -/
def runWf (line : String) : String :=
  let toks := (line.splitOn " ").filter (· ≠ "")
  match toks.mapM parseInstr with
  | none => "?parse"
  | some is => if Gojq.OptVM.wfCheckView is.toArray then "wf" else "not-wf"

/-- stream `safe` (C08): the static hypothesis of `vm_total_wf` (Props/C08VM.lean) on a dumped
    code (`safeCheckView`, proved equal to `safeCheck` through the dump `viewS`); a rejected code is
    answered with the first pc the verifier rejects -/
def runSafe (line : String) : String :=
  let toks := (line.splitOn " ").filter (· ≠ "")
  match toks.mapM Gojq.SafeVM.parseDump with
  | none => "?parse"
  | some is =>
    if Gojq.SafeVM.safeCheckView is.toArray then "safe"
    else if Gojq.SafeVM.checkShapes (is.toArray.map Gojq.SafeVM.shapeV) 0 then
      -- layer 2 (frames, closures, kinds) rejects
      "not-safe2 pc=" ++ toString (Gojq.SafeVM.firstBad2 (is.toArray.map Gojq.SafeVM.shapeV))
    else "not-safe pc=" ++ toString (Gojq.SafeVM.firstBad (is.toArray.map Gojq.SafeVM.shapeV) 0)

/-- the dump with the `[id, index]` operand of the variable instructions kept (`TailVM.viewT`) -/
def parseInstrT (tok : String) : Option Instr :=
  match tok.splitOn "|" with
  | [op, tgt, arg] => some { op := op, tgt := if tgt == "_" then none else tgt.toInt?, arg := arg,
                             ints := if op == "scope" || op == "load" || op == "store" || op == "append" ||
                                        op == "forklabel" then parseInts arg else [] }
  | _ => none

/-- stream `tailwf`: the static hypotheses of `optimizeTailRec_preserves_outputs_partial`
    (Props/C04Tail.lean) on dumped codes (`…View`, proved equal to the scans on interpreter code through
    the dump `viewT`).  `B <code before the pass>` -> `shape-ok` / `not-shape-ok`, then `closure-free` /
    `closures`; `A <code after the pass>` -> `jumps-only` / `has-callrec` -/
def runTailWf (line : String) : String :=
  let toks := (line.splitOn " ").filter (· ≠ "")
  match toks with
  | "B" :: rest =>
    match rest.mapM parseInstrT with
    | none => "?parse"
    | some is =>
      (if Gojq.TailVM.tailShapeCheckView is.toArray then "shape-ok" else "not-shape-ok") ++ " " ++
      (if Gojq.TailVM.closureFreeView is.toArray then "closure-free" else "closures")
  | "A" :: rest =>
    match rest.mapM parseInstrT with
    | none => "?parse"
    | some is => if Gojq.TailVM.noCallrecView is.toArray then "jumps-only" else "has-callrec"
  | _ => "?parse"

def main (args : List String) : IO UInt32 :=
  Driver.main [("codeops", runPass optimizeCodeOps), ("tailrec", runPass optimizeTailRec), ("wf", runWf),
    ("safe", runSafe), ("tailwf", runTailWf)] args

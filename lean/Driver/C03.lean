/- C03 driver.
   stream `native`: `<name> <argc> <wire input> <wire arg>…`  ->
       `ok <wire>`               the value
     | `err s<hex message>`      a built-in error, by its exact text (what `catch .` exposes)
     | `errv <wire>`             `error(v)`
     | `halt <wire> <code>`      halt / halt_error
     | `iter <wire>… [more]`     `_range`: the first 40 outputs, `more` when the iterator goes on
     | `?…`                      not modelled (native, argument shape, message text, or a sort on
                                 keys on which Compare is not a preorder)
-/
import Gojq.Model.Native
import Gojq.Model.Wire
import Driver.Common
open Gojq Gojq.Wire

def showErr (e : Err) : String :=
  match e with
  | .user v => "errv " ++ toWire v
  | .halt v code => "halt " ++ toWire v ++ " " ++ toString code
  | .brk _ => "?brk"
  | e =>
    if e.isUnmodelled then "?unmodelled-input"
    else match e.message with
      | some m => "err s" ++ bytesToHex m
      | none => "?message"

def showRes : NRes → String
  | .ok v => "ok " ++ toWire v
  | .error e => showErr e

/-- composition law of a three-way comparison (as in Driver/C11.lean) -/
def compatB (ab bc ac : Ordering) : Bool :=
  match ab, bc with
  | .eq, o => ac == o
  | o, .eq => ac == o
  | .lt, .lt => ac == .lt
  | .gt, .gt => ac == .gt
  | _, _ => true

def dedupKeys : List JV → List JV → List JV
  | [], acc => acc.reverse
  | k :: ks, acc => if acc.any (· == k) then dedupKeys ks acc else dedupKeys ks (k :: acc)

/-- is `cmp` a preorder on this set of keys?  Outside C11's domain (NaN, floats ≥ 2^53 next to
    big integers) it may not be, and then the result of `sort.SliceStable` depends on the
    algorithm; such lines are answered `?`. -/
def keysConsistent (keys : List JV) : Bool :=
  if keys.all JV.tame then true else
  let ds := (dedupKeys keys []).toArray
  let n := ds.size
  let m := ds.map fun a => ds.map fun b => cmp a b
  let get (i j : Nat) : Ordering := (m.getD i #[]).getD j .eq
  (List.range n).all fun i =>
    (get i i == .eq || (keys.filter (· == ds.getD i .null)).length ≤ 1) &&
    (List.range n).all fun j =>
      (i == j || get j i == (get i j).swap) &&
      (List.range n).all fun k => compatB (get i j) (get j k) (get i k)

def sortingNatives : List String := ["sort", "unique", "_sort_by", "_group_by", "_unique_by"]

def sortGuard (name : String) (v : JV) (args : List JV) : Bool :=
  if sortingNatives.contains name then
    match args.headD v with
    | .arr ks => keysConsistent ks
    | _ => true
  else true

def rangeLimit : Nat := 40

def nativeLine (line : String) : String :=
  match tokens line with
  | name :: _argc :: rest =>
    match parseVals rest with
    | some (v :: args) =>
      if !sortGuard name v args then "?inconsistent-order-on-these-keys" else
      if name == "_range" then
        match args with
        | [a, b, c] =>
          match rangeCheck [a, b, c] with
          | some e => showErr e
          | none =>
            let r := rangePrefix b c rangeLimit a
            " ".intercalate (["iter"] ++ r.1.map toWire ++ (if r.2 then ["more"] else []))
        | _ => "?arity"
      else
        match callNative name v args with
        | some r => showRes r
        | none => "?native"
    | _ => "?parse"
  | _ => "?empty"

def main (args : List String) : IO UInt32 :=
  Driver.main [("native", nativeLine)] args

/- C17 driver. Byte strings travel as `x<hex>`. Rune widths: the fixed table `w17` (both sides
   compute it; the harness asserts runewidth agrees on every prefix it measures).
   streams:
     lineinfo  `x<text> <offset>`                         -> `<line> <col> x<excerpt>`
   `<col>` is `?` when the excerpt is not valid UTF-8 or holds a rune outside the table (the
   width function is then outside the assumption the model is stated under); the harness
   applies the same rule to the implementation's answer.
     trim      `x<bytes>`                                 -> `x<trimLastInvalidRune>`
     fmt       `x<linestr> <line> <col>`                  -> `x<formatLineInfo>`
     window    `x<input> (r<n> | d<end>)* (e<off> | u)`   -> `m|s <line> <col> x<excerpt>` | `panic`
     seekable  `x<input> (e<off> | u)`                    -> `m|s <line> <col> x<excerpt>`
     qerr      `x<query> <isArg 0|1> (<Offset> <|Token|> | none)` -> `m|s <line> <col> x<excerpt>`
     yaml      `x<text> <character index, -1 = none>`     -> `m <line> <col> x<excerpt>` | `noindex` -/
import Gojq.Model.Cli.Window
import Gojq.Model.Wire
import Driver.Common
open Gojq Gojq.Cli Gojq.Wire

/-- display width table (go-runewidth, non-East-Asian): printable ASCII 1, é 1, 漢 2,
    U+0301 0, 😀 2, U+FFFD 1; 1000 = not in the table -/
def w17 (r : Nat) : Nat :=
  if 0x20 ≤ r && r < 0x7F then 1
  else if r == 0xE9 then 1
  else if r == 0x6F22 then 2
  else if r == 0x301 then 0
  else if r == 0x1F600 then 2
  else if r == 0xFFFD then 1
  else 1000

/-- every decoding step of `s` is valid and the rune is in the table -/
def allKnown : Nat → Bytes → Bool
  | 0, s => s.isEmpty
  | _, [] => true
  | fuel + 1, s =>
    let (r, n, ok) := Utf8.decodeRune s
    ok && w17 r < 1000 && allKnown fuel (s.drop (max n 1))

def showCol (excerpt : Bytes) (col : Nat) : String :=
  if allKnown excerpt.length excerpt then toString col else "?"

def unx (tok : String) : Option Bytes :=
  match tok.toList with
  | 'x' :: hs => hexToBytes hs
  | _ => none

def xhex (b : Bytes) : String := "x" ++ bytesToHex b

def showReport (r : Report) : String :=
  (if r.multi then "m " else "s ") ++ toString r.line ++ " " ++ showCol r.linestr r.column ++ " " ++ xhex r.linestr

def lineinfoLine (line : String) : String :=
  match tokens line with
  | [t, o] =>
    match unx t, o.toInt? with
    | some text, some off =>
      let (ex, ln, k) := getLineByOffset' text off
      let col := strWidth w17 (ex.take k)
      toString ln ++ " " ++ showCol ex col ++ " " ++ xhex ex
    | _, _ => "?parse"
  | _ => "?parse"

def trimLine (line : String) : String :=
  match tokens line with
  | [t] => match unx t with
    | some b => xhex (trimLastInvalidRune b)
    | none => "?parse"
  | _ => "?parse"

def fmtLine (line : String) : String :=
  match tokens line with
  | [t, l, c] =>
    match unx t, l.toNat?, c.toNat? with
    | some s, some l, some c => xhex (formatLineInfo s l c)
    | _, _, _ => "?parse"
  | _ => "?parse"

def parseErr (tok : String) : Option JsonErr :=
  match tok.toList with
  | ['u'] => some .unexpectedEOF
  | 'e' :: ds => (String.ofList ds).toInt?.map .syntax
  | _ => none

def windowRun (s : Win) : List String → Option String
  | [] => none
  | [last] => (parseErr last).map fun e => showReport (s.report w17 e)
  | tok :: rest =>
    let ev : Option Ev := match tok.toList with
      | 'r' :: ds => (String.ofList ds).toNat?.map .read
      | 'd' :: ds => (String.ofList ds).toNat?.map .decoded
      | _ => none
    match ev with
    | none => none
    | some ev =>
      match s.step bufSize ev with
      | none => some "panic"
      | some s' => windowRun s' rest

def windowLine (line : String) : String :=
  match tokens line with
  | t :: evs =>
    match unx t with
    | some inp => (windowRun (Win.init inp) evs).getD "?parse"
    | none => "?parse"
  | _ => "?parse"

def seekableLine (line : String) : String :=
  match tokens line with
  | [t, e] =>
    match unx t, parseErr e with
    | some inp, some e => showReport (seekReport w17 bufSize inp e)
    | _, _ => "?parse"
  | _ => "?parse"

def qerrLine (line : String) : String :=
  match tokens line with
  | [t, a, "none"] =>
    match unx t with
    | some q => showReport (queryReport w17 (a == "1") q none)
    | none => "?parse"
  | [t, a, o, l] =>
    match unx t, o.toInt?, l.toNat? with
    | some q, some o, some l => showReport (queryReport w17 (a == "1") q (some (o, l)))
    | _, _, _ => "?parse"
  | _ => "?parse"

def yamlLine (line : String) : String :=
  match tokens line with
  | [t, i] =>
    match unx t, i.toInt? with
    | some s, some i => match yamlReport w17 s i with
      | some r => showReport r
      | none => "noindex"
    | _, _ => "?parse"
  | _ => "?parse"

def main (args : List String) : IO UInt32 :=
  Driver.main [("lineinfo", lineinfoLine), ("trim", trimLine), ("fmt", fmtLine), ("window", windowLine),
    ("seekable", seekableLine), ("qerr", qerrLine), ("yaml", yamlLine)] args

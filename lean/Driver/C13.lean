/- C13 driver: stream `codec`:  `<name> <args in wire form>`  ->  `ok …` | `err` | `?…`
     explode s<hex>            -> ok <code points, space separated>
     implode [ i.. i.. ]       -> ok s<hex> | err (non-number element) | ?float
     split s<sep> s<str>       -> ok s<hex> s<hex> …
     join s<sep> s<x0> s<x1> … -> ok s<hex>
     b64 | uri s<hex>          -> ok s<hex>
     b64d | urid s<hex>        -> ok s<hex> | err
     tostring i<z>             -> ok s<hex>
     tonumber s<hex>           -> ok i<z> | err | ?float
     gmtime i<t>               -> ok y m0 d h mi s wd yd
     mktime i<y> i<m0> …       -> ok i<t>            (missing fields are 0, as in arrayToTime)
     todate i<t>               -> ok s<hex> | ?range  (years outside 0..9999)
     fromdate s<hex>           -> ok i<t> | err | ?shape
   stream `pairs` (the jq-defined pairs, Model/Pairs.lean + Model/Cli/Stream.lean):  `<name> <wire value>`
     to_entries | from_entries | with_entries v   -> ok <wire> | err        (with_entries is with_entries(.))
     paths | tostream v                           -> ok [ … ]               ([paths], [tostream])
     fromstream [ ev* ]                           -> ok [ … ] | err | ?…    ([fromstream(.[])])
     replay [ ev* ]                               -> ok <wire> | err | ?…
        (reduce (.[] | select(length == 2)) as [$p, $x] (null; setpath($p; $x))) -/
import Gojq.Model.Codec
import Gojq.Model.Calendar
import Gojq.Model.Pairs
import Gojq.Model.Wire
import Driver.Common
open Gojq Gojq.Wire Gojq.Codec Gojq.Calendar

def okStr (b : Bytes) : String := "ok s" ++ bytesToHex b

def allInts : List JV → Option (List Int)
  | [] => some []
  | .num (.int z) :: rest => (allInts rest).map (z :: ·)
  | _ => none

def allStrs : List JV → Option (List Bytes)
  | [] => some []
  | .str s :: rest => (allStrs rest).map (s :: ·)
  | _ => none

def isNum : JV → Bool
  | .num _ => true
  | _ => false

def codecLine (line : String) : String :=
  match tokens line with
  | [] => "?empty"
  | op :: rest =>
    match parseVals rest with
    | none => "?parse"
    | some args =>
      match op, args with
      | "explode", [.str s] => " ".intercalate ("ok" :: (explode s).map toString)
      | "implode", [.arr xs] =>
        match allInts xs with
        | some zs => okStr (implode zs)
        | none => if xs.all isNum then "?float" else "err"
      | "split", [.str sep, .str s] => " ".intercalate ("ok" :: (splitOn sep s).map fun p => "s" ++ bytesToHex p)
      | "join", .str sep :: xs =>
        match allStrs xs with
        | some ss => okStr (join sep ss)
        | none => "?nonstring"
      | "b64", [.str s] => okStr (b64enc s)
      | "b64d", [.str s] => match b64dec s with | some r => okStr r | none => "err"
      | "uri", [.str s] => okStr (uriEnc s)
      | "urid", [.str s] => match uriDec s with | some r => okStr r | none => "err"
      | "tostring", [.num (.int z)] => okStr (intToString z)
      | "tonumber", [.str s] =>
        match parseIntString s with
        | some z => "ok i" ++ toString z
        | none => if s.isEmpty || !(s.all numberChar) then "err" else "?float"
      | "gmtime", [.num (.int t)] =>
        let b := gmtime t
        " ".intercalate ("ok" :: [b.year, b.month0, b.day, b.hour, b.minute, b.second, b.weekday, b.yearday].map toString)
      | "mktime", xs =>
        match allInts xs with
        | some zs =>
          let f (i : Nat) : Int := zs.getD i 0
          "ok i" ++ toString (mktimeFields (f 0) (f 1) (f 2) (f 3) (f 4) (f 5))
        | none => "?nonint"
      | "todate", [.num (.int t)] =>
        let y := (gmtime t).year
        if 0 ≤ y ∧ y ≤ 9999 then okStr (todate t) else "?range"
      | "fromdate", [.str s] =>
        match fromdate s with
        | some (some t) => "ok i" ++ toString t
        | some none => "err"
        | none => "?shape"
      | _, _ => "?op"

/-! ### stream `pairs` -/

def optAns : Option JV → String
  | some v => "ok " ++ toWire v
  | none => "err"

def isArr : JV → Bool
  | .arr _ => true
  | _ => false

def pairsLine (line : String) : String :=
  match tokens line with
  | [] => "?empty"
  | op :: rest =>
    match parseVals rest with
    | some [v] =>
      match op with
      | "to_entries" => optAns (Pairs.toEntries v)
      | "from_entries" => optAns (Pairs.fromEntries v)
      | "with_entries" => optAns (Pairs.withEntries some v)
      | "paths" => optAns (some (Pairs.pathsJV (Pairs.allPaths v)))
      | "tostream" => optAns (some (.arr (Stream.streamSpec v)))
      | "fromstream" =>
        match v with
        | .arr evs =>
          if evs.all Pairs.eventOK then
            match Stream.fromstreamSpec evs with
            | .ok outs => optAns (some (.arr outs))
            | .error _ => "err"
          else "?event outside the modelled fragment"
        | _ => "?not an array"
      | "replay" =>
        match v with
        | .arr evs =>
          if evs.all isArr then
            match Pairs.replayEvents evs .null with
            | .ok w => optAns (some w)
            | .error e => if e.isUnmodelled then "?setpath outside the model" else "err"
          else "?event is not an array"
        | _ => "?not an array"
      | _ => "?op"
    | _ => "?parse"

def main (args : List String) : IO UInt32 :=
  Driver.main [("codec", codecLine), ("pairs", pairsLine)] args

/- C05 driver: stream `heap`.

   One line = an initial value and a sequence of operations on the state (v, registers, allocator):
     V <tlit> ; op ; op ; …
     op ::= S <path> <src>     v := _setpath(v, path, src, a)          (allocator-taking native)
          | s <path> <src>     v := setpath(v, path, src)              (nil allocator)
          | G <path>           push getpath(v, path) released from a   (the getpath of `_modify`)
          | g <path>           push getpath(v, path)                   (plain; creates aliases of owned cells)
          | D <paths>          v := _delpaths(v, paths, a)
          | d <paths>          v := delpaths(v, paths)                 (its own fresh allocator)
          | N                  a := new allocator
          | F <native> <src>…  push native(src…) — the other write sites, Model/HeapWriters.lean:
                               add2 (= `_add`, funcOpAdd), add, flatten, flatten0/1/2 (= flatten(depth)), transpose,
                               reverse, sort, unique, group (= `_group_by` with the values as keys), sortby, uniqueby,
                               groupby, minby, maxby (= `_sort_by` … `_max_by` with an array of keys), mul (= `_multiply`
                               on objects: deepMergeObjects), join, implode
                               (the last two: a string, rendered as `null`, errors not told apart).  Capacities
                               of the NEW arrays are clipped to their lengths on both sides (Go's `append`
                               growth policy is not modelled).
     src ::= L <tlit> | R<k> | W<k> (= [r_k, r_k]) | O<k> (= {"x": r_k})
     path ::= p:<elem>,<elem>…   elem ::= k<hex> | i<int> | l<bound>:<bound>   bound ::= <int> | n
                                 (l = the slice `{"start":…,"end":…}`, n = null)   paths ::= P:<path>|<path>…
     tlit ::= n | t | f | i<int> | s<hex> | [ c<cap> tlit* ] | { s<hex> tlit … }
   Answer: per op `ok <dag> W=<n,…>` or `err`, joined by " ; ", where <dag> renders ALL roots (v, then
   the registers) as one DAG — containers numbered in order of first visit, `!` = registered in the
   allocator, `^n` = the container already visited — and W lists the containers that existed before
   the op (numbers of the PREVIOUS rendering) whose shallow content changed: the in-place writes;
   Z=<n> counts the DEAD registrations: labels registered in the allocator that no root reaches.
   Paths without a slice element run the functions of Model/Heap.lean exactly as before; paths with a
   slice element run `updS` / `markS` / `getpReleaseS` of Model/HeapSlice.lean.
   `?…` = not modelled (slice-header effects on aliased arrays, cyclic stores, a plain getpath that
   returns a second slice header, the clone of an empty slice of a registered array).
-/
import Gojq.Model.Heap
import Gojq.Model.HeapSlice
import Gojq.Model.HeapWriters
import Gojq.Model.Wire
import Driver.Common
open Gojq Gojq.Heap Gojq.Wire

namespace C05Drv

/-! parsing -/

def parseScalar (tok : String) : Option Sc :=
  match parseVal [tok] with
  | some (.null, []) => some .null
  | some (.bool b, []) => some (.bool b)
  | some (.num n, []) => some (.num n)
  | some (.str s, []) => some (.str s)
  | _ => none

def kidsInsert (k : Bytes) (t : T) (ks : Kids) : Kids :=
  let r := splitKey k ks
  r.1 ++ (k, t) :: r.2.2

/-- parse a tree literal, labelling containers from the counter -/
partial def parseT (toks : List String) (f : Nat) : Option (T × List String × Nat) :=
  match toks with
  | [] => none
  | "[" :: capTok :: rest =>
    match capTok.toList with
    | 'c' :: ds =>
      match (String.ofList ds).toNat? with
      | none => none
      | some cap =>
        let rec elems (toks : List String) (f : Nat) (acc : Kids) : Option (Kids × List String × Nat) :=
          match toks with
          | "]" :: rest => some (acc.reverse, rest, f)
          | _ => match parseT toks f with
            | none => none
            | some (t, rest, f') => elems rest f' (([], t) :: acc)
        match elems rest (f + 1) [] with
        | none => none
        | some (ks, rest', f') => some (.node f false cap ks, rest', f')
    | _ => none
  | "{" :: rest =>
    let rec members (toks : List String) (f : Nat) (acc : Kids) : Option (Kids × List String × Nat) :=
      match toks with
      | "}" :: rest => some (acc, rest, f)
      | ktok :: rest =>
        match parseScalar ktok with
        | some (.str k) => match parseT rest f with
          | none => none
          | some (t, rest', f') => members rest' f' (kidsInsert k t acc)
        | _ => none
      | [] => none
    match members rest (f + 1) [] with
    | none => none
    | some (ks, rest', f') => some (.node f true 0 ks, rest', f')
  | tok :: rest => (parseScalar tok).map fun s => (.leaf s, rest, f)

def parseBound (s : String) : Option (Option Int) :=
  if s == "n" then some none else s.toInt?.map some

def parseElem (s : String) : Option PES :=
  match s.toList with
  | 'k' :: hs => (hexToBytes hs).map .key
  | 'i' :: ds => (String.ofList ds).toInt?.map .idx
  | 'l' :: bs =>
    match (String.ofList bs).splitOn ":" with
    | [a, b] => match parseBound a, parseBound b with
      | some x, some y => some (.slice x y)
      | _, _ => none
    | _ => none
  | _ => none

def parsePathBody (s : String) : Option PathS :=
  if s.isEmpty then some [] else (s.splitOn ",").mapM parseElem

def parsePath (tok : String) : Option PathS :=
  if tok.startsWith "p:" then parsePathBody (String.ofList (tok.toList.drop 2)) else none

def parsePaths (tok : String) : Option (List PathS) :=
  if tok.startsWith "P:" then
    let body := String.ofList (tok.toList.drop 2)
    if body.isEmpty then some [] else (body.splitOn "|").mapM parsePathBody
  else none

/-- a path without slice elements, as a path of Model/Heap.lean -/
def plain? (p : PathS) : Option Path :=
  p.mapM fun e => match e with
    | .key k => some (PE.key k)
    | .idx i => some (PE.idx i)
    | .slice _ _ => none

/-! state and observation -/

structure St where
  v : T
  regs : List T
  A : List Nat
  f : Nat

def St.roots (s : St) : List T := s.v :: s.regs

partial def depth : T → Nat
  | .node _ _ _ ks => 1 + (ks.map fun x => depth x.2).foldl max 0
  | _ => 0

def fuel : Nat := 48

/-- shallow content of a cell padded with `null` up to its capacity: what the address-tracking wrapper
    on the Go side fingerprints -/
def shallowOne : T → String
  | .leaf s => toWire s.toJV
  | .hole => "H"
  | .node id true _ _ => s!"@{id}"                      -- a map reference is a pointer
  | .node id false c ks => if c == 0 then "e" else s!"@{id}:{ks.length}"   -- a slice header has a length

def shallow (o : Bool) (cap : Nat) (ks : Kids) : List String :=
  let xs := ks.map fun x => (if o then bytesToHex x.1 ++ "=" else "") ++ shallowOne x.2
  if o then xs else xs ++ List.replicate (cap - ks.length) "n"

partial def cellsOf (t : T) (acc : List (Nat × Bool × Nat × Kids)) : List (Nat × Bool × Nat × Kids) :=
  match t with
  | .node id o c ks =>
    if acc.any (·.1 == id) then acc
    else ks.foldl (fun acc x => cellsOf x.2 acc) (acc ++ [(id, o, c, ks)])
  | _ => acc

/-- numbering of the cells reachable from the roots, in order of first visit; zero-capacity arrays have
    no identity (all of them share Go's `zerobase` address) -/
def numbering (roots : List T) : List (Nat × Bool × Nat × Kids) :=
  (roots.foldl (fun acc t => cellsOf t acc) []).filter fun c => !(c.2.1 == false && c.2.2.1 == 0)

partial def renderT (num : List Nat) (A : List Nat) (t : T) (seen : List Nat) : String × List Nat :=
  match t with
  | .leaf s => (toWire s.toJV, seen)
  | .hole => ("H", seen)
  | .node id o c ks =>
    if !o && c == 0 then ("a0", seen)
    else
      let n := (num.idxOf id)
      if seen.contains id then (s!"^{n}", seen)
      else
        let own := if A.contains id then "!" else ""
        let hdr := if o then s!"#{n}{own}o(" else s!"#{n}{own}a{ks.length}/{c}("
        let (body, seen') := ks.foldl (fun (acc : List String × List Nat) x =>
          let (s, sn) := renderT num A x.2 acc.2
          (acc.1 ++ [(if o then "k" ++ bytesToHex x.1 ++ "=" else "") ++ s], sn)) ([], id :: seen)
        (hdr ++ " ".intercalate body ++ ")", seen')

def renderRoots (s : St) : String :=
  let num := (numbering s.roots).map (·.1)
  let (parts, _) := s.roots.foldl (fun (acc : List String × List Nat) t =>
    let (str, sn) := renderT num s.A t acc.2
    (acc.1 ++ [str], sn)) ([], [])
  " | ".intercalate parts

mutual
  partial def sweepLog (A : List Nat) : T → Log
    | .node id _ _ ks => if A.contains id then sweepLogK A ks ++ [(id, sweepK A ks)] else []
    | _ => []
  partial def sweepLogK (A : List Nat) : Kids → Log
    | [] => []
    | (_, t) :: ks => sweepLog A t ++ sweepLogK A ks
end

/-- apply an operation's writes to every root; `none` = outside the model -/
def settle (old : St) (v' : T) (regs : List T) (A : List Nat) (f : Nat) (log : Log) : Option (St × String) :=
  let pre := numbering old.roots
  let allIds := (old.roots.map T.ids).flatten
  -- slice-header effects: an in-place write that changes the LENGTH of an array that is referenced twice
  let exotic := log.any fun e =>
    match pre.find? (·.1 == e.1) with
    | some (_, false, _, ks) => ks.length != e.2.length && allIds.count e.1 > 1
    | _ => false
  -- a store of a value that contains the written cell closes a cycle (`observe` would unfold it `fuel` deep,
  -- exponentially when the value is duplicated)
  let cyclicStore := log.any fun e => (idsK e.2).contains e.1
  if exotic || cyclicStore then none else
  let obs := fun t => observe log fuel t
  let st : St := { v := obs v', regs := regs.map obs, A := A, f := f }
  if st.roots.any (fun t => depth t ≥ fuel - 2) then none else
  -- which pre-existing cells changed (shallowly)?
  let changed := (List.range pre.length).filter fun n =>
    match pre[n]? with
    | some (id, o, c, ks) =>
      match lastWrite log id with
      | some new => shallow o c (new.map fun x => (x.1, x.2)) != shallow o c ks
      | none => false
    | none => false
  some (st, "W=" ++ ",".intercalate (changed.map toString))

/-- dead registrations: registered labels that no root reaches -/
def dead (s : St) : Nat :=
  let ids := (s.roots.map T.ids).flatten
  (s.A.eraseDups.filter fun a => !ids.contains a).length

def buildSrc (toks : List String) (s : St) : Option (T × Nat × List String) :=
  match toks with
  | "L" :: rest => match parseT rest s.f with
    | some (t, rest', f') => some (t, f', rest')
    | none => none
  | tok :: rest =>
    match tok.toList with
    | 'R' :: ds => (String.ofList ds).toNat?.bind fun k => (s.regs[k]?).map fun r => (r, s.f, rest)
    | 'W' :: ds => (String.ofList ds).toNat?.bind fun k => (s.regs[k]?).map fun r =>
        (.node s.f false 2 [([], r), ([], r)], s.f + 1, rest)
    | 'O' :: ds => (String.ofList ds).toNat?.bind fun k => (s.regs[k]?).map fun r =>
        (.node s.f true 0 [([120], r)], s.f + 1, rest)
    | _ => none
  | [] => none

/-- offset of the pointer of `getpath(p)`'s result from the base of its cell, when the result is a slice
    header (`vs[start:end]` advances the pointer by `start` unless the remaining capacity is 0) -/
def viewOffset : PathS → T → Nat → Option Nat
  | [], _, off => some off
  | e :: p, v, off =>
    match e, v with
    | .key _, .leaf .null => viewOffset p T.null 0
    | .key k, .node _ true _ ks => viewOffset p ((splitKey k ks).2.1.getD T.null) 0
    | .idx _, .leaf .null => viewOffset p T.null 0
    | .idx i, .node _ false _ ks =>
      match resolve i ks.length with
      | .inr j => match splitIdx j ks with
        | some r => viewOffset p r.2.1 0
        | none => viewOffset p T.null 0
      | _ => viewOffset p T.null 0
    | .slice _ _, .leaf .null => viewOffset p T.null 0
    | .slice s e, .node id false c ks =>
      let b := sliceBounds s e ks.length
      viewOffset p (.node id false (c - b.1) ((ks.drop b.1).take (b.2 - b.1))) (if c - b.1 == 0 then off else off + b.1)
    | _, _ => none

/-- `update`: Model/Heap.lean's `upd` for a path without slices, else Model/HeapSlice.lean's `updS` -/
def updAny (A : List Nat) (f : Nat) (p : PathS) (v n : T) : Option (T × List Nat × Nat × Log) :=
  match plain? p with
  | some p0 => upd A f p0 v n
  | none => updS A f p v n

/-- the marking loop: `markAll` when no path has a slice, else `markAllS` -/
def markAny (ps : List PathS) (st : T × List Nat × Nat × Log) : Option (T × List Nat × Nat × Log) :=
  match ps.mapM plain? with
  | some ps0 => markAll ps0 st
  | none => markAllS ps st

/-- capacities of the arrays allocated since `f0` are clipped to their lengths -/
partial def clipNew (f0 : Nat) : T → T
  | .node id o c ks =>
    .node id o (if !o && id ≥ f0 then ks.length else c) (ks.map fun x => (x.1, clipNew f0 x.2))
  | t => t

def writerOf (name : String) : Option Writer :=
  match name with
  | "add2" => some wOpAdd
  | "add" => some wAdd
  | "flatten" => some (wFlatten none)
  | "flatten0" => some (wFlatten (some 0))
  | "flatten1" => some (wFlatten (some 1))
  | "flatten2" => some (wFlatten (some 2))
  | "transpose" => some wTranspose
  | "reverse" => some wReverse
  | "sort" => some wSort
  | "unique" => some wUnique
  | "group" => some wGroupBy
  | "sortby" => some wSortBy
  | "uniqueby" => some wUniqueBy
  | "groupby" => some wGroupByK
  | "minby" => some (wMinMaxBy true)
  | "maxby" => some (wMinMaxBy false)
  | "mul" => some wDeepMerge
  | "join" => some wScalar
  | "implode" => some wScalar
  | _ => none

inductive Out where
  | ok (s : St) (w : String)
  | err
  | unmodelled (why : String)

def runOp (toks : List String) (s : St) : Out :=
  match toks with
  | ["N"] => .ok { s with A := [] } "W="
  | "S" :: ptok :: src =>
    match parsePath ptok, buildSrc src s with
    | some p, some (n, f1, []) =>
      match updAny s.A f1 p s.v n with
      | none => .err
      | some (v', A', f', log) =>
        match settle s v' s.regs A' f' log with
        | some (st, w) => .ok st w
        | none => .unmodelled "alias"
    | _, _ => .unmodelled "parse"
  | "s" :: ptok :: src =>
    match parsePath ptok, buildSrc src s with
    | some p, some (n, f1, []) =>
      match updAny [] f1 p s.v n with
      | none => .err
      | some (v', _, f', log) =>
        match settle s v' s.regs s.A f' log with
        | some (st, w) => .ok st w
        | none => .unmodelled "alias"
    | _, _ => .unmodelled "parse"
  | ["G", ptok] =>
    match parsePath ptok with
    | some p =>
      match plain? p with
      | some p0 => match getpRelease s.A p0 s.v with
        | none => .err
        | some (x, A') => .ok { s with regs := s.regs ++ [x], A := A' } "W="
      | none =>
        -- the clone of an EMPTY slice keeps the pointer of the sliced array (`s[:0:0]`): when that array
        -- is registered the clone counts as registered too, which labelled trees do not express
        match getpS p s.v with
        | some (.node id false _ []) =>
          if endsWithSlice p && s.A.contains id && viewOffset p s.v 0 == some 0 then .unmodelled "empty-clone" else
          match getpReleaseS s.A s.f p s.v with
          | none => .err
          | some (x, A', f') => .ok { s with regs := s.regs ++ [x], A := A', f := f' } "W="
        | some (.node _ false _ xs) =>
          -- `slices.Clone` = `append(s[:0:0], s...)`: capacity = length up to 16 elements (size classes)
          if endsWithSlice p && xs.length > 16 then .unmodelled "clone-cap" else
          match getpReleaseS s.A s.f p s.v with
          | none => .err
          | some (x, A', f') => .ok { s with regs := s.regs ++ [x], A := A', f := f' } "W="
        | _ =>
          match getpReleaseS s.A s.f p s.v with
          | none => .err
          | some (x, A', f') => .ok { s with regs := s.regs ++ [x], A := A', f := f' } "W="
    | none => .unmodelled "parse"
  | ["g", ptok] =>
    match parsePath ptok with
    | some p =>
      match plain? p with
      | some p0 => match getp p0 s.v with
        | none => .err
        | some x => .ok { s with regs := s.regs ++ [x] } "W="
      | none => match getpS p s.v with
        | none => .err
        | some x =>
          match endsWithSlice p, x with
          | true, .node _ false _ _ => .unmodelled "view"     -- a second slice header onto a cell
          | _, _ => .ok { s with regs := s.regs ++ [x] } "W="
    | none => .unmodelled "parse"
  | ["D", pstok] =>
    match parsePaths pstok with
    | some ps =>
      if ps.isEmpty then .ok s "W=" else
      match markAny ps (s.v, s.A, s.f, []) with
      | none => .err
      | some (u, A1, f1, log) =>
        match settle s (sweep A1 u) s.regs A1 f1 (log ++ sweepLog A1 u) with
        | some (st, w) => .ok st w
        | none => .unmodelled "alias"
    | none => .unmodelled "parse"
  | ["d", pstok] =>
    match parsePaths pstok with
    | some ps =>
      if ps.isEmpty then .ok s "W=" else
      match markAny ps (s.v, [], s.f, []) with
      | none => .err
      | some (u, A1, f1, log) =>
        match settle s (sweep A1 u) s.regs s.A f1 (log ++ sweepLog A1 u) with
        | some (st, w) => .ok st w
        | none => .unmodelled "alias"
    | none => .unmodelled "parse"
  | "F" :: name :: srcToks =>
    -- the sources, left to right
    let rec srcs (toks : List String) (st : St) (acc : List T) (fuel : Nat) : Option (List T × Nat) :=
      match fuel, toks with
      | _, [] => some (acc.reverse, st.f)
      | 0, _ => none
      | fuel + 1, _ => match buildSrc toks st with
        | some (t, f1, rest) => srcs rest { st with f := f1 } (t :: acc) fuel
        | none => none
    match writerOf name, srcs srcToks s [] 4 with
    | some w, some (args, f1) =>
      match w args f1 with
      | .err => .err
      | .scalar =>
        if name == "join" || name == "implode" then .ok { s with regs := s.regs ++ [T.null], f := f1 } "W="
        else .unmodelled "scalar"
      | .ok t f2 log =>
        match settle { s with f := f1 } s.v (s.regs ++ [clipNew f1 t]) s.A f2 log with
        | some (st, w) => .ok st w
        | none => .unmodelled "alias"
    | _, _ => .unmodelled "parse"
  | _ => .unmodelled "op"

def splitOps (toks : List String) : List (List String) :=
  let rec go (toks : List String) (cur : List String) (acc : List (List String)) : List (List String) :=
    match toks with
    | [] => (cur.reverse :: acc).reverse
    | ";" :: rest => go rest [] (cur.reverse :: acc)
    | t :: rest => go rest (t :: cur) acc
  go toks [] []

def heapLine (line : String) : String :=
  match splitOps (tokens line) with
  | ("V" :: lit) :: ops =>
    match parseT lit 0 with
    | some (v, [], f) =>
      let init : St := { v := v, regs := [], A := [], f := f }
      let rec go (ops : List (List String)) (s : St) (acc : List String) : String :=
        match ops with
        | [] => " ; ".intercalate acc.reverse
        | op :: rest =>
          match runOp op s with
          | .ok s' w => go rest s' (("ok " ++ renderRoots s' ++ " " ++ w ++ s!" Z={dead s'}") :: acc)
          | .err =>
            match op.head? with
            | some "D" | some "d" =>
              -- a failed delpaths may leave placeholders behind: the sequence is abandoned (as in the VM)
              " ; ".intercalate ("halt" :: "err" :: acc).reverse
            | some "G" | some "g" | some "F" => go rest { s with regs := s.regs ++ [T.null] } ("err" :: acc)
            | _ => go rest s ("err" :: acc)
          | .unmodelled why => "?" ++ why
      go ops init ["init " ++ renderRoots init]
    | _ => "?parse-init"
  | _ => "?parse"

end C05Drv

def main (args : List String) : IO UInt32 :=
  Driver.main [("heap", C05Drv.heapLine)] args

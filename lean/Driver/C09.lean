/- C09 driver.  Every line is a query source in hex.
   stream `lex`    -> `ok` | `err <offset> tok=<token hex> <kind>`        (the *ParseError of gojq.Parse: lexer offset and token
                                                                      at the first yylex.Error call; kind = eof|invalid|escape|unterminated|unexpected)
   stream `parse`  -> `ok <canonical dump of the AST>` | `err`
   stream `print`  -> `ok <hex of q.String()>` | `err`
   stream `refparse` -> as `parse`, answered by the hand-written reference parser (Model/RefTermParser.lean:
                      tokenize + precedence climbing) instead of the LALR tables
   stream `refprint` -> as `print`, answered by the token-level printer of Model/RefTermParser.lean (`itemsProgram` + `render`)
                      on the AST of the reference parser
   stream `selfcheck` -> RefTerm.selfCheck: the reference parser's AST is Printable, its print lexes to the printed tokens and
                      parses back to itself (debugging aid, not compared)
   stream `tokens` -> the token list of the lexer alone (debugging aid, not compared)
   answers starting with `?` = not modelled (fuel), `!` = the model hit a Go panic / unknown production -/
import Gojq.Model.Parse
import Gojq.Model.Printer
import Gojq.Model.RefTermParser
import Driver.Common
open Gojq Gojq.Lexer Gojq.Parse Gojq.LALR

def hexNib (c : Char) : Option Nat :=
  if '0' ≤ c && c ≤ '9' then some (c.toNat - 48)
  else if 'a' ≤ c && c ≤ 'f' then some (c.toNat - 87)
  else if 'A' ≤ c && c ≤ 'F' then some (c.toNat - 55)
  else none

def unhex : List Char → Option Bytes
  | [] => some []
  | a :: b :: rest => do
    let x ← hexNib a; let y ← hexNib b; let r ← unhex rest
    some (UInt8.ofNat (x * 16 + y) :: r)
  | _ => none

def withSrc (line : String) (f : Bytes → String) : String :=
  match unhex line.toList with
  | some src => f src
  | none => "?hex"

def lexLine (line : String) : String := withSrc line fun src =>
  match parse src with
  | .accept _ s => if s.panicked then "!panic" else "ok"
  | .reject _ _ s =>
    if s.panicked then "!panic" else
    let e := parseError s
    s!"err {e.offset} tok={hexOf e.token} {e.kind}"
  | .stuck => "?fuel"

def astOf (src : Bytes) : Except String (Option Ast) :=
  match parse src with
  | .accept t s =>
    if s.panicked then .error "!panic" else
    match sem t with
    | .ok v => .ok (some v.val)
    | .error sig => .error ("!unknown production " ++ sig)
  | .reject _ _ s => if s.panicked then .error "!panic" else .ok none
  | .stuck => .error "?fuel"

def parseLine (line : String) : String := withSrc line fun src =>
  match astOf src with
  | .ok (some a) => "ok " ++ dump a
  | .ok none => "err"
  | .error e => e

def printLine (line : String) : String := withSrc line fun src =>
  match astOf src with
  | .ok (some a) =>
    match Printer.print (src.length + 16) a with
    | some b => "ok " ++ hexOf b
    | none => "!printer panic"
  | .ok none => "err"
  | .error e => e

def refparseLine (line : String) : String := withSrc line fun src =>
  match RefTerm.refParse src with
  | some p => "ok " ++ dump (RefTerm.astProgram p)
  | none => "err"

def refprintLine (line : String) : String := withSrc line fun src =>
  match RefTerm.refParse src with
  | some p => "ok " ++ hexOf (RefTerm.printProgram p)
  | none => "err"

def tokensLine (line : String) : String := withSrc line fun src =>
  " ".intercalate ((lexAll (src.length + 2) (LState.init src)).map fun (ty, lv, off) =>
    s!"{ty}:{hexOf lv.token}:{lv.operator}@{off}")

def main (args : List String) : IO UInt32 :=
  Driver.main [("lex", lexLine), ("parse", parseLine), ("print", printLine), ("refparse", refparseLine), ("refprint", refprintLine), ("selfcheck", fun l => withSrc l RefTerm.selfCheck), ("tokens", tokensLine)] args

/-
  The relation between the run of the ORIGINAL code and the run of the code in which
  `optimizeTailRec` turned self tail calls `call f` into `jump f+1` (case "no variables, no
  arguments").  The two runs are NOT in lock-step: the original pushes a scope frame at every
  rewritten call and pops it again just before the caller's own `ret`; the optimised run never
  has that frame.

  Everything except the scope stack (and the scope positions saved in the forks) is EQUAL in the
  two runs.  The scope stacks are related by `SR`: along the `next` chain from `index`, the
  original chain is the optimised chain with extra DROPPED frames interleaved.  A dropped frame
    * returns (its `pc + 1` leads by jumps to `ret`: `JumpsToRet`) — so popping it is followed,
      after jumps only, by the `ret` that the optimised run is already standing at;
    * owns no variable and is skipped by every lookup that the code can make: `LEq` says that
      `env.index` (the walk through `outerindex`) finds the same variable slot from the two tops for
      every scope id that is not the id of a variable-free, argument-free scope (`Dead`), and the
      static condition on the code is that no load / store / append / forklabel names such an id;
    * restores, when popped while free (above `limit`), exactly the `offset` in force — it was
      pushed with `offset` unchanged (no variables).
  Forks save scope-stack positions: corresponding forks save positions that are again related by
  `SR` (with the limits and the offset they saved), and stack.go's protection invariant (`FWs`)
  keeps the saved chains from being overwritten on both sides.
-/
import Gojq.Proofs.OptSimLocal
import Gojq.Proofs.VMExec
set_option linter.unusedSimpArgs false
set_option linter.unusedVariables false
namespace Gojq.TailVM
open Gojq Gojq.VM Gojq.OptVM

/-! ## static notions -/

/-- following jumps from `pc` in `c` ends at a `ret` -/
inductive JumpsToRet (c : Array Instr) : Int → Prop
  | ret {pc : Int} : 0 ≤ pc → c[pc.toNat]? = some .ret → JumpsToRet c pc
  | jump {pc t : Int} : 0 ≤ pc → c[pc.toNat]? = some (.jump t) → JumpsToRet c t → JumpsToRet c pc

/-- the id of a scope without variables and without arguments: no instruction refers to it -/
def Dead (c : Array Instr) (id : Int) : Prop := ∃ j : Nat, c[j]? = some (.scope id 0 0)

/-- the return address of a kept frame: the pc of a `call`, or `len(codes) - 1` from `Next`'s entry -/
def KeptPc (c : Array Instr) (pc : Int) : Prop :=
  (0 ≤ pc ∧ ∃ t, c[pc.toNat]? = some (.call t)) ∨ pc = (c.size : Int) - 1

/-! ## stack.go, for any element type -/

theorem push_spec' {α : Type} (s : Stack α) (v : α) (h1 : -1 ≤ s.limit) (h2 : s.limit < s.data.size)
    (h3 : s.index < s.data.size) :
    (s.push v).index = max s.index s.limit + 1 ∧ (s.push v).limit = s.limit ∧
    (s.push v).data[(max s.index s.limit + 1).toNat]? = some ⟨v, s.index⟩ ∧
    (∀ j : Nat, (j : Int) ≤ max s.index s.limit → (s.push v).data[j]? = s.data[j]?) ∧
    s.data.size ≤ (s.push v).data.size := by
  unfold Stack.push
  simp only
  split
  · rename_i hlt
    refine ⟨rfl, rfl, ?_, ?_, by simp⟩
    · simp [Array.getElem?_setIfInBounds, hlt]
    · intro j hj
      rw [Array.getElem?_setIfInBounds_ne]
      omega
  · rename_i hge
    have heq : (max s.index s.limit + 1).toNat = s.data.size := by omega
    refine ⟨rfl, rfl, ?_, ?_, by simp⟩
    · rw [heq]; simp
    · intro j hj
      have : j < s.data.size := by omega
      rw [Array.getElem?_push_lt this]
      simp [this]

theorem save_facts' {α : Type} (s : Stack α) :
    s.save.1 = (s.index, s.limit) ∧ s.save.2.data = s.data ∧ s.save.2.index = s.index ∧
    s.save.2.limit = max s.index s.limit := by
  unfold Stack.save
  by_cases h : s.index > s.limit
  · rw [if_pos h]
    refine ⟨rfl, rfl, rfl, ?_⟩
    show s.index = _
    omega
  · rw [if_neg h]
    refine ⟨rfl, rfl, rfl, ?_⟩
    show s.limit = _
    omega

/-! ## variable lookup: the walk of `env.index` -/

/-- `Lk d id i r`: the walk of `env.index` for scope `id` from slot `i` ends with the frame offset
    `r` (`none`: it falls off the bottom, Go's `panic("env.index")`); links strictly decrease -/
inductive Lk (d : Array (Block Scope)) (id : Int) : Int → Option Int → Prop
  | bot {i : Int} : i < 0 → Lk d id i none
  | hit {i : Int} {b : Block Scope} : 0 ≤ i → d[i.toNat]? = some b → b.value.id = id →
      Lk d id i (some b.value.offset)
  | miss {i : Int} {b : Block Scope} {r : Option Int} : 0 ≤ i → d[i.toNat]? = some b → b.value.id ≠ id →
      b.value.outerindex < i → Lk d id b.value.outerindex r → Lk d id i r

theorem Lk.frame {d d' : Array (Block Scope)} {id i : Int} {r : Option Int} (h : Lk d id i r)
    (hd : ∀ j : Nat, (j : Int) ≤ i → d'[j]? = d[j]?) : Lk d' id i r := by
  induction h with
  | bot hi => exact .bot hi
  | hit h0 hb hid => exact .hit h0 (by rw [hd _ (by omega)]; exact hb) hid
  | miss h0 hb hid ho _ ih =>
    exact .miss h0 (by rw [hd _ (by omega)]; exact hb) hid ho (ih (fun j hj => hd j (by omega)))

/-- the answer of `env.index` for a finished walk -/
def walkRes (off : Int) : Option Int → WalkRes
  | some o => .ok (o + off)
  | none => .panic .envIndex

/-- `scopeWalk` computes the walk, given enough fuel -/
theorem Lk.walk {d : Array (Block Scope)} {id i : Int} {r : Option Int} (h : Lk d id i r) (off : Int) :
    ∀ (fuel : Nat), 0 < fuel → i + 1 < fuel → scopeWalk d id off fuel i = walkRes off r := by
  induction h with
  | bot hi =>
    intro fuel h0 hf
    cases fuel with
    | zero => omega
    | succ n => simp [scopeWalk, hi, walkRes]
  | @hit i b h0 hb hid =>
    intro fuel _ hf
    cases fuel with
    | zero => omega
    | succ n =>
      have : ¬ i < 0 := by omega
      simp [scopeWalk, this, hb, hid, walkRes]
  | @miss i b r h0 hb hid ho _ ih =>
    intro fuel _ hf
    cases fuel with
    | zero => omega
    | succ n =>
      have : ¬ i < 0 := by omega
      simp only [scopeWalk, this, hb, hid, if_false]
      exact ih n (by omega) (by omega)

theorem Lk.lt_size {d : Array (Block Scope)} {id i : Int} {r : Option Int} (h : Lk d id i r) : i < d.size := by
  cases h with
  | bot hi => omega
  | hit h0 hb _ => have := (Array.getElem?_eq_some_iff.mp hb).1; omega
  | miss h0 hb _ _ _ => have := (Array.getElem?_eq_some_iff.mp hb).1; omega

/-- the two tops find the same slot for every id the code can name -/
def LEq (c : Array Instr) (da db : Array (Block Scope)) (ka kb : Int) : Prop :=
  ∀ id, ¬ Dead c id → ∃ r, Lk da id ka r ∧ Lk db id kb r

theorem LEq.frame {c : Array Instr} {da db da' db' : Array (Block Scope)} {ka kb : Int}
    (h : LEq c da db ka kb) (hda : ∀ j : Nat, (j : Int) ≤ ka → da'[j]? = da[j]?)
    (hdb : ∀ j : Nat, (j : Int) ≤ kb → db'[j]? = db[j]?) : LEq c da' db' ka kb := by
  intro id hid
  obtain ⟨r, h1, h2⟩ := h id hid
  exact ⟨r, h1.frame hda, h2.frame hdb⟩

theorem LEq.nil {c : Array Instr} {da db : Array (Block Scope)} {ka kb : Int} (ha : ka < 0) (hb : kb < 0) :
    LEq c da db ka kb := fun _ _ => ⟨none, .bot ha, .bot hb⟩

/-- the `outerindex` that `opscope` computes for a new frame of scope `id` called from slot `k` -/
def outerOf (d : Array (Block Scope)) (k id : Int) : Int :=
  if 0 ≤ k then
    match d[k.toNat]? with
    | some b => if b.value.id = id then b.value.outerindex else k
    | none => k
  else k

/-- a lookup of another id from the new frame's `outerindex` is the lookup from the caller's slot -/
theorem Lk.outerOf {d : Array (Block Scope)} {id' k : Int} {r : Option Int} (h : Lk d id' k r) (id : Int)
    (hne : id' ≠ id) : Lk d id' (outerOf d k id) r ∧ outerOf d k id ≤ k := by
  unfold TailVM.outerOf
  cases h with
  | bot hi => rw [if_neg (by omega)]; exact ⟨.bot hi, Int.le_refl _⟩
  | @hit _ b h0 hb hid =>
    rw [if_pos h0, hb]
    simp only
    have : ¬ b.value.id = id := by rw [hid]; exact hne
    rw [if_neg this]
    exact ⟨.hit h0 hb hid, Int.le_refl _⟩
  | @miss _ b _ h0 hb hid ho hr =>
    rw [if_pos h0, hb]
    simp only
    by_cases hc : b.value.id = id
    · rw [if_pos hc]; exact ⟨hr, by omega⟩
    · rw [if_neg hc]; exact ⟨.miss h0 hb hid ho hr, Int.le_refl _⟩

/-! ## the return chains -/

/-- `SR c da db la lb ka kb off`: the chain from slot `ka` of the original scope array `da` (limit
    `la`) is the chain from slot `kb` of the optimised array `db` (limit `lb`) with dropped frames
    interleaved; `off` is the `offset` in force while the frame at `ka` is on top -/
inductive SR (c : Array Instr) (da db : Array (Block Scope)) (la lb : Int) : Int → Int → Int → Prop
  | nil {ka kb off : Int} : ka < 0 → kb < 0 → SR c da db la lb ka kb off
  | keep {ka kb off : Int} {ga gb : Scope} {na nb : Int} :
      0 ≤ ka → 0 ≤ kb → da[ka.toNat]? = some ⟨ga, na⟩ → db[kb.toNat]? = some ⟨gb, nb⟩ →
      ga.pc = gb.pc → ga.offset = gb.offset → ga.saveindex = na → gb.saveindex = nb →
      na < ka → nb < kb → (la < ka ↔ lb < kb) → KeptPc c gb.pc → (nb < 0 → gb.pc = (c.size : Int) - 1) →
      LEq c da db ka kb → SR c da db la lb na nb ga.offset → SR c da db la lb ka kb off
  | drop {ka kb off : Int} {d : Scope} {na : Int} :
      0 ≤ ka → 0 ≤ kb → da[ka.toNat]? = some ⟨d, na⟩ → JumpsToRet c (d.pc + 1) → d.saveindex = na →
      na < ka → (la < ka → d.offset = off) → LEq c da db ka kb → SR c da db la lb na kb d.offset →
      SR c da db la lb ka kb off

theorem SR.frame {c : Array Instr} {da db da' db' : Array (Block Scope)} {la lb ka kb off : Int}
    (h : SR c da db la lb ka kb off) (hda : ∀ j : Nat, (j : Int) ≤ ka → da'[j]? = da[j]?)
    (hdb : ∀ j : Nat, (j : Int) ≤ kb → db'[j]? = db[j]?) : SR c da' db' la lb ka kb off := by
  induction h with
  | nil h1 h2 => exact .nil h1 h2
  | keep h0 g0 ha hb e1 e2 e3 e4 hn gn hl hk hbot hq _ ih =>
    refine .keep h0 g0 (by rw [hda _ (by omega)]; exact ha) (by rw [hdb _ (by omega)]; exact hb)
      e1 e2 e3 e4 hn gn hl hk hbot (hq.frame hda hdb) (ih ?_ ?_)
    · intro j hj; exact hda j (by omega)
    · intro j hj; exact hdb j (by omega)
  | drop h0 g0 ha hj e3 hn ho hq _ ih =>
    refine .drop h0 g0 (by rw [hda _ (by omega)]; exact ha) hj e3 hn ho (hq.frame hda hdb) (ih ?_ hdb)
    intro j hj; exact hda j (by omega)

/-- once both tops are at or below the limits (after a `save`), the chain is related for any offset -/
theorem SR.raise {c : Array Instr} {da db : Array (Block Scope)} {la lb ka kb off : Int}
    (h : SR c da db la lb ka kb off) : ∀ (la' lb' off' : Int), ka ≤ la' → kb ≤ lb' →
    SR c da db la' lb' ka kb off' := by
  induction h with
  | nil h1 h2 => intro la' lb' off' _ _; exact .nil h1 h2
  | keep h0 g0 ha hb e1 e2 e3 e4 hn gn hl hk hbot hq _ ih =>
    intro la' lb' off' h1 h2
    exact .keep h0 g0 ha hb e1 e2 e3 e4 hn gn ⟨fun h => by omega, fun h => by omega⟩ hk hbot hq
      (ih la' lb' _ (by omega) (by omega))
  | drop h0 g0 ha hj e3 hn ho hq _ ih =>
    intro la' lb' off' h1 h2
    exact .drop h0 g0 ha hj e3 hn (fun h => by omega) hq (ih la' lb' _ (by omega) h2)

/-- the offset index only matters for a free top -/
theorem SR.off_irrel {c : Array Instr} {da db : Array (Block Scope)} {la lb ka kb off : Int}
    (h : SR c da db la lb ka kb off) (hk : ka ≤ la) (off' : Int) : SR c da db la lb ka kb off' := by
  cases h with
  | nil h1 h2 => exact .nil h1 h2
  | keep h0 g0 ha hb e1 e2 e3 e4 hn gn hl hk' hbot hq hr =>
    exact .keep h0 g0 ha hb e1 e2 e3 e4 hn gn hl hk' hbot hq hr
  | drop h0 g0 ha hj e3 hn ho hq hr => exact .drop h0 g0 ha hj e3 hn (fun h => by omega) hq hr

theorem SR.nonneg_iff {c : Array Instr} {da db : Array (Block Scope)} {la lb ka kb off : Int}
    (h : SR c da db la lb ka kb off) : 0 ≤ ka ↔ 0 ≤ kb := by
  cases h with
  | nil h1 h2 => exact ⟨fun h => by omega, fun h => by omega⟩
  | keep h0 g0 => exact ⟨fun _ => g0, fun _ => h0⟩
  | drop h0 g0 => exact ⟨fun _ => g0, fun _ => h0⟩

theorem SR.lt_size {c : Array Instr} {da db : Array (Block Scope)} {la lb ka kb off : Int}
    (h : SR c da db la lb ka kb off) : ka < da.size ∧ kb < db.size := by
  cases h with
  | nil h1 h2 => exact ⟨by omega, by omega⟩
  | keep h0 g0 ha hb =>
    have := (Array.getElem?_eq_some_iff.mp ha).1
    have := (Array.getElem?_eq_some_iff.mp hb).1
    exact ⟨by omega, by omega⟩
  | drop h0 g0 ha hj e3 hn ho hq hr =>
    have := (Array.getElem?_eq_some_iff.mp ha).1
    have hq' := hq
    exact ⟨by omega, by
      -- the optimised top exists: it is below a kept frame further down, or is one
      clear hq'
      have : ∀ {ka kb off}, SR c da db la lb ka kb off → kb < db.size := by
        intro ka kb off h
        induction h with
        | nil h1 h2 => omega
        | keep h0 g0 ha hb => have := (Array.getElem?_eq_some_iff.mp hb).1; omega
        | drop _ _ _ _ _ _ _ _ _ ih => exact ih
      exact this hr⟩

theorem SR.leq {c : Array Instr} {da db : Array (Block Scope)} {la lb ka kb off : Int}
    (h : SR c da db la lb ka kb off) : LEq c da db ka kb := by
  cases h with
  | nil h1 h2 => exact LEq.nil h1 h2
  | keep _ _ _ _ _ _ _ _ _ _ _ _ _ hq _ => exact hq
  | drop _ _ _ _ _ _ _ hq _ => exact hq

/-! ## forks -/

/-- stack.go's protection invariant for the scope stack (see `OptVM.FW` for the data stack) -/
def FWs : List Fork → Int → Prop
  | [], _ => True
  | f :: rest, m => f.scopeindex ≤ m ∧ f.scopelimit ≤ m ∧ -1 ≤ f.scopelimit ∧ FWs rest f.scopelimit

theorem FWs.mono : ∀ {fs : List Fork} {m m' : Int}, FWs fs m → m ≤ m' → FWs fs m'
  | [], _, _, _, _ => trivial
  | f :: rest, m, m', h, hm => ⟨Int.le_trans h.1 hm, Int.le_trans h.2.1 hm, h.2.2.1, h.2.2.2⟩

theorem FWs.index_le : ∀ {fs : List Fork} {m : Int}, FWs fs m → ∀ f ∈ fs, f.scopeindex ≤ m
  | [], _, _, f, hf => by simp at hf
  | g :: rest, m, h, f, hf => by
    simp only [List.mem_cons] at hf
    rcases hf with rfl | hf
    · exact h.1
    · exact FWs.index_le (FWs.mono h.2.2.2 h.2.1) f hf

/-- everything in a fork record except the saved scope-stack index and limit -/
def ForkCoreS (f g : Fork) : Prop :=
  f.pc = g.pc ∧ f.stackindex = g.stackindex ∧ f.stacklimit = g.stacklimit ∧
  f.pathindex = g.pathindex ∧ f.pathlimit = g.pathlimit ∧ f.offset = g.offset ∧ f.expdepth = g.expdepth

/-- the instruction at `pc` pushes forks (so it is where a backtrack resumes) -/
def ForkAt (c : Array Instr) (pc : Int) : Prop :=
  0 ≤ pc ∧ ∃ ins, c[pc.toNat]? = some ins ∧ forkLike ins = true

/-- corresponding forks restore related scope chains -/
def FkRel (c : Array Instr) (da db : Array (Block Scope)) : List Fork → List Fork → Prop
  | [], [] => True
  | f :: fs, g :: gs =>
    ForkCoreS f g ∧ SR c da db f.scopelimit g.scopelimit f.scopeindex g.scopeindex f.offset ∧
    0 ≤ g.scopeindex ∧ ForkAt c f.pc ∧ FkRel c da db fs gs
  | _, _ => False

theorem FkRel.frame {c : Array Instr} {da db da' db' : Array (Block Scope)} {ma mb : Int} :
    ∀ {fs gs : List Fork}, FkRel c da db fs gs →
    (∀ f ∈ fs, f.scopeindex ≤ ma) → (∀ g ∈ gs, g.scopeindex ≤ mb) →
    (∀ j : Nat, (j : Int) ≤ ma → da'[j]? = da[j]?) → (∀ j : Nat, (j : Int) ≤ mb → db'[j]? = db[j]?) →
    FkRel c da' db' fs gs
  | [], [], _, _, _, _, _ => trivial
  | [], _ :: _, h, _, _, _, _ => h.elim
  | _ :: _, [], h, _, _, _, _ => h.elim
  | f :: fs, g :: gs, h, ha, hb, hda, hdb => by
    obtain ⟨hc, hs, h0, hp, hr⟩ := h
    have hf := ha f (by simp)
    have hg := hb g (by simp)
    refine ⟨hc, hs.frame (fun j hj => hda j (by omega)) (fun j hj => hdb j (by omega)), h0, hp, ?_⟩
    exact FkRel.frame hr (fun f' hf' => ha f' (by simp [hf'])) (fun g' hg' => hb g' (by simp [hg'])) hda hdb

/-! ## the relation on scope stacks and fork lists -/

structure ScRel (c : Array Instr) (a : Stack Scope) (fa : List Fork) (b : Stack Scope) (fb : List Fork)
    (off : Int) : Prop where
  sr : SR c a.data b.data a.limit b.limit a.index b.index off
  forks : FkRel c a.data b.data fa fb
  la : -1 ≤ a.limit ∧ a.limit < a.data.size
  lb : -1 ≤ b.limit ∧ b.limit < b.data.size
  fwa : FWs fa a.limit
  fwb : FWs fb b.limit

/-- every offset a `popscope` or `popfork` can restore is within the variable array -/
structure OffInv (e : Env) : Prop where
  off : e.offset ≤ e.values.size
  frames : ∀ (j : Nat) (b : Block Scope), e.scopes.data[j]? = some b → b.value.offset ≤ e.values.size
  forks : ∀ f ∈ e.forks, f.offset ≤ e.values.size

/-- the relation between the environment `e` of the original run and `e'` of the optimised run -/
def TRel (c : Array Instr) (e e' : Env) : Prop :=
  e' = { e with scopes := e'.scopes, forks := e'.forks } ∧
  ScRel c e.scopes e.forks e'.scopes e'.forks e.offset ∧ OffInv e

theorem TRel.mk' {c : Array Instr} {e : Env} {sc : Stack Scope} {fk : List Fork}
    (h : ScRel c e.scopes e.forks sc fk e.offset) (ho : OffInv e) :
    TRel c e { e with scopes := sc, forks := fk } := ⟨rfl, h, ho⟩

theorem TRel.elim {c : Array Instr} {e e' : Env} (h : TRel c e e') :
    ∃ sc fk, e' = { e with scopes := sc, forks := fk } ∧ ScRel c e.scopes e.forks sc fk e.offset ∧ OffInv e :=
  ⟨_, _, h.1, h.2.1, h.2.2⟩

end Gojq.TailVM

/-
  Round trip, part 2: follow-set lemmas for queries (a stop token, the operator after a left
  operand, `as` after a source), the first token of a printed term, and unfolding lemmas for the
  operator loop.
-/
import Gojq.Proofs.RoundTripBasic
namespace Gojq.RefTerm
open Gojq

theorem stop_plain {x : Tok} (h : stopTok x = true) : plainTok x = true := by
  unfold stopTok at h; unfold plainTok; split <;> simp_all

theorem stop_notop {x : Tok} (h : stopTok x = true) : binopOfTok x = none := by
  unfold stopTok at h; unfold binopOfTok; split <;> simp_all

theorem stop_ne_as {x : Tok} (h : stopTok x = true) : (x == Tok.kw .as_) = false := by
  unfold stopTok at h; split at h <;> first | rfl | (exact absurd h (by decide))

theorem openFollow_stop {x : Tok} (h : stopTok x = true) : openFollow (some x) = true := by
  simp [openFollow, stop_notop h, stop_ne_as h]

theorem opFollow_stop (o : BOp) {x : Tok} (h : stopTok x = true) : opFollow o (some x) = true := by
  simp [opFollow, stop_notop h, stop_ne_as h]

/-- a stop token may follow every query -/
theorem followQ_stop : ∀ (q : Query) (x : Tok), stopTok x = true → followQ q (some x) = true
  | .term t, x, h => by
    simp only [followQ, followT_plain t x (stop_plain h), noSuf_of_plain (stop_plain h), Bool.and_self]
  | .binop o _ r, x, h => by simp only [followQ, followQ_stop r x h, opFollow_stop o h, Bool.and_self]
  | .bind _ _ b, x, h => by simp only [followQ, followQ_stop b x h, openFollow_stop h, Bool.and_self]
  | .def_ _ q, x, h => by simp only [followQ, followQ_stop q x h, openFollow_stop h, Bool.and_self]
  | .label _ b, x, h => by simp only [followQ, followQ_stop b x h, openFollow_stop h, Bool.and_self]

/-- the end of the token list may follow every query -/
theorem followQ_none : ∀ (q : Query), followQ q none = true
  | .term t => by simp only [followQ, followT_none t, noSuf, Bool.and_self]
  | .binop o _ r => by simp only [followQ, followQ_none r, opFollow, Bool.and_self]
  | .bind _ _ b => by simp only [followQ, followQ_none b, openFollow, Bool.and_self]
  | .def_ _ q => by simp only [followQ, followQ_none q, openFollow, Bool.and_self]
  | .label _ b => by simp only [followQ, followQ_none b, openFollow, Bool.and_self]

theorem okQ_binop (item : Bool) (min : Nat) (o : BOp) (l r : Query) :
    okQ item min (.binop o l r) =
      (decide (min ≤ o.lv) && okQ false o.lmin l && closedQ l && okQ (decide (o.lv ≤ 2)) o.rmin r) := by
  simp only [okQ]

theorem okQ_bind_nil (item : Bool) (min : Nat) (s : Query) (b : Query) :
    okQ item min (.bind s [] b) = false := by
  simp only [okQ]; simp

theorem okQ_bind (item : Bool) (min : Nat) (s : Query) (p : Pattern) (ps : List Pattern) (b : Query) :
    okQ item min (.bind s (p :: ps) b) = (item && decide (min ≤ 3) && okQ false 3 s && (okP p && okPs ps) && okQ true 1 b) := by
  simp only [okQ]

theorem okQ_def (item : Bool) (min : Nat) (fd : FuncDef) (q : Query) :
    okQ item min (.def_ fd q) = (item && okFD fd && okQ true 1 q) := by
  simp only [okQ]

theorem okQ_label (item : Bool) (min : Nat) (v : Bytes) (b : Query) :
    okQ item min (.label v b) = (item && isVarName v && okQ true 1 b) := by
  simp only [okQ]

theorem okQ_term (item : Bool) (min : Nat) (t : Term) : okQ item min (.term t) = okT t := by
  simp only [okQ]

/-- THE PRINTER NEEDS NO PARENTHESES AROUND A LEFT OPERAND OF THE RIGHT SHAPE: the operator `o`
    printed after an operand whose root binds at least `o.lmin` (and that does not end in a
    binding) is not absorbed by that operand -/
theorem followQ_left (o : BOp) : ∀ (l : Query) (item : Bool) (m : Nat),
    okQ item m l = true → closedQ l = true → o.lmin ≤ m → followQ l (some (opTok o)) = true
  | .term t, _, _, _, _, _ => by
    simp only [followQ, followT_plain t _ (plainTok_opTok o), noSuf_of_plain (plainTok_opTok o), Bool.and_self]
  | .binop o' l' r', item, m, hok, hcl, hm => by
    rw [okQ_binop] at hok
    simp only [Bool.and_eq_true, decide_eq_true_eq] at hok
    obtain ⟨⟨⟨h1, _⟩, _⟩, h4⟩ := hok
    have hlv : o.lmin ≤ o'.lv := Nat.le_trans hm h1
    have hr := followQ_left o r' _ _ h4 (by simpa [closedQ] using hcl) (lmin_le_rmin o o' hlv)
    simp only [followQ, hr, opFollow, binopOfTok_opTok, Bool.true_and, decide_eq_true_eq]
    exact lv_lt_absorb o o' hlv
  | .bind _ _ _, _, _, _, hcl, _ => by simp [closedQ] at hcl
  | .def_ _ _, _, _, _, hcl, _ => by simp [closedQ] at hcl
  | .label _ _, _, _, _, hcl, _ => by simp [closedQ] at hcl

/-- `as` may follow an operator expression (its source): nothing in it can take the `as` -/
theorem followQ_as : ∀ (q : Query) (m : Nat), 3 ≤ m → okQ false m q = true → followQ q (some (.kw .as_)) = true
  | .term t, _, _, _ => by
    simp only [followQ, followT_plain t (.kw .as_) rfl, noSuf, Bool.and_self]
  | .binop o l r, m, hm, hok => by
    rw [okQ_binop] at hok
    simp only [Bool.and_eq_true, decide_eq_true_eq] at hok
    obtain ⟨⟨⟨h1, _⟩, _⟩, h4⟩ := hok
    have h3 : 3 ≤ o.lv := Nat.le_trans hm h1
    have hd : decide (o.lv ≤ 2) = false := by simp; omega
    rw [hd] at h4
    have hr := followQ_as r o.rmin (Nat.le_trans h3 (lv_le_rmin o)) h4
    simp [followQ, hr, opFollow, binopOfTok, h3]
  | .bind _ _ _, _, _, hok => by simp [okQ] at hok
  | .def_ _ _, _, _, hok => by simp [okQ] at hok
  | .label _ _, _, _, hok => by simp [okQ] at hok

/-- an operator expression is closed -/
theorem closedQ_of_ok : ∀ (q : Query) (m : Nat), 3 ≤ m → okQ false m q = true → closedQ q = true
  | .term _, _, _, _ => rfl
  | .binop o l r, m, hm, hok => by
    rw [okQ_binop] at hok
    simp only [Bool.and_eq_true, decide_eq_true_eq] at hok
    obtain ⟨⟨⟨h1, _⟩, _⟩, h4⟩ := hok
    have h3 : 3 ≤ o.lv := Nat.le_trans hm h1
    have hd : decide (o.lv ≤ 2) = false := by simp; omega
    rw [hd] at h4
    simpa [closedQ] using closedQ_of_ok r o.rmin (Nat.le_trans h3 (lv_le_rmin o)) h4
  | .bind _ _ _, _, _, hok => by simp [okQ] at hok
  | .def_ _ _, _, _, hok => by simp [okQ] at hok
  | .label _ _, _, _, hok => by simp [okQ] at hok

/-- weakening of the position -/
theorem okQ_mono : ∀ (q : Query) (item : Bool) (m m' : Nat), m' ≤ m → okQ item m q = true → okQ item m' q = true
  | .term _, _, _, _, _, h => by rw [okQ_term] at h ⊢; exact h
  | .binop o l r, item, m, m', hm, hok => by
    rw [okQ_binop] at hok ⊢
    simp only [Bool.and_eq_true, decide_eq_true_eq] at hok ⊢
    exact ⟨⟨⟨Nat.le_trans hm hok.1.1.1, hok.1.1.2⟩, hok.1.2⟩, hok.2⟩
  | .bind _ [] _, _, _, _, _, h => by rw [okQ_bind_nil] at h; exact absurd h (by decide)
  | .bind _ (_ :: _) _, _, m, m', hm, h => by
    rw [okQ_bind] at h ⊢
    simp only [Bool.and_eq_true, decide_eq_true_eq] at h ⊢
    exact ⟨⟨⟨⟨h.1.1.1.1, Nat.le_trans hm h.1.1.1.2⟩, h.1.1.2⟩, h.1.2⟩, h.2⟩
  | .def_ _ _, _, _, _, _, h => by rw [okQ_def] at h ⊢; exact h
  | .label _ _, _, _, _, _, h => by rw [okQ_label] at h ⊢; exact h

/-- an operator expression is Printable at an item position too -/
theorem okQ_item : ∀ (q : Query) (item : Bool) (m : Nat), okQ false m q = true → okQ item m q = true
  | .term _, _, _, h => by rw [okQ_term] at h ⊢; exact h
  | .binop _ _ _, _, _, h => by rw [okQ_binop] at h ⊢; exact h
  | .bind _ [] _, _, _, h => by rw [okQ_bind_nil] at h; exact absurd h (by decide)
  | .bind _ (_ :: _) _, _, _, h => by rw [okQ_bind] at h; simp at h
  | .def_ _ _, _, _, h => by rw [okQ_def] at h; simp at h
  | .label _ _, _, _, h => by rw [okQ_label] at h; simp at h

theorem absorb_le_rmin (o : BOp) : o.absorb ≤ o.rmin := by cases o <;> decide
theorem absorb_non (o : BOp) (h : o.assoc = .non) : o.absorb = o.lv := by cases o <;> revert h <;> decide

/-- what `opFollow` gives the loop after the right operand of `o` -/
theorem opFollow_hop (o : BOp) (rest : List Tok) (h : opFollow o rest.head? = true) :
    ∀ x o', rest.head? = some x → binopOfTok x = some o' → o'.lv < o.rmin := by
  intro x o' hx ho
  rw [hx] at h
  simp only [opFollow, ho, decide_eq_true_eq] at h
  exact Nat.lt_of_lt_of_le h (absorb_le_rmin o)

theorem opFollow_has (o : BOp) (rest : List Tok) (h : opFollow o rest.head? = true) :
    rest.head? = some (.kw .as_) → decide (o.lv ≤ 2) = false := by
  intro hx
  rw [hx] at h
  simp [opFollow, binopOfTok] at h
  simp; omega

theorem opFollow_noclash (o : BOp) (rest : List Tok) (h : opFollow o rest.head? = true) :
    (o.assoc == .non && clash o rest) = false := by
  by_cases ha : o.assoc = .non
  · cases rest with
    | nil => simp [clash]
    | cons x rest =>
      cases ho : binopOfTok x with
      | none => simp [clash, ho]
      | some o' =>
        simp only [List.head?_cons, opFollow, ho, decide_eq_true_eq, absorb_non o ha] at h
        simp [clash, ho]; omega
  · simp [ha]

/-! ### the first token of a printed term / query -/

/-- tokens a printed term can start with -/
def termStartB : Tok → Bool
  | .ch 46 => true | .recurse => true | .index _ => true | .kw .null_ => true | .kw .true_ => true
  | .kw .false_ => true | .ident _ => true | .modIdent _ => true | .var _ => true | .modVar _ => true
  | .ch 123 => true | .ch 91 => true | .number _ => true | .ch 43 => true | .ch 45 => true
  | .format _ => true | .str _ => true | .strStart => true | .kw .if_ => true | .kw .try_ => true
  | .kw .reduce_ => true | .kw .foreach_ => true | .kw .break_ => true | .ch 40 => true | .ch 63 => true
  | _ => false

def termStart (x : Tok) : Prop := termStartB x = true

/-- tokens a printed query can start with -/
def queryStart (x : Tok) : Prop := termStartB x = true ∨ x = .kw .def_ ∨ x = .kw .label_

theorem nameTok_start (n : Bytes) : termStart (nameTok n) := by
  unfold nameTok termStart; split <;> split <;> rfl

theorem toksT_head : ∀ (t : Term), ∃ x r, toks (itemsT t) = x :: r ∧ termStart x
  | .suf t s => by
    obtain ⟨x, r, h, hs⟩ := toksT_head t
    exact ⟨x, r ++ toks (itemsSuf (isIdentity t) s), by simp [itemsT, h], hs⟩
  | .identity => ⟨_, _, rfl, rfl⟩
  | .recurse => ⟨_, _, rfl, rfl⟩
  | .null => ⟨_, _, rfl, rfl⟩
  | .true_ => ⟨_, _, rfl, rfl⟩
  | .false_ => ⟨_, _, rfl, rfl⟩
  | .index (.name _) => ⟨_, _, rfl, rfl⟩
  | .index (.str _) => ⟨_, _, rfl, rfl⟩
  | .index (.at _) => ⟨_, _, rfl, rfl⟩
  | .index (.sliceFrom _) => ⟨_, _, rfl, rfl⟩
  | .index (.sliceTo _) => ⟨_, _, rfl, rfl⟩
  | .index (.slice _ _) => ⟨_, _, rfl, rfl⟩
  | .index .iter => ⟨_, _, rfl, rfl⟩
  | .index .opt => ⟨_, _, rfl, rfl⟩
  | .func n [] => ⟨_, _, rfl, nameTok_start n⟩
  | .func n (_ :: _) => ⟨_, _, rfl, nameTok_start n⟩
  | .object [] => ⟨_, _, rfl, rfl⟩
  | .object (_ :: _) => ⟨_, _, rfl, rfl⟩
  | .arrayEmpty => ⟨_, _, rfl, rfl⟩
  | .array _ => ⟨_, _, rfl, rfl⟩
  | .number _ => ⟨_, _, rfl, rfl⟩
  | .unary true _ => ⟨_, _, rfl, rfl⟩
  | .unary false _ => ⟨_, _, rfl, rfl⟩
  | .format _ => ⟨_, _, rfl, rfl⟩
  | .formatStr _ _ => ⟨_, _, rfl, rfl⟩
  | .str (.lit _) => ⟨_, _, rfl, rfl⟩
  | .str (.interp _) => ⟨_, _, rfl, rfl⟩
  | .if_ _ _ _ => ⟨_, _, rfl, rfl⟩
  | .try_ _ => ⟨_, _, rfl, rfl⟩
  | .tryCatch _ _ => ⟨_, _, rfl, rfl⟩
  | .reduce _ _ _ _ => ⟨_, _, rfl, rfl⟩
  | .foreach _ _ _ _ => ⟨_, _, rfl, rfl⟩
  | .foreach3 _ _ _ _ _ => ⟨_, _, rfl, rfl⟩
  | .break_ _ => ⟨_, _, rfl, rfl⟩
  | .paren _ => ⟨_, _, rfl, rfl⟩

theorem toksQ_head : ∀ (q : Query), ∃ x r, toks (itemsQ q) = x :: r ∧ queryStart x
  | .term t => by
    obtain ⟨x, r, h, hs⟩ := toksT_head t
    exact ⟨x, r, by simp [itemsQ, h], Or.inl hs⟩
  | .binop o l r => by
    obtain ⟨x, r', h, hs⟩ := toksQ_head l
    exact ⟨x, _, by simp only [itemsQ, toks_append, h, List.cons_append]; rfl, hs⟩
  | .bind s [] b => by
    obtain ⟨x, r', h, hs⟩ := toksQ_head s
    exact ⟨x, _, by simp only [itemsQ, toks_append, h, List.cons_append]; rfl, hs⟩
  | .bind s (_ :: _) b => by
    obtain ⟨x, r', h, hs⟩ := toksQ_head s
    exact ⟨x, _, by simp only [itemsQ, toks_append, h, List.cons_append]; rfl, hs⟩
  | .def_ (.mk _ _ _) _ => ⟨_, _, rfl, Or.inr (Or.inl rfl)⟩
  | .label _ _ => ⟨_, _, rfl, Or.inr (Or.inr rfl)⟩

theorem queryStart_ne {x : Tok} (h : queryStart x) :
    x ≠ .ch 93 ∧ x ≠ .ch 58 ∧ x ≠ .ch 125 ∧ x ≠ .ch 41 ∧ x ≠ .ch 59 ∧ x ≠ .ch 44 ∧ x ≠ .ch 124 := by
  refine ⟨?_, ?_, ?_, ?_, ?_, ?_, ?_⟩ <;> (intro e; subst e; rcases h with h | h | h <;> simp [termStartB] at h)

/-! ### the operator loop -/

theorem pLoop_nil (f : Nat) (item : Bool) (min : Nat) (q : Query) :
    pLoop (f + 1) item min q [] = some (q, []) := by simp [pLoop]

theorem pLoop_op (f : Nat) (item : Bool) (min : Nat) (lhs : Query) (x : Tok) (o : BOp) (rest : List Tok)
    (ho : binopOfTok x = some o) (hl : min ≤ o.lv) :
    pLoop (f + 1) item min lhs (x :: rest) = (do
      let (rhs, ts') ← pClimb f (decide (o.lv ≤ 2)) o.rmin rest
      if o.assoc == .non && clash o ts' then none else
      pLoop f item min (.binop o lhs rhs) ts') := by
  simp [pLoop, ho, Nat.not_lt.mpr hl]

/-- the loop ends before a token that is not an operator of level ≥ `min`, nor an `as` it may take -/
theorem pLoop_done (f : Nat) (item : Bool) (min : Nat) (q : Query) (rest : List Tok) (hf : 1 ≤ f)
    (hop : ∀ x o, rest.head? = some x → binopOfTok x = some o → o.lv < min)
    (has : rest.head? = some (.kw .as_) → item = false) :
    pLoop f item min q rest = some (q, rest) := by
  obtain ⟨f, rfl⟩ : ∃ g, f = g + 1 := ⟨f - 1, by omega⟩
  cases rest with
  | nil => exact pLoop_nil f item min q
  | cons x rest =>
    cases ho : binopOfTok x with
    | some o =>
      have := hop x o rfl ho
      simp [pLoop, ho, this]
    | none =>
      by_cases hx : x = .kw .as_
      · subst hx
        have := has rfl
        subst this
        simp [pLoop, binopOfTok]
      · simp only [pLoop, ho]
        try (split <;> first | exact absurd rfl hx | rfl)

theorem pLoop_as (f : Nat) (min : Nat) (lhs : Query) (rest : List Tok) :
    pLoop (f + 1) true min lhs (.kw .as_ :: rest) = (do
      let (p, ts') ← pPattern f rest
      let (ps, ts') ← pAltT f ts'
      let ts' ← expect (.ch 124) ts'
      let (b, ts') ← pClimb f true 1 ts'
      some (.bind lhs (p :: ps) b, ts')) := by
  simp [pLoop, binopOfTok]

end Gojq.RefTerm

/-
  C08 (bytecode checker, layer 2): fork-like instructions.
-/
import Gojq.Proofs.SafeVM2Exec3
set_option linter.unusedSimpArgs false
set_option linter.unusedVariables false
namespace Gojq.SafeVM
open Gojq Gojq.VM

variable {S : SC} {Ct : Cert}

theorem frF_pushfork (pc : Int) (e : Env) : FrF pc e (pushforkEnv pc e) :=
  .inr ⟨forkOf pc e, rfl, rfl, rfl, rfl, rfl, rfl, rfl⟩

/-- normal mode of a fork-like instruction: push a fork, fall through with the same claims -/
theorem fork2_normal (C : Checked S) {l : L} {e : Env} {A : AView} (hV : View e A) (R : RegInv S Ct e)
    (hF2 : ForksConf2 S Ct e.scopes.data e.values A.forks) {a2 : Abs2}
    (hs2 : SuccOK2 Ct (l.pc + 1, a2)) (hs1 : ∃ i, codeAt S (l.pc + 1) = some i ∧ isScope i = false)
    (hcur : Cur S Ct e.scopes.data e.values a2 A.stk A.frames)
    (hB : BConf2 S Ct e.scopes.data e.values l.pc A.frames) :
    WP2 (do pushfork l.pc; pure (Ctl.fall, l) : M (Ctl × L)) (Post2 S Ct) e := by
  apply WP2.step (pushfork_eq _ _)
  apply WP2.pure
  obtain ⟨i, hci, hns⟩ := hs1
  have hd : (pushforkEnv l.pc e).scopes.data = e.scopes.data := (save_facts e.scopes).2.1
  have hv : (pushforkEnv l.pc e).values = e.values := rfl
  refine ⟨_, hV.pushfork l.pc, R.frF (frF_pushfork l.pc e), ?_, ?_⟩
  · rw [hd, hv]
    intro f hf
    simp only [List.mem_cons] at hf
    rcases hf with rfl | hf
    · exact hB
    · exact hF2 f hf
  · refine NMode2.of_succ hs2 rfl hci hns ?_
    rw [hd, hv]; exact hcur

theorem bconf2_fork {d vs} {pc : Int} {frames : List (Int × Scope)} {i : Shape} (hc : codeAt S pc = some i)
    (hi : i = .fork t ∨ i = .forkalt t ∨ i = .forktrybegin t ∨ i = .iter) {a2 : Abs2} (ha : ann2At Ct pc = some a2)
    (hf : FCur S Ct d vs a2 frames) : BConf2 S Ct d vs pc frames := by
  unfold BConf2
  rw [hc]
  rcases hi with rfl | rfl | rfl | rfl <;> exact ⟨a2, ha, hf⟩

theorem bconf2_fork_inv {d vs} {pc : Int} {frames : List (Int × Scope)} {i : Shape} (hc : codeAt S pc = some i)
    (hi : i = .fork t ∨ i = .forkalt t ∨ i = .forktrybegin t ∨ i = .iter)
    (h : BConf2 S Ct d vs pc frames) : ∃ a2, ann2At Ct pc = some a2 ∧ FCur S Ct d vs a2 frames := by
  unfold BConf2 at h
  rw [hc] at h
  rcases hi with rfl | rfl | rfl | rfl <;> exact h

theorem BMode2.conf {l : L} {e : Env} {A : AView} (h : BMode2 S Ct l e A) {i : Shape} (hc : codeAt S l.pc = some i) :
    BConf2 S Ct e.scopes.data e.values l.pc A.frames := by
  rcases h with h | h
  · have := codeAt_range hc; omega
  · exact h

/-- `pop; push w; jump` -/
theorem pop_push_jump (w : V) (r : Ctl × L) (e : Env) :
    match (do let _ ← pop; push w; pure r : M (Ctl × L)) e with
    | .ok r' e' => Fr2 e e' ∧ r' = r
    | .panic s => s = .stackPop
    | .stuck _ => True := by
  cases hp : e.stack.pop? with
  | none =>
    have : pop e = .panic .stackPop := by unfold VM.pop; rw [hp]
    rw [bind_panic_eq this]
  | some p =>
    have : pop e = .ok p.1 { e with stack := p.2 } := by unfold VM.pop; rw [hp]
    rw [bind_ok_eq this, bind_ok_eq (push_eq _ _)]
    exact ⟨⟨rfl, rfl, rfl, rfl⟩, rfl⟩

theorem ftb_bt {t : Int} {x : ExtRec} {l : L} {e : Env} (hb : l.backtrack = true) :
    match exec (.forktrybegin t) x l e with
    | .ok r e' => Fr2 e e' ∧ ((r.1 = .brk ∧ r.2.pc = l.pc) ∨ (r.1 = .jump ∧ r.2.pc = t))
    | .panic s => s = .stackPop
    | .stuck _ => True := by
  simp only [exec, hb, if_true]
  cases hle : l.err with
  | none => exact ⟨Fr2.refl e, .inl ⟨rfl, rfl⟩⟩
  | some er =>
    cases er with
    | tryEnd e0 => exact ⟨Fr2.refl e, .inl ⟨rfl, rfl⟩⟩
    | brk n v => exact ⟨Fr2.refl e, .inl ⟨rfl, rfl⟩⟩
    | halt v => exact ⟨Fr2.refl e, .inl ⟨rfl, rfl⟩⟩
    | value v =>
      have := pop_push_jump v (Ctl.jump, { l with pc := t, backtrack := false, err := none }) e
      simp only
      revert this
      cases (do let _ ← pop; push v; pure (Ctl.jump, { l with pc := t, backtrack := false, err := none }) : M (Ctl × L)) e with
      | ok r' e' => rintro ⟨h1, rfl⟩; exact ⟨h1, .inr ⟨rfl, rfl⟩⟩
      | panic s => exact id
      | stuck w => exact id
    | msg m =>
      have := pop_push_jump (.jv (.str (Err.msg m).message)) (Ctl.jump, { l with pc := t, backtrack := false, err := none }) e
      simp only
      revert this
      cases (do let _ ← pop; push (.jv (.str (Err.msg m).message)); pure (Ctl.jump, { l with pc := t, backtrack := false, err := none }) : M (Ctl × L)) e with
      | ok r' e' => rintro ⟨h1, rfl⟩; exact ⟨h1, .inr ⟨rfl, rfl⟩⟩
      | panic s => exact id
      | stuck w => exact id
    | vm k m =>
      have := pop_push_jump (.jv (.str (Err.vm k m).message)) (Ctl.jump, { l with pc := t, backtrack := false, err := none }) e
      simp only
      revert this
      cases (do let _ ← pop; push (.jv (.str (Err.vm k m).message)); pure (Ctl.jump, { l with pc := t, backtrack := false, err := none }) : M (Ctl × L)) e with
      | ok r' e' => rintro ⟨h1, rfl⟩; exact ⟨h1, .inr ⟨rfl, rfl⟩⟩
      | panic s => exact id
      | stuck w => exact id

/-- the three instructions `fork`, `forkalt`, `forktrybegin` in backtrack mode: break, or continue at
    the target with the stable claims (`forktrybegin` first replaces the top of the stack) -/
theorem exec2_forklike (C : Checked S) (C2 : Checked2 S Ct) {ins : Instr} {t : Int} {x : ExtRec} {l : L} {e : Env}
    (hins : ins = .fork t ∨ ins = .forkalt t ∨ ins = .forktrybegin t)
    (h1 : WP (exec ins x l) (Post S) e)
    (hc : codeAt S l.pc = some (shape ins)) (hI1 : Inv S l e) (hI2 : Inv2 S Ct l e) :
    WP2 (exec ins x l) (Post2 S Ct) e := by
  have hsh : shape ins = .fork t ∨ shape ins = .forkalt t ∨ shape ins = .forktrybegin t ∨ shape ins = .iter := by
    rcases hins with rfl | rfl | rfl <;> simp [shape]
  obtain ⟨A, hV, G, R, hF2, hmode⟩ := both_cases hI1 hI2
  rcases hmode with ⟨hb, hM, hM2⟩ | ⟨hb, hN, hN2⟩
  · -- backtrack mode: the environment changes at most on the data stack (`forktrybegin`)
    have hB2 := hM2.conf hc
    obtain ⟨a2, ha2, hF0⟩ := bconf2_fork_inv hc hsh hB2
    have hB := hM.conf hc
    have ⟨a, ha⟩ : ∃ a, annAt S l.pc = some a := by
      unfold BConf at hB
      rcases hins with rfl | rfl | rfl <;> simp only [shape] at hc <;> simp only [hc] at hB <;>
        exact ⟨hB.choose, hB.choose_spec.1⟩
    obtain ⟨_, succs, hst, hsucc, hpc⟩ := C.step l.pc a _ ha hc
    obtain ⟨_, ⟨idF, nv, na, hsa, hlen⟩, succs2, hst2, hsucc2, _⟩ := C2.step l.pc a2 _ ha2 hc
    -- the two successors
    have hsuccs : ∃ a1 a1', succs = [(l.pc + 1, a1), (t, a1')] := by
      rcases hins with rfl | rfl | rfl <;> simp only [shape, step1] at hst
      · simp only [Option.some.injEq] at hst; rw [hpc] at hst; exact ⟨_, _, hst.symm⟩
      · simp only [Option.some.injEq] at hst; rw [hpc] at hst; exact ⟨_, _, hst.symm⟩
      · split at hst
        · simp only [Option.some.injEq] at hst; rw [hpc] at hst; exact ⟨_, _, hst.symm⟩
        · cases hst
    obtain ⟨a1, a1', rfl⟩ := hsuccs
    have hsuccs2 : succs2 = [(l.pc + 1, a2), (t, { a2 with ks := [], sl := resume Ct idF a2.sl })] := by
      rcases hins with rfl | rfl | rfl <;> simp only [shape, step2, hsa, Option.some.injEq] at hst2 <;>
        rw [hpc] at hst2 <;> exact hst2.symm
    subst hsuccs2
    obtain ⟨it, hcit, hnst⟩ := succ_code (succ2 hsucc).2
    -- every way out leaves scopes, forks, values, offset
    have hq : Quiet2 false l (exec ins x l) ∨ True := .inr trivial
    unfold WP at h1
    unfold WP2
    have hfr2 : ∀ r e', exec ins x l e = .ok r e' → Fr2 e e' ∧
        ((r.1 = .brk ∧ r.2.pc = l.pc) ∨ (r.1 = .jump ∧ r.2.pc = t)) := by
      intro r e' hex
      rcases hins with rfl | rfl | rfl
      · simp only [exec, hb, if_true] at hex
        split at hex
        · cases hex; exact ⟨Fr2.refl e, .inl ⟨rfl, rfl⟩⟩
        · cases hex; exact ⟨Fr2.refl e, .inr ⟨rfl, rfl⟩⟩
      · simp only [exec, hb, if_true] at hex
        split at hex
        · cases hex; exact ⟨Fr2.refl e, .inl ⟨rfl, rfl⟩⟩
        · cases hex; exact ⟨Fr2.refl e, .inr ⟨rfl, rfl⟩⟩
      · have := ftb_bt (t := t) (x := x) (e := e) hb
        rw [hex] at this
        exact this
    cases hex : exec ins x l e with
    | panic s =>
      -- only `forktrybegin` pops: `index out of range`
      rcases hins with rfl | rfl | rfl
      · simp only [exec, hb, if_true] at hex; split at hex <;> cases hex
      · simp only [exec, hb, if_true] at hex; split at hex <;> cases hex
      · have := ftb_bt (t := t) (x := x) (e := e) hb
        rw [hex] at this
        subst this; rfl
    | stuck w => trivial
    | ok r e' =>
      rw [hex] at h1
      obtain ⟨A', hV', _, _, _, hpost⟩ := h1
      obtain ⟨hfr, hctl⟩ := hfr2 r e' hex
      obtain ⟨hfrm, hkeys⟩ := view_fr2 hV hV' hfr
      have hd : e'.scopes.data = e.scopes.data := by rw [hfr.1]
      have hv : e'.values = e.values := hfr.2.2.1
      have hF2' : ForksConf2 S Ct e'.scopes.data e'.values A'.forks := by
        rw [hd, hv, ForksConf2.iff_keys, hkeys]; exact ForksConf2.iff_keys.mp hF2
      obtain ⟨ctl, l'⟩ := r
      simp only at hctl
      rcases hctl with ⟨rfl, hpcr⟩ | ⟨rfl, hpcr⟩
      · refine ⟨A', hV', R.fr hfr, hF2', ?_⟩
        intro _ _
        simp only
        rw [hpcr, hd, hv, hfrm]
        exact hB2
      · refine ⟨A', hV', R.fr hfr, hF2', ?_⟩
        refine NMode2.of_succ (succ2 hsucc2).2 hpcr hcit hnst ?_
        rw [hd, hv, hfrm]
        exact hF0.toCur (idOf_eq hsa)
  · -- normal mode: push a fork
    obtain ⟨herr, a, succs, ha, hst, hsucc, hpc, hp, hconf⟩ := hN.unpack C hc
    obtain ⟨a2, succs2, idF, nv, na, ha2, hsa, hlen, hst2, hsucc2, _, _, hcur⟩ := hN2.unpack C2 hc
    have hnsc : isScope (shape ins) = false := by rcases hins with rfl | rfl | rfl <;> rfl
    rw [if_neg (by rw [hnsc]; simp)] at hcur
    have hsuccs : ∃ a1 a1', succs = [(l.pc + 1, a1), (t, a1')] := by
      rcases hins with rfl | rfl | rfl <;> simp only [shape, step1] at hst
      · simp only [Option.some.injEq] at hst; rw [hpc] at hst; exact ⟨_, _, hst.symm⟩
      · simp only [Option.some.injEq] at hst; rw [hpc] at hst; exact ⟨_, _, hst.symm⟩
      · split at hst
        · simp only [Option.some.injEq] at hst; rw [hpc] at hst; exact ⟨_, _, hst.symm⟩
        · cases hst
    obtain ⟨a1, a1', rfl⟩ := hsuccs
    have hsuccs2 : succs2 = [(l.pc + 1, a2), (t, { a2 with ks := [], sl := resume Ct idF a2.sl })] := by
      rcases hins with rfl | rfl | rfl <;> simp only [shape, step2, hsa, Option.some.injEq] at hst2 <;>
        rw [hpc] at hst2 <;> exact hst2.symm
    subst hsuccs2
    have hB : BConf2 S Ct e.scopes.data e.values l.pc A.frames := bconf2_fork hc hsh ha2 hcur.toF
    have := fork2_normal C hV R hF2 (succ2 hsucc2).1 (succ_code (succ2 hsucc).1) hcur hB
    rcases hins with rfl | rfl | rfl <;> simp only [exec, hb] <;> exact this

end Gojq.SafeVM

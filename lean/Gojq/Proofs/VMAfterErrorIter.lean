/-
  `opiter` re-entered by the `Next` call that follows an error: the WHOLE turn is panic-free, not just
  the pop at its head.  The value on top is either the `emptyIter{}` that `opiter` pushed before
  raising its own error, or the iteration state saved by the fork of that `opiter` — a NON-EMPTY rest
  of path values or a Go iterator — because that fork was the oldest pending one and its slot is
  protected (`BottomIterOK`, the analogue of `BottomOK` for `opiter`; no guard is needed: `opiter`
  itself pushes the value its fork saves).  On each of these `opiter` makes no failing access.
  Arbitrary code.
-/
import Gojq.Proofs.VMAfterErrorNext
set_option linter.unusedSimpArgs false
set_option linter.unusedVariables false
namespace Gojq.VM

/-- what the fork of an `opiter` saves on top: `xs[1:]` when non-empty, or the Go iterator -/
def IterVal : V → Prop
  | .pvs (_ :: _) => True
  | .iter _ => True
  | _ => False

def IterAt (P : Params) (pc : Int) : Prop := P.code[pc.toNat]? = some .iter

/-- the top block holds an iteration state -/
def TopIter (s : Stack V) : Prop := 0 ≤ s.index ∧ ∃ b, s.data[s.index.toNat]? = some b ∧ IterVal b.value

/-- … or `emptyIter{}` -/
def TopIterOrEmpty (s : Stack V) : Prop :=
  0 ≤ s.index ∧ ∃ b, s.data[s.index.toNat]? = some b ∧ (IterVal b.value ∨ b.value = .emptyIter)

/-- if the bottom pending fork was pushed by an `opiter`: its slot is protected and holds an
    iteration state -/
def BottomIterOK (P : Params) (e : Env) : Prop :=
  ∀ above f0, e.forks = above ++ [f0] → IterAt P f0.pc →
    f0.stackindex ≤ e.stack.limit ∧ (∀ g ∈ above, f0.stackindex ≤ g.stacklimit) ∧
    ∃ b, e.stack.data[f0.stackindex.toNat]? = some b ∧ IterVal b.value

def LInv3 (P : Params) (l : L) (e : Env) : Prop :=
  l.err.isSome = true → e.forks = [] → IterAt P l.pc → TopIter e.stack

def StepIter (P : Params) : Step → Prop
  | .cont l' s' => BottomIterOK P s'.env ∧ LInv3 P l' s'.env
  | .fin o s' => BottomIterOK P s'.env ∧ ∀ e, o = .error e → IterAt P s'.env.pc → TopIterOrEmpty s'.env.stack

/-! ## the fork an `opiter` pushes -/

/-- a fork pushed over `v`, and whatever is pushed afterwards: the fork's slot still holds `v` -/
def ForkHolds (e0 e' : Env) (v : V) : Prop :=
  ∃ f, e'.forks = f :: e0.forks ∧ 0 ≤ f.stackindex ∧ f.stackindex ≤ e'.stack.limit ∧
    ∃ b, e'.stack.data[f.stackindex.toNat]? = some b ∧ b.value = v

theorem pushforkOver_holds {v : V} {pc : Int} {e e1 : Env} (hw : StackWF e.stack)
    (h : pushforkOver v pc e = .ok () e1) : ForkHolds e e1 v ∧ StackWF e1.stack := by
  obtain ⟨f, f1, _, f3, f4, f5⟩ := pushforkOver_inv hw h
  have hk := Kp.pushforkOver (k := e.stack.limit) v pc e e (Keeps.refl _ e hw (Int.le_refl _))
  unfold wp at hk; rw [h] at hk
  exact ⟨⟨f, f1, f3, by rw [f4]; exact Int.le_refl _, _, f5, rfl⟩, hk.1⟩

theorem ForkHolds.push {e0 e : Env} {v w : V} (h : ForkHolds e0 e v) (hw : StackWF e.stack) :
    ForkHolds e0 { e with stack := e.stack.push w } v := by
  obtain ⟨f, f1, f0, f2, b, f3, f4⟩ := h
  obtain ⟨hl, hd⟩ := Stack.push_keeps e.stack w hw
  refine ⟨f, f1, f0, by show _ ≤ (e.stack.push w).limit; rw [hl]; exact f2, b, ?_, f4⟩
  show (e.stack.push w).data[f.stackindex.toNat]? = some b
  rw [hd _ (by rw [Int.toNat_of_nonneg f0]; exact f2)]
  exact f3

theorem ForkHolds.frame {e0 e e' : Env} {v : V} (h : ForkHolds e0 e v) (hs : e'.stack = e.stack)
    (hf : e'.forks = e.forks) : ForkHolds e0 e' v := by
  obtain ⟨f, f1, f0, f2, b, f3, f4⟩ := h
  exact ⟨f, by rw [hf]; exact f1, f0, by rw [hs]; exact f2, b, by rw [hs]; exact f3, f4⟩

theorem pathsPush_ok {v : V} {e e' : Env} (h : pathsPush v e = .ok () e') :
    e'.stack = e.stack ∧ e'.forks = e.forks := by
  simp [pathsPush, modifyEnv] at h; rw [← h]; exact ⟨rfl, rfl⟩

/-- `iterEmit`: either no fork is pushed, or one whose slot holds the non-empty rest -/
theorem iterEmit_fork {pc : Int} {l : L} {xs : List (V × V)} {e e' : Env} {r : Ctl × L}
    (hw : StackWF e.stack) (h : iterEmit pc l xs e = .ok r e') :
    e'.forks = e.forks ∨ ∃ v, IterVal v ∧ ForkHolds e e' v := by
  unfold iterEmit at h
  cases xs with
  | nil => simp [panic] at h
  | cons pv rest =>
    obtain ⟨p, v⟩ := pv
    simp only at h
    have tail : ∀ {e2 : Env}, (do
          push v
          if (← tracking) then pathsPush (.pv p v)
          pure (Ctl.fall, l) : M (Ctl × L)) e2 = .ok r e' →
        e'.stack = e2.stack.push v ∧ e'.forks = e2.forks := by
      intro e2 h
      obtain ⟨_, e3, h1, h2⟩ := bind_ok h
      rw [push_ok] at h1; simp at h1; subst h1
      obtain ⟨t, e4, h3, h4⟩ := bind_ok h2
      have := tracking_ok h3; subst this
      dsimp only at h4
      split at h4
      · obtain ⟨_, e5, h5, h6⟩ := bind_ok h4
        have := (pure_ok h6).2; subst this
        exact pathsPush_ok h5
      · have := (pure_ok h4).2; subst this; exact ⟨rfl, rfl⟩
    cases hr : rest with
    | nil =>
      subst hr
      simp only [List.isEmpty_nil, Bool.not_true, Bool.false_eq_true, if_false] at h
      obtain ⟨_, e1, h1, h2⟩ := bind_ok h
      have := (pure_ok h1).2; subst this
      exact .inl (tail h2).2
    | cons y ys =>
      subst hr
      simp only [List.isEmpty_cons, Bool.not_false, if_true] at h
      obtain ⟨_, e1, h1, h2⟩ := bind_ok h
      obtain ⟨hh, hw1⟩ := pushforkOver_holds hw h1
      obtain ⟨a, b⟩ := tail h2
      refine .inr ⟨.pvs (y :: ys), trivial, ?_⟩
      exact (hh.push hw1).frame a b

/-- one `opiter`: no fork is pushed, or one whose slot holds an iteration state -/
theorem iter_fork (x : ExtRec) (l : L) (e : Env) (r : Ctl × L) (e' : Env) (hw : StackWF e.stack)
    (h : exec .iter x l e = .ok r e') : e'.forks = e.forks ∨ ∃ v, IterVal v ∧ ForkHolds e e' v := by
  simp only [exec] at h
  split at h
  · exact .inl (by rw [(pure_ok h).2])
  · obtain ⟨v, e1, hpop, h⟩ := bind_ok h
    try dsimp only at h
    obtain ⟨hw1, hf1⟩ := pop_ok hpop hw
    have lift : ∀ {e2 : Env}, (e2.forks = e1.forks ∨ ∃ v, IterVal v ∧ ForkHolds e1 e2 v) →
        (e2.forks = e.forks ∨ ∃ v, IterVal v ∧ ForkHolds e e2 v) := by
      intro e2 h
      rcases h with h | ⟨v, hv, f, f1, f2⟩
      · exact .inl (by rw [h, hf1])
      · exact .inr ⟨v, hv, f, by rw [f1, hf1], f2⟩
    have same : ∀ {a : Ctl × L} {e2 : Env}, (pure a : M (Ctl × L)) e1 = .ok r e2 → e2.forks = e.forks := by
      intro a e2 h; rw [← (pure_ok h).2, hf1]
    have invalid : ∀ {l2 : L} {e2 : Env}, iterInvalid x l2 e1 = .ok r e2 → e2.forks = e.forks := by
      intro l2 e2 h
      unfold iterInvalid at h
      obtain ⟨_, e3, h1, h2⟩ := bind_ok h
      rw [push_ok] at h1; simp at h1; subst h1
      rw [← (pure_ok h2).2]; exact hf1
    split at h
    · exact lift (iterEmit_fork hw1 h)
    · obtain ⟨b, e2, hb, k1⟩ := bind_ok h
      have := pathBroken_ok hb; subst this
      split at k1
      · exact .inl (invalid k1)
      · split at k1
        · exact .inl (same k1)
        · exact lift (iterEmit_fork hw1 k1)
    · obtain ⟨b, e2, hb, k1⟩ := bind_ok h
      have := pathBroken_ok hb; subst this
      split at k1
      · exact .inl (invalid k1)
      · split at k1
        · exact .inl (same k1)
        · exact lift (iterEmit_fork hw1 k1)
    · exact .inl (same h)
    · rename_i hh
      obtain ⟨cr, e2, hr, k1⟩ := bind_ok h
      have := extCall_ok hr; subst this
      split at k1
      · exact .inl (same k1)
      · obtain ⟨_, e3, hpf, k2⟩ := bind_ok k1
        obtain ⟨_, e4, hp, k3⟩ := bind_ok k2
        rw [push_ok] at hp; simp at hp; subst hp
        have := (pure_ok k3).2; subst this
        obtain ⟨hfh, hw3⟩ := pushforkOver_holds hw1 hpf
        exact lift (.inr ⟨.iter hh, trivial, hfh.push hw3⟩)
      · obtain ⟨_, e3, hpf, k2⟩ := bind_ok k1
        have := (pure_ok k2).2; subst this
        exact lift (.inr ⟨.iter hh, trivial, (pushforkOver_holds hw1 hpf).1⟩)
    · obtain ⟨_, e3, h1, h2⟩ := bind_ok h
      rw [push_ok] at h1; simp at h1; subst h1
      exact .inl (by rw [← (pure_ok h2).2]; exact hf1)

/-! ## the invariant is kept -/

theorem top_of_top? {s : Stack V} {v : V} (h : s.top? = some v) :
    0 ≤ s.index ∧ ∃ b, s.data[s.index.toNat]? = some b ∧ b.value = v := by
  unfold Stack.top? Stack.blockAt? at h
  by_cases h0 : 0 ≤ s.index
  · simp only [h0, if_true] at h
    cases hb : s.data[s.index.toNat]? with
    | none => rw [hb] at h; simp at h
    | some b => rw [hb] at h; simp at h; exact ⟨h0, b, rfl, h⟩
  · simp [h0] at h

theorem exec_iterinv (P : Params) (l : L) (e : Env) (ins : Instr) (x : ExtRec) (ctl : Ctl) (l' : L) (e' : Env)
    (hE : EnvInv P e) (hB : BottomIterOK P e) (hL : LInv P l e) (hL3 : LInv3 P l e) (h0 : 0 ≤ l.pc)
    (hins : P.code[l.pc.toNat]? = some ins) (hex : exec ins x l e = .ok (ctl, l') e') :
    BottomIterOK P e' ∧
      (ctl = .brk → e'.forks = [] → l'.err.isSome = true → ins = .iter → TopIterOrEmpty e'.stack) := by
  have hl : l.err.isSome = true → l.backtrack = true ∧ forkLike ins = true := by
    intro he
    obtain ⟨hb, ins', _, hc, hd, _⟩ := hL he
    rw [hins] at hc; simp at hc; subst hc
    exact ⟨hb, hd⟩
  obtain ⟨⟨hw', hsz, new, hfk, hnew⟩, hpost⟩ := exec_ok ins x l e ctl l' e' hE.1 hl hex
  refine ⟨?_, ?_⟩
  · intro above f0 hdec hit
    rcases list_snoc_cases e.forks with hnil | ⟨above0, f00, hsn⟩
    · rw [hfk, hnil, List.append_nil] at hdec
      have hmem : f0 ∈ new := by rw [hdec]; simp
      have hpc : f0.pc = l.pc := (hnew f0 hmem).1
      have : ins = .iter := by
        unfold IterAt at hit; rw [hpc, hins] at hit; simpa using hit
      subst this
      rcases iter_fork x l e _ e' hE.1 hex with hsame | ⟨v, hv, f, f1, _, f2, b, f3, f4⟩
      · rw [hfk, hnil, List.append_nil] at hsame
        rw [hsame] at hmem; simp at hmem
      · rw [hnil] at f1
        have h2 : above ++ [f0] = [] ++ [f] := by rw [← hdec, ← List.append_nil new, ← hnil, ← hfk, f1, hnil]; rfl
        obtain ⟨rfl, rfl⟩ := snoc_inj h2
        exact ⟨f2, by simp, b, f3, by rw [f4]; exact hv⟩
    · rw [hfk, hsn, ← List.append_assoc] at hdec
      obtain ⟨habove, rfl⟩ := snoc_inj hdec
      have hmem0 : f00 ∈ e.forks := by rw [hsn]; simp
      obtain ⟨b1, b2, blk, b3, b4⟩ := hB above0 f00 hsn hit
      have hk0 : 0 ≤ f00.stackindex := by
        obtain ⟨_, _, _, _, ins', _, i1, _, i3⟩ := hE.2 f00 hmem0
        unfold IterAt at hit
        rw [i1] at hit
        exact i3 (by simpa using hit)
      obtain ⟨_, k1, _, k3, new', k4, k5⟩ := exec_keeps_ok f00.stackindex ins x l e (ctl, l') e' hE.1 b1 hex
      have hnn : new' = new := by
        rw [hfk] at k4
        exact (List.append_cancel_right k4).symm
      refine ⟨k1, ?_, blk, ?_, b4⟩
      · intro g hg
        rw [← habove] at hg
        rcases List.mem_append.mp hg with hg | hg
        · exact k5 g (by rw [hnn]; exact hg)
        · exact b2 g hg
      · rw [k3 _ (by rw [Int.toNat_of_nonneg hk0]; exact Int.le_refl _)]
        exact b3
  · intro hc hf he hi
    subst hi; subst hc
    cases herr : l.err with
    | some er =>
      -- entered with the error: untouched
      have hu := propagated_untouched .iter x l e l' e' rfl rfl (hl (by simp [herr])).1 (by simp [herr]) hex
      rw [hu.1] at hf ⊢
      obtain ⟨i0, b, b1, b2⟩ := hL3 (by simp [herr]) hf hins
      exact ⟨i0, b, b1, .inl b2⟩
    | none =>
      obtain ⟨i0, b, b1, b2⟩ := top_of_top? (iter_own_error_top x l e l' e' hE.1 herr hex he hf)
      exact ⟨i0, b, b1, .inr b2⟩

theorem unwind_iterinv (P : Params) (l : L) (s : St) (hE : EnvInv P s.env) (hB : BottomIterOK P s.env)
    (hT : s.env.forks = [] → l.err.isSome = true → IterAt P l.pc → TopIterOrEmpty s.env.stack) :
    StepIter P (unwind P l s) := by
  unfold unwind
  split
  · rename_i hf
    unfold finish
    cases he1 : l.err with
    | none => exact ⟨hB, fun e he => by simp at he⟩
    | some e1 => exact ⟨hB, fun e he => hT hf (by simp [he1])⟩
  · rename_i f rest hf
    refine ⟨?_, ?_⟩
    · intro above f0 hdec hit
      have hdec' : rest = above ++ [f0] := hdec
      obtain ⟨b1, b2, b3⟩ := hB (f :: above) f0 (by rw [hf, hdec']; rfl) hit
      exact ⟨b2 f (by simp), fun g hg => b2 g (List.mem_cons_of_mem _ hg), b3⟩
    · intro _ hrest hit
      have hrest' : rest = [] := hrest
      have hit' : IterAt P f.pc := hit
      obtain ⟨b1, b2, blk, b3, b4⟩ := hB [] f (by rw [hf, hrest']; rfl) hit'
      have h0 : 0 ≤ f.stackindex := by
        obtain ⟨_, _, _, _, ins', _, i1, _, i3⟩ := hE.2 f (by rw [hf]; simp)
        unfold IterAt at hit'
        rw [i1] at hit'
        exact i3 (by simpa using hit')
      exact ⟨h0, blk, b3, b4⟩

theorem step_iterinv (P : Params) (l : L) (s : St) (hE : EnvInv P s.env) (hB : BottomIterOK P s.env)
    (hL : LInv P l s.env) (hL3 : LInv3 P l s.env) : StepIter P (step P l s) := by
  unfold step
  by_cases h1 : l.pc < P.code.size
  · by_cases h0 : l.pc < 0
    · simp only [h1, h0, if_true]
      exact ⟨hB, fun e h => by simp at h⟩
    · have h0' : 0 ≤ l.pc := Int.not_lt.mp h0
      simp only [h1, h0, if_true, if_false]
      split
      · exact ⟨fun above f0 hd => by simp [St.save] at hd, fun e h => by simp at h⟩
      · have hins := getD_some P.code l.pc h0' h1
        generalize hI : P.code.getD l.pc.toNat .bad = ins at hins
        have hl : l.err.isSome = true → l.backtrack = true ∧ forkLike ins = true := by
          intro he
          obtain ⟨hb, ins', _, hc, hd, _⟩ := hL he
          rw [hins] at hc; simp at hc; subst hc
          exact ⟨hb, hd⟩
        split
        · exact ⟨hB, fun e h => by simp at h⟩
        · exact ⟨hB, fun e h => by simp at h⟩
        · rename_i ctl l' env' hex
          obtain ⟨x1, x2⟩ := exec_iterinv P l s.env ins _ ctl l' env' hE hB hL hL3 h0' hins hex
          obtain ⟨⟨hw', hsz, new, hfk, hnew⟩, hpost⟩ := exec_ok ins _ l s.env ctl l' env' hE.1 hl hex
          split
          · simp only [Post] at hpost
            exact ⟨x1, fun he => by simp [hpost] at he⟩
          · simp only [Post] at hpost
            exact ⟨x1, fun he => by simp [hpost] at he⟩
          · exact ⟨x1, fun e h => by simp at h⟩
          · simp only [Post] at hpost
            have hE' : EnvInv P env' := by
              refine ⟨hw', fun f hf => ?_⟩
              rw [hfk] at hf
              rcases List.mem_append.mp hf with hf | hf
              · obtain ⟨a, b, c, d, e, g, i⟩ := hnew f hf
                exact ⟨c, d, e, g, ins, by rw [a]; exact h0', by rw [a]; exact hins, b, i⟩
              · exact (hE.2 f hf).mono hsz
            apply unwind_iterinv P l' _ hE' x1
            intro hf he hit
            have hit' : P.code[l'.pc.toNat]? = some .iter := hit
            rw [hpost.1, hins] at hit'
            exact x2 rfl hf he (by simpa using hit')
  · simp only [h1, if_false]
    apply unwind_iterinv P l s hE hB
    intro _ he _
    exfalso
    obtain ⟨_, ins', i0, hc, _⟩ := hL he
    have : l.pc.toNat < P.code.size := (Array.getElem?_eq_some_iff.mp hc).1
    exact h1 ((Int.toNat_lt i0).mp this)

theorem loop_iterinv (P : Params) : ∀ (fuel : Nat) (l : L) (s : St), EnvInv P s.env → BottomIterOK P s.env →
    LInv P l s.env → LInv3 P l s.env →
    BottomIterOK P (loop P fuel l s).2.env ∧
      ∀ e, (loop P fuel l s).1 = .error e → IterAt P (loop P fuel l s).2.env.pc →
        TopIterOrEmpty (loop P fuel l s).2.env.stack := by
  intro fuel
  induction fuel with
  | zero =>
    intro l s hE hB hL hL3
    have := step_iterinv P l s hE hB hL hL3
    rw [loop_zero]
    cases hs : step P l s with
    | fin o s' => rw [hs] at this; exact this
    | cont l' s' => rw [hs] at this; exact ⟨this.1, fun e h => by simp at h⟩
  | succ n ih =>
    intro l s hE hB hL hL3
    have := step_iterinv P l s hE hB hL hL3
    have hbase := step_inv P l s hE hL
    rw [loop_succ]
    cases hs : step P l s with
    | fin o s' => rw [hs] at this; exact this
    | cont l' s' =>
      rw [hs] at this hbase
      exact ih l' s' hbase.1 this.1 hbase.2 this.2

theorem entry_linv3 (P : Params) (s : St) : LInv3 P (entry P s) s.env := by
  intro h; simp [entry] at h

theorem initSt_iterinv (P : Params) (input : V) (vars : List V) : BottomIterOK P (initSt input vars).env := by
  have hf : (initSt input vars).env.forks = [] := by
    have : ∀ (vs : List V) (e : Env), e.forks = [] →
        (vs.foldl (fun e v => { e with stack := e.stack.push v }) e).forks = [] := by
      intro vs
      induction vs with
      | nil => intro e h; exact h
      | cons v vs ih => intro e h; exact ih _ h
    exact this _ _ rfl
  intro above f0 hd
  rw [hf] at hd; simp at hd

theorem next_iterinv (P : Params) (fuel : Nat) (s : St) (hE : EnvInv P s.env) (hB : BottomIterOK P s.env) :
    BottomIterOK P (next P fuel s).2.env :=
  (loop_iterinv P fuel _ s hE hB (entry_linv P s) (entry_linv3 P s)).1

theorem after_iterinv (P : Params) (fuel : Nat) : ∀ (n : Nat) (s : St), EnvInv P s.env → BottomIterOK P s.env →
    BottomIterOK P (after P fuel n s).env := by
  intro n
  induction n with
  | zero => intro s _ h; exact h
  | succ n ih => intro s hE hB; exact ih _ (next_inv P fuel s hE) (next_iterinv P fuel s hE hB)

/-! ## the re-entered `opiter` makes no failing access -/

/-- no panic on a well-formed stack, and the stack stays well-formed -/
def NP {α : Type} (m : M α) : Prop :=
  ∀ e, StackWF e.stack → (∀ site, m e ≠ .panic site) ∧ ∀ a e', m e = .ok a e' → StackWF e'.stack

theorem NP.pure {α : Type} {a : α} : NP (pure a : M α) := by
  intro e hw
  refine ⟨fun site h => ?_, fun b e' h => ?_⟩
  · have h' : Res.ok a e = Res.panic site := h
    simp at h'
  · rw [← (pure_ok h).2]; exact hw

theorem NP.bind {α β : Type} {m : M α} {f : α → M β} (hm : NP m) (hf : ∀ a, NP (f a)) : NP (m >>= f) := by
  intro e hw
  obtain ⟨m1, m2⟩ := hm e hw
  refine ⟨fun site h => ?_, fun b e' h => ?_⟩
  · have h' : M.bind m f e = .panic site := h
    unfold M.bind at h'
    cases hme : m e with
    | ok a e1 => rw [hme] at h'; exact (hf a e1 (m2 a e1 hme)).1 site h'
    | panic s => exact m1 s hme
    | stuck w => rw [hme] at h'; simp at h'
  · obtain ⟨a, e1, h1, h2⟩ := bind_ok h
    exact (hf a e1 (m2 a e1 h1)).2 b e' h2

theorem NP.push (v : V) : NP (push v) := by
  intro e hw
  refine ⟨fun site h => (by rw [push_ok] at h; cases h), fun a e' h => ?_⟩
  rw [push_ok] at h; simp at h; rw [← h]; exact (Stack.push_wf _ _ hw).1

theorem NP.frame {α : Type} {m : M α} (h1 : ∀ e site, m e ≠ .panic site)
    (h2 : ∀ e a e', m e = .ok a e' → e'.stack = e.stack) : NP m := by
  intro e hw
  exact ⟨h1 e, fun a e' h => by rw [h2 e a e' h]; exact hw⟩

theorem NP.tracking : NP tracking :=
  NP.frame (fun e site h => by cases h) (fun e a e' h => by rw [tracking_ok h])

theorem NP.pathsPush (v : V) : NP (pathsPush v) :=
  NP.frame (fun e site h => by cases h) (fun e a e' h => (pathsPush_ok h).1)

theorem NP.extCall (x : ExtRec) : NP (extCall x) :=
  NP.frame (fun e site h => by unfold VM.extCall at h; split at h <;> simp at h)
    (fun e a e' h => by rw [extCall_ok h])

theorem NP.pushforkOver (v : V) (pc : Int) : NP (pushforkOver v pc) := by
  intro e hw
  refine ⟨fun site h => ?_, fun a e' h => (pushforkOver_holds hw h).2⟩
  -- push; pushfork; pop — the pop finds the value just pushed
  obtain ⟨hw1, ht1⟩ := Stack.push_wf e.stack v hw
  unfold VM.pushforkOver at h
  have h' : M.bind (VM.push v) (fun _ => M.bind (VM.pushfork pc) (fun _ => M.bind VM.pop (fun _ => M.pure ()))) e = .panic site := h
  unfold M.bind at h'
  rw [push_ok] at h'
  simp only at h'
  obtain ⟨f, e2, hpf, _, hf2, hf3, hf4, _⟩ := pushfork_spec pc { e with stack := e.stack.push v } hw1
  rw [hpf] at h'
  simp only at h'
  have ht2 : TopOK e2.stack := ⟨by rw [hf3]; exact ht1.1, by rw [hf3, hf2]; exact ht1.2⟩
  obtain ⟨w, e3, hp⟩ := iter_reentry_pop e2 ht2
  rw [hp] at h'
  simp [M.pure] at h'

macro "np_steps" : tactic => `(tactic| repeat' (first
  | exact NP.pure | exact NP.push _ | exact NP.tracking | exact NP.pathsPush _ | exact NP.extCall _
  | exact NP.pushforkOver _ _
  | refine NP.bind ?_ (fun _ => ?_)
  | split))

theorem NP.iterEmit (pc : Int) (l : L) (p v : V) (rest : List (V × V)) : NP (iterEmit pc l ((p, v) :: rest)) := by
  unfold VM.iterEmit
  simp only
  np_steps

/-- Re-entered without an error on `emptyIter{}` or an iteration state, `opiter` does not panic. -/
theorem iter_reentry_total (x : ExtRec) (l : L) (e : Env) (hw : StackWF e.stack) (herr : l.err = none)
    (ht : TopIterOrEmpty e.stack) (site : Site) : exec .iter x l e ≠ .panic site := by
  obtain ⟨h0, b, hb, hv⟩ := ht
  have hp : pop e = .ok b.value { e with stack := { e.stack with index := b.next } } := by
    unfold pop Stack.pop? Stack.blockAt?
    simp only [h0, if_true, hb]
  have hw1 : StackWF ({ e with stack := { e.stack with index := b.next } } : Env).stack := (pop_ok hp hw).1
  have key : ∀ (m : M (Ctl × L)), NP m →
      m { e with stack := { e.stack with index := b.next } } = .panic site → False :=
    fun m hm hh => (hm _ hw1).1 site hh
  intro h
  simp only [exec, herr, Option.isSome_none, Bool.false_eq_true, if_false] at h
  have h' : M.bind pop _ e = .panic site := h
  unfold M.bind at h'
  rw [hp] at h'
  simp only at h'
  cases hbv : b.value with
  | pvs xs =>
    rw [hbv] at hv h'
    simp only at h'
    cases xs with
    | nil =>
      rcases hv with hv | hv
      · exact hv
      · cases hv
    | cons pv rest =>
      obtain ⟨p, v⟩ := pv
      exact key _ (NP.iterEmit _ _ p v rest) h'
  | iter hh =>
    rw [hbv] at h'
    simp only at h'
    refine key _ ?_ h'
    np_steps
  | emptyIter =>
    rw [hbv] at h'
    simp only at h'
    cases h'
  | jv j =>
    rw [hbv] at hv
    rcases hv with hv | hv
    · exact hv
    · cases hv
  | clo a c =>
    rw [hbv] at hv
    rcases hv with hv | hv
    · exact hv
    · cases hv
  | pv a c =>
    rw [hbv] at hv
    rcases hv with hv | hv
    · exact hv
    · cases hv
  | tok =>
    rw [hbv] at hv
    rcases hv with hv | hv
    · exact hv
    · cases hv

/-- if the instruction about to run does not panic, the turn is not a panic -/
theorem step_no_panic_of_exec' (P : Params) (l : L) (s : St) (h0 : 0 ≤ l.pc) (h1 : l.pc < P.code.size)
    (hex : ∀ site, exec (P.code.getD l.pc.toNat .bad) (P.ext s.polls) l s.env ≠ .panic site)
    (site : Site) (st : St) : step P l s ≠ .fin (.panic site) st := by
  intro h
  unfold step at h
  simp only [h1, Int.not_lt.mpr h0, if_true, if_false] at h
  split at h
  · simp at h
  · split at h
    · rename_i site' hp
      exact hex site' hp
    · simp at h
    · split at h
      · simp at h
      · simp at h
      · simp at h
      · exact unwind_no_panic P _ _ site st h

end Gojq.VM

/-
  C04, the tail-call pass on programs WITH closures, one turn (Props/C04TailClos.lean): the simulation
  diagram of Proofs/TailSimStep.lean extends to code that creates and calls closures, on every turn
  that executes neither `pushpc` nor `callpc`.

  The relation is the COMPOSITION `eo ~PRel~ em ~Inv~ ep`: the original run's environment `eo` equals,
  up to closure indices, a middle environment `em` (the original's scope stack and forks with the
  optimised run's data stack, paths stack and variables), which is related to the optimised run's
  environment `ep` by the invariant of the closure-free proof.  That invariant and its one-turn
  lemma `step_sim` are stated for closure-free codes; they are used here on STRIPPED codes `d`, `d'`
  (the codes with `pushpc` / `callpc` replaced by an instruction of no interest to the invariant):
  a turn only looks at the instruction at `pc`, so on a turn at any other instruction the runs of `c`
  and `d` coincide.
-/
import Gojq.Proofs.TailSimStep
import Gojq.Proofs.TailClosParamTurn
set_option linter.unusedSimpArgs false
set_option linter.unusedVariables false
namespace Gojq.TailVM
open Gojq Gojq.VM Gojq.OptVM Gojq.CloParam

/-- a turn depends on the code only through its length and the instruction at `pc` -/
theorem stepE_code_local (c d : Array Instr) (x : ExtRec) (l : L) (e : Env) (hs : d.size = c.size)
    (hi : d.getD l.pc.toNat .bad = c.getD l.pc.toNat .bad) : stepE d x l e = stepE c x l e := by
  unfold stepE
  rw [hs, hi]

theorem tickAt_code_local (c d : Array Instr) (l : L) (hs : d.size = c.size)
    (hi : d.getD l.pc.toNat .bad = c.getD l.pc.toNat .bad) : tickAt d l = tickAt c l := by
  unfold tickAt
  rw [hs, hi]

theorem outR_proper {o o' : Outcome} (h : OutR o o') (hp : o.proper = true) : o'.proper = true := by
  cases o <;> cases o' <;> simp [OutR, Outcome.proper] at h hp ⊢

/-- the composite relation between the original run (locals `lo`, environment `eo`) and the optimised
    run (`lp`, `ep`) of codes with closures, through stripped codes `d`, `d'` -/
def CInv (d d' : Array Instr) (lo lp : L) (eo ep : Env) : Prop :=
  ∃ lm em, LR lo lm ∧ PRel eo em ∧ Inv d d' lm lp em ep

/-- … between two calls of `Next` -/
def CFRel (d d' : Array Instr) (eo ep : Env) : Prop := ∃ em, PRel eo em ∧ FRel d d' em ep

/-- THE TURN DIAGRAM WITH CLOSURES, for every turn at an instruction that the stripped codes keep
    (i.e. neither `pushpc` nor `callpc`): if the original's turn ends the call properly, the optimised
    code's turn ends it with the same outcome up to closure indices, in related states; otherwise
    both make one turn and stay related, or the original makes a turn alone and the states stay
    related. -/
theorem step_sim_closures {c c' d d' : Array Instr} (S : TailStatic d d') (hs : d.size = c.size)
    (hs' : d'.size = c'.size) (x : ExtRec) {lo lp : L} {eo ep : Env} (h : CInv d d' lo lp eo ep)
    (hi : d.getD lo.pc.toNat .bad = c.getD lo.pc.toNat .bad)
    (hi' : d'.getD lp.pc.toNat .bad = c'.getD lp.pc.toNat .bad)
    (hE : ∀ n p i, lo.err ≠ some (.brk n (.clo p i))) :
    match stepE c x lo eo with
    | .fin o ef => o.proper = true →
        ∃ o' ef', stepE c' x lp ep = .fin o' ef' ∧ OutR o o' ∧ CFRel d d' ef ef' ∧ tickAt c lo = tickAt c' lp
    | .cont lo1 eo1 =>
      (∃ lp1 ep1, stepE c' x lp ep = .cont lp1 ep1 ∧ CInv d d' lo1 lp1 eo1 ep1 ∧ tickAt c lo = tickAt c' lp) ∨
      (CInv d d' lo1 lp eo1 ep ∧ tickAt c lo = 0) := by
  obtain ⟨lm, em, hl, he, hI⟩ := h
  have hnc : d.getD lo.pc.toNat .bad ≠ .callpc := by
    intro hc
    by_cases hlt : lo.pc.toNat < d.size
    · have hget : d[lo.pc.toNat]? = some .callpc := by
        rw [Array.getElem?_eq_getElem hlt]
        have : d.getD lo.pc.toNat .bad = d[lo.pc.toNat] := by simp [Array.getD, hlt]
        rw [← this, hc]
      exact (S.noclo _ _ hget).2.1 rfl
    · have : d.getD lo.pc.toNat .bad = .bad := by simp [Array.getD, hlt]
      rw [this] at hc
      cases hc
  have hP := stepE_param d x hl he hnc hE
  have hpcm : lm.pc = lo.pc := by rw [hl.rest]
  have hT := step_sim S x hI
  unfold StepOut at hT
  have hto : tickAt d lm = tickAt c lo := by
    rw [← tickAt_code_local c d lo hs hi]
    unfold tickAt; rw [hpcm]
  have htp : tickAt d' lp = tickAt c' lp := tickAt_code_local c' d' lp hs' hi'
  rw [hto, htp] at hT
  rw [← stepE_code_local c d x lo eo hs hi]
  rw [← stepE_code_local c' d' x lp ep hs' hi']
  cases h1 : stepE d x lo eo with
  | fin o ef =>
    cases h2 : stepE d x lm em with
    | cont _ _ => rw [h1, h2] at hP; exact hP.elim
    | fin om efm =>
      rw [h1, h2] at hP
      rw [h2] at hT
      obtain ⟨ho, hef⟩ := hP
      simp only
      intro hp
      obtain ⟨ef', hstep, hF, ht⟩ := hT (outR_proper ho hp)
      exact ⟨om, ef', hstep, ho, ⟨efm, hef, hF⟩, ht⟩
  | cont lo1 eo1 =>
    cases h2 : stepE d x lm em with
    | fin _ _ => rw [h1, h2] at hP; exact hP.elim
    | cont lm1 em1 =>
      rw [h1, h2] at hP
      rw [h2] at hT
      obtain ⟨hl1, he1⟩ := hP
      simp only
      rcases hT with ⟨lp1, ep1, hstep, hI1, ht⟩ | ⟨hI1, ht⟩
      · exact .inl ⟨lp1, ep1, hstep, ⟨lm1, em1, hl1, he1, hI1⟩, ht⟩
      · exact .inr ⟨⟨lm1, em1, hl1, he1, hI1⟩, ht⟩

end Gojq.TailVM

namespace Gojq.TailVM
open Gojq Gojq.VM Gojq.OptVM Gojq.CloParam

/-! ## `pushpc` -/

/-- the invariant of the closure-free proof does not look at the CONTENTS of the data stack (it only
    says that the two runs have the same one) -/
theorem Inv.setStack {d d' : Array Instr} {lo lp : L} {eo ep : Env} (h : Inv d d' lo lp eo ep) (st : Stack V) :
    Inv d d' lo lp { eo with stack := st } { ep with stack := st } := by
  obtain ⟨h1, h2, h3⟩ := h.rel
  refine ⟨⟨?_, h2, ⟨h3.off, h3.frames, h3.forks⟩⟩, h.bt, h.err, ?_, h.btpc, h.ne⟩
  · have e1 : ep.pc = eo.pc := by rw [h1]
    have e2 : ep.backtrack = eo.backtrack := by rw [h1]
    have e3 : ep.paths = eo.paths := by rw [h1]
    have e4 : ep.values = eo.values := by rw [h1]
    have e5 : ep.offset = eo.offset := by rw [h1]
    have e6 : ep.expdepth = eo.expdepth := by rw [h1]
    have e7 : ep.label = eo.label := by rw [h1]
    show ({ ep with stack := st } : Env) = { eo with stack := st, scopes := ep.scopes, forks := ep.forks }
    rw [Env.mk.injEq]
    exact ⟨e1, e2, rfl, e3, rfl, e4, rfl, e5, e6, e7⟩
  · cases h.mode with
    | sync hs hse =>
      exact .sync hs (fun ha => ⟨(hse ha).io, (hse ha).ip, (hse ha).cp, (hse ha).kept, (hse ha).nonneg, (hse ha).bot⟩)
    | detour a b c => exact .detour a b c
    | callmid i j id a1 a2 a3 a4 a5 a6 a7 a8 a9 a10 => exact .callmid i j id a1 a2 a3 a4 a5 a6 a7 a8 a9 a10

theorem exec_pushpc_eq (t : Int) (x : ExtRec) (l : L) (e : Env) :
    exec (.pushpc t) x l e = .ok (.fall, l) { e with stack := e.stack.push (.clo t e.scopes.index) } := rfl

theorem exec_push_eq (v : JV) (x : ExtRec) (l : L) (e : Env) :
    exec (.push v) x l e = .ok (.fall, l) { e with stack := e.stack.push (.jv v) } := rfl

theorem push_index_ne (s : Stack V) (v : V) : (s.push v).index ≠ s.index := by
  unfold Stack.push
  simp only
  split <;> simp only <;> omega

/-- THE `pushpc` TURN.  Both runs push the closure of their own top frame — different values, related by
    `PRel` — and stay related. -/
theorem pushpc_turn_closures {c c' d d' : Array Instr} (S : TailStatic d d') (x : ExtRec) {lo lp : L} {eo ep : Env}
    (h : CInv d d' lo lp eo ep) (t : Int) (h0 : 0 ≤ lo.pc) (hc : c[lo.pc.toNat]? = some (.pushpc t))
    (hc' : c'[lo.pc.toNat]? = some (.pushpc t)) (hd : d[lo.pc.toNat]? = some (.push .null)) :
    ∃ lo1 eo1 lp1 ep1, stepE c x lo eo = .cont lo1 eo1 ∧ stepE c' x lp ep = .cont lp1 ep1 ∧
      CInv d d' lo1 lp1 eo1 ep1 ∧ tickAt c' lp = 0 := by
  obtain ⟨lm, em, hl, he, hI⟩ := h
  have hpcm : lm.pc = lo.pc := by rw [hl.rest]
  have hdm : d[lm.pc.toNat]? = some (.push .null) := by rw [hpcm]; exact hd
  have hsync : lm.pc = lp.pc := by
    cases hI.mode with
    | sync h _ => exact h
    | detour _ _ hj =>
      exfalso
      cases hj with
      | ret _ hr => rw [hdm] at hr; cases hr
      | jump _ hjj _ => rw [hdm] at hjj; cases hjj
    | callmid i j id _ _ _ _ hsc hpc _ _ _ _ =>
      exfalso
      rw [← hpc, hdm] at hsc
      cases hsc
  have hd' : d'[lp.pc.toNat]? = some (.push .null) := by
    rw [← hsync]; exact S.same hdm (by intro j h; cases h)
  have hstack : ep.stack = em.stack := by rw [hI.rel.1]
  have h0m : 0 ≤ lm.pc := by rw [hpcm]; exact h0
  have h0p : 0 ≤ lp.pc := by rw [← hsync]; exact h0m
  -- the runs of the stripped codes
  have hT := step_sim S x hI
  unfold StepOut at hT
  rw [stepE_at d x lm em _ h0m hdm, exec_push_eq] at hT
  simp only [contOf] at hT
  rw [stepE_at d' x lp ep _ h0p hd', exec_push_eq] at hT
  simp only [contOf] at hT
  have hI1 : Inv d d' { lm with pc := lm.pc + 1 } { lp with pc := lp.pc + 1 }
      { em with stack := em.stack.push (.jv .null) } { ep with stack := ep.stack.push (.jv .null) } := by
    rcases hT with ⟨lp1, ep1, hstep, hI1, _⟩ | ⟨hI1, _⟩
    · simp only [StepE.cont.injEq] at hstep
      obtain ⟨rfl, rfl⟩ := hstep
      exact hI1
    · exfalso
      have : ep.stack = (em.stack.push (.jv .null)) := by rw [hI1.rel.1]
      rw [hstack] at this
      exact push_index_ne em.stack (.jv .null) (by rw [← this])
  have hI2 := hI1.setStack (em.stack.push (.clo t ep.scopes.index))
  -- the runs of the codes
  have hpo : c'[lp.pc.toNat]? = some (.pushpc t) := by rw [← hsync, hpcm]; exact hc'
  refine ⟨{ lo with pc := lo.pc + 1 }, { eo with stack := eo.stack.push (.clo t eo.scopes.index) },
    { lp with pc := lp.pc + 1 }, { ep with stack := ep.stack.push (.clo t ep.scopes.index) }, ?_, ?_, ?_, ?_⟩
  · rw [stepE_at c x lo eo _ h0 hc, exec_pushpc_eq]; rfl
  · rw [stepE_at c' x lp ep _ h0p hpo, exec_pushpc_eq]; rfl
  rotate_left
  · rw [tickAt_at c' lp _ h0p hpo]; rfl
  · refine ⟨{ lm with pc := lm.pc + 1 }, { em with stack := em.stack.push (.clo t ep.scopes.index) }, ?_, ?_, ?_⟩
    · obtain ⟨pc, cp, ix, bt, er, er', rfl, rfl, herr⟩ := hl.elim
      exact LR.mk' herr
    · exact he.mk_stack (he.stack.push (.clo t _ _))
    · rw [hstack]
      exact hI2

end Gojq.TailVM

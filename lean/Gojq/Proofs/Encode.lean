/- Helper lemmas for C12 (encoders). Core Lean only. -/
import Gojq.Model.Encode
namespace Gojq.Encode
open Gojq

/-! ### the block-doubling indentation loop -/
namespace Cli

theorem take_replicate_append {α} (l k : Nat) (u : α) (t : List α) (h : l ≤ k) :
    (List.replicate k u ++ t).take l = List.replicate l u := by
  rw [List.take_append_of_le_length (by simp; exact h)]
  simp [List.take_replicate, Nat.min_eq_left h]

/-- loop invariant: the buffer ends with at least `l` units (`k ≥ l` of them); then the loop
    appends exactly `n` more -/
theorem indentLoop_spec (u : UInt8) : ∀ (fuel n l k : Nat) (wr0 : Bytes),
    n ≤ fuel → 1 ≤ l → l ≤ k →
    indentLoop fuel n l (List.replicate k u ++ wr0) = List.replicate n u ++ (List.replicate k u ++ wr0) := by
  intro fuel
  induction fuel with
  | zero => intro n l k wr0 hn _ _; have : n = 0 := by omega
            subst this; simp [indentLoop]
  | succ fuel ih =>
    intro n l k wr0 hn hl hk
    unfold indentLoop
    by_cases h0 : n > 0
    · simp only [h0, if_true]
      generalize hl' : (if n < l then n else l) = l'
      have h1 : 1 ≤ l' := by rw [← hl']; split <;> omega
      have h2 : l' ≤ k := by rw [← hl']; split <;> omega
      have h3 : l' ≤ n := by rw [← hl']; split <;> omega
      rw [take_replicate_append l' k u wr0 h2]
      rw [← List.append_assoc, List.replicate_append_replicate]
      rw [ih (n - l') (l' * 2) (l' + k) wr0 (by omega) (by omega) (by omega)]
      simp only [← List.append_assoc, List.replicate_append_replicate]
      congr 2; omega
    · have : n = 0 := by omega
      subst this; simp

/-- `writeIndentInternal` puts exactly `n` units on the buffer, for every `n` and every
    non-empty constant block -/
theorem writeIndentInternal_spec (u : UInt8) (n L : Nat) (wr : Bytes) (hL : 1 ≤ L) :
    writeIndentInternal n (List.replicate L u) wr = List.replicate n u ++ wr := by
  unfold writeIndentInternal
  simp only [List.length_replicate]
  split
  · rename_i h
    simp [List.take_replicate, Nat.min_eq_left h]
  · rename_i h
    simp only [List.reverse_replicate]
    rw [indentLoop_spec u n (n - L) L L wr (by omega) hL (Nat.le_refl _)]
    simp only [← List.append_assoc, List.replicate_append_replicate]
    congr 2; omega

/-! ### the buffer machine produces the pure layout -/

@[simp] theorem Buf.total_write (b : Buf) (bs : Bytes) : (b.write bs).total = b.total ++ bs := by
  simp [Buf.write, Buf.total, List.reverse_append]

@[simp] theorem Buf.total_flush (b : Buf) : b.flush.total = b.total := by
  simp [Buf.flush, Buf.total]

@[simp] theorem total_checkFlush (b : Buf) : (checkFlush b).total = b.total := by
  unfold checkFlush; split <;> simp

@[simp] theorem total_writeCol (b : Buf) (bs : Bytes) (c : Option Bytes) :
    (writeCol b bs c).total = b.total ++ tok bs c := by
  cases c <;> simp [writeCol, tok]

theorem block_eq (o : Opts) : o.block = List.replicate (if o.tab then 16 else 32) o.unit := by
  unfold Opts.block Opts.unit; split <;> simp

/-- `writeIndent` at `e.depth = depth` appends a newline and exactly `depth` units -/
theorem total_writeIndent (o : Opts) (depth : Int) (b : Buf) :
    (writeIndent o depth b).total = b.total ++ cNl :: List.replicate depth.toNat o.unit := by
  unfold writeIndent
  simp only []
  split
  · rw [block_eq, writeIndentInternal_spec _ _ _ _ (by split <;> omega)]
    simp [Buf.total, Buf.write, List.reverse_append]
  · rename_i h
    have : depth.toNat = 0 := by omega
    simp [this]

theorem toNat_level_mul (level : Nat) (i : Int) (h : i ≥ 0) : ((level : Int) * i).toNat = level * i.toNat := by
  obtain ⟨k, rfl⟩ := Int.eq_ofNat_of_zero_le h
  rw [← Int.natCast_mul]; exact Int.toNat_natCast _

theorem total_writeIndent_level (o : Opts) (level : Nat) (b : Buf) (h : o.indent ≥ 0) :
    (writeIndent o ((level : Int) * o.indent) b).total = b.total ++ newline o level := by
  rw [total_writeIndent, toNat_level_mul _ _ h]; simp [newline, h]

theorem depth_succ (level : Nat) (i : Int) : (level : Int) * i + i = ((level + 1 : Nat) : Int) * i := by
  rw [Int.natCast_add, Int.add_mul]; simp

theorem newline_neg (o : Opts) (level : Nat) (h : ¬ o.indent ≥ 0) : newline o level = [] := by
  simp [newline, h]

mutual
  theorem enc_total (o : Opts) (level : Nat) : ∀ (v : JV) (b : Buf),
      (enc o ((level : Int) * o.indent) v b).total = b.total ++ render o level v
    | .null, b => by simp [enc, render]
    | .bool true, b => by simp [enc, render]
    | .bool false, b => by simp [enc, render]
    | .num n, b => by simp [enc, render]
    | .str s, b => by simp [enc, render]
    | .arr xs, b => by
      have ih := encElems_total o (level + 1) xs true
      rw [← depth_succ] at ih
      simp only [enc, render]
      rw [total_checkFlush, total_writeCol]
      by_cases hi : o.indent ≥ 0
      · cases xs with
        | nil => simp [encElems, renderElems]
        | cons x xs => simp [hi, total_writeIndent_level, ih]
      · simp [hi, newline_neg, ih]
    | .obj kvs, b => by
      have ih := encMembers_total o (level + 1) kvs true
      rw [← depth_succ] at ih
      simp only [enc, render]
      rw [total_checkFlush, total_writeCol]
      by_cases hi : o.indent ≥ 0
      · cases kvs with
        | nil => simp [encMembers, renderMembers]
        | cons x xs => simp [hi, total_writeIndent_level, ih]
      · simp [hi, newline_neg, ih]
  theorem encElems_total (o : Opts) (level : Nat) : ∀ (xs : List JV) (first : Bool) (b : Buf),
      (encElems o ((level : Int) * o.indent) xs first b).total = b.total ++ renderElems o level xs first
    | [], _, b => by simp [encElems, renderElems]
    | x :: xs, first, b => by
      simp only [encElems, renderElems]
      rw [encElems_total o level xs false, enc_total o level x]
      by_cases hi : o.indent ≥ 0 <;> cases first <;> simp [hi, total_writeIndent_level, newline_neg]
  theorem encMembers_total (o : Opts) (level : Nat) : ∀ (kvs : List (Bytes × JV)) (first : Bool) (b : Buf),
      (encMembers o ((level : Int) * o.indent) kvs first b).total = b.total ++ renderMembers o level kvs first
    | [], _, b => by simp [encMembers, renderMembers]
    | (k, x) :: xs, first, b => by
      simp only [encMembers, renderMembers]
      rw [encMembers_total o level xs false, enc_total o level x]
      by_cases hi : o.indent ≥ 0 <;> cases first <;> simp [hi, total_writeIndent_level, newline_neg]
end

/-- the chunks written by `marshal` concatenate to the layout `render` -/
theorem encodeCli_eq_render (o : Opts) (v : JV) : encodeCli o v = render o 0 v := by
  have h := enc_total o 0 v Buf.empty
  simp only [Int.natCast_zero, Int.zero_mul] at h
  unfold encodeCli marshalChunks
  have : ∀ b : Buf, b.flush.out.flatten = b.total := by intro b; simp [Buf.flush, Buf.total]
  rw [this, h]; simp [Buf.total, Buf.empty]

end Cli
end Gojq.Encode

/-
  C04, the tail-call pass on programs WITH closures: the turn diagrams of Proofs/TailClosTurn.lean for
  the codes themselves (`c` shape-checked, `c'` the pass output without `callrec`), through the
  stripped codes of Proofs/TailClosStrip.lean.
-/
import Gojq.Proofs.TailClosTurn
import Gojq.Proofs.TailClosStrip
import Gojq.Proofs.TailSimRun
set_option linter.unusedSimpArgs false
set_option linter.unusedVariables false
namespace Gojq.TailVM
open Gojq Gojq.VM Gojq.OptVM Gojq.CloParam

/-- every turn at an instruction other than `pushpc` / `callpc` -/
theorem turn_closures {c c' : Array Instr} (hshape : tailShapeCheck c = true) (hopt : optTailV c = some c')
    (hnc : noCallrec c' = true) (x : ExtRec) {lo lp : L} {eo ep : Env}
    (h : CInv (c.map strip) (c'.map strip) lo lp eo ep)
    (hk : kept (c.getD lo.pc.toNat .bad) = true) (hk' : kept (c'.getD lp.pc.toNat .bad) = true)
    (hE : ∀ n p i, lo.err ≠ some (.brk n (.clo p i))) :
    match stepE c x lo eo with
    | .fin o ef => o.proper = true →
        ∃ o' ef', stepE c' x lp ep = .fin o' ef' ∧ OutR o o' ∧ CFRel (c.map strip) (c'.map strip) ef ef' ∧
          tickAt c lo = tickAt c' lp
    | .cont lo1 eo1 =>
      (∃ lp1 ep1, stepE c' x lp ep = .cont lp1 ep1 ∧ CInv (c.map strip) (c'.map strip) lo1 lp1 eo1 ep1 ∧
        tickAt c lo = tickAt c' lp) ∨
      (CInv (c.map strip) (c'.map strip) lo1 lp eo1 ep ∧ tickAt c lo = 0) :=
  step_sim_closures (tailStatic_strip hshape hopt hnc) (by simp) (by simp) x h
    (strip_getD_kept c _ hk) (strip_getD_kept c' _ hk') hE

/-- the turn at a `pushpc` -/
theorem pushpc_closures {c c' : Array Instr} (hshape : tailShapeCheck c = true) (hopt : optTailV c = some c')
    (hnc : noCallrec c' = true) (x : ExtRec) {lo lp : L} {eo ep : Env}
    (h : CInv (c.map strip) (c'.map strip) lo lp eo ep) (t : Int) (h0 : 0 ≤ lo.pc)
    (hc : c[lo.pc.toNat]? = some (.pushpc t)) :
    ∃ lo1 eo1 lp1 ep1, stepE c x lo eo = .cont lo1 eo1 ∧ stepE c' x lp ep = .cont lp1 ep1 ∧
      CInv (c.map strip) (c'.map strip) lo1 lp1 eo1 ep1 ∧ tickAt c lo = 0 ∧ tickAt c' lp = 0 := by
  have hs := shapeOK_of_check hshape
  obtain ⟨_, hsite⟩ := optTailV_spec hs.fwd hopt
  have hc' : c'[lo.pc.toNat]? = some (.pushpc t) := by
    rcases hsite _ _ hc with h1 | ⟨j, id, v, h1, _⟩
    · exact h1
    · cases h1
  obtain ⟨lo1, eo1, lp1, ep1, s1, s2, hC, ht⟩ :=
    pushpc_turn_closures (tailStatic_strip hshape hopt hnc) x h t h0 hc hc' (get_strip hc)
  exact ⟨lo1, eo1, lp1, ep1, s1, s2, hC, by rw [tickAt_at c lo _ h0 hc]; rfl, ht⟩

/-- the initial states of `execute` are related -/
theorem initSt_cfrel (c c' : Array Instr) (input : V) (vars : List V) :
    CFRel (c.map strip) (c'.map strip) (initSt input vars).env (initSt input vars).env :=
  ⟨_, PRel.refl _, (initSt_frel _ _ input vars).1⟩

/-- at `Next`'s entry, related environments give related locals -/
theorem entry_cinv {c c' : Array Instr} (hshape : tailShapeCheck c = true) (hopt : optTailV c = some c')
    (hnc : noCallrec c' = true) (ext : Nat → ExtRec) {s s' : St}
    (h : CFRel (c.map strip) (c'.map strip) s.env s'.env) :
    CInv (c.map strip) (c'.map strip) (entry ⟨c, never, ext⟩ s) (entry ⟨c', never, ext⟩ s') s.env s'.env := by
  obtain ⟨em, he, hF⟩ := h
  have S := tailStatic_strip hshape hopt hnc
  have hI := entry_inv S ext (s := ⟨em, s.polls⟩) (s' := s') hF
  refine ⟨entry ⟨c.map strip, never, ext⟩ ⟨em, s.polls⟩, em, ?_, he, ?_⟩
  · have e1 : em.pc = s.env.pc := by rw [he.rest]
    have e2 : em.backtrack = s.env.backtrack := by rw [he.rest]
    refine ⟨trivial, ?_⟩
    show entry ⟨c.map strip, never, ext⟩ ⟨em, s.polls⟩ = { entry ⟨c, never, ext⟩ s with err := none }
    unfold entry
    simp only [Array.size_map, e1, e2]
  · have e3 : entry ⟨c'.map strip, never, ext⟩ s' = entry ⟨c', never, ext⟩ s' := by
      unfold entry; simp only [Array.size_map]
    rw [← e3]; exact hI

/-- the pass leaves every instruction that is not a `call` alone -/
theorem optTailV_getD {c c' : Array Instr} (hshape : tailShapeCheck c = true) (hopt : optTailV c = some c')
    (i : Nat) (hn : ∀ j, c.getD i .bad ≠ .call j) : c'.getD i .bad = c.getD i .bad := by
  have hs := shapeOK_of_check hshape
  obtain ⟨hsize, hsite⟩ := optTailV_spec hs.fwd hopt
  rw [getD_eq, getD_eq]
  rw [getD_eq] at hn
  cases hc : c[i]? with
  | none =>
    have : c'[i]? = none := by
      rw [Array.getElem?_eq_none_iff] at hc ⊢
      omega
    rw [this]
  | some a =>
    rw [hc] at hn
    rcases hsite i a hc with h1 | ⟨j, id, v, h1, _⟩
    · rw [h1]
    · exact absurd h1 (hn j)

end Gojq.TailVM

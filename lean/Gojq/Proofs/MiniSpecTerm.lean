/-
  Helper lemmas for Props/C01Tie.lean, part 7: the mini reference evaluator completes on every
  query without function calls, with fuel above the nesting depth of the query (every loop of the
  fragment — `.[]`, `reduce`, `foreach` — runs over the finitely many outputs of a sub-query).  For
  such programs the termination hypothesis `ND (miniRun …)` of the tie is discharged.
  Core Lean only.
-/
import Gojq.Proofs.MiniSpecProg
namespace Gojq.MiniSpec
open Gojq Gojq.MiniVM

attribute [local instance] specMsg

mutual
/-- nesting depth -/
def qDepth : Q → Nat
  | .pipe a b => max (qDepth a) (qDepth b) + 1
  | .comma a b => max (qDepth a) (qDepth b) + 1
  | .arr q => qDepth q + 1
  | .call1 _ a => qDepth a + 1
  | .try_ b => qDepth b + 1
  | .tryCatch b h => max (qDepth b) (qDepth h) + 1
  | .ite c a b => max (qDepth c) (max (qDepth a) (qDepth b)) + 1
  | .alt l r => max (qDepth l) (qDepth r) + 1
  | .bind _ s b => max (qDepth s) (qDepth b) + 1
  | .reduce _ src init upd => max (qDepth src) (max (qDepth init) (qDepth upd)) + 1
  | .foreach _ src init upd ext => max (max (qDepth src) (qDepth init)) (max (qDepth upd) (qDepth ext)) + 1
  | .delay q => qDepth q + 1
  | .obj sp => spineDepth sp + 1
  | _ => 0
/-- … of the keys and values of a spine -/
def spineDepth : Q → Nat
  | .objSnoc init k v => max (spineDepth init) (max (qDepth k) (qDepth v))
  | .objSnocC init _ v => max (spineDepth init) (qDepth v)
  | _ => 0
end

theorem nd_done : ND MiniVM.Stop.done := trivial
theorem nd_err (e : MiniVM.Err) : ND (MiniVM.Stop.err e) := trivial

theorem bindL_nd {f : V → MiniVM.Res} (hf : ∀ x, ND (f x).stop) : ∀ (xs : List V) (st : MiniVM.Stop), ND st →
    ND (Res.bindL f xs st).stop
  | [], st, h => h
  | x :: xs, st, h => by
    have hx := hf x
    have ih := bindL_nd hf xs st h
    unfold Res.bindL
    rcases hfx : f x with ⟨o, s⟩
    rw [hfx] at hx
    cases s with
    | done => exact ih
    | err e => trivial
    | diverge => exact absurd hx (by simp [ND])

theorem guardND_nd_of {r k : MiniVM.Res} (hr : ND r.stop) (hk : ND k.stop) : ND (guardND r k).stop := by
  unfold guardND
  cases h : r.stop with
  | diverge => rw [h] at hr; exact absurd hr (by simp [ND])
  | _ => exact hk

theorem seq_nd_of {m1 m2 : MiniVM.Res} (h1 : ND m1.stop) (h2 : ND m2.stop) : ND (m1.seq m2).stop := by
  rcases m1 with ⟨o, s⟩
  cases s with
  | done => exact h2
  | err e => trivial
  | diverge => exact absurd h1 (by simp [ND])

theorem arrM_nd_of {m : MiniVM.Res} (h : ND m.stop) : ND (arrM m).stop := by
  rcases m with ⟨o, s⟩
  cases s with
  | done => trivial
  | err e => trivial
  | diverge => exact absurd h (by simp [ND])

theorem tryM_nd_of {m : MiniVM.Res} (h : ND m.stop) : ND (tryM m).stop := by
  rcases m with ⟨o, s⟩
  cases s with
  | done => trivial
  | err e => trivial
  | diverge => exact absurd h (by simp [ND])

theorem tryCatchM_nd_of {hm : V → MiniVM.Res} {m : MiniVM.Res} (h : ND m.stop) (hh : ∀ x, ND (hm x).stop) :
    ND (tryCatchM hm m).stop := by
  rcases m with ⟨o, s⟩
  cases s with
  | done => trivial
  | err e => exact hh _
  | diverge => exact absurd h (by simp [ND])

theorem altM_nd_of {ml mr : MiniVM.Res} (hl : ND ml.stop) (hr : ND mr.stop) : ND (altM ml mr).stop := by
  unfold altM
  cases h : ml.stop with
  | diverge => rw [h] at hl; exact absurd hl (by simp [ND])
  | err e => trivial
  | done =>
    simp only
    split
    · exact hr
    · trivial

theorem reduceL_nd {upd : V → V → MiniVM.Res} (hu : ∀ w s, ND (upd w s).stop) {final : MiniVM.Stop} (hf : ND final) :
    ∀ (ws : List V) (s : V), ND (reduceL upd final ws s).stop
  | [], s => by
    unfold reduceL
    cases final with
    | done => trivial
    | err e => trivial
    | diverge => exact absurd hf (by simp [ND])
  | w :: ws, s => by
    have hw := hu w s
    unfold reduceL
    rcases hws : upd w s with ⟨o, st⟩
    rw [hws] at hw
    cases st with
    | done => exact reduceL_nd hu hf ws _
    | err e => trivial
    | diverge => exact absurd hw (by simp [ND])

theorem foreachL_nd {upd ext : V → V → MiniVM.Res} (hu : ∀ w s, ND (upd w s).stop) (he : ∀ w s, ND (ext w s).stop)
    {final : MiniVM.Stop} (hf : ND final) : ∀ (ws : List V) (s : V), ND (foreachL upd ext final ws s).stop
  | [], s => hf
  | w :: ws, s => by
    unfold foreachL
    exact guardND_nd_of (hu w s)
      (seq_nd_of (bindL_nd (he w) _ _ (hu w s)) (foreachL_nd hu he hf ws _))

/-- every key and value of the entries completes -/
def EntriesND (ev : Q → V → MiniVM.Res) (es : List (EKey × Q)) : Prop :=
  ∀ kv ∈ es, (match kv.1 with | .q k => ∀ x, ND (ev k x).stop | .c _ => True) ∧ ∀ x, ND (ev kv.2 x).stop

theorem objOfPairs_nd (acc : List (V × V)) : ND (objOfPairs acc).stop := by
  unfold objOfPairs; split <;> trivial

theorem evalEntries_nd {ev : Q → V → MiniVM.Res} {x : V} : ∀ (es : List (EKey × Q)) (acc : List (V × V)),
    EntriesND ev es → ND (evalEntries ev x es acc).stop
  | [], acc, _ => objOfPairs_nd acc
  | (.q k, v) :: rest, acc, h => by
    have hk := (h (.q k, v) (by simp)).1 x
    have hv := (h (.q k, v) (by simp)).2 x
    simp only [evalEntries, bindG_eq_guardND]
    exact guardND_nd_of hk (bindL_nd (fun kk => guardND_nd_of hv
      (bindL_nd (fun vv => evalEntries_nd rest _ (fun kv hm => h kv (by simp [hm]))) _ _ hv)) _ _ hk)
  | (.c key, v) :: rest, acc, h => by
    have hv := (h (.c key, v) (by simp)).2 x
    simp only [evalEntries, bindG_eq_guardND]
    exact guardND_nd_of hv (bindL_nd (fun vv => evalEntries_nd rest _ (fun kv hm => h kv (by simp [hm]))) _ _ hv)

mutual
/-- without function calls (and outside any function: no closure) the mini evaluator completes
    with any fuel above the nesting depth -/
theorem eval_nd_of_callfree (defs : Name → Q) : ∀ (q : Q) (n : Nat) (g : Ctx) (vars : List (Nat × V)) (v : V),
    callsBelow 0 q = true → qDepth q < n → ND (eval defs n g ⟨.none, vars⟩ q v).stop
  | q, 0, _, _, _, _, h => by omega
  | .id, n+1, _, _, _, _, _ => trivial
  | .const _, n+1, _, _, _, _, _ => trivial
  | .empty, n+1, _, _, _, _, _ => trivial
  | .error, n+1, _, _, _, _, _ => trivial
  | .param, n+1, _, _, _, _, _ => trivial
  | .iter, n+1, g, vars, v, _, _ => by
    show ND (match iterItems v with
      | some xs => (⟨xs, .done⟩ : MiniVM.Res)
      | none => ⟨[], .err (.notIter v)⟩).stop
    cases iterItems v <;> trivial
  | .index k, n+1, g, vars, v, _, _ => by
    show ND (match IterMsg.index v k with
      | some w => (⟨[w], .done⟩ : MiniVM.Res)
      | none => ⟨[], .err (.idx v k)⟩).stop
    cases IterMsg.index v k <;> trivial
  | .var x, n+1, g, vars, v, _, _ => by
    show ND (match MiniVM.lookup x vars with
      | some w => (⟨[w], .done⟩ : MiniVM.Res)
      | none => ⟨[], .err (.noVar x)⟩).stop
    cases MiniVM.lookup x vars <;> trivial
  | .call1 f a, n+1, _, _, _, hc, _ => by simp [callsBelow] at hc
  | .obj sp, n+1, g, vars, v, hc, hd => by
    simp only [callsBelow] at hc
    simp only [qDepth] at hd
    show ND (evalEntries (fun q x => eval defs n g ⟨.none, vars⟩ q x) v sp.entries []).stop
    exact evalEntries_nd _ _ (spine_nd_of_callfree defs sp n g vars hc (by omega))
  | .objStart, n+1, _, _, _, hc, _ => by simp [callsBelow] at hc
  | .objSnoc _ _ _, n+1, _, _, _, hc, _ => by simp [callsBelow] at hc
  | .objSnocC _ _ _, n+1, _, _, _, hc, _ => by simp [callsBelow] at hc
  | .delay q, n+1, g, vars, v, hc, hd => by
    simp only [callsBelow] at hc
    simp only [qDepth] at hd
    exact eval_nd_of_callfree defs q n g vars v hc (by omega)
  | .pipe a b, n+1, g, vars, v, hc, hd => by
    simp only [callsBelow, Bool.and_eq_true] at hc
    simp only [qDepth] at hd
    exact guardND_nd_of (eval_nd_of_callfree defs a n g vars v hc.1 (by omega))
      (bindL_nd (fun x => eval_nd_of_callfree defs b n g vars x hc.2 (by omega)) _ _
        (eval_nd_of_callfree defs a n g vars v hc.1 (by omega)))
  | .comma a b, n+1, g, vars, v, hc, hd => by
    simp only [callsBelow, Bool.and_eq_true] at hc
    simp only [qDepth] at hd
    have hm : eval defs (n+1) g ⟨.none, vars⟩ (.comma a b) v =
        (eval defs n g ⟨.none, vars⟩ a v).seq (eval defs n g ⟨.none, vars⟩ b v) := by
      show (match eval defs n g ⟨.none, vars⟩ a v with
        | ⟨o, .done⟩ => let rb := eval defs n g ⟨.none, vars⟩ b v; (⟨o ++ rb.outs, rb.stop⟩ : MiniVM.Res)
        | r => r) = _
      rcases eval defs n g ⟨.none, vars⟩ a v with ⟨o, st⟩
      cases st <;> rfl
    rw [hm]
    exact seq_nd_of (eval_nd_of_callfree defs a n g vars v hc.1 (by omega))
      (eval_nd_of_callfree defs b n g vars v hc.2 (by omega))
  | .arr a, n+1, g, vars, v, hc, hd => by
    simp only [callsBelow] at hc
    simp only [qDepth] at hd
    exact arrM_nd_of (eval_nd_of_callfree defs a n g vars v hc (by omega))
  | .try_ a, n+1, g, vars, v, hc, hd => by
    simp only [callsBelow] at hc
    simp only [qDepth] at hd
    exact tryM_nd_of (eval_nd_of_callfree defs a n g vars v hc (by omega))
  | .tryCatch a h, n+1, g, vars, v, hc, hd => by
    simp only [callsBelow, Bool.and_eq_true] at hc
    simp only [qDepth] at hd
    exact tryCatchM_nd_of (eval_nd_of_callfree defs a n g vars v hc.1 (by omega))
      (fun x => eval_nd_of_callfree defs h n g vars x hc.2 (by omega))
  | .ite c a e, n+1, g, vars, v, hc, hd => by
    simp only [callsBelow, Bool.and_eq_true] at hc
    simp only [qDepth] at hd
    have hcnd := eval_nd_of_callfree defs c n g vars v hc.1.1 (by omega)
    refine guardND_nd_of hcnd (bindL_nd (fun w => ?_) _ _ hcnd)
    split
    · exact eval_nd_of_callfree defs e n g vars v hc.2 (by omega)
    · exact eval_nd_of_callfree defs a n g vars v hc.1.2 (by omega)
  | .alt l r, n+1, g, vars, v, hc, hd => by
    simp only [callsBelow, Bool.and_eq_true] at hc
    simp only [qDepth] at hd
    exact altM_nd_of (eval_nd_of_callfree defs l n g vars v hc.1 (by omega))
      (eval_nd_of_callfree defs r n g vars v hc.2 (by omega))
  | .bind x s b, n+1, g, vars, v, hc, hd => by
    simp only [callsBelow, Bool.and_eq_true] at hc
    simp only [qDepth] at hd
    have hs := eval_nd_of_callfree defs s n g vars v hc.1 (by omega)
    exact guardND_nd_of hs
      (bindL_nd (fun w => eval_nd_of_callfree defs b n g ((x, w) :: vars) v hc.2 (by omega)) _ _ hs)
  | .reduce x src init upd, n+1, g, vars, v, hc, hd => by
    simp only [callsBelow, Bool.and_eq_true] at hc
    simp only [qDepth] at hd
    have hi := eval_nd_of_callfree defs init n g vars v hc.1.2 (by omega)
    have hs := eval_nd_of_callfree defs src n g vars v hc.1.1 (by omega)
    refine guardND_nd_of hi (bindL_nd (fun s0 => guardND_nd_of hs ?_) _ _ hi)
    exact reduceL_nd (fun w st => eval_nd_of_callfree defs upd n g ((x, w) :: vars) st hc.2 (by omega)) hs _ _
  | .foreach x src init upd ext, n+1, g, vars, v, hc, hd => by
    simp only [callsBelow, Bool.and_eq_true] at hc
    simp only [qDepth] at hd
    have hi := eval_nd_of_callfree defs init n g vars v hc.1.1.2 (by omega)
    have hs := eval_nd_of_callfree defs src n g vars v hc.1.1.1 (by omega)
    refine guardND_nd_of hi (bindL_nd (fun s0 => guardND_nd_of hs ?_) _ _ hi)
    exact foreachL_nd (fun w st => eval_nd_of_callfree defs upd n g ((x, w) :: vars) st hc.1.2 (by omega))
      (fun w u => eval_nd_of_callfree defs ext n g ((x, w) :: vars) u hc.2 (by omega)) hs _ _

/-- … and so do the keys and values of a call-free spine -/
theorem spine_nd_of_callfree (defs : Name → Q) : ∀ (sp : Q) (n : Nat) (g : Ctx) (vars : List (Nat × V)),
    spineCallsBelow 0 sp = true → spineDepth sp < n →
    EntriesND (fun q x => eval defs n g ⟨.none, vars⟩ q x) sp.entries
  | .objStart, _, _, _, _, _ => by intro kv h; simp [Q.entries] at h
  | .objSnoc init k v, n, g, vars, hc, hd => by
    simp only [spineCallsBelow, Bool.and_eq_true] at hc
    simp only [spineDepth] at hd
    intro kv hkv
    simp only [Q.entries, List.mem_append, List.mem_singleton] at hkv
    rcases hkv with hkv | rfl
    · exact spine_nd_of_callfree defs init n g vars hc.1.1 (by omega) kv hkv
    · exact ⟨fun x => eval_nd_of_callfree defs k n g vars x hc.1.2 (by omega),
        fun x => eval_nd_of_callfree defs v n g vars x hc.2 (by omega)⟩
  | .objSnocC init key v, n, g, vars, hc, hd => by
    simp only [spineCallsBelow, Bool.and_eq_true] at hc
    simp only [spineDepth] at hd
    intro kv hkv
    simp only [Q.entries, List.mem_append, List.mem_singleton] at hkv
    rcases hkv with hkv | rfl
    · exact spine_nd_of_callfree defs init n g vars hc.1 (by omega) kv hkv
    · exact ⟨trivial, fun x => eval_nd_of_callfree defs v n g vars x hc.2 (by omega)⟩
  | .id, _, _, _, hc, _ | .const _, _, _, _, hc, _ | .pipe _ _, _, _, _, hc, _ | .comma _ _, _, _, _, hc, _
  | .iter, _, _, _, hc, _ | .empty, _, _, _, hc, _ | .arr _, _, _, _, hc, _ | .param, _, _, _, hc, _
  | .call1 _ _, _, _, _, hc, _ | .error, _, _, _, hc, _ | .try_ _, _, _, _, hc, _ | .tryCatch _ _, _, _, _, hc, _
  | .index _, _, _, _, hc, _ | .ite _ _ _, _, _, _, hc, _ | .alt _ _, _, _, _, hc, _ | .var _, _, _, _, hc, _
  | .bind _ _ _, _, _, _, hc, _ | .reduce _ _ _ _, _, _, _, hc, _ | .foreach _ _ _ _ _, _, _, _, hc, _
  | .obj _, _, _, _, hc, _ | .delay _, _, _, _, hc, _ => by simp [spineCallsBelow] at hc
end

/-- the main query calls no function -/
def callFree (p : Prog) : Bool := callsBelow 0 p.main

theorem miniRun_nd_of_callFree (p : Prog) (h : callFree p = true) (v : V) :
    ND (miniRun p (qDepth p.main + 1) v).stop :=
  eval_nd_of_callfree p.defsFn p.main _ ⟨none, []⟩ [] v h (Nat.lt_succ_self _)

end Gojq.MiniSpec

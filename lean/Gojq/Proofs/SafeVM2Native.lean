/-
  C08 (bytecode checker, layer 2): the failed `.([]any)` of the `getpath` tail of a native call is
  excluded by `keyOK` (the native answers a value only for an array of keys).
-/
import Gojq.Proofs.SafeVM2Exec9
set_option linter.unusedSimpArgs false
set_option linter.unusedVariables false
namespace Gojq.SafeVM
open Gojq Gojq.VM

variable {S : SC} {Ct : Cert}

theorem bind_panic_inv {α β : Type} {m : M α} {f : α → M β} {e : Env} {s : Site} (h : (m >>= f) e = .panic s) :
    m e = .panic s ∨ ∃ a e1, m e = .ok a e1 ∧ f a e1 = .panic s := by
  have h' : M.bind m f e = .panic s := h
  unfold M.bind at h'
  cases hm : m e with
  | ok a e1 => rw [hm] at h'; exact .inr ⟨a, e1, rfl, h'⟩
  | panic s' => rw [hm] at h'; simp at h'; subst h'; exact .inl rfl
  | stuck w => rw [hm] at h'; simp at h'

theorem q2_no_arr {α : Type} {m : M α} (h : Q2 false m) (e : Env) : m e ≠ .panic .assertArray := by
  intro hm
  have := h e
  rw [hm] at this
  exact this.2.2 rfl rfl

theorem quiet_callNative_other (argc : Int) (x : ExtRec) (l : L) : QuietF false l (exec (.callNative .other argc) x l) := by
  simp only [exec]
  quietF_tac
theorem quiet_callNative_index (argc : Int) (x : ExtRec) (l : L) : QuietF false l (exec (.callNative .index argc) x l) := by
  simp only [exec]
  quietF_tac
theorem quiet_callNative_slice (argc : Int) (x : ExtRec) (l : L) : QuietF false l (exec (.callNative .slice argc) x l) := by
  simp only [exec]
  quietF_tac

theorem quietF_no_arr {l : L} {m : M (Ctl × L)} (h : QuietF false l m) (e : Env) : m e ≠ .panic .assertArray := by
  intro hm
  have := h e
  rw [hm] at this
  exact this.2.2 rfl rfl

theorem callNative_noArr (C : Checked S) {kind : NativeKind} {argc : Int} {x : ExtRec} {l : L} {e : Env}
    (hk : keyOK (.callNative kind argc) (stackList e.stack) x)
    (hc : codeAt S l.pc = some (.callNative kind argc)) (hI1 : Inv S l e) :
    exec (.callNative kind argc) x l e ≠ .panic .assertArray := by
  intro hpan0
  revert hpan0
  rcases hI1.cases with ⟨hb, A, hV, G, _, _, hM⟩ | ⟨hb, A, hV, G, _, _, hN⟩
  · simp only [exec, hb, if_true]
    intro h; cases h
  · intro hpan0
    revert hpan0
    obtain ⟨herr, a, succs, ha, hst, hsucc, hpc, hp, hconf⟩ := hN.unpack C hc
    simp only [step1] at hst
    split at hst
    · rename_i hh
      obtain ⟨hneed, h32, hah⟩ := hh
      rw [if_neg (by simp [isScope])] at hconf
      have h0 : 0 ≤ argc := by cases kind <;> simp only [nativeNeed] at hneed <;> omega
      obtain ⟨j, v, r, hstk⟩ := hconf.cons_of_pos (by omega)
      obtain ⟨nx, hpop, hV1, G1, hv⟩ := pop_spec hV G hstk
      have hlenr : argc.toNat ≤ r.length := by
        have := hconf.len; rw [hstk] at this; simp at this; omega
      rw [stackList_view hV, hstk] at hk
      have hargs := popArgs_spec argc.toNat (A := { A with stk := r }) hV1 G1 hlenr
      unfold WP at hargs
      intro hpan0
      have hpan := hpan0
      simp only [exec] at hpan
      rw [if_neg (by rw [hb]; simp), bind_ok_eq hpop, if_neg (by omega)] at hpan
      rcases bind_panic_inv hpan with h | ⟨args, e2, hpa, hrest⟩
      · exact q2_no_arr (Q2.popArgs _) _ h
      · rw [hpa] at hargs
        obtain ⟨_, _, hargsEq⟩ := hargs
        simp only at hargsEq
        rcases bind_panic_inv hrest with h | ⟨cr, e3, hext, hrest2⟩
        · exact q2_no_arr (Q2.extCall _) _ h
        · have he3 : e3 = e2 ∧ x.call = some cr := by
            unfold VM.extCall at hext
            cases hx : x.call with
            | none => rw [hx] at hext; cases hext
            | some r' => rw [hx] at hext; simp at hext; exact ⟨hext.2.symm, by rw [hext.1]⟩
          obtain ⟨rfl, hcall⟩ := he3
          cases cr with
          | iterEnd => simp [VM.stuck] at hrest2
          | err er => simp [pure, M.pure] at hrest2
          | val w =>
            simp only at hrest2
            rw [bind_ok_eq (push_eq _ _)] at hrest2
            rcases bind_panic_inv hrest2 with h | ⟨bt, e4, htr, hrest3⟩
            · exact q2_no_arr Q2.tracking _ h
            · split at hrest3
              · cases kind with
                | other => exact absurd hpan0 (quietF_no_arr (quiet_callNative_other argc x l) e)
                | index => exact absurd hpan0 (quietF_no_arr (quiet_callNative_index argc x l) e)
                | slice => exact absurd hpan0 (quietF_no_arr (quiet_callNative_slice argc x l) e)
                | getpath =>
                  simp only [keyOK, hcall] at hk
                  obtain ⟨x0, ps, r', hkr, hnull⟩ := hk
                  simp only [nativeNeed] at hneed
                  obtain ⟨q0, rest, hr⟩ : ∃ q0 rest, r = q0 :: rest := by
                    match r, hlenr with
                    | q0 :: rest, _ => exact ⟨q0, rest, rfl⟩
                    | [], h => simp at h; omega
                  rw [hr] at hkr
                  simp only [List.map_cons, List.cons.injEq] at hkr
                  rw [hr, take_map1 _ _ _ _ (by omega), hkr.2.1] at hargsEq
                  subst hargsEq
                  simp only at hrest3
                  rcases bind_panic_inv hrest3 with h | ⟨ok, e5, hpi, hrest4⟩
                  · exact q2_no_arr (Q2.pathIntact _) _ h
                  · split at hrest4
                    · simp [pure, M.pure] at hrest4
                    · have hq : Quiet2 false l (do pushPaths w ps; pure (.fall, l)) := by quiet2_tac
                      have := hq e5
                      rw [hrest4] at this
                      exact this.2.2 rfl rfl
              · simp [pure, M.pure] at hrest3
    · simp at hst

end Gojq.SafeVM

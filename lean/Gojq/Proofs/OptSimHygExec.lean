/-
  Every opcode keeps the control hygiene of Proofs/OptSimHyg.lean, and its control result only
  transfers to pcs other than `B` (or falls through from its own pc).
-/
import Gojq.Proofs.OptSimHyg
set_option linter.unusedSimpArgs false
set_option linter.unusedVariables false
namespace Gojq.OptVM
open Gojq Gojq.VM

/-- the pc operand of the opcodes that transfer control to (or make a closure of) their operand -/
def staticTarget : Instr → Option Int
  | .fork t | .forktrybegin t | .forkalt t | .jump t | .jumpifnot t | .call t | .callrec t | .pushpc t => some t
  | _ => none

/-- opcodes that save their own pc: in a fork, or as the return address of a frame -/
def savesPc : Instr → Bool
  | .fork _ | .forktrybegin _ | .forktryend | .forkalt _ | .forklabel _ _ | .iter | .call _ | .callpc => true
  | _ => false

/-- what the locals, the oracle record and the instruction must satisfy before a turn -/
structure HygL (B : Int) (ins : Instr) (x : ExtRec) (l : L) : Prop where
  callpc : PcOK B l.callpc
  err : ErrOK B l.err
  ext : ExtOK B x
  tgt : ∀ t, staticTarget ins = some t → t ≠ B
  pc : savesPc ins = true → PcOK B l.pc
  pos : 1 ≤ B

/-- what the control result of a turn guarantees -/
def HPost (B : Int) (l : L) (r : Ctl × L) : Prop :=
  PcOK B r.2.callpc ∧ ErrOK B r.2.err ∧
  match r.1 with
  | .fall => r.2.pc = l.pc ∨ PcOK B r.2.pc
  | .jump => r.2.pc ≠ B
  | .brk => r.2.pc = l.pc
  | .ret _ => r.2.pc ≠ B

theorem ErrOK.none {B : Int} : ErrOK B none := fun _ h => by cases h
theorem ErrOK.vm {B : Int} (k : VMErrKind) (x : ExtRec) : ErrOK B (some (vmErr k x)) := by
  intro er h; cases h; rfl
theorem ErrOK.of_clean {B : Int} {er : Err} (h : eclean B er = true) : ErrOK B (some er) := by
  intro er' h'; cases h'; exact h

theorem pclean_enumFrom (B : Int) : ∀ (vs : List JV) (i : Int), pclean B (enumFrom i vs) = true := by
  intro vs
  induction vs with
  | nil => intro i; simp [enumFrom, pclean]
  | cons v vs ih => intro i; simp [enumFrom, pclean, vclean, ih]

theorem pclean_map_kv (B : Int) : ∀ (kvs : List (Bytes × JV)),
    pclean B (kvs.map fun (k, v) => ((.jv (.str k) : V), (.jv v : V))) = true := by
  intro kvs
  induction kvs with
  | nil => simp [pclean]
  | cons kv kvs ih => simp [pclean, vclean, ih]

theorem ErrOK.map_tryEnd {B : Int} {o : Option Err} (h : ErrOK B o) : ErrOK B (o.map .tryEnd) := by
  intro er her
  cases o with
  | none => cases her
  | some e0 => cases her; exact h e0 rfl

theorem PcOK.neg_one {B : Int} (h : 1 ≤ B) : PcOK B (-1) := ⟨by omega, by omega⟩

/-- the tail of `opiter`: the remaining pairs go into a fork at the pc of `opiter` itself -/
theorem iterEmit_hyg (B : Int) (l0 : L) (pc : Int) (l : L) (xs : List (V × V)) (hxs : pclean B xs = true)
    (hpc : pc ≠ B) (hcall : PcOK B l.callpc) (herr : ErrOK B l.err) (hl : l.pc = l0.pc) :
    HSpec B (HPost B l0) (iterEmit pc l xs) := by
  simp only [iterEmit]
  split
  · exact HSpec.panic
  · rename_i p v rest
    simp only [pclean, Bool.and_eq_true] at hxs
    have tail : HSpec B (HPost B l0) (do
        push v
        if (← tracking) then pathsPush (.pv p v)
        pure (Ctl.fall, l)) := by
      refine HSpec.bind (HSpec.push _ hxs.1) (fun _ _ => ?_)
      refine HSpec.bind HSpec.tracking (fun b _ => ?_)
      split
      · exact HSpec.bind (HSpec.pathsPush _) (fun _ _ => HSpec.pure ⟨hcall, herr, Or.inl hl⟩)
      · exact HSpec.pure ⟨hcall, herr, Or.inl hl⟩
    split
    · exact HSpec.bind (HSpec.pushforkOver _ _ (by simp only [vclean]; exact hxs.2) hpc) (fun _ _ => tail)
    · exact tail

theorem values_grow {B : Int} (vals : Array V) (n : Nat)
    (h : ∀ (j : Nat) (v : V), vals[j]? = some v → vclean B v = true) :
    ∀ (j : Nat) (v : V), (vals ++ Array.replicate n (V.jv JV.null))[j]? = some v → vclean B v = true := by
  intro j v hv
  rw [Array.getElem?_append] at hv
  split at hv
  · exact h j v hv
  · rw [Array.getElem?_replicate] at hv
    split at hv
    · simp at hv; rw [← hv]; rfl
    · simp at hv

/-- side conditions on values -/
macro "hy_val" : tactic => `(tactic| first
  | assumption
  | rfl
  | (simp [vclean, eclean, pclean, CallResOK, pclean_enumFrom, pclean_map_kv] at *; done)
  | (simp_all [vclean, eclean, pclean, CallResOK, pclean_enumFrom, pclean_map_kv]; done))

macro "hy_prim" : tactic => `(tactic| first
  | exact HSpec.pop | exact HSpec.stackTop | exact HSpec.getValue _ | exact HSpec.popscope
  | exact HSpec.pathsPush _ | exact HSpec.pathsPop | exact HSpec.pathsTop | exact HSpec.envIndex _ _
  | exact HSpec.getEnv | exact HSpec.tracking | exact HSpec.asJV _ | exact HSpec.pathIntact _
  | exact HSpec.poppaths | exact HSpec.pushPaths _ _ | exact HSpec.objectLoop _ _ _ | exact HSpec.popArgs _
  | exact HSpec.panic | exact HSpec.stuck
  | refine HSpec.extCall _ ?_
  | refine HSpec.pushfork _ ?_
  | refine HSpec.push _ ?_
  | refine HSpec.setValue _ _ ?_
  | refine HSpec.pushforkOver _ _ ?_ ?_
  | refine HSpec.modify _ ?_)

/-- the control postcondition at a `pure (ctl, l')` -/
macro "hy_post" H:ident : tactic => `(tactic| (
  apply HSpec.pure
  refine And.intro ?_ (And.intro ?_ ?_) <;> first
    | exact ($H).callpc
    | exact ($H).err
    | exact ErrOK.none
    | exact ErrOK.vm _ _
    | exact Or.inl rfl
    | rfl
    | exact ($H).tgt _ rfl
    | exact ErrOK.map_tryEnd ($H).err
    | exact ($H).pc rfl
    | exact PcOK.neg_one ($H).pos
    | exact Or.inr (by assumption)
    | exact (by assumption : PcOK _ _).1
    | (apply ErrOK.of_clean; hy_val)
    | (simp_all [vclean]; done)))

macro "hy_exec" H:ident : tactic => `(tactic| repeat' (first
  | with_reducible hy_prim
  | with_reducible refine iterEmit_hyg _ _ _ _ _ ?_ ?_ ?_ ?_ ?_
  | hy_post $H
  | exact HSpec.pure (φ := fun _ => True) trivial
  | (with_reducible apply HSpec.bind
     rotate_left
     intro _ _
     rotate_right)
  | split
  | exact ($H).ext
  | exact ($H).callpc
  | exact ($H).err
  | exact (($H).pc rfl).1
  | exact fun _ h => ⟨h.stack, h.values, h.scopes, h.forks⟩
  | (simp only [vclean, bne_iff_ne, ne_eq]; exact ($H).tgt _ rfl)
  | hy_val))

theorem exec_hyg_nop (B : Int) (x : ExtRec) (l : L) (H : HygL B Instr.nop x l) :
    HSpec B (HPost B l) (exec Instr.nop x l) := by
  simp only [exec, exec.execIndex, iterInvalid, pathBroken]
  have herr := H.err
  unfold ErrOK at herr
  hy_exec H

theorem exec_hyg_push (B : Int) (v : JV) (x : ExtRec) (l : L) (H : HygL B (Instr.push v) x l) :
    HSpec B (HPost B l) (exec (Instr.push v) x l) := by
  simp only [exec, exec.execIndex, iterInvalid, pathBroken]
  have herr := H.err
  unfold ErrOK at herr
  hy_exec H

theorem exec_hyg_pop (B : Int) (x : ExtRec) (l : L) (H : HygL B Instr.pop x l) :
    HSpec B (HPost B l) (exec Instr.pop x l) := by
  simp only [exec, exec.execIndex, iterInvalid, pathBroken]
  have herr := H.err
  unfold ErrOK at herr
  hy_exec H

theorem exec_hyg_dup (B : Int) (x : ExtRec) (l : L) (H : HygL B Instr.dup x l) :
    HSpec B (HPost B l) (exec Instr.dup x l) := by
  simp only [exec, exec.execIndex, iterInvalid, pathBroken]
  have herr := H.err
  unfold ErrOK at herr
  hy_exec H

theorem exec_hyg_const (B : Int) (v : JV) (x : ExtRec) (l : L) (H : HygL B (Instr.const v) x l) :
    HSpec B (HPost B l) (exec (Instr.const v) x l) := by
  simp only [exec, exec.execIndex, iterInvalid, pathBroken]
  have herr := H.err
  unfold ErrOK at herr
  hy_exec H

theorem exec_hyg_load (B : Int) (a : Int) (b : Int) (x : ExtRec) (l : L) (H : HygL B (Instr.load a b) x l) :
    HSpec B (HPost B l) (exec (Instr.load a b) x l) := by
  simp only [exec, exec.execIndex, iterInvalid, pathBroken]
  have herr := H.err
  unfold ErrOK at herr
  hy_exec H

theorem exec_hyg_store (B : Int) (a : Int) (b : Int) (x : ExtRec) (l : L) (H : HygL B (Instr.store a b) x l) :
    HSpec B (HPost B l) (exec (Instr.store a b) x l) := by
  simp only [exec, exec.execIndex, iterInvalid, pathBroken]
  have herr := H.err
  unfold ErrOK at herr
  hy_exec H

theorem exec_hyg_object (B : Int) (n : Int) (x : ExtRec) (l : L) (H : HygL B (Instr.object n) x l) :
    HSpec B (HPost B l) (exec (Instr.object n) x l) := by
  simp only [exec, exec.execIndex, iterInvalid, pathBroken]
  have herr := H.err
  unfold ErrOK at herr
  hy_exec H

theorem exec_hyg_append (B : Int) (a : Int) (b : Int) (x : ExtRec) (l : L) (H : HygL B (Instr.append a b) x l) :
    HSpec B (HPost B l) (exec (Instr.append a b) x l) := by
  simp only [exec, exec.execIndex, iterInvalid, pathBroken]
  have herr := H.err
  unfold ErrOK at herr
  hy_exec H

theorem exec_hyg_fork (B : Int) (t : Int) (x : ExtRec) (l : L) (H : HygL B (Instr.fork t) x l) :
    HSpec B (HPost B l) (exec (Instr.fork t) x l) := by
  simp only [exec, exec.execIndex, iterInvalid, pathBroken]
  have herr := H.err
  unfold ErrOK at herr
  hy_exec H

theorem exec_hyg_forktrybegin (B : Int) (t : Int) (x : ExtRec) (l : L) (H : HygL B (Instr.forktrybegin t) x l) :
    HSpec B (HPost B l) (exec (Instr.forktrybegin t) x l) := by
  simp only [exec, exec.execIndex, iterInvalid, pathBroken]
  have herr := H.err
  unfold ErrOK at herr
  hy_exec H

theorem exec_hyg_forktryend (B : Int) (x : ExtRec) (l : L) (H : HygL B Instr.forktryend x l) :
    HSpec B (HPost B l) (exec Instr.forktryend x l) := by
  simp only [exec, exec.execIndex, iterInvalid, pathBroken]
  have herr := H.err
  unfold ErrOK at herr
  hy_exec H

theorem exec_hyg_forkalt (B : Int) (t : Int) (x : ExtRec) (l : L) (H : HygL B (Instr.forkalt t) x l) :
    HSpec B (HPost B l) (exec (Instr.forkalt t) x l) := by
  simp only [exec, exec.execIndex, iterInvalid, pathBroken]
  have herr := H.err
  unfold ErrOK at herr
  hy_exec H

theorem exec_hyg_forklabel (B : Int) (a : Int) (b : Int) (x : ExtRec) (l : L) (H : HygL B (Instr.forklabel a b) x l) :
    HSpec B (HPost B l) (exec (Instr.forklabel a b) x l) := by
  simp only [exec, exec.execIndex, iterInvalid, pathBroken]
  have herr := H.err
  unfold ErrOK at herr
  hy_exec H

theorem exec_hyg_backtrack (B : Int) (x : ExtRec) (l : L) (H : HygL B Instr.backtrack x l) :
    HSpec B (HPost B l) (exec Instr.backtrack x l) := by
  simp only [exec, exec.execIndex, iterInvalid, pathBroken]
  have herr := H.err
  unfold ErrOK at herr
  hy_exec H

theorem exec_hyg_jump (B : Int) (t : Int) (x : ExtRec) (l : L) (H : HygL B (Instr.jump t) x l) :
    HSpec B (HPost B l) (exec (Instr.jump t) x l) := by
  simp only [exec, exec.execIndex, iterInvalid, pathBroken]
  have herr := H.err
  unfold ErrOK at herr
  hy_exec H

theorem exec_hyg_jumpifnot (B : Int) (t : Int) (x : ExtRec) (l : L) (H : HygL B (Instr.jumpifnot t) x l) :
    HSpec B (HPost B l) (exec (Instr.jumpifnot t) x l) := by
  simp only [exec, exec.execIndex, iterInvalid, pathBroken]
  have herr := H.err
  unfold ErrOK at herr
  hy_exec H

theorem exec_hyg_index (B : Int) (k : JV) (x : ExtRec) (l : L) (H : HygL B (Instr.index k) x l) :
    HSpec B (HPost B l) (exec (Instr.index k) x l) := by
  simp only [exec, exec.execIndex, iterInvalid, pathBroken]
  have herr := H.err
  unfold ErrOK at herr
  hy_exec H

theorem exec_hyg_indexarray (B : Int) (k : JV) (x : ExtRec) (l : L) (H : HygL B (Instr.indexarray k) x l) :
    HSpec B (HPost B l) (exec (Instr.indexarray k) x l) := by
  simp only [exec, exec.execIndex, iterInvalid, pathBroken]
  have herr := H.err
  unfold ErrOK at herr
  hy_exec H

theorem exec_hyg_call (B : Int) (t : Int) (x : ExtRec) (l : L) (H : HygL B (Instr.call t) x l) :
    HSpec B (HPost B l) (exec (Instr.call t) x l) := by
  simp only [exec, exec.execIndex, iterInvalid, pathBroken]
  have herr := H.err
  unfold ErrOK at herr
  hy_exec H

theorem exec_hyg_callNative (B : Int) (kd : NativeKind) (n : Int) (x : ExtRec) (l : L) (H : HygL B (Instr.callNative kd n) x l) :
    HSpec B (HPost B l) (exec (Instr.callNative kd n) x l) := by
  simp only [exec, exec.execIndex, iterInvalid, pathBroken]
  have herr := H.err
  unfold ErrOK at herr
  hy_exec H

theorem exec_hyg_callrec (B : Int) (t : Int) (x : ExtRec) (l : L) (H : HygL B (Instr.callrec t) x l) :
    HSpec B (HPost B l) (exec (Instr.callrec t) x l) := by
  simp only [exec, exec.execIndex, iterInvalid, pathBroken]
  have herr := H.err
  unfold ErrOK at herr
  hy_exec H

theorem exec_hyg_pushpc (B : Int) (t : Int) (x : ExtRec) (l : L) (H : HygL B (Instr.pushpc t) x l) :
    HSpec B (HPost B l) (exec (Instr.pushpc t) x l) := by
  simp only [exec, exec.execIndex, iterInvalid, pathBroken]
  have herr := H.err
  unfold ErrOK at herr
  hy_exec H

theorem exec_hyg_callpc (B : Int) (x : ExtRec) (l : L) (H : HygL B Instr.callpc x l) :
    HSpec B (HPost B l) (exec Instr.callpc x l) := by
  simp only [exec, exec.execIndex, iterInvalid, pathBroken]
  have herr := H.err
  unfold ErrOK at herr
  hy_exec H

theorem exec_hyg_scope (B : Int) (a : Int) (b : Int) (c : Int) (x : ExtRec) (l : L) (H : HygL B (Instr.scope a b c) x l) :
    HSpec B (HPost B l) (exec (Instr.scope a b c) x l) := by
  simp only [exec]
  refine HSpec.bind HSpec.getEnv (fun e _ => ?_)
  refine HSpec.bind (ψ := fun r => PcOK B r.1) ?_ (fun r hr => ?_)
  · split
    · split
      · exact HSpec.pure H.callpc
      · exact HSpec.popscope
    · exact HSpec.pure H.callpc
  · refine HSpec.bind HSpec.getEnv (fun e2 _ => ?_)
    refine HSpec.bind (ψ := fun _ => True) ?_ (fun oi _ => ?_)
    · split
      · split
        · exact HSpec.panic
        · exact HSpec.pure trivial
      · exact HSpec.pure trivial
    · refine HSpec.bind (HSpec.modify _ ?_) (fun _ _ => ?_)
      · intro e3 h3
        exact ⟨h3.stack, h3.values, push_all (fun b => PcOK B b.value.pc) e3.scopes _ h3.scopes hr, h3.forks⟩
      · refine HSpec.bind HSpec.getEnv (fun e4 _ => ?_)
        split
        · refine HSpec.bind (HSpec.modify _ ?_) (fun _ _ => HSpec.pure ⟨hr, H.err, Or.inl rfl⟩)
          intro e5 h5
          exact ⟨h5.stack, values_grow _ _ h5.values, h5.scopes, h5.forks⟩
        · exact HSpec.pure ⟨hr, H.err, Or.inl rfl⟩

theorem exec_hyg_ret (B : Int) (x : ExtRec) (l : L) (H : HygL B Instr.ret x l) :
    HSpec B (HPost B l) (exec Instr.ret x l) := by
  simp only [exec, exec.execIndex, iterInvalid, pathBroken]
  have herr := H.err
  unfold ErrOK at herr
  hy_exec H

theorem exec_hyg_iter (B : Int) (x : ExtRec) (l : L) (H : HygL B Instr.iter x l) :
    HSpec B (HPost B l) (exec Instr.iter x l) := by
  simp only [exec, exec.execIndex, iterInvalid, pathBroken]
  have herr := H.err
  unfold ErrOK at herr
  hy_exec H

theorem exec_hyg_expbegin (B : Int) (x : ExtRec) (l : L) (H : HygL B Instr.expbegin x l) :
    HSpec B (HPost B l) (exec Instr.expbegin x l) := by
  simp only [exec, exec.execIndex, iterInvalid, pathBroken]
  have herr := H.err
  unfold ErrOK at herr
  hy_exec H

theorem exec_hyg_expend (B : Int) (x : ExtRec) (l : L) (H : HygL B Instr.expend x l) :
    HSpec B (HPost B l) (exec Instr.expend x l) := by
  simp only [exec, exec.execIndex, iterInvalid, pathBroken]
  have herr := H.err
  unfold ErrOK at herr
  hy_exec H

theorem exec_hyg_pathbegin (B : Int) (x : ExtRec) (l : L) (H : HygL B Instr.pathbegin x l) :
    HSpec B (HPost B l) (exec Instr.pathbegin x l) := by
  simp only [exec, exec.execIndex, iterInvalid, pathBroken]
  have herr := H.err
  unfold ErrOK at herr
  hy_exec H

theorem exec_hyg_pathend (B : Int) (x : ExtRec) (l : L) (H : HygL B Instr.pathend x l) :
    HSpec B (HPost B l) (exec Instr.pathend x l) := by
  simp only [exec, exec.execIndex, iterInvalid, pathBroken]
  have herr := H.err
  unfold ErrOK at herr
  hy_exec H

theorem exec_hyg_bad (B : Int) (x : ExtRec) (l : L) (H : HygL B Instr.bad x l) :
    HSpec B (HPost B l) (exec Instr.bad x l) := by
  simp only [exec, exec.execIndex, iterInvalid, pathBroken]
  have herr := H.err
  unfold ErrOK at herr
  hy_exec H

/-- every opcode keeps the hygiene -/
theorem exec_hyg (B : Int) (ins : Instr) (x : ExtRec) (l : L) (H : HygL B ins x l) :
    HSpec B (HPost B l) (exec ins x l) := by
  cases ins with
  | nop => exact exec_hyg_nop B x l H
  | push v => exact exec_hyg_push B v x l H
  | pop => exact exec_hyg_pop B x l H
  | dup => exact exec_hyg_dup B x l H
  | const v => exact exec_hyg_const B v x l H
  | load a b => exact exec_hyg_load B a b x l H
  | store a b => exact exec_hyg_store B a b x l H
  | object n => exact exec_hyg_object B n x l H
  | append a b => exact exec_hyg_append B a b x l H
  | fork t => exact exec_hyg_fork B t x l H
  | forktrybegin t => exact exec_hyg_forktrybegin B t x l H
  | forktryend => exact exec_hyg_forktryend B x l H
  | forkalt t => exact exec_hyg_forkalt B t x l H
  | forklabel a b => exact exec_hyg_forklabel B a b x l H
  | backtrack => exact exec_hyg_backtrack B x l H
  | jump t => exact exec_hyg_jump B t x l H
  | jumpifnot t => exact exec_hyg_jumpifnot B t x l H
  | index k => exact exec_hyg_index B k x l H
  | indexarray k => exact exec_hyg_indexarray B k x l H
  | call t => exact exec_hyg_call B t x l H
  | callNative kd n => exact exec_hyg_callNative B kd n x l H
  | callrec t => exact exec_hyg_callrec B t x l H
  | pushpc t => exact exec_hyg_pushpc B t x l H
  | callpc => exact exec_hyg_callpc B x l H
  | scope a b c => exact exec_hyg_scope B a b c x l H
  | ret => exact exec_hyg_ret B x l H
  | iter => exact exec_hyg_iter B x l H
  | expbegin => exact exec_hyg_expbegin B x l H
  | expend => exact exec_hyg_expend B x l H
  | pathbegin => exact exec_hyg_pathbegin B x l H
  | pathend => exact exec_hyg_pathend B x l H
  | bad => exact exec_hyg_bad B x l H

end Gojq.OptVM

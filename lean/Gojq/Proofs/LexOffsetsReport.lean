/-
  C17.4 — the vocabulary of the property theorems of Props/C17Lex.lean that is not a theorem:
  `Reported` (the `*ParseError` built right after a call of `Lex` from a state of a run),
  `reported_step` (that call in source coordinates), `parseErrorOf`, and the states of the
  witness `stale_token_after_closing_quote`.  Core Lean only.
-/
import Gojq.Proofs.LexOffsetsLR
namespace Gojq.Lexer
open Gojq Gojq.LALR Gojq.Generated.Lalr

/-- `e` is the `*ParseError` that `(*lexer).Error` builds right after the call of `Lex` made in
    the state `s0`, and `s0` is a state a parse of `src` can be in -/
def Reported (src : Bytes) (s0 : LState) (e : ParseError) : Prop :=
  (∃ toks, Run src s0 toks) ∧ e = parseError (lex s0).2.2

/-- what one call of `Lex` from a run state does, in source coordinates -/
theorem reported_step (src : Bytes) (s0 : LState) (e : ParseError) (h : Reported src s0 e) :
    ∃ gap text, LexStep s0 gap text ∧
      src.drop s0.offset = gap ++ text ++ src.drop e.offset ∧ e.offset = s0.offset + gap.length + text.length ∧
      e.tokenType = (lex s0).1 ∧ (lex s0).2.2.rest = src.drop e.offset := by
  obtain ⟨⟨toks, hr⟩, he⟩ := h
  have hat := (run_chain src s0 toks hr).1
  obtain ⟨gap, text, hstep, hat', hdrop, -, -⟩ := lex_step_at src s0 hat
  subst he
  exact ⟨gap, text, hstep, hdrop, hstep.2.1, hstep.2.2.1, hat'.2⟩

/-- the source `"\(1)"` -/
def interpSrc : Bytes := [34, 92, 40, 49, 41, 34]

/-- the lexer state of a parse of `"\(1)"` just before the closing quote is read: four calls of
    `Lex` (tokStringStart, tokStringQuery, `1`, `)`) and the parser's `inString = true` -/
def beforeClosingQuote : LState :=
  { (lex (lex (lex (lex (LState.init interpSrc)).2.2).2.2).2.2).2.2 with inString := true }

theorem run_lex' {src : Bytes} {s : LState} {toks : List Tok} (h : Run src s toks) :
    ∃ toks', Run src (lex s).2.2 toks' := by
  obtain ⟨gap, text, hstep⟩ := lex_step s
  exact ⟨_, Run.lex gap text h hstep⟩

/-- the `*ParseError` of `Parse(src)`, if it fails -/
def parseErrorOf (src : Bytes) : Option ParseError :=
  match Parse.parse src with
  | .reject _ _ s => some (parseError s)
  | _ => none

end Gojq.Lexer

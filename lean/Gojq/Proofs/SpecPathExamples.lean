/-
  Helper definitions for Props/C02Path.lean, part 8: the example programs and inputs of the
  non-vacuity examples and witness theorems (ASTs as the real parser dumps them), and the
  evaluation context with the real jq-defined builtins (generated from builtin.jq).
-/
import Gojq.Proofs.SpecPathSound
import Gojq.Generated.BuiltinDefs
namespace Gojq.C02
open Gojq Gojq.Spec

/-- the evaluation context with the real jq-defined builtins (`builtin.jq` as generated) -/
def cfgGo : Cfg := { builtins := ⟨Gojq.Generated.Builtins.builtinGo⟩ }
def inputSt (v : JV) : St := { v := v, id := .known 0 [] }
/-- `.a[0]` -/
def exA0 : Query := .term [] (.mk (.index (.name (B "a"))) [.index (.at (.ofTerm (.number "0")))])
/-- `..` -/
def exRecurse : Query := .ofTerm .recurse
/-- `.a | select(.b)` -/
def exSelect : Query := .binop [] .pipe (.term [] (.mk (.index (.name (B "a"))) []))
  (.call "select" [.term [] (.mk (.index (.name (B "b"))) [])])
/-- `.[0]` -/
def exIdx0 : Query := .term [] (.mk (.index (.at (.ofTerm (.number "0")))) [])
/-- `-.` -/
def exNeg : Query := .ofTerm (.unary .sub (.mk .identity []))
/-- `try ([1] | .[0])` -/
def exTry : Query := .ofTerm (.try_ (.binop [] .pipe (.ofTerm (.array (some (.ofTerm (.number "1"))))) exIdx0) none)
/-- `{"a": [7, 8]}` -/
def inA : JV := .obj [(B "a", .arr [jvInt 7, jvInt 8])]
/-- `{"a": {"b": true}}` -/
def inAB : JV := .obj [(B "a", .obj [(B "b", .bool true)])]

end Gojq.C02

/-
  C17, left clipping on rune-structured lines: when the line is a sequence of complete runes and the
  window starts on a rune boundary, 48 bytes of context suffice (no 3-byte margin needed).
-/
import Gojq.Proofs.WindowCompose
import Gojq.Proofs.LineInfoRunes
namespace Gojq.Cli
open Gojq

/-- the whole-rune prefix that `trimLastInvalidRune (cs.flatten.take n)` keeps is unique -/
theorem chunk_split_unique {X1 X2 C1 C2 : List Bytes} (n : Nat) (h : X1 ++ X2 = C1 ++ C2)
    (hne : ∀ c, c ∈ X1 ++ X2 → 1 ≤ c.length)
    (hx1 : X1.flatten.length ≤ n) (hx2 : ∀ c t, X2 = c :: t → n < X1.flatten.length + c.length)
    (hc1 : C1.flatten.length ≤ n) (hc2 : ∀ c t, C2 = c :: t → n < C1.flatten.length + c.length) :
    X1.flatten.length = C1.flatten.length := by
  by_cases hle : X1.flatten.length ≤ C1.flatten.length
  · obtain ⟨m, h1, h2⟩ := prefix_of_flatten_le h (fun c hc => hne c (by simp [hc])) hle
    cases m with
    | nil => simp at h1; rw [h1]
    | cons c t =>
      have := hx2 c (t ++ C2) (by simpa using h2)
      have hl : C1.flatten.length = X1.flatten.length + c.length + t.flatten.length := by
        rw [h1]; simp [List.flatten_append, Nat.add_assoc]
      omega
  · have hle' : C1.flatten.length ≤ X1.flatten.length := by omega
    obtain ⟨m, h1, h2⟩ := prefix_of_flatten_le h.symm (fun c hc => hne c (by rw [h]; simp [hc])) hle'
    cases m with
    | nil => simp at h1; rw [h1]
    | cons c t =>
      have := hc2 c (t ++ X2) (by simpa using h2)
      have hl : X1.flatten.length = C1.flatten.length + c.length + t.flatten.length := by
        rw [h1]; simp [List.flatten_append, Nat.add_assoc]
      omega

/-- **Left clipping on a rune boundary of a rune-structured line: 48 bytes of context suffice.** -/
theorem excerptO_drop_runes (A B : List Bytes) (h : ∀ c, c ∈ A ++ B → RuneChunk c) (o : Nat)
    (ho : o ≤ (A ++ B).flatten.length) (h48 : A.flatten.length + 48 ≤ o) :
    excerptO ((A ++ B).flatten.drop A.flatten.length) (o - A.flatten.length) = excerptO (A ++ B).flatten o := by
  have hdrop : (A ++ B).flatten.drop A.flatten.length = B.flatten := by
    rw [List.flatten_append, List.drop_left]
  have hA : ∀ c, c ∈ A → RuneChunk c := fun c hc => h c (by simp [hc])
  have hB : ∀ c, c ∈ B → RuneChunk c := fun c hc => h c (by simp [hc])
  have hlen : (A ++ B).flatten.length = A.flatten.length + B.flatten.length := by
    rw [List.flatten_append, List.length_append]
  by_cases hd0 : A.flatten.length = 0
  · rw [hd0]; simp
  by_cases h48' : o = A.flatten.length + 48
  · -- exactly 48 bytes of context: nothing is skipped in the window, the whole line skips `A`
    have htake : (A ++ B).flatten.take (o - 48) = A.flatten := by
      rw [h48', Nat.add_sub_cancel, List.flatten_append, List.take_left]
    unfold excerptO
    rw [if_neg (by omega), if_pos (by omega), htake, trim_flatten A hA, hdrop]
    simp only [List.drop_zero, Nat.sub_zero]
    rw [← hdrop]
  · -- more than 48 bytes: both skips end on the same rune boundary
    obtain ⟨B1, B2, hBeq, htB, hB1, _, _, hB2⟩ := trim_take_chunks B hB (o - A.flatten.length - 48) (by omega)
    obtain ⟨C1, C2, hCeq, htC, hC1, _, _, hC2⟩ := trim_take_chunks (A ++ B) h (o - 48) (by omega)
    have hX : (A ++ B1) ++ B2 = C1 ++ C2 := by rw [List.append_assoc, ← hBeq, hCeq]
    have hAB1 : (A ++ B1).flatten.length = A.flatten.length + B1.flatten.length := by
      rw [List.flatten_append, List.length_append]
    have huniq := chunk_split_unique (o - 48) hX
      (fun c hc => (h c (by rw [hBeq, ← List.append_assoc]; exact hc)).length_pos.1)
      (by omega) (fun c t hct => by have := hB2 c t hct; omega) hC1 hC2
    unfold excerptO
    rw [if_pos (by omega), if_pos (by omega), htC, hdrop, htB, ← huniq, hAB1, ← hdrop]
    have e1 : List.drop B1.flatten.length (List.drop A.flatten.length (A ++ B).flatten)
        = List.drop (A.flatten.length + B1.flatten.length) (A ++ B).flatten := by rw [List.drop_drop]
    have e2 : o - A.flatten.length - B1.flatten.length = o - (A.flatten.length + B1.flatten.length) := by omega
    simp only [e1, e2]

end Gojq.Cli

namespace Gojq.Cli
open Gojq

/-- pipe, rune-structured offending line, window starting on a rune boundary inside it with ≥ 48
    bytes of context and reaching the line's end: the report is the whole input's -/
theorem window_report_eq_whole_runes_aux (w : Nat → Nat) {inp : Bytes} {s : Win} {le : Nat} (h : WinInv inp s le)
    (F : Nat) (h1 : le < F) (h2 : F ≤ s.offset + s.buf.length) (hcr : NoLoneCR inp)
    (A B : List Bytes) (hline : trueLine inp (F - 1) = (A ++ B).flatten) (hrunes : ∀ c, c ∈ A ++ B → RuneChunk c)
    (hstart : s.offset = lineStart inp (F - 1) + A.flatten.length)
    (h48 : A.flatten.length + 48 ≤ min (F - 1 - lineStart inp (F - 1)) (trueLine inp (F - 1)).length)
    (hright : lineStart inp (F - 1) + (trueLine inp (F - 1)).length ≤ s.offset + s.buf.length) :
    s.report w (.syntax F) = wholeReport w inp (.syntax F) := by
  have hb := h.bound
  have hoff := h.le_end
  rw [window_report_clipped_aux w h F h1 h2 hcr]
  obtain ⟨P, rfl⟩ : ∃ P, F = P + 1 := ⟨F - 1, by omega⟩
  rw [Nat.add_sub_cancel] at *
  have hcast : ((P + 1 : Nat) : Int) = (P : Int) + 1 := by omega
  rw [hcast, wholeReport_syntax w inp P (by omega)]
  have hclip : excerptO (clipLine inp s.offset (s.offset + s.buf.length) P) (clipPos inp s.offset P P)
      = excerptO (trueLine inp P) (min (P - lineStart inp P) (trueLine inp P).length) := by
    unfold clipLine clipPos
    have hd : max (lineStart inp P) s.offset - lineStart inp P = A.flatten.length := by omega
    rw [hd, List.take_of_length_le (by omega), hline]
    rw [hline] at h48
    exact excerptO_drop_runes A B hrunes _ (by omega) h48
  unfold clippedReport
  rw [hclip]

end Gojq.Cli

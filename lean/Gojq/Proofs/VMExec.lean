/-
  What ONE instruction (`exec`, Model/VM.lean) can do to the part of the environment that the
  re-entry after an error depends on: the data stack stays well-formed, its array only grows,
  forks are only pushed and every pushed fork points into the stack; and what its control result
  guarantees.  Proved once per opcode by a small weakest-precondition calculus over the primitives.
-/
import Gojq.Proofs.VM
set_option linter.unusedSimpArgs false
set_option linter.unusedVariables false
namespace Gojq.VM

/-! ## weakest preconditions (partial correctness: a panic or `stuck` satisfies everything) -/

def wp {α : Type} (m : M α) (Q : α → Env → Prop) (e : Env) : Prop :=
  match m e with
  | .ok a e' => Q a e'
  | .panic _ => True
  | .stuck _ => True

theorem wp_pure {α : Type} {Q : α → Env → Prop} {a : α} {e : Env} (h : Q a e) : wp (pure a : M α) Q e := h

theorem wp_bind {α β : Type} {m : M α} {f : α → M β} {Q : β → Env → Prop} {e : Env}
    (h : wp m (fun a e' => wp (f a) Q e') e) : wp (m >>= f) Q e := by
  show wp (M.bind m f) Q e
  unfold wp M.bind at *
  cases hm : m e with
  | ok a e' => simp only [hm] at h ⊢; exact h
  | panic s => simp
  | stuck w => simp

theorem bind_ok {α β : Type} {m : M α} {f : α → M β} {e e2 : Env} {b : β} (h : (m >>= f) e = .ok b e2) :
    ∃ a e1, m e = .ok a e1 ∧ f a e1 = .ok b e2 := by
  have h' : M.bind m f e = .ok b e2 := h
  unfold M.bind at h'
  cases hm : m e with
  | ok a e1 => simp only [hm] at h'; exact ⟨a, e1, rfl, h'⟩
  | panic s => simp [hm] at h'
  | stuck w => simp [hm] at h'

/-! ## the invariant -/

def forkLike : Instr → Bool
  | .fork _ | .forktrybegin _ | .forktryend | .forkalt _ | .forklabel _ _ | .iter => true
  | _ => false

/-- opcodes that can `break loop` -/
def isBreaker : Instr → Bool
  | .object _ | .fork _ | .forktrybegin _ | .forktryend | .forkalt _ | .forklabel _ _ | .backtrack
  | .index _ | .indexarray _ | .call _ | .callNative _ _ | .ret | .iter | .pathend => true
  | _ => false

/-- stack.go's representation invariant: `index`, `limit` and every `next` link are -1 or a slot -/
def StackWF (s : Stack V) : Prop :=
  -1 ≤ s.index ∧ s.index < s.data.size ∧ -1 ≤ s.limit ∧ s.limit < s.data.size ∧
  ∀ (i : Nat) (h : i < s.data.size), -1 ≤ s.data[i].next ∧ s.data[i].next < s.data.size

/-- `env.pop()` will not panic -/
def TopOK (s : Stack V) : Prop := 0 ≤ s.index ∧ s.index < s.data.size

def GoodFork (ins : Instr) (pc0 : Int) (size : Nat) (f : Fork) : Prop :=
  f.pc = pc0 ∧ forkLike ins = true ∧ -1 ≤ f.stackindex ∧ f.stackindex < size ∧
  -1 ≤ f.stacklimit ∧ f.stacklimit < size ∧ (ins = .iter → 0 ≤ f.stackindex)

/-- what one instruction (`ins` at `pc0`) may do: the stack stays well-formed, its array only
    grows, forks are only pushed, and every pushed fork is good -/
def R (ins : Instr) (pc0 : Int) (e0 e : Env) : Prop :=
  StackWF e.stack ∧ e0.stack.data.size ≤ e.stack.data.size ∧
  ∃ new, e.forks = new ++ e0.forks ∧ ∀ f ∈ new, GoodFork ins pc0 e.stack.data.size f

theorem R.refl (ins : Instr) (pc0 : Int) (e : Env) (h : StackWF e.stack) : R ins pc0 e e :=
  ⟨h, Nat.le_refl _, [], rfl, by simp⟩

theorem GoodFork.mono {ins pc0} {n m : Nat} {f : Fork} (h : GoodFork ins pc0 n f) (hnm : n ≤ m) : GoodFork ins pc0 m f := by
  obtain ⟨a, b, c, d, e, g, i⟩ := h
  exact ⟨a, b, c, by omega, e, by omega, i⟩

/-- `m` keeps `R` and its result satisfies `φ` -/
def Spec {α : Type} (ins : Instr) (pc0 : Int) (φ : α → Prop) (m : M α) : Prop :=
  ∀ e0 e, R ins pc0 e0 e → wp m (fun a e' => R ins pc0 e0 e' ∧ φ a) e

theorem Spec.pure {α : Type} {ins pc0} {φ : α → Prop} {a : α} (h : φ a) : Spec ins pc0 φ (pure a : M α) :=
  fun _ _ hr => wp_pure ⟨hr, h⟩

theorem Spec.bind {α β : Type} {ins pc0} {φ : β → Prop} {m : M α} {f : α → M β}
    (hm : Spec ins pc0 (fun _ => True) m) (hf : ∀ a, Spec ins pc0 φ (f a)) : Spec ins pc0 φ (m >>= f) := by
  intro e0 e hr
  apply wp_bind
  have := hm e0 e hr
  unfold wp at this ⊢
  cases hme : m e with
  | ok a e' => simp only [hme] at this ⊢; exact hf a e0 e' this.1
  | panic s => trivial
  | stuck w => trivial

theorem Spec.panic {α : Type} {ins pc0} {φ : α → Prop} {s : Site} : Spec ins pc0 φ (panic s : M α) :=
  fun _ _ _ => by simp [wp, VM.panic]

theorem Spec.stuck {α : Type} {ins pc0} {φ : α → Prop} {w : String} : Spec ins pc0 φ (stuck w : M α) :=
  fun _ _ _ => by simp [wp, VM.stuck]

/-- a state transformer that keeps the data stack and the forks -/
theorem Spec.frame {α : Type} {ins pc0} {m : M α}
    (h : ∀ e a e', m e = .ok a e' → e'.stack = e.stack ∧ e'.forks = e.forks) :
    Spec ins pc0 (fun _ => True) m := by
  intro e0 e hr
  unfold wp
  cases hme : m e with
  | ok a e' =>
    have := h e a e' hme
    simp only
    obtain ⟨h0, h1, new, h2, h3⟩ := hr
    exact ⟨⟨by rw [this.1]; exact h0, by rw [this.1]; exact h1, new, by rw [this.2]; exact h2, by rw [this.1]; exact h3⟩, trivial⟩
  | panic s => trivial
  | stuck w => trivial

/-! ## the stack primitives -/

theorem Stack.push_size (s : Stack V) (v : V) : s.data.size ≤ (s.push v).data.size := by
  unfold Stack.push
  simp only
  split <;> simp

/-- pushing keeps the stack well-formed and leaves a poppable top -/
theorem Stack.push_wf (s : Stack V) (v : V) (h : StackWF s) : StackWF (s.push v) ∧ TopOK (s.push v) := by
  obtain ⟨h1, h2, h3, h4, h5⟩ := h
  unfold Stack.push
  simp only
  have hi0 : 0 ≤ max s.index s.limit + 1 := by omega
  have hile : max s.index s.limit + 1 ≤ s.data.size := by omega
  split
  · rename_i hlt
    have hlt' : max s.index s.limit + 1 < s.data.size := (Int.toNat_lt hi0).mp hlt
    refine ⟨⟨by simp only; omega, by simp only [Array.size_setIfInBounds]; exact hlt', h3, by simp only [Array.size_setIfInBounds]; exact h4, ?_⟩,
      ⟨hi0, by simp only [Array.size_setIfInBounds]; exact hlt'⟩⟩
    intro i hi
    simp only [Array.size_setIfInBounds] at hi ⊢
    rw [Array.getElem_setIfInBounds hi]
    split
    · exact ⟨h1, h2⟩
    · exact h5 i hi
  · rename_i hge
    have heq : max s.index s.limit + 1 = s.data.size := by
      have : ¬ (max s.index s.limit + 1 < s.data.size) := fun h => hge ((Int.toNat_lt hi0).mpr h)
      omega
    refine ⟨⟨by simp only; omega, by simp only [Array.size_push]; omega, h3, by simp only [Array.size_push]; omega, ?_⟩,
      ⟨hi0, by simp only [Array.size_push]; omega⟩⟩
    intro i hi
    simp only [Array.size_push] at hi ⊢
    rw [Array.getElem_push]
    split
    · rename_i hlt; have := h5 i hlt; omega
    · simp only; omega

theorem Stack.pop?_spec (s s' : Stack V) (v : V) (h : s.pop? = some (v, s')) (hw : StackWF s) :
    s'.data = s.data ∧ s'.limit = s.limit ∧ StackWF s' := by
  unfold Stack.pop? at h
  split at h
  · rename_i b hb
    simp at h; obtain ⟨_, rfl⟩ := h
    refine ⟨rfl, rfl, ?_⟩
    obtain ⟨h1, h2, h3, h4, h5⟩ := hw
    unfold Stack.blockAt? at hb
    split at hb
    · obtain ⟨hlt, hbe⟩ := Array.getElem?_eq_some_iff.mp hb
      have := h5 _ hlt
      rw [hbe] at this
      exact ⟨this.1, this.2, h3, h4, h5⟩
    · simp at hb
  · simp at h

theorem Stack.pop?_of_top (s : Stack V) (h : TopOK s) : ∃ v s', s.pop? = some (v, s') := by
  unfold Stack.pop? Stack.blockAt?
  have hlt : s.index.toNat < s.data.size := (Int.toNat_lt h.1).mpr h.2
  simp [h.1, hlt]

theorem Stack.save_spec (s : Stack V) (hw : StackWF s) :
    s.save.2.data = s.data ∧ s.save.2.index = s.index ∧ StackWF s.save.2 ∧ s.save.1 = (s.index, s.limit) := by
  obtain ⟨h1, h2, h3, h4, h5⟩ := hw
  unfold Stack.save
  simp only
  split
  · exact ⟨rfl, rfl, ⟨h1, h2, h1, h2, h5⟩, trivial⟩
  · exact ⟨rfl, rfl, ⟨h1, h2, h3, h4, h5⟩, trivial⟩

theorem Spec.push {ins pc0} (v : V) : Spec ins pc0 (fun _ => True) (push v) := by
  intro e0 e hr
  obtain ⟨h0, h1, new, h2, h3⟩ := hr
  have hs := Stack.push_size e.stack v
  exact ⟨⟨(Stack.push_wf e.stack v h0).1, Nat.le_trans h1 hs, new, h2, fun f hf => (h3 f hf).mono hs⟩, trivial⟩

theorem Spec.pop {ins pc0} : Spec ins pc0 (fun _ => True) pop := by
  intro e0 e hr
  obtain ⟨h0, h1, new, h2, h3⟩ := hr
  unfold wp VM.pop
  cases hp : e.stack.pop? with
  | none => simp
  | some p =>
    obtain ⟨v, s'⟩ := p
    obtain ⟨a, _, c⟩ := Stack.pop?_spec _ _ _ hp h0
    simp only
    exact ⟨⟨c, by rw [a]; exact h1, new, h2, by rw [a]; exact h3⟩, trivial⟩

theorem Spec.stackTop {ins pc0} : Spec ins pc0 (fun _ => True) stackTop := by
  apply Spec.frame; intro e a e' h; unfold VM.stackTop at h; split at h <;> simp_all
theorem Spec.pathsPush {ins pc0} (v : V) : Spec ins pc0 (fun _ => True) (pathsPush v) := by
  apply Spec.frame; intro e a e' h; simp [VM.pathsPush, modifyEnv] at h; obtain ⟨_, rfl⟩ := h; exact ⟨rfl, rfl⟩
theorem Spec.pathsPop {ins pc0} : Spec ins pc0 (fun _ => True) pathsPop := by
  apply Spec.frame; intro e a e' h; unfold VM.pathsPop at h; split at h <;> simp at h
  obtain ⟨_, rfl⟩ := h; exact ⟨rfl, rfl⟩
theorem Spec.pathsTop {ins pc0} : Spec ins pc0 (fun _ => True) pathsTop := by
  apply Spec.frame; intro e a e' h; unfold VM.pathsTop at h; split at h <;> simp_all
theorem Spec.envIndex {ins pc0} (a b : Int) : Spec ins pc0 (fun _ => True) (envIndex a b) := by
  apply Spec.frame; intro e a e' h; unfold VM.envIndex at h; split at h <;> simp_all
theorem Spec.getValue {ins pc0} (i : Int) : Spec ins pc0 (fun _ => True) (getValue i) := by
  apply Spec.frame; intro e a e' h; unfold VM.getValue at h
  split at h
  · split at h <;> simp_all
  · simp at h
theorem Spec.setValue {ins pc0} (i : Int) (v : V) : Spec ins pc0 (fun _ => True) (setValue i v) := by
  apply Spec.frame; intro e a e' h; unfold VM.setValue at h; split at h <;> simp at h
  obtain ⟨_, rfl⟩ := h; exact ⟨rfl, rfl⟩
theorem Spec.popscope {ins pc0} : Spec ins pc0 (fun _ => True) popscope := by
  apply Spec.frame; intro e a e' h; unfold VM.popscope at h; split at h <;> simp at h
  obtain ⟨_, rfl⟩ := h; exact ⟨rfl, rfl⟩
theorem Spec.extCall {ins pc0} (x : ExtRec) : Spec ins pc0 (fun _ => True) (extCall x) := by
  apply Spec.frame; intro e a e' h; unfold VM.extCall at h; split at h <;> simp_all
theorem Spec.getEnv {ins pc0} : Spec ins pc0 (fun _ => True) getEnv := by
  apply Spec.frame; intro e a e' h; simp [VM.getEnv] at h; obtain ⟨_, rfl⟩ := h; exact ⟨rfl, rfl⟩
theorem Spec.tracking {ins pc0} : Spec ins pc0 (fun _ => True) tracking := by
  apply Spec.frame; intro e a e' h; simp [VM.tracking] at h; obtain ⟨_, rfl⟩ := h; exact ⟨rfl, rfl⟩
theorem Spec.modify {ins pc0} (f : Env → Env) (h : ∀ e, (f e).stack = e.stack ∧ (f e).forks = e.forks) :
    Spec ins pc0 (fun _ => True) (modifyEnv f) := by
  apply Spec.frame; intro e a e' h'; simp only [modifyEnv] at h'; simp at h'; obtain ⟨_, rfl⟩ := h'; exact h e
theorem Spec.asJV {ins pc0} (v : V) : Spec ins pc0 (fun _ => True) (asJV v) := by
  unfold VM.asJV; split
  · exact Spec.pure trivial
  · exact Spec.stuck

/-- the environment after `pushfork pc0` -/
theorem pushfork_spec (pc0 : Int) (e : Env) (hw : StackWF e.stack) :
    ∃ f e', pushfork pc0 e = .ok () e' ∧ e'.forks = f :: e.forks ∧ e'.stack.data = e.stack.data ∧
      e'.stack.index = e.stack.index ∧ StackWF e'.stack ∧
      f.pc = pc0 ∧ f.stackindex = e.stack.index ∧ f.stacklimit = e.stack.limit := by
  obtain ⟨a, b, c, d⟩ := Stack.save_spec e.stack hw
  refine ⟨_, _, rfl, rfl, a, b, c, rfl, ?_, ?_⟩
  · show e.stack.save.1.1 = _; rw [d]
  · show e.stack.save.1.2 = _; rw [d]

/-- a bare `pushfork` is only made by the fork opcodes other than `opiter` -/
theorem Spec.pushfork {ins pc0} (h1 : forkLike ins = true) (h2 : ins ≠ .iter) :
    Spec ins pc0 (fun _ => True) (pushfork pc0) := by
  intro e0 e hr
  obtain ⟨h0, ha, new, hb, hc⟩ := hr
  obtain ⟨f, e', heq, hf1, hf2, hf3, hf4, hf5, hf6, hf7⟩ := pushfork_spec pc0 e h0
  unfold wp; rw [heq]; simp only
  refine ⟨⟨hf4, by rw [hf2]; exact ha, f :: new, by rw [hf1, hb]; rfl, ?_⟩, trivial⟩
  intro g hg
  simp only [List.mem_cons] at hg
  rw [hf2]
  rcases hg with rfl | hg
  · obtain ⟨w1, w2, w3, w4, _⟩ := h0
    exact ⟨hf5, h1, by omega, by omega, by omega, by omega, fun hi => absurd hi h2⟩
  · exact hc g hg

/-- `push v; pushfork pc; pop`: the fork's stack index is the pushed slot -/
theorem Spec.pushforkOver {ins pc0} (v : V) (h1 : forkLike ins = true) :
    Spec ins pc0 (fun _ => True) (pushforkOver v pc0) := by
  intro e0 e hr
  obtain ⟨h0, ha, new, hb, hc⟩ := hr
  have hs := Stack.push_size e.stack v
  obtain ⟨hw1, ht1⟩ := Stack.push_wf e.stack v h0
  have heq : VM.pushforkOver v pc0 = M.bind (VM.push v) (fun _ => M.bind (VM.pushfork pc0) (fun _ => M.bind VM.pop (fun _ => M.pure ()))) := rfl
  rw [heq]
  let e1 : Env := { e with stack := e.stack.push v }
  have hpush : VM.push v e = .ok () e1 := rfl
  obtain ⟨f, e2, hpf, hf1, hf2, hf3, hf4, hf5, hf6, hf7⟩ := pushfork_spec pc0 e1 hw1
  unfold wp M.bind
  rw [hpush]; simp only
  rw [hpf]; simp only
  unfold VM.pop
  cases hp : e2.stack.pop? with
  | none => simp
  | some p =>
    obtain ⟨w, s'⟩ := p
    obtain ⟨a, _, c⟩ := Stack.pop?_spec _ _ _ hp hf4
    simp only [M.pure]
    have hd : s'.data.size = (e.stack.push v).data.size := by rw [a, hf2]
    refine ⟨⟨c, by rw [hd]; exact Nat.le_trans ha hs, f :: new, by rw [hf1]; show f :: e.forks = _; rw [hb]; rfl, ?_⟩, trivial⟩
    intro g hg
    simp only [List.mem_cons] at hg
    rw [hd]
    rcases hg with rfl | hg
    · obtain ⟨w1, w2, w3, w4, _⟩ := hw1
      have hidx : g.stackindex = (e.stack.push v).index := hf6
      have hlim : g.stacklimit = (e.stack.push v).limit := hf7
      exact ⟨hf5, h1, by omega, by omega, by omega, by omega, fun _ => by rw [hidx]; exact ht1.1⟩
    · exact (hc g hg).mono hs

/-! ## composite helpers -/

/-- decompose a `do` block over the primitives -/
macro "vm_prim" : tactic => `(tactic| first
  | exact Spec.push _ | exact Spec.pop | exact Spec.stackTop | exact Spec.pathsPush _ | exact Spec.pathsPop
  | exact Spec.pathsTop | exact Spec.envIndex _ _ | exact Spec.getValue _ | exact Spec.setValue _ _
  | exact Spec.popscope | exact Spec.extCall _ | exact Spec.getEnv | exact Spec.tracking | exact Spec.asJV _
  | exact Spec.panic | exact Spec.stuck
  | (apply Spec.modify; intro e; exact ⟨rfl, rfl⟩))

macro "vm_steps" : tactic => `(tactic| repeat' (first
  | vm_prim
  | (apply Spec.pure; trivial)
  | refine Spec.bind ?_ (fun _ => ?_)
  | split))

theorem Spec.pathIntact {ins pc0} (x : ExtRec) : Spec ins pc0 (fun _ => True) (pathIntact x) := by
  unfold VM.pathIntact
  vm_steps

theorem Spec.objectLoop {ins pc0} (x : ExtRec) : ∀ (n : Nat) (m : List (Bytes × JV)),
    Spec ins pc0 (fun _ => True) (objectLoop x n m) := by
  intro n
  induction n with
  | zero => intro m; unfold VM.objectLoop; exact Spec.pure trivial
  | succ n ih =>
    intro m
    unfold VM.objectLoop
    apply Spec.bind Spec.pop; intro v
    apply Spec.bind Spec.pop; intro k
    split
    · apply Spec.bind (Spec.asJV _); intro j
      exact ih _
    · exact Spec.pure trivial

theorem Spec.popArgs {ins pc0} : ∀ (n : Nat), Spec ins pc0 (fun _ => True) (popArgs n) := by
  intro n
  induction n with
  | zero => unfold VM.popArgs; exact Spec.pure trivial
  | succ n ih =>
    unfold VM.popArgs
    apply Spec.bind Spec.pop; intro a
    apply Spec.bind ih; intro r
    exact Spec.pure trivial

theorem Spec.poppathsLoop {ins pc0} : ∀ (n : Nat) (acc : List JV), Spec ins pc0 (fun _ => True) (poppathsLoop n acc) := by
  intro n
  induction n with
  | zero => intro acc; unfold VM.poppathsLoop; exact Spec.stuck
  | succ n ih =>
    intro acc
    unfold VM.poppathsLoop
    apply Spec.bind Spec.pathsPop; intro p
    split
    · exact Spec.pure trivial
    · apply Spec.bind (Spec.asJV _); intro j
      exact ih _
    · exact Spec.panic

theorem Spec.poppaths {ins pc0} : Spec ins pc0 (fun _ => True) poppaths := by
  intro e0 e hr
  exact Spec.poppathsLoop _ _ e0 e hr

theorem Spec.pushPaths {ins pc0} (w : V) : ∀ (ps : List JV), Spec ins pc0 (fun _ => True) (pushPaths w ps) := by
  intro ps
  induction ps with
  | nil => unfold VM.pushPaths; exact Spec.pure trivial
  | cons p ps ih =>
    unfold VM.pushPaths
    apply Spec.bind (Spec.pathsPush _); intro _
    exact ih

/-! ## one instruction -/

/-- what the control result of one instruction guarantees: a `break loop` leaves `pc` at the
    instruction and only the listed opcodes break; every other way out of the `switch` has no
    pending error -/
def Post (ins : Instr) (l : L) : Ctl × L → Prop
  | (.brk, l') => l'.pc = l.pc ∧ isBreaker ins = true
  | (.fall, l') => l'.err = none
  | (.jump, l') => l'.err = none
  | (.ret _, _) => True

macro "vm_close" : tactic => `(tactic| (
  simp only [Post]
  first
  | trivial
  | exact ⟨rfl, rfl⟩
  | (simp_all [forkLike, isBreaker]; done)
  | (rename_i hl; cases hE : L.err _ <;> simp_all [forkLike, isBreaker]; done)))

macro "vm_exec" : tactic => `(tactic| repeat' (first
  | vm_prim
  | exact Spec.pathIntact _ | exact Spec.objectLoop _ _ _ | exact Spec.popArgs _ | exact Spec.poppaths
  | exact Spec.pushPaths _ _
  | exact Spec.pushfork rfl (by intro h; cases h)
  | exact Spec.pushforkOver _ rfl
  | (apply Spec.pure; trivial)
  | (apply Spec.pure; vm_close)
  | refine Spec.bind ?_ (fun _ => ?_)
  | split))

set_option maxHeartbeats 1000000 in
theorem exec_spec_nop  (x : ExtRec) (l : L)
    (hl : l.err.isSome = true → l.backtrack = true ∧ forkLike Instr.nop = true) :
    Spec Instr.nop l.pc (Post Instr.nop l) (exec Instr.nop x l) := by
  simp only [exec, exec.execIndex, iterEmit, iterInvalid, pathBroken]
  vm_exec

set_option maxHeartbeats 1000000 in
theorem exec_spec_push (v : JV) (x : ExtRec) (l : L)
    (hl : l.err.isSome = true → l.backtrack = true ∧ forkLike (Instr.push v) = true) :
    Spec (Instr.push v) l.pc (Post (Instr.push v) l) (exec (Instr.push v) x l) := by
  simp only [exec, exec.execIndex, iterEmit, iterInvalid, pathBroken]
  vm_exec

set_option maxHeartbeats 1000000 in
theorem exec_spec_pop  (x : ExtRec) (l : L)
    (hl : l.err.isSome = true → l.backtrack = true ∧ forkLike Instr.pop = true) :
    Spec Instr.pop l.pc (Post Instr.pop l) (exec Instr.pop x l) := by
  simp only [exec, exec.execIndex, iterEmit, iterInvalid, pathBroken]
  vm_exec

set_option maxHeartbeats 1000000 in
theorem exec_spec_dup  (x : ExtRec) (l : L)
    (hl : l.err.isSome = true → l.backtrack = true ∧ forkLike Instr.dup = true) :
    Spec Instr.dup l.pc (Post Instr.dup l) (exec Instr.dup x l) := by
  simp only [exec, exec.execIndex, iterEmit, iterInvalid, pathBroken]
  vm_exec

set_option maxHeartbeats 1000000 in
theorem exec_spec_const (v : JV) (x : ExtRec) (l : L)
    (hl : l.err.isSome = true → l.backtrack = true ∧ forkLike (Instr.const v) = true) :
    Spec (Instr.const v) l.pc (Post (Instr.const v) l) (exec (Instr.const v) x l) := by
  simp only [exec, exec.execIndex, iterEmit, iterInvalid, pathBroken]
  vm_exec

set_option maxHeartbeats 1000000 in
theorem exec_spec_load (a : Int) (b : Int) (x : ExtRec) (l : L)
    (hl : l.err.isSome = true → l.backtrack = true ∧ forkLike (Instr.load a b) = true) :
    Spec (Instr.load a b) l.pc (Post (Instr.load a b) l) (exec (Instr.load a b) x l) := by
  simp only [exec, exec.execIndex, iterEmit, iterInvalid, pathBroken]
  vm_exec

set_option maxHeartbeats 1000000 in
theorem exec_spec_store (a : Int) (b : Int) (x : ExtRec) (l : L)
    (hl : l.err.isSome = true → l.backtrack = true ∧ forkLike (Instr.store a b) = true) :
    Spec (Instr.store a b) l.pc (Post (Instr.store a b) l) (exec (Instr.store a b) x l) := by
  simp only [exec, exec.execIndex, iterEmit, iterInvalid, pathBroken]
  vm_exec

set_option maxHeartbeats 1000000 in
theorem exec_spec_object (n : Int) (x : ExtRec) (l : L)
    (hl : l.err.isSome = true → l.backtrack = true ∧ forkLike (Instr.object n) = true) :
    Spec (Instr.object n) l.pc (Post (Instr.object n) l) (exec (Instr.object n) x l) := by
  simp only [exec, exec.execIndex, iterEmit, iterInvalid, pathBroken]
  vm_exec

set_option maxHeartbeats 1000000 in
theorem exec_spec_append (a : Int) (b : Int) (x : ExtRec) (l : L)
    (hl : l.err.isSome = true → l.backtrack = true ∧ forkLike (Instr.append a b) = true) :
    Spec (Instr.append a b) l.pc (Post (Instr.append a b) l) (exec (Instr.append a b) x l) := by
  simp only [exec, exec.execIndex, iterEmit, iterInvalid, pathBroken]
  vm_exec

set_option maxHeartbeats 1000000 in
theorem exec_spec_fork (t : Int) (x : ExtRec) (l : L)
    (hl : l.err.isSome = true → l.backtrack = true ∧ forkLike (Instr.fork t) = true) :
    Spec (Instr.fork t) l.pc (Post (Instr.fork t) l) (exec (Instr.fork t) x l) := by
  simp only [exec, exec.execIndex, iterEmit, iterInvalid, pathBroken]
  vm_exec

set_option maxHeartbeats 1000000 in
theorem exec_spec_forktrybegin (t : Int) (x : ExtRec) (l : L)
    (hl : l.err.isSome = true → l.backtrack = true ∧ forkLike (Instr.forktrybegin t) = true) :
    Spec (Instr.forktrybegin t) l.pc (Post (Instr.forktrybegin t) l) (exec (Instr.forktrybegin t) x l) := by
  simp only [exec, exec.execIndex, iterEmit, iterInvalid, pathBroken]
  vm_exec

set_option maxHeartbeats 1000000 in
theorem exec_spec_forktryend  (x : ExtRec) (l : L)
    (hl : l.err.isSome = true → l.backtrack = true ∧ forkLike Instr.forktryend = true) :
    Spec Instr.forktryend l.pc (Post Instr.forktryend l) (exec Instr.forktryend x l) := by
  simp only [exec, exec.execIndex, iterEmit, iterInvalid, pathBroken]
  vm_exec

set_option maxHeartbeats 1000000 in
theorem exec_spec_forkalt (t : Int) (x : ExtRec) (l : L)
    (hl : l.err.isSome = true → l.backtrack = true ∧ forkLike (Instr.forkalt t) = true) :
    Spec (Instr.forkalt t) l.pc (Post (Instr.forkalt t) l) (exec (Instr.forkalt t) x l) := by
  simp only [exec, exec.execIndex, iterEmit, iterInvalid, pathBroken]
  vm_exec

set_option maxHeartbeats 1000000 in
theorem exec_spec_forklabel (a : Int) (b : Int) (x : ExtRec) (l : L)
    (hl : l.err.isSome = true → l.backtrack = true ∧ forkLike (Instr.forklabel a b) = true) :
    Spec (Instr.forklabel a b) l.pc (Post (Instr.forklabel a b) l) (exec (Instr.forklabel a b) x l) := by
  simp only [exec, exec.execIndex, iterEmit, iterInvalid, pathBroken]
  vm_exec

set_option maxHeartbeats 1000000 in
theorem exec_spec_backtrack  (x : ExtRec) (l : L)
    (hl : l.err.isSome = true → l.backtrack = true ∧ forkLike Instr.backtrack = true) :
    Spec Instr.backtrack l.pc (Post Instr.backtrack l) (exec Instr.backtrack x l) := by
  simp only [exec, exec.execIndex, iterEmit, iterInvalid, pathBroken]
  vm_exec

set_option maxHeartbeats 1000000 in
theorem exec_spec_jump (t : Int) (x : ExtRec) (l : L)
    (hl : l.err.isSome = true → l.backtrack = true ∧ forkLike (Instr.jump t) = true) :
    Spec (Instr.jump t) l.pc (Post (Instr.jump t) l) (exec (Instr.jump t) x l) := by
  simp only [exec, exec.execIndex, iterEmit, iterInvalid, pathBroken]
  vm_exec

set_option maxHeartbeats 1000000 in
theorem exec_spec_jumpifnot (t : Int) (x : ExtRec) (l : L)
    (hl : l.err.isSome = true → l.backtrack = true ∧ forkLike (Instr.jumpifnot t) = true) :
    Spec (Instr.jumpifnot t) l.pc (Post (Instr.jumpifnot t) l) (exec (Instr.jumpifnot t) x l) := by
  simp only [exec, exec.execIndex, iterEmit, iterInvalid, pathBroken]
  vm_exec

set_option maxHeartbeats 1000000 in
theorem exec_spec_index (k : JV) (x : ExtRec) (l : L)
    (hl : l.err.isSome = true → l.backtrack = true ∧ forkLike (Instr.index k) = true) :
    Spec (Instr.index k) l.pc (Post (Instr.index k) l) (exec (Instr.index k) x l) := by
  simp only [exec, exec.execIndex, iterEmit, iterInvalid, pathBroken]
  vm_exec

set_option maxHeartbeats 1000000 in
theorem exec_spec_indexarray (k : JV) (x : ExtRec) (l : L)
    (hl : l.err.isSome = true → l.backtrack = true ∧ forkLike (Instr.indexarray k) = true) :
    Spec (Instr.indexarray k) l.pc (Post (Instr.indexarray k) l) (exec (Instr.indexarray k) x l) := by
  simp only [exec, exec.execIndex, iterEmit, iterInvalid, pathBroken]
  vm_exec

set_option maxHeartbeats 1000000 in
theorem exec_spec_call (t : Int) (x : ExtRec) (l : L)
    (hl : l.err.isSome = true → l.backtrack = true ∧ forkLike (Instr.call t) = true) :
    Spec (Instr.call t) l.pc (Post (Instr.call t) l) (exec (Instr.call t) x l) := by
  simp only [exec, exec.execIndex, iterEmit, iterInvalid, pathBroken]
  vm_exec

set_option maxHeartbeats 1000000 in
theorem exec_spec_callNative (kd : NativeKind) (n : Int) (x : ExtRec) (l : L)
    (hl : l.err.isSome = true → l.backtrack = true ∧ forkLike (Instr.callNative kd n) = true) :
    Spec (Instr.callNative kd n) l.pc (Post (Instr.callNative kd n) l) (exec (Instr.callNative kd n) x l) := by
  simp only [exec, exec.execIndex, iterEmit, iterInvalid, pathBroken]
  vm_exec

set_option maxHeartbeats 1000000 in
theorem exec_spec_callrec (t : Int) (x : ExtRec) (l : L)
    (hl : l.err.isSome = true → l.backtrack = true ∧ forkLike (Instr.callrec t) = true) :
    Spec (Instr.callrec t) l.pc (Post (Instr.callrec t) l) (exec (Instr.callrec t) x l) := by
  simp only [exec, exec.execIndex, iterEmit, iterInvalid, pathBroken]
  vm_exec

set_option maxHeartbeats 1000000 in
theorem exec_spec_pushpc (t : Int) (x : ExtRec) (l : L)
    (hl : l.err.isSome = true → l.backtrack = true ∧ forkLike (Instr.pushpc t) = true) :
    Spec (Instr.pushpc t) l.pc (Post (Instr.pushpc t) l) (exec (Instr.pushpc t) x l) := by
  simp only [exec, exec.execIndex, iterEmit, iterInvalid, pathBroken]
  vm_exec

set_option maxHeartbeats 1000000 in
theorem exec_spec_callpc  (x : ExtRec) (l : L)
    (hl : l.err.isSome = true → l.backtrack = true ∧ forkLike Instr.callpc = true) :
    Spec Instr.callpc l.pc (Post Instr.callpc l) (exec Instr.callpc x l) := by
  simp only [exec, exec.execIndex, iterEmit, iterInvalid, pathBroken]
  vm_exec

set_option maxHeartbeats 1000000 in
theorem exec_spec_scope (a : Int) (b : Int) (c : Int) (x : ExtRec) (l : L)
    (hl : l.err.isSome = true → l.backtrack = true ∧ forkLike (Instr.scope a b c) = true) :
    Spec (Instr.scope a b c) l.pc (Post (Instr.scope a b c) l) (exec (Instr.scope a b c) x l) := by
  simp only [exec, exec.execIndex, iterEmit, iterInvalid, pathBroken]
  vm_exec

set_option maxHeartbeats 1000000 in
theorem exec_spec_ret  (x : ExtRec) (l : L)
    (hl : l.err.isSome = true → l.backtrack = true ∧ forkLike Instr.ret = true) :
    Spec Instr.ret l.pc (Post Instr.ret l) (exec Instr.ret x l) := by
  simp only [exec, exec.execIndex, iterEmit, iterInvalid, pathBroken]
  vm_exec

set_option maxHeartbeats 1000000 in
theorem exec_spec_iter  (x : ExtRec) (l : L)
    (hl : l.err.isSome = true → l.backtrack = true ∧ forkLike Instr.iter = true) :
    Spec Instr.iter l.pc (Post Instr.iter l) (exec Instr.iter x l) := by
  simp only [exec, exec.execIndex, iterEmit, iterInvalid, pathBroken]
  vm_exec

set_option maxHeartbeats 1000000 in
theorem exec_spec_expbegin  (x : ExtRec) (l : L)
    (hl : l.err.isSome = true → l.backtrack = true ∧ forkLike Instr.expbegin = true) :
    Spec Instr.expbegin l.pc (Post Instr.expbegin l) (exec Instr.expbegin x l) := by
  simp only [exec, exec.execIndex, iterEmit, iterInvalid, pathBroken]
  vm_exec

set_option maxHeartbeats 1000000 in
theorem exec_spec_expend  (x : ExtRec) (l : L)
    (hl : l.err.isSome = true → l.backtrack = true ∧ forkLike Instr.expend = true) :
    Spec Instr.expend l.pc (Post Instr.expend l) (exec Instr.expend x l) := by
  simp only [exec, exec.execIndex, iterEmit, iterInvalid, pathBroken]
  vm_exec

set_option maxHeartbeats 1000000 in
theorem exec_spec_pathbegin  (x : ExtRec) (l : L)
    (hl : l.err.isSome = true → l.backtrack = true ∧ forkLike Instr.pathbegin = true) :
    Spec Instr.pathbegin l.pc (Post Instr.pathbegin l) (exec Instr.pathbegin x l) := by
  simp only [exec, exec.execIndex, iterEmit, iterInvalid, pathBroken]
  vm_exec

set_option maxHeartbeats 1000000 in
theorem exec_spec_pathend  (x : ExtRec) (l : L)
    (hl : l.err.isSome = true → l.backtrack = true ∧ forkLike Instr.pathend = true) :
    Spec Instr.pathend l.pc (Post Instr.pathend l) (exec Instr.pathend x l) := by
  simp only [exec, exec.execIndex, iterEmit, iterInvalid, pathBroken]
  vm_exec

set_option maxHeartbeats 1000000 in
theorem exec_spec_bad  (x : ExtRec) (l : L)
    (hl : l.err.isSome = true → l.backtrack = true ∧ forkLike Instr.bad = true) :
    Spec Instr.bad l.pc (Post Instr.bad l) (exec Instr.bad x l) := by
  simp only [exec, exec.execIndex, iterEmit, iterInvalid, pathBroken]
  vm_exec

/-- every opcode keeps `R` and has the control guarantees of `Post` -/
theorem exec_spec (ins : Instr) (x : ExtRec) (l : L)
    (hl : l.err.isSome = true → l.backtrack = true ∧ forkLike ins = true) :
    Spec ins l.pc (Post ins l) (exec ins x l) := by
  cases ins with
  | nop  => exact exec_spec_nop  x l hl
  | push v => exact exec_spec_push v x l hl
  | pop  => exact exec_spec_pop  x l hl
  | dup  => exact exec_spec_dup  x l hl
  | const v => exact exec_spec_const v x l hl
  | load a b => exact exec_spec_load a b x l hl
  | store a b => exact exec_spec_store a b x l hl
  | object n => exact exec_spec_object n x l hl
  | append a b => exact exec_spec_append a b x l hl
  | fork t => exact exec_spec_fork t x l hl
  | forktrybegin t => exact exec_spec_forktrybegin t x l hl
  | forktryend  => exact exec_spec_forktryend  x l hl
  | forkalt t => exact exec_spec_forkalt t x l hl
  | forklabel a b => exact exec_spec_forklabel a b x l hl
  | backtrack  => exact exec_spec_backtrack  x l hl
  | jump t => exact exec_spec_jump t x l hl
  | jumpifnot t => exact exec_spec_jumpifnot t x l hl
  | index k => exact exec_spec_index k x l hl
  | indexarray k => exact exec_spec_indexarray k x l hl
  | call t => exact exec_spec_call t x l hl
  | callNative kd n => exact exec_spec_callNative kd n x l hl
  | callrec t => exact exec_spec_callrec t x l hl
  | pushpc t => exact exec_spec_pushpc t x l hl
  | callpc  => exact exec_spec_callpc  x l hl
  | scope a b c => exact exec_spec_scope a b c x l hl
  | ret  => exact exec_spec_ret  x l hl
  | iter  => exact exec_spec_iter  x l hl
  | expbegin  => exact exec_spec_expbegin  x l hl
  | expend  => exact exec_spec_expend  x l hl
  | pathbegin  => exact exec_spec_pathbegin  x l hl
  | pathend  => exact exec_spec_pathend  x l hl
  | bad  => exact exec_spec_bad  x l hl

end Gojq.VM

/-
  Round trip `refParse ∘ toks ∘ items = id` on Printable ASTs — basic notions:
  what may FOLLOW the printed tokens of a term / query without being absorbed by it
  (`followT`, `followQ`), the statements proved per syntactic class (`RTQ`, `RTT`, …), the
  operator-level facts of the documented table, and unfolding lemmas of the reference parser.
-/
import Gojq.Model.RefTermParser
namespace Gojq.RefTerm
open Gojq

/-! ### tokens of item lists -/

@[simp] theorem toks_nil : toks [] = [] := rfl
@[simp] theorem toks_t (x : Tok) (r : List Item) : toks (.t x :: r) = x :: toks r := rfl
@[simp] theorem toks_sp (r : List Item) : toks (.sp :: r) = toks r := rfl
@[simp] theorem toks_soft (r : List Item) : toks (.soft :: r) = toks r := rfl
@[simp] theorem toks_nl (r : List Item) : toks (.nl :: r) = toks r := rfl

@[simp] theorem toks_append (a b : List Item) : toks (a ++ b) = toks a ++ toks b := by
  induction a with
  | nil => rfl
  | cons x a ih => cases x <;> simp [toks, ih]

/-! ### what may follow -/

/-- the token does not start a suffix -/
def noSuf : Option Tok → Bool
  | some (.index _) => false
  | some (.ch 63) => false
  | some (.ch 91) => false
  | some (.ch 46) => false
  | _ => true

/-- `h` may follow the printed term `t`: it is not taken as part of it -/
def followT : Term → Option Tok → Bool
  | .identity, h => (match h with | some (.ch 91) => false | some (.str _) => false | some .strStart => false | _ => true)
  | .func _ [], h => (match h with | some (.ch 40) => false | _ => true)
  | .format _, h => (match h with | some (.str _) => false | some .strStart => false | _ => true)
  | .unary _ t, h => followT t h && noSuf h
  | .try_ (.term b), h => followT b h && noSuf h && (match h with | some (.kw .catch_) => false | _ => true)
  | .tryCatch _ (.term hd), h => followT hd h && noSuf h
  | _, _ => true

/-- `h` after the right operand of `o` is neither absorbed by it nor a non-associativity clash,
    and an `as` does not bind a source containing `|` or `,` -/
def opFollow (o : BOp) : Option Tok → Bool
  | none => true
  | some x =>
    match binopOfTok x with
    | some o' => decide (o'.lv < o.absorb)
    | none => !(x == .kw .as_) || decide (3 ≤ o.lv)

/-- `h` after a binding / definition / label body -/
def openFollow : Option Tok → Bool
  | none => true
  | some x => (binopOfTok x).isNone && !(x == .kw .as_)

/-- `h` may follow the printed query `q` -/
def followQ : Query → Option Tok → Bool
  | .term t, h => followT t h && noSuf h
  | .binop o _ r, h => followQ r h && opFollow o h
  | .bind _ _ b, h => followQ b h && openFollow h
  | .def_ _ q, h => followQ q h && openFollow h
  | .label _ b, h => followQ b h && openFollow h

/-- tokens that end every construct: closing brackets, `;`, `:`, `then` `elif` `else` `end`, the
    end of an interpolation -/
def stopTok : Tok → Bool
  | .ch 41 => true | .ch 93 => true | .ch 59 => true | .ch 58 => true | .ch 125 => true
  | .kw .then_ => true | .kw .elif_ => true | .kw .else_ => true | .kw .end_ => true
  | _ => false

/-- tokens that no term absorbs -/
def plainTok : Tok → Bool
  | .ch 91 => false | .ch 63 => false | .ch 46 => false | .ch 40 => false
  | .index _ => false | .str _ => false | .strStart => false | .kw .catch_ => false
  | _ => true

/-! ### the statements, per syntactic class (`d` = the exact fuel the descent uses) -/

def RTQ (q : Query) : Prop :=
  ∀ (item : Bool) (min : Nat) (rest : List Tok), okQ item min q = true → followQ q rest.head? = true →
    ∃ d F, ∀ f, F ≤ f → pClimb (f + d) item min (toks (itemsQ q) ++ rest) = pLoop f item min q rest

def RTT (t : Term) : Prop :=
  ∀ (rest : List Tok), okT t = true → followT t rest.head? = true →
    ∃ d F, ∀ f, F ≤ f → pTerm (f + d) (toks (itemsT t) ++ rest) = pSuf f t rest

/-- the tokens of a bracket suffix after its `[` -/
def RTBr (s : Suffix) : Prop :=
  ∀ (rest : List Tok), okSuf s = true →
    ∃ F, ∀ f, F ≤ f → pBracket f ((toks (itemsSuf false s)).drop 1 ++ rest) = some (s, rest)

def RTSuf (s : Suffix) : Prop :=
  ∀ (t : Term) (dot : Bool) (rest : List Tok), okSuf s = true →
    ∃ F, ∀ f, F ≤ f → pSuf (f + 1) t (toks (itemsSuf dot s) ++ rest) = pSuf f (.suf t s) rest

def RTParts (ps : List Part) : Prop :=
  ∀ (rest : List Tok), okParts ps = true →
    ∃ F, ∀ f, F ≤ f → pParts f (toks (itemsParts ps) ++ .strEnd :: rest) = some (ps, rest)

def RTArgsT (qs : List Query) : Prop :=
  ∀ (rest : List Tok), okQs qs = true →
    ∃ F, ∀ f, F ≤ f → pArgsT f (toks (itemsArgsT qs) ++ .ch 41 :: rest) = some (qs, rest)

def RTOV (v : Query) : Prop :=
  ∀ (rest : List Tok), okOV v = true → (rest.head? = some (.ch 44) ∨ rest.head? = some (.ch 125)) →
    ∃ F, ∀ f, F ≤ f → pObjVal f (toks (itemsQ v) ++ rest) = some (v, rest)

def RTKV (kv : KV) : Prop :=
  ∀ (rest : List Tok), okKV kv = true → (rest.head? = some (.ch 44) ∨ rest.head? = some (.ch 125)) →
    ∃ F, ∀ f, F ≤ f → pKV f (toks (itemsKV kv) ++ rest) = some (kv, rest)

/-- the printer closes an object with ` }` (no trailing comma) -/
def RTKVsT (kvs : List KV) : Prop :=
  ∀ (rest : List Tok), okKVs kvs = true →
    ∃ F, ∀ f, F ≤ f → pKVsT f (toks (itemsKVsT kvs) ++ .ch 125 :: rest) = some (kvs, rest)

def RTP (p : Pattern) : Prop :=
  ∀ (rest : List Tok), okP p = true →
    ∃ F, ∀ f, F ≤ f → pPattern f (toks (itemsP p) ++ rest) = some (p, rest)

def RTPsT (ps : List Pattern) : Prop :=
  ∀ (rest : List Tok), okPs ps = true →
    ∃ F, ∀ f, F ≤ f → pPsT f (toks (itemsPsT ps) ++ .ch 93 :: rest) = some (ps, rest)

def RTAltT (ps : List Pattern) : Prop :=
  ∀ (rest : List Tok), okPs ps = true → rest.head? ≠ some .destAlt →
    ∃ F, ∀ f, F ≤ f → pAltT f (toks (itemsAltT ps) ++ rest) = some (ps, rest)

def RTPKV (kv : PKV) : Prop :=
  ∀ (rest : List Tok), okPKV kv = true → (rest.head? = some (.ch 44) ∨ rest.head? = some (.ch 125)) →
    ∃ F, ∀ f, F ≤ f → pPKV f (toks (itemsPKV kv) ++ rest) = some (kv, rest)

def RTPKVsT (kvs : List PKV) : Prop :=
  ∀ (rest : List Tok), okPKVs kvs = true →
    ∃ F, ∀ f, F ≤ f → pPKVsT f (toks (itemsPKVsT kvs) ++ .ch 125 :: rest) = some (kvs, rest)

def RTIf (r : IfRest) : Prop :=
  ∀ (rest : List Tok), okIf r = true →
    ∃ F, ∀ f, F ≤ f → pIfRest f (toks (itemsIf r) ++ rest) = some (r, rest)

/-- after the `def` keyword -/
def RTFD (fd : FuncDef) : Prop :=
  ∀ (rest : List Tok), okFD fd = true →
    ∃ F, ∀ f, F ≤ f → pFuncDef f ((toks (itemsFD fd)).drop 1 ++ rest) = some (fd, rest)

/-! ### operator table facts -/

theorem binopOfTok_opTok (o : BOp) : binopOfTok (opTok o) = some o := by cases o <;> rfl

theorem opTok_ne_as (o : BOp) : (opTok o == Tok.kw .as_) = false := by cases o <;> rfl

theorem plainTok_opTok (o : BOp) : plainTok (opTok o) = true := by cases o <;> rfl

theorem noSuf_of_plain {x : Tok} (h : plainTok x = true) : noSuf (some x) = true := by
  unfold plainTok at h
  unfold noSuf
  split <;> simp_all

/-- the operator printed after a left operand whose root binds at least `o.lmin`: it is below the
    absorb level of every operator on that operand's right spine -/
theorem lv_lt_absorb (o o' : BOp) (h : o.lmin ≤ o'.lv) : o.lv < o'.absorb := by
  cases o <;> cases o' <;> revert h <;> decide

theorem lmin_le_rmin (o o' : BOp) (h : o.lmin ≤ o'.lv) : o.lmin ≤ o'.rmin := by
  cases o <;> cases o' <;> revert h <;> decide

theorem lv_le_rmin (o : BOp) : o.lv ≤ o.rmin := by cases o <;> decide
theorem lv_le_lmin (o : BOp) : o.lv ≤ o.lmin := by cases o <;> decide
theorem lv_le_absorb (o : BOp) : o.lv ≤ o.absorb := by cases o <;> decide
theorem lv_pos (o : BOp) : 1 ≤ o.lv := by cases o <;> decide

/-! ### a plain token may follow any term -/

theorem followT_plain : ∀ (t : Term) (x : Tok), plainTok x = true → followT t (some x) = true
  | .unary _ t, x, h => by
    simp only [followT, followT_plain t x h, noSuf_of_plain h, Bool.and_self]
  | .try_ (.term b), x, h => by
    simp only [followT, followT_plain b x h, noSuf_of_plain h, Bool.and_self, Bool.true_and]
    unfold plainTok at h; split <;> simp_all
  | .tryCatch _ (.term hd), x, h => by
    simp only [followT, followT_plain hd x h, noSuf_of_plain h, Bool.and_self]
  | .identity, x, h => by unfold plainTok at h; simp only [followT]; split <;> simp_all
  | .func _ [], x, h => by unfold plainTok at h; simp only [followT]; split <;> simp_all
  | .format _, x, h => by unfold plainTok at h; simp only [followT]; split <;> simp_all
  | .recurse, _, _ => rfl
  | .null, _, _ => rfl
  | .true_, _, _ => rfl
  | .false_, _, _ => rfl
  | .index _, _, _ => rfl
  | .func _ (_ :: _), _, _ => rfl
  | .object _, _, _ => rfl
  | .arrayEmpty, _, _ => rfl
  | .array _, _, _ => rfl
  | .number _, _, _ => rfl
  | .formatStr _ _, _, _ => rfl
  | .str _, _, _ => rfl
  | .if_ _ _ _, _, _ => rfl
  | .try_ (.binop _ _ _), _, _ => rfl
  | .try_ (.bind _ _ _), _, _ => rfl
  | .try_ (.def_ _ _), _, _ => rfl
  | .try_ (.label _ _), _, _ => rfl
  | .tryCatch _ (.binop _ _ _), _, _ => rfl
  | .tryCatch _ (.bind _ _ _), _, _ => rfl
  | .tryCatch _ (.def_ _ _), _, _ => rfl
  | .tryCatch _ (.label _ _), _, _ => rfl
  | .reduce _ _ _ _, _, _ => rfl
  | .foreach _ _ _ _, _, _ => rfl
  | .foreach3 _ _ _ _ _, _, _ => rfl
  | .break_ _, _, _ => rfl
  | .paren _, _, _ => rfl
  | .suf _ _, _, _ => rfl

theorem followT_none : ∀ (t : Term), followT t none = true
  | .unary _ t => by simp only [followT, followT_none t, noSuf, Bool.and_self]
  | .try_ (.term b) => by simp only [followT, followT_none b, noSuf, Bool.and_self]
  | .tryCatch _ (.term hd) => by simp only [followT, followT_none hd, noSuf, Bool.and_self]
  | .identity => rfl
  | .func _ [] => rfl
  | .format _ => rfl
  | .recurse => rfl
  | .null => rfl
  | .true_ => rfl
  | .false_ => rfl
  | .index _ => rfl
  | .func _ (_ :: _) => rfl
  | .object _ => rfl
  | .arrayEmpty => rfl
  | .array _ => rfl
  | .number _ => rfl
  | .formatStr _ _ => rfl
  | .str _ => rfl
  | .if_ _ _ _ => rfl
  | .try_ (.binop _ _ _) => rfl
  | .try_ (.bind _ _ _) => rfl
  | .try_ (.def_ _ _) => rfl
  | .try_ (.label _ _) => rfl
  | .tryCatch _ (.binop _ _ _) => rfl
  | .tryCatch _ (.bind _ _ _) => rfl
  | .tryCatch _ (.def_ _ _) => rfl
  | .tryCatch _ (.label _ _) => rfl
  | .reduce _ _ _ _ => rfl
  | .foreach _ _ _ _ => rfl
  | .foreach3 _ _ _ _ _ => rfl
  | .break_ _ => rfl
  | .paren _ => rfl
  | .suf _ _ => rfl

end Gojq.RefTerm

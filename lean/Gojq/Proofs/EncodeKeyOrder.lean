/-
  C11 `encode_key_order` — helper definitions and lemmas: the order in which the two encoders
  (encoder.go = `Encode.encodeValue`, cli/encoder.go = `Encode.Cli.enc` / `Cli.render`) write the
  members of an object is the order of `keys`.

  1. sorted association lists: a strictly sorted permutation of distinct keys is unique
     (`sorted_perm_unique`), `JV.mkObj` builds it from any enumeration (`mkObj_spec`);
  2. the Go code `for k, v := range vs {…}; sort.Slice(kvs, key <); for … {write}` with the map
     enumeration order and the sorting algorithm as parameters (`encodeObjectGo`);
  3. the library encoder's text of an object, member by member (`encodeValue_obj_members`);
  4. the command encoder's layout of an object, member by member (`render_obj_members`);
  5. nested values are contiguous segments of the output (`encodeValue_segment`, `render_segment`);
  6. the member order seen by a reader of the text (`readBack_sameKeys`);
  7. `to_entries` as builtin.jq defines it (`toEntriesJq`).
  Core Lean only.
-/
import Gojq.Proofs.Sort
import Gojq.Proofs.Encode
import Gojq.Proofs.EncodeParse
import Gojq.Model.Native.Ops
namespace Gojq.KeyOrder
open Gojq Gojq.Encode

/-! ### 1. sorted association lists -/

/-- keys strictly increasing bytewise (Go's `<` on strings), every pair -/
def Sorted (l : List (Bytes × JV)) : Prop := l.Pairwise (fun a b => Bytes.cmp a.1 b.1 = .lt)

/-- no key occurs twice (a Go map) -/
def Distinct (l : List (Bytes × JV)) : Prop := l.Pairwise (fun a b => a.1 ≠ b.1)

theorem sorted_of_kvSorted : ∀ l : List (Bytes × JV), kvSorted l = true → Sorted l
  | [], _ => List.Pairwise.nil
  | (k, v) :: rest, h =>
    List.pairwise_cons.mpr ⟨fun kv hkv => kvSorted_head_lt rest k v h kv hkv, sorted_of_kvSorted rest (kvSorted_tail rest k v h)⟩

theorem kvSorted_of_sorted : ∀ l : List (Bytes × JV), Sorted l → kvSorted l = true
  | [], _ => rfl
  | [_], _ => rfl
  | (k, v) :: (k', v') :: rest, h => by
    have h' := List.pairwise_cons.mp h
    simp only [kvSorted, Bool.and_eq_true, Bytes.lt_iff]
    exact ⟨h'.1 (k', v') (by simp), kvSorted_of_sorted ((k', v') :: rest) h'.2⟩

theorem kvSorted_iff (l : List (Bytes × JV)) : kvSorted l = true ↔ Sorted l :=
  ⟨sorted_of_kvSorted l, kvSorted_of_sorted l⟩

theorem bcmp_irrefl (a : Bytes) : Bytes.cmp a a ≠ .lt := by rw [Bytes.cmp_refl]; decide

theorem bcmp_asymm {a b : Bytes} (h : Bytes.cmp a b = .lt) : Bytes.cmp b a ≠ .lt := by
  rw [Bytes.cmp_swap a b, h]; decide

theorem bcmp_trans {a b c : Bytes} (h1 : Bytes.cmp a b = .lt) (h2 : Bytes.cmp b c = .lt) : Bytes.cmp a c = .lt := by
  have := Bytes.cmp_compat a b c
  rw [h1, h2] at this
  cases h : Bytes.cmp a c <;> simp_all [compat]

theorem sorted_distinct {l : List (Bytes × JV)} (h : Sorted l) : Distinct l := by
  refine List.Pairwise.imp ?_ h
  intro a b hab he
  rw [he] at hab
  exact bcmp_irrefl _ hab

/-- THE SORTED ORDER IS UNIQUE: two strictly sorted lists with the same members are equal — so
    whatever correct algorithm `sort.Slice` is, and whatever order the map was enumerated in, the
    slice it leaves is this one list -/
theorem sorted_perm_unique : ∀ (a b : List (Bytes × JV)), Sorted a → Sorted b → a.Perm b → a = b
  | [], b, _, _, h => (List.Perm.nil_eq h)
  | x :: xs, [], _, _, h => absurd h.symm (by simp)
  | x :: xs, y :: ys, ha, hb, h => by
    have ha' := List.pairwise_cons.mp ha
    have hb' := List.pairwise_cons.mp hb
    have hxy : x = y := by
      have hx : x ∈ y :: ys := h.subset (by simp)
      have hy : y ∈ x :: xs := h.symm.subset (by simp)
      rcases List.mem_cons.mp hx with hx | hx
      · exact hx
      · rcases List.mem_cons.mp hy with hy | hy
        · exact hy.symm
        · exact absurd (hb'.1 x hx) (bcmp_asymm (ha'.1 y hy))
    subst hxy
    rw [sorted_perm_unique xs ys ha'.2 hb'.2 (List.Perm.cons_inv h)]

theorem kvInsert_mem {k : Bytes} {v : JV} : ∀ {l : List (Bytes × JV)} {p : Bytes × JV},
    p ∈ kvInsert k v l → p = (k, v) ∨ p ∈ l
  | [], p, h => by simp [kvInsert] at h; exact Or.inl h
  | (k', v') :: rest, p, h => by
    simp only [kvInsert] at h
    split at h
    · rcases List.mem_cons.mp h with h | h
      · exact Or.inl h
      · exact Or.inr h
    · rcases List.mem_cons.mp h with h | h
      · exact Or.inl h
      · exact Or.inr (List.mem_cons_of_mem _ h)
    · rcases List.mem_cons.mp h with h | h
      · exact Or.inr (by rw [h]; simp)
      · rcases kvInsert_mem h with h | h
        · exact Or.inl h
        · exact Or.inr (List.mem_cons_of_mem _ h)

theorem kvInsert_sorted (k : Bytes) (v : JV) : ∀ l : List (Bytes × JV), Sorted l → Sorted (kvInsert k v l)
  | [], _ => by simp [kvInsert, Sorted]
  | (k', v') :: rest, h => by
    have h' := List.pairwise_cons.mp h
    simp only [kvInsert]
    split
    · rename_i hlt
      refine List.pairwise_cons.mpr ⟨fun p hp => ?_, h⟩
      rcases List.mem_cons.mp hp with hp | hp
      · rw [hp]; exact hlt
      · exact bcmp_trans hlt (h'.1 p hp)
    · rename_i heq
      have hk : k = k' := (Bytes.cmp_eq_iff k k').mp heq
      subst hk
      exact List.pairwise_cons.mpr ⟨h'.1, h'.2⟩
    · rename_i hgt
      have hlt : Bytes.cmp k' k = .lt := by rw [Bytes.cmp_swap k k', hgt]; rfl
      refine List.pairwise_cons.mpr ⟨fun p hp => ?_, kvInsert_sorted k v rest h'.2⟩
      rcases kvInsert_mem hp with hp | hp
      · rw [hp]; exact hlt
      · exact h'.1 p hp

theorem kvInsert_perm (k : Bytes) (v : JV) : ∀ l : List (Bytes × JV), (∀ p ∈ l, p.1 ≠ k) →
    (kvInsert k v l).Perm ((k, v) :: l)
  | [], _ => by simp [kvInsert]
  | (k', v') :: rest, h => by
    simp only [kvInsert]
    split
    · exact List.Perm.refl _
    · rename_i heq
      exact absurd ((Bytes.cmp_eq_iff k k').mp heq).symm (h (k', v') (by simp))
    · exact ((kvInsert_perm k v rest (fun p hp => h p (List.mem_cons_of_mem _ hp))).cons (k', v')).trans
        (List.Perm.swap _ _ _)

theorem foldl_insert_spec : ∀ (entries acc : List (Bytes × JV)), Distinct entries → Sorted acc →
    (∀ p ∈ entries, ∀ q ∈ acc, q.1 ≠ p.1) →
    Sorted (entries.foldl (fun acc (kv : Bytes × JV) => kvInsert kv.1 kv.2 acc) acc) ∧
    (entries.foldl (fun acc (kv : Bytes × JV) => kvInsert kv.1 kv.2 acc) acc).Perm (entries ++ acc)
  | [], acc, _, hs, _ => ⟨hs, by simp⟩
  | (k, v) :: rest, acc, hd, hs, hne => by
    have hd' := List.pairwise_cons.mp hd
    have hp := kvInsert_perm k v acc (fun q hq => hne (k, v) (by simp) q hq)
    have := foldl_insert_spec rest (kvInsert k v acc) hd'.2 (kvInsert_sorted k v acc hs) (by
      intro p hp' q hq
      rcases kvInsert_mem hq with hq | hq
      · rw [hq]; exact hd'.1 p hp'
      · exact hne p (List.mem_cons_of_mem _ hp') q hq)
    refine ⟨this.1, this.2.trans ?_⟩
    simp only [List.cons_append]
    exact ((List.perm_append_left_iff rest).mpr hp).trans List.perm_middle

/-- `JV.mkObj` (how the wire parser and the models build an object from a Go map) yields, from ANY
    enumeration of a map's entries, the strictly sorted list of those entries -/
theorem mkObj_spec (entries : List (Bytes × JV)) (hd : Distinct entries) :
    ∃ kvs, JV.mkObj entries = .obj kvs ∧ kvSorted kvs = true ∧ kvs.Perm entries := by
  have := foldl_insert_spec entries [] hd List.Pairwise.nil (by intro _ _ q hq; cases hq)
  refine ⟨_, rfl, kvSorted_of_sorted _ this.1, ?_⟩
  simpa using this.2

/-! ### 2. the Go code, with the map enumeration and the sorting algorithm as parameters -/

/-- `encodeObject` of encoder.go on a Go map whose `range` enumerates the entries in the order
    `entries` (unspecified in Go): copy them to a slice, `sort.Slice` it by key, write it.
    `sortSlice` stands for `sort.Slice(kvs, func(i, j) { return kvs[i].key < kvs[j].key })`. -/
def encodeObjectGo (sortSlice : List (Bytes × JV) → List (Bytes × JV)) (entries : List (Bytes × JV)) : Bytes :=
  cLBrace :: (encodeMembers (sortSlice entries) ++ [cRBrace])

/-- what `sort.Slice` with the comparison `key_i < key_j` guarantees on distinct keys: a
    rearrangement that is increasing -/
def SortsByKey (sortSlice : List (Bytes × JV) → List (Bytes × JV)) : Prop :=
  ∀ l, Distinct l → (sortSlice l).Perm l ∧ Sorted (sortSlice l)

/-- insertion sort by key: one function that meets `SortsByKey` -/
def insertionSort (l : List (Bytes × JV)) : List (Bytes × JV) :=
  l.foldl (fun acc (kv : Bytes × JV) => kvInsert kv.1 kv.2 acc) []

theorem insertionSort_sorts : SortsByKey insertionSort := by
  intro l hd
  have := foldl_insert_spec l [] hd List.Pairwise.nil (by intro _ _ q hq; cases hq)
  exact ⟨by simpa [insertionSort] using this.2, this.1⟩

/-- whatever order the map is enumerated in and whatever the sorting algorithm, the Go code
    writes the text the model encoder writes for the object (the strictly sorted list) -/
theorem encodeObjectGo_eq (sortSlice : List (Bytes × JV) → List (Bytes × JV)) (hs : SortsByKey sortSlice)
    (kvs entries : List (Bytes × JV)) (hk : kvSorted kvs = true) (hp : entries.Perm kvs) :
    encodeObjectGo sortSlice entries = encodeValue (.obj kvs) := by
  have hsk := sorted_of_kvSorted kvs hk
  have hd : Distinct entries := by
    have hdk : Distinct kvs := sorted_distinct hsk
    unfold Distinct at hdk ⊢
    exact (hp.pairwise_iff (R := fun a b => a.1 ≠ b.1) (fun h => Ne.symm h)).mpr hdk
  obtain ⟨h1, h2⟩ := hs entries hd
  have := sorted_perm_unique _ _ h2 hsk (h1.trans hp)
  simp only [encodeObjectGo, this, encodeValue]

/-! ### 3. the library encoder's text, member by member -/

/-- texts joined by commas -/
def joinComma : List Bytes → Bytes
  | [] => []
  | [a] => a
  | a :: b :: rest => a ++ cComma :: joinComma (b :: rest)

/-- the text of one member: key, colon, value -/
def memberText (k v : JV) : Bytes := encodeValue k ++ cColon :: encodeValue v

theorem encodeMembers_join : ∀ kvs : List (Bytes × JV),
    encodeMembers kvs = joinComma (List.zipWith memberText (kvs.map (fun kv => JV.str kv.1)) (kvs.map (·.2)))
  | [] => by simp [encodeMembers, joinComma]
  | [(k, x)] => by simp [encodeMembers, joinComma, memberText, encodeValue]
  | (k, x) :: y :: rest => by
    have ih := encodeMembers_join (y :: rest)
    simp only [List.map_cons, List.zipWith_cons_cons] at ih ⊢
    simp only [encodeMembers, joinComma, memberText, encodeValue, ih, List.append_assoc, List.cons_append]

/-- the library encoder writes `{`, then for i = 0, 1, … the i-th element of `ks` followed by `:`
    and the i-th element of `vs`, separated by commas, then `}` — where `ks` is what `keys`
    returns for the object and `vs` is what `[.[]]` returns -/
theorem encodeValue_obj_members (kvs : List (Bytes × JV)) :
    ∃ ks vs, keys (.obj kvs) = .ok (.arr ks) ∧ iterValues (.obj kvs) = .ok (.arr vs) ∧ ks.length = vs.length ∧
      encodeValue (.obj kvs) = cLBrace :: (joinComma (List.zipWith memberText ks vs) ++ [cRBrace]) :=
  ⟨_, _, rfl, rfl, by simp, by simp only [encodeValue, encodeMembers_join]⟩

/-! ### 4. the command encoder's layout, member by member -/

open Gojq.Encode.Cli in
/-- the layout of the members `ks[i] : vs[i]` at nesting level `level`: comma (not before the
    first), newline + indentation, coloured key, coloured colon, a space when indenting, the value -/
def cliMembers (o : Opts) (level : Nat) : List JV → List JV → Bool → Bytes
  | k :: ks, x :: xs, first =>
    (if first then [] else tok [cComma] (o.col (·.object))) ++ newline o level
      ++ tok (encodeValue k) (o.col (·.objectKey)) ++ tok [cColon] (o.col (·.object))
      ++ (if o.indent ≥ 0 then [cSpace] else []) ++ render o level x ++ cliMembers o level ks xs false
  | _, _, _ => []

open Gojq.Encode.Cli in
theorem renderMembers_keys_values (o : Opts) (level : Nat) : ∀ (kvs : List (Bytes × JV)) (first : Bool),
    renderMembers o level kvs first = cliMembers o level (kvs.map (fun kv => JV.str kv.1)) (kvs.map (·.2)) first
  | [], _ => by simp [renderMembers, cliMembers]
  | (k, x) :: rest, first => by
    simp only [renderMembers, List.map_cons, cliMembers, encodeValue, renderMembers_keys_values o level rest false]

open Gojq.Encode.Cli in
/-- the command's encoder (every option record: compact or any indent, tabs or spaces, colours or
    not) writes the members `ks[i] : vs[i]` for i = 0, 1, … with `ks` from `keys` and `vs` from
    `[.[]]`; the bytes are those of the real `Write` calls (`marshalChunks`, flushes included) -/
theorem render_obj_members (o : Opts) (level : Nat) (kvs : List (Bytes × JV)) :
    ∃ ks vs, keys (.obj kvs) = .ok (.arr ks) ∧ iterValues (.obj kvs) = .ok (.arr vs) ∧ ks.length = vs.length ∧
      render o level (.obj kvs) =
        tok [cLBrace] (o.col (·.object)) ++ cliMembers o (level + 1) ks vs true
          ++ (if kvs.isEmpty then [] else newline o level) ++ tok [cRBrace] (o.col (·.object)) :=
  ⟨_, _, rfl, rfl, by simp, by simp only [render, renderMembers_keys_values]⟩

/-! ### 5. nested values are contiguous segments of the output -/

/-- `o` occurs in `v` as a sub-value, `d` levels down -/
inductive Sub (o : JV) : Nat → JV → Prop
  | refl : Sub o 0 o
  | elem {xs : List JV} {x : JV} {d : Nat} : x ∈ xs → Sub o d x → Sub o (d + 1) (.arr xs)
  | member {kvs : List (Bytes × JV)} {k : Bytes} {x : JV} {d : Nat} : (k, x) ∈ kvs → Sub o d x → Sub o (d + 1) (.obj kvs)

theorem encodeElems_segment : ∀ (xs : List JV) (x : JV), x ∈ xs →
    ∃ pre post, encodeElems xs = pre ++ encodeValue x ++ post
  | [], _, h => by cases h
  | [y], x, h => by
    have : x = y := by simpa using h
    subst this
    exact ⟨[], [], by simp [encodeElems]⟩
  | y :: z :: rest, x, h => by
    rcases List.mem_cons.mp h with h | h
    · subst h
      exact ⟨[], cComma :: encodeElems (z :: rest), by simp [encodeElems]⟩
    · obtain ⟨pre, post, he⟩ := encodeElems_segment (z :: rest) x h
      exact ⟨encodeValue y ++ cComma :: pre, post, by simp [encodeElems, he]⟩

theorem encodeMembers_segment : ∀ (kvs : List (Bytes × JV)) (k : Bytes) (x : JV), (k, x) ∈ kvs →
    ∃ pre post, encodeMembers kvs = pre ++ encodeValue x ++ post
  | [], _, _, h => by cases h
  | [(l, y)], k, x, h => by
    have : (k, x) = (l, y) := by simpa using h
    simp only [Prod.mk.injEq] at this
    obtain ⟨rfl, rfl⟩ := this
    exact ⟨encodeString k ++ [cColon], [], by simp [encodeMembers]⟩
  | (l, y) :: z :: rest, k, x, h => by
    rcases List.mem_cons.mp h with h | h
    · simp only [Prod.mk.injEq] at h
      obtain ⟨rfl, rfl⟩ := h
      exact ⟨encodeString k ++ [cColon], cComma :: encodeMembers (z :: rest), by simp [encodeMembers]⟩
    · obtain ⟨pre, post, he⟩ := encodeMembers_segment (z :: rest) k x h
      exact ⟨encodeString l ++ cColon :: (encodeValue y ++ cComma :: pre), post, by simp [encodeMembers, he]⟩

/-- the text of every nested value is a contiguous segment of the text of the whole value, so
    what is said about `encodeValue (.obj kvs)` holds at every nesting level -/
theorem encodeValue_segment {o v : JV} {d : Nat} (h : Sub o d v) : ∃ pre post, encodeValue v = pre ++ encodeValue o ++ post := by
  induction h with
  | refl => exact ⟨[], [], by simp⟩
  | elem hx _ ih =>
    obtain ⟨p1, q1, h1⟩ := ih
    obtain ⟨p2, q2, h2⟩ := encodeElems_segment _ _ hx
    exact ⟨cLBrack :: (p2 ++ p1), q1 ++ q2 ++ [cRBrack], by simp [encodeValue, h2, h1]⟩
  | member hx _ ih =>
    obtain ⟨p1, q1, h1⟩ := ih
    obtain ⟨p2, q2, h2⟩ := encodeMembers_segment _ _ _ hx
    exact ⟨cLBrace :: (p2 ++ p1), q1 ++ q2 ++ [cRBrace], by simp [encodeValue, h2, h1]⟩

open Gojq.Encode.Cli in
theorem renderElems_segment (o : Opts) (level : Nat) : ∀ (xs : List JV) (first : Bool) (x : JV), x ∈ xs →
    ∃ pre post, renderElems o level xs first = pre ++ render o level x ++ post
  | [], _, _, h => by cases h
  | y :: rest, first, x, h => by
    rcases List.mem_cons.mp h with h | h
    · subst h
      exact ⟨(if first then [] else tok [cComma] (o.col (·.array))) ++ newline o level, renderElems o level rest false,
        by simp [renderElems]⟩
    · obtain ⟨pre, post, he⟩ := renderElems_segment o level rest false x h
      exact ⟨(if first then [] else tok [cComma] (o.col (·.array))) ++ newline o level ++ render o level y ++ pre, post,
        by simp [renderElems, he]⟩

open Gojq.Encode.Cli in
theorem renderMembers_segment (o : Opts) (level : Nat) : ∀ (kvs : List (Bytes × JV)) (first : Bool) (k : Bytes) (x : JV),
    (k, x) ∈ kvs → ∃ pre post, renderMembers o level kvs first = pre ++ render o level x ++ post
  | [], _, _, _, h => by cases h
  | (l, y) :: rest, first, k, x, h => by
    rcases List.mem_cons.mp h with h | h
    · simp only [Prod.mk.injEq] at h
      obtain ⟨rfl, rfl⟩ := h
      exact ⟨(if first then [] else tok [cComma] (o.col (·.object))) ++ newline o level
          ++ tok (encodeString k) (o.col (·.objectKey)) ++ tok [cColon] (o.col (·.object))
          ++ (if o.indent ≥ 0 then [cSpace] else []), renderMembers o level rest false,
        by simp only [renderMembers, List.append_assoc]⟩
    · obtain ⟨pre, post, he⟩ := renderMembers_segment o level rest false k x h
      exact ⟨(if first then [] else tok [cComma] (o.col (·.object))) ++ newline o level
          ++ tok (encodeString l) (o.col (·.objectKey)) ++ tok [cColon] (o.col (·.object))
          ++ (if o.indent ≥ 0 then [cSpace] else []) ++ render o level y ++ pre, post,
        by simp only [renderMembers, he, List.append_assoc]⟩

open Gojq.Encode.Cli in
/-- in the command's layout a value nested `d` levels down is laid out as a contiguous segment,
    at nesting level `level + d` -/
theorem render_segment (o : Opts) {sub v : JV} {d : Nat} (h : Sub sub d v) :
    ∀ level, ∃ pre post, render o level v = pre ++ render o (level + d) sub ++ post := by
  induction h with
  | refl => intro level; exact ⟨[], [], by simp⟩
  | @elem xs x d hx _ ih =>
    intro level
    obtain ⟨p1, q1, h1⟩ := ih (level + 1)
    obtain ⟨p2, q2, h2⟩ := renderElems_segment o (level + 1) xs true x hx
    refine ⟨tok [cLBrack] (o.col (·.array)) ++ p2 ++ p1,
      q1 ++ q2 ++ (if xs.isEmpty then [] else newline o level) ++ tok [cRBrack] (o.col (·.array)), ?_⟩
    have e : level + (d + 1) = level + 1 + d := by omega
    simp only [render, h2, h1, e, List.append_assoc]
  | @member kvs k x d hx _ ih =>
    intro level
    obtain ⟨p1, q1, h1⟩ := ih (level + 1)
    obtain ⟨p2, q2, h2⟩ := renderMembers_segment o (level + 1) kvs true k x hx
    refine ⟨tok [cLBrace] (o.col (·.object)) ++ p2 ++ p1,
      q1 ++ q2 ++ (if kvs.isEmpty then [] else newline o level) ++ tok [cRBrace] (o.col (·.object)), ?_⟩
    have e : level + (d + 1) = level + 1 + d := by omega
    simp only [render, h2, h1, e, List.append_assoc]

theorem wfList_mem : ∀ (xs : List JV) (x : JV), JV.wfList xs = true → x ∈ xs → x.wf = true
  | [], _, _, h => by cases h
  | y :: rest, x, hw, h => by
    simp only [JV.wfList, Bool.and_eq_true] at hw
    rcases List.mem_cons.mp h with h | h
    · rw [h]; exact hw.1
    · exact wfList_mem rest x hw.2 h

theorem wfKvs_mem : ∀ (kvs : List (Bytes × JV)) (k : Bytes) (x : JV), JV.wfKvs kvs = true → (k, x) ∈ kvs → x.wf = true
  | [], _, _, _, h => by cases h
  | (l, y) :: rest, k, x, hw, h => by
    simp only [JV.wfKvs, Bool.and_eq_true] at hw
    rcases List.mem_cons.mp h with h | h
    · simp only [Prod.mk.injEq] at h; rw [h.2]; exact hw.1
    · exact wfKvs_mem rest k x hw.2 h

/-- every value nested in a well-formed value is well-formed -/
theorem wf_sub {o v : JV} {d : Nat} (h : Sub o d v) (hw : v.wf = true) : o.wf = true := by
  induction h with
  | refl => exact hw
  | elem hx _ ih => exact ih (wfList_mem _ _ (by simpa [JV.wf] using hw) hx)
  | member hx _ ih =>
    simp only [JV.wf, Bool.and_eq_true] at hw
    exact ih (wfKvs_mem _ _ _ hw.2 hx)

/-! ### 6. the member order a reader of the text sees -/

mutual
  /-- `w` has the shape of `v` — arrays of the same length, objects with the same number of
      members IN THE SAME ORDER, the i-th key of `w` being `f` of the i-th key of `v` — at every
      nesting level; scalars are not compared -/
  def sameKeys (f : Bytes → Bytes) : JV → JV → Prop
    | .arr xs, .arr ys => sameKeysL f xs ys
    | .obj a, .obj b => sameKeysM f a b
    | .arr _, _ => False
    | .obj _, _ => False
    | _, .arr _ => False
    | _, .obj _ => False
    | _, _ => True
  def sameKeysL (f : Bytes → Bytes) : List JV → List JV → Prop
    | [], [] => True
    | x :: xs, y :: ys => sameKeys f x y ∧ sameKeysL f xs ys
    | _, _ => False
  def sameKeysM (f : Bytes → Bytes) : List (Bytes × JV) → List (Bytes × JV) → Prop
    | [], [] => True
    | (k, x) :: xs, (l, y) :: ys => l = f k ∧ sameKeys f x y ∧ sameKeysM f xs ys
    | _, _ => False
end

theorem sameKeysM_keys (f : Bytes → Bytes) : ∀ a b : List (Bytes × JV), sameKeysM f a b →
    b.map (·.1) = a.map (fun kv => f kv.1)
  | [], [], _ => rfl
  | [], _ :: _, h => by simp [sameKeysM] at h
  | _ :: _, [], h => by simp [sameKeysM] at h
  | (k, x) :: xs, (l, y) :: ys, h => by
    simp only [sameKeysM] at h
    simp [h.1, sameKeysM_keys f xs ys h.2.2]

theorem sameKeys_num_num (f : Bytes → Bytes) (n m : Num) : sameKeys f (.num n) (.num m) := by
  unfold sameKeys; trivial

theorem sameKeys_num_null (f : Bytes → Bytes) (n : Num) : sameKeys f (.num n) .null := by
  unfold sameKeys; trivial

theorem sameKeys_num (f : Bytes → Bytes) (n : Num) : sameKeys f (.num n) (readBackNum n) := by
  cases n with
  | int z => exact sameKeys_num_num f _ _
  | flt q => exact sameKeys_num_num f _ _
  | nzero => exact sameKeys_num_num f _ _
  | nan => exact sameKeys_num_null f _
  | inf neg => exact sameKeys_num_num f _ _

mutual
  /-- what a reader gets from the library encoder's text (`readBack`, C12) has the members of
      every object, at every level, in the order in which the value stores them, each key being
      the sanitised key (invalid UTF-8 bytes replaced by U+FFFD) -/
  theorem readBack_sameKeys : ∀ v : JV, sameKeys Utf8.sanitize v (readBack v)
    | .null => by simp [readBack, sameKeys]
    | .bool _ => by simp [readBack, sameKeys]
    | .num n => by simp only [readBack]; exact sameKeys_num _ n
    | .str _ => by simp [readBack, sameKeys]
    | .arr xs => by simp only [readBack, sameKeys]; exact readBackList_sameKeys xs
    | .obj kvs => by simp only [readBack, sameKeys]; exact readBackKvs_sameKeys kvs
  theorem readBackList_sameKeys : ∀ xs : List JV, sameKeysL Utf8.sanitize xs (readBackList xs)
    | [] => by simp [readBackList, sameKeysL]
    | x :: xs => by simp only [readBackList, sameKeysL]; exact ⟨readBack_sameKeys x, readBackList_sameKeys xs⟩
  theorem readBackKvs_sameKeys : ∀ kvs : List (Bytes × JV), sameKeysM Utf8.sanitize kvs (readBackKvs kvs)
    | [] => by simp [readBackKvs, sameKeysM]
    | (k, x) :: xs => by
      simp only [readBackKvs, sameKeysM]; exact ⟨trivial, readBack_sameKeys x, readBackKvs_sameKeys xs⟩
end

/-! ### 7. `to_entries` as builtin.jq defines it -/

/-- `{key: $k, value: $v}` -/
def entryObj (k v : JV) : JV := .obj [(B "key", k), (B "value", v)]

/-- `.[$k]` for each `$k` of `ks` in turn, collected as entries; `none` = a jq error -/
def entriesFor (v : JV) : List JV → Option (List JV)
  | [] => some []
  | k :: ks =>
    match funcIndex2 v k, entriesFor v ks with
    | .ok w, some es => some (entryObj k w :: es)
    | _, _ => none

/-- `def to_entries: [keys[] as $k | {key: $k, value: .[$k]}];` with the transliterated natives
    `keys` (`keysOf`) and `.[$k]` (`funcIndex2`) -/
def toEntriesJq (v : JV) : Option (List JV) := (keysOf v).bind (entriesFor v)

theorem kvLookup_of_mem : ∀ (kvs : List (Bytes × JV)) (k : Bytes) (x : JV), Distinct kvs → (k, x) ∈ kvs →
    kvLookup k kvs = some x
  | [], _, _, _, h => by cases h
  | (l, y) :: rest, k, x, hd, h => by
    have hd' := List.pairwise_cons.mp hd
    rcases List.mem_cons.mp h with h | h
    · simp only [Prod.mk.injEq] at h
      obtain ⟨rfl, rfl⟩ := h
      simp [kvLookup]
    · have hne : k ≠ l := fun e => hd'.1 (k, x) h e.symm
      simp only [kvLookup, beq_iff_eq, hne, if_false]
      exact kvLookup_of_mem rest k x hd'.2 h

theorem entriesFor_obj (kvs : List (Bytes × JV)) (hd : Distinct kvs) : ∀ sub : List (Bytes × JV), (∀ p ∈ sub, p ∈ kvs) →
    entriesFor (.obj kvs) (sub.map (fun kv => JV.str kv.1)) = some (sub.map (fun kv => entryObj (.str kv.1) kv.2))
  | [], _ => rfl
  | (k, x) :: rest, hm => by
    have h1 := kvLookup_of_mem kvs k x hd (hm (k, x) (by simp))
    have h2 := entriesFor_obj kvs hd rest (fun p hp => hm p (List.mem_cons_of_mem _ hp))
    simp only [List.map_cons, entriesFor, funcIndex2, h1, h2]
    rfl

/-- `to_entries` on an object lists `{key, value}` for the members in stored order -/
theorem toEntriesJq_obj (kvs : List (Bytes × JV)) (hd : Distinct kvs) :
    toEntriesJq (.obj kvs) = some (kvs.map (fun kv => entryObj (.str kv.1) kv.2)) := by
  have := entriesFor_obj kvs hd kvs (fun _ h => h)
  simp only [toEntriesJq, keysOf, Option.bind]
  exact this

end Gojq.KeyOrder

/-
  The two jump rewrites of the peephole pass as whole-run simulations:
    a `jump` to the next instruction            ≈ `nop`
    a `jump` / `jumpifnot` to a `jump u`        ≈ the same opcode with target `u` (one turn less)
  No condition on the code is needed: entering at the rewritten pc from anywhere is fine.
-/
import Gojq.Proofs.OptSimPairLayer
set_option linter.unusedSimpArgs false
set_option linter.unusedVariables false
namespace Gojq.OptVM
open Gojq Gojq.VM

/-- related environments, same oracle position -/
def IJump (_ : L) (s s' : St) : Prop := EnvRel s.env s'.env ∧ s.polls = s'.polls
def FJump (s s' : St) : Prop := EnvRel s.env s'.env ∧ s.polls = s'.polls

/-- a turn at a pc where the two codes hold the same instruction -/
theorem simstep_same (c c' : Array Instr) (ext : Nat → ExtRec) (l : L) (s s' : St)
    (hsize : c'.size = c.size) (hat : c'.getD l.pc.toNat .bad = c.getD l.pc.toNat .bad)
    (hR : EnvRel s.env s'.env) (hp : s.polls = s'.polls) :
    match stepC c ext l s with
    | .fin o sf => ∃ sf', stepC c' ext l s' = .fin o sf' ∧ EnvRel sf.env sf'.env ∧ sf.polls = sf'.polls
    | .cont l1 s1 => ∃ s1', stepC c' ext l s' = .cont l1 s1' ∧ EnvRel s1.env s1'.env ∧ s1.polls = s1'.polls := by
  rw [stepC_eq, stepC_eq]
  have hstep : stepE c' (ext s'.polls) l s'.env = stepE c (ext s.polls) l s'.env := by
    rw [← hp]; exact stepE_local _ _ _ _ _ hsize hat
  have htick : tickAt c' l = tickAt c l := by unfold tickAt; rw [hsize, hat]
  rw [hstep, htick]
  have hcong := stepE_cong c (ext s.polls) l hR
  cases hs : stepE c (ext s.polls) l s.env with
  | fin o ef =>
    rw [hs] at hcong
    cases hs' : stepE c (ext s.polls) l s'.env with
    | cont l1 e1 => rw [hs'] at hcong; exact hcong.elim
    | fin o' ef' =>
      rw [hs'] at hcong
      obtain ⟨rfl, hr⟩ := hcong
      exact ⟨_, rfl, hr, by simp [hp]⟩
  | cont l1 e1 =>
    rw [hs] at hcong
    cases hs' : stepE c (ext s.polls) l s'.env with
    | fin o' ef' => rw [hs'] at hcong; exact hcong.elim
    | cont l1' e1' =>
      rw [hs'] at hcong
      obtain ⟨rfl, hr⟩ := hcong
      exact ⟨_, rfl, hr, by simp [hp]⟩

theorem stepE_jump {c : Array Instr} {x : ExtRec} {l l' : L} {e e' : Env} {ins : Instr}
    (h0 : 0 ≤ l.pc) (h1 : l.pc < c.size) (hi : c.getD l.pc.toNat .bad = ins)
    (hx : exec ins x l e = .ok (.jump, l') e') : stepE c x l e = .cont l' e' := by
  unfold stepE
  simp only [h1, Int.not_lt.mpr h0, if_true, if_false, hi, hx]

/-! ## jump to the next instruction -/

theorem jumpnext_simstep (c : Array Instr) (i : Nat) (hj : c[i]? = some (.jump ((i : Int) + 1)))
    (ext : Nat → ExtRec) : SimStep c (c.set! i .nop) ext IJump FJump := by
  intro l s s' hI
  obtain ⟨hR, hp⟩ := hI
  have hi0 : i < c.size := (Array.getElem?_eq_some_iff.mp hj).1
  have hsize : (c.set! i .nop).size = c.size := size_set! _ _ _
  by_cases hi : l.pc = i
  · have h0 : 0 ≤ l.pc := by omega
    have h1 : l.pc < c.size := by omega
    have h1' : l.pc < (c.set! i .nop).size := by rw [hsize]; exact h1
    have hti : l.pc.toNat = i := by omega
    have hg : c.getD l.pc.toNat .bad = .jump ((i : Int) + 1) := by rw [hti]; exact getD_of_getElem? hj
    have hg' : (c.set! i .nop).getD l.pc.toNat .bad = .nop := by rw [hti]; exact getD_set!_eq _ _ _ hi0
    rw [stepC_eq, stepC_eq, tickAt_of hg rfl, tickAt_of hg' rfl,
      stepE_jump h0 h1 hg (l' := { l with pc := (i : Int) + 1 }) (e' := s.env) rfl,
      stepE_fall h0 h1' hg' (exec_nop _ _ _)]
    simp only [StepE.toStep]
    left
    refine ⟨s', ?_, hR, hp⟩
    rw [hi]
    rfl
  · have hat : (c.set! i .nop).getD l.pc.toNat .bad = c.getD l.pc.toNat .bad ∨ l.pc < 0 := by
      by_cases hneg : l.pc < 0
      · exact .inr hneg
      · left; apply getD_set!_ne; omega
    rcases hat with hat | hneg
    · have := simstep_same c (c.set! i .nop) ext l s s' hsize hat hR hp
      cases hs : stepC c ext l s with
      | fin o sf =>
        rw [hs] at this
        obtain ⟨sf', h1, h2, h3⟩ := this
        exact fun _ => ⟨sf', h1, h2, h3⟩
      | cont l1 s1 =>
        rw [hs] at this
        obtain ⟨s1', h1, h2, h3⟩ := this
        exact .inl ⟨s1', h1, h2, h3⟩
    · -- a negative pc: the Go code panics on `env.codes[pc]`
      rw [stepC_eq]
      unfold stepE
      have : l.pc < (c.size : Int) := by omega
      simp only [this, hneg, if_true, StepE.toStep]
      intro hpr; simp [Outcome.proper] at hpr

/-! ## jump threading -/

/-- `jump` and `jumpifnot` either fall through with unchanged locals or jump to their operand -/
theorem exec_jumplike {j : Instr} {t : Int} (hj : jumpTgt j = some t) {x : ExtRec} {l : L} {e : Env}
    {ctl : Ctl} {l1 : L} {e1 : Env} (hx : exec j x l e = .ok (ctl, l1) e1) :
    (ctl = .jump ∧ l1 = { l with pc := t }) ∨ (ctl = .fall ∧ l1 = l) := by
  cases j <;> simp [jumpTgt] at hj
  · subst hj
    simp only [exec] at hx
    obtain ⟨h, _⟩ := pure_ok hx
    simp at h
    exact .inl ⟨h.1.symm, h.2.symm⟩
  · subst hj
    simp only [exec] at hx
    obtain ⟨v, e2, h1, h2⟩ := bind_ok hx
    split at h2
    · obtain ⟨h, _⟩ := pure_ok h2; simp at h; exact .inl ⟨h.1.symm, h.2.symm⟩
    · obtain ⟨h, _⟩ := pure_ok h2; simp at h; exact .inl ⟨h.1.symm, h.2.symm⟩
    · obtain ⟨h, _⟩ := pure_ok h2; simp at h; exact .inr ⟨h.1.symm, h.2.symm⟩

/-- the retargeted instruction behaves like the original, except that a taken jump lands on `u` -/
theorem exec_retarget {j : Instr} {t : Int} (hj : jumpTgt j = some t) (u : Int) (x : ExtRec) (l : L) (e : Env) :
    exec (retarget j u) x l e =
      (match exec j x l e with
      | .ok (.jump, l') e1 => Res.ok (Ctl.jump, { l' with pc := u }) e1
      | r => r : Res (Ctl × L)) := by
  cases j <;> simp [jumpTgt] at hj
  · rfl
  · simp only [retarget, exec]
    have hb : ∀ (f : V → M (Ctl × L)), (pop >>= f) e =
        match pop e with
        | .ok v e1 => f v e1
        | .panic s => .panic s
        | .stuck w => .stuck w := by
      intro f
      show M.bind pop f e = _
      unfold M.bind
      cases pop e <;> rfl
    rw [hb, hb]
    cases pop e with
    | panic s => rfl
    | stuck w => rfl
    | ok v e1 =>
      simp only
      split <;> rfl

theorem retarget_usesExt {j : Instr} {t : Int} (hj : jumpTgt j = some t) (u : Int) :
    usesExt j = false ∧ usesExt (retarget j u) = false := by
  cases j <;> simp [jumpTgt] at hj <;> exact ⟨rfl, rfl⟩

theorem thread_simstep (c : Array Instr) (i : Nat) (j : Instr) (t u : Int) (hj : c[i]? = some j)
    (hjt : jumpTgt j = some t) (ht0 : 0 ≤ t) (htj : c[t.toNat]? = some (.jump u))
    (ext : Nat → ExtRec) : SimStep c (c.set! i (retarget j u)) ext IJump FJump := by
  intro l s s' hI
  obtain ⟨hR, hp⟩ := hI
  have hi0 : i < c.size := (Array.getElem?_eq_some_iff.mp hj).1
  have ht1 : t.toNat < c.size := (Array.getElem?_eq_some_iff.mp htj).1
  have hsize : (c.set! i (retarget j u)).size = c.size := size_set! _ _ _
  by_cases hi : l.pc = i
  · have h0 : 0 ≤ l.pc := by omega
    have h1 : l.pc < c.size := by omega
    have h1' : l.pc < (c.set! i (retarget j u)).size := by rw [hsize]; exact h1
    have hti : l.pc.toNat = i := by omega
    have hg : c.getD l.pc.toNat .bad = j := by rw [hti]; exact getD_of_getElem? hj
    have hg' : (c.set! i (retarget j u)).getD l.pc.toNat .bad = retarget j u := by
      rw [hti]; exact getD_set!_eq _ _ _ hi0
    obtain ⟨hu1, hu2⟩ := retarget_usesExt hjt u
    have hcong := exec_cong j (ext s.polls) l s.env s'.env hR
    have hre := exec_retarget hjt u (ext s'.polls) l s'.env
    rw [stepC_eq, stepC_eq, tickAt_of hg hu1, tickAt_of hg' hu2, Nat.add_zero, Nat.add_zero]
    cases hex : exec j (ext s.polls) l s.env with
    | panic site =>
      obtain ⟨o, ef, h2, h3⟩ := stepE_improper (c := c) h0 h1 hg (fun r e' => by rw [hex]; simp)
      rw [h2]; simp only [StepE.toStep]
      intro hpr; rw [h3] at hpr; simp at hpr
    | stuck why =>
      obtain ⟨o, ef, h2, h3⟩ := stepE_improper (c := c) h0 h1 hg (fun r e' => by rw [hex]; simp)
      rw [h2]; simp only [StepE.toStep]
      intro hpr; rw [h3] at hpr; simp at hpr
    | ok r e1 =>
      obtain ⟨ctl, l1⟩ := r
      rw [hex] at hcong
      cases hex' : exec j (ext s.polls) l s'.env with
      | panic site => rw [hex'] at hcong; exact hcong.elim
      | stuck why => rw [hex'] at hcong; exact hcong.elim
      | ok r' e1' =>
        rw [hex'] at hcong
        obtain ⟨rfl, hr1⟩ := hcong
        rw [← hp, hex'] at hre
        rcases exec_jumplike hjt hex with ⟨rfl, rfl⟩ | ⟨rfl, rfl⟩
        · -- the jump is taken: the original makes a second turn at `t`
          simp only at hre
          rw [stepE_jump h0 h1 hg hex, ← hp, stepE_jump h0 h1' hg' hre]
          simp only [StepE.toStep]
          right
          have hpt : ({ l with pc := t } : L).pc = t := rfl
          have hgt : c.getD ({ l with pc := t } : L).pc.toNat .bad = .jump u := by
            rw [hpt]; exact getD_of_getElem? htj
          rw [stepC_eq, tickAt_of hgt rfl, Nat.add_zero,
            stepE_jump (l := { l with pc := t }) (l' := { l with pc := u }) (e' := e1)
              (by rw [hpt]; exact ht0) (by rw [hpt]; omega) hgt rfl]
          simp only [StepE.toStep]
          right
          exact ⟨_, rfl, hr1, rfl⟩
        · -- not taken: both fall through
          simp only at hre
          rw [stepE_fall h0 h1 hg hex, ← hp, stepE_fall h0 h1' hg' hre]
          simp only [StepE.toStep]
          left
          exact ⟨_, rfl, hr1, rfl⟩
  · have hat : (c.set! i (retarget j u)).getD l.pc.toNat .bad = c.getD l.pc.toNat .bad ∨ l.pc < 0 := by
      by_cases hneg : l.pc < 0
      · exact .inr hneg
      · left; apply getD_set!_ne; omega
    rcases hat with hat | hneg
    · have := simstep_same c (c.set! i (retarget j u)) ext l s s' hsize hat hR hp
      cases hs : stepC c ext l s with
      | fin o sf =>
        rw [hs] at this
        obtain ⟨sf', h1, h2, h3⟩ := this
        exact fun _ => ⟨sf', h1, h2, h3⟩
      | cont l1 s1 =>
        rw [hs] at this
        obtain ⟨s1', h1, h2, h3⟩ := this
        exact .inl ⟨s1', h1, h2, h3⟩
    · rw [stepC_eq]
      unfold stepE
      have : l.pc < (c.size : Int) := by omega
      simp only [this, hneg, if_true, StepE.toStep]
      intro hpr; simp [Outcome.proper] at hpr

end Gojq.OptVM

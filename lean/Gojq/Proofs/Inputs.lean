/- Helper lemmas for C16 about the iterator stack of Model/Cli/Inputs.lean. -/
import Gojq.Model.Cli.Inputs
namespace Gojq.Inputs
open Gojq Gojq.Stream

theorem jsonIter_values (vs : List JV) (tail : List Doc) :
    jsonIter (vs.map .value ++ tail) = vs.map .val ++ jsonIter tail := by
  induction vs with
  | nil => rfl
  | cons v vs ih => simp [jsonIter, ih]

theorem slurpGo_vals (acc vs : List JV) (tail : List Item) :
    slurpGo acc (vs.map .val ++ tail) = slurpGo (vs.reverse ++ acc) tail := by
  induction vs generalizing acc with
  | nil => rfl
  | cons v vs ih => simp [slurpGo, ih]

theorem drawInputsGo_vals (acc vs : List JV) (tail : List Item) :
    drawInputsGo acc (vs.map .val ++ tail) = drawInputsGo (vs.reverse ++ acc) tail := by
  induction vs generalizing acc with
  | nil => rfl
  | cons v vs ih => simp [drawInputsGo, ih]

/-- slurping and `[inputs]` walk the iterator the same way -/
theorem slurpGo_eq_draw (acc : List JV) (items : List Item) :
    slurpGo acc items =
      match (drawInputsGo acc items).1 with
      | .ok vs => [.val (.arr vs)]
      | .error .err => [.err]
      | .error _ => [.panic] := by
  induction items generalizing acc with
  | nil => rfl
  | cons it items ih =>
    cases it with
    | val v => simp only [slurpGo, drawInputsGo]; exact ih _
    | err => rfl
    | panic => rfl

theorem drawN_vals (k : Nat) (vs : List JV) (hk : k ≤ vs.length) :
    drawN k (vs.map .val) = ((vs.take k).map .val, (vs.drop k).map .val) := by
  induction k generalizing vs with
  | zero => simp [drawN]
  | succ k ih =>
    cases vs with
    | nil => simp at hk
    | cons v vs =>
      simp only [List.length_cons, Nat.add_le_add_iff_right] at hk
      simp [drawN, drawInput, ih vs hk]

theorem splitLines_line (cur l rest : Bytes) (hl : (10 : UInt8) ∉ l) :
    splitLines cur (l ++ 10 :: rest) = (cur.reverse ++ l) :: splitLines [] rest := by
  induction l generalizing cur with
  | nil => simp [splitLines]
  | cons b l ih =>
    have hb : b ≠ 10 := fun h => hl (by simp [h])
    have hl' : (10 : UInt8) ∉ l := fun h => hl (by simp [h])
    simp [splitLines, hb, ih _ hl']

theorem splitLines_last (cur l : Bytes) (hl : (10 : UInt8) ∉ l) (hne : cur ≠ [] ∨ l ≠ []) :
    splitLines cur l = [cur.reverse ++ l] := by
  induction l generalizing cur with
  | nil =>
    have : cur ≠ [] := hne.resolve_right (by simp)
    cases cur with
    | nil => exact absurd rfl this
    | cons c cur => simp [splitLines]
  | cons b l ih =>
    have hb : b ≠ 10 := fun h => hl (by simp [h])
    have hl' : (10 : UInt8) ∉ l := fun h => hl (by simp [h])
    simp [splitLines, hb, ih (b :: cur) hl' (Or.inl (by simp))]

theorem filesIter_files (f : Reader → List Item) (stdin : Reader) (rs : List Reader) :
    filesIter f stdin (rs.map .file) = (rs.map f).flatten := by
  induction rs with
  | nil => rfl
  | cons r rs ih => simp [filesIter, ih]

end Gojq.Inputs

/-
  Helper lemmas for Props/C13Pairs.lean, part 2: the getpath/setpath laws on key/index paths,
  proved on `getKI` / `setKI` (Proofs/PairsNative.lean shows these ARE `funcGetpath` / `funcSetpath`).

    getKI_setKI        getpath(p) after setpath(p; n) is n, whenever setpath succeeds — any value,
                       any key/index path: missing keys, null turned into a container, arrays
                       extended with nulls, negative indices, fractional and saturating indices
    Loc q v x          (Model/Pairs.lean) `q` is a REAL location of `v` holding `x` (existing keys, in-range
                       non-negative indices)
    getKI_of_Loc       getpath finds what a real location holds
    setKI_of_Loc       writing back what a real location holds changes nothing (objects sorted)
-/
import Gojq.Proofs.PairsNative
import Gojq.Proofs.Fromstream
namespace Gojq.Pairs
open Gojq

theorem idxOf_range (m : Num) : minInt ≤ idxOf m ∧ idxOf m ≤ maxInt := by
  cases m with
  | int z =>
    simp only [idxOf, toInt?, Option.getD_some, minInt, maxInt]
    by_cases h1 : z < -9223372036854775808 <;> by_cases h2 : z > 9223372036854775807 <;> simp [h1, h2] <;> omega
  | nzero => simp [idxOf, toInt?, floatToInt, minInt, maxInt]
  | nan => simp [idxOf, toInt?, floatToInt, minInt, maxInt]
  | inf neg => cases neg <;> simp [idxOf, toInt?, floatToInt, minInt, maxInt]
  | flt q =>
    simp only [idxOf, toInt?, Option.getD_some, floatToInt]
    split
    · rename_i h
      obtain ⟨h1, h2⟩ := h
      split
      · rename_i hq
        have h0 : (0 : Int) ≤ (-q).floor := Rat.le_floor_iff.mpr (by grind)
        have h3 : (-q).floor < 9223372036854775809 := by
          apply Rat.floor_lt_iff.mpr
          simp only [minInt] at h1
          grind
        simp only [minInt, maxInt]
        omega
      · rename_i hq
        have h0 : (0 : Int) ≤ q.floor := Rat.le_floor_iff.mpr (by grind)
        have h3 : q.floor < 9223372036854775808 := Rat.floor_lt_iff.mpr (by grind)
        simp only [minInt, maxInt]
        omega
    · split <;> simp [minInt, maxInt]

/-- a negative index never lands beyond the array -/
theorem clampIndex_neg_lt (i : Int) (len : Nat) (hi : minInt ≤ i) (h : i < 0) : clampIndex i (-1) len < len := by
  simp only [clampIndex, wrap64, minInt] at *
  split <;> split <;> (try split) <;> omega

theorem clampIndex_nonneg (i : Int) (len : Nat) (h : 0 ≤ i) :
    clampIndex i (-1) len = if i < len then i else len := by
  simp only [clampIndex]
  split <;> split <;> (try split) <;> omega

theorem indexArr_set (xs : List JV) (i : Int) (w : JV)
    (h1 : ¬ clampIndex i (-1) xs.length < 0) (h2 : clampIndex i (-1) xs.length < xs.length) :
    indexArr (xs.set (clampIndex i (-1) xs.length).toNat w) i = w := by
  have hlt : (clampIndex i (-1) xs.length).toNat < xs.length := by omega
  simp only [indexArr, List.length_set]
  rw [if_pos ⟨by omega, h2⟩]
  simp [List.getD_eq_getElem?_getD, hlt]

theorem indexArr_extend (xs : List JV) (i : Int) (w : JV) (hi : minInt ≤ i)
    (h1 : ¬ clampIndex i (-1) xs.length < xs.length) :
    indexArr (xs ++ List.replicate (i.toNat - xs.length) .null ++ [w]) i = w := by
  have hnn : 0 ≤ i := by
    by_cases h : i < 0
    · exact absurd (clampIndex_neg_lt i xs.length hi h) h1
    · omega
  rw [clampIndex_nonneg i _ hnn] at h1
  have hge : (xs.length : Int) ≤ i := by split at h1 <;> omega
  have hlen : (xs ++ List.replicate (i.toNat - xs.length) JV.null ++ [w]).length = i.toNat + 1 := by
    simp only [List.length_append, List.length_replicate, List.length_singleton]; omega
  simp only [indexArr, hlen]
  rw [clampIndex_nonneg i _ hnn]
  have : i < ((i.toNat + 1 : Nat) : Int) := by omega
  rw [if_pos this, if_pos ⟨hnn, this⟩]
  have hpre : (xs ++ List.replicate (i.toNat - xs.length) JV.null).length = i.toNat := by
    simp only [List.length_append, List.length_replicate]; omega
  rw [List.getD_eq_getElem?_getD, List.getElem?_append_right (by omega), hpre]
  simp

/-- **`getpath(p)` after `setpath(p; n)` is `n`** — on `getKI` / `setKI` -/
theorem getKI_setKI (n : JV) : ∀ (p : List JV) (v w : JV), setKI n p v = some w → getKI p w = some n
  | [], v, w, h => by simp only [setKI, Option.some.injEq] at h; subst h; rfl
  | e :: rest, v, w, h => by
    have ih := getKI_setKI n rest
    cases e with
    | str k =>
      cases v with
      | null =>
        simp only [setKI, Option.map_eq_some_iff] at h
        obtain ⟨w', hw', rfl⟩ := h
        simpa [getKI, kvLookup] using ih _ _ hw'
      | obj kvs =>
        simp only [setKI, Option.map_eq_some_iff] at h
        obtain ⟨w', hw', rfl⟩ := h
        simpa [getKI, Stream.kvLookup_insert_self] using ih _ _ hw'
      | arr xs => simp [setKI] at h
      | bool b => simp [setKI] at h
      | num b => simp [setKI] at h
      | str b => simp [setKI] at h
    | num m =>
      have key : ∀ xs, arrOf v = some xs → getKI (.num m :: rest) w = some n := by
        intro xs hxs
        simp only [setKI, hxs] at h
        split at h
        · cases h
        · rename_i h1
          split at h
          · rename_i h2
            simp only [Option.map_eq_some_iff] at h
            obtain ⟨w', hw', rfl⟩ := h
            simp only [getKI, indexArr_set xs (idxOf m) w' h1 h2]
            exact ih _ _ hw'
          · rename_i h2
            split at h
            · cases h
            · simp only [Option.map_eq_some_iff] at h
              obtain ⟨w', hw', rfl⟩ := h
              simp only [getKI, indexArr_extend xs (idxOf m) w' (idxOf_range m).1 h2]
              exact ih _ _ hw'
      cases v with
      | null => exact key [] rfl
      | arr xs => exact key xs rfl
      | obj kvs => simp [setKI, arrOf] at h
      | bool b => simp [setKI, arrOf] at h
      | num b => simp [setKI, arrOf] at h
      | str b => simp [setKI, arrOf] at h
    | null => simp [setKI] at h
    | bool b => simp [setKI] at h
    | arr b => simp [setKI] at h
    | obj b => simp [setKI] at h

/-! ### real locations -/

theorem Loc_nil (v x : JV) : Loc [] v x ↔ v = x := by simp [Loc]

theorem Loc_key (k : Bytes) (q : List JV) (kvs : List (Bytes × JV)) (x : JV) :
    Loc (.str k :: q) (.obj kvs) x ↔ ∃ y, kvLookup k kvs = some y ∧ Loc q y x := by simp [Loc]

theorem Loc_num (m : Num) (q : List JV) (xs : List JV) (x : JV) :
    Loc (.num m :: q) (.arr xs) x ↔
      0 ≤ clampIndex (idxOf m) (-1) xs.length ∧ clampIndex (idxOf m) (-1) xs.length < xs.length ∧
      ∃ y, xs[(clampIndex (idxOf m) (-1) xs.length).toNat]? = some y ∧ Loc q y x := by
  simp [Loc]

theorem idxOf_int (i : Int) (h0 : 0 ≤ i) (h1 : i ≤ maxInt) : idxOf (.int i) = i := by
  have a : ¬ i < minInt := by unfold minInt; omega
  have b : ¬ i > maxInt := by omega
  simp only [idxOf, toInt?, Option.getD_some, if_neg a, if_neg b]

/-- a non-negative integer index below the length, that a Go `int` can hold -/
theorem Loc_idx (i : Int) (q : List JV) (xs : List JV) (x : JV) (h0 : 0 ≤ i) (h1 : i ≤ maxInt) (y : JV)
    (hy : xs[i.toNat]? = some y) (h : Loc q y x) : Loc (.num (.int i) :: q) (.arr xs) x := by
  have hlt : i.toNat < xs.length := by
    rcases List.getElem?_eq_some_iff.mp hy with ⟨h, _⟩; exact h
  have hc : clampIndex (idxOf (.int i)) (-1) xs.length = i := by
    rw [idxOf_int i h0 h1, clampIndex_nonneg i _ h0, if_pos (by omega)]
  rw [Loc_num, hc]
  exact ⟨h0, by omega, y, hy, h⟩

theorem Loc_cases {e : JV} {q : List JV} {v x : JV} (h : Loc (e :: q) v x) :
    (∃ k kvs y, e = .str k ∧ v = .obj kvs ∧ kvLookup k kvs = some y ∧ Loc q y x) ∨
    (∃ m xs y, e = .num m ∧ v = .arr xs ∧ 0 ≤ clampIndex (idxOf m) (-1) xs.length ∧
      clampIndex (idxOf m) (-1) xs.length < xs.length ∧
      xs[(clampIndex (idxOf m) (-1) xs.length).toNat]? = some y ∧ Loc q y x) := by
  unfold Loc at h
  split at h
  · obtain ⟨y, h1, h2⟩ := h
    exact Or.inl ⟨_, _, y, rfl, rfl, h1, h2⟩
  · obtain ⟨h0, h1, y, h2, h3⟩ := h
    exact Or.inr ⟨_, _, y, rfl, rfl, h0, h1, h2, h3⟩
  · exact h.elim

theorem KIPath_of_Loc : ∀ (q : List JV) (v x : JV), Loc q v x → KIPath q
  | [], _, _, _ => KIPath.nil
  | e :: q, v, x, h => by
    rcases Loc_cases h with ⟨k, kvs, y, rfl, rfl, _, h2⟩ | ⟨i, xs, y, rfl, rfl, _, _, _, h2⟩
    · exact KIPath.cons (Or.inl ⟨k, rfl⟩) (KIPath_of_Loc q y x h2)
    · exact KIPath.cons (Or.inr ⟨_, rfl⟩) (KIPath_of_Loc q y x h2)

/-- getpath finds what a real location holds -/
theorem getKI_of_Loc : ∀ (q : List JV) (v x : JV), Loc q v x → getKI q v = some x
  | [], v, x, h => by simp only [Loc] at h; subst h; rfl
  | e :: q, v, x, h => by
    rcases Loc_cases h with ⟨k, kvs, y, rfl, rfl, h1, h2⟩ | ⟨m, xs, y, rfl, rfl, h0, h1, hy, h2⟩
    · simpa [getKI, h1] using getKI_of_Loc q y x h2
    · have : indexArr xs (idxOf m) = y := by
        simp only [indexArr]
        rw [if_pos ⟨h0, h1⟩]
        simp [List.getD_eq_getElem?_getD, hy]
      simp only [getKI, this]
      exact getKI_of_Loc q y x h2

/-! ### writing back -/

theorem kvLookup_mem (k : Bytes) (y : JV) : ∀ l : List (Bytes × JV), kvLookup k l = some y → (k, y) ∈ l
  | [], h => by simp [kvLookup] at h
  | (k', v') :: rest, h => by
    simp only [kvLookup] at h
    split at h
    · rename_i hk
      have : k = k' := by simpa using hk
      subst this
      simp only [Option.some.injEq] at h
      subst h
      simp
    · exact List.mem_cons_of_mem _ (kvLookup_mem k y rest h)

theorem kvInsert_lookup_self (k : Bytes) (y : JV) : ∀ l : List (Bytes × JV), kvSorted l = true →
    kvLookup k l = some y → kvInsert k y l = l
  | [], _, h => by simp [kvLookup] at h
  | (k', v') :: rest, hs, h => by
    simp only [kvLookup] at h
    split at h
    · rename_i hk
      have : k = k' := by simpa using hk
      subst this
      simp only [Option.some.injEq] at h
      subst h
      simp [kvInsert, Stream.cmp_refl]
    · have hmem := kvLookup_mem k y rest h
      have hlt := Stream.sorted_head_lt k' v' rest hs (k, y) hmem
      have hgt := Stream.cmp_gt_of_lt _ _ hlt
      simp only [kvInsert, hgt]
      rw [kvInsert_lookup_self k y rest (Stream.sorted_tail k' v' rest hs) h]

theorem wfKvs_lookup (k : Bytes) (y : JV) : ∀ l : List (Bytes × JV), JV.wfKvs l = true → kvLookup k l = some y → y.wf = true
  | [], _, h => by simp [kvLookup] at h
  | (k', v') :: rest, hw, h => by
    simp only [JV.wfKvs, Bool.and_eq_true] at hw
    simp only [kvLookup] at h
    split at h
    · simp only [Option.some.injEq] at h; subst h; exact hw.1
    · exact wfKvs_lookup k y rest hw.2 h

theorem wfList_getElem (y : JV) : ∀ (l : List JV) (j : Nat), JV.wfList l = true → l[j]? = some y → y.wf = true
  | [], _, _, h => by simp at h
  | x :: rest, 0, hw, h => by
    simp only [JV.wfList, Bool.and_eq_true] at hw
    simp only [List.getElem?_cons_zero, Option.some.injEq] at h; subst h; exact hw.1
  | x :: rest, j + 1, hw, h => by
    simp only [JV.wfList, Bool.and_eq_true] at hw
    simp only [List.getElem?_cons_succ] at h
    exact wfList_getElem y rest j hw.2 h

/-- writing back what a real location holds changes nothing (objects with sorted keys) -/
theorem setKI_of_Loc : ∀ (q : List JV) (v x : JV), v.wf = true → Loc q v x → setKI x q v = some v
  | [], v, x, _, h => by simp only [Loc] at h; subst h; rfl
  | e :: q, v, x, hw, h => by
    rcases Loc_cases h with ⟨k, kvs, y, rfl, rfl, h1, h2⟩ | ⟨m, xs, y, rfl, rfl, h0, h1, hy, h2⟩
    · simp only [JV.wf, Bool.and_eq_true] at hw
      have ih := setKI_of_Loc q y x (wfKvs_lookup k y kvs hw.2 h1) h2
      simp [setKI, h1, ih, kvInsert_lookup_self k y kvs hw.1 h1]
    · simp only [JV.wf] at hw
      have ih := setKI_of_Loc q y x (wfList_getElem y xs _ hw hy) h2
      have hget : xs.getD (clampIndex (idxOf m) (-1) xs.length).toNat .null = y := by
        simp [List.getD_eq_getElem?_getD, hy]
      have hset : xs.set (clampIndex (idxOf m) (-1) xs.length).toNat y = xs := by
        rcases List.getElem?_eq_some_iff.mp hy with ⟨h, he⟩
        rw [← he]; exact List.set_getElem_self h
      simp only [setKI, arrOf]
      rw [if_neg (by omega), if_pos h1, hget, ih]
      simp [hset]

end Gojq.Pairs

/-
  C08 (bytecode checker, layer 2): frames — `scope` and `ret`.
-/
import Gojq.Proofs.SafeVM2Exec7
set_option linter.unusedSimpArgs false
set_option linter.unusedVariables false
namespace Gojq.SafeVM
open Gojq Gojq.VM

variable {S : SC} {Ct : Cert}

theorem endOf_eq {sc : Scope} {n : Nat} (h : S.tab.lookup sc.id = some n) : endOf S sc = sc.offset + n := by
  unfold endOf; rw [h]; rfl

/-- `popscope`: the region shrinks (or stays), `offset` falls back to the popped frame's only when
    no fork protects it -/
theorem RegInv.popscope {e : Env} {A : AView} (hV : View e A) (G : GInv S e) (R : RegInv S Ct e) {i : Int} {s : Scope}
    {r : List (Int × Scope)} (hA : A.frames = (i, s) :: r) {nx : Int} (hnx : nx < i) :
    RegInv S Ct { e with scopes := { e.scopes with index := nx },
                         offset := if e.scopes.index > e.scopes.limit then s.offset else e.offset } := by
  have hs := hV.scopes
  rw [hA] at hs
  obtain ⟨hidx, hi0⟩ := hs.index_cons
  have hmem := hV.frames_le (i, s) (by rw [hA]; simp)
  have hRg : ∀ j : Int, j ≤ Rg ({ e.scopes with index := nx } : Stack Scope) → j ≤ max nx e.scopes.limit := fun j h => h
  have hRg0 : Rg e.scopes = max e.scopes.index e.scopes.limit := rfl
  refine ⟨fun j h0 hj => R.reg j h0 (by have := hRg j hj; omega), ?_,
    fun j j' sc sc' hlt hj' => R.o2 j j' sc sc' hlt (by have := hRg j' hj'; omega), R.o3⟩
  intro j sc hj hb
  have hj2 := hRg j hj
  show endOf S sc ≤ (if e.scopes.index > e.scopes.limit then s.offset else e.offset)
  split
  · rename_i hfree
    exact R.o2 j i sc s (by omega) (by omega) hb hmem.2.2
  · exact R.o1 j sc (by omega) hb

theorem exec2_ret (C : Checked S) (C2 : Checked2 S Ct) {x : ExtRec} {l : L} {e : Env}
    (hc : codeAt S l.pc = some .ret) (hI1 : Inv S l e) (hI2 : Inv2 S Ct l e) : WP2 (exec .ret x l) (Post2 S Ct) e := by
  obtain ⟨A, hV, G, R, hF2, hmode⟩ := both_cases hI1 hI2
  rcases hmode with ⟨hb, hM, hM2⟩ | ⟨hb, hN, hN2⟩
  · simp only [exec, hb, if_true]
    apply WP2.pure
    exact Post2.brk_here (Fr2.refl e) hV rfl R hF2 (fun _ _ => BConf2.triv hc rfl)
  · obtain ⟨herr, a, succs, ha, hst, hsucc, hpc, hp, hconf⟩ := hN.unpack C hc
    obtain ⟨a2, succs2, idF, nv, na, ha2, hsa, hlen, hst2, hsucc2, _, _, hcur⟩ := hN2.unpack C2 hc
    simp only [step1] at hst
    split at hst
    · rename_i hh
      rw [if_neg (by simp [isScope])] at hconf hcur
      obtain ⟨hne, hfr, hlen', hplen⟩ := hconf
      obtain ⟨jt, sct, rest, hA, hid, hslc, hstc, hsusp⟩ := hcur
      obtain ⟨e1, hpop, hV1, G1, hsi, hd, hvals, hstack, hforks⟩ := popscope_spec hV G hA
      have hs := hV.scopes
      rw [hA] at hs
      obtain ⟨nx, hpp, _, hget, hidx⟩ := hs.pop_cons
      -- the environment after `popscope`
      have he1 : e1 = { e with scopes := { e.scopes with index := nx },
                               offset := if e.scopes.index > e.scopes.limit then sct.offset else e.offset } := by
        unfold VM.popscope at hpop
        rw [hpp] at hpop
        simp only [Res.ok.injEq] at hpop
        exact hpop.2.symm
      have hnxlt : nx < jt := by
        cases hs.chain with
        | cons _ hb' hlt _ =>
          rw [hget] at hb'
          simp only [Option.some.injEq, Block.mk.injEq] at hb'
          omega
      have R1 : RegInv S Ct e1 := by rw [he1]; exact R.popscope hV G hA hnxlt
      have hF21 : ForksConf2 S Ct e1.scopes.data e1.values A.forks := by rw [hd, hvals]; exact hF2
      rw [hA, FramesOK.cons_iff] at hfr
      simp only [exec, hb]
      apply WP2.step hpop
      simp only
      apply WP2.step (modifyEnv_eq _ _)
      rw [Env.setIndex_self hsi]
      apply WP2.step (getEnv_eq _)
      cases rest with
      | nil =>
        have hs1 := hV1.scopes
        have hemp : e1.scopes.empty = true := by
          unfold Stack.empty; simpa using hs1.index_nil
        simp only [hemp, if_true]
        obtain ⟨j, v, r', hstk⟩ : ∃ j v r', A.stk = (j, v) :: r' := by
          cases hs' : A.stk with
          | nil => rw [hs'] at hlen'; simp at hlen'; omega
          | cons q r' => exact ⟨q.1, q.2, r', rfl⟩
        obtain ⟨nx2, hpop2, hV2, G2, _⟩ := pop_spec (A := { A with frames := [] }) hV1 G1 hstk
        apply WP2.step hpop2
        apply WP2.pure
        exact ⟨_, hV2, R1.fr ⟨rfl, rfl, rfl, rfl⟩, hF21, trivial⟩
      | cons g r' =>
        have hs1 := hV1.scopes
        obtain ⟨gi, gs⟩ := g
        have hemp : e1.scopes.empty = false := by
          unfold Stack.empty
          have := (hs1.index_cons (i := gi) (v := gs)).1
          have := (hs1.index_cons (i := gi) (v := gs)).2
          simp only [decide_eq_false_iff_not]; omega
        simp only [hemp]
        apply WP2.pure
        obtain ⟨b, ib, hb1, hb2, hb3, hb4⟩ := hfr.2.1 (by simp)
        -- the caller resumes with the claims its return point relies on
        obtain ⟨a2', h1, h2, ⟨h3, h3k⟩, h4, h5⟩ := hsusp
        refine ⟨_, hV1, R1, hF21, a2', ib, h1, hb2, ?_⟩
        rw [if_neg (by rw [hb3]; simp)]
        rw [hd, hvals]
        refine ⟨gi, gs, r', rfl, h2, h4, ?_, h5⟩
        intro n k hk hne
        exact absurd (h3k n k hk) hne
    · simp at hst

end Gojq.SafeVM

namespace Gojq.SafeVM
open Gojq Gojq.VM

variable {S : SC} {Ct : Cert}

theorem growEnv_get (e : Env) (q : Nat) (hq : q < e.values.size) : (growEnv e).values[q]? = e.values[q]? := by
  unfold growEnv
  split
  · simp only [Array.getElem?_append]
    rw [if_pos hq]
  · rfl

theorem blockAt_push_new (s : Stack Scope) (sc : Scope) (h1 : -1 ≤ s.limit) (h2 : s.limit < s.data.size)
    (h3 : s.index < s.data.size) :
    blockAt (s.push sc).data (Rg s + 1) = some sc ∧ (∀ n : Int, n ≤ Rg s → blockAt (s.push sc).data n = blockAt s.data n) ∧
    Rg (s.push sc) = Rg s + 1 ∧ (s.push sc).index = Rg s + 1 := by
  obtain ⟨a1, a2, a3, a4, a5⟩ := push_spec s sc h1 h2 h3
  refine ⟨?_, ?_, ?_, a1⟩
  · unfold blockAt Rg
    rw [if_pos (by omega), a3]; rfl
  · intro n hn
    unfold blockAt
    by_cases h0 : 0 ≤ n
    · rw [if_pos h0, if_pos h0, a4 n.toNat (by unfold Rg at hn; omega)]
    · rw [if_neg h0, if_neg h0]
  · unfold Rg; rw [a1, a2]; omega

theorem Prot.limit_le : ∀ {ps : List (Int × Int)} {m : Int}, Prot ps m → ∀ p ∈ ps, p.2 ≤ m
  | [], _, _, p, hp => by simp at hp
  | q :: rest, m, h, p, hp => by
    simp only [List.mem_cons] at hp
    rcases hp with rfl | hp
    · exact h.2.1
    · exact Int.le_trans (Prot.limit_le h.2.2.2 p hp) h.2.1

/-- the region after `scope` pushed the frame `sc` -/
theorem RegInv.scope {e1 : Env} {A1 : AView} (hV1 : View e1 A1) (G1 : GInv S e1) (R1 : RegInv S Ct e1) {sc : Scope}
    {vars : Int} (hoff : sc.offset = e1.offset) (hsave : sc.saveindex = e1.scopes.index) (hole : sc.outerindex ≤ sc.saveindex)
    (hvars : 0 ≤ vars) (hlook : S.tab.lookup sc.id = some vars.toNat)
    (hvg : Good S Ct e1.scopes.data e1.values (.v sc.id sc.outerindex)) :
    RegInv S Ct (scopeEnv sc vars e1) ∧
    SameBelow S (Rg e1.scopes) e1.scopes.data (scopeEnv sc vars e1).scopes.data e1.values (scopeEnv sc vars e1).values ∧
    blockAt (scopeEnv sc vars e1).scopes.data (Rg e1.scopes + 1) = some sc ∧
    (scopeEnv sc vars e1).scopes.index = Rg e1.scopes + 1 := by
  obtain ⟨g1, g2, g3, g4, g5, g6, g7⟩ := growEnv_fields { e1 with scopes := e1.scopes.push sc, offset := e1.offset + vars }
  have hlim := hV1.scopes.lim
  have hilt := hV1.scopes.chain.index_lt
  obtain ⟨b1, b2, b3, b4⟩ := blockAt_push_new e1.scopes sc hlim.1 hlim.2 hilt
  have hsc : (scopeEnv sc vars e1).scopes = e1.scopes.push sc := g2
  have hfk : (scopeEnv sc vars e1).forks = e1.forks := g3
  have hof : (scopeEnv sc vars e1).offset = e1.offset + vars := g4
  have hRgI : e1.scopes.index ≤ Rg e1.scopes ∧ e1.scopes.limit ≤ Rg e1.scopes := index_le_Rg _
  -- the old frames and their slots are untouched
  have hsame : SameBelow S (Rg e1.scopes) e1.scopes.data (scopeEnv sc vars e1).scopes.data e1.values (scopeEnv sc vars e1).values := by
    refine ⟨fun n hn => by rw [hsc]; exact b2 n hn, ?_⟩
    intro j sc' i nv hj hb h0 hnv hi
    obtain ⟨_, b, hbb, hbv⟩ := blockAt_get hb
    obtain ⟨ho, n', hn', hle⟩ := G1.slots _ _ hbb
    rw [hbv, hnv] at hn'; simp only [Option.some.injEq] at hn'; subst hn'
    rw [hbv] at ho hle
    exact growEnv_get _ _ (by simp only; omega)
  refine ⟨⟨?_, ?_, ?_, ?_⟩, hsame, by rw [hsc]; exact b1, by rw [hsc]; exact b4⟩
  · -- reg
    intro j h0 hj
    rw [hsc, b3] at hj
    by_cases hjn : j ≤ Rg e1.scopes
    · obtain ⟨sc', hb, h1, h2, hg⟩ := R1.reg j h0 hjn
      exact ⟨sc', by rw [hsame.1 j hjn]; exact hb, h1, h2, Good.same hsame hg (by simp only [J.bnd]; omega)⟩
    · have : j = Rg e1.scopes + 1 := by omega
      subst this
      refine ⟨sc, by rw [hsc]; exact b1, hole, by omega, Good.same hsame hvg (by simp only [J.bnd]; omega)⟩
  · -- o1
    intro j sc' hj hb
    rw [hsc, b3] at hj
    rw [hof]
    by_cases hjn : j ≤ Rg e1.scopes
    · rw [hsame.1 j hjn] at hb
      have := R1.o1 j sc' hjn hb; omega
    · have : j = Rg e1.scopes + 1 := by omega
      subst this
      rw [hsc, b1] at hb
      simp only [Option.some.injEq] at hb; subst hb
      rw [endOf_eq hlook, hoff]; omega
  · -- o2
    intro j j' sc1 sc2 hlt hj' hb1 hb2
    rw [hsc, b3] at hj'
    by_cases hjn : j' ≤ Rg e1.scopes
    · rw [hsame.1 j (by omega)] at hb1
      rw [hsame.1 j' hjn] at hb2
      exact R1.o2 j j' sc1 sc2 hlt hjn hb1 hb2
    · have : j' = Rg e1.scopes + 1 := by omega
      subst this
      rw [hsc, b1] at hb2
      simp only [Option.some.injEq] at hb2; subst hb2
      rw [hsame.1 j (by omega)] at hb1
      rw [hoff]
      exact R1.o1 j sc1 (by omega) hb1
  · -- o3
    intro f hf j sc' hj hb
    rw [hfk] at hf
    have hfle := Prot.index_le hV1.scopes.prot (f.scopeindex, f.scopelimit) (by
      unfold scSaved; exact List.mem_map.mpr ⟨f, hf, rfl⟩)
    have hflim := Prot.limit_le hV1.scopes.prot (f.scopeindex, f.scopelimit) (by
      unfold scSaved; exact List.mem_map.mpr ⟨f, hf, rfl⟩)
    simp only at hfle hflim
    rw [hsame.1 j (by omega)] at hb
    exact R1.o3 f hf j sc' hj hb

end Gojq.SafeVM

/-
  The printer's output satisfies the adjacency condition, part 5: the statements per syntactic
  class and the query / term cases.
-/
import Gojq.Proofs.SpacedTok
import Gojq.Proofs.RoundTripFollow
namespace Gojq.RefTerm
open Gojq Gojq.Lexer Gojq.Printer

/-- Printable in some position (the adjacency condition does not depend on precedence) -/
def OkQ (q : Query) : Prop := (∃ item min, okQ item min q = true) ∨ okOV q = true

def SPQ (q : Query) : Prop := ∀ (last : Option UInt8) (stk : List Nat) (fol : Bytes),
  OkQ q → safeB (endLast last (itemsQ q)) fol = true → itemsOKF fol last false stk (itemsQ q) = true
def SPT (t : Term) : Prop := ∀ (last : Option UInt8) (stk : List Nat) (fol : Bytes),
  okT t = true → safeB (endLast last (itemsT t)) fol = true → itemsOKF fol last false stk (itemsT t) = true
def SPSuf (s : Suffix) : Prop := ∀ (dot : Bool) (last : Option UInt8) (stk : List Nat) (fol : Bytes),
  okSuf s = true → safeB (endLast last (itemsSuf dot s)) fol = true →
    itemsOKF fol last false stk (itemsSuf dot s) = true
def SPS (s : Str) : Prop := ∀ (last : Option UInt8) (stk : List Nat) (fol : Bytes),
  okS s = true → itemsOKF fol last false stk (itemsS s) = true
/-- the pieces of an interpolated string, in string mode, up to and including the closing quote -/
def SPParts (ps : List Part) : Prop := ∀ (last : Option UInt8) (stk : List Nat) (fol : Bytes),
  okParts ps = true → partsShape ps = true → itemsOKF fol last true stk (itemsParts ps ++ [.t .strEnd]) = true
def SPArgsT (qs : List Query) : Prop := ∀ (last : Option UInt8) (stk : List Nat) (fol : Bytes),
  okQs qs = true → itemsOKF (41 :: fol) last false stk (itemsArgsT qs) = true
def SPKV (kv : KV) : Prop := ∀ (last : Option UInt8) (stk : List Nat) (fol : Bytes),
  okKV kv = true → safeB (endLast last (itemsKV kv)) fol = true → itemsOKF fol last false stk (itemsKV kv) = true
def SPKVsT (kvs : List KV) : Prop := ∀ (last : Option UInt8) (stk : List Nat) (fol : Bytes),
  okKVs kvs = true → itemsOKF (32 :: fol) last false stk (itemsKVsT kvs) = true
def SPP (p : Pattern) : Prop := ∀ (last : Option UInt8) (stk : List Nat) (fol : Bytes),
  okP p = true → safeB (endLast last (itemsP p)) fol = true → itemsOKF fol last false stk (itemsP p) = true
def SPPsT (ps : List Pattern) : Prop := ∀ (last : Option UInt8) (stk : List Nat) (fol : Bytes),
  okPs ps = true → itemsOKF (93 :: fol) last false stk (itemsPsT ps) = true
def SPAltT (ps : List Pattern) : Prop := ∀ (last : Option UInt8) (stk : List Nat) (fol : Bytes),
  okPs ps = true → itemsOKF fol last false stk (itemsAltT ps) = true
def SPPKV (kv : PKV) : Prop := ∀ (last : Option UInt8) (stk : List Nat) (fol : Bytes),
  okPKV kv = true → safeB (endLast last (itemsPKV kv)) fol = true → itemsOKF fol last false stk (itemsPKV kv) = true
def SPPKVsT (kvs : List PKV) : Prop := ∀ (last : Option UInt8) (stk : List Nat) (fol : Bytes),
  okPKVs kvs = true → itemsOKF (125 :: fol) last false stk (itemsPKVsT kvs) = true
def SPIf (r : IfRest) : Prop := ∀ (last : Option UInt8) (stk : List Nat) (fol : Bytes),
  okIf r = true → safeB (some 100) fol = true → itemsOKF fol last false stk (itemsIf r) = true
def SPFD (fd : FuncDef) : Prop := ∀ (last : Option UInt8) (stk : List Nat) (fol : Bytes),
  okFD fd = true → itemsOKF (32 :: fol) last false stk (itemsFD fd) = true

@[simp] theorem lastOr_single (b : UInt8) (last : Option UInt8) : lastOr [b] last = some b := rfl

/-! stops before a safe head byte, for each token class, as rewriting rules -/
@[simp] theorem stops_kw_s (w : Kw) (ch : UInt8) (r : Bytes) (h : safeHead ch = true) : stops (.kw w) (ch :: r) = true :=
  stops_class_safe _ ch r h rfl
@[simp] theorem stops_ident_s (s : Bytes) (ch : UInt8) (r : Bytes) (h : safeHead ch = true) : stops (.ident s) (ch :: r) = true :=
  stops_class_safe _ ch r h rfl
@[simp] theorem stops_var_s (s : Bytes) (ch : UInt8) (r : Bytes) (h : safeHead ch = true) : stops (.var s) (ch :: r) = true :=
  stops_class_safe _ ch r h rfl
@[simp] theorem stops_format_s (s : Bytes) (ch : UInt8) (r : Bytes) (h : safeHead ch = true) : stops (.format s) (ch :: r) = true :=
  stops_class_safe _ ch r h rfl
@[simp] theorem stops_op_s (o : BOp) (ch : UInt8) (r : Bytes) (h : safeHead ch = true) : stops (.op o) (ch :: r) = true :=
  stops_class_safe _ ch r h rfl
@[simp] theorem stops_destAlt_s (ch : UInt8) (r : Bytes) : stops .destAlt (ch :: r) = true := rfl
@[simp] theorem stops_str_s (v : Bytes) (fol : Bytes) : stops (.str v) fol = true := rfl
@[simp] theorem stops_nameTok_s (n : Bytes) (ch : UInt8) (r : Bytes) (h : safeHead ch = true) :
    stops (nameTok n) (ch :: r) = true := by
  unfold nameTok; split <;> split <;> exact stops_class_safe _ ch r h rfl
@[simp] theorem stops_keyTok_s (n : Bytes) (ch : UInt8) (r : Bytes) (h : safeHead ch = true) :
    stops (keyTok n) (ch :: r) = true := by
  unfold keyTok; split
  · exact stops_class_safe _ ch r h rfl
  · split <;> exact stops_class_safe _ ch r h rfl
@[simp] theorem stops_opTok_s (o : BOp) (r : Bytes) : stops (opTok o) (32 :: r) = true := by
  cases o <;> rfl
/-- a key followed by `: ` -/
@[simp] theorem stops_keyTok_colon (n : Bytes) (r : Bytes) : stops (keyTok n) (58 :: 32 :: r) = true := by
  unfold keyTok; split
  · rfl
  · split <;> rfl
@[simp] theorem stops_ident_colon (n : Bytes) (r : Bytes) : stops (.ident n) (58 :: 32 :: r) = true := rfl

@[simp] theorem stops_kw_32 (w : Kw) (r : Bytes) : stops (.kw w) (32 :: r) = true := stops_kw_s w 32 r rfl
@[simp] theorem stops_var_32 (s : Bytes) (r : Bytes) : stops (.var s) (32 :: r) = true := stops_var_s s 32 r rfl
@[simp] theorem stops_format_32 (s : Bytes) (r : Bytes) : stops (.format s) (32 :: r) = true := stops_format_s s 32 r rfl
@[simp] theorem stops_op_32 (o : BOp) (r : Bytes) : stops (.op o) (32 :: r) = true := stops_op_s o 32 r rfl
@[simp] theorem stops_ident_40 (s : Bytes) (r : Bytes) : stops (.ident s) (40 :: r) = true := stops_ident_s s 40 r rfl
@[simp] theorem stops_nameTok_40 (n : Bytes) (r : Bytes) : stops (nameTok n) (40 :: r) = true := stops_nameTok_s n 40 r rfl
@[simp] theorem stops_keyTok_59 (n : Bytes) (r : Bytes) : stops (keyTok n) (59 :: r) = true := stops_keyTok_s n 59 r rfl
@[simp] theorem stops_keyTok_41 (n : Bytes) (r : Bytes) : stops (keyTok n) (41 :: r) = true := stops_keyTok_s n 41 r rfl
@[simp] theorem stops_keyTok_32 (n : Bytes) (r : Bytes) : stops (keyTok n) (32 :: r) = true := stops_keyTok_s n 32 r rfl

@[simp] theorem inStrTok_nameTok (n : Bytes) : (nameTok n).inStrTok = false := by
  unfold nameTok; split <;> split <;> rfl
@[simp] theorem inStrTok_keyTok (n : Bytes) : (keyTok n).inStrTok = false := by
  unfold keyTok; split
  · rfl
  · split <;> rfl
@[simp] theorem inStrTok_opTok (o : BOp) : (opTok o).inStrTok = false := by cases o <;> rfl
@[simp] theorem wf_opTok (o : BOp) : (opTok o).wf = true := by cases o <;> rfl
theorem nameTok_ne_strStart (n : Bytes) : nameTok n ≠ .strStart := by
  unfold nameTok; split <;> split <;> simp
theorem keyTok_ne_strStart (n : Bytes) : keyTok n ≠ .strStart := by
  unfold keyTok; split
  · simp
  · split <;> simp

theorem wf_keyTok (n : Bytes) (h : okKey n = true) : (keyTok n).wf = true := by
  unfold keyTok
  simp only [okKey, Bool.or_eq_true] at h
  split
  · next hd =>
    rcases h with h | h
    · have := identName_head n h; simp_all
    · exact h
  · next hd =>
    rcases h with h | h
    · split
      · rfl
      · next hk => simp [Tok.wf, isPlainIdent, h, hk]
    · unfold isVarName at h
      split at h
      · simp at hd
      · cases h

theorem wf_nameTok (n : Bytes) (h : (isPlainIdent n || isModIdent n || isVarName n || isModVar n) = true) :
    (nameTok n).wf = true := by
  simp only [Bool.or_eq_true] at h
  rcases h with ((h | h) | h) | h
  · have h' := h
    simp only [isPlainIdent, Bool.and_eq_true] at h'
    rw [nameTok_ident n h'.1]; exact h
  · rw [nameTok_modIdent n h]; exact h
  · rw [nameTok_var n h]; exact h
  · rw [nameTok_modVar n h]; exact h

theorem OkQ_of (item : Bool) (min : Nat) (q : Query) (h : okQ item min q = true) : OkQ q := Or.inl ⟨item, min, h⟩

/-! ### queries -/

theorem sp_term (t : Term) (ih : SPT t) : SPQ (.term t) := by
  intro last stk fol hok hf
  have hok' : okT t = true := by
    rcases hok with ⟨i, m, h⟩ | h
    · rwa [okQ_term] at h
    · simpa [okOV] using h
  simpa [itemsQ] using ih last stk fol hok' (by simpa [itemsQ] using hf)

theorem OkQ_binop (o : BOp) (l r : Query) (h : OkQ (.binop o l r)) : OkQ l ∧ OkQ r := by
  rcases h with ⟨i, m, h⟩ | h
  · rw [okQ_binop] at h
    simp only [Bool.and_eq_true] at h
    exact ⟨OkQ_of _ _ _ h.1.1.2, OkQ_of _ _ _ h.2⟩
  · rw [okOV] at h
    split at h
    · simp only [Bool.and_eq_true] at h
      exact ⟨OkQ_of _ _ _ h.1.1, Or.inr h.2⟩
    · simp only [Bool.and_eq_true] at h
      exact ⟨OkQ_of _ _ _ h.1.1.2, OkQ_of _ _ _ h.2⟩

theorem render_opSep (o : BOp) (last : Option UInt8) (r : List Item) :
    ∃ ch rest, render last (opSep o ++ (Item.t (opTok o) :: Item.sp :: r)) = ch :: rest ∧ safeHead ch = true := by
  cases o <;> exact ⟨_, _, rfl, rfl⟩

theorem sp_binop (o : BOp) (l r : Query) (ihl : SPQ l) (ihr : SPQ r) : SPQ (.binop o l r) := by
  intro last stk fol hok hf
  obtain ⟨hl, hr⟩ := OkQ_binop o l r hok
  simp only [itemsQ, endLast_append] at hf
  simp only [itemsQ, itemsOKF_append, endQ, Bool.and_eq_true]
  obtain ⟨ch, rest, e, hs⟩ := render_opSep o (endLast last (itemsQ l)) (itemsQ r)
  refine ⟨ihl _ _ _ hl (by rw [e]; exact safeB_safeHead _ _ _ hs), ?_⟩
  have hr' := ihr (some 32) stk fol hr (by
    revert hf
    cases o <;> simp [opSep, endLast, opTok, Tok.spell, lastOr])
  cases o <;> simp [opSep, itemsOKF_opTok, itemsOKF_op, itemsOKF_kw, opTok, render, Tok.wf, Tok.inStrTok, okCh, isSolo, isEqExt,
    stops, isOpTok, Tok.spell, lastOr, hr', show isIdent 32 true = false by decide]

end Gojq.RefTerm

/-
  C04, groundwork for the tail-call pass on programs with closures (Props/C04TailClos.lean):
  THE FRAME INDEX INSIDE A CLOSURE VALUE IS OPAQUE to every opcode but `opcallpc`.

  Two environments that differ only in the index component of the closure values `[2]int{pc, index}`
  they hold — anywhere on the data stack, on the paths stack (inside `pathValue`s) and in
  `env.values` — are related by `PRel`.  Every instruction other than `callpc` maps related
  environments (and related locals: the pending error may carry such a value) to the same control
  result and related environments, or fails the same way on both sides (`exec_param`).

  This is the design-independent half of a simulation proof for `optimizeTailRec` with closures: in
  the original and the optimised run corresponding closures capture different scope-stack positions
  (the dropped frames shift later frames), so no relation between the two runs can make the data
  stack or `env.values` EQUAL as Proofs/TailSimRel.lean does; with this theorem the relation of that
  file can be composed with `PRel` (`e ~PRel~ e'' ~TRel~ e'`, where `e''` is the original's
  environment with the optimised run's stack, paths and values), and only `oppushpc` / `opcallpc`
  and the typed tracking of which closure pairs correspond remain.
-/
import Gojq.Proofs.VMExec
import Gojq.Model.OptVM
set_option linter.unusedSimpArgs false
set_option linter.unusedVariables false
namespace Gojq.CloParam
open Gojq Gojq.VM

/-! ## the relation -/

/-- equal up to the frame index inside closures -/
inductive VR : V → V → Prop
  | refl (v : V) : VR v v
  | clo (pc i j : Int) : VR (.clo pc i) (.clo pc j)
  | pv {p p' v v' : V} : VR p p' → VR v v' → VR (.pv p v) (.pv p' v')

/-- errors, likewise -/
inductive ER : Err → Err → Prop
  | refl (e : Err) : ER e e
  | value {v v' : V} : VR v v' → ER (.value v) (.value v')
  | halt {v v' : V} : VR v v' → ER (.halt v) (.halt v')
  | brk (n : Bytes) {v v' : V} : VR v v' → ER (.brk n v) (.brk n v')
  | tryEnd {e e' : Err} : ER e e' → ER (.tryEnd e) (.tryEnd e')

def OR {α : Type} (R : α → α → Prop) : Option α → Option α → Prop
  | none, none => True
  | some a, some b => R a b
  | _, _ => False

/-- arrays of the same size, related element by element -/
def AR {α : Type} (R : α → α → Prop) (a a' : Array α) : Prop :=
  a.size = a'.size ∧ ∀ (i : Nat) (x x' : α), a[i]? = some x → a'[i]? = some x' → R x x'

def BR (b b' : Block V) : Prop := b.next = b'.next ∧ VR b.value b'.value

def SR (s s' : Stack V) : Prop := s.index = s'.index ∧ s.limit = s'.limit ∧ AR BR s.data s'.data

/-- the two environments differ only in closure indices -/
structure PRel (e e' : Env) : Prop where
  stack : SR e.stack e'.stack
  paths : SR e.paths e'.paths
  values : AR VR e.values e'.values
  rest : e' = { e with stack := e'.stack, paths := e'.paths, values := e'.values }

/-- the locals of `Next` -/
structure LR (l l' : L) : Prop where
  err : OR ER l.err l'.err
  rest : l' = { l with err := l'.err }

theorem LR.refl (l : L) : LR l l := ⟨by cases h : l.err <;> simp [OR] <;> exact .refl _, rfl⟩

/-- control results -/
def CR : Ctl → Ctl → Prop
  | .ret v, .ret v' => VR v v'
  | .fall, .fall | .jump, .jump | .brk, .brk => True
  | _, _ => False

def CLR (r r' : Ctl × L) : Prop := CR r.1 r'.1 ∧ LR r.2 r'.2

/-! ## arrays and stacks -/

theorem AR.get {α : Type} {R : α → α → Prop} {a a' : Array α} (h : AR R a a') (i : Nat) :
    OR R a[i]? a'[i]? := by
  by_cases hi : i < a.size
  · have hi' : i < a'.size := by rw [← h.1]; exact hi
    rw [Array.getElem?_eq_getElem hi, Array.getElem?_eq_getElem hi']
    exact h.2 i _ _ (Array.getElem?_eq_getElem hi) (Array.getElem?_eq_getElem hi')
  · have hi' : ¬ i < a'.size := by rw [← h.1]; exact hi
    rw [Array.getElem?_eq_none (by omega), Array.getElem?_eq_none (by omega)]
    trivial

theorem AR.set {α : Type} {R : α → α → Prop} {a a' : Array α} (h : AR R a a') (i : Nat) {x x' : α} (hx : R x x') :
    AR R (a.setIfInBounds i x) (a'.setIfInBounds i x') := by
  refine ⟨by simp [h.1], ?_⟩
  intro j y y' hy hy'
  rw [Array.getElem?_setIfInBounds] at hy hy'
  by_cases hij : i = j
  · subst hij
    by_cases hi : i < a.size
    · have hi' : i < a'.size := by rw [← h.1]; exact hi
      simp [hi] at hy; simp [hi'] at hy'
      subst hy; subst hy'; exact hx
    · have hi' : ¬ i < a'.size := by rw [← h.1]; exact hi
      simp [hi] at hy
  · simp [hij] at hy hy'
    exact h.2 j y y' hy hy'

theorem AR.push {α : Type} {R : α → α → Prop} {a a' : Array α} (h : AR R a a') {x x' : α} (hx : R x x') :
    AR R (a.push x) (a'.push x') := by
  refine ⟨by simp [h.1], ?_⟩
  intro j y y' hy hy'
  rw [Array.getElem?_push] at hy hy'
  by_cases hj : j = a.size
  · have hj' : j = a'.size := by rw [← h.1]; exact hj
    simp [hj] at hy; simp [hj'] at hy'
    subst hy; subst hy'; exact hx
  · have hj' : ¬ j = a'.size := by rw [← h.1]; exact hj
    simp [hj] at hy; simp [hj'] at hy'
    exact h.2 j y y' hy hy'

theorem AR.append_replicate {α : Type} {R : α → α → Prop} {a a' : Array α} (h : AR R a a') (n : Nat) {x : α}
    (hx : R x x) : AR R (a ++ Array.replicate n x) (a' ++ Array.replicate n x) := by
  refine ⟨by simp [h.1], ?_⟩
  intro j y y' hy hy'
  by_cases hj : j < a.size
  · have hj' : j < a'.size := by rw [← h.1]; exact hj
    rw [Array.getElem?_append_left hj] at hy
    rw [Array.getElem?_append_left hj'] at hy'
    exact h.2 j y y' hy hy'
  · have hj' : ¬ j < a'.size := by rw [← h.1]; exact hj
    rw [Array.getElem?_append_right (by omega)] at hy
    rw [Array.getElem?_append_right (by omega)] at hy'
    have e1 : y = x := by
      have := Array.mem_of_getElem? hy
      simp at this; exact this.2
    have e2 : y' = x := by
      have := Array.mem_of_getElem? hy'
      simp at this; exact this.2
    rw [e1, e2]; exact hx

theorem SR.push {s s' : Stack V} (h : SR s s') {v v' : V} (hv : VR v v') : SR (s.push v) (s'.push v') := by
  obtain ⟨hi, hl, hd⟩ := h
  unfold Stack.push
  simp only [← hi, ← hl, ← hd.1]
  split
  · exact ⟨rfl, rfl, hd.set _ ⟨rfl, hv⟩⟩
  · exact ⟨rfl, rfl, hd.push ⟨rfl, hv⟩⟩

theorem SR.blockAt {s s' : Stack V} (h : SR s s') (i : Int) : OR BR (s.blockAt? i) (s'.blockAt? i) := by
  unfold Stack.blockAt?
  split
  · exact h.2.2.get _
  · trivial

theorem SR.pop {s s' : Stack V} (h : SR s s') :
    OR (fun r r' => VR r.1 r'.1 ∧ SR r.2 r'.2) s.pop? s'.pop? := by
  unfold Stack.pop?
  have := h.blockAt s.index
  rw [h.1] at this
  rw [h.1]
  cases hb : s.blockAt? s'.index <;> cases hb' : s'.blockAt? s'.index <;> rw [hb, hb'] at this <;>
    simp only [OR] at this ⊢
  exact ⟨this.2, this.1, h.2.1, h.2.2⟩

theorem SR.top {s s' : Stack V} (h : SR s s') : OR VR s.top? s'.top? := by
  unfold Stack.top?
  have := h.blockAt s.index
  rw [h.1] at this
  rw [h.1]
  cases hb : s.blockAt? s'.index <;> cases hb' : s'.blockAt? s'.index <;> rw [hb, hb'] at this <;>
    simp only [OR] at this ⊢
  exact this.2

theorem SR.save {s s' : Stack V} (h : SR s s') : s.save.1 = s'.save.1 ∧ SR s.save.2 s'.save.2 := by
  obtain ⟨hi, hl, hd⟩ := h
  unfold Stack.save
  by_cases hc : s.index > s.limit
  · have hc' : s'.index > s'.limit := by rw [← hi, ← hl]; exact hc
    rw [if_pos hc, if_pos hc']
    exact ⟨by rw [hi, hl], hi, hi, hd⟩
  · have hc' : ¬ s'.index > s'.limit := by rw [← hi, ← hl]; exact hc
    rw [if_neg hc, if_neg hc']
    exact ⟨by rw [hi, hl], hi, hl, hd⟩

theorem SR.restore {s s' : Stack V} (h : SR s s') (i l : Int) : SR (s.restore i l) (s'.restore i l) :=
  ⟨rfl, rfl, h.2.2⟩

theorem SR.empty {s s' : Stack V} (h : SR s s') : s.empty = s'.empty := by
  unfold Stack.empty; rw [h.1]

/-! ## the calculus -/

/-- related results: same failure, or related values and environments -/
def RR {α : Type} (R : α → α → Prop) : Res α → Res α → Prop
  | .ok a e, .ok a' e' => R a a' ∧ PRel e e'
  | .panic s, .panic s' => s = s'
  | .stuck w, .stuck w' => w = w'
  | _, _ => False

/-- `m` and `m'` map related environments to related results -/
def PC {α : Type} (R : α → α → Prop) (m m' : M α) : Prop := ∀ e e', PRel e e' → RR R (m e) (m' e')

theorem PC.pure {α : Type} {R : α → α → Prop} {a a' : α} (h : R a a') : PC R (pure a : M α) (pure a') :=
  fun _ _ he => ⟨h, he⟩

theorem PC.bind {α β : Type} {R : α → α → Prop} {Q : β → β → Prop} {m m' : M α} {f f' : α → M β}
    (hm : PC R m m') (hf : ∀ a a', R a a' → PC Q (f a) (f' a')) : PC Q (m >>= f) (m' >>= f') := by
  intro e e' he
  have := hm e e' he
  show RR Q (M.bind m f e) (M.bind m' f' e')
  unfold M.bind
  cases h1 : m e <;> cases h2 : m' e' <;> rw [h1, h2] at this <;> simp only [RR] at this ⊢
  · exact hf _ _ this.1 _ _ this.2
  · exact this
  · exact this

theorem PC.panic {α : Type} {R : α → α → Prop} (s : Site) : PC R (panic s : M α) (panic s) := fun _ _ _ => rfl
theorem PC.stuck {α : Type} {R : α → α → Prop} (w : String) : PC R (stuck w : M α) (stuck w) := fun _ _ _ => rfl

theorem PC.mono {α : Type} {R Q : α → α → Prop} {m m' : M α} (h : PC R m m') (hq : ∀ a a', R a a' → Q a a') :
    PC Q m m' := by
  intro e e' he
  have := h e e' he
  cases h1 : m e <;> cases h2 : m' e' <;> rw [h1, h2] at this <;> simp only [RR] at this ⊢
  · exact ⟨hq _ _ this.1, this.2⟩
  · exact this
  · exact this

def TT {α : Type} : α → α → Prop := fun _ _ => True

/-! ## primitives -/

theorem PRel.mk_stack {e e' : Env} (h : PRel e e') {s s' : Stack V} (hs : SR s s') :
    PRel { e with stack := s } { e' with stack := s' } :=
  ⟨hs, h.paths, h.values, by have := h.rest; rw [this]⟩

theorem PRel.mk_paths {e e' : Env} (h : PRel e e') {s s' : Stack V} (hs : SR s s') :
    PRel { e with paths := s } { e' with paths := s' } :=
  ⟨h.stack, hs, h.values, by have := h.rest; rw [this]⟩

theorem PRel.mk_values {e e' : Env} (h : PRel e e') {a a' : Array V} (ha : AR VR a a') :
    PRel { e with values := a } { e' with values := a' } :=
  ⟨h.stack, h.paths, ha, by have := h.rest; rw [this]⟩

theorem PRel.scopes {e e' : Env} (h : PRel e e') : e'.scopes = e.scopes := by rw [h.rest]
theorem PRel.forks {e e' : Env} (h : PRel e e') : e'.forks = e.forks := by rw [h.rest]
theorem PRel.offset {e e' : Env} (h : PRel e e') : e'.offset = e.offset := by rw [h.rest]
theorem PRel.expdepth {e e' : Env} (h : PRel e e') : e'.expdepth = e.expdepth := by rw [h.rest]
theorem PRel.label {e e' : Env} (h : PRel e e') : e'.label = e.label := by rw [h.rest]

theorem PC.push {v v' : V} (hv : VR v v') : PC TT (push v) (push v') :=
  fun e e' he => ⟨trivial, he.mk_stack (he.stack.push hv)⟩

theorem PC.pop : PC VR pop pop := by
  intro e e' he
  have := he.stack.pop
  unfold VM.pop
  cases h1 : e.stack.pop? <;> cases h2 : e'.stack.pop? <;> rw [h1, h2] at this <;> simp only [OR] at this
  · rfl
  · exact ⟨this.1, he.mk_stack this.2⟩

theorem PC.stackTop : PC VR stackTop stackTop := by
  intro e e' he
  have := he.stack.top
  unfold VM.stackTop
  cases h1 : e.stack.top? <;> cases h2 : e'.stack.top? <;> rw [h1, h2] at this <;> simp only [OR] at this
  · rfl
  · exact ⟨this, he⟩

theorem PC.pathsPush {v v' : V} (hv : VR v v') : PC TT (pathsPush v) (pathsPush v') :=
  fun e e' he => ⟨trivial, he.mk_paths (he.paths.push hv)⟩

theorem PC.pathsPop : PC VR pathsPop pathsPop := by
  intro e e' he
  have := he.paths.pop
  unfold VM.pathsPop
  cases h1 : e.paths.pop? <;> cases h2 : e'.paths.pop? <;> rw [h1, h2] at this <;> simp only [OR] at this
  · rfl
  · exact ⟨this.1, he.mk_paths this.2⟩

theorem PC.pathsTop : PC VR pathsTop pathsTop := by
  intro e e' he
  have := he.paths.top
  unfold VM.pathsTop
  cases h1 : e.paths.top? <;> cases h2 : e'.paths.top? <;> rw [h1, h2] at this <;> simp only [OR] at this
  · rfl
  · exact ⟨this, he⟩

theorem PC.envIndex (id off : Int) : PC Eq (envIndex id off) (envIndex id off) := by
  intro e e' he
  unfold VM.envIndex
  rw [he.scopes]
  cases scopeWalk e.scopes.data id off (e.scopes.data.size + 1) e.scopes.index <;> simp only [RR]
  · exact ⟨trivial, he⟩

theorem PC.getValue (i : Int) : PC VR (getValue i) (getValue i) := by
  intro e e' he
  unfold VM.getValue
  split
  · have := he.values.get i.toNat
    cases h1 : e.values[i.toNat]? <;> cases h2 : e'.values[i.toNat]? <;> rw [h1, h2] at this <;>
      simp only [OR] at this
    · rfl
    · exact ⟨this, he⟩
  · rfl

theorem PC.setValue (i : Int) {v v' : V} (hv : VR v v') : PC TT (setValue i v) (setValue i v') := by
  intro e e' he
  unfold VM.setValue
  rw [← he.values.1]
  split
  · exact ⟨trivial, he.mk_values (he.values.set _ hv)⟩
  · rfl

theorem PC.getEnv : PC PRel getEnv getEnv := fun e e' he => ⟨he, he⟩

theorem PC.modify {f f' : Env → Env} (h : ∀ e e', PRel e e' → PRel (f e) (f' e')) :
    PC TT (modifyEnv f) (modifyEnv f') := fun e e' he => ⟨trivial, h e e' he⟩

theorem PC.pushfork (pc : Int) : PC TT (pushfork pc) (pushfork pc) := by
  refine PC.modify ?_
  intro e e' he
  obtain ⟨hs1, hs2⟩ := he.stack.save
  obtain ⟨hp1, hp2⟩ := he.paths.save
  refine ⟨hs2, hp2, he.values, ?_⟩
  simp only
  rw [he.scopes, he.forks, he.offset, he.expdepth, ← hs1, ← hp1]
  have := he.rest
  rw [this]

theorem PC.pushforkOver {v v' : V} (hv : VR v v') (pc : Int) : PC TT (pushforkOver v pc) (pushforkOver v' pc) := by
  unfold VM.pushforkOver
  exact PC.bind (PC.push hv) (fun _ _ _ => PC.bind (PC.pushfork pc) (fun _ _ _ =>
    PC.bind PC.pop (fun _ _ _ => PC.pure trivial)))

theorem PC.popscope : PC Eq popscope popscope := by
  intro e e' he
  unfold VM.popscope
  simp only [he.scopes, he.offset]
  cases e.scopes.pop? with
  | none => rfl
  | some r =>
    refine ⟨rfl, he.stack, he.paths, he.values, ?_⟩
    have := he.rest
    rw [this]

theorem PC.extCall (x : ExtRec) : PC Eq (extCall x) (extCall x) := by
  intro e e' he
  unfold VM.extCall
  cases x.call <;> simp only [RR]
  · exact ⟨trivial, he⟩

theorem PC.tracking : PC Eq tracking tracking := by
  intro e e' he
  unfold VM.tracking
  rw [he.paths.empty, he.expdepth]
  exact ⟨rfl, he⟩

theorem PC.pathIntact (x : ExtRec) : PC Eq (pathIntact x) (pathIntact x) := by
  unfold VM.pathIntact
  refine PC.bind PC.pathsTop ?_
  intro w w' hw
  cases hw with
  | refl w => cases w <;> first | exact PC.panic _ | (cases x.intact <;> first | exact PC.pure rfl | exact PC.stuck _)
  | clo pc i j => exact PC.panic _
  | pv _ _ => cases x.intact <;> first | exact PC.pure rfl | exact PC.stuck _

theorem PC.asJV {v v' : V} (hv : VR v v') : PC Eq (asJV v) (asJV v') := by
  cases hv with
  | refl v => cases v <;> first | exact PC.pure rfl | exact PC.stuck _
  | clo pc i j => exact PC.stuck _
  | pv _ _ => exact PC.stuck _

end Gojq.CloParam

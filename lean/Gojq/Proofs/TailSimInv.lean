/-
  The simulation invariant between the run of the original code `c` and the run of the code `c'`
  in which self tail calls of variable-free, argument-free functions became jumps, the static
  conditions on the code it needs (`TailStatic`), and the explicit forms of the three instructions
  that are not handled by the congruence (`call`, `scope`, `ret`).

  The two runs are synchronised (`Mode.sync`: same pc) except
    * between the original's `call f` and its `scope` (`Mode.callmid`): the optimised run still
      stands at the rewritten instruction, its `jump f+1` is matched with the original's `scope`;
    * while the original returns through dropped frames (`Mode.detour`): the optimised run waits at
      its `ret`; the original pops a dropped frame, lands behind the rewritten call, follows jumps
      to a `ret` (`JumpsToRet`), and so on, until the frame on top is a kept one; then both return.
-/
import Gojq.Proofs.TailSimStack
import Gojq.Proofs.TailSimCtl
set_option linter.unusedSimpArgs false
set_option linter.unusedVariables false
namespace Gojq.TailVM
open Gojq Gojq.VM Gojq.OptVM

/-! ## symbolic evaluation of the state monad -/

theorem bind_apply {α β : Type} (m : M α) (f : α → M β) (e : Env) :
    (m >>= f) e = match m e with
      | .ok a e1 => f a e1
      | .panic s => .panic s
      | .stuck w => .stuck w := rfl
theorem getEnv_apply (e : Env) : getEnv e = .ok e e := rfl
theorem modifyEnv_apply (f : Env → Env) (e : Env) : modifyEnv f e = .ok () (f e) := rfl
theorem pure_apply {α : Type} (a : α) (e : Env) : (pure a : M α) e = .ok a e := rfl
theorem ite_apply' {α : Type} (c : Prop) [Decidable c] (f g : M α) (e : Env) :
    (if c then f else g) e = if c then f e else g e := by split <;> rfl

/-! ## `call`, `jump`, `ret`, `scope`, explicitly -/

theorem exec_call_bt (t : Int) (x : ExtRec) (l : L) (e : Env) (h : l.backtrack = true) :
    exec (.call t) x l e = .ok (.brk, l) e := by
  simp only [exec, h, if_true]; rfl

theorem exec_call_nb (t : Int) (x : ExtRec) (l : L) (e : Env) (h : l.backtrack = false) :
    exec (.call t) x l e = .ok (.jump, { l with pc := t, callpc := l.pc, index := e.scopes.index }) e := by
  simp only [exec, h, Bool.false_eq_true, if_false]; rfl

theorem exec_jump (t : Int) (x : ExtRec) (l : L) (e : Env) :
    exec (.jump t) x l e = .ok (.jump, { l with pc := t }) e := rfl

theorem exec_ret_bt (x : ExtRec) (l : L) (e : Env) (h : l.backtrack = true) :
    exec .ret x l e = .ok (.brk, l) e := by
  simp only [exec, h, if_true]; rfl

theorem exec_ret_empty (x : ExtRec) (l : L) (e : Env) (h : l.backtrack = false) (h0 : e.scopes.index < 0) :
    exec .ret x l e = .panic .scopesPop := by
  have hn : ¬ 0 ≤ e.scopes.index := by omega
  have hp : popscope e = .panic .scopesPop := by
    simp only [popscope, Stack.pop?, Stack.blockAt?, hn, if_false]
  simp only [exec, h, Bool.false_eq_true, if_false]
  rw [bind_apply, hp]

/-- the environment after `popscope` and `index = saveindex` -/
def popEnv (e : Env) (g : Scope) : Env :=
  { e with scopes := { e.scopes with index := g.saveindex },
           offset := if e.scopes.index > e.scopes.limit then g.offset else e.offset }

/-- the end of `opret`, after the frame is popped -/
def retTail (l : L) (e1 : Env) : Res (Ctl × L) :=
  if e1.scopes.empty then
    match e1.stack.pop? with
    | some (v, s) => .ok (.ret v, l) { e1 with stack := s }
    | none => .panic .stackPop
  else .ok (.fall, l) e1

theorem exec_ret_nb (x : ExtRec) (l : L) (e : Env) (g : Scope) (nx : Int) (h : l.backtrack = false)
    (h0 : 0 ≤ e.scopes.index) (hb : e.scopes.data[e.scopes.index.toNat]? = some ⟨g, nx⟩) (hs : g.saveindex = nx) :
    exec .ret x l e = retTail { l with pc := g.pc } (popEnv e g) := by
  subst hs
  obtain ⟨pc, cpc, idx, bt, er⟩ := l
  simp only at h
  subst h
  have hp : popscope e = .ok (g.pc, g.saveindex) (popEnv e g) := by
    simp only [popscope, Stack.pop?, Stack.blockAt?, h0, if_true, hb, popEnv]
  simp only [exec, Bool.false_eq_true, if_false]
  rw [bind_apply, hp]
  refine Eq.trans (show _ = (if (popEnv e g).scopes.empty = true then
      (pop >>= fun v => (pure (Ctl.ret v, (⟨g.pc, cpc, idx, false, er⟩ : L)) : M (Ctl × L)))
    else pure (Ctl.fall, (⟨g.pc, cpc, idx, false, er⟩ : L))) (popEnv e g) from rfl) ?_
  unfold retTail
  cases hE : (popEnv e g).scopes.empty with
  | true =>
    simp only [if_true]
    rw [bind_apply]
    unfold VM.pop
    cases (popEnv e g).stack.pop? with
    | none => rfl
    | some p => rfl
  | false =>
    simp only [Bool.false_eq_true, if_false]
    rfl

/-- `make([]any, env.offset*2); copy(vs, env.values)` when the variable array is too short -/
def growValues (e : Env) : Env :=
  if e.offset > e.values.size then
    { e with values := e.values ++ Array.replicate ((e.offset * 2).toNat - e.values.size) (.jv .null) }
  else e

/-- the environment `opscope` leaves when it is entered by `opcall` (no frame is replaced) -/
def scopeEnv (id vars cpc : Int) (e : Env) : Env :=
  growValues { e with scopes := e.scopes.push (newFrame e.scopes id e.offset cpc), offset := e.offset + vars }

theorem exec_scope_call (id vars n : Int) (x : ExtRec) (l : L) (e : Env) (hi : l.index = e.scopes.index)
    (hc : 0 ≤ l.callpc) (hb : 0 ≤ e.scopes.index → ∃ b, e.scopes.data[e.scopes.index.toNat]? = some b) :
    exec (.scope id vars n) x l e = .ok (.fall, l) (scopeEnv id vars l.callpc e) := by
  obtain ⟨pc, cpc, idx, bt, er⟩ := l
  simp only at hi hc
  subst hi
  have hc' : cpc ≥ 0 := hc
  simp only [exec, bind_apply, getEnv_apply, modifyEnv_apply, pure_apply, ite_apply', hc', if_true]
  by_cases h0 : e.scopes.index ≥ 0
  · obtain ⟨b, hbb⟩ := hb h0
    have h0' : 0 ≤ e.scopes.index := h0
    simp only [h0, if_true, hbb, pure_apply, scopeEnv, growValues, newFrame, outerOf, h0']
    split <;> rfl
  · have h0' : ¬ 0 ≤ e.scopes.index := h0
    simp only [h0, if_false, scopeEnv, growValues, newFrame, outerOf, h0']
    split <;> rfl

theorem growValues_fields (e : Env) :
    (growValues e).scopes = e.scopes ∧ (growValues e).forks = e.forks ∧ (growValues e).offset = e.offset ∧
    e.values.size ≤ (growValues e).values.size ∧ (growValues e).offset ≤ (growValues e).values.size := by
  unfold growValues
  split
  · rename_i h
    refine ⟨rfl, rfl, rfl, by simp, ?_⟩
    simp only [Array.size_append, Array.size_replicate]
    omega
  · rename_i h
    exact ⟨rfl, rfl, rfl, Nat.le_refl _, by omega⟩

/-! ## static conditions -/

def AtScope (c : Array Instr) (pc : Int) : Prop := 0 ≤ pc ∧ ∃ id v n, c[pc.toNat]? = some (.scope id v n)
def AtRet (c : Array Instr) (pc : Int) : Prop := 0 ≤ pc ∧ c[pc.toNat]? = some .ret

/-- a pc at which `Next` may be re-entered with `backtrack = true`: past the end, or at an
    instruction that breaks or clears the flag at once -/
def BtAt (c : Array Instr) (pc : Int) : Prop :=
  (c.size : Int) ≤ pc ∨ (0 ≤ pc ∧ ∃ ins, c[pc.toNat]? = some ins ∧ isBreaker ins = true)

/-- what the simulation needs to know about the original code `c` and the optimised code `c'` -/
structure TailStatic (c c' : Array Instr) : Prop where
  size : c'.size = c.size
  pos : 0 < c.size
  last : c[c.size - 1]? = some .ret
  first : ∃ id v n, c[0]? = some (.scope id v n)
  /-- `c'` is `c` except at rewritten self tail calls of variable-free, argument-free scopes -/
  site : ∀ (i : Nat) (a : Instr), c[i]? = some a → c'[i]? = some a ∨
      ∃ j id, a = .call j ∧ 0 ≤ j ∧ c[j.toNat]? = some (.scope id 0 0) ∧ c'[i]? = some (.jump (j + 1)) ∧
        JumpsToRet c ((i : Int) + 1)
  call : ∀ (i : Nat) (t : Int), c[i]? = some (.call t) → 0 ≤ t ∧ ∃ id v n, c[t.toNat]? = some (.scope id v n)
  /-- no closures, no `callrec` before the pass -/
  noclo : ∀ (i : Nat) (a : Instr), c[i]? = some a → (∀ t, a ≠ .pushpc t) ∧ a ≠ .callpc ∧ (∀ t, a ≠ .callrec t)
  /-- a function entry is only reached by a call: it is preceded by a jump … -/
  scopePrev : ∀ (t : Nat) (id v n : Int), c[t]? = some (.scope id v n) → 0 < t → ∃ u, c[t - 1]? = some (.jump u)
  /-- … and is not the target of a jump or fork -/
  target : ∀ (i : Nat) (a : Instr) (t : Int), c[i]? = some a → targetOf a = some t → ¬ AtScope c t
  /-- no variable instruction names a variable-free, argument-free scope -/
  vars : ∀ (i : Nat) (a : Instr) (id : Int), c[i]? = some a → varId a = some id → ¬ Dead c id

/-! ## the invariant -/

/-- the locals `callpc` / `index` when the pc stands at a function entry -/
structure ScopeEntry (c : Array Instr) (lo lp : L) (eo ep : Env) : Prop where
  io : lo.index = eo.scopes.index
  ip : lp.index = ep.scopes.index
  cp : lo.callpc = lp.callpc
  kept : KeptPc c lp.callpc
  nonneg : 0 ≤ lp.callpc
  bot : ep.scopes.index < 0 → lp.callpc = (c.size : Int) - 1

inductive Mode (c c' : Array Instr) (lo lp : L) (eo ep : Env) : Prop
  | sync : lo.pc = lp.pc → (AtScope c lo.pc → ScopeEntry c lo lp eo ep) → Mode c c' lo lp eo ep
  | detour : lo.backtrack = false → AtRet c lp.pc → JumpsToRet c lo.pc → Mode c c' lo lp eo ep
  | callmid (i : Nat) (j id : Int) : lo.backtrack = false → lp.pc = i → c'[i]? = some (.jump (j + 1)) → 0 ≤ j →
      c[j.toNat]? = some (.scope id 0 0) → lo.pc = j → lo.callpc = i → lo.index = eo.scopes.index →
      0 ≤ ep.scopes.index → JumpsToRet c ((i : Int) + 1) → Mode c c' lo lp eo ep

structure Inv (c c' : Array Instr) (lo lp : L) (eo ep : Env) : Prop where
  rel : TRel c eo ep
  bt : lp.backtrack = lo.backtrack
  err : lp.err = lo.err
  mode : Mode c c' lo lp eo ep
  btpc : lp.backtrack = true → lo.pc = lp.pc ∧ BtAt c' lp.pc
  ne : 0 ≤ ep.scopes.index ∨ (lp.backtrack = true ∧ ((c.size : Int) ≤ lp.pc ∨ AtRet c lp.pc)) ∨
    (lo.pc = lp.pc ∧ AtScope c lp.pc)

/-- the relation between two calls of `Next` -/
def FRel (c c' : Array Instr) (e e' : Env) : Prop :=
  TRel c e e' ∧
  ((e.backtrack = false ∧ e.pc = 0 ∧ e.scopes.index = -1 ∧ e'.scopes.index = -1) ∨
   (e.backtrack = true ∧ BtAt c' e.pc ∧ (0 ≤ e'.scopes.index ∨ (c.size : Int) ≤ e.pc ∨ AtRet c e.pc)))

/-! ## one turn, unfolded at a known instruction -/

/-- what the loop does with the result of the instruction at `l.pc` -/
def contOf (size : Nat) (l : L) (e : Env) : Res (Ctl × L) → StepE
  | .panic site => .fin (.panic site) (saveE e l.pc)
  | .stuck why => .fin (.stuck why) (saveE e l.pc)
  | .ok (.fall, l') e' => .cont { l' with pc := l'.pc + 1 } e'
  | .ok (.jump, l') e' => .cont l' e'
  | .ok (.ret v, l') e' => .fin (.value v) (saveE e' l'.pc)
  | .ok (.brk, l') e' => unwindE size l' e'

theorem stepE_at (c : Array Instr) (x : ExtRec) (l : L) (e : Env) (ins : Instr) (h0 : 0 ≤ l.pc)
    (hi : c[l.pc.toNat]? = some ins) : stepE c x l e = contOf c.size l e (exec ins x l e) := by
  have hlt := (Array.getElem?_eq_some_iff.mp hi).1
  have hget : c.getD l.pc.toNat .bad = ins := by
    simp [Array.getD, hlt, (Array.getElem?_eq_some_iff.mp hi).2]
  unfold stepE
  rw [if_pos (by omega), if_neg (by omega), hget]
  unfold contOf
  cases exec ins x l e with
  | panic s => rfl
  | stuck w => rfl
  | ok r e' =>
    obtain ⟨ctl, l'⟩ := r
    cases ctl <;> rfl

theorem stepE_past (c : Array Instr) (x : ExtRec) (l : L) (e : Env) (h : (c.size : Int) ≤ l.pc) :
    stepE c x l e = unwindE c.size l e := by
  unfold stepE
  rw [if_neg (by omega)]

theorem stepE_neg (c : Array Instr) (x : ExtRec) (l : L) (e : Env) (h : l.pc < 0) :
    stepE c x l e = .fin (.panic .codesIndex) (saveE e l.pc) := by
  unfold stepE
  rw [if_pos (by omega), if_pos h]

theorem tickAt_at (c : Array Instr) (l : L) (ins : Instr) (h0 : 0 ≤ l.pc) (hi : c[l.pc.toNat]? = some ins) :
    tickAt c l = if usesExt ins = true then 1 else 0 := by
  have hlt := (Array.getElem?_eq_some_iff.mp hi).1
  have hget : c.getD l.pc.toNat .bad = ins := by
    simp [Array.getD, hlt, (Array.getElem?_eq_some_iff.mp hi).2]
  unfold tickAt
  rw [hget]
  by_cases hu : usesExt ins = true
  · rw [if_pos hu, if_pos ⟨h0, by omega, hu⟩]
  · rw [if_neg hu, if_neg (fun h => hu h.2.2)]

end Gojq.TailVM

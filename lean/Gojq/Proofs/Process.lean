/- Helper lemmas for C15 about Model/Cli/Process.lean. -/
import Gojq.Model.Cli.Process
namespace Gojq.Process
open Gojq

/-- `cli.exitCodeError.code` after printing one input's outputs -/
def ecAfter (o : Opts) : List Out → Int → Int
  | .value v :: rest, e =>
    match marshal o v with
    | some _ => ecAfter o rest (if o.exitStatus then (if v.falsy then 1 else 0) else e)
    | none => e
  | _, e => e

/-- `printValues` in closed form -/
theorem printValues_eq (o : Opts) : ∀ (outs : List Out) (st : St),
    printValues o outs st =
      ({ st with stdout := st.stdout ++ outPrefix o outs, ecode := ecAfter o outs st.ecode }, firstStop o outs)
  | [], st => by simp [printValues, outPrefix, ecAfter, firstStop]
  | .value v :: rest, st => by
    simp only [printValues, outPrefix, ecAfter, firstStop]
    cases h : marshal o v with
    | none => simp
    | some b => simp [printValues_eq o rest, List.append_assoc]
  | .error m c :: _, st => by simp [printValues, outPrefix, ecAfter, firstStop]
  | .halt c m :: _, st => by simp [printValues, outPrefix, ecAfter, firstStop]

/-- `process` never touches stdout except through `printValues` -/
theorem process_stdout (o : Opts) : ∀ (ins : List In) (st : St),
    (process o ins st).stdout = st.stdout ++ stdoutSpec o ins
  | [], st => by simp [process, stdoutSpec]
  | .error :: rest, st => by simp [process, stdoutSpec, process_stdout o rest]
  | .value outs :: rest, st => by
    simp only [process, stdoutSpec, printValues_eq]
    cases h : firstStop o outs with
    | none => simp [isHalt, process_stdout o rest, List.append_assoc]
    | some s =>
      cases s with
      | error m c => simp [isHalt, process_stdout o rest, List.append_assoc]
      | nul => simp [isHalt, process_stdout o rest, List.append_assoc]
      | halt c m => simp [isHalt]

/-- the state of the fold, seen as a verdict -/
def Rel (o : Opts) (st : St) : Verdict → Prop
  | .none => st.lastErr = none ∧ (o.exitStatus = true → st.ecode = 4)
  | .printed f => st.lastErr = none ∧ (o.exitStatus = true → st.ecode = if f then 1 else 0)
  | .failed c => st.lastErr = some c
  | .halted _ => False

theorem rel_status {o : Opts} {st : St} {V : Verdict} (h : Rel o st V) : exitCode o st = verdictStatus o V := by
  cases V with
  | none => obtain ⟨h1, h2⟩ := h; cases he : o.exitStatus <;> simp_all [exitCode, verdictStatus]
  | printed f => obtain ⟨h1, h2⟩ := h; cases he : o.exitStatus <;> simp_all [exitCode, verdictStatus]
  | failed c => cases c <;> simp_all [Rel, exitCode, verdictStatus]
  | halted c => exact absurd h (by simp [Rel])

/-- folding one input's outputs -/
theorem outs_rel (o : Opts) : ∀ (outs : List Out) (st : St) (V : Verdict), Rel o st V →
    match firstStop o outs with
    | none => isHalted (outEvents o outs) = false ∧
        Rel o { st with stdout := st.stdout ++ outPrefix o outs, ecode := ecAfter o outs st.ecode }
          ((outEvents o outs).foldl verdictStep V)
    | some (.halt c _) => isHalted (outEvents o outs) = true ∧ (outEvents o outs).foldl verdictStep V = .halted c
    | some (.error _ c) => isHalted (outEvents o outs) = false ∧ (outEvents o outs).foldl verdictStep V = .failed c
    | some .nul => isHalted (outEvents o outs) = false ∧ (outEvents o outs).foldl verdictStep V = .failed none
  | [], st, V, h => by
    simp only [firstStop, outEvents, isHalted, List.foldl_nil, outPrefix, ecAfter, List.append_nil, true_and]
    cases V <;> simp_all [Rel]
  | .value v :: rest, st, V, h => by
    simp only [firstStop, outEvents, outPrefix, ecAfter]
    cases hm : marshal o v with
    | none =>
      simp only [isHalted, List.foldl_cons, List.foldl_nil, true_and]
      cases V <;> simp_all [Rel, verdictStep]
    | some b =>
      simp only [isHalted, List.foldl_cons]
      -- the state after this value is related to the verdict after `.printed`
      have hV : ∃ V', verdictStep V (.printed v.falsy) = V' ∧
          Rel o { st with stdout := st.stdout ++ b ++ term o,
                          ecode := if o.exitStatus then (if v.falsy then 1 else 0) else st.ecode } V' := by
        cases V with
        | none => exact ⟨_, rfl, by simp_all [Rel, verdictStep]⟩
        | printed f => exact ⟨_, rfl, by simp_all [Rel, verdictStep]⟩
        | failed c => exact ⟨_, rfl, by simp_all [Rel, verdictStep]⟩
        | halted c => exact absurd h (by simp [Rel])
      obtain ⟨V', hstep, hrel⟩ := hV
      have ih := outs_rel o rest _ V' hrel
      rw [hstep]
      cases hs : firstStop o rest with
      | none =>
        rw [hs] at ih
        simpa [List.append_assoc] using ih
      | some s =>
        rw [hs] at ih
        cases s <;> simpa using ih
  | .error m c :: _, st, V, h => by
    simp only [firstStop, outEvents, isHalted, List.foldl_cons, List.foldl_nil, true_and]
    cases V <;> simp_all [Rel, verdictStep]
  | .halt c m :: _, st, V, h => by
    simp only [firstStop, outEvents, isHalted, List.foldl_cons, List.foldl_nil, true_and]
    cases V <;> simp_all [Rel, verdictStep]

/-- the status of the whole fold is the verdict of its event list -/
theorem process_status (o : Opts) : ∀ (ins : List In) (st : St) (V : Verdict), Rel o st V →
    exitCode o (process o ins st) = verdictStatus o ((events o ins).foldl verdictStep V)
  | [], st, V, h => by simpa [process, events] using rel_status h
  | .error :: rest, st, V, h => by
    simp only [process, events, List.foldl_cons]
    refine process_status o rest _ _ ?_
    cases V <;> simp_all [Rel, verdictStep]
  | .value outs :: rest, st, V, h => by
    have hp := outs_rel o outs st V h
    simp only [process, events, printValues_eq, List.foldl_append]
    cases hs : firstStop o outs with
    | none =>
      rw [hs] at hp
      simp only [hp.1, Bool.false_eq_true, if_false]
      exact process_status o rest _ _ hp.2
    | some s =>
      rw [hs] at hp
      cases s with
      | error m c =>
        simp only [hp.1, hp.2, Bool.false_eq_true, if_false]
        exact process_status o rest _ _ (by simp [Rel])
      | nul =>
        simp only [hp.1, hp.2, Bool.false_eq_true, if_false]
        exact process_status o rest _ _ (by simp [Rel])
      | halt c m =>
        simp only [hp.1, hp.2, if_true, List.foldl_nil]
        simp [exitCode, verdictStatus]

theorem printValues_append (o : Opts) : ∀ (pre tl : List Out) (st : St), firstStop o pre = none →
    printValues o (pre ++ tl) st = printValues o tl (printValues o pre st).1
  | [], tl, st, _ => by simp [printValues]
  | .value v :: pre, tl, st, h => by
    simp only [firstStop] at h
    cases hm : marshal o v with
    | none => simp [hm] at h
    | some b =>
      rw [hm] at h
      simp only [List.cons_append, printValues, hm]
      exact printValues_append o pre tl _ h
  | .error m c :: _, _, _, h => by simp [firstStop] at h
  | .halt c m :: _, _, _, h => by simp [firstStop] at h


/-- verdict after further printed values, the last of which is `last` -/
def afterPrinted : Verdict → Option Bool → Verdict
  | .failed c, _ => .failed c
  | V, none => V
  | _, some f => .printed f

theorem foldl_printed (V : Verdict) (fs : List Bool) (hV : ∀ c, V ≠ .halted c) :
    (fs.map Event.printed).foldl verdictStep V = afterPrinted V fs.getLast? := by
  induction fs generalizing V with
  | nil => cases V <;> simp [afterPrinted]
  | cons f fs ih =>
    simp only [List.map_cons, List.foldl_cons]
    cases V with
    | halted c => exact absurd rfl (hV c)
    | none =>
      rw [show verdictStep .none (.printed f) = .printed f from rfl, ih (.printed f) (by simp)]
      cases hl : fs.getLast? <;> simp [afterPrinted, List.getLast?_cons, hl]
    | printed g =>
      rw [show verdictStep (.printed g) (.printed f) = .printed f from rfl, ih (.printed f) (by simp)]
      cases hl : fs.getLast? <;> simp [afterPrinted, List.getLast?_cons, hl]
    | failed c =>
      rw [show verdictStep (.failed c) (.printed f) = .failed c from rfl, ih (.failed c) (by simp)]
      simp [afterPrinted]

theorem foldl_not_halted (V : Verdict) (evs : List Event) (hV : ∀ c, V ≠ .halted c) (h : isHalted evs = false) :
    ∀ c, evs.foldl verdictStep V ≠ .halted c := by
  induction evs generalizing V with
  | nil => simpa using hV
  | cons e evs ih =>
    cases e with
    | halted c => simp [isHalted] at h
    | printed f =>
      simp only [isHalted] at h
      simp only [List.foldl_cons]
      refine ih _ ?_ h
      cases V <;> simp_all [verdictStep]
    | failed k =>
      simp only [isHalted] at h
      simp only [List.foldl_cons]
      refine ih _ ?_ h
      cases V <;> simp_all [verdictStep]


end Gojq.Process

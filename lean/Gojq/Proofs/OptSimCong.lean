/-
  Congruence: every instruction of the loop of `Next` respects the relation `EnvRel` of
  Proofs/OptSimStack.lean.  Run from two related environments, `exec ins x l` either fails the same
  way on both sides or returns the same control result and related environments.  Proved once per
  opcode by a small relational calculus over the primitives, in the style of Proofs/VMExec.lean.
-/
import Gojq.Proofs.OptSimStack
set_option linter.unusedSimpArgs false
set_option linter.unusedVariables false
namespace Gojq.OptVM
open Gojq Gojq.VM

/-- related results: same failure, or same value and related environments -/
def RRes {α : Type} : Res α → Res α → Prop
  | .ok a e, .ok a' e' => a = a' ∧ EnvRel e e'
  | .panic s, .panic s' => s = s'
  | .stuck w, .stuck w' => w = w'
  | _, _ => False

/-- `m` respects `EnvRel` -/
def Cong {α : Type} (m : M α) : Prop := ∀ e e', EnvRel e e' → RRes (m e) (m e')

theorem Cong.pure {α : Type} (a : α) : Cong (pure a : M α) := fun _ _ h => ⟨rfl, h⟩

theorem Cong.bind {α β : Type} {m : M α} {f : α → M β} (hm : Cong m) (hf : ∀ a, Cong (f a)) :
    Cong (m >>= f) := by
  intro e e' h
  have := hm e e' h
  show RRes (M.bind m f e) (M.bind m f e')
  unfold M.bind
  cases h1 : m e with
  | ok a e1 =>
    cases h2 : m e' with
    | ok a' e1' =>
      rw [h1, h2] at this
      obtain ⟨rfl, hr⟩ := this
      exact hf a e1 e1' hr
    | panic s => rw [h1, h2] at this; exact this.elim
    | stuck w => rw [h1, h2] at this; exact this.elim
  | panic s =>
    cases h2 : m e' with
    | ok a' e1' => rw [h1, h2] at this; exact this.elim
    | panic s' => rw [h1, h2] at this; exact this
    | stuck w => rw [h1, h2] at this; exact this.elim
  | stuck w =>
    cases h2 : m e' with
    | ok a' e1' => rw [h1, h2] at this; exact this.elim
    | panic s' => rw [h1, h2] at this; exact this.elim
    | stuck w' => rw [h1, h2] at this; exact this

theorem Cong.panic {α : Type} (s : Site) : Cong (panic s : M α) := fun _ _ _ => rfl
theorem Cong.stuck {α : Type} (w : String) : Cong (stuck w : M α) := fun _ _ _ => rfl

/-- `m` neither reads nor writes the data stack and the fork list -/
def Frame {α : Type} (m : M α) : Prop :=
  ∀ (e : Env) (st : Stack V) (fk : List Fork),
    m { e with stack := st, forks := fk } =
      match m e with
      | .ok a e1 => .ok a { e1 with stack := st, forks := fk }
      | .panic s => .panic s
      | .stuck w => .stuck w

theorem Cong.frame {α : Type} {m : M α} (h : Frame m) : Cong m := by
  intro e e' hr
  obtain ⟨st, fk, rfl, hs⟩ := hr.elim
  have h1 := h e st fk
  have h0 := h e e.stack e.forks
  rw [h1]
  cases hm : m e with
  | ok a e1 =>
    rw [hm] at h0
    have h0' : Res.ok a e1 = Res.ok a { e1 with stack := e.stack, forks := e.forks } := h0
    simp only [Res.ok.injEq, true_and] at h0'
    have hst : e1.stack = e.stack := by rw [h0']
    have hfk : e1.forks = e.forks := by rw [h0']
    refine ⟨rfl, EnvRel.mk' ?_⟩
    rw [hst, hfk]; exact hs
  | panic s => exact rfl
  | stuck w => exact rfl

theorem Frame.pure {α : Type} (a : α) : Frame (pure a : M α) := fun _ _ _ => rfl

theorem Frame.bind {α β : Type} {m : M α} {f : α → M β} (hm : Frame m) (hf : ∀ a, Frame (f a)) :
    Frame (m >>= f) := by
  intro e st fk
  show M.bind m f _ = match M.bind m f e with | .ok a e1 => _ | .panic s => _ | .stuck w => _
  unfold M.bind
  rw [hm e st fk]
  cases m e with
  | ok a e1 => simp only; exact hf a e1 st fk
  | panic s => rfl
  | stuck w => rfl

theorem Frame.panic {α : Type} (s : Site) : Frame (panic s : M α) := fun _ _ _ => rfl
theorem Frame.stuck {α : Type} (w : String) : Frame (stuck w : M α) := fun _ _ _ => rfl

/-- `let e ← getEnv; f e` where `f` only looks at fields other than the data stack and forks -/
theorem Cong.getEnv_bind {β : Type} (f : Env → M β)
    (hf : ∀ (e : Env) (st : Stack V) (fk : List Fork), f { e with stack := st, forks := fk } = f e)
    (h : ∀ e0, Cong (f e0)) : Cong (getEnv >>= f) := by
  intro e e' hr
  obtain ⟨st, fk, rfl, hs⟩ := hr.elim
  show RRes (f e e) (f _ _)
  rw [hf e st fk]
  exact h e e _ hr

/-! ## primitives that do not touch the data stack -/

theorem Frame.pathsPush (v : V) : Frame (pathsPush v) := fun _ _ _ => rfl
theorem Frame.pathsPop : Frame pathsPop := by
  intro e st fk
  simp only [VM.pathsPop]
  cases e.paths.pop? with
  | none => rfl
  | some p => rfl
theorem Frame.pathsTop : Frame pathsTop := by
  intro e st fk
  simp only [VM.pathsTop]
  cases e.paths.top? with
  | none => rfl
  | some p => rfl
theorem Frame.envIndex (a b : Int) : Frame (envIndex a b) := by
  intro e st fk
  simp only [VM.envIndex]
  cases scopeWalk e.scopes.data a b (e.scopes.data.size + 1) e.scopes.index <;> rfl
theorem Frame.getValue (i : Int) : Frame (getValue i) := by
  intro e st fk
  simp only [VM.getValue]
  split
  · cases e.values[i.toNat]? <;> rfl
  · rfl
theorem Frame.setValue (i : Int) (v : V) : Frame (setValue i v) := by
  intro e st fk
  simp only [VM.setValue]
  split <;> rfl
theorem Frame.popscope : Frame popscope := by
  intro e st fk
  simp only [VM.popscope]
  cases e.scopes.pop? with
  | none => rfl
  | some p => rfl
theorem Frame.extCall (x : ExtRec) : Frame (extCall x) := by
  intro e st fk
  simp only [VM.extCall]
  cases x.call <;> rfl
theorem Frame.tracking : Frame tracking := fun _ _ _ => rfl
theorem Frame.asJV (v : V) : Frame (asJV v) := by
  unfold VM.asJV; split
  · exact Frame.pure _
  · exact Frame.stuck _
theorem Frame.modify (f : Env → Env)
    (hf : ∀ (e : Env) (st : Stack V) (fk : List Fork),
      f { e with stack := st, forks := fk } = { f e with stack := st, forks := fk }) :
    Frame (modifyEnv f) := by
  intro e st fk
  simp only [modifyEnv]
  rw [hf]

theorem Frame.pathIntact (x : ExtRec) : Frame (pathIntact x) := by
  unfold VM.pathIntact
  refine Frame.bind Frame.pathsTop (fun w => ?_)
  split
  · split
    · exact Frame.pure _
    · exact Frame.stuck _
  · exact Frame.panic _

theorem Frame.poppathsLoop : ∀ (n : Nat) (acc : List JV), Frame (poppathsLoop n acc) := by
  intro n
  induction n with
  | zero => intro acc; unfold VM.poppathsLoop; exact Frame.stuck _
  | succ n ih =>
    intro acc
    unfold VM.poppathsLoop
    refine Frame.bind Frame.pathsPop (fun p => ?_)
    split
    · exact Frame.pure _
    · exact Frame.bind (Frame.asJV _) (fun j => ih _)
    · exact Frame.panic _

theorem Frame.poppaths : Frame poppaths := by
  intro e st fk
  exact Frame.poppathsLoop _ _ e st fk

theorem Frame.pushPaths (w : V) : ∀ (ps : List JV), Frame (pushPaths w ps) := by
  intro ps
  induction ps with
  | nil => unfold VM.pushPaths; exact Frame.pure _
  | cons p ps ih =>
    unfold VM.pushPaths
    exact Frame.bind (Frame.pathsPush _) (fun _ => ih)

/-! ## the data-stack primitives -/

theorem Cong.push (v : V) : Cong (push v) := by
  intro e e' hr
  obtain ⟨st, fk, rfl, hs⟩ := hr.elim
  exact ⟨rfl, EnvRel.mk' (e := { e with stack := e.stack.push v }) (hs.push v)⟩

theorem Cong.pop : Cong pop := by
  intro e e' hr
  obtain ⟨st, fk, rfl, hs⟩ := hr.elim
  rcases hs.pop with ⟨h1, h2⟩ | ⟨v, a', b', h1, h2, h3, _, _⟩
  · simp only [VM.pop, h1, h2]; exact rfl
  · simp only [VM.pop, h1, h2]
    exact ⟨rfl, EnvRel.mk' (e := { e with stack := a' }) h3⟩

theorem Cong.stackTop : Cong stackTop := by
  intro e e' hr
  obtain ⟨st, fk, rfl, hs⟩ := hr.elim
  have := hs.top
  simp only [VM.stackTop]
  rw [← this]
  cases e.stack.top? with
  | none => exact rfl
  | some v => exact ⟨rfl, hr⟩

/-- the environment `pushfork pc` leaves -/
def pushforkEnv (pc : Int) (e : Env) : Env :=
  { e with
    stack := e.stack.save.2
    scopes := e.scopes.save.2
    paths := e.paths.save.2
    forks := { pc := pc, offset := e.offset, expdepth := e.expdepth,
               stackindex := e.stack.save.1.1, stacklimit := e.stack.save.1.2,
               scopeindex := e.scopes.save.1.1, scopelimit := e.scopes.save.1.2,
               pathindex := e.paths.save.1.1, pathlimit := e.paths.save.1.2 } :: e.forks }

theorem pushfork_eq (pc : Int) (e : Env) : pushfork pc e = .ok () (pushforkEnv pc e) := rfl

theorem Cong.pushfork (pc : Int) : Cong (pushfork pc) := by
  intro e e' hr
  obtain ⟨st, fk, rfl, hs⟩ := hr.elim
  rw [pushfork_eq, pushfork_eq]
  refine ⟨rfl, ?_⟩
  exact EnvRel.mk' (e := pushforkEnv pc e) (hs.save _ _ ⟨rfl, rfl, rfl, rfl, rfl, rfl, rfl⟩ rfl rfl rfl rfl)

end Gojq.OptVM

/-
  Helper lemmas for C11, part 3: the consumers of the order (Model/Sort.lean).
  Items are (value, key) pairs; every statement constrains the KEYS only (`KeysTame`), the
  values are arbitrary.  Core Lean only.
-/
import Gojq.Model.Sort
import Gojq.Proofs.Compare
namespace Gojq

/-- `a ≤ b` on keys -/
abbrev kle (a b : Item) : Prop := cmp a.2 b.2 ≠ .gt

/-- every key of the list is in the property's domain -/
abbrev KeysTame (l : List Item) : Prop := ∀ it ∈ l, it.2.tame = true

/-! ### order facts on tame keys, in the shapes the consumers need -/

theorem le_of_not_lt {a b : JV} (ha : a.tame) (hb : b.tame) (h : cmp b a ≠ .lt) : cmp a b ≠ .gt := by
  rw [cmp_swap b a hb ha]; intro h'; apply h
  cases hc : cmp b a <;> simp_all [Ordering.swap]

theorem gt_of_lt {a b : JV} (ha : a.tame) (hb : b.tame) (h : cmp a b = .lt) : cmp b a = .gt := by
  rw [cmp_swap a b ha hb, h]; rfl
theorem lt_of_gt {a b : JV} (ha : a.tame) (hb : b.tame) (h : cmp a b = .gt) : cmp b a = .lt := by
  rw [cmp_swap a b ha hb, h]; rfl
theorem eq_symm {a b : JV} (ha : a.tame) (hb : b.tame) (h : cmp a b = .eq) : cmp b a = .eq := by
  rw [cmp_swap a b ha hb, h]; rfl

theorem le_trans' {a b c : JV} (ha : a.tame) (hb : b.tame) (hc : c.tame)
    (h1 : cmp a b ≠ .gt) (h2 : cmp b c ≠ .gt) : cmp a c ≠ .gt :=
  compat_le (cmp_compat a b c ha hb hc) h1 h2

/-! ### insertion sort -/

theorem insertItem_perm (x : Item) : ∀ l : List Item, (insertItem x l).Perm (x :: l)
  | [] => List.Perm.refl _
  | y :: ys => by
    simp only [insertItem]
    split
    · exact ((insertItem_perm x ys).cons y).trans (List.Perm.swap x y ys)
    · exact List.Perm.refl _

theorem sortItems_perm : ∀ l : List Item, (sortItems l).Perm l
  | [] => List.Perm.refl _
  | x :: xs => (insertItem_perm x (sortItems xs)).trans ((sortItems_perm xs).cons x)

theorem mem_insertItem {x z : Item} {l : List Item} : z ∈ insertItem x l ↔ z = x ∨ z ∈ l := by
  rw [(insertItem_perm x l).mem_iff]; simp

theorem mem_sortItems {z : Item} {l : List Item} : z ∈ sortItems l ↔ z ∈ l :=
  (sortItems_perm l).mem_iff

theorem insertItem_sorted (x : Item) (hx : x.2.tame) :
    ∀ l : List Item, KeysTame l → l.Pairwise kle → (insertItem x l).Pairwise kle
  | [], _, _ => by simp [insertItem]
  | y :: ys, ht, hs => by
    have hy : y.2.tame := ht y (by simp)
    have hys : KeysTame ys := fun it h => ht it (by simp [h])
    rw [List.pairwise_cons] at hs
    simp only [insertItem]
    split
    · rename_i hlt
      rw [List.pairwise_cons]
      refine ⟨fun z hz => ?_, insertItem_sorted x hx ys hys hs.2⟩
      rcases mem_insertItem.mp hz with rfl | hz
      · simp only [itemLt, beq_iff_eq] at hlt
        show cmp y.2 z.2 ≠ .gt
        rw [hlt]; decide
      · exact hs.1 z hz
    · rename_i hlt
      have hxy : kle x y := by
        apply le_of_not_lt hx hy
        simpa [itemLt] using hlt
      rw [List.pairwise_cons]
      refine ⟨fun z hz => ?_, List.pairwise_cons.mpr hs⟩
      rcases List.mem_cons.mp hz with rfl | hz
      · exact hxy
      · exact le_trans' hx hy (hys z hz) hxy (hs.1 z hz)

theorem sortItems_sorted : ∀ l : List Item, KeysTame l → (sortItems l).Pairwise kle
  | [], _ => List.Pairwise.nil
  | x :: xs, ht => by
    have hxs : KeysTame xs := fun it h => ht it (by simp [h])
    exact insertItem_sorted x (ht x (by simp)) (sortItems xs)
      (fun it h => hxs it (mem_sortItems.mp h)) (sortItems_sorted xs hxs)

/-- the items whose key compares equal to `k` -/
abbrev sameKey (k : JV) (it : Item) : Bool := cmp it.2 k == .eq

theorem insertItem_filter (k : JV) (hk : k.tame) (x : Item) (hx : x.2.tame) :
    ∀ l : List Item, KeysTame l →
      (insertItem x l).filter (sameKey k) = if sameKey k x then x :: l.filter (sameKey k) else l.filter (sameKey k)
  | [], _ => by simp [insertItem, List.filter]; split <;> simp_all
  | y :: ys, ht => by
    have hy : y.2.tame := ht y (by simp)
    have hys : KeysTame ys := fun it h => ht it (by simp [h])
    have ih := insertItem_filter k hk x hx ys hys
    simp only [insertItem]
    split
    · rename_i hlt
      simp only [itemLt, beq_iff_eq] at hlt
      rw [List.filter_cons, ih]
      by_cases hpx : sameKey k x = true
      · -- then `y` is strictly below `x ≃ k`, so it is not selected
        have hpy : sameKey k y = false := by
          simp only [sameKey, beq_eq_false_iff_ne]
          intro hyk
          simp only [sameKey, beq_iff_eq] at hpx
          have hkx := eq_symm hx hk hpx
          have := compat_eq_eq (cmp_compat y.2 k x.2 hy hk hx) hyk hkx
          rw [this] at hlt; cases hlt
        simp [hpx, hpy]
      · simp only [Bool.not_eq_true] at hpx
        simp [hpx, List.filter_cons]
    · by_cases hpx : sameKey k x = true
      · simp [hpx, List.filter_cons]
      · simp only [Bool.not_eq_true] at hpx
        simp [hpx, List.filter_cons]

theorem sortItems_filter (k : JV) (hk : k.tame) :
    ∀ l : List Item, KeysTame l → (sortItems l).filter (sameKey k) = l.filter (sameKey k)
  | [], _ => rfl
  | x :: xs, ht => by
    have hxs : KeysTame xs := fun it h => ht it (by simp [h])
    simp only [sortItems]
    rw [insertItem_filter k hk x (ht x (by simp)) _ (fun it h => hxs it (mem_sortItems.mp h)),
      sortItems_filter k hk xs hxs, List.filter_cons]

theorem sameKey_self (a : Item) (ha : a.2.tame) : sameKey a.2 a = true := by
  simp [sameKey, cmp_refl a.2 ha]

theorem eq_of_le_le {a b : JV} (ha : a.tame) (hb : b.tame) (h1 : cmp a b ≠ .gt) (h2 : cmp b a ≠ .gt) :
    cmp a b = .eq := by
  rw [cmp_swap a b ha hb] at h2
  cases hc : cmp a b <;> simp_all [Ordering.swap]

theorem head_le_of_mem {a : Item} {l : List Item} (ha : a.2.tame) (hs : (a :: l).Pairwise kle) {z : Item}
    (hz : z ∈ a :: l) : kle a z := by
  rcases List.mem_cons.mp hz with rfl | hz
  · show cmp z.2 z.2 ≠ .gt
    rw [cmp_refl _ ha]; decide
  · exact (List.pairwise_cons.mp hs).1 z hz

/-- two sorted lists that select the same sublist for every key class are equal:
    a sorted, stable rearrangement is unique -/
theorem sorted_eq_of_filters : ∀ (l1 l2 : List Item), KeysTame l1 → KeysTame l2 →
    l1.Pairwise kle → l2.Pairwise kle →
    (∀ k : JV, k.tame → l1.filter (sameKey k) = l2.filter (sameKey k)) → l1 = l2
  | [], [], _, _, _, _, _ => rfl
  | [], b :: t2, _, h2, _, _, hf => by
    have := hf b.2 (h2 b (by simp))
    simp [sameKey_self b (h2 b (by simp))] at this
  | a :: t1, [], h1, _, _, _, hf => by
    have := hf a.2 (h1 a (by simp))
    simp [sameKey_self a (h1 a (by simp))] at this
  | a :: t1, b :: t2, h1, h2, s1, s2, hf => by
    have ha : a.2.tame := h1 a (by simp)
    have hb : b.2.tame := h2 b (by simp)
    -- each head occurs in the other list
    have ha2 : a ∈ b :: t2 := by
      have : a ∈ (a :: t1).filter (sameKey a.2) := by
        simp [sameKey_self a ha]
      rw [hf a.2 ha] at this
      exact (List.mem_filter.mp this).1
    have hb1 : b ∈ a :: t1 := by
      have : b ∈ (b :: t2).filter (sameKey b.2) := by
        simp [sameKey_self b hb]
      rw [← hf b.2 hb] at this
      exact (List.mem_filter.mp this).1
    have hab : cmp a.2 b.2 = .eq :=
      eq_of_le_le ha hb (head_le_of_mem ha s1 hb1) (head_le_of_mem hb s2 ha2)
    have hba : sameKey a.2 b = true := by
      simp [sameKey, eq_symm ha hb hab]
    have h0 := hf a.2 ha
    simp only [List.filter_cons, sameKey_self a ha, hba, if_true] at h0
    have hhead : a = b := (List.cons.inj h0).1
    subst hhead
    congr 1
    apply sorted_eq_of_filters t1 t2 (fun it h => h1 it (by simp [h])) (fun it h => h2 it (by simp [h]))
      (List.pairwise_cons.mp s1).2 (List.pairwise_cons.mp s2).2
    intro k hk
    have := hf k hk
    simp only [List.filter_cons] at this
    split at this
    · exact (List.cons.inj this).2
    · exact this

/-- any sorted, stable rearrangement of the items is the one `sortItems` computes -/
theorem stable_sort_unique' (l l' : List Item) (ht : KeysTame l) (ht' : KeysTame l')
    (hs : l'.Pairwise kle)
    (hst : ∀ k : JV, k.tame → l'.filter (sameKey k) = l.filter (sameKey k)) : l' = sortItems l := by
  apply sorted_eq_of_filters l' (sortItems l) ht' (fun it h => ht it (mem_sortItems.mp h)) hs (sortItems_sorted l ht)
  intro k hk
  rw [hst k hk, sortItems_filter k hk l ht]

theorem lt_trans' {a b c : JV} (ha : a.tame) (hb : b.tame) (hc : c.tame)
    (h1 : cmp a b = .lt) (h2 : cmp b c = .lt) : cmp a c = .lt :=
  compat_lt_le (cmp_compat a b c ha hb hc) h1 (by rw [h2]; decide)
theorem lt_of_lt_of_eq {a b c : JV} (ha : a.tame) (hb : b.tame) (hc : c.tame)
    (h1 : cmp a b = .lt) (h2 : cmp b c = .eq) : cmp a c = .lt :=
  compat_lt_le (cmp_compat a b c ha hb hc) h1 (by rw [h2]; decide)
theorem lt_of_eq_of_lt {a b c : JV} (ha : a.tame) (hb : b.tame) (hc : c.tame)
    (h1 : cmp a b = .eq) (h2 : cmp b c = .lt) : cmp a c = .lt :=
  compat_le_lt (cmp_compat a b c ha hb hc) (by rw [h1]; decide) h2
theorem eq_trans' {a b c : JV} (ha : a.tame) (hb : b.tame) (hc : c.tame)
    (h1 : cmp a b = .eq) (h2 : cmp b c = .eq) : cmp a c = .eq :=
  compat_eq_eq (cmp_compat a b c ha hb hc) h1 h2

/-! ### unique -/

/-- specification of `unique`: drop every item whose key equals the key of its immediate predecessor -/
def dedupAux : JV → List Item → List Item
  | _, [] => []
  | prev, r :: rest => if cmp prev r.2 != .eq then r :: dedupAux r.2 rest else dedupAux r.2 rest

def dedupAdj : List Item → List Item
  | [] => []
  | r :: rest => r :: dedupAux r.2 rest

theorem uniqueAux_eq_dedupAux : ∀ (l : List Item) (k k' : JV), k.tame → k'.tame → KeysTame l →
    cmp k k' = .eq → uniqueAux k l = dedupAux k' l
  | [], _, _, _, _, _, _ => rfl
  | r :: rest, k, k', hk, hk', ht, he => by
    have hr : r.2.tame := ht r (by simp)
    have hrest : KeysTame rest := fun it h => ht it (by simp [h])
    have hsame : cmp k r.2 = cmp k' r.2 := by
      have := compat_eq_left (cmp_compat k' k r.2 hk' hk hr) (eq_symm hk hk' he)
      exact this.symm
    simp only [uniqueAux, dedupAux, hsame]
    split
    · rw [uniqueAux_eq_dedupAux rest r.2 r.2 hr hr hrest (cmp_refl _ hr)]
    · rename_i hc
      have hc' : cmp k r.2 = .eq := by rw [hsame]; simpa using hc
      exact uniqueAux_eq_dedupAux rest k r.2 hk hr hrest hc'

theorem uniqueItems_eq_dedupAdj (l : List Item) (ht : KeysTame l) : uniqueItems l = dedupAdj l := by
  cases l with
  | nil => rfl
  | cons r rest =>
    have hr : r.2.tame := ht r (by simp)
    simp only [uniqueItems, dedupAdj]
    rw [uniqueAux_eq_dedupAux rest r.2 r.2 hr hr (fun it h => ht it (by simp [h])) (cmp_refl _ hr)]

theorem mem_uniqueAux : ∀ (l : List Item) (k : JV) (z : Item), z ∈ uniqueAux k l → z ∈ l
  | [], _, _, h => by simp [uniqueAux] at h
  | r :: rest, k, z, h => by
    simp only [uniqueAux] at h
    split at h
    · rcases List.mem_cons.mp h with rfl | h
      · simp
      · exact List.mem_cons_of_mem _ (mem_uniqueAux rest _ z h)
    · exact List.mem_cons_of_mem _ (mem_uniqueAux rest _ z h)

/-- on a sorted list the kept items are strictly increasing, and all strictly above `k` -/
theorem uniqueAux_strict : ∀ (l : List Item) (k : JV), k.tame → KeysTame l →
    (∀ a ∈ l, cmp k a.2 ≠ .gt) → l.Pairwise kle →
    (uniqueAux k l).Pairwise (fun a b => cmp a.2 b.2 = .lt) ∧ ∀ z ∈ uniqueAux k l, cmp k z.2 = .lt
  | [], _, _, _, _, _ => by simp [uniqueAux]
  | r :: rest, k, hk, ht, hle, hs => by
    have hr : r.2.tame := ht r (by simp)
    have hrest : KeysTame rest := fun it h => ht it (by simp [h])
    have hs' := List.pairwise_cons.mp hs
    simp only [uniqueAux]
    split
    · rename_i hc
      have hkr : cmp k r.2 = .lt := by
        have h1 := hle r (by simp)
        have h2 : cmp k r.2 ≠ .eq := by simpa using hc
        cases h : cmp k r.2 <;> simp_all
      obtain ⟨ih1, ih2⟩ := uniqueAux_strict rest r.2 hr hrest hs'.1 hs'.2
      refine ⟨List.pairwise_cons.mpr ⟨ih2, ih1⟩, fun z hz => ?_⟩
      rcases List.mem_cons.mp hz with rfl | hz
      · exact hkr
      · have hzt : z.2.tame := hrest z (mem_uniqueAux rest _ z hz)
        exact lt_trans' hk hr hzt hkr (ih2 z hz)
    · exact uniqueAux_strict rest k hk hrest (fun a h => hle a (by simp [h])) hs'.2
/-! ### group_by -/

theorem groupAux_flatten : ∀ (l : List Item) (k : JV),
    (groupAux k l).1 ++ (groupAux k l).2.flatten = l
  | [], _ => rfl
  | r :: rest, k => by
    simp only [groupAux]
    split
    · simp [groupAux_flatten rest r.2]
    · simp [groupAux_flatten rest k]

theorem groupItems_flatten (l : List Item) : (groupItems l).flatten = l := by
  cases l with
  | nil => rfl
  | cons r rest => simp [groupItems, groupAux_flatten rest r.2]

/-- a group is uniform: every member's key equals the key of the group's first item -/
def Uniform (g : List Item) : Prop := ∃ h t, g = h :: t ∧ ∀ a ∈ t, cmp h.2 a.2 = .eq

theorem groupAux_uniform : ∀ (l : List Item) (k : JV),
    (∀ a ∈ (groupAux k l).1, cmp k a.2 = .eq) ∧ ∀ g ∈ (groupAux k l).2, Uniform g
  | [], _ => by simp [groupAux]
  | r :: rest, k => by
    simp only [groupAux]
    split
    · obtain ⟨ih1, ih2⟩ := groupAux_uniform rest r.2
      refine ⟨by simp, fun g hg => ?_⟩
      rcases List.mem_cons.mp hg with rfl | hg
      · exact ⟨r, _, rfl, ih1⟩
      · exact ih2 g hg
    · rename_i hc
      obtain ⟨ih1, ih2⟩ := groupAux_uniform rest k
      refine ⟨fun a ha => ?_, ih2⟩
      rcases List.mem_cons.mp ha with rfl | ha
      · simpa using hc
      · exact ih1 a ha

theorem groupItems_uniform (l : List Item) : ∀ g ∈ groupItems l, Uniform g := by
  cases l with
  | nil => simp [groupItems]
  | cons r rest =>
    intro g hg
    simp only [groupItems] at hg
    rcases List.mem_cons.mp hg with rfl | hg
    · exact ⟨r, _, rfl, (groupAux_uniform rest r.2).1⟩
    · exact (groupAux_uniform rest r.2).2 g hg

theorem Uniform.pairwise_eq {g : List Item} (hu : Uniform g) (ht : KeysTame g) :
    ∀ a ∈ g, ∀ b ∈ g, cmp a.2 b.2 = .eq := by
  obtain ⟨h, t, rfl, hu⟩ := hu
  have hh : h.2.tame := ht h (by simp)
  have key : ∀ a ∈ h :: t, cmp h.2 a.2 = .eq := by
    intro a ha
    rcases List.mem_cons.mp ha with rfl | ha
    · exact cmp_refl _ hh
    · exact hu a ha
  intro a ha b hb
  exact eq_trans' (ht a ha) hh (ht b hb) (eq_symm hh (ht a ha) (key a ha)) (key b hb)

theorem mem_groupAux {l : List Item} {k : JV} {z : Item} :
    (z ∈ (groupAux k l).1 ∨ ∃ g ∈ (groupAux k l).2, z ∈ g) → z ∈ l := by
  intro h
  rw [← groupAux_flatten l k]
  rcases h with h | ⟨g, hg, hz⟩
  · exact List.mem_append_left _ h
  · exact List.mem_append_right _ (List.mem_flatten.mpr ⟨g, hg, hz⟩)

/-- on a sorted list: later groups are strictly above `k`, and strictly increasing among themselves -/
theorem groupAux_strict : ∀ (l : List Item) (k : JV), k.tame → KeysTame l →
    (∀ a ∈ l, cmp k a.2 ≠ .gt) → l.Pairwise kle →
    (∀ g ∈ (groupAux k l).2, ∀ b ∈ g, cmp k b.2 = .lt) ∧
    (groupAux k l).2.Pairwise (fun g1 g2 => ∀ a ∈ g1, ∀ b ∈ g2, cmp a.2 b.2 = .lt)
  | [], _, _, _, _, _ => by simp [groupAux]
  | r :: rest, k, hk, ht, hle, hs => by
    have hr : r.2.tame := ht r (by simp)
    have hrest : KeysTame rest := fun it h => ht it (by simp [h])
    have hs' := List.pairwise_cons.mp hs
    simp only [groupAux]
    split
    · rename_i hc
      have hkr : cmp k r.2 = .lt := by
        have h1 := hle r (by simp)
        have h2 : cmp k r.2 ≠ .eq := by simpa using hc
        cases h : cmp k r.2 <;> simp_all
      obtain ⟨ih1, ih2⟩ := groupAux_strict rest r.2 hr hrest hs'.1 hs'.2
      have hu := (groupAux_uniform rest r.2).1
      -- every member of the new group is equal to r
      have hgrp : ∀ a ∈ r :: (groupAux r.2 rest).1, cmp r.2 a.2 = .eq ∧ a.2.tame := by
        intro a ha
        rcases List.mem_cons.mp ha with rfl | ha
        · exact ⟨cmp_refl _ hr, hr⟩
        · exact ⟨hu a ha, hrest a (mem_groupAux (Or.inl ha))⟩
      refine ⟨fun g hg b hb => ?_, List.pairwise_cons.mpr ⟨fun g2 hg2 a ha b hb => ?_, ih2⟩⟩
      · rcases List.mem_cons.mp hg with rfl | hg
        · obtain ⟨e, hbt⟩ := hgrp b hb
          exact lt_of_lt_of_eq hk hr hbt hkr e
        · have hbt : b.2.tame := hrest b (mem_groupAux (Or.inr ⟨g, hg, hb⟩))
          exact lt_trans' hk hr hbt hkr (ih1 g hg b hb)
      · obtain ⟨e, hat⟩ := hgrp a ha
        have hbt : b.2.tame := hrest b (mem_groupAux (Or.inr ⟨g2, hg2, hb⟩))
        exact lt_of_eq_of_lt hat hr hbt (eq_symm hr hat e) (ih1 g2 hg2 b hb)
    · exact groupAux_strict rest k hk hrest (fun a h => hle a (by simp [h])) hs'.2

theorem groupItems_strict (l : List Item) (ht : KeysTame l) (hs : l.Pairwise kle) :
    (groupItems l).Pairwise (fun g1 g2 => ∀ a ∈ g1, ∀ b ∈ g2, cmp a.2 b.2 = .lt) := by
  cases l with
  | nil => simp [groupItems]
  | cons r rest =>
    have hr : r.2.tame := ht r (by simp)
    have hrest : KeysTame rest := fun it h => ht it (by simp [h])
    have hs' := List.pairwise_cons.mp hs
    obtain ⟨ih1, ih2⟩ := groupAux_strict rest r.2 hr hrest hs'.1 hs'.2
    have hu := (groupAux_uniform rest r.2).1
    simp only [groupItems]
    refine List.pairwise_cons.mpr ⟨fun g2 hg2 a ha b hb => ?_, ih2⟩
    have hbt : b.2.tame := hrest b (mem_groupAux (Or.inr ⟨g2, hg2, hb⟩))
    rcases List.mem_cons.mp ha with rfl | ha
    · exact ih1 g2 hg2 b hb
    · have hat : a.2.tame := hrest a (mem_groupAux (Or.inl ha))
      exact lt_of_eq_of_lt hat hr hbt (eq_symm hr hat (hu a ha)) (ih1 g2 hg2 b hb)

/-! ### min / max -/

theorem gt_trans' {a b c : JV} (ha : a.tame) (hb : b.tame) (hc : c.tame)
    (h1 : cmp a b = .gt) (h2 : cmp b c = .gt) : cmp a c = .gt := by
  have := cmp_compat a b c ha hb hc
  rw [h1, h2] at this
  cases h : cmp a c <;> simp_all [compat]

/-- `a > b` and `b ≤ c` … no conclusion; what the loops need is: `a ≥ b`, `b > c` ⇒ `a > c` -/
theorem gt_of_ge_of_gt {a b c : JV} (ha : a.tame) (hb : b.tame) (hc : c.tame)
    (h1 : cmp b a ≠ .gt) (h2 : cmp b c = .gt) : cmp a c = .gt := by
  -- c < b ≤ a
  have h3 : cmp c b = .lt := lt_of_gt hb hc h2
  have h4 := compat_lt_le (cmp_compat c b a hc hb ha) h3 h1
  exact gt_of_lt hc ha h4

/-- loop invariant of `minMaxLoop true`: the items seen so far are `pre ++ best :: mid` with
    everything in `pre` strictly above `best` and nothing in `mid` below it -/
theorem minLoop_spec : ∀ (rest : List Item) (best : Item) (pre mid : List Item),
    KeysTame (pre ++ best :: mid ++ rest) →
    (∀ a ∈ pre, cmp a.2 best.2 = .gt) → (∀ a ∈ mid, cmp best.2 a.2 ≠ .gt) →
    ∃ pre' post', pre ++ best :: mid ++ rest = pre' ++ minMaxLoop true best rest :: post' ∧
      (∀ a ∈ pre', cmp a.2 (minMaxLoop true best rest).2 = .gt) ∧
      (∀ a ∈ post', cmp (minMaxLoop true best rest).2 a.2 ≠ .gt)
  | [], best, pre, mid, _, h1, h2 => ⟨pre, mid, by simp [minMaxLoop], h1, h2⟩
  | it :: rest, best, pre, mid, ht, h1, h2 => by
    have hb : best.2.tame := ht best (by simp)
    have hi : it.2.tame := ht it (by simp)
    simp only [minMaxLoop]
    split
    · rename_i hc
      have hgt : cmp best.2 it.2 = .gt := by simpa using hc
      have := minLoop_spec rest it (pre ++ best :: mid) [] (by simpa using ht)
        (fun a ha => by
          have hat : a.2.tame := ht a (by
            rcases List.mem_append.mp ha with h | h
            · simp [h]
            · rcases List.mem_cons.mp h with rfl | h <;> simp [*])
          rcases List.mem_append.mp ha with h | h
          · exact gt_trans' hat hb hi (h1 a h) hgt
          · rcases List.mem_cons.mp h with rfl | h
            · exact hgt
            · exact gt_of_ge_of_gt hat hb hi (h2 a h) hgt)
        (by simp)
      simpa using this
    · rename_i hc
      have hle : cmp best.2 it.2 ≠ .gt := by simpa using hc
      have := minLoop_spec rest best pre (mid ++ [it]) (by simpa using ht) h1
        (fun a ha => by
          rcases List.mem_append.mp ha with h | h
          · exact h2 a h
          · simp at h; subst h; exact hle)
      simpa using this

/-- loop invariant of `minMaxLoop false`: nothing in `pre` is above `best`, everything in `mid` is strictly below -/
theorem maxLoop_spec : ∀ (rest : List Item) (best : Item) (pre mid : List Item),
    KeysTame (pre ++ best :: mid ++ rest) →
    (∀ a ∈ pre, cmp a.2 best.2 ≠ .gt) → (∀ a ∈ mid, cmp best.2 a.2 = .gt) →
    ∃ pre' post', pre ++ best :: mid ++ rest = pre' ++ minMaxLoop false best rest :: post' ∧
      (∀ a ∈ pre', cmp a.2 (minMaxLoop false best rest).2 ≠ .gt) ∧
      (∀ a ∈ post', cmp (minMaxLoop false best rest).2 a.2 = .gt)
  | [], best, pre, mid, _, h1, h2 => ⟨pre, mid, by simp [minMaxLoop], h1, h2⟩
  | it :: rest, best, pre, mid, ht, h1, h2 => by
    have hb : best.2.tame := ht best (by simp)
    have hi : it.2.tame := ht it (by simp)
    simp only [minMaxLoop]
    split
    · rename_i hc
      have hle : cmp best.2 it.2 ≠ .gt := by simpa using hc
      have := maxLoop_spec rest it (pre ++ best :: mid) [] (by simpa using ht)
        (fun a ha => by
          have hat : a.2.tame := ht a (by
            rcases List.mem_append.mp ha with h | h
            · simp [h]
            · rcases List.mem_cons.mp h with rfl | h <;> simp [*])
          rcases List.mem_append.mp ha with h | h
          · exact le_trans' hat hb hi (h1 a h) hle
          · rcases List.mem_cons.mp h with rfl | h
            · exact hle
            · -- a < best ≤ it
              have h3 : cmp a.2 best.2 = .lt := lt_of_gt hb hat (h2 a h)
              have := compat_lt_le (cmp_compat a.2 best.2 it.2 hat hb hi) h3 hle
              rw [this]; decide)
        (by simp)
      simpa using this
    · rename_i hc
      have hgt : cmp best.2 it.2 = .gt := by simpa using hc
      have := maxLoop_spec rest best pre (mid ++ [it]) (by simpa using ht) h1
        (fun a ha => by
          rcases List.mem_append.mp ha with h | h
          · exact h2 a h
          · simp at h; subst h; exact hgt)
      simpa using this
/-! ### bsearch -/

theorem searchLoop_spec (f : Nat → Bool) (n : Nat)
    (mono : ∀ k k', k ≤ k' → k' < n → f k = true → f k' = true) :
    ∀ fuel i j, i ≤ j → j ≤ n → j - i < fuel → (∀ k, k < i → f k = false) →
      (∀ k, j ≤ k → k < n → f k = true) →
      i ≤ searchLoop f fuel i j ∧ searchLoop f fuel i j ≤ j ∧
      (∀ k, k < searchLoop f fuel i j → f k = false) ∧
      (∀ k, searchLoop f fuel i j ≤ k → k < n → f k = true)
  | 0, i, j, _, _, hf, _, _ => by omega
  | fuel + 1, i, j, hij, hjn, hf, hlo, hhi => by
    simp only [searchLoop]
    split
    · rename_i hlt
      have hh1 : i ≤ (i + j) / 2 := by omega
      have hh2 : (i + j) / 2 < j := by omega
      split
      · rename_i hfh
        have hfh' : f ((i + j) / 2) = false := by simpa using hfh
        have := searchLoop_spec f n mono fuel ((i + j) / 2 + 1) j (by omega) hjn (by omega)
          (fun k hk => by
            cases hfk : f k with
            | false => rfl
            | true =>
              have := mono k ((i + j) / 2) (by omega) (by omega) hfk
              rw [hfh'] at this; cases this)
          hhi
        refine ⟨by omega, this.2.1, this.2.2.1, this.2.2.2⟩
      · rename_i hfh
        have hfh' : f ((i + j) / 2) = true := by simpa using hfh
        have := searchLoop_spec f n mono fuel i ((i + j) / 2) hh1 (by omega) (by omega) hlo
          (fun k hk hkn => mono _ k hk hkn hfh')
        refine ⟨this.1, by omega, this.2.2.1, this.2.2.2⟩
    · have : i = j := by omega
      subst this
      exact ⟨Nat.le_refl _, Nat.le_refl _, hlo, hhi⟩

theorem search_spec (f : Nat → Bool) (n : Nat)
    (mono : ∀ k k', k ≤ k' → k' < n → f k = true → f k' = true) :
    search n f ≤ n ∧ (∀ k, k < search n f → f k = false) ∧ (∀ k, search n f ≤ k → k < n → f k = true) := by
  have := searchLoop_spec f n mono (n + 1) 0 n (Nat.zero_le _) (Nat.le_refl _) (by omega)
    (fun k hk => by omega) (fun k hk hkn => by omega)
  exact ⟨this.2.1, this.2.2.1, this.2.2.2⟩

/-- the predicate `funcBsearch` hands to `sort.Search` -/
def bsearchPred (vs : List JV) (t : JV) (k : Nat) : Bool :=
  match vs[k]? with
  | some v => cmp v t != .lt
  | none => true

theorem bsearchList_eq (vs : List JV) (t : JV) :
    bsearchList vs t =
      (match vs[search vs.length (bsearchPred vs t)]? with
       | some v => if cmp v t == .eq then ((search vs.length (bsearchPred vs t) : Nat) : Int)
                   else -((search vs.length (bsearchPred vs t) : Nat) : Int) - 1
       | none => -((search vs.length (bsearchPred vs t) : Nat) : Int) - 1) := rfl

theorem bsearchPred_mono (vs : List JV) (t : JV) (hv : ∀ v ∈ vs, v.tame = true) (ht : t.tame)
    (hs : vs.Pairwise (fun a b => cmp a b ≠ .gt)) :
    ∀ k k', k ≤ k' → k' < vs.length → bsearchPred vs t k = true → bsearchPred vs t k' = true := by
  intro k k' hkk hk' hfk
  have hk : k < vs.length := by omega
  simp only [bsearchPred, List.getElem?_eq_getElem hk, List.getElem?_eq_getElem hk'] at hfk ⊢
  have h1 : cmp vs[k] t ≠ .lt := by simpa using hfk
  have hvk : vs[k].tame := hv _ (List.getElem_mem hk)
  have hvk' : vs[k'].tame := hv _ (List.getElem_mem hk')
  have hle : cmp vs[k] vs[k'] ≠ .gt := by
    rcases Nat.lt_or_eq_of_le hkk with hlt | rfl
    · exact (List.pairwise_iff_getElem.mp hs) k k' hk hk' hlt
    · rw [cmp_refl _ hvk]; decide
  have : cmp vs[k'] t ≠ .lt := fun hlt => h1 (compat_le_lt (cmp_compat _ _ _ hvk hvk' ht) hle hlt)
  simpa using this

/-- `bsearch` on a sorted array: the index of an element equal to the target, or `-1 - i` where `i`
    is the insertion point (everything before is below the target, everything from `i` on above) -/
theorem bsearchList_spec (vs : List JV) (t : JV) (hv : ∀ v ∈ vs, v.tame = true) (ht : t.tame)
    (hs : vs.Pairwise (fun a b => cmp a b ≠ .gt)) :
    (∃ i : Nat, bsearchList vs t = (i : Int) ∧ ∃ v, vs[i]? = some v ∧ cmp v t = .eq) ∨
    (∃ i : Nat, bsearchList vs t = -(i : Int) - 1 ∧ i ≤ vs.length ∧
      (∀ k v, k < i → vs[k]? = some v → cmp v t = .lt) ∧
      (∀ k v, i ≤ k → vs[k]? = some v → cmp v t = .gt)) := by
  obtain ⟨hn, hlo, hhi⟩ := search_spec (bsearchPred vs t) vs.length (bsearchPred_mono vs t hv ht hs)
  rw [bsearchList_eq]
  generalize search vs.length (bsearchPred vs t) = r at *
  have below : ∀ k v, k < r → vs[k]? = some v → cmp v t = .lt := by
    intro k v hk hkv
    have := hlo k hk
    simp only [bsearchPred, hkv] at this
    simpa using this
  have notBelow : ∀ k v, r ≤ k → vs[k]? = some v → cmp v t ≠ .lt := by
    intro k v hk hkv
    have hkn : k < vs.length := by
      rcases Nat.lt_or_ge k vs.length with h | h
      · exact h
      · rw [List.getElem?_eq_none h] at hkv; cases hkv
    have := hhi k hk hkn
    simp only [bsearchPred, hkv] at this
    simpa using this
  cases hr : vs[r]? with
  | none =>
    right
    refine ⟨r, rfl, hn, below, fun k v hk hkv => ?_⟩
    have : vs.length ≤ k := by
      have := List.getElem?_eq_none_iff.mp hr; omega
    rw [List.getElem?_eq_none this] at hkv; cases hkv
  | some w =>
    simp only []
    split
    · rename_i he
      left
      exact ⟨r, rfl, w, hr, by simpa using he⟩
    · rename_i he
      right
      have hrn : r < vs.length := by
        rcases Nat.lt_or_ge r vs.length with h | h
        · exact h
        · rw [List.getElem?_eq_none h] at hr; cases hr
      have hw : w = vs[r] := by
        rw [List.getElem?_eq_getElem hrn] at hr; exact (Option.some.inj hr).symm
      have hwt : w.tame := by rw [hw]; exact hv _ (List.getElem_mem hrn)
      have hwgt : cmp w t = .gt := by
        have h1 := notBelow r w (Nat.le_refl _) hr
        have h2 : cmp w t ≠ .eq := by simpa using he
        cases h : cmp w t <;> simp_all
      refine ⟨r, rfl, hn, below, fun k v hk hkv => ?_⟩
      have hkn : k < vs.length := by
        rcases Nat.lt_or_ge k vs.length with h | h
        · exact h
        · rw [List.getElem?_eq_none h] at hkv; cases hkv
      have hvk : v = vs[k] := by
        rw [List.getElem?_eq_getElem hkn] at hkv; exact (Option.some.inj hkv).symm
      have hvt : v.tame := by rw [hvk]; exact hv _ (List.getElem_mem hkn)
      rcases Nat.lt_or_eq_of_le hk with hlt | rfl
      · -- t < w ≤ v
        have hle : cmp w v ≠ .gt := by
          rw [hw, hvk]; exact (List.pairwise_iff_getElem.mp hs) r k hrn hkn hlt
        exact gt_of_ge_of_gt hvt hwt ht hle hwgt
      · rw [hr] at hkv; cases hkv; exact hwgt
/-! ### indices, array subtraction, keys -/

theorem mem_indicesList {vs xs : List JV} {i : Nat} :
    i ∈ indicesList vs xs ↔
      xs ≠ [] ∧ i + xs.length ≤ vs.length ∧ cmpList ((vs.drop i).take xs.length) xs = .eq := by
  unfold indicesList
  cases xs with
  | nil => simp
  | cons x xs =>
    simp only [List.isEmpty_cons, Bool.false_eq_true, if_false, List.mem_filter, List.mem_range,
      beq_iff_eq, List.length_cons, ne_eq, reduceCtorEq, not_false_eq_true, true_and]
    constructor
    · rintro ⟨h1, h2⟩; exact ⟨by omega, h2⟩
    · rintro ⟨h1, h2⟩; exact ⟨by omega, h2⟩

theorem indicesList_increasing (vs xs : List JV) : (indicesList vs xs).Pairwise (· < ·) := by
  unfold indicesList
  split
  · exact List.Pairwise.nil
  · exact List.Pairwise.filter _ List.pairwise_lt_range

theorem mem_arraySub {l r : List JV} {x : JV} :
    x ∈ arraySub l r ↔ x ∈ l ∧ ∀ y ∈ r, cmp x y ≠ .eq := by
  simp [arraySub, List.mem_filter]

theorem arraySub_sublist (l r : List JV) : (arraySub l r).Sublist l :=
  List.filter_sublist

theorem Bytes.lt_iff (a b : Bytes) : Bytes.lt a b = true ↔ Bytes.cmp a b = .lt := by
  simp [Bytes.lt]

theorem kvSorted_head_lt : ∀ (rest : List (Bytes × JV)) (k : Bytes) (v : JV),
    kvSorted ((k, v) :: rest) = true → ∀ kv ∈ rest, Bytes.cmp k kv.1 = .lt
  | [], _, _, _, _, h => by simp at h
  | (k', v') :: rest, k, v, hs, kv, hkv => by
    simp only [kvSorted, Bool.and_eq_true, Bytes.lt_iff] at hs
    rcases List.mem_cons.mp hkv with rfl | hkv
    · exact hs.1
    · have ih := kvSorted_head_lt rest k' v' hs.2 kv hkv
      have := Bytes.cmp_compat k k' kv.1
      rw [hs.1, ih] at this
      cases h : Bytes.cmp k kv.1 <;> simp_all [compat]

theorem kvSorted_tail : ∀ (rest : List (Bytes × JV)) (k : Bytes) (v : JV),
    kvSorted ((k, v) :: rest) = true → kvSorted rest = true
  | [], _, _, _ => rfl
  | (k', v') :: rest, k, v, hs => by
    simp only [kvSorted, Bool.and_eq_true] at hs; exact hs.2

/-- the keys of a well-formed object, as `keys` returns them, are strictly increasing in the value order -/
theorem kvSorted_keys_pairwise : ∀ kvs : List (Bytes × JV), kvSorted kvs = true →
    (kvs.map (fun kv => JV.str kv.1)).Pairwise (fun a b => cmp a b = .lt)
  | [], _ => List.Pairwise.nil
  | (k, v) :: rest, hs => by
    simp only [List.map_cons, List.pairwise_cons]
    refine ⟨fun b hb => ?_, kvSorted_keys_pairwise rest (kvSorted_tail rest k v hs)⟩
    obtain ⟨kv, hkv, rfl⟩ := List.mem_map.mp hb
    simp only [cmp]
    exact kvSorted_head_lt rest k v hs kv hkv

/-! ### `sort` on values -/

theorem zip_self_map_fst (vs : List JV) : (vs.zip vs).map (·.1) = vs := by
  induction vs with
  | nil => rfl
  | cons x xs ih => simp [ih]

theorem mem_zip_self {vs : List JV} {it : Item} (h : it ∈ vs.zip vs) : it.1 = it.2 ∧ it.1 ∈ vs := by
  induction vs with
  | nil => simp at h
  | cons x xs ih =>
    simp only [List.zip_cons_cons, List.mem_cons] at h
    rcases h with rfl | h
    · simp
    · exact ⟨(ih h).1, List.mem_cons_of_mem _ (ih h).2⟩

theorem sort_arr (vs : List JV) : sort (.arr vs) = .ok (.arr ((sortItems (vs.zip vs)).map (·.1))) := by
  simp [sort, sortBy, mkItems, bind, Except.bind, pure, Except.pure]


end Gojq

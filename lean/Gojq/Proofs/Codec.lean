/- Helper lemmas for C13: the native codecs are inverse to each other. Core Lean only. -/
import Gojq.Model.Codec
namespace Gojq.Codec
open Gojq Gojq.Utf8

theorem u8_lt (a : UInt8) : a.toNat < 256 := UInt8.toNat_lt a
theorem toNat_ofNat_lt {n : Nat} (h : n < 256) : (UInt8.ofNat n).toNat = n := by
  rw [UInt8.toNat_ofNat']; omega
theorem ofNat_eq_of_toNat (a : UInt8) (n : Nat) (h : n = a.toNat) : UInt8.ofNat n = a := by
  subst h; exact UInt8.ofNat_toNat

theorem flatMap_congr_mem {α β : Type} (l : List α) (f g : α → List β) (h : ∀ a ∈ l, f a = g a) :
    l.flatMap f = l.flatMap g := by
  induction l with
  | nil => rfl
  | cons a l ih =>
    rw [List.flatMap_cons, List.flatMap_cons, h a (List.mem_cons_self ..),
      ih (fun x hx => h x (List.mem_cons_of_mem _ hx))]

/-! ## UTF-8: explode / implode -/



theorem encodeRune_1 (r : Nat) (h : r < 0x80) : encodeRune r = [UInt8.ofNat r] := by
  simp [encodeRune, h]

theorem encodeRune_2 (r : Nat) (h1 : 0x80 ≤ r) (h2 : r < 0x800) :
    encodeRune r = [UInt8.ofNat (0xC0 + r / 64), UInt8.ofNat (0x80 + r % 64)] := by
  unfold encodeRune
  simp only []
  rw [if_neg (by omega), if_pos h2]

theorem encodeRune_3 (r : Nat) (h1 : 0x800 ≤ r) (h2 : r < 0x10000) (h3 : r < 0xD800 ∨ 0xDFFF < r) :
    encodeRune r = [UInt8.ofNat (0xE0 + r / 4096), UInt8.ofNat (0x80 + (r / 64) % 64), UInt8.ofNat (0x80 + r % 64)] := by
  unfold encodeRune maxRune
  simp only []
  rw [if_neg (by omega), if_neg (by omega), if_neg (by simp; omega), if_pos h2]

theorem encodeRune_4 (r : Nat) (h1 : 0x10000 ≤ r) (h2 : r ≤ 0x10FFFF) :
    encodeRune r = [UInt8.ofNat (0xF0 + r / 262144), UInt8.ofNat (0x80 + (r / 4096) % 64),
      UInt8.ofNat (0x80 + (r / 64) % 64), UInt8.ofNat (0x80 + r % 64)] := by
  unfold encodeRune maxRune
  simp only []
  rw [if_neg (by omega), if_neg (by omega), if_neg (by simp; omega), if_neg (by omega)]

theorem encodeRune_bad (r : Nat) (h : (0xD800 ≤ r ∧ r ≤ 0xDFFF) ∨ 0x10FFFF < r) : encodeRune r = [0xEF, 0xBF, 0xBD] := by
  unfold encodeRune maxRune
  simp only []
  rw [if_neg (by omega), if_neg (by omega), if_pos (by simp; omega)]

theorem isCont_iff (b : UInt8) : isCont b = true ↔ 0x80 ≤ b.toNat ∧ b.toNat ≤ 0xBF := by
  simp [isCont]

theorem decodeRune_1 (b0 : UInt8) (rest : Bytes) (h : b0.toNat < 0x80) :
    decodeRune (b0 :: rest) = (b0.toNat, 1, true) := by
  simp [decodeRune, h]

theorem decodeRune_2 (b0 b1 : UInt8) (rest : Bytes) (h0 : 0xC2 ≤ b0.toNat ∧ b0.toNat < 0xE0)
    (h1 : 0x80 ≤ b1.toNat ∧ b1.toNat ≤ 0xBF) :
    decodeRune (b0 :: b1 :: rest) = ((b0.toNat % 32) * 64 + b1.toNat % 64, 2, true) := by
  simp only [decodeRune]
  rw [if_neg (by omega), if_neg (by omega), if_pos (by omega), if_pos ((isCont_iff b1).2 h1)]

theorem decodeRune_3 (b0 b1 b2 : UInt8) (rest : Bytes) (h0 : 0xE0 ≤ b0.toNat ∧ b0.toNat < 0xF0)
    (h1 : (if b0.toNat = 0xE0 then 0xA0 else 0x80) ≤ b1.toNat ∧ b1.toNat ≤ (if b0.toNat = 0xED then 0x9F else 0xBF))
    (h2 : 0x80 ≤ b2.toNat ∧ b2.toNat ≤ 0xBF) :
    decodeRune (b0 :: b1 :: b2 :: rest) =
      ((b0.toNat % 16) * 4096 + (b1.toNat % 64) * 64 + b2.toNat % 64, 3, true) := by
  simp only [decodeRune]
  rw [if_neg (by omega), if_neg (by omega), if_neg (by omega), if_pos (by omega)]
  simp only [beq_iff_eq, Bool.and_eq_true, decide_eq_true_eq]
  rw [if_pos ⟨⟨h1.1, h1.2⟩, (isCont_iff b2).2 h2⟩]

theorem decodeRune_4 (b0 b1 b2 b3 : UInt8) (rest : Bytes) (h0 : 0xF0 ≤ b0.toNat ∧ b0.toNat < 0xF5)
    (h1 : (if b0.toNat = 0xF0 then 0x90 else 0x80) ≤ b1.toNat ∧ b1.toNat ≤ (if b0.toNat = 0xF4 then 0x8F else 0xBF))
    (h2 : 0x80 ≤ b2.toNat ∧ b2.toNat ≤ 0xBF) (h3 : 0x80 ≤ b3.toNat ∧ b3.toNat ≤ 0xBF) :
    decodeRune (b0 :: b1 :: b2 :: b3 :: rest) =
      ((b0.toNat % 8) * 262144 + (b1.toNat % 64) * 4096 + (b2.toNat % 64) * 64 + b3.toNat % 64, 4, true) := by
  simp only [decodeRune]
  rw [if_neg (by omega), if_neg (by omega), if_neg (by omega), if_neg (by omega), if_pos (by omega)]
  simp only [beq_iff_eq, Bool.and_eq_true, decide_eq_true_eq]
  rw [if_pos ⟨⟨⟨h1.1, h1.2⟩, (isCont_iff b2).2 h2⟩, (isCont_iff b3).2 h3⟩]


theorem decode_valid (s : Bytes) (r w : Nat) (h : decodeRune s = (r, w, true)) :
    1 ≤ w ∧ w ≤ s.length ∧ encodeRune r = s.take w ∧ isScalar r = true := by
  cases s with
  | nil => simp [decodeRune] at h
  | cons b0 rest =>
    have hb0 := u8_lt b0
    simp only [decodeRune] at h
    split at h
    · rename_i hx
      simp only [Prod.mk.injEq, and_true] at h
      obtain ⟨rfl, rfl⟩ := h
      refine ⟨by omega, by simp, ?_, by simp [isScalar]; omega⟩
      rw [encodeRune_1 _ hx]
      simp
    · split at h
      · simp at h
      · split at h
        · cases rest with
          | nil => simp at h
          | cons b1 rest =>
            simp only [] at h
            split at h
            · rename_i hc
              rw [isCont_iff] at hc
              have hb1 := u8_lt b1
              simp only [Prod.mk.injEq, and_true] at h
              obtain ⟨rfl, rfl⟩ := h
              refine ⟨by omega, by simp, ?_, by simp [isScalar]; omega⟩
              rw [encodeRune_2 _ (by omega) (by omega)]
              simp only [List.take_succ_cons, List.take_zero]
              congr 1
              · apply ofNat_eq_of_toNat; omega
              · congr 1; apply ofNat_eq_of_toNat; omega
            · simp at h
        · split at h
          · match rest, h with
            | [], h => simp at h
            | [_], h => simp at h
            | b1 :: b2 :: rest, h =>
              simp only [] at h
              generalize hlo : (if (b0.toNat == 224) = true then 160 else 128) = lo at h
              generalize hhi : (if (b0.toNat == 237) = true then 159 else 191) = hi at h
              simp only [beq_iff_eq] at hlo hhi
              split at h
              · rename_i hc
                simp only [Bool.and_eq_true, decide_eq_true_eq, isCont_iff] at hc
                have hb1 := u8_lt b1
                have hb2 := u8_lt b2
                simp only [Prod.mk.injEq, and_true] at h
                obtain ⟨rfl, rfl⟩ := h
                have hr : 0x800 ≤ b0.toNat % 16 * 4096 + b1.toNat % 64 * 64 + b2.toNat % 64 ∧
                    b0.toNat % 16 * 4096 + b1.toNat % 64 * 64 + b2.toNat % 64 < 0x10000 ∧
                    (b0.toNat % 16 * 4096 + b1.toNat % 64 * 64 + b2.toNat % 64 < 0xD800 ∨
                     0xDFFF < b0.toNat % 16 * 4096 + b1.toNat % 64 * 64 + b2.toNat % 64) ∧
                    128 ≤ b1.toNat ∧ b1.toNat ≤ 191 := by
                  split at hlo <;> split at hhi <;> omega
                refine ⟨by omega, by simp, ?_, by simp [isScalar]; omega⟩
                rw [encodeRune_3 _ hr.1 hr.2.1 hr.2.2.1]
                simp only [List.take_succ_cons, List.take_zero]
                congr 1
                · apply ofNat_eq_of_toNat; omega
                · congr 1
                  · apply ofNat_eq_of_toNat; omega
                  · congr 1; apply ofNat_eq_of_toNat; omega
              · simp at h
          · split at h
            · match rest, h with
              | [], h => simp at h
              | [_], h => simp at h
              | [_, _], h => simp at h
              | b1 :: b2 :: b3 :: rest, h =>
                simp only [] at h
                generalize hlo : (if (b0.toNat == 240) = true then 144 else 128) = lo at h
                generalize hhi : (if (b0.toNat == 244) = true then 143 else 191) = hi at h
                simp only [beq_iff_eq] at hlo hhi
                split at h
                · rename_i hc
                  simp only [Bool.and_eq_true, decide_eq_true_eq, isCont_iff] at hc
                  have hb1 := u8_lt b1
                  have hb2 := u8_lt b2
                  have hb3 := u8_lt b3
                  simp only [Prod.mk.injEq, and_true] at h
                  obtain ⟨rfl, rfl⟩ := h
                  have hr : 0x10000 ≤ b0.toNat % 8 * 262144 + b1.toNat % 64 * 4096 + b2.toNat % 64 * 64 + b3.toNat % 64 ∧
                      b0.toNat % 8 * 262144 + b1.toNat % 64 * 4096 + b2.toNat % 64 * 64 + b3.toNat % 64 ≤ 0x10FFFF ∧
                      128 ≤ b1.toNat ∧ b1.toNat ≤ 191 := by
                    split at hlo <;> split at hhi <;> omega
                  refine ⟨by omega, by simp, ?_, by simp [isScalar]; omega⟩
                  rw [encodeRune_4 _ hr.1 hr.2.1]
                  simp only [List.take_succ_cons, List.take_zero]
                  congr 1
                  · apply ofNat_eq_of_toNat; omega
                  · congr 1
                    · apply ofNat_eq_of_toNat; omega
                    · congr 1
                      · apply ofNat_eq_of_toNat; omega
                      · congr 1; apply ofNat_eq_of_toNat; omega
                · simp at h
            · simp at h


theorem runesAux_cons (fuel : Nat) (b : UInt8) (t : Bytes) :
    runesAux (fuel + 1) (b :: t) =
      (decodeRune (b :: t)).1 :: runesAux fuel ((b :: t).drop (max (decodeRune (b :: t)).2.1 1)) := by
  simp [runesAux]

theorem validAux_cons (fuel : Nat) (b : UInt8) (t : Bytes) :
    validAux (fuel + 1) (b :: t) =
      ((decodeRune (b :: t)).2.2 && validAux fuel ((b :: t).drop (max (decodeRune (b :: t)).2.1 1))) := by
  simp [validAux]

theorem implodeRune_scalar (r : Nat) (h : isScalar r = true) : implodeRune (r : Int) = encodeRune r := by
  unfold implodeRune maxRune
  simp [isScalar] at h
  rw [if_pos (by omega)]
  simp

theorem implode_runesAux (fuel : Nat) : ∀ s : Bytes, s.length ≤ fuel → validAux fuel s = true →
    (runesAux fuel s).flatMap (fun r : Nat => implodeRune (r : Int)) = s := by
  induction fuel with
  | zero =>
    intro s hl _
    cases s with
    | nil => simp [runesAux]
    | cons b t => simp at hl
  | succ fuel ih =>
    intro s hl hv
    cases s with
    | nil => simp [runesAux]
    | cons b t =>
      rw [validAux_cons] at hv
      rw [runesAux_cons]
      generalize hd : decodeRune (b :: t) = d at hv ⊢
      obtain ⟨r, w, ok⟩ := d
      simp only [Bool.and_eq_true] at hv
      obtain ⟨hok, hv⟩ := hv
      simp only [] at hok hv ⊢
      subst hok
      obtain ⟨h1, h2, h3, h4⟩ := decode_valid _ _ _ hd
      have hw : max w 1 = w := by omega
      rw [hw] at hv ⊢
      rw [List.flatMap_cons, implodeRune_scalar r h4, h3, ih _ (by simp only [List.length_drop]; omega) hv]
      exact List.take_append_drop w (b :: t)

theorem runesAux_scalar (fuel : Nat) : ∀ s : Bytes, validAux fuel s = true →
    ∀ c ∈ runesAux fuel s, isScalar c = true := by
  induction fuel with
  | zero => intro s _ c hc; simp [runesAux] at hc
  | succ fuel ih =>
    intro s hv c hc
    cases s with
    | nil => simp [runesAux] at hc
    | cons b t =>
      rw [validAux_cons] at hv
      rw [runesAux_cons] at hc
      generalize hd : decodeRune (b :: t) = d at hv hc
      obtain ⟨r, w, ok⟩ := d
      simp only [Bool.and_eq_true] at hv
      obtain ⟨hok, hv⟩ := hv
      simp only [] at hok hv hc
      subst hok
      obtain ⟨_, _, _, h4⟩ := decode_valid _ _ _ hd
      rw [List.mem_cons] at hc
      rcases hc with rfl | hc
      · exact h4
      · exact ih _ hv c hc

theorem decode_encode (c : Nat) (h : isScalar c = true) (rest : Bytes) :
    decodeRune (encodeRune c ++ rest) = (c, (encodeRune c).length, true) := by
  simp [isScalar] at h
  by_cases h1 : c < 0x80
  · rw [encodeRune_1 c h1]
    simp only [List.cons_append, List.nil_append, List.length_cons, List.length_nil]
    have e0 : (UInt8.ofNat c).toNat = c := toNat_ofNat_lt (by omega)
    rw [decodeRune_1 _ _ (by omega), e0]
  · by_cases h2 : c < 0x800
    · rw [encodeRune_2 c (by omega) h2]
      simp only [List.cons_append, List.nil_append, List.length_cons, List.length_nil]
      have e0 : (UInt8.ofNat (0xC0 + c / 64)).toNat = 0xC0 + c / 64 := toNat_ofNat_lt (by omega)
      have e1 : (UInt8.ofNat (0x80 + c % 64)).toNat = 0x80 + c % 64 := toNat_ofNat_lt (by omega)
      rw [decodeRune_2 _ _ _ (by omega) (by omega), e0, e1]
      simp only [Prod.mk.injEq, and_true]
      omega
    · by_cases h3 : c < 0x10000
      · rw [encodeRune_3 c (by omega) h3 (by omega)]
        simp only [List.cons_append, List.nil_append, List.length_cons, List.length_nil]
        have e0 : (UInt8.ofNat (0xE0 + c / 4096)).toNat = 0xE0 + c / 4096 := toNat_ofNat_lt (by omega)
        have e1 : (UInt8.ofNat (0x80 + c / 64 % 64)).toNat = 0x80 + c / 64 % 64 := toNat_ofNat_lt (by omega)
        have e2 : (UInt8.ofNat (0x80 + c % 64)).toNat = 0x80 + c % 64 := toNat_ofNat_lt (by omega)
        rw [decodeRune_3 _ _ _ _ (by omega) (by rw [e0, e1]; split <;> split <;> omega) (by omega), e0, e1, e2]
        simp only [Prod.mk.injEq, and_true]
        omega
      · rw [encodeRune_4 c (by omega) (by omega)]
        simp only [List.cons_append, List.nil_append, List.length_cons, List.length_nil]
        have e0 : (UInt8.ofNat (0xF0 + c / 262144)).toNat = 0xF0 + c / 262144 := toNat_ofNat_lt (by omega)
        have e1 : (UInt8.ofNat (0x80 + c / 4096 % 64)).toNat = 0x80 + c / 4096 % 64 := toNat_ofNat_lt (by omega)
        have e2 : (UInt8.ofNat (0x80 + c / 64 % 64)).toNat = 0x80 + c / 64 % 64 := toNat_ofNat_lt (by omega)
        have e3 : (UInt8.ofNat (0x80 + c % 64)).toNat = 0x80 + c % 64 := toNat_ofNat_lt (by omega)
        rw [decodeRune_4 _ _ _ _ _ (by omega) (by rw [e0, e1]; split <;> split <;> omega) (by omega) (by omega),
          e0, e1, e2, e3]
        simp only [Prod.mk.injEq, and_true]
        omega

theorem encodeRune_length_pos (c : Nat) : 1 ≤ (encodeRune c).length := by
  unfold encodeRune
  simp only []
  split <;> (try split) <;> (try split) <;> (try split) <;> simp

theorem runesAux_encode (cs : List Nat) (hs : ∀ c ∈ cs, isScalar c = true) :
    ∀ fuel, (encodeRunes cs).length ≤ fuel → runesAux fuel (encodeRunes cs) = cs := by
  induction cs with
  | nil => intro fuel _; cases fuel <;> simp [encodeRunes, runesAux]
  | cons c cs ih =>
    intro fuel hf
    have hc := hs c (List.mem_cons_self ..)
    have he : encodeRunes (c :: cs) = encodeRune c ++ encodeRunes cs := by simp [encodeRunes]
    rw [he] at hf ⊢
    have hd := decode_encode c hc (encodeRunes cs)
    have hpos := encodeRune_length_pos c
    obtain ⟨b, t, hbt⟩ : ∃ b t, encodeRune c ++ encodeRunes cs = b :: t := by
      cases hx : encodeRune c ++ encodeRunes cs with
      | nil => have := congrArg List.length hx; simp only [List.length_append, List.length_nil] at this; omega
      | cons b t => exact ⟨b, t, rfl⟩
    rw [hbt] at hd
    cases fuel with
    | zero => simp only [List.length_append] at hf; omega
    | succ fuel =>
      rw [hbt, runesAux_cons, hd]
      simp only []
      have hw : max (encodeRune c).length 1 = (encodeRune c).length := by omega
      rw [hw, ← hbt, List.drop_left]
      rw [ih (fun x hx => hs x (List.mem_cons_of_mem _ hx)) fuel (by simp only [List.length_append] at hf; omega)]



/-! ## base64 -/



theorem b64idx_chr : ∀ n, n < 64 → b64idx (b64chr n) = some n := by decide
theorem b64chr_keep : ∀ n, n < 64 →
    ((b64chr n).toNat != 61) = true ∧ ((b64chr n).toNat != 10 && (b64chr n).toNat != 13) = true := by decide

/-- the characters `b64enc` emits before the padding -/
def b64body : Bytes → Bytes
  | [] => []
  | [a] => [b64chr (a.toNat / 4), b64chr (a.toNat % 4 * 16)]
  | [a, b] => [b64chr (a.toNat / 4), b64chr (a.toNat % 4 * 16 + b.toNat / 16), b64chr (b.toNat % 16 * 4)]
  | a :: b :: c :: rest =>
    b64chr (a.toNat / 4) :: b64chr (a.toNat % 4 * 16 + b.toNat / 16) :: b64chr (b.toNat % 16 * 4 + c.toNat / 64)
      :: b64chr (c.toNat % 64) :: b64body rest

theorem b64_prepare (bs : Bytes) :
    ((b64enc bs).takeWhile (fun c => c.toNat != 61)).filter (fun c => c.toNat != 10 && c.toNat != 13) = b64body bs := by
  induction bs using b64enc.induct with
  | case1 => rfl
  | case2 a =>
    have ha := u8_lt a
    simp only [b64enc, b64body]
    have h1 := b64chr_keep (a.toNat / 4) (by omega)
    have h2 := b64chr_keep (a.toNat % 4 * 16) (by omega)
    simp [List.takeWhile, List.filter, h1.1, h1.2, h2.1, h2.2]
  | case3 a b =>
    have ha := u8_lt a
    have hb := u8_lt b
    simp only [b64enc, b64body]
    have h1 := b64chr_keep (a.toNat / 4) (by omega)
    have h2 := b64chr_keep (a.toNat % 4 * 16 + b.toNat / 16) (by omega)
    have h3 := b64chr_keep (b.toNat % 16 * 4) (by omega)
    simp [List.takeWhile, List.filter, h1.1, h1.2, h2.1, h2.2, h3.1, h3.2]
  | case4 a b c rest ih =>
    have ha := u8_lt a
    have hb := u8_lt b
    have hc := u8_lt c
    simp only [b64enc, b64body]
    have h1 := b64chr_keep (a.toNat / 4) (by omega)
    have h2 := b64chr_keep (a.toNat % 4 * 16 + b.toNat / 16) (by omega)
    have h3 := b64chr_keep (b.toNat % 16 * 4 + c.toNat / 64) (by omega)
    have h4 := b64chr_keep (c.toNat % 64) (by omega)
    simp only [List.takeWhile, List.filter, h1.1, h1.2, h2.1, h2.2, h3.1, h3.2, h4.1, h4.2, ih]

theorem b64decRaw_body (bs : Bytes) : b64decRaw (b64body bs) = some bs := by
  induction bs using b64body.induct with
  | case1 => rfl
  | case2 a =>
    have ha := u8_lt a
    simp only [b64body, b64decRaw, b64idx_chr (a.toNat / 4) (by omega), b64idx_chr (a.toNat % 4 * 16) (by omega)]
    congr 2
    apply ofNat_eq_of_toNat; omega
  | case3 a b =>
    have ha := u8_lt a
    have hb := u8_lt b
    simp only [b64body, b64decRaw, b64idx_chr (a.toNat / 4) (by omega),
      b64idx_chr (a.toNat % 4 * 16 + b.toNat / 16) (by omega), b64idx_chr (b.toNat % 16 * 4) (by omega)]
    have e1 : UInt8.ofNat (a.toNat / 4 * 4 + (a.toNat % 4 * 16 + b.toNat / 16) / 16) = a := by
      apply ofNat_eq_of_toNat; omega
    have e2 : UInt8.ofNat ((a.toNat % 4 * 16 + b.toNat / 16) % 16 * 16 + b.toNat % 16 * 4 / 4) = b := by
      apply ofNat_eq_of_toNat; omega
    rw [e1, e2]
  | case4 a b c rest ih =>
    have ha := u8_lt a
    have hb := u8_lt b
    have hc := u8_lt c
    simp only [b64body, b64decRaw, b64idx_chr (a.toNat / 4) (by omega),
      b64idx_chr (a.toNat % 4 * 16 + b.toNat / 16) (by omega), b64idx_chr (b.toNat % 16 * 4 + c.toNat / 64) (by omega),
      b64idx_chr (c.toNat % 64) (by omega), ih]
    have e1 : UInt8.ofNat (a.toNat / 4 * 4 + (a.toNat % 4 * 16 + b.toNat / 16) / 16) = a := by
      apply ofNat_eq_of_toNat; omega
    have e2 : UInt8.ofNat ((a.toNat % 4 * 16 + b.toNat / 16) % 16 * 16 + (b.toNat % 16 * 4 + c.toNat / 64) / 4) = b := by
      apply ofNat_eq_of_toNat; omega
    have e3 : UInt8.ofNat ((b.toNat % 16 * 4 + c.toNat / 64) % 4 * 64 + c.toNat % 64) = c := by
      apply ofNat_eq_of_toNat; omega
    rw [e1, e2, e3]

theorem b64dec_enc (bs : Bytes) : b64dec (b64enc bs) = some bs := by
  unfold b64dec
  rw [b64_prepare, b64decRaw_body]



/-! ## @uri -/



theorem unhex_hexUp : ∀ n, n < 16 → unhex (hexUp n) = some n := by decide

theorem unreserved_ne_percent (c : UInt8) (h : unreserved c = true) : c.toNat ≠ 37 := by
  intro h37
  unfold unreserved at h
  simp [h37] at h

theorem uriEnc_length_ge (bs : Bytes) : bs.length ≤ (uriEnc bs).length := by
  induction bs with
  | nil => simp [uriEnc]
  | cons c rest ih =>
    unfold uriEnc
    split <;> simp <;> omega

theorem uriDecAux_enc (bs : Bytes) : ∀ fuel, (uriEnc bs).length ≤ fuel → uriDecAux fuel (uriEnc bs) = some bs := by
  induction bs with
  | nil => intro fuel _; cases fuel <;> simp [uriEnc, uriDecAux]
  | cons c rest ih =>
    intro fuel hf
    by_cases hu : unreserved c = true
    · have he : uriEnc (c :: rest) = c :: uriEnc rest := by simp [uriEnc, hu]
      rw [he] at hf ⊢
      cases fuel with
      | zero => simp at hf
      | succ fuel =>
        simp only [List.length_cons] at hf
        simp only [uriDecAux, if_neg (unreserved_ne_percent c hu), ih fuel (by omega)]
    · have he : uriEnc (c :: rest) = 37 :: hexUp (c.toNat / 16) :: hexUp (c.toNat % 16) :: uriEnc rest := by
        simp [uriEnc, hu]
      rw [he] at hf ⊢
      cases fuel with
      | zero => simp at hf
      | succ fuel =>
        simp only [List.length_cons] at hf
        have hc := u8_lt c
        have e : UInt8.ofNat (c.toNat / 16 * 16 + c.toNat % 16) = c := by apply ofNat_eq_of_toNat; omega
        have h37 : (37 : UInt8).toNat = 37 := by decide
        simp only [uriDecAux, h37, if_true, unhex_hexUp (c.toNat / 16) (by omega), unhex_hexUp (c.toNat % 16) (by omega),
          ih fuel (by omega), e]

theorem uriDec_enc (bs : Bytes) : uriDec (uriEnc bs) = some bs :=
  uriDecAux_enc bs _ (Nat.le_refl _)



/-! ## split / join -/


theorem hasPrefix_eq (sep s : Bytes) (h : hasPrefix sep s = true) : sep ++ s.drop sep.length = s := by
  induction sep generalizing s with
  | nil => simp
  | cons a as ih =>
    cases s with
    | nil => simp [hasPrefix] at h
    | cons b bs =>
      simp only [hasPrefix, Bool.and_eq_true, beq_iff_eq] at h
      have : a = b := UInt8.toNat_inj.mp h.1
      subst this
      simp [ih bs h.2]

theorem splitAux_ne_nil (sep : Bytes) (fuel : Nat) (acc s : Bytes) : splitAux sep fuel acc s ≠ [] := by
  induction fuel generalizing acc s with
  | zero => simp [splitAux]
  | succ fuel ih =>
    cases s with
    | nil => simp [splitAux]
    | cons c cs =>
      simp only [splitAux]
      split
      · simp
      · exact ih _ _

theorem join_cons (sep x : Bytes) (l : List Bytes) (h : l ≠ []) : join sep (x :: l) = x ++ sep ++ join sep l := by
  cases l with
  | nil => exact absurd rfl h
  | cons y rest => rfl

theorem join_splitAux (sep : Bytes) (fuel : Nat) (acc s : Bytes) :
    join sep (splitAux sep fuel acc s) = acc.reverse ++ s := by
  induction fuel generalizing acc s with
  | zero => simp [splitAux, join]
  | succ fuel ih =>
    cases s with
    | nil => simp [splitAux, join]
    | cons c cs =>
      simp only [splitAux]
      split
      · rename_i hp
        rw [join_cons _ _ _ (splitAux_ne_nil _ _ _ _), ih]
        simp only [List.reverse_nil, List.nil_append, List.append_assoc]
        rw [hasPrefix_eq sep (c :: cs) hp]
      · rw [ih]; simp

theorem join_splitOn (sep s : Bytes) (h : sep ≠ []) : join sep (splitOn sep s) = s := by
  unfold splitOn
  have : sep.isEmpty = false := by cases sep <;> simp_all
  simp [this, join_splitAux]



/-! ## integer numerals -/



theorem parseNatAux_digit (d : Nat) (hd : d < 10) (rest : Bytes) (a : Nat) :
    parseNatAux (UInt8.ofNat (48 + d) :: rest) a = parseNatAux rest (a * 10 + d) := by
  simp only [parseNatAux, toNat_ofNat_lt (show 48 + d < 256 by omega)]
  rw [if_pos (by omega)]
  congr 1
  omega

def isDigit (c : UInt8) : Prop := 48 ≤ c.toNat ∧ c.toNat ≤ 57

theorem isDigit_ofNat (d : Nat) (hd : d < 10) : isDigit (UInt8.ofNat (48 + d)) := by
  unfold isDigit; rw [toNat_ofNat_lt (by omega)]; omega

/-- the digits written for `n` in front of `acc` read back as `n` appended (in base 10) to any
    value read so far -/
theorem digitsAux_spec (fuel : Nat) : ∀ (n : Nat) (acc : Bytes), n < fuel →
    ∃ ds : Bytes, ∃ p : Nat, digitsAux fuel n acc = ds ++ acc ∧ ds ≠ [] ∧ (∀ c ∈ ds, isDigit c) ∧
      ∀ (a : Nat) (rest : Bytes), parseNatAux (ds ++ rest) a = parseNatAux rest (a * p + n) := by
  induction fuel with
  | zero => intro n acc h; omega
  | succ fuel ih =>
    intro n acc h
    by_cases hn : n < 10
    · refine ⟨[UInt8.ofNat (48 + n % 10)], 10, ?_, List.cons_ne_nil _ _, ?_, ?_⟩
      · simp only [digitsAux, hn, if_true, List.cons_append, List.nil_append]
      · intro c hc
        rw [List.mem_singleton] at hc; subst hc
        exact isDigit_ofNat _ (by omega)
      · intro a rest
        simp only [List.cons_append, List.nil_append]
        rw [parseNatAux_digit _ (by omega)]
        congr 1; omega
    · obtain ⟨ds, p, h1, h2, h4, h3⟩ := ih (n / 10) (UInt8.ofNat (48 + n % 10) :: acc) (by omega)
      refine ⟨ds ++ [UInt8.ofNat (48 + n % 10)], p * 10, ?_, ?_, ?_, ?_⟩
      · simp only [digitsAux, hn, if_false, List.append_assoc, List.cons_append, List.nil_append]
        exact h1
      · intro h; cases ds <;> simp at h
      · intro c hc
        rw [List.mem_append, List.mem_singleton] at hc
        rcases hc with hc | hc
        · exact h4 c hc
        · subst hc; exact isDigit_ofNat _ (by omega)
      · intro a rest
        rw [List.append_assoc, h3]
        simp only [List.cons_append, List.nil_append]
        rw [parseNatAux_digit _ (by omega)]
        congr 1
        rw [Nat.add_mul, Nat.mul_assoc]
        omega

theorem natToString_spec (n : Nat) :
    ∃ c cs, natToString n = c :: cs ∧ isDigit c ∧ parseNat (c :: cs) = some n := by
  obtain ⟨ds, p, h1, h2, h4, h3⟩ := digitsAux_spec (n + 1) n [] (by omega)
  unfold natToString
  rw [h1]
  have := h3 0 []
  simp only [List.append_nil] at this ⊢
  cases ds with
  | nil => exact absurd rfl h2
  | cons d ds' =>
    refine ⟨d, ds', rfl, h4 d (List.mem_cons_self ..), ?_⟩
    show parseNatAux (d :: ds') 0 = some n
    rw [this]
    simp [parseNatAux]

theorem parseIntString_intToString (z : Int) : parseIntString (intToString z) = some z := by
  obtain ⟨c, cs, h1, h2, h3⟩ := natToString_spec z.natAbs
  unfold intToString
  split
  · have h45 : (45 : UInt8).toNat = 45 := by decide
    simp only [parseIntString, h45, if_true]
    rw [h1, h3]
    show some (-((z.natAbs : Nat) : Int)) = some z
    congr 1; omega
  · rw [h1]
    unfold isDigit at h2
    simp only [parseIntString]
    rw [if_neg (by omega), if_neg (by omega), h3]
    show some ((z.natAbs : Nat) : Int) = some z
    congr 1; omega



end Gojq.Codec

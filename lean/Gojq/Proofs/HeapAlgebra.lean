/-
  Helper lemmas, part 3: the value-level algebra of `getpath` / `setpath` / `delpaths` (C02 items 2, 3).
  Core Lean only.
-/
import Gojq.Proofs.Heap
namespace Gojq.Heap
open Gojq

/-! ### index resolution -/

theorem resolve_inr {i : Int} {len j : Nat} (h : resolve i len = .inr j) :
    j < len ∧ ((0 ≤ i ∧ (j : Int) = i) ∨ (i < 0 ∧ (j : Int) = i + len)) := by
  unfold resolve at h
  split at h
  · split at h
    · cases h
    · simp only [Res.inr.injEq] at h; omega
  · split at h
    · simp only [Res.inr.injEq] at h; omega
    · cases h

theorem resolve_beyond {i : Int} {len i' : Nat} (h : resolve i len = .beyond i') :
    0 ≤ i ∧ (i' : Int) = i ∧ len ≤ i' := by
  unfold resolve at h
  split at h
  · split at h <;> cases h
  · split at h
    · cases h
    · simp only [Res.beyond.injEq] at h; omega

theorem resolve_nonneg_lt {i : Int} {len : Nat} (h0 : 0 ≤ i) (h1 : i < len) : resolve i len = .inr i.toNat := by
  unfold resolve
  have : ¬ i < 0 := by omega
  simp [this, h1]

theorem resolve_nonneg_ge {i : Int} {len : Nat} (h0 : 0 ≤ i) (h1 : (len : Int) ≤ i) : resolve i len = .beyond i.toNat := by
  unfold resolve
  have : ¬ i < 0 := by omega
  have : ¬ i < len := by omega
  simp [*]

/-! ### `Bytes.cmp` is a strict order -/

theorem cmp_lt_trans : ∀ a b c : Bytes, Bytes.cmp a b = .lt → Bytes.cmp b c = .lt → Bytes.cmp a c = .lt
  | [], [], _, h, _ => by simp [Bytes.cmp] at h
  | [], _ :: _, [], _, h => by simp [Bytes.cmp] at h
  | [], _ :: _, _ :: _, _, _ => by simp [Bytes.cmp]
  | _ :: _, [], _, h, _ => by simp [Bytes.cmp] at h
  | _ :: _, _ :: _, [], _, h => by simp [Bytes.cmp] at h
  | a :: as, b :: bs, c :: cs, h1, h2 => by
    simp only [Bytes.cmp] at h1 h2 ⊢
    by_cases hab : a < b
    · by_cases hbc : b < c
      · simp [UInt8.lt_trans hab hbc]
      · simp only [hbc, if_false] at h2
        by_cases hcb : c < b
        · simp [hcb] at h2
        · have : b = c := UInt8.le_antisymm (UInt8.not_lt.mp hcb) (UInt8.not_lt.mp hbc)
          subst this; simp [hab]
    · simp only [hab, if_false] at h1
      by_cases hba : b < a
      · simp [hba] at h1
      · simp only [hba, if_false] at h1
        have : a = b := UInt8.le_antisymm (UInt8.not_lt.mp hba) (UInt8.not_lt.mp hab)
        subst this
        by_cases hbc : a < c
        · simp [hbc]
        · simp only [hbc, if_false] at h2 ⊢
          by_cases hcb : c < a
          · simp [hcb] at h2
          · simp only [hcb, if_false] at h2 ⊢
            exact cmp_lt_trans as bs cs h1 h2

theorem cmp_gt_of_lt : ∀ a b : Bytes, Bytes.cmp a b = .lt → Bytes.cmp b a = .gt
  | [], [], h => by simp [Bytes.cmp] at h
  | [], _ :: _, _ => by simp [Bytes.cmp]
  | _ :: _, [], h => by simp [Bytes.cmp] at h
  | a :: as, b :: bs, h => by
    simp only [Bytes.cmp] at h ⊢
    by_cases hab : a < b
    · have : ¬ b < a := fun hba => UInt8.lt_irrefl a (UInt8.lt_trans hab hba)
      simp [this, hab]
    · simp only [hab, if_false] at h
      by_cases hba : b < a
      · simp [hba] at h
      · simp only [hba, if_false] at h ⊢
        simp only [hab, if_false]
        exact cmp_gt_of_lt as bs h

theorem cmp_lt_of_gt : ∀ a b : Bytes, Bytes.cmp a b = .gt → Bytes.cmp b a = .lt
  | [], [], h => by simp [Bytes.cmp] at h
  | [], _ :: _, h => by simp [Bytes.cmp] at h
  | _ :: _, [], _ => by simp [Bytes.cmp]
  | a :: as, b :: bs, h => by
    simp only [Bytes.cmp] at h ⊢
    by_cases hab : a < b
    · simp [hab] at h
    · simp only [hab, if_false] at h
      by_cases hba : b < a
      · simp [hba]
      · simp only [hba, if_false] at h ⊢
        simp only [hab, if_false]
        exact cmp_lt_of_gt as bs h

/-! ### objects -/

theorem kvFind_insert_same (k : Bytes) (u : JV) : ∀ kvs, kvFind k (kvInsert k u kvs) = some u
  | [] => by simp [kvInsert, kvFind, cmp_refl]
  | (k', v') :: rest => by
    simp only [kvInsert]
    cases h : Bytes.cmp k k' with
    | lt => simp [kvFind, cmp_refl]
    | eq => simp [kvFind, cmp_refl]
    | gt => simp only [kvFind, h]; exact kvFind_insert_same k u rest

theorem kvFind_insert_other (k1 k2 : Bytes) (hne : k1 ≠ k2) (u : JV) :
    ∀ kvs, kvFind k2 (kvInsert k1 u kvs) = kvFind k2 kvs
  | [] => by
    simp only [kvInsert, kvFind]
    cases h : Bytes.cmp k2 k1 with
    | lt => rfl
    | eq => exact absurd (cmp_eq _ _ h).symm hne
    | gt => rfl
  | (k', v') :: rest => by
    simp only [kvInsert]
    cases h : Bytes.cmp k1 k' with
    | lt =>
      simp only [kvFind]
      cases h2 : Bytes.cmp k2 k1 with
      | lt => simp [cmp_lt_trans _ _ _ h2 h]
      | eq => exact absurd (cmp_eq _ _ h2).symm hne
      | gt => rfl
    | eq =>
      have := cmp_eq _ _ h
      subst this
      simp only [kvFind]
      cases h2 : Bytes.cmp k2 k1 with
      | lt => rfl
      | eq => exact absurd (cmp_eq _ _ h2).symm hne
      | gt => rfl
    | gt =>
      simp only [kvFind]
      cases h2 : Bytes.cmp k2 k' with
      | lt => rfl
      | eq => rfl
      | gt => exact kvFind_insert_other k1 k2 hne u rest

theorem kvInsert_find_self (k : Bytes) (x : JV) : ∀ kvs, kvFind k kvs = some x → kvInsert k x kvs = kvs
  | [], h => by simp [kvFind] at h
  | (k', v') :: rest, h => by
    simp only [kvFind] at h
    simp only [kvInsert]
    cases hc : Bytes.cmp k k' with
    | lt => simp [hc] at h
    | eq =>
      simp only [hc, Option.some.injEq] at h
      rw [cmp_eq _ _ hc, h]
    | gt =>
      simp only [hc] at h
      simp only [kvInsert_find_self k x rest h]

/-- on objects with strictly increasing keys the scan `kvFind` is the map lookup `kvLookup` -/
theorem kvFind_eq_kvLookup (k : Bytes) : ∀ kvs, kvSorted kvs = true → kvFind k kvs = kvLookup k kvs
  | [], _ => rfl
  | [(k', v')], _ => by
    simp only [kvFind, kvLookup]
    cases h : Bytes.cmp k k' with
    | lt =>
      have : ¬ (k == k') = true := by
        intro e; rw [eq_of_beq e, cmp_refl] at h; cases h
      simp [this]
    | eq => simp [cmp_eq _ _ h]
    | gt =>
      have : ¬ (k == k') = true := by
        intro e; rw [eq_of_beq e, cmp_refl] at h; cases h
      simp [this]
  | (k', v') :: (k'', v'') :: rest, hs => by
    simp only [kvSorted, Bool.and_eq_true, Bytes.lt, beq_iff_eq] at hs
    have ih := kvFind_eq_kvLookup k ((k'', v'') :: rest) hs.2
    simp only [kvFind, kvLookup] at ih ⊢
    cases h : Bytes.cmp k k' with
    | lt =>
      have hne : ¬ (k == k') = true := by
        intro e; rw [eq_of_beq e, cmp_refl] at h; cases h
      simp only [hne, if_false, Bool.false_eq_true]
      -- k < k' < k'' : the rest cannot contain k
      have h2 := cmp_lt_trans _ _ _ h hs.1
      simp only [h2] at ih
      exact ih
    | eq => simp [cmp_eq _ _ h]
    | gt =>
      have hne : ¬ (k == k') = true := by
        intro e; rw [eq_of_beq e, cmp_refl] at h; cases h
      simp only [hne, if_false, Bool.false_eq_true]
      exact ih


/-! ### `getpath (setpath v p x) p = x` -/

theorem getD_replicate_append (m : Nat) (u : JV) (xs : List JV) (h : xs.length = m) :
    (xs ++ [u]).getD m JV.null = u := by
  subst h; simp [List.getD]

theorem getpath_setpath_lemma : ∀ (p : Path) (v n w : JV), setpath p v n = some w → getpath p w = some n := by
  intro p
  induction p with
  | nil => intro v n w h; simp only [setpath, Option.some.injEq] at h; subst h; rfl
  | cons e p ih =>
    intro v n w h
    cases e with
    | key k =>
      cases v with
      | null =>
        simp only [setpath, Option.map_eq_some_iff] at h
        obtain ⟨u, hu, rfl⟩ := h
        simp only [getpath, kvFind, cmp_refl, Option.getD_some]
        exact ih _ _ _ hu
      | obj kvs =>
        simp only [setpath, Option.map_eq_some_iff] at h
        obtain ⟨u, hu, rfl⟩ := h
        simp only [getpath, kvFind_insert_same, Option.getD_some]
        exact ih _ _ _ hu
      | bool _ => simp [setpath] at h
      | num _ => simp [setpath] at h
      | str _ => simp [setpath] at h
      | arr _ => simp [setpath] at h
    | idx i =>
      cases v with
      | null =>
        simp only [setpath] at h
        split at h
        · rename_i i' hr
          obtain ⟨h0, h1, _⟩ := resolve_beyond hr
          split at h
          · cases h
          · simp only [Option.map_eq_some_iff] at h
            obtain ⟨u, hu, rfl⟩ := h
            have hres : resolve i (List.replicate i' JV.null ++ [u]).length = .inr i' := by
              have := resolve_nonneg_lt (i := i) (len := (List.replicate i' JV.null ++ [u]).length) h0 (by simp; omega)
              rw [this]; congr 1; omega
            simp only [getpath, hres]
            rw [getD_replicate_append i' u _ (by simp)]
            exact ih _ _ _ hu
        · cases h
      | arr xs =>
        simp only [setpath] at h
        split at h
        · cases h
        · rename_i j hr
          obtain ⟨hj, _⟩ := resolve_inr hr
          simp only [Option.map_eq_some_iff] at h
          obtain ⟨u, hu, rfl⟩ := h
          simp only [getpath, List.length_set, hr]
          have : (xs.set j u).getD j JV.null = u := by simp [List.getD, hj]
          rw [this]
          exact ih _ _ _ hu
        · rename_i i' hr
          obtain ⟨h0, h1, h2⟩ := resolve_beyond hr
          split at h
          · cases h
          · simp only [Option.map_eq_some_iff] at h
            obtain ⟨u, hu, rfl⟩ := h
            have hlen : (xs ++ List.replicate (i' - xs.length) JV.null).length = i' := by simp; omega
            have hres : resolve i (xs ++ List.replicate (i' - xs.length) JV.null ++ [u]).length = .inr i' := by
              have := resolve_nonneg_lt (i := i) (len := (xs ++ List.replicate (i' - xs.length) JV.null ++ [u]).length) h0
                (by simp; omega)
              rw [this]; congr 1; omega
            simp only [getpath, hres]
            rw [getD_replicate_append i' u _ hlen]
            exact ih _ _ _ hu
      | bool _ => simp [setpath] at h
      | num _ => simp [setpath] at h
      | str _ => simp [setpath] at h
      | obj _ => simp [setpath] at h

/-! ### `setpath v p (getpath v p) = v` for the paths of `v` -/

/-- `p` is a path of `v`: every step finds an existing key or element -/
def validPath : Path → JV → Prop
  | [], _ => True
  | .key k :: p, .obj kvs => ∃ x, kvFind k kvs = some x ∧ validPath p x
  | .idx i :: p, .arr xs => ∃ j, resolve i xs.length = .inr j ∧ validPath p (xs.getD j .null)
  | _ :: _, _ => False

theorem setpath_getpath_lemma : ∀ (p : Path) (v : JV), validPath p v →
    ∃ x, getpath p v = some x ∧ setpath p v x = some v := by
  intro p
  induction p with
  | nil => intro v _; exact ⟨v, rfl, rfl⟩
  | cons e p ih =>
    intro v hv
    cases e with
    | key k =>
      cases v with
      | obj kvs =>
        simp only [validPath] at hv
        obtain ⟨x, hx, hp⟩ := hv
        obtain ⟨y, hy1, hy2⟩ := ih x hp
        refine ⟨y, by simp [getpath, hx, hy1], ?_⟩
        simp [setpath, hx, hy2, kvInsert_find_self k x kvs hx]
      | null => simp [validPath] at hv
      | bool _ => simp [validPath] at hv
      | num _ => simp [validPath] at hv
      | str _ => simp [validPath] at hv
      | arr _ => simp [validPath] at hv
    | idx i =>
      cases v with
      | arr xs =>
        simp only [validPath] at hv
        obtain ⟨j, hj, hp⟩ := hv
        obtain ⟨y, hy1, hy2⟩ := ih _ hp
        obtain ⟨hlt, _⟩ := resolve_inr hj
        refine ⟨y, by simp only [getpath, hj]; exact hy1, ?_⟩
        simp only [setpath, hj, hy2, Option.map_some, Option.some.injEq, JV.arr.injEq]
        simp [List.getD, hlt]
      | null => simp [validPath] at hv
      | bool _ => simp [validPath] at hv
      | num _ => simp [validPath] at hv
      | str _ => simp [validPath] at hv
      | obj _ => simp [validPath] at hv

/-! ### a write through `p` does not change what is stored under an independent path `q` -/

/-- the two paths part at some step into different keys, or different non-negative indices -/
def Indep : Path → Path → Prop
  | .key k1 :: p, .key k2 :: q => k1 ≠ k2 ∨ (k1 = k2 ∧ Indep p q)
  | .idx i1 :: p, .idx i2 :: q => (0 ≤ i1 ∧ 0 ≤ i2 ∧ i1 ≠ i2) ∨ (i1 = i2 ∧ Indep p q)
  | _, _ => False

theorem getD_set_ne (xs : List JV) (j j2 : Nat) (u : JV) (h : j ≠ j2) :
    (xs.set j u).getD j2 JV.null = xs.getD j2 JV.null := by
  simp [List.getD, h]

theorem getD_pad (xs : List JV) (m : Nat) (u : JV) (j : Nat) (h1 : xs.length ≤ j) (h2 : j < xs.length + m) :
    (xs ++ List.replicate m JV.null ++ [u]).getD j JV.null = JV.null := by
  simp only [List.getD, List.append_assoc]
  rw [List.getElem?_append_right h1]
  rw [List.getElem?_append_left (by simp; omega)]
  rw [List.getElem?_replicate]
  have : j - xs.length < m := by omega
  simp [this]

theorem getpath_null : ∀ (q : Path), getpath q JV.null = some JV.null := by
  intro q
  induction q with
  | nil => rfl
  | cons e q ih => cases e <;> simpa [getpath] using ih

theorem setpath_other_lemma : ∀ (p q : Path) (v n w : JV), Indep p q → setpath p v n = some w →
    getpath q w = getpath q v := by
  intro p
  induction p with
  | nil => intro q v n w hi; cases q <;> simp [Indep] at hi
  | cons e p ih =>
    intro q v n w hi h
    cases q with
    | nil => cases e <;> simp [Indep] at hi
    | cons e2 q =>
      cases e with
      | key k1 =>
        cases e2 with
        | idx _ => simp [Indep] at hi
        | key k2 =>
          simp only [Indep] at hi
          cases v with
          | null =>
            simp only [setpath, Option.map_eq_some_iff] at h
            obtain ⟨u, hu, rfl⟩ := h
            simp only [getpath, kvFind]
            rcases hi with hne | ⟨rfl, hi⟩
            · cases hc : Bytes.cmp k2 k1 with
              | lt => simp
              | eq => exact absurd (cmp_eq _ _ hc).symm hne
              | gt => simp
            · simp only [cmp_refl, Option.getD_some]
              exact ih q _ n u hi hu
          | obj kvs =>
            simp only [setpath, Option.map_eq_some_iff] at h
            obtain ⟨u, hu, rfl⟩ := h
            simp only [getpath]
            rcases hi with hne | ⟨rfl, hi⟩
            · rw [kvFind_insert_other k1 k2 hne]
            · rw [kvFind_insert_same]
              simp only [Option.getD_some]
              exact ih q _ n u hi hu
          | bool _ => simp [setpath] at h
          | num _ => simp [setpath] at h
          | str _ => simp [setpath] at h
          | arr _ => simp [setpath] at h
      | idx i1 =>
        cases e2 with
        | key _ => simp [Indep] at hi
        | idx i2 =>
          simp only [Indep] at hi
          cases v with
          | null =>
            simp only [setpath] at h
            split at h
            · rename_i i' hr
              obtain ⟨h0, h1, _⟩ := resolve_beyond hr
              split at h
              · cases h
              · simp only [Option.map_eq_some_iff] at h
                obtain ⟨u, hu, rfl⟩ := h
                have hlen : (List.replicate i' JV.null ++ [u]).length = i' + 1 := by simp
                simp only [getpath, hlen]
                rcases hi with ⟨_, h02, hne⟩ | ⟨rfl, hi⟩
                · by_cases hlt : i2 < (i' + 1 : Nat)
                  · rw [resolve_nonneg_lt h02 hlt]
                    have : (List.replicate i' JV.null ++ [u]).getD i2.toNat JV.null = JV.null := by
                      have : i2.toNat < i' := by omega
                      simp [List.getD, List.getElem?_append_left, this]
                    simp only [this]
                  · rw [resolve_nonneg_ge h02 (by omega)]
                · rw [resolve_nonneg_lt h0 (by omega)]
                  have : (List.replicate i' JV.null ++ [u]).getD i1.toNat JV.null = u := by
                    have : i1.toNat = i' := by omega
                    rw [this]; exact getD_replicate_append i' u _ (by simp)
                  simp only [this]
                  rw [ih q _ n u hi hu]
            · cases h
          | arr xs =>
            simp only [setpath] at h
            split at h
            · cases h
            · rename_i j hr
              obtain ⟨hj, hjr⟩ := resolve_inr hr
              simp only [Option.map_eq_some_iff] at h
              obtain ⟨u, hu, rfl⟩ := h
              simp only [getpath, List.length_set]
              rcases hi with ⟨h01, h02, hne⟩ | ⟨rfl, hi⟩
              · cases hr2 : resolve i2 xs.length with
                | neg => rfl
                | beyond _ => rfl
                | inr j2 =>
                  obtain ⟨_, hj2⟩ := resolve_inr hr2
                  have : j ≠ j2 := by omega
                  simp only [getD_set_ne xs j j2 u this]
              · simp only [hr]
                have : (xs.set j u).getD j JV.null = u := by simp [List.getD, hj]
                rw [this]
                exact ih q _ n u hi hu
            · rename_i i' hr
              obtain ⟨h0, h1, h2⟩ := resolve_beyond hr
              split at h
              · cases h
              · simp only [Option.map_eq_some_iff] at h
                obtain ⟨u, hu, rfl⟩ := h
                have hlen0 : (xs ++ List.replicate (i' - xs.length) JV.null).length = i' := by simp; omega
                have hlen : (xs ++ List.replicate (i' - xs.length) JV.null ++ [u]).length = i' + 1 := by simp; omega
                simp only [getpath, hlen]
                rcases hi with ⟨_, h02, hne⟩ | ⟨rfl, hi⟩
                · by_cases hlt : i2 < (i' + 1 : Nat)
                  · rw [resolve_nonneg_lt h02 hlt]
                    by_cases hin : i2 < (xs.length : Int)
                    · rw [resolve_nonneg_lt h02 hin]
                      have : (xs ++ List.replicate (i' - xs.length) JV.null ++ [u]).getD i2.toNat JV.null =
                          xs.getD i2.toNat JV.null := by
                        have : i2.toNat < xs.length := by omega
                        simp [List.getD, List.getElem?_append_left, this]
                      simp only [this]
                    · rw [resolve_nonneg_ge h02 (by omega)]
                      have : (xs ++ List.replicate (i' - xs.length) JV.null ++ [u]).getD i2.toNat JV.null = JV.null :=
                        getD_pad xs _ u _ (by omega) (by omega)
                      simp only [this]
                  · rw [resolve_nonneg_ge h02 (by omega), resolve_nonneg_ge h02 (by omega)]
                · rw [resolve_nonneg_lt h0 (by omega), hr]
                  have : (xs ++ List.replicate (i' - xs.length) JV.null ++ [u]).getD i1.toNat JV.null = u := by
                    have : i1.toNat = i' := by omega
                    rw [this]; exact getD_replicate_append i' u _ hlen0
                  simp only [this]
                  rw [ih q _ n u hi hu]
          | bool _ => simp [setpath] at h
          | num _ => simp [setpath] at h
          | str _ => simp [setpath] at h
          | obj _ => simp [setpath] at h


/-! ### `delpaths`: the result does not depend on the order of the path list -/

theorem subPaths_perm (sel : PE → Bool) {ps ps' : List Path} (h : ps.Perm ps') :
    (subPaths sel ps).Perm (subPaths sel ps') := List.Perm.filterMap _ h

theorem contains_perm {ps ps' : List Path} (p : Path) (h : ps.Perm ps') : ps.contains p = ps'.contains p := by
  rw [Bool.eq_iff_iff]
  simp only [List.contains_iff_mem]
  exact h.mem_iff

mutual
  theorem delv_perm : ∀ (v : JV) (ps ps' : List Path), ps.Perm ps' → delv ps v = delv ps' v
    | .null, _, _, _ => rfl
    | .bool _, _, _, _ => rfl
    | .num _, _, _, _ => rfl
    | .str _, _, _, _ => rfl
    | .arr xs, ps, ps', h => by simp only [delv]; rw [delvA_perm xs ps ps' _ _ h]
    | .obj kvs, ps, ps', h => by simp only [delv]; rw [delvO_perm kvs ps ps' h]
  theorem delvA_perm : ∀ (xs : List JV) (ps ps' : List Path) (len j : Nat), ps.Perm ps' →
      delvA ps len j xs = delvA ps' len j xs
    | [], _, _, _, _, _ => rfl
    | x :: xs, ps, ps', len, j, h => by
      simp only [delvA]
      rw [contains_perm [] (subPaths_perm (selIdx len j) h), delvA_perm xs ps ps' len (j + 1) h,
        delv_perm x _ _ (subPaths_perm (selIdx len j) h)]
  theorem delvO_perm : ∀ (kvs : List (Bytes × JV)) (ps ps' : List Path), ps.Perm ps' →
      delvO ps kvs = delvO ps' kvs
    | [], _, _, _ => rfl
    | (k, x) :: kvs, ps, ps', h => by
      simp only [delvO]
      rw [contains_perm [] (subPaths_perm (selKey k) h), delvO_perm kvs ps ps' h,
        delv_perm x _ _ (subPaths_perm (selKey k) h)]
end

theorem delpaths_perm (v : JV) (ps ps' : List Path) (h : ps.Perm ps') : delpaths ps v = delpaths ps' v := by
  simp only [delpaths, contains_perm [] h, delv_perm v ps ps' h]

end Gojq.Heap

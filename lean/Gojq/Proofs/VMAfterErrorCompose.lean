/-
  C07 ∘ C08: the run-time guard of the "after an error" theorems (Model/LabelShape.lean) discharged
  for code accepted by C08's bytecode checker.

  `SafeVM.Reach P s0` (Proofs/SafeVMRun.lean) is the set of TURNS of a run from `s0`: the first turn
  of the first call, every turn that follows a turn, and the first turn of a call that follows a
  call which ended properly.  The per-opcode preservation lemmas of C08 (`step_inv`, `step2_inv`)
  give the checker's invariants `Inv` / `Inv2` at EVERY such turn (`reach_inv`, `reach_inv12`) — not
  only between calls —, `labelGuard_of_safe_inv` turns `Inv` into the guard at that turn, and an
  induction over `loop` / `history` gives `loopGuard` / `historyGuard`.
-/
import Gojq.Proofs.SafeVM2Run
import Gojq.Proofs.VMAfterErrorSafe
set_option linter.unusedSimpArgs false
set_option linter.unusedVariables false
namespace Gojq.SafeVM
open Gojq Gojq.VM

variable {S : SC} {Ct : Cert}

/-! ## calls that ended properly -/

/-- the first `n` calls of `Next` from `s` ended properly (value, error, `(nil, false)`, context error) -/
def ProperCalls (P : Params) (fuel : Nat) : Nat → St → Prop
  | 0, _ => True
  | n + 1, s => Proper (next P fuel s).1 ∧ ProperCalls P fuel n (next P fuel s).2

theorem after_succ_next (P : Params) (fuel : Nat) : ∀ (k : Nat) (s : St),
    after P fuel (k + 1) s = (next P fuel (after P fuel k s)).2 := by
  intro k
  induction k with
  | zero => intro s; rfl
  | succ k ih => intro s; simp only [after] at ih ⊢; exact ih _

/-- … said with `after`: the call made in the state after `j` calls ended properly, for every `j < n` -/
theorem properCalls_iff (P : Params) (fuel : Nat) : ∀ (n : Nat) (s : St),
    ProperCalls P fuel n s ↔ ∀ j, j < n → Proper (next P fuel (after P fuel j s)).1 := by
  intro n
  induction n with
  | zero => intro s; exact ⟨fun _ j hj => absurd hj (Nat.not_lt_zero _), fun _ => trivial⟩
  | succ n ih =>
    intro s
    simp only [ProperCalls]
    rw [ih]
    constructor
    · intro ⟨h0, hr⟩ j hj
      cases j with
      | zero => exact h0
      | succ j => exact hr j (by omega)
    · intro h
      exact ⟨h 0 (by omega), fun j hj => h (j + 1) (by omega)⟩

/-- … said with `history`: every outcome among the first `n` is proper -/
theorem properCalls_iff_history (P : Params) (fuel : Nat) : ∀ (n : Nat) (s : St),
    ProperCalls P fuel n s ↔ ∀ o ∈ history P fuel n s, Proper o := by
  intro n
  induction n with
  | zero => intro s; simp [ProperCalls, history]
  | succ n ih =>
    intro s
    simp only [ProperCalls, history, List.mem_cons, forall_eq_or_imp]
    rw [ih]

theorem ProperCalls.mono {P : Params} {fuel : Nat} {n m : Nat} {s : St} (h : ProperCalls P fuel n s) (hm : m ≤ n) :
    ProperCalls P fuel m s := by
  rw [properCalls_iff] at h ⊢
  exact fun j hj => h j (by omega)

def properB : Outcome → Bool
  | .value _ | .error _ | .done | .ctxErr => true
  | _ => false

theorem proper_iff (o : Outcome) : Proper o ↔ properB o = true := by
  cases o <;> simp [Proper, properB]

instance (o : Outcome) : Decidable (Proper o) := decidable_of_iff _ (proper_iff o).symm

/-! ## the turns of a run -/

/-- the turns reachable from a turn reachable from `s0` are reachable from `s0` -/
theorem Reach.trans {P : Params} {s0 s1 : St} (h1 : Reach P s0 (entry P s1) s1) {l : L} {s : St}
    (h : Reach P s1 l s) : Reach P s0 l s := by
  induction h with
  | init => exact h1
  | turn _ hs ih => exact ih.turn hs
  | call _ hs hp ih => exact ih.call hs hp

theorem KeysOK.from {P : Params} {s0 s1 : St} (hk : KeysOK P s0) (h1 : Reach P s0 (entry P s1) s1) : KeysOK P s1 :=
  fun l s h => hk l s (h1.trans h)

/-- a call that ends properly leads from a turn of the run to a turn of the run -/
theorem reach_loop {P : Params} {s0 : St} : ∀ (fuel : Nat) (l : L) (s : St), Reach P s0 l s →
    Proper (loop P fuel l s).1 → Reach P s0 (entry P (loop P fuel l s).2) (loop P fuel l s).2 := by
  intro fuel
  induction fuel with
  | zero =>
    intro l s hR
    rw [loop]
    split
    · rename_i o s' hs
      exact fun hp => hR.call hs hp
    · exact fun h => h.elim
  | succ n ih =>
    intro l s hR
    rw [loop]
    split
    · rename_i o s' hs
      exact fun hp => hR.call hs hp
    · rename_i l' s' hs
      exact ih l' s' (hR.turn hs)

/-- the first turn of the call after `n` proper calls is a turn of the run -/
theorem reach_after {P : Params} {s0 : St} (fuel : Nat) : ∀ (n : Nat) (s : St), Reach P s0 (entry P s) s →
    ProperCalls P fuel n s → Reach P s0 (entry P (after P fuel n s)) (after P fuel n s) := by
  intro n
  induction n with
  | zero => intro s hR _; exact hR
  | succ n ih =>
    intro s hR hp
    simp only [after]
    exact ih _ (reach_loop fuel _ s hR hp.1) hp.2

/-- LAYER 1 AT EVERY TURN.  For a verified code the checker's invariant `Inv` holds at every turn of
    the run — inside calls as well as between them. -/
theorem reach_inv (C : Checked S) {P : Params} (hS : S.code = P.code.map shape)
    (hext : ∀ k, ExtOK (P.ext k)) {s0 : St} (hkeys : KeysOK P s0) (hB : Between S P s0)
    {l : L} {s : St} (hR : Reach P s0 l s) : Inv S l s.env := by
  induction hR with
  | init => exact hB
  | turn hR hs ih =>
    have := step_inv C hS hext ih (hkeys _ _ hR)
    rw [hs] at this
    exact this
  | call hR hs hp ih =>
    have := step_inv C hS hext ih (hkeys _ _ hR)
    rw [hs] at this
    exact this.2 hp

/-- BOTH LAYERS AT EVERY TURN. -/
theorem reach_inv12 (C : Checked S) (C2 : Checked2 S Ct) {P : Params} (hS : S.code = P.code.map shape)
    (hext : ∀ k, ExtOK (P.ext k)) {s0 : St} (hkeys : KeysOK P s0) (hB : Between S P s0) (hB2 : Between2 S Ct P s0)
    {l : L} {s : St} (hR : Reach P s0 l s) : Inv S l s.env ∧ Inv2 S Ct l s.env := by
  induction hR with
  | init => exact ⟨hB, hB2⟩
  | turn hR hs ih =>
    have t1 := step_inv C hS hext ih.1 (hkeys _ _ hR)
    have t2 := step2_inv C C2 hS hext ih.1 ih.2 (hkeys _ _ hR)
    rw [hs] at t1 t2
    exact ⟨t1, t2⟩
  | call hR hs hp ih =>
    have t1 := step_inv C hS hext ih.1 (hkeys _ _ hR)
    have t2 := step2_inv C C2 hS hext ih.1 ih.2 (hkeys _ _ hR)
    rw [hs] at t1 t2
    exact ⟨t1.2 hp, t2.2 hp⟩

/-- … hence no turn of the run panics -/
theorem reach_step_noPanic (C : Checked S) (C2 : Checked2 S Ct) {P : Params} (hS : S.code = P.code.map shape)
    (hext : ∀ k, ExtOK (P.ext k)) {s0 : St} (hkeys : KeysOK P s0) (hB : Between S P s0) (hB2 : Between2 S Ct P s0)
    {l : L} {s : St} (hR : Reach P s0 l s) (site : Site) (st : St) : step P l s ≠ .fin (.panic site) st := by
  obtain ⟨i1, i2⟩ := reach_inv12 C C2 hS hext hkeys hB hB2 hR
  have t1 := step_inv C hS hext i1 (hkeys _ _ hR)
  have t2 := step2_inv C C2 hS hext i1 i2 (hkeys _ _ hR)
  intro hs
  rw [hs] at t1 t2
  exact noPanic_of t1.1 t2.1

/-! ## the guard -/

/-- the guard holds at every turn of a call that starts at a turn of the run (whatever the fuel) -/
theorem loopGuard_of_reach_inv (C : Checked S) {P : Params} (hS : S.code = P.code.map shape)
    (hext : ∀ k, ExtOK (P.ext k)) {s0 : St} (hkeys : KeysOK P s0) (hB : Between S P s0) :
    ∀ (fuel : Nat) (l : L) (s : St), Reach P s0 l s → loopGuard P fuel l s = true := by
  intro fuel
  induction fuel with
  | zero =>
    intro l s hR
    rw [loopGuard_zero, labelGuard_of_safe_inv C P.code hS (reach_inv C hS hext hkeys hB hR)]
    cases step P l s <;> rfl
  | succ n ih =>
    intro l s hR
    rw [loopGuard_succ, labelGuard_of_safe_inv C P.code hS (reach_inv C hS hext hkeys hB hR)]
    cases hs : step P l s with
    | fin o st => rfl
    | cont l' s' => simp only [Bool.true_and]; exact ih l' s' (hR.turn hs)

/-- the guard holds at every turn of `n + 1` calls when the first `n` of them ended properly -/
theorem historyGuard_of_properCalls (C : Checked S) {P : Params} (hS : S.code = P.code.map shape)
    (hext : ∀ k, ExtOK (P.ext k)) {s0 : St} (hkeys : KeysOK P s0) (hB : Between S P s0) (fuel : Nat) :
    ∀ (n : Nat) (s : St), Reach P s0 (entry P s) s → ProperCalls P fuel n s →
      historyGuard P fuel (n + 1) s = true := by
  intro n
  induction n with
  | zero =>
    intro s hR _
    simp only [historyGuard, Bool.and_true]
    exact loopGuard_of_reach_inv C hS hext hkeys hB fuel _ s hR
  | succ n ih =>
    intro s hR hp
    rw [historyGuard, Bool.and_eq_true]
    exact ⟨loopGuard_of_reach_inv C hS hext hkeys hB fuel _ s hR, ih _ (reach_loop fuel _ s hR hp.1) hp.2⟩

/-! ## another oracle on the same code -/

theorem entry_code {P Q : Params} (hcode : Q.code = P.code) (s : St) : entry Q s = entry P s := by
  simp only [entry, hcode]

theorem Between.code {P Q : Params} (hcode : Q.code = P.code) {s : St} (h : Between S P s) : Between S Q s := by
  unfold Between at h ⊢; rw [entry_code hcode]; exact h

theorem Between2.code {P Q : Params} (hcode : Q.code = P.code) {s : St} (h : Between2 S Ct P s) : Between2 S Ct Q s := by
  unfold Between2 at h ⊢; rw [entry_code hcode]; exact h

/-! ## `KeysOK` decided on the code -/

/-- not a call of `_index` / `getpath` -/
def noKeyNative : Instr → Bool
  | .callNative .index _ | .callNative .getpath _ => false
  | _ => true

theorem noKeyNative_spec {ins : Instr} (h : noKeyNative ins = true) (n : Int) :
    ins ≠ .callNative .index n ∧ ins ≠ .callNative .getpath n := by
  constructor <;> (intro heq; subst heq; simp [noKeyNative] at h)

/-- an outcome whose tag is 1 is an error (to exhibit the hypothesis `next … = (.error e, s')` on
    concrete runs by evaluation) -/
theorem error_of_tag {r : Outcome × St} (h : r.1.tag = 1) : ∃ e s', r = (.error e, s') := by
  obtain ⟨o, s⟩ := r
  cases o <;> simp [Outcome.tag] at h
  exact ⟨_, _, rfl⟩

/-! ## `KeysOK` decided on a concrete run that ends -/

/-- `keyOK` as a Boolean -/
def keyOKb (ins : Instr) (stk : List V) (x : ExtRec) : Bool :=
  match ins, x.call with
  | .callNative .index _, some (.val _) =>
    (match stk with
     | _ :: _ :: a1 :: _ => notNullV a1
     | _ => false)
  | .callNative .getpath _, some (.val _) =>
    (match stk with
     | _ :: .jv (.arr ps) :: _ => ps.all fun p => match p with | .null => false | _ => true
     | _ => false)
  | _, _ => true

theorem keyOK_of_b {ins : Instr} {stk : List V} {x : ExtRec} (h : keyOKb ins stk x = true) : keyOK ins stk x := by
  unfold keyOK
  unfold keyOKb at h
  split
  · rename_i n w hc
    simp only [hc] at h
    split at h
    · rename_i x0 a0 a1 r
      exact ⟨x0, a0, a1, r, rfl, notNullV_ne h⟩
    · cases h
  · rename_i n w hc
    simp only [hc] at h
    split at h
    · rename_i x0 ps r
      refine ⟨x0, ps, r, rfl, fun hmem => ?_⟩
      have := List.all_eq_true.mp h _ hmem
      simp at this
    · cases h
  · trivial

/-- the turn that follows a turn, across calls (whatever the outcome of a call) -/
def succTurn (P : Params) (t : L × St) : L × St :=
  match step P t.1 t.2 with
  | .cont l' s' => (l', s')
  | .fin _ s' => (entry P s', s')

/-- the `j`-th turn after `t` -/
def turnFrom (P : Params) : Nat → L × St → L × St
  | 0, t => t
  | j + 1, t => turnFrom P j (succTurn P t)

theorem turnFrom_succ (P : Params) : ∀ (j : Nat) (t : L × St),
    turnFrom P (j + 1) t = succTurn P (turnFrom P j t) := by
  intro j
  induction j with
  | zero => intro t; rfl
  | succ j ih => intro t; rw [turnFrom, ih]; rfl

/-- every turn of the run is one of the turns `turnFrom` enumerates -/
theorem reach_turnFrom {P : Params} {s0 : St} {l : L} {s : St} (h : Reach P s0 l s) :
    ∃ j, turnFrom P j (entry P s0, s0) = (l, s) := by
  induction h with
  | init => exact ⟨0, rfl⟩
  | turn _ hs ih =>
    obtain ⟨j, hj⟩ := ih
    exact ⟨j + 1, by rw [turnFrom_succ, hj]; simp only [succTurn, hs]⟩
  | call _ hs _ ih =>
    obtain ⟨j, hj⟩ := ih
    exact ⟨j + 1, by rw [turnFrom_succ, hj]; simp only [succTurn, hs]⟩

/-- a turn of an exhausted iterator: past the end, no fork, no error -/
def TermT (P : Params) (t : L × St) : Prop :=
  (P.code.size : Int) ≤ t.1.pc ∧ t.2.env.forks = [] ∧ t.1.err = none

theorem TermT.succ {P : Params} {t : L × St} (h : TermT P t) : TermT P (succTurn P t) := by
  obtain ⟨h1, h2, h3⟩ := h
  have hst : step P t.1 t.2 = .fin .done (t.2.save P.code.size) := by
    unfold step
    rw [if_neg (by omega)]
    unfold unwind
    simp only [h2, finish, h3]
  unfold succTurn
  rw [hst]
  exact ⟨by simp [entry, St.save], by simp [St.save, h2], rfl⟩

theorem TermT.keys {P : Params} {t : L × St} (h : TermT P t) :
    keyOK (P.code.getD t.1.pc.toNat .bad) (stackList t.2.env.stack) (P.ext t.2.polls) := by
  have hbad : P.code.getD t.1.pc.toNat .bad = .bad := by
    have : ¬ t.1.pc.toNat < P.code.size := by have := h.1; omega
    simp [Array.getD, this]
  rw [hbad]
  unfold keyOK
  split
  · rename_i hi _; cases hi
  · rename_i hi _; cases hi
  · trivial

/-- check `keyOK` on `k` turns from `t`, then that the turn reached is one of an exhausted iterator -/
def keysRun (P : Params) : Nat → L × St → Bool
  | 0, t => decide ((P.code.size : Int) ≤ t.1.pc) && t.2.env.forks.isEmpty && t.1.err.isNone
  | k + 1, t =>
    keyOKb (P.code.getD t.1.pc.toNat .bad) (stackList t.2.env.stack) (P.ext t.2.polls) && keysRun P k (succTurn P t)

theorem keysRun_sound (P : Params) : ∀ (k : Nat) (t : L × St), keysRun P k t = true → ∀ j,
    keyOK (P.code.getD (turnFrom P j t).1.pc.toNat .bad) (stackList (turnFrom P j t).2.env.stack)
      (P.ext (turnFrom P j t).2.polls) := by
  intro k
  induction k with
  | zero =>
    intro t h
    simp only [keysRun, Bool.and_eq_true, decide_eq_true_eq, List.isEmpty_iff, Option.isNone_iff_eq_none] at h
    have hT : TermT P t := ⟨h.1.1, h.1.2, h.2⟩
    have : ∀ j t, TermT P t → TermT P (turnFrom P j t) := by
      intro j
      induction j with
      | zero => intro t ht; exact ht
      | succ j ih => intro t ht; exact ih _ ht.succ
    exact fun j => (this j t hT).keys
  | succ k ih =>
    intro t h j
    simp only [keysRun, Bool.and_eq_true] at h
    cases j with
    | zero => exact keyOK_of_b h.1
    | succ j => exact ih _ h.2 j

/-- `KeysOK` for a concrete run that ends within `k` turns: decided by evaluation -/
theorem keysOK_of_run (P : Params) (s0 : St) (k : Nat) (h : keysRun P k (entry P s0, s0) = true) : KeysOK P s0 := by
  intro l s hR
  obtain ⟨j, hj⟩ := reach_turnFrom hR
  have := keysRun_sound P k _ h j
  rw [hj] at this
  exact this

/-- `SafeHist2` read pointwise -/
theorem SafeHist2.get' : ∀ {hs : List Outcome}, SafeHist2 hs → ∀ (k : Nat) (hk : k < hs.length),
    (∀ (j : Nat) (hj : j < k), Proper (hs[j]'(Nat.lt_trans hj hk))) → NoPanic hs[k]
  | [], _, k, hk, _ => by simp at hk
  | o :: rest, h, 0, _, _ => h.1
  | o :: rest, h, k + 1, hk, hp => by
    have h0 : Proper o := hp 0 (Nat.succ_pos k)
    have := SafeHist2.get' (h.2 h0) k (by simpa using hk) (fun j hj => by
      have := hp (j + 1) (by omega)
      simpa using this)
    simpa using this

end Gojq.SafeVM

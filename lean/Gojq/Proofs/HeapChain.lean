/-
  Helper lemmas, part 2: `allocator.release`, tree-level `getpath`, and the invariant that lets the
  updates of one `_modify` reduction be chained (C02 item 4).
  Core Lean only.
-/
import Gojq.Proofs.Heap
namespace Gojq.Heap
open Gojq

/-! ### `release` -/

mutual
  theorem release_sub : ∀ (t : T) (A : List Nat), ∀ a ∈ release A t, a ∈ A
    | .leaf _, A => by simp [release]
    | .hole, A => by simp [release]
    | .node id _ _ ks, A => by
      simp only [release]
      split
      · intro a ha
        exact (List.mem_filter.mp (releaseK_sub ks _ a ha)).1
      · intro a ha; exact ha
  theorem releaseK_sub : ∀ (ks : Kids) (A : List Nat), ∀ a ∈ releaseK A ks, a ∈ A
    | [], A => by simp [releaseK]
    | (_, t) :: ks, A => by
      intro a ha
      simp only [releaseK] at ha
      exact release_sub t A a (releaseK_sub ks _ a ha)
end

mutual
  theorem release_keep : ∀ (t : T) (A : List Nat) (a : Nat), a ∈ A → a ∉ t.ids → a ∈ release A t
    | .leaf _, A, a, h, _ => by simpa [release] using h
    | .hole, A, a, h, _ => by simpa [release] using h
    | .node id _ _ ks, A, a, h, hn => by
      simp only [T.ids, List.mem_cons, not_or] at hn
      simp only [release]
      split
      · exact releaseK_keep ks _ a (List.mem_filter.mpr ⟨h, by simpa using hn.1⟩) hn.2
      · exact h
  theorem releaseK_keep : ∀ (ks : Kids) (A : List Nat) (a : Nat), a ∈ A → a ∉ idsK ks → a ∈ releaseK A ks
    | [], A, a, h, _ => by simpa [releaseK] using h
    | (_, t) :: ks, A, a, h, hn => by
      simp only [idsK, List.mem_append, not_or] at hn
      simp only [releaseK]
      exact releaseK_keep ks _ a (release_keep t A a h hn.1) hn.2
end

theorem release_of_disjoint (A : List Nat) (t : T) (h : ∀ a ∈ t.ids, a ∉ A) : release A t = A := by
  cases t with
  | leaf s => rfl
  | hole => rfl
  | node id o c ks =>
    simp only [release]
    have : id ∉ A := h id (by simp [T.ids])
    simp [this]

mutual
  /-- after `release x` no label of `x` is owned, provided the owned part of `x` is top-closed and
      owned labels are unique in `x` -/
  theorem release_est : ∀ (t : T) (A : List Nat), tc A t → (∀ a ∈ A, t.ids.count a ≤ 1) →
      ∀ a ∈ t.ids, a ∉ release A t
    | .leaf _, A, _, _ => by simp [T.ids]
    | .hole, A, _, _ => by simp [T.ids]
    | .node id _ _ ks, A, ht, hu => by
      simp only [tc] at ht
      simp only [release]
      split
      · rename_i hin
        have hid : id ∉ idsK ks := by
          have := hu id hin
          simp only [T.ids, List.count_cons, beq_self_eq_true, if_true] at this
          exact List.count_eq_zero.mp (by omega)
        have hag : ∀ j ∈ idsK ks, (j ∈ A ↔ j ∈ A.filter (· ≠ id)) := by
          intro j hj
          simp only [List.mem_filter, ne_eq, decide_eq_true_eq]
          exact ⟨fun h => ⟨h, fun e => hid (e ▸ hj)⟩, fun h => h.1⟩
        have hu' : ∀ a ∈ A.filter (· ≠ id), (idsK ks).count a ≤ 1 := by
          intro a ha
          have := hu a (List.mem_filter.mp ha).1
          simp only [T.ids, List.count_cons] at this
          omega
        intro a ha
        simp only [T.ids, List.mem_cons] at ha
        rcases ha with rfl | ha
        · intro hr
          have := List.mem_filter.mp (releaseK_sub ks _ a hr)
          simp at this
        · exact releaseK_est ks _ (tcK_congr A _ ks hag (ht.1 hin)) hu' a ha
      · rename_i hnin
        intro a ha
        simp only [T.ids, List.mem_cons] at ha
        rcases ha with rfl | ha
        · exact hnin
        · exact ht.2 hnin a ha
  theorem releaseK_est : ∀ (ks : Kids) (A : List Nat), tcK A ks → (∀ a ∈ A, (idsK ks).count a ≤ 1) →
      ∀ a ∈ idsK ks, a ∉ releaseK A ks
    | [], A, _, _ => by simp [idsK]
    | (_, t) :: ks, A, ht, hu => by
      simp only [tcK] at ht
      simp only [releaseK]
      have hut : ∀ a ∈ A, t.ids.count a ≤ 1 := by
        intro a ha; have := hu a ha; simp only [idsK, List.count_append] at this; omega
      have hag : ∀ j ∈ idsK ks, (j ∈ A ↔ j ∈ release A t) := by
        intro j hj
        refine ⟨fun h => release_keep t A j h ?_, release_sub t A j⟩
        have := hu j h
        simp only [idsK, List.count_append] at this
        have := count_pos_of_mem hj
        exact List.count_eq_zero.mp (by omega)
      have hu' : ∀ a ∈ release A t, (idsK ks).count a ≤ 1 := by
        intro a ha
        have := hu a (release_sub t A a ha)
        simp only [idsK, List.count_append] at this
        omega
      intro a ha
      simp only [idsK, List.mem_append] at ha
      rcases ha with ha | ha
      · intro hr
        exact release_est t A ht.1 hut a ha (releaseK_sub ks _ a hr)
      · exact releaseK_est ks _ (tcK_congr A _ ks hag ht.2) hu' a ha
end

/-! ### tree-level `getpath` -/

theorem getp_step (e : PE) (p : Path) (v x : T) (h : getp (e :: p) v = some x) :
    ∃ ch, getp p ch = some x ∧
      (ch = T.null ∨ ∃ id o c pre k post, v = .node id o c (pre ++ (k, ch) :: post)) := by
  cases e with
  | key k =>
    cases v with
    | hole => simp [getp] at h
    | leaf s =>
      cases s <;> simp only [getp, reduceCtorEq] at h
      exact ⟨T.null, h, Or.inl rfl⟩
    | node id ob c ks =>
      cases ob with
      | false => simp [getp] at h
      | true =>
        simp only [getp] at h
        rcases hs : splitKey k ks with ⟨pre, ox, post⟩
        simp only [hs] at h
        cases ox with
        | none => exact ⟨T.null, h, Or.inl rfl⟩
        | some y =>
          refine ⟨y, h, Or.inr ⟨id, true, c, pre, k, post, ?_⟩⟩
          rw [splitKey_found k ks pre post y hs]
  | idx i =>
    cases v with
    | hole => simp [getp] at h
    | leaf s =>
      cases s <;> simp only [getp, reduceCtorEq] at h
      exact ⟨T.null, h, Or.inl rfl⟩
    | node id ob c ks =>
      cases ob with
      | true => simp [getp] at h
      | false =>
        simp only [getp] at h
        split at h
        · split at h
          · rename_i r hs
            obtain ⟨pre, y, post⟩ := r
            obtain ⟨k, hks, _⟩ := splitIdx_eq _ ks pre post y hs
            exact ⟨y, h, Or.inr ⟨id, false, c, pre, k, post, by rw [hks]⟩⟩
          · exact ⟨T.null, h, Or.inl rfl⟩
        · exact ⟨T.null, h, Or.inl rfl⟩

theorem getp_null : ∀ (p : Path) (x : T), getp p T.null = some x → x = T.null := by
  intro p
  induction p with
  | nil => intro x h; simp only [getp, Option.some.injEq] at h; exact h.symm
  | cons e p ih =>
    intro x h
    cases e <;> (simp only [getp, T.null] at h; exact ih x h)

theorem getp_count : ∀ (p : Path) (v x : T), getp p v = some x → ∀ a, x.ids.count a ≤ v.ids.count a := by
  intro p
  induction p with
  | nil => intro v x h a; simp only [getp, Option.some.injEq] at h; subst h; exact Nat.le_refl _
  | cons e p ih =>
    intro v x h a
    obtain ⟨ch, hch, hcase⟩ := getp_step e p v x h
    have := ih ch x hch a
    rcases hcase with rfl | ⟨id, o, c, pre, k, post, rfl⟩
    · simp only [T.null, T.ids, List.count_nil] at this; omega
    · rw [ids_node_plug]; simp only [List.count_cons, List.count_append]; omega

theorem getp_tc (A : List Nat) : ∀ (p : Path) (v x : T), getp p v = some x → tc A v → tc A x := by
  intro p
  induction p with
  | nil => intro v x h ht; simp only [getp, Option.some.injEq] at h; subst h; exact ht
  | cons e p ih =>
    intro v x h ht
    obtain ⟨ch, hch, hcase⟩ := getp_step e p v x h
    rcases hcase with rfl | ⟨id, o, c, pre, k, post, rfl⟩
    · exact ih _ x hch (tc_null A)
    · exact ih _ x hch (tc_kid ht (k, ch) (by simp))

theorem getp_abs : ∀ (p : Path) (v x : T), getp p v = some x → getpath p (abs v) = some (abs x) := by
  intro p
  induction p with
  | nil => intro v x h; simp only [getp, Option.some.injEq] at h; subst h; rfl
  | cons e p ih =>
    intro v x h
    cases e with
    | key k =>
      cases v with
      | hole => simp [getp] at h
      | leaf s =>
        cases s <;> simp only [getp, reduceCtorEq] at h
        simpa [abs, Sc.toJV, getpath, T.null] using ih _ x h
      | node id ob c ks =>
        cases ob with
        | false => simp [getp] at h
        | true =>
          simp only [getp] at h
          simp only [abs, getpath, (splitKey_abs JV.null k ks).1, getD_map_abs]
          exact ih _ x h
    | idx i =>
      cases v with
      | hole => simp [getp] at h
      | leaf s =>
        cases s <;> simp only [getp, reduceCtorEq] at h
        simpa [abs, Sc.toJV, getpath, T.null] using ih _ x h
      | node id ob c ks =>
        cases ob with
        | true => simp [getp] at h
        | false =>
          simp only [getp] at h
          simp only [abs, getpath, absA_length]
          split at h
          · rename_i j hr
            split at h
            · rename_i r hs
              obtain ⟨pre, y, post⟩ := r
              rw [(splitIdx_abs JV.null j ks pre post y hs).1]
              exact ih _ x h
            · rename_i hs
              have hlen := splitIdx_none j ks hs
              have : (absA ks).getD j JV.null = JV.null := by
                simp [List.getD, absA_length, hlen]
              rw [this]
              simpa [abs, Sc.toJV, T.null] using ih _ x h
          · rename_i hr
            have := ih _ x h
            simp only [T.null, abs, Sc.toJV] at this
            exact this

/-- releasing the subtree at `p` keeps the owned part of the whole value top-closed -/
theorem release_tc (A : List Nat) : ∀ (p : Path) (v x : T), getp p v = some x → tc A v → Uniq A v →
    tc (release A x) v := by
  intro p
  induction p with
  | nil =>
    intro v x h ht hu
    simp only [getp, Option.some.injEq] at h; subst h
    exact tc_of_disjoint _ _ (release_est v A ht hu)
  | cons e p ih =>
    intro v x h ht hu
    obtain ⟨ch, hch, hcase⟩ := getp_step e p v x h
    rcases hcase with rfl | ⟨id, o, c, pre, k, post, rfl⟩
    · rw [getp_null p x hch]; simpa [release, T.null] using ht
    · have hxc := getp_count p ch x hch
      have hroot : ∀ a, (T.node id o c (pre ++ (k, ch) :: post)).ids.count a =
          (if id == a then 1 else 0) + ((idsK pre).count a + ch.ids.count a + (idsK post).count a) := by
        intro a; rw [ids_node_plug]; simp only [List.count_cons, List.count_append]; omega
      have huch : Uniq A ch := fun a ha => by have := hu a ha; have := hroot a; omega
      by_cases hin : id ∈ A
      · have htK := tc_kid ht
        have hidx : id ∉ x.ids := by
          have h1 := hu id hin
          have h2 := hroot id
          simp only [beq_self_eq_true, if_true] at h2
          have := hxc id
          exact List.count_eq_zero.mp (by omega)
        have hkeep : id ∈ release A x := release_keep x A id hin hidx
        -- siblings: their owned labels do not occur in `x`
        have sib : ∀ y : Bytes × T, (∀ a, y.2.ids.count a + ch.ids.count a ≤
            (idsK pre).count a + ch.ids.count a + (idsK post).count a) → tc A y.2 → tc (release A x) y.2 := by
          intro y hy hty
          refine tc_congr A _ y.2 ?_ hty
          intro j hj
          refine ⟨fun hA => release_keep x A j hA ?_, release_sub x A j⟩
          have h1 := hu j hA
          have h2 := hroot j
          have h3 := hy j
          have h4 := count_pos_of_mem hj
          have h5 := hxc j
          exact List.count_eq_zero.mp (by omega)
        have cntmem : ∀ (l : Kids) (y : Bytes × T), y ∈ l → ∀ a, y.2.ids.count a ≤ (idsK l).count a := by
          intro l
          induction l with
          | nil => intro y hy; cases hy
          | cons z zs ihl =>
            obtain ⟨kz, tz⟩ := z
            intro y hy a
            simp only [idsK, List.count_append]
            rcases List.mem_cons.mp hy with rfl | hy
            · simp only []; omega
            · have := ihl y hy a; omega
        simp only [tc]
        refine ⟨fun _ => ?_, fun hnin => absurd hkeep hnin⟩
        rw [tcK_iff]
        intro y hy
        simp only [List.mem_append, List.mem_cons] at hy
        rcases hy with hy | rfl | hy
        · exact sib y (fun a => by have := cntmem pre y hy a; omega) (htK y (by simp [hy]))
        · exact ih ch x hch (htK (k, ch) (by simp)) huch
        · exact sib y (fun a => by have := cntmem post y hy a; omega) (htK y (by simp [hy]))
      · -- nothing below a cell that is not owned is owned: `release` does nothing
        have hdis : ∀ a ∈ x.ids, a ∉ A := by
          intro a ha
          simp only [tc] at ht
          apply ht.2 hin a
          have := hxc a
          have := count_pos_of_mem ha
          simp only [idsK_append, idsK]
          exact List.count_pos_iff.mp (by simp only [List.count_append]; omega)
        rw [release_of_disjoint A x hdis]
        exact ht

/-! ### the invariant of one `_modify` reduction -/

/-- owned labels are unique in the current value, the owned part is top-closed, and the counter is
    above every label in use -/
structure Inv (A : List Nat) (f : Nat) (v : T) : Prop where
  uniq : Uniq A v
  top : tc A v
  hv : ∀ j ∈ v.ids, j < f
  hA : ∀ a ∈ A, a < f

/-- label discipline of the update query: its output is built from parts of its input and from
    containers of its own, whose labels it draws from the counter -/
def QOK (q : T → Nat → T × Nat) : Prop :=
  ∀ x f, f ≤ (q x f).2 ∧ ∀ j ∈ (q x f).1.ids, j ∈ x.ids ∨ (f ≤ j ∧ j < (q x f).2)

theorem modifyStep_sound (q : T → Nat → T × Nat) (hq : QOK q) (v : T) (A : List Nat) (f : Nat) (p : Path)
    (v' : T) (A' : List Nat) (f' : Nat) (log : Log)
    (h : modifyStep q (v, A, f) p = some (v', A', f', log)) (inv : Inv A f v) :
    Inv A' f' v' ∧ (∀ e ∈ log, cons e.1 e.2 v') ∧ (∀ e ∈ log, e.1 ∈ A) ∧
    ∃ x, getp p v = some x ∧ setpath p (abs v) (abs (q x f).1) = some (abs v') := by
  simp only [modifyStep, getpRelease] at h
  cases hx : getp p v with
  | none => simp [hx] at h
  | some x =>
    simp only [hx, Option.map_some] at h
    obtain ⟨hqf, hqids⟩ := hq x f
    have hxc := getp_count p v x hx
    have hxv : ∀ j ∈ x.ids, j < f := fun j hj =>
      inv.hv j (List.count_pos_iff.mp (by have := hxc j; have := count_pos_of_mem hj; omega))
    have hux : ∀ a ∈ A, x.ids.count a ≤ 1 := fun a ha => by have := inv.uniq a ha; have := hxc a; omega
    have hest := release_est x A (getp_tc A p v x hx inv.top) hux
    have hsub := release_sub x A
    -- hypotheses of the `upd` lemmas for the released allocator and the advanced counter
    have hu1 : Uniq (release A x) v := fun a ha => inv.uniq a (hsub a ha)
    have hnA : ∀ a ∈ release A x, a ∉ (q x f).1.ids := by
      intro a ha hn
      rcases hqids a hn with h1 | h1
      · exact hest a h1 ha
      · have := inv.hA a (hsub a ha); omega
    have hv2 : ∀ j ∈ v.ids, j < (q x f).2 := fun j hj => by have := inv.hv j hj; omega
    have hn2 : ∀ j ∈ (q x f).1.ids, j < (q x f).2 := by
      intro j hj
      rcases hqids j hj with h1 | h1
      · have := hxv j h1; omega
      · exact h1.2
    have hA2 : ∀ a ∈ release A x, a < (q x f).2 := fun a ha => by have := inv.hA a (hsub a ha); omega
    have htc := release_tc A p v x hx inv.top inv.uniq
    obtain ⟨hf, hA1, hAA1, hub, hcnt, hfresh, hlog⟩ := upd_book p v _ _ _ v' A' f' log h hv2 hn2 hA2
    refine ⟨⟨upd_uniq p v _ _ _ v' A' f' log h hu1 hnA hv2 hn2 hA2,
             upd_tc p v _ _ _ v' A' f' log h htc hu1 hnA hv2 hn2 hA2, hub, ?_⟩,
            upd_cons p v _ _ _ v' A' f' log h hu1 hnA hv2 hn2 hA2,
            fun e he => hsub _ (hlog e he).1,
            x, rfl, upd_abs p v _ _ _ _ h⟩
    intro a ha
    rcases hA1 a ha with h1 | h1
    · have := hA2 a h1; omega
    · exact h1.2


/-! ### write confinement without any hypothesis on the labels (C05.1) -/

/-- every cell written in place by `upd` was registered in the allocator before the call or allocated
    by the call, and so is every cell registered afterwards -/
theorem upd_confined : ∀ (p : Path) (v n : T) (A : List Nat) (f : Nat) v' A' f' log,
    upd A f p v n = some (v', A', f', log) →
    f ≤ f' ∧ (∀ a ∈ A', a ∈ A ∨ (f ≤ a ∧ a < f')) ∧ (∀ e ∈ log, e.1 ∈ A ∨ (f ≤ e.1 ∧ e.1 < f')) := by
  intro p
  induction p with
  | nil =>
    intro v n A f v' A' f' log h
    simp only [upd, Option.some.injEq, Prod.mk.injEq] at h
    obtain ⟨rfl, rfl, rfl, rfl⟩ := h
    exact ⟨Nat.le_refl _, fun a h => Or.inl h, by simp⟩
  | cons e p ih =>
    intro v n A f v' A' f' log h
    obtain ⟨cell, o, fo, u, A1, f1, log1, he, hu, hcase⟩ := upd_step A f e p v n v' A' f' log h
    obtain ⟨hf, h2, h3⟩ := ih fo.child n A f u A1 f1 log1 hu
    rcases hcase with ⟨id, c, rfl, hin, rfl, rfl, rfl, rfl⟩ | ⟨c', A2, rfl, rfl, rfl, rfl, hA2⟩
    · refine ⟨hf, h2, ?_⟩
      intro e' he'
      simp only [List.mem_append, List.mem_singleton] at he'
      rcases he' with he' | rfl
      · exact h3 e' he'
      · exact h2 _ hin
    · have hA2sub : ∀ a ∈ A2, a ∈ A1 := by
        rcases hA2 with ⟨hEq, _⟩ | ⟨id, c, _, _, hEq⟩
        · rw [hEq]; exact fun a h => h
        · rw [hEq]; exact fun a h => (List.mem_filter.mp h).1
      refine ⟨by omega, ?_, ?_⟩
      · intro a ha
        rcases List.mem_cons.mp ha with rfl | ha
        · exact Or.inr ⟨hf, by omega⟩
        · rcases h2 a (hA2sub a ha) with h | h
          · exact Or.inl h
          · exact Or.inr ⟨h.1, by omega⟩
      · intro e' he'
        rcases h3 e' he' with h | h
        · exact Or.inl h
        · exact Or.inr ⟨h.1, by omega⟩

/-- the same for the marking pass of `delpaths` -/
theorem mark_confined : ∀ (p : Path) (v : T) (A : List Nat) (f : Nat) v' A' f' log,
    mark A f p v = some (v', A', f', log) →
    f ≤ f' ∧ (∀ a ∈ A, a ∈ A') ∧ (∀ a ∈ A', a ∈ A ∨ (f ≤ a ∧ a < f')) ∧ (∀ e ∈ log, e.1 ∈ A') := by
  intro p
  induction p with
  | nil =>
    intro v A f v' A' f' log h
    simp only [mark, Option.some.injEq, Prod.mk.injEq] at h
    obtain ⟨rfl, rfl, rfl, rfl⟩ := h
    exact ⟨Nat.le_refl _, fun a h => h, fun a h => Or.inl h, by simp⟩
  | cons e p ih =>
    intro v A f v' A' f' log h
    simp only [mark] at h
    split at h
    · cases h
    · simp only [Option.some.injEq, Prod.mk.injEq] at h
      obtain ⟨rfl, rfl, rfl, rfl⟩ := h
      exact ⟨Nat.le_refl _, fun a h => h, fun a h => Or.inl h, by simp⟩
    · rename_i id o c cCopy pre key child post _
      split at h
      · cases h
      · rename_i u A1 f1 log1 hu
        obtain ⟨hf, h1, h2, h3⟩ := ih child A f u A1 f1 log1 hu
        split at h
        · rename_i hin
          simp only [Option.some.injEq, Prod.mk.injEq] at h
          obtain ⟨rfl, rfl, rfl, rfl⟩ := h
          refine ⟨hf, h1, h2, ?_⟩
          intro e' he'
          simp only [List.mem_append, List.mem_singleton] at he'
          rcases he' with he' | rfl
          · exact h3 e' he'
          · exact hin
        · simp only [Option.some.injEq, Prod.mk.injEq] at h
          obtain ⟨rfl, rfl, rfl, rfl⟩ := h
          refine ⟨by omega, fun a ha => List.mem_cons_of_mem _ (h1 a ha), ?_, fun e' he' => List.mem_cons_of_mem _ (h3 e' he')⟩
          intro a ha
          rcases List.mem_cons.mp ha with rfl | ha
          · exact Or.inr ⟨hf, by omega⟩
          · rcases h2 a ha with h | h
            · exact Or.inl h
            · exact Or.inr ⟨h.1, by omega⟩

theorem markAll_confined : ∀ (ps : List Path) (v : T) (A : List Nat) (f : Nat) (log0 : Log) v' A' f' log,
    markAll ps (v, A, f, log0) = some (v', A', f', log) → (∀ e ∈ log0, e.1 ∈ A) →
    f ≤ f' ∧ (∀ a ∈ A, a ∈ A') ∧ (∀ a ∈ A', a ∈ A ∨ (f ≤ a ∧ a < f')) ∧ (∀ e ∈ log, e.1 ∈ A') := by
  intro ps
  induction ps with
  | nil =>
    intro v A f log0 v' A' f' log h h0
    simp only [markAll, Option.some.injEq, Prod.mk.injEq] at h
    obtain ⟨rfl, rfl, rfl, rfl⟩ := h
    exact ⟨Nat.le_refl _, fun a h => h, fun a h => Or.inl h, h0⟩
  | cons p ps ih =>
    intro v A f log0 v' A' f' log h h0
    simp only [markAll] at h
    split at h
    · cases h
    · rename_i v1 A1 f1 log1 hm
      obtain ⟨hf, h1, h2, h3⟩ := mark_confined p v A f v1 A1 f1 log1 hm
      have h0' : ∀ e ∈ log0 ++ log1, e.1 ∈ A1 := by
        intro e' he'
        rcases List.mem_append.mp he' with he' | he'
        · exact h1 _ (h0 e' he')
        · exact h3 e' he'
      obtain ⟨hf', g1, g2, g3⟩ := ih v1 A1 f1 (log0 ++ log1) v' A' f' log h h0'
      refine ⟨by omega, fun a ha => g1 a (h1 a ha), ?_, g3⟩
      intro a ha
      rcases g2 a ha with h | h
      · rcases h2 a h with h' | h'
        · exact Or.inl h'
        · exact Or.inr ⟨h'.1, by omega⟩
      · exact Or.inr ⟨by omega, h.2⟩

mutual
  /-- `deleteEmpty` stores only into registered cells -/
  theorem sweepWrites_sub (A : List Nat) : ∀ t : T, ∀ a ∈ sweepWrites A t, a ∈ A
    | .leaf _ => by simp [sweepWrites]
    | .hole => by simp [sweepWrites]
    | .node id _ _ ks => by
      simp only [sweepWrites]
      split
      · rename_i hin
        intro a ha
        rcases List.mem_cons.mp ha with rfl | ha
        · exact hin
        · exact sweepWritesK_sub A ks a ha
      · simp
  theorem sweepWritesK_sub (A : List Nat) : ∀ ks : Kids, ∀ a ∈ sweepWritesK A ks, a ∈ A
    | [] => by simp [sweepWritesK]
    | (_, t) :: ks => by
      intro a ha
      simp only [sweepWritesK, List.mem_append] at ha
      rcases ha with ha | ha
      · exact sweepWrites_sub A t a ha
      · exact sweepWritesK_sub A ks a ha
end

/-! ### the exact replay `observe` is the identity on an up-to-date snapshot -/

theorem consK_mem {id : Nat} {new ks : Kids} (h : consK id new ks) : ∀ x ∈ ks, cons id new x.2 := by
  induction ks with
  | nil => intro x hx; cases hx
  | cons y ys ih =>
    obtain ⟨k, t⟩ := y
    simp only [consK] at h
    intro x hx
    rcases List.mem_cons.mp hx with rfl | hx
    · exact h.1
    · exact ih h.2 x hx

theorem lastWrite_getD (log : Log) (id : Nat) (ks : Kids) (h : ∀ e ∈ log, e.1 = id → e.2 = ks) :
    (lastWrite log id).getD ks = ks := by
  unfold lastWrite
  suffices ∀ (acc : Option Kids), acc.getD ks = ks →
      (log.foldl (fun acc e => if e.1 = id then some e.2 else acc) acc).getD ks = ks from this none rfl
  induction log with
  | nil => intro acc ha; exact ha
  | cons e es ih =>
    intro acc ha
    simp only [List.foldl_cons]
    apply ih (fun e' he' => h e' (List.mem_cons_of_mem _ he'))
    split
    · rename_i heq
      simp [h e (by simp) heq]
    · exact ha

theorem observe_id (log : Log) : ∀ (fuel : Nat) (t : T), (∀ e ∈ log, cons e.1 e.2 t) → observe log fuel t = t := by
  intro fuel
  induction fuel with
  | zero => intro t _; cases t <;> rfl
  | succ fuel ih =>
    intro t h
    cases t with
    | leaf s => rfl
    | hole => rfl
    | node cid o c ks =>
      simp only [observe]
      have hl : (lastWrite log cid).getD ks = ks :=
        lastWrite_getD log cid ks (fun e he heq => ((h e he).1 heq.symm).symm)
      rw [hl]
      have : ks.map (fun x => (x.1, observe log fuel x.2)) = ks.map id := by
        apply List.map_congr_left
        intro x hx
        have : observe log fuel x.2 = x.2 := ih x.2 (fun e he => consK_mem (h e he).2 x hx)
        simp [this]
      rw [this, List.map_id]


/-! ### the whole reduction -/

theorem modifyStep_range (q : T → Nat → T × Nat) (hq : QOK q) (v : T) (A : List Nat) (f : Nat) (p : Path)
    (v' : T) (A' : List Nat) (f' : Nat) (log : Log)
    (h : modifyStep q (v, A, f) p = some (v', A', f', log)) :
    f ≤ f' ∧ (∀ a ∈ A', a ∈ A ∨ (f ≤ a ∧ a < f')) := by
  simp only [modifyStep, getpRelease] at h
  cases hx : getp p v with
  | none => simp [hx] at h
  | some x =>
    simp only [hx, Option.map_some] at h
    obtain ⟨hqf, _⟩ := hq x f
    obtain ⟨hf, h2, h3⟩ := upd_confined p v _ _ _ v' A' f' log h
    refine ⟨by omega, ?_⟩
    intro a ha
    rcases h2 a ha with h | h
    · exact Or.inl (release_sub x A a h)
    · exact Or.inr ⟨by omega, h.2⟩

/-- The reduction of `_modify` over a list of key/index paths, under the invariant: it computes the
    defining reduction on values, re-establishes the invariant, and every cell it ever writes in place
    was registered by THIS reduction or was registered at its start. -/
theorem modifyAll_sound (q : T → Nat → T × Nat) (qv : JV → JV) (hq : QOK q)
    (habs : ∀ x f, abs (q x f).1 = qv (abs x)) :
    ∀ (ps : List Path) (v : T) (A : List Nat) (f : Nat) (r : T × List Nat × Nat),
      Inv A f v → modifyAll q ps (v, A, f) = some r →
      modifyV qv ps (abs v) = some (abs r.1) ∧ Inv r.2.1 r.2.2 r.1 ∧ f ≤ r.2.2 ∧
      (∀ a ∈ r.2.1, a ∈ A ∨ (f ≤ a ∧ a < r.2.2)) := by
  intro ps
  induction ps with
  | nil =>
    intro v A f r inv h
    simp only [modifyAll, Option.some.injEq] at h
    subst h
    exact ⟨rfl, inv, Nat.le_refl _, fun a ha => Or.inl ha⟩
  | cons p ps ih =>
    intro v A f r inv h
    simp only [modifyAll] at h
    split at h
    · cases h
    · rename_i v' A' f' log hs
      obtain ⟨inv', hcons, _, x, hx, hset⟩ := modifyStep_sound q hq v A f p v' A' f' log hs inv
      obtain ⟨hf, hrange⟩ := modifyStep_range q hq v A f p v' A' f' log hs
      rw [applyLog_id log v' hcons] at h
      obtain ⟨g1, g2, g3, g4⟩ := ih v' A' f' r inv' h
      refine ⟨?_, g2, by omega, ?_⟩
      · simp only [modifyV, getp_abs p v x hx, ← habs x f, hset]
        exact g1
      · intro a ha
        rcases g4 a ha with h1 | h1
        · rcases hrange a h1 with h2 | h2
          · exact Or.inl h2
          · exact Or.inr ⟨h2.1, by omega⟩
        · exact Or.inr ⟨by omega, h1.2⟩


/-- the label part of `modifyAll_sound`, for an arbitrary update query -/
theorem modifyAll_inv (q : T → Nat → T × Nat) (hq : QOK q) :
    ∀ (ps : List Path) (v : T) (A : List Nat) (f : Nat) (r : T × List Nat × Nat),
      Inv A f v → modifyAll q ps (v, A, f) = some r →
      Inv r.2.1 r.2.2 r.1 ∧ f ≤ r.2.2 ∧ (∀ a ∈ r.2.1, a ∈ A ∨ (f ≤ a ∧ a < r.2.2)) := by
  intro ps
  induction ps with
  | nil =>
    intro v A f r inv h
    simp only [modifyAll, Option.some.injEq] at h
    subst h
    exact ⟨inv, Nat.le_refl _, fun a ha => Or.inl ha⟩
  | cons p ps ih =>
    intro v A f r inv h
    simp only [modifyAll] at h
    split at h
    · cases h
    · rename_i v' A' f' log hs
      obtain ⟨inv', hcons, _, _⟩ := modifyStep_sound q hq v A f p v' A' f' log hs inv
      obtain ⟨hf, hrange⟩ := modifyStep_range q hq v A f p v' A' f' log hs
      rw [applyLog_id log v' hcons] at h
      obtain ⟨g2, g3, g4⟩ := ih v' A' f' r inv' h
      refine ⟨g2, by omega, ?_⟩
      intro a ha
      rcases g4 a ha with h1 | h1
      · rcases hrange a h1 with h2 | h2
        · exact Or.inl h2
        · exact Or.inr ⟨h2.1, by omega⟩
      · exact Or.inr ⟨by omega, h1.2⟩

theorem inv_empty (v : T) (f : Nat) (hv : ∀ j ∈ v.ids, j < f) : Inv [] f v where
  uniq := by intro a ha; simp at ha
  top := tc_of_disjoint _ _ (by intro a _ h; simp at h)
  hv := hv
  hA := by intro a ha; simp at ha


/-! ### registered cells are live (the premise that makes fresh labels a faithful model of addresses) -/

/-- after `upd` (with `a.free`, abb84a0), a registered label that does not occur in the result was
    registered before the call and either was dead already or sat in the subtree that was replaced -/
theorem upd_live : ∀ (p : Path) (v n : T) (A : List Nat) (f : Nat) v' A' f' log,
    upd A f p v n = some (v', A', f', log) →
    ∀ a ∈ A', a ∉ v'.ids → a ∈ A ∧ (a ∉ v.ids ∨ a ∈ (subE p v).ids) := by
  intro p
  induction p with
  | nil =>
    intro v n A f v' A' f' log h a ha _
    simp only [upd, Option.some.injEq, Prod.mk.injEq] at h
    obtain ⟨rfl, rfl, rfl, rfl⟩ := h
    refine ⟨ha, ?_⟩
    by_cases hm : a ∈ v.ids
    · exact Or.inr (by simpa [subE] using hm)
    · exact Or.inl hm
  | cons e p ih =>
    intro v n A f v' A' f' log h a ha hnot
    obtain ⟨cell, o, fo, u, A1, f1, log1, he, hu, hcase⟩ := upd_step A f e p v n v' A' f' log h
    have hids := enter_ids e v cell o fo he
    have hsub : subE (e :: p) v = subE p fo.child := by simp only [subE, he]
    rw [hsub]
    rcases hcase with ⟨id, c, rfl, hin, rfl, rfl, rfl, rfl⟩ | ⟨c', A2, rfl, rfl, rfl, rfl, hA2⟩
    · rw [ids_node_plug] at hnot
      simp only [List.mem_cons, List.mem_append, not_or] at hnot
      obtain ⟨h0, ⟨h1, h2⟩, h3⟩ := hnot
      obtain ⟨g1, g2⟩ := ih fo.child n A f u _ _ _ hu a ha h2
      refine ⟨g1, ?_⟩
      rcases g2 with g2 | g2
      · left
        rw [hids]
        simp only [cellIds_some, List.mem_append, List.mem_singleton, not_or]
        exact ⟨h0, ⟨h1, g2⟩, h3⟩
      · exact Or.inr g2
    · rw [ids_node_plug] at hnot
      simp only [List.mem_cons, List.mem_append, not_or] at hnot
      obtain ⟨h0, ⟨h1, h2⟩, h3⟩ := hnot
      rcases List.mem_cons.mp ha with rfl | ha2
      · exact absurd rfl h0
      · have haA1 : a ∈ A1 := by
          rcases hA2 with ⟨hEq, _⟩ | ⟨id, c, _, _, hEq⟩
          · rw [hEq] at ha2; exact ha2
          · rw [hEq] at ha2; exact (List.mem_filter.mp ha2).1
        obtain ⟨g1, g2⟩ := ih fo.child n A f u A1 f1 _ hu a haA1 h2
        refine ⟨g1, ?_⟩
        rcases g2 with g2 | g2
        · left
          rw [hids]
          simp only [List.mem_append, not_or]
          refine ⟨?_, ⟨h1, g2⟩, h3⟩
          -- `a` is not the cell that was copied: that one is not registered any more
          intro hc
          cases hcell : cell with
          | none => rw [hcell] at hc; simp at hc
          | some ic =>
            obtain ⟨id, c⟩ := ic
            rw [hcell] at hc
            simp only [cellIds_some, List.mem_singleton] at hc
            subst hc
            rcases hA2 with ⟨_, hnin⟩ | ⟨id', c'', hc', _, hEq⟩
            · exact hnin a c hcell haA1
            · rw [hcell] at hc'
              simp only [Option.some.injEq, Prod.mk.injEq] at hc'
              obtain ⟨rfl, rfl⟩ := hc'
              rw [hEq] at ha2
              have := (List.mem_filter.mp ha2).2
              simp at this
        · exact Or.inr g2

/-- when `upd` and tree-level `getpath` both succeed on `p`, the replaced subtree is what `getpath` found -/
theorem subE_eq_getp : ∀ (p : Path) (v x : T), getp p v = some x →
    ∀ n A f r, upd A f p v n = some r → subE p v = x := by
  intro p
  induction p with
  | nil => intro v x h n A f r _; simp only [getp, Option.some.injEq] at h; simpa [subE] using h
  | cons e p ih =>
    intro v x h n A f r hu
    obtain ⟨v', A', f', log⟩ := r
    obtain ⟨cell, o, fo, u, A1, f1, log1, he, hu', _⟩ := upd_step A f e p v n v' A' f' log hu
    simp only [subE, he]
    refine ih fo.child x ?_ n A f _ hu'
    -- `enter` and `getp` take the same child
    cases e with
    | key k =>
      cases v with
      | hole => simp [enter] at he
      | leaf s =>
        cases s <;> simp only [enter, Option.some.injEq, Prod.mk.injEq, reduceCtorEq] at he
        obtain ⟨_, _, rfl⟩ := he
        simpa [getp] using h
      | node id ob c ks =>
        cases ob with
        | false => simp [enter] at he
        | true =>
          simp only [enter, Option.some.injEq, Prod.mk.injEq] at he
          obtain ⟨_, _, rfl⟩ := he
          simpa [getp] using h
    | idx i =>
      cases v with
      | hole => simp [enter] at he
      | leaf s =>
        cases s <;> simp only [enter, reduceCtorEq] at he
        split at he
        · split at he
          · cases he
          · simp only [Option.some.injEq, Prod.mk.injEq] at he
            obtain ⟨_, _, rfl⟩ := he
            simpa [getp] using h
        · cases he
      | node id ob c ks =>
        cases ob with
        | true => simp [enter] at he
        | false =>
          simp only [enter] at he
          simp only [getp] at h
          split at he
          · cases he
          · rename_i j hr
            simp only [Option.map_eq_some_iff] at he
            obtain ⟨⟨pre, y, post⟩, hs, h2⟩ := he
            simp only [Prod.mk.injEq] at h2
            obtain ⟨_, _, rfl⟩ := h2
            simpa [hr, hs] using h
          · rename_i i' hr
            split at he
            · cases he
            · simp only [Option.some.injEq, Prod.mk.injEq] at he
              obtain ⟨_, _, rfl⟩ := he
              simpa [hr] using h

/-- **Registered cells are live**, for one iteration of `_modify`: if every registered label occurs in
    the value before the iteration, every registered label occurs in the value after it. -/
theorem modifyStep_live (q : T → Nat → T × Nat) (v : T) (A : List Nat) (f : Nat) (p : Path)
    (v' : T) (A' : List Nat) (f' : Nat) (log : Log)
    (h : modifyStep q (v, A, f) p = some (v', A', f', log)) (inv : Inv A f v)
    (hlive : ∀ a ∈ A, a ∈ v.ids) : ∀ a ∈ A', a ∈ v'.ids := by
  simp only [modifyStep, getpRelease] at h
  cases hx : getp p v with
  | none => simp [hx] at h
  | some x =>
    simp only [hx, Option.map_some] at h
    intro a ha
    apply Classical.byContradiction
    intro hnot
    obtain ⟨g1, g2⟩ := upd_live p v _ _ _ v' A' f' log h a ha hnot
    have hsubE := subE_eq_getp p v x hx _ _ _ _ h
    have hxc := getp_count p v x hx
    have hux : ∀ a ∈ A, x.ids.count a ≤ 1 := fun a ha => by have := inv.uniq a ha; have := hxc a; omega
    rcases g2 with g2 | g2
    · exact g2 (hlive a (release_sub x A a g1))
    · rw [hsubE] at g2
      exact release_est x A (getp_tc A p v x hx inv.top) hux a g2 g1

/-- … and for the whole reduction started with an empty allocator -/
theorem modifyAll_live (q : T → Nat → T × Nat) (hq : QOK q) :
    ∀ (ps : List Path) (v : T) (A : List Nat) (f : Nat) (r : T × List Nat × Nat),
      Inv A f v → (∀ a ∈ A, a ∈ v.ids) → modifyAll q ps (v, A, f) = some r → ∀ a ∈ r.2.1, a ∈ r.1.ids := by
  intro ps
  induction ps with
  | nil =>
    intro v A f r _ hl h
    simp only [modifyAll, Option.some.injEq] at h
    subst h
    exact hl
  | cons p ps ih =>
    intro v A f r inv hl h
    simp only [modifyAll] at h
    split at h
    · cases h
    · rename_i v' A' f' log hs
      obtain ⟨inv', hcons, _, _⟩ := modifyStep_sound q hq v A f p v' A' f' log hs inv
      rw [applyLog_id log v' hcons] at h
      exact ih v' A' f' r inv' (modifyStep_live q v A f p v' A' f' log hs inv hl) h

end Gojq.Heap

/-
  The four rewrites of the peephole pass as statements about `VM.step` itself (poll-indexed oracle,
  poll counter and all): what the original and the rewritten instructions do from the rewritten pc.
-/
import Gojq.Proofs.OptSimJumpLayer
set_option linter.unusedSimpArgs false
set_option linter.unusedVariables false
namespace Gojq.OptVM
open Gojq Gojq.VM

/-- inversion: a turn at a push-like instruction that continues has fallen through with unchanged
    locals, and left the mid-pair relation -/
theorem stepE_pushlike_inv {c : Array Instr} {x : ExtRec} {l l1 : L} {e e' e1 : Env} {a : Instr}
    (h0 : 0 ≤ l.pc) (h1 : l.pc < c.size) (hi : c.getD l.pc.toNat .bad = a) (ha : isPushLike a = true)
    (hR : EnvRel e e') (h : stepE c x l e = .cont l1 e1) :
    l1 = { l with pc := l.pc + 1 } ∧ Mid e1 e' := by
  cases hex : exec a x l e with
  | panic s =>
    obtain ⟨o, ef, h2, _⟩ := stepE_improper (c := c) h0 h1 hi (fun r e' => by rw [hex]; simp)
    rw [h2] at h; cases h
  | stuck w =>
    obtain ⟨o, ef, h2, _⟩ := stepE_improper (c := c) h0 h1 hi (fun r e' => by rw [hex]; simp)
    rw [h2] at h; cases h
  | ok r e2 =>
    obtain ⟨ctl, l'⟩ := r
    obtain ⟨hctl, hl', hm⟩ := pushlike_mid a ha x l hR hex
    subst hctl; subst hl'
    rw [stepE_fall h0 h1 hi hex] at h
    simp at h
    obtain ⟨rfl, rfl⟩ := h
    exact ⟨rfl, hm⟩

theorem toStep_cont_inv {n : Nat} {r : StepE} {l : L} {s : St} (h : r.toStep n = .cont l s) :
    r = .cont l s.env ∧ s.polls = n := by
  cases r with
  | cont l' e' => simp [StepE.toStep] at h; obtain ⟨rfl, rfl⟩ := h; exact ⟨rfl, rfl⟩
  | fin o e' => simp [StepE.toStep] at h

/-- `X ; pop` (X ∈ push, dup, load) against `nop ; nop`, and `X ; const w` against `nop ; push w`,
    on `VM.step`: from related states at the first pc, if the original makes its two turns, so does
    the rewritten code, with the same locals (pc after the pair) and related states; neither
    emits anything in between (all four turns are `cont`) -/
theorem pair_turns (P P' : Params) (i : Nat) (a b b' : Instr)
    (ha : P.code[i]? = some a) (hpl : isPushLike a = true) (hb : P.code[i + 1]? = some b)
    (hbb : PairSecond b b') (hcode : P'.code = (P.code.set! i .nop).set! (i + 1) b')
    (hext : P'.ext = P.ext) (hnc : ∀ k, P.cancelled k = false) (hnc' : ∀ k, P'.cancelled k = false)
    (l : L) (hl : l.pc = i) (s s' : St) (hR : EnvRel s.env s'.env) (hp : s.polls = s'.polls)
    (l1 l2 : L) (s1 s2 : St) (h1 : step P l s = .cont l1 s1) (h2 : step P l1 s1 = .cont l2 s2) :
    ∃ s1' s2', step P' l s' = .cont l1 s1' ∧ step P' l1 s1' = .cont l2 s2' ∧
      l1 = { l with pc := (i : Int) + 1 } ∧ l2 = { l with pc := (i : Int) + 2 } ∧
      EnvRel s2.env s2'.env ∧ s2.polls = s2'.polls := by
  have hi1 : i + 1 < P.code.size := (Array.getElem?_eq_some_iff.mp hb).1
  have hsize : P'.code.size = P.code.size := by rw [hcode, size_set!, size_set!]
  have hgi : P.code.getD i .bad = a := getD_of_getElem? ha
  have hgi1 : P.code.getD (i + 1) .bad = b := getD_of_getElem? hb
  have hgi' : P'.code.getD i .bad = .nop := by
    rw [hcode, getD_set!_ne _ _ _ _ (by omega), getD_set!_eq _ _ _ (by omega)]
  have hgi1' : P'.code.getD (i + 1) .bad = b' := by
    rw [hcode, getD_set!_eq _ _ _ (by rw [size_set!]; exact hi1)]
  have h0 : 0 ≤ l.pc := by omega
  have hlt : l.pc < P.code.size := by omega
  have hti : l.pc.toNat = i := by omega
  -- the first turn
  rw [step_eq_stepE P l s (hnc _)] at h1
  obtain ⟨h1e, h1p⟩ := toStep_cont_inv h1
  obtain ⟨hl1, hm⟩ := stepE_pushlike_inv h0 hlt (by rw [hti]; exact hgi) hpl hR h1e
  have hl1' : l1 = { l with pc := (i : Int) + 1 } := by rw [hl1, hl]
  have hpc1 : l1.pc = (i : Int) + 1 := by rw [hl1']
  have h10 : 0 ≤ l1.pc := by omega
  have h1lt : l1.pc < P.code.size := by omega
  have hti1 : l1.pc.toNat = i + 1 := by omega
  have hs1' : step P' l s' = .cont l1 ⟨s'.env, s'.polls + 1⟩ := by
    rw [step_eq_stepE P' l s' (hnc' _),
      stepE_fall (c := P'.code) h0 (by rw [hsize]; exact hlt) (by rw [hti]; exact hgi') (exec_nop _ _ _)]
    have : (0 ≤ l.pc ∧ l.pc < (P'.code.size : Int)) := ⟨h0, by rw [hsize]; exact hlt⟩
    simp only [this, and_self, if_true, StepE.toStep, hl1]
  -- the second turn
  rw [step_eq_stepE P l1 s1 (hnc _)] at h2
  obtain ⟨h2e, h2p⟩ := toStep_cont_inv h2
  have hin1 : (0 ≤ l1.pc ∧ l1.pc < (P.code.size : Int)) := ⟨h10, h1lt⟩
  have hin1' : (0 ≤ l1.pc ∧ l1.pc < (P'.code.size : Int)) := ⟨h10, by rw [hsize]; exact h1lt⟩
  have hin0 : (0 ≤ l.pc ∧ l.pc < (P.code.size : Int)) := ⟨h0, hlt⟩
  simp only [hin1, and_self, if_true] at h2p
  simp only [hin0, and_self, if_true] at h1p
  rcases hbb with ⟨rfl, rfl⟩ | ⟨w, rfl, rfl⟩
  · obtain ⟨e2, h3, h4⟩ := pop_after_mid (P.ext s1.polls) l1 hm
    rw [stepE_fall h10 h1lt (by rw [hti1]; exact hgi1) h3] at h2e
    simp at h2e
    obtain ⟨hl2, he2⟩ := h2e
    refine ⟨_, ⟨s'.env, s'.polls + 1 + 1⟩, hs1', ?_, hl1', ?_, ?_, ?_⟩
    · rw [step_eq_stepE P' l1 _ (hnc' _),
        stepE_fall (c := P'.code) h10 (by rw [hsize]; exact h1lt) (by rw [hti1]; exact hgi1') (exec_nop _ _ _)]
      simp only [hin1', and_self, if_true, StepE.toStep, hl2]
    · rw [← hl2, hl1']; simp; omega
    · rw [← he2]; exact h4
    · rw [h2p, h1p, hp]
  · obtain ⟨e2, h3, h4⟩ := const_after_mid w (P.ext s1.polls) l1 hm
    rw [stepE_fall h10 h1lt (by rw [hti1]; exact hgi1) h3] at h2e
    simp at h2e
    obtain ⟨hl2, he2⟩ := h2e
    refine ⟨_, ⟨{ s'.env with stack := s'.env.stack.push (.jv w) }, s'.polls + 1 + 1⟩, hs1', ?_, hl1', ?_, ?_, ?_⟩
    · rw [step_eq_stepE P' l1 _ (hnc' _),
        stepE_fall (c := P'.code) h10 (by rw [hsize]; exact h1lt) (by rw [hti1]; exact hgi1') (exec_push w _ _ _)]
      simp only [hin1', and_self, if_true, StepE.toStep, hl2]
    · rw [← hl2, hl1']; simp; omega
    · rw [← he2]; exact h4
    · rw [h2p, h1p, hp]

/-- a `jump` to the next instruction against `nop`: one turn from the SAME state gives the same result -/
theorem jumpnext_turn (P P' : Params) (i : Nat) (hj : P.code[i]? = some (.jump ((i : Int) + 1)))
    (hcode : P'.code = P.code.set! i .nop) (hext : P'.ext = P.ext) (hcan : P'.cancelled = P.cancelled)
    (l : L) (hl : l.pc = i) (s : St) : step P' l s = step P l s := by
  have hi0 : i < P.code.size := (Array.getElem?_eq_some_iff.mp hj).1
  have hsize : P'.code.size = P.code.size := by rw [hcode, size_set!]
  have h0 : 0 ≤ l.pc := by omega
  have hlt : l.pc < P.code.size := by omega
  have hti : l.pc.toNat = i := by omega
  cases hc : P.cancelled s.polls with
  | true =>
    rw [step_cancelled P l s ⟨h0, hlt⟩ hc,
      step_cancelled P' l s ⟨h0, by rw [hsize]; exact hlt⟩ (by rw [hcan]; exact hc)]
    simp [cancelledSt, hsize]
  | false =>
    rw [step_eq_stepE P l s hc, step_eq_stepE P' l s (by rw [hcan]; exact hc), hsize,
      stepE_jump (c := P.code) (ins := .jump ((i : Int) + 1)) h0 hlt (by rw [hti]; exact getD_of_getElem? hj)
        (l' := { l with pc := (i : Int) + 1 }) (e' := s.env) rfl,
      stepE_fall (c := P'.code) h0 (by rw [hsize]; exact hlt)
        (by rw [hti, hcode]; exact getD_set!_eq _ _ _ hi0) (exec_nop _ _ _)]
    rw [hl]

/-- jump threading: a `jump t` / `jumpifnot t` whose target holds `jump u`, against the same opcode
    with operand `u`.  From the SAME state: either the turn does not take the jump (it falls through
    or fails) and both codes give the same result, or the original takes two turns — to `t`, then to
    `u` — where the threaded code takes one, with the same environment -/
theorem thread_turn (P P' : Params) (i : Nat) (j : Instr) (t u : Int) (hj : P.code[i]? = some j)
    (hjt : jumpTgt j = some t) (ht0 : 0 ≤ t) (htj : P.code[t.toNat]? = some (.jump u))
    (hcode : P'.code = P.code.set! i (retarget j u)) (hext : P'.ext = P.ext)
    (hnc : ∀ k, P.cancelled k = false) (hnc' : ∀ k, P'.cancelled k = false)
    (l : L) (hl : l.pc = i) (s : St) :
    step P' l s = step P l s ∨
    ∃ e1, step P l s = .cont { l with pc := t } ⟨e1, s.polls + 1⟩ ∧
      step P { l with pc := t } ⟨e1, s.polls + 1⟩ = .cont { l with pc := u } ⟨e1, s.polls + 2⟩ ∧
      step P' l s = .cont { l with pc := u } ⟨e1, s.polls + 1⟩ := by
  have hi0 : i < P.code.size := (Array.getElem?_eq_some_iff.mp hj).1
  have ht1 : t.toNat < P.code.size := (Array.getElem?_eq_some_iff.mp htj).1
  have hsize : P'.code.size = P.code.size := by rw [hcode, size_set!]
  have h0 : 0 ≤ l.pc := by omega
  have hlt : l.pc < P.code.size := by omega
  have hlt' : l.pc < P'.code.size := by rw [hsize]; exact hlt
  have hti : l.pc.toNat = i := by omega
  have hg : P.code.getD l.pc.toNat .bad = j := by rw [hti]; exact getD_of_getElem? hj
  have hg' : P'.code.getD l.pc.toNat .bad = retarget j u := by rw [hti, hcode]; exact getD_set!_eq _ _ _ hi0
  have hre := exec_retarget hjt u (P.ext s.polls) l s.env
  have hin : (0 ≤ l.pc ∧ l.pc < (P.code.size : Int)) := ⟨h0, hlt⟩
  rw [step_eq_stepE P l s (hnc _), step_eq_stepE P' l s (hnc' _), hsize, hext]
  simp only [hin, and_self, if_true]
  cases hex : exec j (P.ext s.polls) l s.env with
  | panic site =>
    left
    rw [hex] at hre
    unfold stepE
    simp only [hlt, hlt', Int.not_lt.mpr h0, if_true, if_false, hg, hg', hex, hre]
  | stuck why =>
    left
    rw [hex] at hre
    unfold stepE
    simp only [hlt, hlt', Int.not_lt.mpr h0, if_true, if_false, hg, hg', hex, hre]
  | ok r e1 =>
    obtain ⟨ctl, l1⟩ := r
    rw [hex] at hre
    rcases exec_jumplike hjt hex with ⟨rfl, rfl⟩ | ⟨rfl, rfl⟩
    · right
      simp only at hre
      refine ⟨e1, ?_, ?_, ?_⟩
      · rw [stepE_jump h0 hlt hg hex]; rfl
      · have hpt : ({ l with pc := t } : L).pc = t := rfl
        have hint : (0 ≤ ({ l with pc := t } : L).pc ∧ ({ l with pc := t } : L).pc < (P.code.size : Int)) :=
          ⟨ht0, by rw [hpt]; omega⟩
        rw [step_eq_stepE P _ _ (hnc _),
          stepE_jump (c := P.code) (ins := .jump u) (l := { l with pc := t }) (l' := { l with pc := u }) (e' := e1)
            hint.1 hint.2 (by rw [hpt]; exact getD_of_getElem? htj) rfl]
        simp only [hint, and_self, if_true]
        rfl
      · rw [stepE_jump h0 hlt' hg' hre]; rfl
    · left
      simp only at hre
      rw [stepE_fall h0 hlt hg hex, stepE_fall h0 hlt' hg' hre]

end Gojq.OptVM

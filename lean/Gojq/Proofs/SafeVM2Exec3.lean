/-
  C08 (bytecode checker, layer 2): the instructions that call out of the loop, through the calculus
  of Proofs/SafeVM2Quiet.lean and layer 1's result.
-/
import Gojq.Proofs.SafeVM2Quiet
import Gojq.Proofs.SafeVM2Exec2
set_option linter.unusedSimpArgs false
set_option linter.unusedVariables false
namespace Gojq.SafeVM
open Gojq Gojq.VM

variable {S : SC} {Ct : Cert}

theorem RegInv.frF {e e' : Env} {pc : Int} (R : RegInv S Ct e) (h : FrF pc e e') : RegInv S Ct e' := by
  rcases h with h | ⟨f, h1, h2, h3, h4, h5, h6, h7⟩
  · exact R.fr h
  · obtain ⟨s0, s1, s2, s3⟩ := save_facts e.scopes
    have hRg : Rg e'.scopes = Rg e.scopes := by
      rw [h5]; unfold Rg; rw [s2, s3]; omega
    have hd : e'.scopes.data = e.scopes.data := by rw [h5, s1]
    refine ⟨by rw [hRg, hd, h6]; exact R.reg, by rw [hRg, hd, h7]; exact R.o1, by rw [hRg, hd]; exact R.o2, ?_⟩
    intro g hg j sc hj hb
    rw [h1] at hg
    rw [hd] at hb
    simp only [List.mem_cons] at hg
    rcases hg with rfl | hg
    · rw [h3]
      have h41 : g.scopeindex = e.scopes.index := by have := congrArg Prod.fst h4; rw [s0] at this; exact this
      have h42 : g.scopelimit = e.scopes.limit := by have := congrArg Prod.snd h4; rw [s0] at this; exact this
      exact R.o1 j sc (by unfold Rg; rw [h41, h42] at hj; exact hj) hb
    · exact R.o3 g hg j sc hj hb

theorem resumeFrom_get (id : Int) : ∀ (sl : List Kind) (i0 i : Nat) (k : Kind), (resumeFrom Ct id i0 sl)[i]? = some k →
    k ≠ .any → sl[i]? = some k ∧ k = Ct.stabOf (id, ((i0 + i : Nat) : Int))
  | [], _, i, k, h, _ => by simp [resumeFrom] at h
  | k0 :: ks, i0, 0, k, h, hne => by
    simp only [resumeFrom, List.getElem?_cons_zero, Option.some.injEq] at h
    split at h
    · rename_i heq
      subst h
      exact ⟨by simp, by simpa using (beq_iff_eq.mp heq).symm⟩
    · exact absurd h.symm hne
  | k0 :: ks, i0, i + 1, k, h, hne => by
    simp only [resumeFrom, List.getElem?_cons_succ] at h
    have := resumeFrom_get id ks (i0 + 1) i k h hne
    refine ⟨by simpa using this.1, ?_⟩
    have h2 := this.2
    have : i0 + 1 + i = i0 + (i + 1) := by omega
    rw [this] at h2; exact h2

theorem resume_get {id : Int} {sl : List Kind} {i : Nat} {k : Kind} (h : (resume Ct id sl)[i]? = some k) (hne : k ≠ .any) :
    sl[i]? = some k ∧ k = Ct.stabOf (id, (i : Int)) := by
  have := resumeFrom_get (Ct := Ct) id sl 0 i k h hne
  simpa using this

theorem resume_length (id : Int) (sl : List Kind) : (resume Ct id sl).length = sl.length := by
  unfold SafeVM.resume
  generalize 0 = i0
  induction sl generalizing i0 with
  | nil => rfl
  | cons k ks ih => simp [resumeFrom, ih]

theorem SlotCl.resume {d vs} {j : Int} {sc : Scope} {sl : List Kind} (c : SlotCl S Ct d vs j sc sl) (id : Int) :
    SlotCl S Ct d vs j sc (resume Ct id sl) :=
  fun i k hk hne => c i k (resume_get hk hne).1 hne

theorem StableSl.resume (id : Int) (sl : List Kind) : StableSl Ct id (resume Ct id sl) := by
  intro i k hk
  by_cases hne : k = .any
  · exact .inl hne
  · exact .inr (resume_get hk hne).2

/-- the stable part of the current activation's claims -/
theorem Cur.toF {d vs} {a2 : Abs2} {stk : List (Int × V)} {frames : List (Int × Scope)} (c : Cur S Ct d vs a2 stk frames) :
    FCur S Ct d vs a2 frames := by
  obtain ⟨j, sc, rest, h1, h2, h3, _, h5⟩ := c
  exact ⟨j, sc, rest, h1, h2, h3.resume sc.id, h5⟩

theorem FCur.toCur {d vs} {a2 : Abs2} {stk : List (Int × V)} {frames : List (Int × Scope)} {idF : Int}
    (c : FCur S Ct d vs a2 frames) (hid : idOf S a2.fn = some idF) :
    Cur S Ct d vs { a2 with ks := [], sl := resume Ct idF a2.sl } stk frames := by
  obtain ⟨j, sc, rest, h1, h2, h3, h5⟩ := c
  have : sc.id = idF := by rw [hid] at h2; exact (Option.some.inj h2).symm
  subst this
  exact ⟨j, sc, rest, h1, h2, h3, StackCl.nil _, h5⟩

/-- the layer-1 successor of a quiet breaker -/
theorem quiet_succ1 {code tab nvars pc a sh succs}
    (hsh : (∃ n, sh = Shape.object n) ∨ (∃ b, sh = Shape.index b) ∨ (∃ b, sh = Shape.indexarray b) ∨
      (∃ k n, sh = Shape.callNative k n) ∨ sh = Shape.pathend)
    (hst : step1 code tab nvars pc a sh = some succs) : ∃ a', succs = [((pc : Int) + 1, a')] := by
  rcases hsh with ⟨n, rfl⟩ | ⟨b, rfl⟩ | ⟨b, rfl⟩ | ⟨k, n, rfl⟩ | rfl
  all_goals
    simp only [step1] at hst
    split at hst
    · simp only [Option.some.injEq] at hst
      exact ⟨_, hst.symm⟩
    · cases hst

theorem quiet_succ2 {code : Array Shape} {Ct : Cert} {pc : Nat} {a2 : Abs2} {sh : Shape} {succs} {r}
    (hsa : scopeAt code a2.fn = some r)
    (hsh : (∃ n, sh = Shape.object n) ∨ (∃ b, sh = Shape.index b) ∨ (∃ b, sh = Shape.indexarray b) ∨
      (∃ k n, sh = Shape.callNative k n) ∨ sh = Shape.pathend)
    (hst : step2 code Ct pc a2 sh = some succs) : succs = [((pc : Int) + 1, { a2 with ks := [] })] := by
  obtain ⟨idF, nv, na⟩ := r
  rcases hsh with ⟨n, rfl⟩ | ⟨b, rfl⟩ | ⟨b, rfl⟩ | ⟨k, n, rfl⟩ | rfl
  all_goals
    simp only [step2, hsa, Option.some.injEq] at hst
    exact hst.symm

theorem quiet_bt {ins : Instr} {x : ExtRec} {l : L} {e : Env}
    (hsh : (∃ n, shape ins = .object n) ∨ (∃ b, shape ins = .index b) ∨ (∃ b, shape ins = .indexarray b) ∨
      (∃ k n, shape ins = .callNative k n) ∨ shape ins = .pathend) (hb : l.backtrack = true) :
    exec ins x l e = .ok (.brk, l) e := by
  cases ins <;> simp [shape] at hsh <;> simp [exec, exec.execIndex, hb] <;> rfl

/-- layer 2 for a quiet breaker that is not fork-like: `object`, `index`, `indexarray`, native calls, `pathend` -/
theorem exec2_quiet (C : Checked S) (C2 : Checked2 S Ct) {ins : Instr} {x : ExtRec} {l : L} {e : Env} {arr : Bool}
    (hq : QuietF arr l (exec ins x l)) (h1 : WP (exec ins x l) (Post S) e)
    (hnoArr : arr = true → ∀ s, exec ins x l e = .panic s → s ≠ .assertArray)
    (hsh : (∃ n, shape ins = .object n) ∨ (∃ b, shape ins = .index b) ∨ (∃ b, shape ins = .indexarray b) ∨
      (∃ k n, shape ins = .callNative k n) ∨ shape ins = .pathend)
    (hc : codeAt S l.pc = some (shape ins)) (hI1 : Inv S l e) (hI2 : Inv2 S Ct l e) :
    WP2 (exec ins x l) (Post2 S Ct) e := by
  have hiT : trivB (shape ins) = true := by
    rcases hsh with ⟨n, h⟩ | ⟨b, h⟩ | ⟨b, h⟩ | ⟨k, n, h⟩ | h <;> rw [h] <;> rfl
  have hnsc : isScope (shape ins) = false := by
    rcases hsh with ⟨n, h⟩ | ⟨b, h⟩ | ⟨b, h⟩ | ⟨k, n, h⟩ | h <;> rw [h] <;> rfl
  obtain ⟨A, hV, G, R, hF2, hmode⟩ := both_cases hI1 hI2
  have hq' := hq e
  unfold WP at h1
  unfold WP2
  cases hex : exec ins x l e with
  | panic s =>
    rw [hex] at hq'
    have : s ≠ .assertArray := by
      cases harr : arr with
      | false => exact hq'.2.2 harr
      | true => exact hnoArr harr s hex
    cases s <;> first | rfl | exact absurd rfl hq'.1 | exact absurd rfl hq'.2.1 | exact absurd rfl this
  | stuck w => trivial
  | ok r e' =>
    rw [hex] at hq' h1
    obtain ⟨hfrF, hres⟩ := hq'
    obtain ⟨A', hV', _, _, _, hpost⟩ := h1
    obtain ⟨hfrm, hkeys⟩ := view_frF hV hV' hfrF
    have hd : e'.scopes.data = e.scopes.data := by
      rcases hfrF with h | ⟨f, _, _, _, _, h5, _, _⟩
      · rw [h.1]
      · rw [h5]; exact (save_facts _).2.1
    have hv : e'.values = e.values := by
      rcases hfrF with h | ⟨f, _, _, _, _, _, h6, _⟩
      · exact h.2.2.1
      · exact h6
    have hF2' : ForksConf2 S Ct e'.scopes.data e'.values A'.forks := by
      rw [hd, hv, ForksConf2.iff_keys]
      intro k hk
      rcases hkeys with hk' | hk'
      · rw [hk'] at hk; exact ForksConf2.iff_keys.mp hF2 k hk
      · rw [hk'] at hk
        simp only [List.mem_cons] at hk
        rcases hk with rfl | hk
        · exact BConf2.triv hc hiT
        · exact ForksConf2.iff_keys.mp hF2 k hk
    obtain ⟨ctl, l'⟩ := r
    obtain ⟨hctl, hpcr⟩ := hres
    simp only at hctl hpcr hpost
    rcases hctl with hfall | hbrk
    · subst hfall
      simp only at hpost
      rcases hmode with ⟨hb, hM, _⟩ | ⟨hb, hN, hN2⟩
      · exfalso
        rw [quiet_bt hsh hb] at hex
        cases hex
      · obtain ⟨herr, a, succs, ha, hst, hsucc, hpc, hp, hconf⟩ := hN.unpack C hc
        obtain ⟨a2, succs2, idF, nv, na, ha2, hsa, hlen, hst2, hsucc2, _, _, hcur⟩ := hN2.unpack C2 hc
        rw [if_neg (by rw [hnsc]; simp)] at hcur
        obtain ⟨a', rfl⟩ := quiet_succ1 hsh hst
        have := quiet_succ2 hsa hsh hst2
        subst this
        rw [hpc] at hsucc hsucc2
        obtain ⟨i', hci, hns⟩ := succ_code (succ1 hsucc)
        refine ⟨A', hV', R.frF hfrF, hF2', ?_⟩
        refine NMode2.of_succ (succ1 hsucc2) (by simp only; rw [hpcr]) hci hns ?_
        rw [hd, hv, hfrm]
        obtain ⟨j, sc, rest, c1, c2, c3, _, c5⟩ := hcur
        exact ⟨j, sc, rest, c1, c2, c3, StackCl.nil _, c5⟩
    · subst hbrk
      refine ⟨A', hV', R.frF hfrF, hF2', ?_⟩
      intro _ _
      simp only
      rw [hpcr]
      exact BConf2.triv hc hiT

/-- `iter`: entered in either mode; it may push one fork (the rest of the iteration) -/
theorem exec2_iter (C : Checked S) (C2 : Checked2 S Ct) {x : ExtRec} {l : L} {e : Env}
    (h1 : WP (exec .iter x l) (Post S) e)
    (hc : codeAt S l.pc = some .iter) (hI1 : Inv S l e) (hI2 : Inv2 S Ct l e) :
    WP2 (exec .iter x l) (Post2 S Ct) e := by
  obtain ⟨A, hV, G, R, hF2, hmode⟩ := both_cases hI1 hI2
  -- both modes give the stable claims of the annotation at the instruction
  have key : ∃ a a2, annAt S l.pc = some a ∧ ann2At Ct l.pc = some a2 ∧ FCur S Ct e.scopes.data e.values a2 A.frames := by
    rcases hmode with ⟨hb, hM, hM2⟩ | ⟨hb, hN, hN2⟩
    · have hB := hM.conf hc
      unfold BConf at hB; simp only [hc] at hB
      obtain ⟨a, ha, _⟩ := hB
      rcases hM2 with h | h
      · have := codeAt_range hc; omega
      · unfold BConf2 at h; simp only [hc] at h
        obtain ⟨a2, ha2, hf⟩ := h
        exact ⟨a, a2, ha, ha2, hf⟩
    · obtain ⟨herr, a, succs, ha, hst, hsucc, hpc, hp, hconf⟩ := hN.unpack C hc
      obtain ⟨a2, succs2, idF, nv, na, ha2, hsa, hlen, hst2, hsucc2, _, _, hcur⟩ := hN2.unpack C2 hc
      rw [if_neg (by simp [isScope])] at hcur
      exact ⟨a, a2, ha, ha2, hcur.toF⟩
  obtain ⟨a, a2, ha, ha2, hF0⟩ := key
  obtain ⟨_, succs, hst, hsucc, hpc⟩ := C.step l.pc a _ ha hc
  obtain ⟨_, ⟨idF, nv, na, hsa, hlen⟩, succs2, hst2, hsucc2, _⟩ := C2.step l.pc a2 _ ha2 hc
  simp only [step1] at hst
  split at hst
  · simp only [Option.some.injEq] at hst; subst hst; rw [hpc] at hsucc
    simp only [step2, hsa, Option.some.injEq] at hst2; subst hst2; rw [hpc] at hsucc2
    have hq' := quiet_iter x l e
    unfold WP at h1
    unfold WP2
    cases hex : exec .iter x l e with
    | panic s =>
      rw [hex] at hq'
      cases s <;> first | rfl | exact absurd rfl hq'.1 | exact absurd rfl hq'.2.1 | exact absurd rfl (hq'.2.2 rfl)
    | stuck w => trivial
    | ok r e' =>
      rw [hex] at hq' h1
      obtain ⟨hfrF, hres⟩ := hq'
      obtain ⟨A', hV', _, _, _, hpost⟩ := h1
      obtain ⟨hfrm, hkeys⟩ := view_frF hV hV' hfrF
      have hd : e'.scopes.data = e.scopes.data := by
        rcases hfrF with h | ⟨f, _, _, _, _, h5, _, _⟩
        · rw [h.1]
        · rw [h5]; exact (save_facts _).2.1
      have hv : e'.values = e.values := by
        rcases hfrF with h | ⟨f, _, _, _, _, _, h6, _⟩
        · exact h.2.2.1
        · exact h6
      have hBhere : BConf2 S Ct e.scopes.data e.values l.pc A.frames := by
        unfold BConf2; simp only [hc]; exact ⟨a2, ha2, hF0⟩
      have hF2' : ForksConf2 S Ct e'.scopes.data e'.values A'.forks := by
        rw [hd, hv, ForksConf2.iff_keys]
        intro k hk
        rcases hkeys with hk' | hk'
        · rw [hk'] at hk; exact ForksConf2.iff_keys.mp hF2 k hk
        · rw [hk'] at hk
          simp only [List.mem_cons] at hk
          rcases hk with rfl | hk
          · exact hBhere
          · exact ForksConf2.iff_keys.mp hF2 k hk
      obtain ⟨ctl, l'⟩ := r
      obtain ⟨hctl, hpcr⟩ := hres
      simp only at hctl hpcr hpost
      rcases hctl with hfall | hbrk
      · subst hfall
        obtain ⟨i', hci, hns⟩ := succ_code (succ1 hsucc)
        refine ⟨A', hV', R.frF hfrF, hF2', ?_⟩
        refine NMode2.of_succ (succ1 hsucc2) (by simp only; rw [hpcr]) hci hns ?_
        rw [hd, hv, hfrm]
        exact hF0.toCur (idOf_eq hsa)
      · subst hbrk
        refine ⟨A', hV', R.frF hfrF, hF2', ?_⟩
        intro _ _
        simp only
        rw [hpcr, hd, hv, hfrm]
        exact hBhere
  · simp at hst

end Gojq.SafeVM

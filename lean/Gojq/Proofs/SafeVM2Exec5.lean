/-
  C08 (bytecode checker, layer 2): variable instructions — `load`, `store`, `append`, `forklabel`.
-/
import Gojq.Proofs.SafeVM2Frames
set_option linter.unusedSimpArgs false
set_option linter.unusedVariables false
namespace Gojq.SafeVM
open Gojq Gojq.VM

variable {S : SC} {Ct : Cert}

theorem kok_of_g {d vs} {k : Kind} {v : V} {m jt : Int} (h : Good S Ct d vs (.g k v m)) (hm : m ≤ jt - 1) :
    KOK S Ct d vs k v jt := by
  unfold KOK
  cases k with
  | any => trivial
  | arr => exact h.g_mono hm
  | clo => exact h.g_mono hm
  | cloL => cases h

theorem slotOK_inv {tab : List (Int × Nat)} {id i : Int} (h : slotOK tab id i = true) :
    ∃ n, tab.lookup id = some n ∧ 0 ≤ i ∧ i.toNat < n := by
  unfold slotOK at h
  cases hl : tab.lookup id with
  | none => rw [hl] at h; simp at h
  | some n =>
    rw [hl] at h
    simp only [Bool.and_eq_true, decide_eq_true_eq] at h
    exact ⟨n, rfl, h.1, h.2⟩

theorem exec2_load (C : Checked S) (C2 : Checked2 S Ct) {id i : Int} {x : ExtRec} {l : L} {e : Env}
    (hc : codeAt S l.pc = some (.load id i)) (hI1 : Inv S l e) (hI2 : Inv2 S Ct l e) :
    WP2 (exec (.load id i) x l) (Post2 S Ct) e := by
  obtain ⟨hb, A, hV, G, hN, R, hF2, hN2⟩ := both_normal hI1 hI2 hc rfl
  obtain ⟨herr, a, succs, ha, hst, hsucc, hpc, hp, hconf⟩ := hN.unpack C hc
  obtain ⟨a2, succs2, idF, nv, na, ha2, hsa, hlen, hst2, hsucc2, _, _, hcur⟩ := hN2.unpack C2 hc
  simp only [step1] at hst
  split at hst
  · rename_i hslot
    simp only [Option.some.injEq] at hst; subst hst; rw [hpc] at hsucc
    simp only [step2, hsa] at hst2
    split at hst2
    · rename_i hav
      simp only [Option.some.injEq] at hst2; subst hst2; rw [hpc] at hsucc2
      rw [if_neg (by simp [isScope])] at hcur
      obtain ⟨jt, sct, rest, hfr, hid, hslc, hstc, hsusp⟩ := hcur
      have hidF : sct.id = idF := by
        rw [idOf_eq hsa] at hid; exact (Option.some.inj hid).symm
      have hav' : id ∈ Ct.availOf sct.id := by rw [hidF]; simpa using hav
      obtain ⟨xs, p, hchx, hfind, henv, hpj, hpb, hp0⟩ := envIndex_avail hV R hfr hav' i
      obtain ⟨n, hn, hi0, hin⟩ := slotOK_inv hslot
      have hpm := findId_mem hfind
      obtain ⟨_, bp, hbp, hbpv⟩ := blockAt_get hpb
      obtain ⟨hoff0, n', hn', hle⟩ := G.slots _ _ hbp
      rw [hbpv, hpm.2] at hn'
      rw [hn] at hn'
      simp only [Option.some.injEq] at hn'
      subst hn'
      rw [hbpv] at hoff0 hle
      obtain ⟨v, hget, hv⟩ := getValue_spec G (k := p.2.offset + i) (by omega) (by omega)
      simp only [exec]
      apply WP2.step henv
      apply WP2.step hget
      apply WP2.step (push_eq _ _)
      apply WP2.pure
      refine Post2.fall_stack (e := e) (A' := { A with stk := ((e.stack.push v).index, v) :: A.stk }) ⟨rfl, rfl, rfl, rfl⟩
        (hV.push v) rfl rfl R hF2 (succ1 hsucc2) (succ_code (succ1 hsucc)) ?_
      refine ⟨jt, sct, rest, hfr, hid, hslc, hstc.push ?_, hsusp⟩
      -- the value loaded
      have hval : e.values[(p.2.offset + i).toNat]? = some v := by
        unfold getValue at hget
        rw [if_pos (by omega)] at hget
        cases hg : e.values[(p.2.offset + i).toNat]? with
        | none => rw [hg] at hget; simp at hget
        | some v' => rw [hg] at hget; simp at hget; rw [hget]
      simp only
      by_cases hown : id = idF
      · -- a slot of the current frame
        have hp : p = (jt, sct) := by
          unfold findId at hfind
          simp only [List.find?_cons] at hfind
          have : (sct.id == id) = true := by simp [hidF, hown]
          simp only [this] at hfind
          exact (Option.some.inj hfind).symm
        subst hp
        have hbeq : (id == idF) = true := by simp [hown]
        rw [if_pos hbeq, if_pos hi0]
        by_cases hany : kget a2.sl i.toNat = .any
        · rw [hany]; exact trivial
        · have hk : a2.sl[i.toNat]? = some (kget a2.sl i.toNat) := by
            unfold kget at hany ⊢
            cases hg : a2.sl[i.toNat]? with
            | none => simp [List.getD, hg] at hany
            | some k => simp [List.getD, hg]
          have hg := hslc i.toNat _ hk hany
          rw [Int.toNat_of_nonneg hi0] at hg
          obtain ⟨v', _, _, _, _, hv', hgv⟩ := hg.slot_inv
          rw [hval] at hv'
          simp only [Option.some.injEq] at hv'
          subst hv'
          exact kok_of_g hgv (Int.le_refl _)
      · have hbeq : ¬ (id == idF) = true := by simpa using hown
        rw [if_neg hbeq]
        split
        · rename_i hasm
          -- an outer variable the function assumes
          have hxi : (id, i) ∈ Ct.assumeOf sct.id := by rw [hidF]; simpa using hasm
          have hmem := hV.frames_le (jt, sct) (by rw [hfr]; simp)
          have hjR : jt ≤ Rg e.scopes := by have := index_le_Rg e.scopes; omega
          obtain ⟨xs', _, hchx', _, _, hgood⟩ := R.chain hmem.1 hjR hmem.2.2
          have hxs : xs' = xs := hchx'.unique hchx
          subst hxs
          have hfind' : findId xs' id = some p := by
            unfold findId at hfind ⊢
            simp only [List.find?_cons] at hfind
            have : (sct.id == id) = false := by simp [hidF]; exact fun h => hown h.symm
            simpa [this] using hfind
          have hg := hgood (id, i) hxi p hfind'
          obtain ⟨v', _, _, _, _, hv', hgv⟩ := hg.slot_inv
          rw [hval] at hv'
          simp only [Option.some.injEq] at hv'
          subst hv'
          exact kok_of_g hgv (by omega)
        · exact trivial
    · simp at hst2
  · simp at hst

end Gojq.SafeVM

/-
  Helper lemmas for Props/C02Path.lean, part 5: THE INDUCTION.  For every fuel, every function of
  the mutual evaluator `Spec.eval` keeps the path-tracking invariant (`IH`), by induction on the
  fuel: `IH.zero`, one `step_…` lemma per function (each reasoning from that function`s unfolding
  lemma in Proofs/SpecPathUnfold.lean), `IH.succ`, `IH.all`.  No syntactic form is assumed.
  Core Lean only.
-/
import Gojq.Proofs.SpecPathComb
import Gojq.Proofs.SpecPathUnfold
namespace Gojq.C02
open Gojq Gojq.Spec

/-- the induction hypothesis: at fuel `n` every function of the mutual evaluator keeps the
    invariant (one field per function that hands its sub-results' STATES on) -/
structure IH (cfg : Cfg) (W : World) (n : Nat) : Prop where
  eval : ∀ env q s, EnvOK W env → Pre W s → All (Post W s.ctx.isSome) (eval n cfg env q s)
  evalBinNative : ∀ env name l r s, EnvOK W env → Pre W s →
    All (Post W s.ctx.isSome) (evalBinNative n cfg env name l r s)
  evalTerm : ∀ env t s, EnvOK W env → Pre W s → All (Post W s.ctx.isSome) (evalTerm n cfg env t s)
  evalIndex : ∀ env t i s, EnvOK W env → Pre W s → All (Post W s.ctx.isSome) (evalIndex n cfg env t i s)
  evalCore : ∀ env core s, EnvOK W env → Pre W s → All (Post W s.ctx.isSome) (evalCore n cfg env core s)
  evalStr : ∀ env str fmt s, EnvOK W env → Pre W s → All (Post W s.ctx.isSome) (evalStr n cfg env str fmt s)
  evalObject : ∀ env kvs acc s ctx, EnvOK W env → IdOK W s.v s.id → CtxOK W ctx →
    All (Post W ctx.isSome) (evalObject n cfg env kvs acc s ctx)
  evalAlts : ∀ env allPats pats xv xid body s, EnvOK W env → IdOK W xv xid → Pre W s →
    All (Post W s.ctx.isSome) (evalAlts n cfg env allPats pats xv xid body s)
  bindPattern : ∀ env p xv xid ctx, EnvOK W env → IdOK W xv xid →
    AllE (EnvOK W) (bindPattern n cfg env p xv xid ctx)
  evalCall : ∀ env name args s, EnvOK W env → Pre W s → All (Post W s.ctx.isSome) (evalCall n cfg env name args s)
  callDef : ∀ callerEnv fenv params body args s, EnvOK W callerEnv → EnvOK W fenv → Pre W s →
    All (Post W s.ctx.isSome) (callDef n cfg callerEnv fenv params body args s)
  evalAssign : ∀ env l r s, EnvOK W env → Pre W s → All (Post W s.ctx.isSome) (evalAssign n cfg env l r s)

variable {cfg : Cfg} {W : World}

theorem All.ite {Q : St → Prop} {c : Prop} [Decidable c] {a b : Res} (ha : All Q a) (hb : All Q b) :
    All Q (if c then a else b) := by
  split <;> assumption

/-! ### functions that need no induction hypothesis -/

theorem evalFormat_inv (n : Nat) (env : Env) (fmt : String) (s : St) (hs : Pre W s) :
    All (Post W s.ctx.isSome) (evalFormat n cfg env fmt s) := by
  cases n with
  | zero => rw [evalFormat_zero]; exact All.outOfFuel
  | succ n =>
    obtain ⟨name, r, given, h⟩ := evalFormat_succ n cfg env fmt s
    rw [h]
    exact All.nativeRes hs.2 _ _ _

theorem modifyFinish_inv (s : St) (hs : Pre W s) (paths : List (List JV)) (pstop : Stop)
    (folded : Except Stop (JV × List (List JV))) :
    All (Post W s.ctx.isSome) (modifyFinish s paths pstop folded) := by
  unfold modifyFinish
  split
  · exact All.nil _
  · split
    · split
      · refine All.one ?_
        split
        · exact hs.post
        · split
          · exact ⟨IdOK.unknown W _, hs.2, rfl⟩
          · exact Post.resultOf hs.2 _ _
      · exact All.nativeRes hs.2 _ _ _
    · exact All.nil _

theorem evalModify_inv (n : Nat) (env : Env) (l : Query) (f : Query ⊕ (String × JV)) (s : St) (hs : Pre W s) :
    All (Post W s.ctx.isSome) (evalModify n cfg env l f s) := by
  cases n with
  | zero => rw [evalModify_zero]; exact All.outOfFuel
  | succ n =>
    obtain ⟨paths, pstop, folded, h⟩ := evalModify_succ n cfg env l f s
    rw [h]
    exact modifyFinish_inv s hs paths pstop folded

theorem evalArithUpdate_inv (n : Nat) (env : Env) (name : String) (l r : Query) (s : St) (hs : Pre W s) :
    All (Post W s.ctx.isSome) (evalArithUpdate n cfg env name l r s) := by
  cases n with
  | zero => rw [evalArithUpdate_zero]; exact All.outOfFuel
  | succ n =>
    rw [evalArithUpdate_succ]
    exact All.bind (Post.pendInv W _) (All.triv _) (fun x _ => evalModify_inv n env l _ s hs)

/-! ### the base case -/

theorem IH.zero : IH cfg W 0 where
  eval := fun _ _ _ _ _ => All.outOfFuel
  evalBinNative := fun _ _ _ _ _ _ _ => All.outOfFuel
  evalTerm := fun _ _ _ _ _ => All.outOfFuel
  evalIndex := fun _ _ _ _ _ _ => All.outOfFuel
  evalCore := fun _ _ _ _ _ => All.outOfFuel
  evalStr := fun _ _ _ _ _ _ => All.outOfFuel
  evalObject := fun _ _ _ _ _ _ _ _ => All.outOfFuel
  evalAlts := fun _ _ _ _ _ _ _ _ _ _ => All.outOfFuel
  bindPattern := fun _ _ _ _ _ _ _ => AllE.fail _
  evalCall := fun _ _ _ _ _ _ => All.outOfFuel
  callDef := fun _ _ _ _ _ _ _ _ _ => All.outOfFuel
  evalAssign := fun _ _ _ _ _ _ => All.outOfFuel

/-! ### the step, function by function -/

theorem step_eval {n : Nat} (ih : IH cfg W n) (env : Env) (q : Query) (s : St) (he : EnvOK W env) (hs : Pre W s) :
    All (Post W s.ctx.isSome) (eval (n+1) cfg env q s) := by
  cases q with
  | term ds t =>
    rw [eval_term]
    exact ih.evalTerm _ t s (he.defs ds false) hs
  | bind ds src pats body =>
    rw [eval_bind]
    have he' := he.defs (W := W) ds false
    refine All.bind (Post.pendInv W _) (ih.eval _ src _ he' hs.noCtx) ?_
    intro x hx
    exact ih.evalAlts _ pats pats x.v x.id body s he' hx.1 hs
  | binop ds op l r =>
    rw [eval_binop]
    have he' := he.defs (W := W) ds false
    cases op with
    | pipe =>
      refine All.bind (Post.pendInv W _) (ih.eval _ l s he' hs) ?_
      intro x hx
      exact (ih.eval _ r x he' hx.pre).mono (fun y hy => Post.trans hx hy)
    | comma => exact All.append (ih.eval _ l s he' hs) (ih.eval _ r s he' hs)
    | alt =>
      have hl := ih.eval _ l s he' hs
      have hr := ih.eval _ r s he' hs
      have hf : ∀ st, All (Post W s.ctx.isSome)
          ⟨(eval n cfg (env.defs ds) l s).outs.filter fun x => !isFalsy x.v, st⟩ :=
        fun st y hy => hl y (List.mem_filter.mp hy).1
      simp only
      split
      · split
        · exact hr
        · exact hf _
      · split
        · exact All.nil _
        · exact hf _
    | and =>
      refine All.bind (Post.pendInv W _) (All.triv _) ?_
      intro x _
      split
      · exact All.one (Post.computed hs _)
      · exact All.bind (Post.pendInv W _) (All.triv _) (fun y _ => All.one (Post.computed hs _))
    | or =>
      refine All.bind (Post.pendInv W _) (All.triv _) ?_
      intro x _
      split
      · exact All.one (Post.computed hs _)
      · exact All.bind (Post.pendInv W _) (All.triv _) (fun y _ => All.one (Post.computed hs _))
    | add | sub | mul | div | mod | eq | ne | gt | lt | ge | le => exact ih.evalBinNative _ _ l r s he' hs
    | assign => exact ih.evalAssign _ l r s he' hs
    | modify => exact evalModify_inv n _ l _ s hs
    | updAdd | updSub | updMul | updDiv | updMod | updAlt => exact evalArithUpdate_inv n _ _ l r s hs


theorem step_evalBinNative {n : Nat} (ih : IH cfg W n) (env : Env) (name : String) (l r : Query) (s : St)
    (he : EnvOK W env) (hs : Pre W s) :
    All (Post W s.ctx.isSome) (evalBinNative (n+1) cfg env name l r s) := by
  rw [evalBinNative_eq]
  refine All.bind (Post.pendInv W _) (ih.eval _ r s he hs) ?_
  intro y hy
  have hs' : Pre W { s with ctx := y.ctx } := ⟨hs.1, hy.2.1⟩
  refine All.bind (Post.pendInv W _) (ih.eval _ l _ he hs') ?_
  intro x hx
  have hx' : Post W s.ctx.isSome x := Post.trans hy hx
  unfold binApply
  refine All.ite ?_ (All.ite ?_ ?_)
  · exact All.one ⟨hy.1, hx'.2.1, hx'.2.2⟩
  · exact All.one ⟨hx'.1, hx'.2.1, hx'.2.2⟩
  · exact (All.nativeRes hx'.2.1 _ _ _).mono (fun z hz => Post.trans hx' hz)

theorem evalTermRev_inv {n : Nat} (ih : IH cfg W n) (hW : W.Good) (env : Env) (core : TermCore) (s : St)
    (he : EnvOK W env) (hs : Pre W s) (rev : List Suffix) :
    All (Post W s.ctx.isSome) (evalTermRev n cfg env core s rev) := by
  have hiter : ∀ x, Post W s.ctx.isSome x → All (Post W s.ctx.isSome) (iterate x) :=
    fun x hx => (All.iterate hW hx.pre).mono (fun y hy => Post.trans hx hy)
  cases rev with
  | nil => exact ih.evalCore _ core s he hs
  | cons last revInit =>
    cases last with
    | iter =>
      exact All.bind (Post.pendInv W _) (ih.evalTerm _ _ s he hs) hiter
    | index i => exact ih.evalIndex _ _ i s he hs
    | optional =>
      simp only [evalTermRev]
      split
      · refine All.bind (Post.pendInv W _) (ih.evalTerm _ _ s he hs) ?_
        intro x hx
        exact All.catchAll ((ih.evalIndex _ _ _ x he hx.pre).mono (fun y hy => Post.trans hx hy))
      · refine All.bind (Post.pendInv W _) (ih.evalTerm _ _ s he hs) ?_
        intro x hx
        exact All.catchAll (hiter x hx)
      · exact All.catchAll (ih.evalTerm _ _ s he hs)

theorem step_evalTerm {n : Nat} (ih : IH cfg W n) (hW : W.Good) (env : Env) (t : Term) (s : St)
    (he : EnvOK W env) (hs : Pre W s) :
    All (Post W s.ctx.isSome) (evalTerm (n+1) cfg env t s) := by
  cases t with
  | mk core sfx =>
    rw [evalTerm_succ]
    exact evalTermRev_inv ih hW env core s he hs _

theorem navStep_inv {x : St} (hx : Pre W x) (k : JV) : All (Post W x.ctx.isSome) (navStep x k) := by
  unfold navStep
  split
  · rename_i w hw; exact All.navigated hx hw false
  · exact All.fail _

theorem sliceStep_inv {x : St} (hx : Pre W x) (st en : St) : All (Post W x.ctx.isSome) (sliceStep x st en) := by
  unfold sliceStep
  split
  · rename_i w hw
    exact All.navigated hx (by rw [funcIndex2_sliceKey]; exact hw) false
  · exact All.fail _

theorem step_evalIndex {n : Nat} (ih : IH cfg W n) (env : Env) (t : Term) (i : Index) (s : St)
    (he : EnvOK W env) (hs : Pre W s) :
    All (Post W s.ctx.isSome) (evalIndex (n+1) cfg env t i s) := by
  have hnav : ∀ k, All (Post W s.ctx.isSome) ((evalTerm n cfg env t s).bind fun x => navStep x k) := by
    intro k
    refine All.bind (Post.pendInv W _) (ih.evalTerm _ t s he hs) ?_
    intro x hx
    exact (navStep_inv hx.pre k).mono (fun y hy => Post.trans hx hy)
  rw [evalIndex_succ]
  split
  · exact hnav _
  · exact hnav _
  · exact All.bind (Post.pendInv W _) (All.triv _) (fun k _ => hnav _)
  · exact All.bind (Post.pendInv W _) (All.triv _) (fun k _ => hnav _)
  · refine All.bind (Post.pendInv W _) (All.triv _) (fun st _ => ?_)
    refine All.bind (Post.pendInv W _) (All.triv _) (fun en _ => ?_)
    refine All.bind (Post.pendInv W _) (ih.evalTerm _ t s he hs) ?_
    intro x hx
    exact (sliceStep_inv hx.pre st en).mono (fun y hy => Post.trans hx hy)


theorem tryResult_inv {n : Nat} (ih : IH cfg W n) (env : Env) (catch_ : Option Query) (s : St) (r : Res)
    (he : EnvOK W env) (hs : Pre W s) (hr : All (Post W s.ctx.isSome) r) :
    All (Post W s.ctx.isSome) (tryResult n cfg env catch_ s r) := by
  unfold tryResult
  split
  · exact hr
  · exact hr
  · split
    · exact hr
    · simp only
      split
      · exact hr
      · rename_i m _
        refine All.append hr ?_
        have hcaught : Pre W { v := m, id := if isContainer m then .unknown else .fresh, ctx := s.ctx } := by
          refine ⟨?_, hs.2⟩
          show IdOK W m (if isContainer m then .unknown else .fresh)
          split
          · exact IdOK.unknown W m
          · exact IdOK.fresh W m
        exact ih.eval _ _ _ he hcaught
  · exact hr

theorem reduceFrom_inv {n : Nat} (ih : IH cfg W n) (env : Env) (src : Query) (pat : Pattern) (update : Query)
    (s st0 : St) (he : EnvOK W env) (hs : Pre W s) (h0 : Post W s.ctx.isSome st0) :
    All (Post W s.ctx.isSome) (reduceFrom n cfg env src pat update s st0) := by
  unfold reduceFrom
  simp only
  have hsrc := ih.eval env src { s with ctx := st0.ctx } he ⟨hs.1, h0.2.1⟩
  split
  · exact All.nil _
  · rename_i sv sid hfold
    split
    · refine All.one ⟨?_, h0.2.1, h0.2.2⟩
      show IdOK W sv sid
      refine reduceFold_inv (I := IdOK W) _ _ _ ?_ (.ok (st0.v, st0.id)) ?_ sv sid hfold
      · intro x hx env' henv' sv' sid' hI l hl
        have hxp := hsrc x hx
        have henvOK : EnvOK W env' := ih.bindPattern env pat x.v x.id x.ctx he hxp.1 env' henv'
        exact (ih.eval env' update { v := sv', id := sid', ctx := x.ctx } henvOK ⟨hI, hxp.2.1⟩ l hl).1
      · intro sv' sid' h
        simp only [Except.ok.injEq, Prod.mk.injEq] at h
        obtain ⟨rfl, rfl⟩ := h
        exact h0.1
    · exact All.nil _

theorem foreachFrom_inv {n : Nat} (ih : IH cfg W n) (env : Env) (src : Query) (pat : Pattern) (update : Query)
    (extract : Option Query) (s st0 : St) (he : EnvOK W env) (hs : Pre W s) (h0 : Post W s.ctx.isSome st0) :
    All (Post W s.ctx.isSome) (foreachFrom n cfg env src pat update extract s st0) := by
  unfold foreachFrom
  simp only
  have hsrc := ih.eval env src { s with ctx := st0.ctx } he ⟨hs.1, h0.2.1⟩
  refine All.foreachLoop (I := IdOK W) _ _ _ _ _ _ _ _ ?_ h0.1 (fun a ha => by cases ha)
  intro x hx env' henv' sv sid hI u hu
  have hxp := hsrc x hx
  have hxp' : Post W s.ctx.isSome x := Post.trans h0 hxp
  have henvOK : EnvOK W env' := ih.bindPattern env pat x.v x.id x.ctx he hxp.1 env' henv'
  have hup := ih.eval env' update { v := sv, id := sid, ctx := x.ctx } henvOK ⟨hI, hxp.2.1⟩ u hu
  have hup' : Post W s.ctx.isSome u := Post.trans hxp' hup
  refine ⟨hup.1, ?_⟩
  split
  · exact All.one hup'
  · exact (ih.eval env' _ u henvOK hup'.pre).mono (fun y hy => Post.trans hup' hy)

theorem step_evalCore {n : Nat} (ih : IH cfg W n) (env : Env) (core : TermCore) (s : St)
    (he : EnvOK W env) (hs : Pre W s) :
    All (Post W s.ctx.isSome) (evalCore (n+1) cfg env core s) := by
  rw [evalCore_succ]
  split
  · exact All.one hs.post
  · exact ih.evalCall _ _ _ s he hs
  · exact All.one (Post.computed hs _)
  · exact All.one (Post.computed hs _)
  · exact All.one (Post.computed hs _)
  · split
    · exact All.one (Post.computed hs _)
    · exact All.unmodelled _
  · exact ih.evalStr _ _ _ s he hs
  · exact evalFormat_inv n env _ s hs
  · exact ih.evalStr _ _ _ s he hs
  · exact ih.evalIndex _ _ _ s he hs
  · exact ih.eval _ _ s he hs
  · refine All.bind (Post.pendInv W _) (ih.evalTerm _ _ s he hs) ?_
    intro x hx
    exact (All.nativeRes hx.2.1 _ _ _).mono (fun y hy => Post.trans hx hy)
  · exact All.one (Post.computed hs _)
  · simp only
    split
    · exact All.one (Post.computed hs _)
    · exact All.nil _
  · exact ih.evalObject _ _ _ s s.ctx he hs.1 hs.2
  · refine All.bind (Post.pendInv W _) (All.triv _) (fun x _ => ?_)
    refine All.ite (ih.eval _ _ s he hs) ?_
    split
    · exact ih.evalCore _ _ s he hs
    · split
      · exact ih.eval _ _ s he hs
      · exact All.one hs.post
  · exact tryResult_inv ih env _ s _ he hs (ih.eval _ _ s he hs)
  · exact All.bind (Post.pendInv W _) (ih.eval _ _ s he hs)
      (fun st0 h0 => reduceFrom_inv ih env _ _ _ s st0 he hs h0)
  · exact All.bind (Post.pendInv W _) (ih.eval _ _ s he hs)
      (fun st0 h0 => foreachFrom_inv ih env _ _ _ _ s st0 he hs h0)
  · rename_i name body
    have hb := ih.eval (env.push (.label name n)) body s (he.push (.label _ _)) hs
    simp only
    split
    · exact All.ite (All.mk _ hb) hb
    · exact hb
  · split
    · exact All.fail _
    · exact All.unmodelled _
  · exact ih.evalCall _ _ _ s he hs


theorem strPart_inv {n : Nat} (ih : IH cfg W n) (env : Env) (fmt : Option String) (s : St)
    (he : EnvOK W env) (hs : IdOK W s.v s.id) (p : Query) (ctx : Option PCtx) (hc : CtxOK W ctx) :
    All (Post W ctx.isSome) (strPart n cfg env fmt s p ctx) := by
  unfold strPart
  have hp := ih.eval env p { s with ctx := ctx } he ⟨hs, hc⟩
  refine All.ite hp ?_
  refine All.bind (Post.pendInv W _) hp ?_
  intro x hx
  exact (evalFormat_inv n env _ x hx.pre).mono (fun y hy => Post.trans hx hy)

theorem step_evalStr {n : Nat} (ih : IH cfg W n) (env : Env) (str : Str) (fmt : Option String) (s : St)
    (he : EnvOK W env) (hs : Pre W s) :
    All (Post W s.ctx.isSome) (evalStr (n+1) cfg env str fmt s) := by
  rw [evalStr_succ]
  split
  · exact All.one (Post.computed hs _)
  · exact All.interpK _ s (strPart_inv ih env fmt s he hs.1) _ s.ctx hs.2

theorem objKeyRes_inv {n : Nat} (ih : IH cfg W n) (env : Env) (key : ObjKey) (val : Option Query) (s0 : St)
    (he : EnvOK W env) (hs : Pre W s0) :
    All (Post W s0.ctx.isSome) (objKeyRes n cfg env key val s0) := by
  unfold objKeyRes
  split
  · exact All.one (Post.computed hs _)
  · split
    · exact All.one (Post.computed hs _)
    · exact ih.evalCall _ _ _ s0 he hs
  · exact ih.evalStr _ _ _ s0 he hs
  · exact ih.eval _ _ s0 he hs

theorem objValRes_inv {n : Nat} (ih : IH cfg W n) (env : Env) (key : ObjKey) (val : Option Query) (s k s1 : St)
    (he : EnvOK W env) (hs1 : Pre W s1) (hv : s1.v = s.v) :
    All (Post W s1.ctx.isSome) (objValRes n cfg env key val s k s1) := by
  unfold objValRes
  split
  · exact ih.eval _ _ s1 he hs1
  · split
    · split
      · rename_i w hw
        exact All.navigated hs1 (hv ▸ hw) false
      · exact All.fail _
    · exact ih.evalCall _ _ _ s1 he hs1
    · split
      · rename_i w hw
        exact All.navigated hs1 (hv ▸ hw) false
      · exact All.fail _
    · split
      · exact All.one (Post.computed hs1 _)
      · exact All.fail _
    · exact All.unmodelled _

theorem step_evalObject {n : Nat} (ih : IH cfg W n) (env : Env) (kvs : List ObjKV) (acc : List (JV × JV)) (s : St)
    (ctx : Option PCtx) (he : EnvOK W env) (hs : IdOK W s.v s.id) (hc : CtxOK W ctx) :
    All (Post W ctx.isSome) (evalObject (n+1) cfg env kvs acc s ctx) := by
  rw [evalObject_succ]
  split
  · split
    · exact All.fail _
    · exact All.one ⟨IdOK.fresh W _, hc, rfl⟩
  · rename_i key val rest
    refine All.bind (Post.pendInv W _) (objKeyRes_inv ih env key val { s with ctx := ctx } he ⟨hs, hc⟩) ?_
    intro k hk
    refine All.bind (Post.pendInv W _)
      (objValRes_inv ih env key val s k { s with ctx := k.ctx } he ⟨hs, hk.2.1⟩ rfl) ?_
    intro v hv
    have hv' : Post W ctx.isSome v := Post.trans hk hv
    exact (ih.evalObject env rest _ s v.ctx he hs hv.2.1).mono (fun y hy => Post.trans hv' hy)

theorem altAttempt_inv {n : Nat} (ih : IH cfg W n) (env0 : Env) (p : Pattern) (xv : JV) (xid : Ident) (body : Query)
    (s : St) (he : EnvOK W env0) (hx : IdOK W xv xid) (hs : Pre W s) :
    All (Post W s.ctx.isSome) (altAttempt n cfg env0 p xv xid body s) := by
  unfold altAttempt
  simp only
  refine All.append ?_ (All.nil _)
  exact All.forEnvs (E := EnvOK W) _ _ (ih.bindPattern env0 p xv xid none he hx)
    (fun e he' => ih.eval e body s he' hs)

theorem step_evalAlts {n : Nat} (ih : IH cfg W n) (env : Env) (allPats pats : List Pattern) (xv : JV) (xid : Ident)
    (body : Query) (s : St) (he : EnvOK W env) (hx : IdOK W xv xid) (hs : Pre W s) :
    All (Post W s.ctx.isSome) (evalAlts (n+1) cfg env allPats pats xv xid body s) := by
  match pats with
  | [] => rw [evalAlts_nil]; exact All.empty
  | [p] =>
    rw [evalAlts_one]
    refine altAttempt_inv ih _ p xv xid body s ?_ hx hs
    split
    · exact he.nullVars _
    · exact he
  | p :: p2 :: rest =>
    rw [evalAlts_cons2]
    have ha := altAttempt_inv ih _ p xv xid body s (he.nullVars allPats) hx hs
    simp only
    split
    · exact All.append (All.map_pend (Post.pendInv W _) _ ha) (ih.evalAlts env allPats _ xv xid body s he hx hs)
    · exact All.map_pend (Post.pendInv W _) _ ha



theorem step_bindPattern {n : Nat} (ih : IH cfg W n) (env : Env) (p : Pattern) (xv : JV) (xid : Ident)
    (ctx : Option PCtx) (he : EnvOK W env) (hx : IdOK W xv xid) :
    AllE (EnvOK W) (bindPattern (n+1) cfg env p xv xid ctx) := by
  have hone : ∀ env' p w wid, EnvOK W env' → IdOK W w wid →
      AllE (EnvOK W) (bindPattern n cfg env' p w wid ctx) :=
    fun env' p w wid he' hw => ih.bindPattern env' p w wid ctx he' hw
  have hcur : AllE (EnvOK W) (PatRes.ok [env]) := by
    intro e hmem
    simp only [PatRes.ok, List.mem_singleton] at hmem
    subst hmem; exact he
  rw [bindPattern_succ]
  split
  · intro e hmem
    simp only [PatRes.ok, List.mem_singleton] at hmem
    subst hmem
    exact he.pushVar _ hx
  · split
    · exact AllE.bindArrayK _ _ xid hx hone _ 0 _ hcur
    · exact AllE.bindArrayK _ _ xid hx hone _ 0 _ hcur
    · exact AllE.fail _
  · exact AllE.bindObjectK _ _ xv xid hx hone _ _ hcur

theorem step_callDef {n : Nat} (ih : IH cfg W n) (callerEnv fenv : Env) (params : List String) (body : Query)
    (args : List Query) (s : St) (hce : EnvOK W callerEnv) (hfe : EnvOK W fenv) (hs : Pre W s) :
    All (Post W s.ctx.isSome) (callDef (n+1) cfg callerEnv fenv params body args s) := by
  rw [callDef_succ]
  simp only
  refine All.bindValsK (W := W) (Post.pendInv W _) _ _ ?_ ?_ _ _ ?_
  · intro a
    exact (ih.eval callerEnv a _ hce hs.noCtx).mono (fun av hav => hav.1)
  · intro env' he'
    exact ih.eval env' body s he' hs
  · generalize params.zip args = pas
    induction pas generalizing fenv with
    | nil => exact hfe
    | cons pa pas ih2 =>
      simp only [List.foldl_cons]
      exact ih2 _ (hfe.push (.clo _ _ _ hce))

theorem step_evalAssign {n : Nat} (ih : IH cfg W n) (env : Env) (l r : Query) (s : St)
    (he : EnvOK W env) (hs : Pre W s) :
    All (Post W s.ctx.isSome) (evalAssign (n+1) cfg env l r s) := by
  rw [evalAssign_succ]
  split
  · refine All.bind (Post.pendInv W _) (ih.eval _ r s he hs) ?_
    intro x hx
    unfold assignConst
    split
    · exact All.fail _
    · split
      · exact All.one ⟨IdOK.resultIdent W _ _, hx.2.1, hx.2.2⟩
      · exact All.unmodelled _
      · exact All.fail _
  · refine All.bind (Post.pendInv W _) (All.triv _) (fun x _ => ?_)
    unfold assignPaths
    rcases evalPaths n cfg env l s with ⟨paths, pstop⟩
    simp only
    split
    · exact All.unmodelled _
    · exact All.fail _
    · split
      · refine All.one ?_
        split
        · exact hs.post
        · exact Post.resultOf hs.2 _ _
      · exact All.nil _


theorem pathEmit_inv (s x : St) (hs : Pre W s) : All (Post W s.ctx.isSome) (pathEmit s x) := by
  unfold pathEmit
  split
  · exact All.unmodelled _
  · split
    · exact All.one (Post.computed hs _)
    · exact All.fail _
    · exact All.unmodelled _

theorem getpathEmit_inv (s pv : St) (hs : Pre W s) : All (Post W s.ctx.isSome) (getpathEmit s pv) := by
  unfold getpathEmit
  split
  · split
    · exact All.fail _
    · rename_i w hw
      exact All.getpathStep hs hw
  · exact All.fail _

theorem nativeCall_inv {n : Nat} (ih : IH cfg W n) (env : Env) (name : String) (args : List Query) (s : St)
    (he : EnvOK W env) (hs : Pre W s) :
    All (Post W s.ctx.isSome) (nativeCall n cfg env name args s) := by
  unfold nativeCall
  split
  · exact All.empty
  · exact All.one (Post.computed hs _)
  · exact All.one (Post.computed hs _)
  · -- path(f): whatever `f` does, the outputs are computed from `s`
    exact All.bind (Post.pendInv W _) (All.triv _) (fun x _ => pathEmit_inv s x hs)
  · exact All.bind (Post.pendInv W _) (All.triv _) (fun pv _ => getpathEmit_inv s pv hs)
  · -- _range
    rename_i a b c
    refine All.bind (Post.pendInv W _) (ih.eval _ c s he hs) ?_
    intro cv hcv
    refine All.bind (Post.pendInv W _) (ih.eval _ b { s with ctx := cv.ctx } he ⟨hs.1, hcv.2.1⟩) ?_
    intro bv hbv
    have hbv' : Post W s.ctx.isSome bv := Post.trans hcv hbv
    refine All.bind (Post.pendInv W _) (ih.eval _ a { s with ctx := bv.ctx } he ⟨hs.1, hbv.2.1⟩) ?_
    intro av hav
    have hav' : Post W s.ctx.isSome av := Post.trans hbv' hav
    refine All.ite (All.fail _) (All.ite (All.fail _) (All.ite (All.fail _) ?_))
    split
    · intro y hy
      simp only [List.mem_map] at hy
      obtain ⟨z, _, rfl⟩ := hy
      exact ⟨IdOK.fresh W _, hav'.2.1, hav'.2.2⟩
    · exact All.outOfFuel
  · -- _last
    rename_i g
    have hg := ih.eval _ g s he hs
    simp only
    split
    · split
      · rename_i l hl
        exact All.one (hg l (List.mem_of_getLast? hl))
      · exact All.empty
    · exact All.nil _
  · -- setpath
    rename_i p v
    refine All.bind (Post.pendInv W _) (ih.eval _ v s he hs) ?_
    intro nv hnv
    refine All.bind (Post.pendInv W _) (ih.eval _ p { s with ctx := nv.ctx } he ⟨hs.1, hnv.2.1⟩) ?_
    intro pv hpv
    have hpv' : Post W s.ctx.isSome pv := Post.trans hnv hpv
    split
    · split
      · exact All.one ⟨IdOK.fresh W _, hpv'.2.1, hpv'.2.2⟩
      · exact All.unmodelled _
      · exact All.fail _
    · exact All.fail _
  · exact All.unmodelled _
  · exact All.unmodelled _
  · exact All.unmodelled _
  · exact All.unmodelled _
  · exact All.unmodelled _
  · exact All.unmodelled _
  · exact All.unmodelled _
  · exact All.unmodelled _
  · exact All.unmodelled _
  · exact All.unmodelled _
  · exact All.unmodelled _
  · -- generic native
    refine All.evalArgsK (W := W) _ _ ?_ ?_ _ s.ctx [] hs.2
    · intro a ctx hc
      exact ih.eval _ a { s with ctx := ctx } he ⟨hs.1, hc⟩
    · intro vals ctx hc
      exact All.nativeRes (s := { s with ctx := ctx }) hc _ _ _

theorem step_evalCall {n : Nat} (ih : IH cfg W n) (env : Env) (name : String) (args : List Query) (s : St)
    (he : EnvOK W env) (hs : Pre W s) :
    All (Post W s.ctx.isSome) (evalCall (n+1) cfg env name args s) := by
  rw [evalCall_succ]
  have hl := lookupCall_ok (W := W) name args.length env.bs he.bs
  split
  · rename_i v id hlk
    rw [hlk] at hl
    exact All.one ⟨hl, hs.2, rfl⟩
  · rename_i body cenv hlk
    rw [hlk] at hl
    exact ih.eval cenv body s hl hs
  · rename_i params body fenv bi hlk
    rw [hlk] at hl
    exact ih.callDef env fenv params body args s he hl hs
  · refine All.ite (All.ite (All.one (Post.computed hs _)) (All.ite (All.unmodelled _) (All.unmodelled _))) ?_
    split
    · rename_i d _
      exact ih.callDef env _ d.params d.body args s he ((EnvOK.empty W).push (.fn _ _ _ _)) hs
    · exact nativeCall_inv ih env name args s he hs

/-- the step of the induction -/
theorem IH.succ (hW : W.Good) {n : Nat} (ih : IH cfg W n) : IH cfg W (n+1) where
  eval := step_eval ih
  evalBinNative := step_evalBinNative ih
  evalTerm := step_evalTerm ih hW
  evalIndex := step_evalIndex ih
  evalCore := step_evalCore ih
  evalStr := step_evalStr ih
  evalObject := step_evalObject ih
  evalAlts := step_evalAlts ih
  bindPattern := step_bindPattern ih
  evalCall := step_evalCall ih
  callDef := step_callDef ih
  evalAssign := step_evalAssign ih

/-- every function of the evaluator keeps the invariant, at every fuel -/
theorem IH.all (cfg : Cfg) {W : World} (hW : W.Good) : ∀ n, IH cfg W n
  | 0 => IH.zero
  | n + 1 => IH.succ hW (IH.all cfg hW n)

end Gojq.C02

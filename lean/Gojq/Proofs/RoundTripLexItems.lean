/-
  Lexing printed text, part 6: token sequences.  `itemsOK` is the decidable adjacency condition on
  a sequence of tokens with the printer's separators; under it the tokenizer reads the rendered
  text back as exactly the tokens (`lex_items`).
-/
import Gojq.Proofs.RoundTripLexStr
namespace Gojq.RefTerm
open Gojq Gojq.Lexer Gojq.Generated.Lalr Gojq.Printer

theorem Tok.wf_notBad (t : Tok) (h : t.wf = true) : t.isBad = false := by
  cases t <;> first | rfl | (simp [Tok.wf] at h)

/-- ONE TOKEN: `Lex` on the spelling of a well-formed token followed by bytes before which its
    scanner stops delivers that token and leaves exactly those bytes -/
theorem step_tok (t : Tok) (fol : Bytes) (hwf : t.wf = true) (hst : stops t fol = true) :
    LexStep t.inStrTok (t.spell ++ fol) t fol t.modeAfter := by
  cases t with
  | ch c => exact step_ch c fol hwf hst
  | ident s => exact step_ident s fol hwf hst
  | modIdent s => exact step_modIdent s fol hwf hst
  | var s => exact step_var s fol hwf hst
  | modVar s => exact step_modVar s fol hwf hst
  | index s => exact step_index s fol hwf hst
  | number s => exact step_number s fol hwf hst
  | format s => exact step_format s fol hwf hst
  | kw w => exact step_kw w fol hst
  | recurse => exact step_recurse fol
  | op o => exact step_op o fol hwf hst
  | destAlt => exact step_destAlt fol
  | str v => exact step_str v fol hwf
  | chunk v =>
    simp only [Tok.wf, Bool.and_eq_true, Bool.not_eq_true', List.isEmpty_eq_false_iff] at hwf
    exact step_chunk v fol hwf.1 hwf.2 hst
  | strStart => exact step_strStart fol hst
  | strQuery => exact step_strQuery fol
  | strEnd => exact step_strEnd fol
  | bad _ => cases hwf

theorem LexStep_white (w : UInt8) (X : Bytes) (t : Tok) (fol : Bytes) (m : Bool) (hw : isWhite w = true)
    (h : LexStep false X t fol m) : LexStep false (w :: X) t fol m := by
  unfold LexStep at h ⊢
  rw [lx_white w X hw]; exact h

/-- at the end of the text the tokenizer stops -/
theorem tkz_nil (f : Nat) (inStr : Bool) (stk : List Nat) : tkz (f + 1) [] inStr stk = [] := by
  simp [tkz, lx, lex, commit]

/-- one white byte before the rest -/
theorem tkz_white (f : Nat) (w : UInt8) (X : Bytes) (stk : List Nat) (hw : isWhite w = true) :
    tkz (f + 1) (w :: X) false stk = tkz (f + 1) X false stk := by
  simp only [tkz, lx_white w X hw]

/-- LEXING A TOKEN SEQUENCE: under the adjacency condition the rendered text is read back as
    exactly the tokens -/
theorem lex_items : ∀ (items : List Item) (last : Option UInt8) (inStr : Bool) (stk : List Nat) (f : Nat),
    itemsOK last inStr stk items = true → (toks items).length < f →
    tkz f (render last items) inStr stk = toks items := by
  intro items
  induction items with
  | nil =>
    intro last inStr stk f _ hf
    obtain ⟨k, rfl⟩ : ∃ k, f = k + 1 := ⟨f - 1, by simp at hf; omega⟩
    exact tkz_nil k inStr stk
  | cons it r ih =>
    intro last inStr stk f hok hf
    obtain ⟨k, rfl⟩ : ∃ k, f = k + 1 := ⟨f - 1, by omega⟩
    cases it with
    | t t =>
      simp only [toks, List.length_cons] at hf
      simp only [itemsOK, Bool.and_eq_true, beq_iff_eq] at hok
      obtain ⟨⟨⟨hwf, hm⟩, hst⟩, hr⟩ := hok
      have hstep := step_tok t _ hwf hst
      rw [hm] at hstep
      simp only [render, toks]
      rw [tkz_step k inStr _ t _ _ stk hstep (Tok.wf_notBad t hwf), ih _ _ _ k hr (by omega)]
    | sp =>
      simp only [itemsOK, Bool.and_eq_true, Bool.not_eq_true'] at hok
      obtain ⟨hm, hr⟩ := hok
      subst hm
      simp only [render, toks] at hf ⊢
      rw [tkz_white k 32 _ stk (by decide)]
      exact ih (some 32) false stk (k + 1) hr hf
    | nl =>
      simp only [itemsOK, Bool.and_eq_true, Bool.not_eq_true'] at hok
      obtain ⟨hm, hr⟩ := hok
      subst hm
      simp only [render, toks] at hf ⊢
      rw [tkz_white k 10 _ stk (by decide)]
      exact ih (some 10) false stk (k + 1) hr hf
    | soft =>
      simp only [itemsOK, Bool.and_eq_true, Bool.not_eq_true'] at hok
      obtain ⟨hm, hr⟩ := hok
      subst hm
      simp only [render, toks] at hf ⊢
      cases last with
      | none => exact ih none false stk (k + 1) hr hf
      | some ch =>
        simp only [] at hr ⊢
        split
        · next hd =>
          simp only [hd, if_true] at hr
          rw [tkz_white k 32 _ stk (by decide)]
          exact ih (some 32) false stk (k + 1) hr hf
        · next hd =>
          simp only [hd, if_false, Bool.false_eq_true] at hr
          exact ih (some ch) false stk (k + 1) hr hf

/-- a well-formed token is spelled with at least one byte -/
theorem Tok.wf_spell_ne (t : Tok) (h : t.wf = true) : 1 ≤ t.spell.length := by
  cases t with
  | ch c => simp [Tok.spell]
  | ident s =>
    simp only [Tok.wf, isPlainIdent, Bool.and_eq_true] at h
    obtain ⟨_, _, e, _⟩ := identName_split s h.1
    simp [Tok.spell, e]
  | modIdent s =>
    obtain ⟨_, _, _, e, _⟩ := modIdent_split s h
    simp [Tok.spell, e]
  | var s =>
    simp only [Tok.wf] at h
    unfold isVarName at h
    split at h
    · simp [Tok.spell]
    · cases h
  | modVar s =>
    simp only [Tok.wf] at h
    unfold isModVar at h
    split at h
    · simp [Tok.spell]
    · cases h
  | index s => simp [Tok.spell]
  | number s =>
    simp only [Tok.wf] at h
    unfold okNumber at h
    split at h
    · cases h
    · simp [Tok.spell]
  | format s =>
    simp only [Tok.wf] at h
    unfold okFormat at h
    split at h
    · simp [Tok.spell]
    · cases h
  | kw w => cases w <;> simp [Tok.spell, Kw.text]
  | recurse => simp [Tok.spell]
  | op o => cases o <;> simp [Tok.spell, BOp.text]
  | destAlt => simp [Tok.spell]
  | str v => simp [Tok.spell, encodeString]
  | chunk v =>
    simp only [Tok.wf, Bool.and_eq_true, Bool.not_eq_true', List.isEmpty_eq_false_iff] at h
    have := encodeBody_ne_nil v h.2
    simp only [Tok.spell]
    exact List.length_pos_iff.mpr this
  | strStart => simp [Tok.spell]
  | strQuery => simp [Tok.spell]
  | strEnd => simp [Tok.spell]
  | bad _ => cases h

/-- there are at most as many tokens as bytes -/
theorem toks_le_render : ∀ (items : List Item) (last : Option UInt8) (inStr : Bool) (stk : List Nat),
    itemsOK last inStr stk items = true → (toks items).length ≤ (render last items).length := by
  intro items
  induction items with
  | nil => intro _ _ _ _; simp
  | cons it r ih =>
    intro last inStr stk hok
    cases it with
    | t t =>
      simp only [itemsOK, Bool.and_eq_true, beq_iff_eq] at hok
      obtain ⟨⟨⟨hwf, _⟩, _⟩, hr⟩ := hok
      have := ih _ _ _ hr
      have := Tok.wf_spell_ne t hwf
      simp only [toks, render, List.length_cons, List.length_append]
      omega
    | sp =>
      simp only [itemsOK, Bool.and_eq_true] at hok
      have := ih _ _ _ hok.2
      simp only [toks, render, List.length_cons]; omega
    | nl =>
      simp only [itemsOK, Bool.and_eq_true] at hok
      have := ih _ _ _ hok.2
      simp only [toks, render, List.length_cons]; omega
    | soft =>
      simp only [itemsOK, Bool.and_eq_true] at hok
      obtain ⟨_, hr⟩ := hok
      simp only [toks, render]
      cases last with
      | none => exact ih _ _ _ hr
      | some ch =>
        simp only [] at hr ⊢
        split
        · next hd =>
          simp only [hd, if_true] at hr
          have := ih _ _ _ hr
          simp only [List.length_cons]; omega
        · next hd =>
          simp only [hd, if_false, Bool.false_eq_true] at hr
          exact ih _ _ _ hr

/-- THE PRINTED TEXT LEXES TO THE PRINTED TOKENS: for a token sequence with the printer's
    separators that satisfies the adjacency condition, the tokenizer (lexer model + interpolation
    feedback) applied to the rendered bytes returns exactly the tokens -/
theorem tokensOf_render (items : List Item) (h : itemsOK none false [] items = true) :
    tokensOf (render none items) = toks items := by
  rw [tokensOf_tkz]
  exact lex_items items none false [] _ h (by have := toks_le_render items none false [] h; omega)

end Gojq.RefTerm

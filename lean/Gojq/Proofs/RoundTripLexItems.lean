/-
  Lexing printed text, part 6: token sequences.  `itemsOK` is the decidable adjacency condition on
  a sequence of tokens with the printer's separators; under it the tokenizer reads the rendered
  text back as exactly the tokens (`lex_items`).
-/
import Gojq.Proofs.RoundTripLexStr
namespace Gojq.RefTerm
open Gojq Gojq.Lexer Gojq.Generated.Lalr Gojq.Printer

/-- the token is one the lexer can deliver, with a spelling it reads back as that token -/
def Tok.wf : Tok → Bool
  | .ch c => okCh c
  | .ident s => isPlainIdent s
  | .modIdent s => isModIdent s
  | .var s => isVarName s
  | .modVar s => isModVar s
  | .index s => isIdentName s
  | .number s => okNumber s
  | .format s => okFormat s
  | .kw _ => true
  | .recurse => true
  | .op o => isOpTok o
  | .destAlt => true
  | .str v => okLit v
  | .chunk v => okLit v && !v.isEmpty
  | .strStart => true
  | .strQuery => true
  | .strEnd => true
  | .bad _ => false

/-- tokens read in string mode -/
def Tok.inStrTok : Tok → Bool
  | .chunk _ => true
  | .strQuery => true
  | .strEnd => true
  | _ => false

/-- `inString` after the token -/
def Tok.modeAfter : Tok → Bool
  | .strStart => true
  | .chunk _ => true
  | _ => false

theorem Tok.wf_notBad (t : Tok) (h : t.wf = true) : t.isBad = false := by
  cases t <;> first | rfl | (simp [Tok.wf] at h)

/-- ONE TOKEN: `Lex` on the spelling of a well-formed token followed by bytes before which its
    scanner stops delivers that token and leaves exactly those bytes -/
theorem step_tok (t : Tok) (fol : Bytes) (hwf : t.wf = true) (hst : stops t fol = true) :
    LexStep t.inStrTok (t.spell ++ fol) t fol t.modeAfter := by
  cases t with
  | ch c => exact step_ch c fol hwf hst
  | ident s => exact step_ident s fol hwf hst
  | modIdent s => exact step_modIdent s fol hwf hst
  | var s => exact step_var s fol hwf hst
  | modVar s => exact step_modVar s fol hwf hst
  | index s => exact step_index s fol hwf hst
  | number s => exact step_number s fol hwf hst
  | format s => exact step_format s fol hwf hst
  | kw w => exact step_kw w fol hst
  | recurse => exact step_recurse fol
  | op o => exact step_op o fol hwf hst
  | destAlt => exact step_destAlt fol
  | str v => exact step_str v fol hwf
  | chunk v =>
    simp only [Tok.wf, Bool.and_eq_true, Bool.not_eq_true', List.isEmpty_eq_false_iff] at hwf
    exact step_chunk v fol hwf.1 hwf.2 hst
  | strStart => exact step_strStart fol hst
  | strQuery => exact step_strQuery fol
  | strEnd => exact step_strEnd fol
  | bad _ => cases hwf

/-- THE ADJACENCY CONDITION, decidable: every token is well-formed and read in the mode the
    tokens before it leave the lexer in, its scanner stops before the text rendered after it, and
    the printer's separators appear outside strings only.  `last` = the last byte written before
    the items (for the printer's `soft` space), `inStr` / `stk` = the tokenizer's mode. -/
def itemsOK : Option UInt8 → Bool → List Nat → List Item → Bool
  | _, _, _, [] => true
  | last, inStr, stk, .t t :: r =>
    t.wf && (t.inStrTok == inStr) && stops t (render (lastOr t.spell last) r) &&
      itemsOK (lastOr t.spell last) (if (stepStk t stk).2 then true else t.modeAfter) (stepStk t stk).1 r
  | _, inStr, stk, .sp :: r => !inStr && itemsOK (some 32) false stk r
  | _, inStr, stk, .nl :: r => !inStr && itemsOK (some 10) false stk r
  | last, inStr, stk, .soft :: r =>
    !inStr &&
      (match last with
       | some ch => if isDotOrDigit ch then itemsOK (some 32) false stk r else itemsOK last false stk r
       | none => itemsOK none false stk r)

theorem LexStep_white (w : UInt8) (X : Bytes) (t : Tok) (fol : Bytes) (m : Bool) (hw : isWhite w = true)
    (h : LexStep false X t fol m) : LexStep false (w :: X) t fol m := by
  unfold LexStep at h ⊢
  rw [lx_white w X hw]; exact h

/-- at the end of the text the tokenizer stops -/
theorem tkz_nil (f : Nat) (inStr : Bool) (stk : List Nat) : tkz (f + 1) [] inStr stk = [] := by
  simp [tkz, lx, lex, commit]

/-- one white byte before the rest -/
theorem tkz_white (f : Nat) (w : UInt8) (X : Bytes) (stk : List Nat) (hw : isWhite w = true) :
    tkz (f + 1) (w :: X) false stk = tkz (f + 1) X false stk := by
  simp only [tkz, lx_white w X hw]

/-- LEXING A TOKEN SEQUENCE: under the adjacency condition the rendered text is read back as
    exactly the tokens -/
theorem lex_items : ∀ (items : List Item) (last : Option UInt8) (inStr : Bool) (stk : List Nat) (f : Nat),
    itemsOK last inStr stk items = true → items.length < f →
    tkz f (render last items) inStr stk = toks items := by
  intro items
  induction items with
  | nil =>
    intro last inStr stk f _ hf
    obtain ⟨k, rfl⟩ : ∃ k, f = k + 1 := ⟨f - 1, by simp at hf; omega⟩
    exact tkz_nil k inStr stk
  | cons it r ih =>
    intro last inStr stk f hok hf
    simp only [List.length_cons] at hf
    obtain ⟨k, rfl⟩ : ∃ k, f = k + 1 := ⟨f - 1, by omega⟩
    cases it with
    | t t =>
      simp only [itemsOK, Bool.and_eq_true, beq_iff_eq] at hok
      obtain ⟨⟨⟨hwf, hm⟩, hst⟩, hr⟩ := hok
      have hstep := step_tok t _ hwf hst
      rw [hm] at hstep
      simp only [render, toks]
      rw [tkz_step k inStr _ t _ _ stk hstep (Tok.wf_notBad t hwf), ih _ _ _ k hr (by omega)]
    | sp =>
      simp only [itemsOK, Bool.and_eq_true, Bool.not_eq_true'] at hok
      obtain ⟨hm, hr⟩ := hok
      subst hm
      simp only [render, toks]
      rw [tkz_white k 32 _ stk (by decide)]
      exact ih (some 32) false stk (k + 1) hr (by omega)
    | nl =>
      simp only [itemsOK, Bool.and_eq_true, Bool.not_eq_true'] at hok
      obtain ⟨hm, hr⟩ := hok
      subst hm
      simp only [render, toks]
      rw [tkz_white k 10 _ stk (by decide)]
      exact ih (some 10) false stk (k + 1) hr (by omega)
    | soft =>
      simp only [itemsOK, Bool.and_eq_true, Bool.not_eq_true'] at hok
      obtain ⟨hm, hr⟩ := hok
      subst hm
      simp only [render, toks]
      cases last with
      | none => exact ih none false stk (k + 1) hr (by omega)
      | some ch =>
        simp only [] at hr ⊢
        split
        · next hd =>
          simp only [hd, if_true] at hr
          rw [tkz_white k 32 _ stk (by decide)]
          exact ih (some 32) false stk (k + 1) hr (by omega)
        · next hd =>
          simp only [hd, if_false, Bool.false_eq_true] at hr
          exact ih (some ch) false stk (k + 1) hr (by omega)

end Gojq.RefTerm

/- Helper lemmas for C10 (integer fast paths of operator.go are exact). Core Lean only. -/
import Gojq.Model.Arith
namespace Gojq

theorem wrap64_of_inRange {x : Int} (h : InRange x) : wrap64 x = x := by
  unfold InRange minInt maxInt at h; unfold wrap64; omega

theorem wrap64_eq (x : Int) : ∃ k : Int, wrap64 x = x - k * 18446744073709551616 ∧ InRange (wrap64 x) := by
  refine ⟨(x + 9223372036854775808) / 18446744073709551616, ?_, ?_⟩
  · unfold wrap64; omega
  · unfold InRange minInt maxInt wrap64; omega

theorem addInt_exact {l r : Int} (hl : InRange l) (hr : InRange r) : addInt l r = l + r := by
  unfold InRange minInt maxInt at hl hr
  unfold addInt wrap64
  simp only []
  split
  · rename_i h
    by_cases h1 : r ≥ 0 <;> simp [h1] at h <;> omega
  · rfl

theorem subInt_exact {l r : Int} (hl : InRange l) (hr : InRange r) : subInt l r = l - r := by
  unfold InRange minInt maxInt at hl hr
  unfold subInt wrap64
  simp only []
  split
  · rename_i h
    by_cases h1 : r ≥ 0 <;> simp [h1] at h <;> omega
  · rfl

theorem negateInt_exact {v : Int} (hv : InRange v) : negateInt v = -v := by
  unfold InRange minInt maxInt at hv
  unfold negateInt wrap64 minInt
  split
  · rfl
  · omega

end Gojq
namespace Gojq

/-- Go's int64 `v / r` does not overflow unless `v = MinInt ∧ r = -1` -/
theorem tdiv_inRange {v r : Int} (hv : InRange v) (hr : r ≠ -1) : InRange (Int.tdiv v r) := by
  have h1 := Int.natAbs_tdiv v r
  have h2 : (v.natAbs).div (r.natAbs) = v.natAbs / r.natAbs := rfl
  rw [h2] at h1
  unfold InRange minInt maxInt at *
  by_cases hr1 : r = 1
  · subst hr1; simp; omega
  by_cases hr0 : r = 0
  · subst hr0; simp
  have hge : 2 ≤ r.natAbs := by omega
  have : v.natAbs / r.natAbs ≤ v.natAbs / 2 := Nat.div_le_div_left hge (by omega)
  omega

theorem mulInt_exact {l r : Int} (hl : InRange l) (hr : InRange r) : mulInt l r = l * r := by
  unfold mulInt
  split
  · rename_i h; subst h; rw [negateInt_exact hl]; omega
  · rename_i hm1
    simp only []
    split
    · rename_i h
      rcases h with h0 | hd
      · subst h0; simp [wrap64]
      · by_cases h0 : r = 0
        · subst h0; simp [wrap64]
        obtain ⟨k, hk, hv⟩ := wrap64_eq (l * r)
        by_cases hin : InRange (l * r)
        · exact wrap64_of_inRange hin
        · exfalso
          unfold goDiv at hd
          rw [wrap64_of_inRange (tdiv_inRange hv hm1)] at hd
          have e1 := Int.mul_tdiv_add_tmod (wrap64 (l * r)) r
          have e2 := Int.natAbs_tmod (wrap64 (l * r)) r
          have e3 : (wrap64 (l * r)).natAbs % r.natAbs < r.natAbs := Nat.mod_lt _ (by omega)
          rw [hd, Int.mul_comm r l] at e1
          unfold InRange minInt maxInt at *
          generalize Int.tmod (wrap64 (l * r)) r = m at *
          generalize wrap64 (l * r) = w at *
          generalize l * r = p at *
          omega
    · rfl
end Gojq

/-
  Helper lemmas for Props/C02Path.lean, part 2: `pathIntact`, `navigated`, `iterate`, `getpath`
  keep the path-tracking invariant of Proofs/SpecPathBase.lean.  Core Lean only.
-/
import Gojq.Proofs.SpecPathBase
namespace Gojq.C02
open Gojq Gojq.Spec

/-! ### `pathIntact` -/

theorem identEq_true {a b : Ident} (h : identEq a b = some true) : ∃ r p, a = .known r p ∧ b = .known r p := by
  cases a with
  | known r p =>
    cases b with
    | known r' p' =>
      simp only [identEq] at h
      split at h
      · rename_i hr
        have hr' : r = r' := by simpa using hr
        subst hr'
        split at h
        · split at h
          · rename_i hp; exact ⟨r, p, rfl, by rw [JVList.eq_of_beq hp]⟩
          · cases h
        · simp only [Option.some.injEq] at h
          exact ⟨r, p, rfl, by rw [JVList.eq_of_beq h]⟩
      · cases h
    | fresh => simp only [identEq] at h; split at h <;> cases h
    | unknown => simp [identEq] at h
  | fresh =>
    cases b with
    | known r' p' => simp only [identEq] at h; split at h <;> cases h
    | fresh => simp [identEq] at h
    | unknown => simp [identEq] at h
  | unknown => cases b <;> simp [identEq] at h

theorem IdOK.same {W : World} {v v' : JV} {id : Ident} (h : IdOK W v id) (hs : SameVal v v') : IdOK W v' id := by
  intro r p hp
  obtain ⟨v0, h0, h1⟩ := h r p hp
  exact ⟨v0, h0, h1.trans hs⟩

/-- two values with the same `known` identity are the same value -/
theorem sameVal_of_identEq {W : World} {v v' : JV} {id id' : Ident} (h : IdOK W v id) (h' : IdOK W v' id')
    (he : identEq id id' = some true) : SameVal v v' := by
  obtain ⟨r, p, rfl, rfl⟩ := identEq_true he
  obtain ⟨v0, h0, h1⟩ := h r p rfl
  obtain ⟨v1, h2, h3⟩ := h' r p rfl
  rw [h0] at h2
  cases h2
  exact h1.symm.trans h3

/-- the value of an intact state IS the value last navigated to (up to the sign of zero) -/
theorem pathIntact_same {W : World} {x : St} {c : PCtx} (hx : IdOK W x.v x.id) (hc : IdOK W c.w c.wid)
    (h : pathIntact x c = some true) : SameVal x.v c.w := by
  unfold pathIntact at h
  split at h
  · -- arrays
    rename_i a b h1 h2
    split at h
    · rename_i he
      simp only [Bool.and_eq_true, List.isEmpty_iff] at he
      rw [h1, h2, he.1, he.2]; exact SameVal.rfl' _
    · split at h
      · cases h
      · exact sameVal_of_identEq hx hc h
  · split at h
    · cases h
    · exact sameVal_of_identEq hx hc h
  · cases h
  · cases h
  · cases h
  · cases h
  · rename_i a b h1 h2
    split at h
    · simp only [Option.some.injEq, beq_iff_eq] at h
      rw [h1, h2, h]; exact SameVal.rfl' _
    · split at h <;> cases h
  · rename_i h1 h2; rw [h1, h2]; exact SameVal.rfl' _
  · rename_i a b h1 h2
    simp only [Option.some.injEq, beq_iff_eq] at h
    rw [h1, h2, h]; exact SameVal.rfl' _
  · rename_i h1 h2; rw [h1, h2]; exact SameVal.rfl' _
  · rename_i q h1 h2
    simp only [Option.some.injEq] at h
    rw [h1, h2]; exact Or.inr ⟨rfl, h⟩
  · rename_i q h1 h2
    simp only [Option.some.injEq] at h
    rw [h1, h2]; exact Or.inr ⟨h, rfl⟩
  · rename_i a b h1 h2
    simp only [Option.some.injEq, beq_iff_eq] at h
    rw [h1, h2, h]; exact SameVal.rfl' _
  · cases h
  · simp only [Option.some.injEq] at h
    exact Or.inl (JV.eq_of_beq' h)

/-! ### `navigated` -/

/-- ONE NAVIGATION STEP keeps the whole invariant -/
theorem All.navigated {W : World} {x : St} (hx : Pre W x) {k w : JV} (hw : funcIndex2 x.v k = .ok w) (iter : Bool) :
    All (Post W x.ctx.isSome) (navigated x k w iter) := by
  unfold Spec.navigated
  split
  · rename_i hc
    rw [hc]
    exact All.one ⟨hx.1.child hw, True.intro, rfl⟩
  · rename_i c hc
    rw [hc]
    have hcx : CtxOK W (some c) := hc ▸ hx.2
    obtain ⟨⟨w0, hw0, hs0⟩, hid⟩ := hcx
    split
    · rename_i hint
      have hsame := pathIntact_same hx.1 hid hint
      have hz := zeroNum_false_of_index hw
      have he : x.v = c.w := hsame.eq_of_not_zero_left hz
      have he0 : w0 = c.w := hs0.eq_of_not_zero (he ▸ hz)
      subst he0
      have hchild : IdOK W w (childIdent c.wid k) := hid.child (he ▸ hw)
      refine All.one ⟨hchild, ⟨⟨w, ?_, SameVal.rfl' w⟩, hchild⟩, rfl⟩
      show nav W.root (c.path ++ [k]) = .ok w
      rw [nav_snoc _ _ _ _ hw0, ← he, hw]
    · exact All.fail _
    · exact All.unmodelled _

/-! ### `iterate` -/

/-- what `.[]` needs of the container it enumerates so that every (key, value) it yields is
    found again by indexing with that key: array indices fit a Go `int`, object keys are
    distinct -/
def Shallow : JV → Prop
  | .arr xs => (xs.length : Int) ≤ maxInt
  | .obj kvs => ∀ k x, (k, x) ∈ kvs → kvLookup k kvs = some x
  | _ => True

/-- every container reachable in `v` is `Shallow` -/
def Good (v : JV) : Prop := ∀ p w, nav v p = .ok w → Shallow w

structure World.Good (W : World) : Prop where
  root : C02.Good W.root
  ρ : ∀ r, C02.Good (W.ρ r)

theorem mem_zip_range' {α : Type} : ∀ (xs : List α) (s n : Nat) (i : Nat) (x : α),
    (i, x) ∈ (List.range' s n).zip xs → s ≤ i ∧ xs[i - s]? = some x
  | [], s, n, i, x, h => by simp at h
  | y :: ys, s, 0, i, x, h => by simp at h
  | y :: ys, s, n + 1, i, x, h => by
    rw [List.range'_succ, List.zip_cons_cons, List.mem_cons] at h
    rcases h with h | h
    · simp only [Prod.mk.injEq] at h
      obtain ⟨rfl, rfl⟩ := h
      simp
    · obtain ⟨h1, h2⟩ := mem_zip_range' ys (s + 1) n i x h
      refine ⟨by omega, ?_⟩
      have : i - s = (i - (s + 1)) + 1 := by omega
      rw [this, List.getElem?_cons_succ]
      exact h2

theorem funcIndex2_arr_nat (xs : List JV) (i : Nat) (x : JV) (hlen : (xs.length : Int) ≤ maxInt)
    (hx : xs[i]? = some x) : funcIndex2 (.arr xs) (jvInt (i : Nat)) = .ok x := by
  have hi : i < xs.length := by
    rcases Nat.lt_or_ge i xs.length with h | h
    · exact h
    · rw [List.getElem?_eq_none h] at hx; cases hx
  have h1 : toInt? (jvInt (i : Nat)) = some (i : Int) := by
    simp only [jvInt, toInt?]
    have : ¬ ((i : Int) < minInt) := by unfold minInt; omega
    have h2 : ¬ ((i : Int) > maxInt) := by omega
    simp [this, h2]
  have h2 : clampIndex (i : Int) (-1) (xs.length : Int) = (i : Int) := by
    unfold clampIndex
    have : ¬ ((i : Int) < 0) := by omega
    simp only [this, if_false]
    have h3 : ¬ ((i : Int) < -1) := by omega
    have h4 : (i : Int) < (xs.length : Int) := by omega
    simp [h3, h4]
  show funcIndex2 (.arr xs) (.num (.int (i : Nat))) = .ok x
  simp only [funcIndex2]
  change (pure (indexArr xs ((toInt? (jvInt (i : Nat))).getD 0)) : NRes) = .ok x
  rw [h1]
  simp only [Option.getD_some, indexArr, h2]
  have h5 : (0 : Int) ≤ (i : Int) ∧ (i : Int) < (xs.length : Int) := ⟨by omega, by omega⟩
  simp only [h5, and_self, if_true, Int.toNat_natCast]
  rw [List.getD_eq_getElem?_getD, hx]
  rfl

/-- every (key, value) pair `.[]` yields is found again by indexing with the key -/
theorem iterItems_index {v : JV} (hv : Shallow v) {items : List (JV × JV)} (hi : iterItems v = some items) :
    ∀ kw ∈ items, funcIndex2 v kw.1 = .ok kw.2 := by
  intro kw hkw
  cases v with
  | arr xs =>
    simp only [iterItems, Option.some.injEq] at hi
    subst hi
    simp only [List.mem_map] at hkw
    obtain ⟨⟨i, x⟩, hmem, rfl⟩ := hkw
    rw [List.range_eq_range'] at hmem
    obtain ⟨_, hx⟩ := mem_zip_range' xs 0 xs.length i x hmem
    exact funcIndex2_arr_nat xs i x hv (by simpa using hx)
  | obj kvs =>
    simp only [iterItems, Option.some.injEq] at hi
    subst hi
    simp only [List.mem_map] at hkw
    obtain ⟨⟨k, x⟩, hmem, rfl⟩ := hkw
    show funcIndex2 (.obj kvs) (.str k) = .ok x
    simp only [funcIndex2]
    rw [hv k x hmem]
    rfl
  | null => simp [iterItems] at hi
  | bool _ => simp [iterItems] at hi
  | num _ => simp [iterItems] at hi
  | str _ => simp [iterItems] at hi

theorem iterItems_zeroNum {v : JV} {items : List (JV × JV)} (hi : iterItems v = some items) : zeroNum v = false := by
  cases v <;> first | rfl | simp [iterItems] at hi

/-- `.[]` keeps the whole invariant -/
theorem All.iterate {W : World} (hW : W.Good) {x : St} (hx : Pre W x) :
    All (Post W x.ctx.isSome) (iterate x) := by
  unfold Spec.iterate
  split
  · exact All.fail _
  · rename_i items hitems
    have hz := iterItems_zeroNum hitems
    split
    · rename_i hc
      rw [hc]
      intro y hy
      simp only [List.mem_map] at hy
      obtain ⟨⟨k, w⟩, hmem, rfl⟩ := hy
      refine ⟨?_, True.intro, rfl⟩
      show IdOK W w (childIdent x.id k)
      cases hid : x.id with
      | known r p =>
        obtain ⟨v0, hv0, hs⟩ := hx.1 r p hid
        have : v0 = x.v := hs.eq_of_not_zero hz
        subst this
        have hsh : Shallow x.v := hW.ρ r p x.v hv0
        have := iterItems_index hsh hitems (k, w) hmem
        rw [← hid]
        exact hx.1.child this
      | fresh => intro r p h; simp [childIdent] at h
      | unknown => intro r p h; simp [childIdent] at h
    · rename_i c hc
      rw [hc]
      have hcx : CtxOK W (some c) := hc ▸ hx.2
      obtain ⟨⟨w0, hw0, hs0⟩, hid⟩ := hcx
      split
      · rename_i hint
        have hsame := pathIntact_same hx.1 hid hint
        have he : x.v = c.w := hsame.eq_of_not_zero_left hz
        have he0 : w0 = c.w := hs0.eq_of_not_zero (he ▸ hz)
        subst he0
        have hsh : Shallow x.v := he ▸ hW.root c.path c.w hw0
        intro y hy
        simp only [List.mem_map] at hy
        obtain ⟨⟨k, w⟩, hmem, rfl⟩ := hy
        have hidx := iterItems_index hsh hitems (k, w) hmem
        have hchild : IdOK W w (childIdent c.wid k) := hid.child (he ▸ hidx)
        refine ⟨hchild, ⟨⟨w, ?_, SameVal.rfl' w⟩, hchild⟩, rfl⟩
        show nav W.root (c.path ++ [k]) = .ok w
        rw [nav_snoc _ _ _ _ hw0, ← he]; exact hidx
      · exact All.fail _
      · exact All.unmodelled _

/-! ### `getpath`, slices -/

theorem getpathV_go_nav (v : JV) (path : List JV) : ∀ (rest : List JV) (cur w : JV),
    getpathV.go v path cur rest = .ok w → nav cur rest = .ok w
  | [], cur, w, h => by
    simp only [getpathV.go] at h
    exact h
  | k :: rest, cur, w, h => by
    rw [nav_cons]
    simp only [getpathV.go] at h
    cases h1 : funcIndex2 cur k with
    | error e =>
      rw [h1] at h
      split at h <;> cases h
    | ok u =>
      rw [h1] at h
      have h2 : getpathV.go v path u rest = .ok w := by
        split at h
        · exact h
        · exact h
        · exact h
        · cases h
      exact getpathV_go_nav v path rest u w h2

theorem getpathV_nav {v : JV} {path : List JV} {w : JV} (h : getpathV v path = .ok w) : nav v path = .ok w :=
  getpathV_go_nav v path path v w h

/-- the key the evaluator records for `.[st:en]` denotes that slice -/
theorem funcIndex2_sliceKey (v en st : JV) :
    funcIndex2 v (.obj [(B "end", en), (B "start", st)]) = funcSlice v en st := by
  have h1 : kvLookup (B "start") [(B "end", en), (B "start", st)] = some st := by
    have : (B "start" == B "end") = false := by decide +kernel
    simp [kvLookup, this]
  have h2 : kvLookup (B "end") [(B "end", en), (B "start", st)] = some en := by
    simp [kvLookup]
  cases v <;> simp only [funcIndex2, h1, h2] <;> rfl

theorem nav_same {a b : JV} (hs : SameVal a b) : ∀ {p : List JV} {w : JV}, nav a p = .ok w →
    ∃ w', nav b p = .ok w' ∧ SameVal w' w
  | [], w, h => by
    simp only [nav_nil, Except.ok.injEq] at h; subst h
    exact ⟨b, rfl, hs.symm⟩
  | k :: rest, w, h => by
    have h' := h
    rw [nav_cons] at h'
    cases h1 : funcIndex2 a k with
    | error e => rw [h1] at h'; cases h'
    | ok u =>
      have : a = b := hs.eq_of_not_zero_left (zeroNum_false_of_index h1)
      subst this
      exact ⟨w, h, SameVal.rfl' w⟩

/-- the `getpath(p)` special form keeps the whole invariant -/
theorem All.getpathStep {W : World} {s : St} (hs : Pre W s) {path : List JV} {w : JV}
    (hw : getpathV s.v path = .ok w) :
    All (Post W s.ctx.isSome)
      (match s.ctx with
        | none => .one { v := w, id := path.foldl childIdent s.id, ctx := none }
        | some c =>
          match pathIntact s c with
          | some true =>
            let wid := path.foldl childIdent c.wid
            .one { v := w, id := wid, ctx := some { path := c.path ++ path, w := w, wid := wid } }
          | some false => .fail (.builtin "invalidPath" [s.v])
          | none => .unmodelled "pathIntact: pointer identity not decidable in the model") := by
  have hnav := getpathV_nav hw
  split
  · rename_i hc
    rw [hc]
    exact All.one ⟨IdOK.childs path hs.1 hnav, True.intro, rfl⟩
  · rename_i c hc
    rw [hc]
    have hcx : CtxOK W (some c) := hc ▸ hs.2
    obtain ⟨⟨w0, hw0, hs0⟩, hid⟩ := hcx
    split
    · rename_i hint
      have hsame := pathIntact_same hs.1 hid hint
      -- navigate from c.w instead of s.v
      obtain ⟨w1, hw1, hs1⟩ := nav_same hsame hnav
      obtain ⟨w2, hw2, hs2⟩ := nav_same hs0.symm hw1
      have hidw1 : IdOK W w1 (path.foldl childIdent c.wid) := IdOK.childs path hid hw1
      have hidw : IdOK W w (path.foldl childIdent c.wid) := hidw1.same hs1
      refine All.one ⟨hidw, ⟨⟨w2, ?_, hs2.trans hs1⟩, hidw⟩, rfl⟩
      show nav W.root (c.path ++ path) = .ok w2
      rw [nav_append_ok _ _ _ _ hw0]; exact hw2
    · exact All.fail _
    · exact All.unmodelled _

end Gojq.C02

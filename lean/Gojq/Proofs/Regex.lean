/-
  Helper lemmas for C14.  Core Lean only.

  Plan: a valid UTF-8 string is `encodeRunes cs` for its list `cs` of scalar values
  (Proofs/Codec.lean); the byte offset of the `k`-th rune boundary is `blen cs k`; the byte-level
  loops of sliceString / funcMatch are then shown to compute on `cs` by `take`/`drop`.
-/
import Gojq.Model.Regex
import Gojq.Proofs.Codec
namespace Gojq.Regex
open Gojq Gojq.Utf8 Gojq.Codec

/-! ## valid strings as code-point lists -/

def Scalars (cs : List Nat) : Prop := ∀ c ∈ cs, isScalar c = true

theorem Scalars.take {cs : List Nat} (h : Scalars cs) (k : Nat) : Scalars (cs.take k) :=
  fun c hc => h c (List.mem_of_mem_take hc)
theorem Scalars.drop {cs : List Nat} (h : Scalars cs) (k : Nat) : Scalars (cs.drop k) :=
  fun c hc => h c (List.mem_of_mem_drop hc)
theorem Scalars.tail {c : Nat} {cs : List Nat} (h : Scalars (c :: cs)) : Scalars cs :=
  fun x hx => h x (List.mem_cons_of_mem _ hx)

theorem encodeRunes_nil : encodeRunes [] = [] := rfl
theorem encodeRunes_cons (c : Nat) (cs : List Nat) : encodeRunes (c :: cs) = encodeRune c ++ encodeRunes cs := by
  simp [encodeRunes]
theorem encodeRunes_append (a b : List Nat) : encodeRunes (a ++ b) = encodeRunes a ++ encodeRunes b := by
  simp [encodeRunes]

theorem runes_encode {cs : List Nat} (h : Scalars cs) : runes (encodeRunes cs) = cs :=
  runesAux_encode cs h _ (Nat.le_refl _)

/-- a valid string is the encoding of its own (scalar) code points -/
theorem valid_repr (s : Bytes) (h : valid s = true) : Scalars (runes s) ∧ encodeRunes (runes s) = s := by
  have hs : Scalars (runes s) := runesAux_scalar _ s h
  refine ⟨hs, ?_⟩
  have h1 := implode_runesAux s.length s (Nat.le_refl _) h
  have h2 := flatMap_congr_mem (runes s) (fun r : Nat => implodeRune (r : Int)) (fun r : Nat => encodeRune r)
    (fun r hr => implodeRune_scalar r (hs r hr))
  exact h2.symm.trans h1

/-- byte offset of the `k`-th rune boundary -/
def blen (cs : List Nat) (k : Nat) : Nat := (encodeRunes (cs.take k)).length

theorem blen_zero (cs : List Nat) : blen cs 0 = 0 := by simp [blen, encodeRunes]
theorem blen_all (cs : List Nat) (k : Nat) (h : cs.length ≤ k) : blen cs k = (encodeRunes cs).length := by
  simp [blen, List.take_of_length_le h]
theorem blen_cons_succ (c : Nat) (cs : List Nat) (k : Nat) :
    blen (c :: cs) (k + 1) = (encodeRune c).length + blen cs k := by
  simp [blen, encodeRunes_cons]

theorem take_blen (cs : List Nat) (k : Nat) : (encodeRunes cs).take (blen cs k) = encodeRunes (cs.take k) := by
  have h : encodeRunes cs = encodeRunes (cs.take k) ++ encodeRunes (cs.drop k) := by
    rw [← encodeRunes_append, List.take_append_drop]
  rw [h, blen, List.take_left']
  rfl
theorem drop_blen (cs : List Nat) (k : Nat) : (encodeRunes cs).drop (blen cs k) = encodeRunes (cs.drop k) := by
  have h : encodeRunes cs = encodeRunes (cs.take k) ++ encodeRunes (cs.drop k) := by
    rw [← encodeRunes_append, List.take_append_drop]
  rw [h, blen, List.drop_left']
  rfl

theorem take_split (cs : List Nat) (a b : Nat) (h : a ≤ b) :
    cs.take b = cs.take a ++ (cs.drop a).take (b - a) := by
  have : b = a + (b - a) := by omega
  rw [this, List.take_add]
  simp

theorem blen_split (cs : List Nat) (a b : Nat) (h : a ≤ b) :
    blen cs b = blen cs a + (encodeRunes ((cs.drop a).take (b - a))).length := by
  simp only [blen]
  rw [take_split cs a b h, encodeRunes_append, List.length_append]

theorem blen_mono (cs : List Nat) (a b : Nat) (h : a ≤ b) : blen cs a ≤ blen cs b := by
  rw [blen_split cs a b h]; omega

theorem encodeRunes_length_ge (cs : List Nat) : cs.length ≤ (encodeRunes cs).length := by
  induction cs with
  | nil => simp [encodeRunes]
  | cons c cs ih =>
    rw [encodeRunes_cons, List.length_append, List.length_cons]
    have := encodeRune_length_pos c
    omega

theorem blen_lt (cs : List Nat) (a b : Nat) (h : a < b) (hb : b ≤ cs.length) : blen cs a < blen cs b := by
  rw [blen_split cs a b (Nat.le_of_lt h)]
  have := encodeRunes_length_ge ((cs.drop a).take (b - a))
  simp only [List.length_take, List.length_drop] at this
  omega

/-- boundaries at equal / ordered byte offsets are equal / ordered code-point positions -/
theorem blen_le_inv (cs : List Nat) (a b : Nat) (ha : a ≤ cs.length) (hb : b ≤ cs.length)
    (h : blen cs a ≤ blen cs b) : a ≤ b := by
  by_cases hab : a ≤ b
  · exact hab
  · have := blen_lt cs b a (by omega) ha
    omega

theorem slice_blen (cs : List Nat) (a b : Nat) (h : a ≤ b) :
    ((encodeRunes cs).drop (blen cs a)).take (blen cs b - blen cs a) = encodeRunes ((cs.drop a).take (b - a)) := by
  rw [drop_blen, blen_split cs a b h]
  have h2 : encodeRunes (cs.drop a) =
      encodeRunes ((cs.drop a).take (b - a)) ++ encodeRunes ((cs.drop a).drop (b - a)) := by
    rw [← encodeRunes_append, List.take_append_drop]
  rw [h2, Nat.add_sub_cancel_left, List.take_left']
  rfl

/-! ## runeStart on a valid string -/

theorem encode_cons_ne_nil (c : Nat) (cs : List Nat) :
    ∃ b t, encodeRune c ++ encodeRunes cs = b :: t := by
  have hpos := encodeRune_length_pos c
  cases hx : encodeRune c ++ encodeRunes cs with
  | nil => have := congrArg List.length hx; simp only [List.length_append, List.length_nil] at this; omega
  | cons b t => exact ⟨b, t, rfl⟩

theorem runeStartAux_encode : ∀ (cs : List Nat), Scalars cs → ∀ (k fuel : Nat), k ≤ cs.length → k + 1 ≤ fuel →
    runeStartAux fuel (encodeRunes cs) k = blen cs k := by
  intro cs
  induction cs with
  | nil =>
    intro _ k fuel hk hf
    have : k = 0 := by simpa using hk
    subst this
    cases fuel with
    | zero => omega
    | succ fuel => simp [runeStartAux, blen, encodeRunes]
  | cons c cs ih =>
    intro hs k fuel hk hf
    cases fuel with
    | zero => omega
    | succ fuel =>
      cases k with
      | zero => simp [runeStartAux, blen_zero]
      | succ k =>
        rw [encodeRunes_cons]
        obtain ⟨b, t, hbt⟩ := encode_cons_ne_nil c cs
        have hd := decode_encode c (hs c (List.mem_cons_self ..)) (encodeRunes cs)
        rw [hbt] at hd
        have hpos := encodeRune_length_pos c
        rw [hbt]
        simp only [runeStartAux, hd]
        have hw : max (encodeRune c).length 1 = (encodeRune c).length := by omega
        rw [hw, ← hbt, List.drop_left', blen_cons_succ]
        · rw [ih hs.tail k fuel (by simpa using hk) (by omega)]
        · rfl

theorem runeStart_encode (cs : List Nat) (hs : Scalars cs) (k : Nat) (hk : k ≤ cs.length) :
    runeStart (encodeRunes cs) k = blen cs k := by
  apply runeStartAux_encode cs hs k _ hk
  have := encodeRunes_length_ge cs
  omega

/-- the two `if start < l { for … } else { start = len(v) }` blocks of sliceString compute `blen` -/
theorem offset_encode (cs : List Nat) (hs : Scalars cs) (k : Nat) (hk : k ≤ cs.length) :
    (if (k : Int) < ((cs.length : Nat) : Int) then runeStart (encodeRunes cs) k else (encodeRunes cs).length) = blen cs k := by
  split
  · exact runeStart_encode cs hs k hk
  · rw [blen_all]; omega

/-! ## clampIndex -/

theorem clamp_start_range (i l : Int) (hl : 0 ≤ l) : 0 ≤ clampIndex i 0 l ∧ clampIndex i 0 l ≤ l := by
  unfold clampIndex; simp only []
  split <;> split <;> (try split) <;> omega

theorem clamp_end_range (i st l : Int) (h0 : 0 ≤ st) (hl : st ≤ l) :
    st ≤ clampIndex i st l ∧ clampIndex i st l ≤ l := by
  unfold clampIndex; simp only []
  split <;> split <;> (try split) <;> omega

theorem clamp_id (i mn mx : Int) (h0 : 0 ≤ i) (h1 : mn ≤ i) (h2 : i ≤ mx) : clampIndex i mn mx = i := by
  unfold clampIndex; simp only []
  split <;> split <;> (try split) <;> omega

/-- clampIndex in plain words -/
theorem clamp_spec (i mn mx : Int) :
    clampIndex i mn mx = (let j := if i < 0 then i + mx else i; if j < mn then mn else if j < mx then j else mx) := rfl

/-! ## sliceString on a valid string -/

theorem slice_core (cs : List Nat) (hs : Scalars cs) (start end_ : Int)
    (h1 : 0 ≤ start ∧ start ≤ ((cs.length : Nat) : Int)) (h2 : start ≤ end_ ∧ end_ ≤ ((cs.length : Nat) : Int)) :
    ((encodeRunes cs).drop (if start < ((cs.length : Nat) : Int) then runeStart (encodeRunes cs) start.toNat else (encodeRunes cs).length)).take
      ((if end_ < ((cs.length : Nat) : Int) then runeStart (encodeRunes cs) end_.toNat else (encodeRunes cs).length)
        - (if start < ((cs.length : Nat) : Int) then runeStart (encodeRunes cs) start.toNat else (encodeRunes cs).length))
      = encodeRunes ((cs.drop start.toNat).take (end_.toNat - start.toNat)) := by
  obtain ⟨a, rfl⟩ := Int.eq_ofNat_of_zero_le h1.1
  obtain ⟨b, rfl⟩ := Int.eq_ofNat_of_zero_le (Int.le_trans h1.1 h2.1)
  simp only [Int.toNat_natCast]
  have ha : a ≤ cs.length := by omega
  have hb : b ≤ cs.length := by omega
  have hab : a ≤ b := by omega
  rw [offset_encode cs hs a ha, offset_encode cs hs b hb]
  exact slice_blen cs a b hab

theorem sliceStr_encode (cs : List Nat) (hs : Scalars cs) (e st : Option Int) :
    sliceStr (encodeRunes cs) e st = encodeRunes (sliceList cs e st) := by
  unfold sliceStr sliceOffsets sliceList strLength
  rw [runes_encode hs]
  have hl : (0 : Int) ≤ ((cs.length : Nat) : Int) := Int.natCast_nonneg _
  cases st with
  | none =>
    cases e with
    | none => exact slice_core cs hs _ _ ⟨Int.le_refl _, hl⟩ ⟨hl, Int.le_refl _⟩
    | some j => exact slice_core cs hs _ _ ⟨Int.le_refl _, hl⟩ (clamp_end_range j _ _ (Int.le_refl _) hl)
  | some i =>
    have h1 := clamp_start_range i _ hl
    cases e with
    | none => exact slice_core cs hs _ _ h1 ⟨h1.2, Int.le_refl _⟩
    | some j => exact slice_core cs hs _ _ h1 (clamp_end_range j _ _ h1.1 h1.2)

/-! ## rune boundaries of a valid string -/

theorem boundsAux_encode : ∀ (cs : List Nat), Scalars cs → ∀ (fuel off b : Nat), (encodeRunes cs).length ≤ fuel →
    b ∈ boundsAux fuel (encodeRunes cs) off → ∃ k, k ≤ cs.length ∧ b = off + blen cs k := by
  intro cs
  induction cs with
  | nil =>
    intro _ fuel off b _ hb
    refine ⟨0, Nat.le_refl _, ?_⟩
    cases fuel <;> simp [boundsAux, encodeRunes] at hb <;> simp [hb, blen_zero]
  | cons c cs ih =>
    intro hs fuel off b hf hb
    rw [encodeRunes_cons] at hf hb
    obtain ⟨b0, t, hbt⟩ := encode_cons_ne_nil c cs
    have hd := decode_encode c (hs c (List.mem_cons_self ..)) (encodeRunes cs)
    have hpos := encodeRune_length_pos c
    rw [hbt] at hd
    cases fuel with
    | zero => simp only [List.length_append] at hf; omega
    | succ fuel =>
      rw [hbt] at hb
      simp only [boundsAux, hd, List.mem_cons] at hb
      have hw : max (encodeRune c).length 1 = (encodeRune c).length := by omega
      rw [hw, ← hbt, List.drop_left' rfl] at hb
      rcases hb with rfl | hb
      · exact ⟨0, Nat.zero_le _, by simp [blen_zero]⟩
      · obtain ⟨k, hk, rfl⟩ := ih hs.tail fuel _ b (by simp only [List.length_append] at hf; omega) hb
        exact ⟨k + 1, by simpa using hk, by rw [blen_cons_succ]; omega⟩

theorem isBoundary_encode (cs : List Nat) (hs : Scalars cs) (z : Int) (h : isBoundary (encodeRunes cs) z = true) :
    ∃ k, k ≤ cs.length ∧ z = ((blen cs k : Nat) : Int) := by
  unfold isBoundary boundaries at h
  simp only [Bool.and_eq_true, decide_eq_true_eq, List.contains_iff_mem] at h
  obtain ⟨k, hk, he⟩ := boundsAux_encode cs hs _ 0 _ (Nat.le_refl _) h.2
  exact ⟨k, hk, by omega⟩

/-! ## funcMatch on an answer satisfying matchesOK -/

theorem blen_le_length (cs : List Nat) (k : Nat) : blen cs k ≤ (encodeRunes cs).length := by
  by_cases h : k ≤ cs.length
  · rw [← blen_all cs cs.length (Nat.le_refl _)]; exact blen_mono cs k _ h
  · rw [blen_all cs k (by omega)]; exact Nat.le_refl _

theorem goSlice_blen (cs : List Nat) (a b : Nat) (hab : a ≤ b) :
    goSlice (encodeRunes cs) ((blen cs a : Nat) : Int) ((blen cs b : Nat) : Int)
      = some (encodeRunes ((cs.drop a).take (b - a))) := by
  unfold goSlice
  have h1 := blen_mono cs a b hab
  have h2 := blen_le_length cs b
  rw [if_pos ⟨by omega, by omega, by omega⟩]
  simp only [Int.toNat_natCast]
  rw [slice_blen cs a b hab]

theorem runeCountTo_blen (cs : List Nat) (hs : Scalars cs) (k : Nat) (hk : k ≤ cs.length) :
    runeCountTo (encodeRunes cs) ((blen cs k : Nat) : Int) = some ((k : Nat) : Int) := by
  unfold runeCountTo goSlice
  have h2 := blen_le_length cs k
  rw [if_pos ⟨by omega, by omega, by omega⟩]
  simp only [Int.toNat_natCast, Int.toNat_zero, List.drop_zero, Nat.sub_zero]
  rw [take_blen, runes_encode (hs.take k), List.length_take, Nat.min_eq_left hk]

/-- capture `c` is an absent group, or describes the code points `[k0, k1)` of `cs` -/
def CapOK (cs : List Nat) (c : Cap) : Prop :=
  (c.string = none ∧ c.offset = -1 ∧ c.length = 0) ∨
  ∃ k0 k1 : Nat, k0 ≤ k1 ∧ k1 ≤ cs.length ∧ c.offset = ((k0 : Nat) : Int) ∧ c.length = ((k1 : Nat) : Int) - ((k0 : Nat) : Int) ∧
    c.string = some (encodeRunes ((cs.drop k0).take (k1 - k0)))

/-- match `m` describes the code points `[k0, k1)` of `cs` -/
def Spans (cs : List Nat) (m : Match) (k0 k1 : Nat) : Prop :=
  k0 ≤ k1 ∧ k1 ≤ cs.length ∧ m.offset = ((k0 : Nat) : Int) ∧ m.length = ((k1 : Nat) : Int) - ((k0 : Nat) : Int) ∧
    m.string = encodeRunes ((cs.drop k0).take (k1 - k0)) ∧ ∀ c ∈ m.captures, CapOK cs c

/-- successive matches span ordered, non-overlapping code-point ranges starting at or after `p` -/
inductive Chain (cs : List Nat) : Nat → List Match → Prop
  | nil (p : Nat) : Chain cs p []
  | cons {p k0 k1 : Nat} {m : Match} {ms : List Match} :
      p ≤ k0 → Spans cs m k0 k1 → Chain cs k1 ms → Chain cs p (m :: ms)

def nameOf (n : Bytes) : Option Bytes := if n.isEmpty then none else some n

theorem group_positions (cs : List Nat) (hs : Scalars cs) (a b : Int) (h0 : 0 ≤ a)
    (h : groupOK (encodeRunes cs) (a, b) = true) :
    ∃ k0 k1 : Nat, k0 ≤ k1 ∧ k1 ≤ cs.length ∧ a = ((blen cs k0 : Nat) : Int) ∧ b = ((blen cs k1 : Nat) : Int) := by
  unfold groupOK at h
  simp only [Bool.or_eq_true, Bool.and_eq_true, beq_iff_eq, decide_eq_true_eq] at h
  rcases h with ⟨h1, _⟩ | ⟨⟨ha, hb⟩, hab⟩
  · omega
  · obtain ⟨k0, hk0, rfl⟩ := isBoundary_encode cs hs a ha
    obtain ⟨k1, hk1, rfl⟩ := isBoundary_encode cs hs b hb
    exact ⟨k0, k1, blen_le_inv cs k0 k1 hk0 hk1 (by omega), hk1, rfl, rfl⟩

theorem mkCap_ok (cs : List Nat) (hs : Scalars cs) (n : Bytes) (a b : Int)
    (h : groupOK (encodeRunes cs) (a, b) = true) :
    ∃ c, mkCap (encodeRunes cs) n a b = some c ∧ CapOK cs c ∧ c.name = nameOf n := by
  by_cases ha : a < 0
  · refine ⟨_, by unfold mkCap; rw [if_pos ha], Or.inl ⟨rfl, rfl, rfl⟩, rfl⟩
  · obtain ⟨k0, k1, h01, hk1, rfl, rfl⟩ := group_positions cs hs a b (by omega) h
    have hc : mkCap (encodeRunes cs) n ((blen cs k0 : Nat) : Int) ((blen cs k1 : Nat) : Int) =
        some { name := nameOf n, offset := ((k0 : Nat) : Int), length := ((k1 : Nat) : Int) - ((k0 : Nat) : Int),
               string := some (encodeRunes ((cs.drop k0).take (k1 - k0))) } := by
      unfold mkCap
      rw [if_neg ha, runeCountTo_blen cs hs k0 (by omega), runeCountTo_blen cs hs k1 hk1, goSlice_blen cs k0 k1 h01]
      rfl
    exact ⟨_, hc, Or.inr ⟨k0, k1, h01, hk1, rfl, rfl, rfl⟩, rfl⟩

theorem mkCaps_ok (cs : List Nat) (hs : Scalars cs) : ∀ (ps : List (Int × Int)) (ns : List Bytes),
    ns.length = ps.length → ps.all (groupOK (encodeRunes cs)) = true →
    ∃ caps, mkCaps (encodeRunes cs) ns ps = some caps ∧ (∀ c ∈ caps, CapOK cs c) ∧ caps.map (·.name) = ns.map nameOf := by
  intro ps
  induction ps with
  | nil =>
    intro ns hl _
    have : ns = [] := by simpa using hl
    subst this
    exact ⟨[], by simp [mkCaps], by simp, rfl⟩
  | cons p ps ih =>
    intro ns hl hall
    obtain ⟨a, b⟩ := p
    cases ns with
    | nil => simp at hl
    | cons n ns =>
      simp only [List.all_cons, Bool.and_eq_true] at hall
      obtain ⟨c, hc, hok, hn⟩ := mkCap_ok cs hs n a b hall.1
      obtain ⟨caps, hcaps, hoks, hns⟩ := ih ns (by simpa using hl) hall.2
      refine ⟨c :: caps, by simp only [mkCaps, hc, hcaps], ?_, by simp [hn, hns]⟩
      intro x hx
      rcases List.mem_cons.mp hx with rfl | hx
      · exact hok
      · exact hoks x hx

theorem pairs_length : ∀ x : List Int, (pairs x).length = x.length / 2
  | [] => rfl
  | [_] => by simp [pairs]
  | a :: b :: rest => by
    simp only [pairs, List.length_cons, pairs_length rest]
    omega

theorem mkMatch_ok (cs : List Nat) (hs : Scalars cs) (names : List Bytes) (x : List Int)
    (h : matchOK (encodeRunes cs) names x = true) :
    ∃ m k0 k1 rest, x = ((blen cs k0 : Nat) : Int) :: ((blen cs k1 : Nat) : Int) :: rest ∧
      mkMatch (encodeRunes cs) names x = some m ∧ Spans cs m k0 k1 ∧ m.captures.map (·.name) = capNames names := by
  unfold matchOK at h
  match x, h with
  | [], h => simp at h
  | [_], h => simp at h
  | a :: b :: rest, h =>
    simp only [Bool.and_eq_true, beq_iff_eq, decide_eq_true_eq, pairs, List.all_cons, List.length_cons] at h
    obtain ⟨⟨⟨⟨_, _⟩, hn⟩, hg, hgs⟩, h0⟩ := h
    obtain ⟨k0, k1, h01, hk1, rfl, rfl⟩ := group_positions cs hs a b h0 hg
    have hlen : names.tail.length = (pairs rest).length := by
      rw [pairs_length, List.length_tail, hn]; omega
    obtain ⟨caps, hcaps, hoks, hns⟩ := mkCaps_ok cs hs (pairs rest) names.tail hlen hgs
    have hm : mkMatch (encodeRunes cs) names (((blen cs k0 : Nat) : Int) :: ((blen cs k1 : Nat) : Int) :: rest) =
        some { offset := ((k0 : Nat) : Int), length := ((k1 : Nat) : Int) - ((k0 : Nat) : Int),
               string := encodeRunes ((cs.drop k0).take (k1 - k0)), captures := caps } := by
      simp only [mkMatch, pairs, hcaps, runeCountTo_blen cs hs k0 (by omega), runeCountTo_blen cs hs k1 hk1,
        goSlice_blen cs k0 k1 h01]
    exact ⟨_, k0, k1, rest, rfl, hm, ⟨h01, hk1, rfl, rfl, rfl, hoks⟩, by rw [hns]; rfl⟩

theorem mkMatches_ok (cs : List Nat) (hs : Scalars cs) (names : List Bytes) : ∀ (raw : Raw) (kp : Nat),
    kp ≤ cs.length → raw.all (matchOK (encodeRunes cs) names) = true →
    orderedFrom ((blen cs kp : Nat) : Int) raw = true →
    ∃ ms, mkMatches (encodeRunes cs) names raw = some ms ∧ Chain cs kp ms ∧
      ∀ m ∈ ms, m.captures.map (·.name) = capNames names := by
  intro raw
  induction raw with
  | nil => intro kp _ _ _; exact ⟨[], rfl, Chain.nil kp, by simp⟩
  | cons x xs ih =>
    intro kp hkp hall hord
    simp only [List.all_cons, Bool.and_eq_true] at hall
    obtain ⟨m, k0, k1, rest, rfl, hm, hsp, hnm⟩ := mkMatch_ok cs hs names x hall.1
    simp only [orderedFrom, Bool.and_eq_true, decide_eq_true_eq] at hord
    have hp : kp ≤ k0 := blen_le_inv cs kp k0 hkp (by have := hsp.1; have := hsp.2.1; omega) (by omega)
    obtain ⟨ms, hms, hch, hnms⟩ := ih k1 hsp.2.1 hall.2 hord.2
    refine ⟨m :: ms, by simp only [mkMatches, hm, hms], Chain.cons hp hsp hch, ?_⟩
    intro y hy
    rcases List.mem_cons.mp hy with rfl | hy
    · exact hnm
    · exact hnms y hy

/-- packaging: under `matchesOK`, the subject is the encoding of its code points, funcMatch does not
    panic and its matches form an ordered chain of code-point ranges -/
theorem matches_repr (s : Bytes) (names : List Bytes) (raw : Raw) (h : matchesOK s names raw = true) :
    ∃ cs ms, Scalars cs ∧ encodeRunes cs = s ∧ runes s = cs ∧ mkMatches s names raw = some ms ∧ Chain cs 0 ms ∧
      ∀ m ∈ ms, m.captures.map (·.name) = capNames names := by
  unfold matchesOK at h
  simp only [Bool.and_eq_true] at h
  obtain ⟨⟨hv, hall⟩, hord⟩ := h
  obtain ⟨hs, he⟩ := valid_repr s hv
  rw [← he] at hall
  have hord' : orderedFrom ((blen (runes s) 0 : Nat) : Int) raw = true := by rw [blen_zero]; exact hord
  obtain ⟨ms, hms, hch, hnm⟩ := mkMatches_ok (runes s) hs names raw 0 (Nat.zero_le _) hall hord'
  rw [he] at hms
  exact ⟨runes s, ms, hs, he, rfl, hms, hch, hnm⟩

theorem chain_mem {cs : List Nat} {p : Nat} {ms : List Match} (h : Chain cs p ms) :
    ∀ m ∈ ms, ∃ k0 k1, Spans cs m k0 k1 := by
  induction h with
  | nil p => intro m hm; simp at hm
  | cons _ hsp _ ih =>
    intro y hy
    rcases List.mem_cons.mp hy with rfl | hy
    · exact ⟨_, _, hsp⟩
    · exact ih y hy

/-! ## code-point slices by natural-number bounds -/

theorem sliceList_nat {α : Type} (cs : List α) (k0 k1 : Nat) (h01 : k0 ≤ k1) (h1 : k1 ≤ cs.length) :
    sliceList cs (some ((k1 : Nat) : Int)) (some ((k0 : Nat) : Int)) = (cs.drop k0).take (k1 - k0) := by
  unfold sliceList
  simp only []
  rw [clamp_id _ 0 _ (by omega) (by omega) (by omega), clamp_id _ _ _ (by omega) (by omega) (by omega)]
  simp only [Int.toNat_natCast]

/-- `.next` of the splits/sub state: `null` before the first match (position 0), else the position -/
def NextIs (next : Option Int) (p : Nat) : Prop := next = some ((p : Nat) : Int) ∨ (next = none ∧ p = 0)

theorem sliceList_next {α : Type} (cs : List α) (next : Option Int) (p k0 : Nat) (hn : NextIs next p)
    (hp : p ≤ k0) (h0 : k0 ≤ cs.length) :
    sliceList cs (some ((k0 : Nat) : Int)) next = (cs.drop p).take (k0 - p) := by
  rcases hn with rfl | ⟨rfl, rfl⟩
  · exact sliceList_nat cs p k0 hp h0
  · unfold sliceList
    simp only []
    rw [clamp_id _ _ _ (by omega) (by omega) (by omega)]
    simp

theorem sliceList_tail {α : Type} (cs : List α) (next : Option Int) (p : Nat) (hn : NextIs next p)
    (hp : p ≤ cs.length) : sliceList cs none next = cs.drop p := by
  rcases hn with rfl | ⟨rfl, rfl⟩
  · unfold sliceList
    simp only []
    rw [clamp_id _ 0 _ (by omega) (by omega) (by omega)]
    simp only [Int.toNat_natCast]
    exact List.take_of_length_le (by simp)
  · unfold sliceList
    simp

theorem spans_slice (cs : List Nat) (hs : Scalars cs) (m : Match) (k0 k1 : Nat) (h : Spans cs m k0 k1) :
    sliceStr (encodeRunes cs) (some (m.offset + m.length)) (some m.offset) = m.string := by
  obtain ⟨h01, h1, ho, hl, hstr, _⟩ := h
  have : m.offset + m.length = ((k1 : Nat) : Int) := by omega
  rw [sliceStr_encode cs hs, this, ho, sliceList_nat cs k0 k1 h01 h1, hstr]

theorem drop_split3 {α : Type} (cs : List α) (p k0 k1 : Nat) (h0 : p ≤ k0) (h1 : k0 ≤ k1) :
    cs.drop p = (cs.drop p).take (k0 - p) ++ ((cs.drop k0).take (k1 - k0) ++ cs.drop k1) := by
  have e1 : (cs.drop p).drop (k0 - p) = cs.drop k0 := by rw [List.drop_drop]; congr 1; omega
  have e2 : (cs.drop k0).drop (k1 - k0) = cs.drop k1 := by rw [List.drop_drop]; congr 1; omega
  rw [← e2, List.take_append_drop, ← e1, List.take_append_drop]

/-! ## splits -/

theorem interleave_single (p : Bytes) : interleave [p] [] = p := by simp [interleave]

theorem splits_chain (cs : List Nat) (hs : Scalars cs) {p : Nat} {ms : List Match} (h : Chain cs p ms) :
    ∀ next, NextIs next p → p ≤ cs.length →
      interleave (splitsAux (encodeRunes cs) next ms) (ms.map (·.string)) = encodeRunes (cs.drop p) := by
  induction h with
  | nil p =>
    intro next hn hp
    simp only [splitsAux, List.map_nil, interleave_single]
    rw [sliceStr_encode cs hs, sliceList_tail cs next p hn hp]
  | @cons p k0 k1 m ms hp hsp _ ih =>
    intro next hn _
    obtain ⟨h01, h1, ho, hl, hstr, _⟩ := hsp
    have hnext : m.offset + m.length = ((k1 : Nat) : Int) := by omega
    simp only [splitsAux, List.map_cons, interleave]
    rw [ih (some (m.offset + m.length)) (Or.inl (by rw [hnext])) h1, sliceStr_encode cs hs, ho,
      sliceList_next cs next p k0 hn hp (by omega), hstr, List.append_assoc, ← encodeRunes_append,
      ← encodeRunes_append, ← drop_split3 cs p k0 k1 hp h01]

theorem splitsAux_length (s : Bytes) : ∀ (ms : List Match) (next : Option Int),
    (splitsAux s next ms).length = ms.length + 1 := by
  intro ms
  induction ms with
  | nil => intro next; rfl
  | cons m ms ih => intro next; simp [splitsAux, ih]

/-! ## sub / gsub -/

theorem runes_eq_nil (s : Bytes) (h : runes s = []) : s = [] := by
  cases s with
  | nil => rfl
  | cons b t => simp [runes, runesAux] at h

theorem sliceStr_none_none (s : Bytes) : sliceStr s none none = s := by
  unfold sliceStr sliceOffsets
  simp only [Int.lt_irrefl, if_false]
  by_cases h : (0 : Int) < ((strLength s : Nat) : Int)
  · rw [if_pos h]
    have : runeStart s (0 : Int).toNat = 0 := by simp [runeStart, runeStartAux]
    rw [this]
    simp
  · have h0 : strLength s = 0 := by omega
    have : s = [] := runes_eq_nil s (List.length_eq_zero_iff.mp h0)
    subst this
    simp

theorem subFold_single (s : Bytes) : ∀ (ms : List Match) (os : List Bytes) (r0 : Bytes) (next : Option Int),
    ms.length = os.length →
    subFinish s (subFold s ([r0], next) (ms.zip (os.map fun o => [o]))) = [r0 ++ interleave (splitsAux s next ms) os] := by
  intro ms
  induction ms with
  | nil =>
    intro os r0 next hl
    have : os = [] := by simpa using hl.symm
    subst this
    simp [subFold, subFinish, splitsAux, interleave]
  | cons m ms ih =>
    intro os r0 next hl
    cases os with
    | nil => simp at hl
    | cons o os =>
      simp only [List.map_cons, List.zip_cons_cons, subFold, mergeOut]
      rw [ih os _ _ (by simpa using hl)]
      simp [splitsAux, interleave, List.append_assoc]

/-- a replacement with exactly one (string) output per match: `sub` is the interleaving of the
    pieces of `splits` with the replacement outputs -/
theorem subCore_single (s : Bytes) (ms : List Match) (os : List Bytes) (hl : ms.length = os.length) :
    subCore s (ms.zip (os.map fun o => [o])) = [interleave (splits s ms) os] := by
  unfold subCore splits
  cases ms with
  | nil =>
    have : os = [] := by simpa using hl.symm
    subst this
    simp [subFold, subFinish, splitsAux, interleave, sliceStr_none_none]
  | cons m ms =>
    cases os with
    | nil => simp at hl
    | cons o os =>
      simp only [List.map_cons, List.zip_cons_cons, subFold, mergeOut]
      rw [subFold_single s ms os _ _ (by simpa using hl)]
      simp [splitsAux, interleave, List.append_assoc]

theorem map_rep_eq_zip (ms : List Match) (rep : List (Bytes × JV) → List Bytes) (f : Match → Bytes)
    (h : ∀ m ∈ ms, rep (capturesKvs m.captures) = [f m]) :
    ms.map (fun m => (m, rep (capturesKvs m.captures))) = ms.zip ((ms.map f).map fun o => [o]) := by
  induction ms with
  | nil => rfl
  | cons m ms ih =>
    simp only [List.map_cons, List.zip_cons_cons]
    rw [h m (List.mem_cons_self ..), ih (fun x hx => h x (List.mem_cons_of_mem _ hx))]

theorem subFinish_ne_nil (s : Bytes) (st : List Bytes × Option Int) : subFinish s st ≠ [] := by
  unfold subFinish
  split
  · simp
  · rename_i h; simpa using h

/-! ## `_captures` -/

theorem bcmp_refl : ∀ a : Bytes, Bytes.cmp a a = .eq
  | [] => rfl
  | a :: as => by
    simp only [Bytes.cmp]
    have : ¬ a < a := UInt8.lt_irrefl a
    simp [this, bcmp_refl as]

theorem bcmp_eq : ∀ a b : Bytes, Bytes.cmp a b = .eq → a = b
  | [], [], _ => rfl
  | [], _ :: _, h => by simp [Bytes.cmp] at h
  | _ :: _, [], h => by simp [Bytes.cmp] at h
  | a :: as, b :: bs, h => by
    simp only [Bytes.cmp] at h
    split at h
    · cases h
    · split at h
      · cases h
      · rename_i h1 h2
        have : a = b := UInt8.le_antisymm (UInt8.not_lt.mp h2) (UInt8.not_lt.mp h1)
        rw [this, bcmp_eq as bs h]

theorem kvLookup_kvInsert (k n : Bytes) (v : JV) : ∀ l : List (Bytes × JV),
    kvLookup k (kvInsert n v l) = if k = n then some v else kvLookup k l := by
  intro l
  induction l with
  | nil => simp [kvInsert, kvLookup]
  | cons kv rest ih =>
    obtain ⟨k', v'⟩ := kv
    simp only [kvInsert]
    split
    · simp [kvLookup]
    · rename_i he
      have := bcmp_eq n k' he
      subst this
      by_cases hk : k = n
      · simp [kvLookup, hk]
      · simp [kvLookup, hk]
    · rename_i hg
      by_cases hk : k = n
      · subst hk
        have hne : k ≠ k' := by
          intro e; subst e; rw [bcmp_refl] at hg; cases hg
        simp [kvLookup, hne, ih]
      · simp [kvLookup, hk, ih]

/-- fold step of funcCaptures, seen through `kvLookup k` -/
def lastNamedFrom (k : Bytes) (acc : Option JV) (caps : List Cap) : Option JV :=
  caps.foldl (fun acc c => if c.name = some k then some (jOptStr c.string) else acc) acc

theorem capturesFold_lookup (k : Bytes) : ∀ (caps : List Cap) (acc : List (Bytes × JV)),
    kvLookup k (caps.foldl capStep acc) = lastNamedFrom k (kvLookup k acc) caps := by
  intro caps
  induction caps with
  | nil => intro acc; rfl
  | cons c caps ih =>
    intro acc
    simp only [List.foldl_cons, lastNamedFrom]
    rw [ih]
    unfold lastNamedFrom
    congr 1
    unfold capStep
    cases hn : c.name with
    | none => simp
    | some n =>
      simp only [kvLookup_kvInsert, Option.some.injEq]
      by_cases h : k = n
      · simp [h]
      · have : ¬ n = k := fun e => h e.symm
        simp [h, this]

theorem capturesKvs_lookup (k : Bytes) (caps : List Cap) :
    kvLookup k (capturesKvs caps) = lastNamedFrom k none caps := by
  unfold capturesKvs
  rw [capturesFold_lookup]
  rfl

theorem lastNamedFrom_none (k : Bytes) : ∀ (caps : List Cap) (acc : Option JV),
    (∀ c ∈ caps, c.name ≠ some k) → lastNamedFrom k acc caps = acc := by
  intro caps
  induction caps with
  | nil => intro acc _; rfl
  | cons c caps ih =>
    intro acc h
    simp only [lastNamedFrom, List.foldl_cons]
    rw [if_neg (h c (List.mem_cons_self ..))]
    exact ih acc (fun x hx => h x (List.mem_cons_of_mem _ hx))

theorem lastNamedFrom_isSome (k : Bytes) : ∀ (caps : List Cap) (acc : Option JV),
    (lastNamedFrom k acc caps).isSome = true ↔ (acc.isSome = true ∨ ∃ c ∈ caps, c.name = some k) := by
  intro caps
  induction caps with
  | nil => intro acc; simp [lastNamedFrom]
  | cons c caps ih =>
    intro acc
    simp only [lastNamedFrom, List.foldl_cons]
    have := ih (if c.name = some k then some (jOptStr c.string) else acc)
    simp only [lastNamedFrom] at this
    rw [this]
    by_cases h : c.name = some k
    · simp [h]
    · simp [h]

theorem lastNamedFrom_last (k : Bytes) (pre : List Cap) (c : Cap) (post : List Cap) (acc : Option JV)
    (hc : c.name = some k) (hpost : ∀ x ∈ post, x.name ≠ some k) :
    lastNamedFrom k acc (pre ++ c :: post) = some (jOptStr c.string) := by
  simp only [lastNamedFrom, List.foldl_append, List.foldl_cons, hc, if_true]
  exact lastNamedFrom_none k post _ hpost

/-! ## remaining facts used by Props/C14.lean -/

theorem Scalars.sliceList {cs : List Nat} (h : Scalars cs) (e st : Option Int) : Scalars (sliceList cs e st) := by
  unfold Regex.sliceList
  exact (h.drop _).take _

theorem slice_runes (cs : List Nat) (hs : Scalars cs) (e st : Option Int) :
    runes (sliceStr (encodeRunes cs) e st) = sliceList cs e st := by
  rw [sliceStr_encode cs hs, runes_encode (hs.sliceList e st)]

theorem offsets_core (cs : List Nat) (hs : Scalars cs) (start end_ : Int)
    (h1 : 0 ≤ start ∧ start ≤ ((cs.length : Nat) : Int)) (h2 : start ≤ end_ ∧ end_ ≤ ((cs.length : Nat) : Int)) :
    (if start < ((cs.length : Nat) : Int) then runeStart (encodeRunes cs) start.toNat else (encodeRunes cs).length)
      ≤ (if end_ < ((cs.length : Nat) : Int) then runeStart (encodeRunes cs) end_.toNat else (encodeRunes cs).length) ∧
    (if end_ < ((cs.length : Nat) : Int) then runeStart (encodeRunes cs) end_.toNat else (encodeRunes cs).length)
      ≤ (encodeRunes cs).length := by
  obtain ⟨a, rfl⟩ := Int.eq_ofNat_of_zero_le h1.1
  obtain ⟨b, rfl⟩ := Int.eq_ofNat_of_zero_le (Int.le_trans h1.1 h2.1)
  simp only [Int.toNat_natCast]
  rw [offset_encode cs hs a (by omega), offset_encode cs hs b (by omega)]
  exact ⟨blen_mono cs a b (by omega), blen_le_length cs b⟩

theorem sliceOffsets_ok (cs : List Nat) (hs : Scalars cs) (e st : Option Int) :
    (sliceOffsets (encodeRunes cs) e st).1 ≤ (sliceOffsets (encodeRunes cs) e st).2 ∧
    (sliceOffsets (encodeRunes cs) e st).2 ≤ (encodeRunes cs).length := by
  unfold sliceOffsets strLength
  rw [runes_encode hs]
  have hl : (0 : Int) ≤ ((cs.length : Nat) : Int) := Int.natCast_nonneg _
  cases st with
  | none =>
    cases e with
    | none => exact offsets_core cs hs _ _ ⟨Int.le_refl _, hl⟩ ⟨hl, Int.le_refl _⟩
    | some j => exact offsets_core cs hs _ _ ⟨Int.le_refl _, hl⟩ (clamp_end_range j _ _ (Int.le_refl _) hl)
  | some i =>
    have h1 := clamp_start_range i _ hl
    cases e with
    | none => exact offsets_core cs hs _ _ h1 ⟨h1.2, Int.le_refl _⟩
    | some j => exact offsets_core cs hs _ _ h1 (clamp_end_range j _ _ h1.1 h1.2)

theorem runes_encodeRune (c : Nat) (h : isScalar c = true) : runes (encodeRune c) = [c] := by
  have := runes_encode (cs := [c]) (fun x hx => by simp at hx; subst hx; exact h)
  simpa [encodeRunes] using this

theorem indexStr_eq (s : Bytes) (i : Int) : indexStr s i = (indexList (runes s) i).map encodeRune := by
  unfold indexStr indexList
  simp only []
  split
  · cases (runes s)[(clampIndex i (-1) ((runes s).length : Nat)).toNat]? <;> rfl
  · rfl

theorem indexList_mem {α : Type} (cs : List α) (i : Int) (c : α) (h : indexList cs i = some c) : c ∈ cs := by
  unfold indexList at h
  simp only [] at h
  split at h
  · exact List.mem_of_getElem? h
  · cases h

theorem mkMatches_length (s : Bytes) (names : List Bytes) : ∀ (raw : Raw) (ms : List Match),
    mkMatches s names raw = some ms → ms.length = raw.length := by
  intro raw
  induction raw with
  | nil => intro ms h; simp [mkMatches] at h; subst h; rfl
  | cons x xs ih =>
    intro ms h
    cases hm : mkMatch s names x with
    | none => simp [mkMatches, hm] at h
    | some m =>
      cases hms : mkMatches s names xs with
      | none => simp [mkMatches, hm, hms] at h
      | some ms' =>
        simp [mkMatches, hm, hms] at h
        subst h
        simp [ih ms' hms]

theorem mem_indicesList (vs xs : List Nat) (p : Nat) :
    p ∈ indicesList vs xs ↔ xs ≠ [] ∧ p + xs.length ≤ vs.length ∧ (vs.drop p).take xs.length = xs := by
  unfold indicesList
  by_cases hx : xs = []
  · subst hx; simp
  · have : xs.isEmpty = false := by cases xs <;> simp_all
    rw [this]
    simp only [Bool.false_eq_true, if_false, List.mem_filter, List.mem_range, beq_iff_eq]
    constructor
    · rintro ⟨h1, h2⟩
      exact ⟨hx, by omega, h2⟩
    · rintro ⟨_, h1, h2⟩
      have : 0 < xs.length := List.length_pos_iff.mpr hx
      exact ⟨by omega, h2⟩

theorem indicesList_sorted (vs xs : List Nat) : (indicesList vs xs).Pairwise (· < ·) := by
  unfold indicesList
  split
  · exact List.Pairwise.nil
  · exact List.Pairwise.filter _ List.pairwise_lt_range

/-- the engine-level description of `(?<zz>RE)`: group 1 is the whole match and is the only group
    named `zz` -/
def wrappedBy (zz : Bytes) (names : List Bytes) (raw : Raw) : Prop :=
  zz ≠ [] ∧ (∃ n0 ns, names = n0 :: zz :: ns ∧ zz ∉ ns) ∧
  ∀ x ∈ raw, ∃ a b rest, x = a :: b :: a :: b :: rest

theorem mkCap_name (s n : Bytes) (a b : Int) (c : Cap) (h : mkCap s n a b = some c) : c.name = nameOf n := by
  unfold mkCap at h
  by_cases ha : a < 0
  · rw [if_pos ha] at h; cases h; rfl
  · rw [if_neg ha] at h
    split at h
    · cases h; rfl
    · cases h

theorem mkCaps_names (s : Bytes) : ∀ (ns : List Bytes) (ps : List (Int × Int)) (caps : List Cap),
    mkCaps s ns ps = some caps → ∀ c ∈ caps, ∃ n ∈ ns, c.name = nameOf n := by
  intro ns ps
  induction ps generalizing ns with
  | nil => intro caps h; simp [mkCaps] at h; subst h; simp
  | cons p ps ih =>
    intro caps h
    obtain ⟨a, b⟩ := p
    cases ns with
    | nil => simp [mkCaps] at h
    | cons n ns =>
      cases hc : mkCap s n a b with
      | none => simp [mkCaps, hc] at h
      | some c0 =>
        cases hcs : mkCaps s ns ps with
        | none => simp [mkCaps, hc, hcs] at h
        | some cs0 =>
          simp [mkCaps, hc, hcs] at h
          subst h
          intro c hcm
          rcases List.mem_cons.mp hcm with rfl | hcm
          · exact ⟨n, List.mem_cons_self .., mkCap_name s n a b c hc⟩
          · obtain ⟨n', hn', hnm⟩ := ih ns cs0 hcs c hcm
            exact ⟨n', List.mem_cons_of_mem _ hn', hnm⟩

theorem mkMatch_wrapped (s : Bytes) (zz n0 : Bytes) (ns : List Bytes) (a b : Int) (rest : List Int) (m : Match)
    (hz : zz ≠ []) (hns : zz ∉ ns) (h : mkMatch s (n0 :: zz :: ns) (a :: b :: a :: b :: rest) = some m) :
    ∃ c cs, m.captures = c :: cs ∧ c.name = some zz ∧ c.string = some m.string ∧ ∀ x ∈ cs, x.name ≠ some zz := by
  simp only [mkMatch, pairs, List.tail_cons, mkCaps] at h
  cases hc : mkCap s zz a b with
  | none => simp [hc] at h
  | some c =>
    cases hcs : mkCaps s ns (pairs rest) with
    | none => simp [hc, hcs] at h
    | some cs =>
      cases hoa : runeCountTo s a with
      | none => simp [hc, hcs, hoa] at h
      | some oa =>
        cases hob : runeCountTo s b with
        | none => simp [hc, hcs, hoa, hob] at h
        | some ob =>
          cases hstr : goSlice s a b with
          | none => simp [hc, hcs, hoa, hob, hstr] at h
          | some str =>
            simp [hc, hcs, hoa, hob, hstr] at h
            subst h
            have ha : ¬ a < 0 := by
              intro hneg
              unfold runeCountTo goSlice at hoa
              rw [if_neg (by omega)] at hoa
              cases hoa
            have hzn : nameOf zz = some zz := by
              unfold nameOf
              cases zz with
              | nil => exact absurd rfl hz
              | cons _ _ => rfl
            refine ⟨c, cs, rfl, ?_, ?_, ?_⟩
            · unfold mkCap at hc
              rw [if_neg ha, hoa, hob, hstr] at hc
              cases hc
              exact hzn
            · unfold mkCap at hc
              rw [if_neg ha, hoa, hob, hstr] at hc
              cases hc
              rfl
            · intro x hx hxn
              obtain ⟨n, hn, hnm⟩ := mkCaps_names s ns (pairs rest) cs hcs x hx
              rw [hxn] at hnm
              unfold nameOf at hnm
              split at hnm
              · cases hnm
              · cases hnm; exact hns hn

theorem mkMatches_wrapped (s : Bytes) (zz : Bytes) (names : List Bytes) : ∀ (raw : Raw) (ms : List Match),
    wrappedBy zz names raw → mkMatches s names raw = some ms →
    ∀ m ∈ ms, ∃ c cs, m.captures = c :: cs ∧ c.name = some zz ∧ c.string = some m.string ∧ ∀ x ∈ cs, x.name ≠ some zz := by
  intro raw
  induction raw with
  | nil => intro ms _ h; simp [mkMatches] at h; subst h; simp
  | cons x xs ih =>
    intro ms hw h
    obtain ⟨hz, ⟨n0, ns, hnames, hns⟩, hall⟩ := hw
    cases hm : mkMatch s names x with
    | none => simp [mkMatches, hm] at h
    | some m0 =>
      cases hms : mkMatches s names xs with
      | none => simp [mkMatches, hm, hms] at h
      | some ms' =>
        simp [mkMatches, hm, hms] at h
        subst h
        intro m hmem
        rcases List.mem_cons.mp hmem with rfl | hmem
        · obtain ⟨a, b, rest, rfl⟩ := hall x (List.mem_cons_self ..)
          subst hnames
          exact mkMatch_wrapped s zz n0 ns a b rest m hz hns hm
        · exact ih ms' ⟨hz, ⟨n0, ns, hnames, hns⟩, fun y hy => hall y (List.mem_cons_of_mem _ hy)⟩ hms m hmem

theorem fieldRep_wrapped (zz : Bytes) (m : Match)
    (h : ∃ c cs, m.captures = c :: cs ∧ c.name = some zz ∧ c.string = some m.string ∧ ∀ x ∈ cs, x.name ≠ some zz) :
    fieldRep zz (capturesKvs m.captures) = [m.string] := by
  obtain ⟨c, cs, hcap, hn, hstr, hcs⟩ := h
  unfold fieldRep
  rw [capturesKvs_lookup, hcap, show c :: cs = [] ++ c :: cs from rfl, lastNamedFrom_last zz [] c cs none hn hcs, hstr]
  rfl

end Gojq.Regex
